#!/bin/sh
# Builds the framework from files on disk only (offline): Go tools, generated Coq facts, all .vo, extracted driver.
set -e
cd "$(dirname "$0")"
export GOFLAGS=-mod=mod GOPROXY=off GOSUMDB=off GOTOOLCHAIN=local CGO_ENABLED=0
mkdir -p build evidence replays
(cd go/harness && go build -tags verif -o ../../build/harness .)
(cd go/translator && go build -o ../../build/translator .)
./build/translator /repo coq/Gen
(cd coq && coq_makefile -f _CoqProject -o Makefile >/dev/null && timeout 3000 make -j16 >/dev/null 2>build.log || { tail -30 build.log; exit 1; })
python3 -c "
import sys; sys.path.insert(0,'lib')
import common; common.build_driver({})
"
echo setup ok
