"""Shared machinery of the /verif checks: build, proof cone, streams, decision, evidence."""
import fcntl, hashlib, json, os, random, re, subprocess, sys, time

VERIF = os.path.dirname(os.path.dirname(os.path.abspath(__file__)))
REPO = os.environ.get("VERIF_REPO", "/repo")
BUILD = os.path.join(VERIF, "build")
COQ = os.path.join(VERIF, "coq")
REPLAYS = os.path.join(VERIF, "replays")
EVID = os.path.join(VERIF, "evidence")
HARNESS = os.path.join(BUILD, "harness")
DRIVER = os.path.join(BUILD, "model_driver")
TRANSLATOR = os.path.join(BUILD, "translator")
FRUNDIS = os.path.join(BUILD, "frundis")
RUNDIR = os.path.join(BUILD, "run")
os.environ["VERIF_FRUNDIS"] = FRUNDIS
os.environ["VERIF_RUNDIR"] = RUNDIR

GOENV = dict(os.environ, GOFLAGS="-mod=mod", GOPROXY="off", GOSUMDB="off", GOTOOLCHAIN="local", CGO_ENABLED="0")

FORBIDDEN = re.compile(r"\b(Admitted|admit|Axiom|Axioms|Parameter|Parameters|Conjecture|Conjectures|Unset\s+Guard|bypass_check|Admit\s+Obligations|Unset\s+Positivity|Unset\s+Universe|type-in-type)\b")


class Broken(Exception):
    """A tie (proof obligation, translator, static fact, correspondence) no longer checks."""
    def __init__(self, what, detail=""):
        super().__init__(what)
        self.what, self.detail = what, detail


def sh(cmd, cwd=None, env=None, timeout=1800, stdin=None):
    p = subprocess.run(cmd, cwd=cwd, env=env, stdin=stdin, stdout=subprocess.PIPE, stderr=subprocess.STDOUT,
                       timeout=timeout, text=True, errors="replace")
    return p.returncode, p.stdout


class Lock:
    def __enter__(self):
        os.makedirs(BUILD, exist_ok=True)
        self.f = open(os.path.join(BUILD, ".lock"), "w")
        fcntl.flock(self.f, fcntl.LOCK_EX)
        return self

    def __exit__(self, *a):
        fcntl.flock(self.f, fcntl.LOCK_UN)
        self.f.close()


def file_hash(paths):
    h = hashlib.sha256()
    for p in sorted(paths):
        h.update(p.encode())
        try:
            h.update(open(p, "rb").read())
        except OSError:
            h.update(b"<missing>")
    return h.hexdigest()


def repo_sources():
    out = []
    for d, dn, fn in os.walk(REPO):
        dn[:] = [x for x in dn if x not in (".git", "testdata", "doc", "misc")]
        out += [os.path.join(d, f) for f in fn if f.endswith(".go") and not f.endswith("_test.go")]
    return out


def build_go(log):
    """Build harness (with hooks) and translator from /repo's working tree; run the translator."""
    os.makedirs(BUILD, exist_ok=True)
    t0 = time.time()
    rc, out = sh(["go", "build", "-tags", "verif", "-o", HARNESS, "."], cwd=os.path.join(VERIF, "go/harness"), env=GOENV)
    if rc != 0:
        raise Broken("go build of the harness against /repo failed", out[-3000:])
    rc, out = sh(["go", "build", "-o", FRUNDIS, "./cmd/frundis"], cwd=REPO, env=GOENV)
    if rc != 0:
        raise Broken("go build of /repo/cmd/frundis failed", out[-3000:])
    rc, out = sh(["go", "build", "-o", TRANSLATOR, "."], cwd=os.path.join(VERIF, "go/translator"), env=GOENV)
    if rc != 0:
        raise Broken("go build of the translator failed", out[-3000:])
    rc, out = sh([TRANSLATOR, REPO, os.path.join(COQ, "Gen")], env=GOENV)
    if rc != 0:
        raise Broken("translator rejected the source: " + out.strip()[-500:], out[-3000:])
    log["go_build_s"] = round(time.time() - t0, 1)


def ensure_makefile():
    mk = os.path.join(COQ, "Makefile")
    proj = os.path.join(COQ, "_CoqProject")
    if not os.path.exists(mk) or os.path.getmtime(mk) < os.path.getmtime(proj):
        rc, out = sh(["coq_makefile", "-f", "_CoqProject", "-o", "Makefile"], cwd=COQ)
        if rc != 0:
            raise Broken("coq_makefile failed", out)


def coq_cone(targets, log, timeout=1500):
    """make the .vo cone of the given targets (full .vo build). Returns the make log."""
    ensure_makefile()
    t0 = time.time()
    rc, out = sh(["make", "-j16"] + targets, cwd=COQ, timeout=timeout)
    log["coq_make_s"] = round(time.time() - t0, 1)
    if rc != 0:
        m = re.search(r'File "([^"]+)", line (\d+)[^\n]*\n(Error:[^\n]*(?:\n[^\n]*){0,6})', out)
        where = ("%s:%s %s" % (m.group(1), m.group(2), m.group(3).strip())) if m else out[-1500:]
        raise Broken("proof obligation no longer checks: " + where.split("\n")[0][:300], where)
    return out


def cone_files(targets):
    """Source files in the dependency cone of targets, from coqdep output (.Makefile.d)."""
    dep = os.path.join(COQ, ".Makefile.d")
    deps = {}
    if os.path.exists(dep):
        for line in open(dep).read().replace("\\\n", " ").split("\n"):
            if ":" not in line:
                continue
            lhs, rhs = line.split(":", 1)
            for l in lhs.split():
                if l.endswith(".vo"):
                    deps[l] = [x for x in rhs.split() if x.endswith(".vo")]
    seen, todo = set(), list(targets)
    while todo:
        t = todo.pop()
        if t in seen:
            continue
        seen.add(t)
        todo += deps.get(t, [])
    return sorted(os.path.join(COQ, t[:-1]) for t in seen if os.path.exists(os.path.join(COQ, t[:-1])))


def strip_comments(src):
    out, depth, i = [], 0, 0
    while i < len(src):
        if src.startswith("(*", i):
            depth += 1
            i += 2
        elif src.startswith("*)", i) and depth > 0:
            depth -= 1
            i += 2
        else:
            if depth == 0:
                out.append(src[i])
            i += 1
    return "".join(out)


def audit_cone(files):
    """Forbidden declarations and proof statistics over the cone's sources."""
    bad, stats = [], {"files": len(files), "theorems": 0, "qed": 0, "lines": 0}
    for f in files:
        src = open(f).read()
        stats["lines"] += src.count("\n")
        code = strip_comments(src)
        code = re.sub(r'"(?:[^"]|"")*"', '""', code)
        for m in FORBIDDEN.finditer(code):
            bad.append("%s: %s" % (os.path.relpath(f, COQ), m.group(0)))
        # Variable/Hypothesis outside a section
        depth = 0
        for line in code.split("\n"):
            s = line.strip()
            if re.match(r"Section\s+\w+", s) or re.match(r"Module\s+Type\b", s):
                depth += 1
            elif re.match(r"End\s+\w+", s) and depth > 0:
                depth -= 1
            elif depth == 0 and re.match(r"(Variable|Variables|Hypothesis|Hypotheses|Context)\b", s):
                bad.append("%s: %s outside a section" % (os.path.relpath(f, COQ), s[:40]))
        stats["theorems"] += len(re.findall(r"^\s*(?:Theorem|Lemma|Corollary|Example|Fact|Proposition|Remark)\s", code, re.M))
        stats["qed"] += len(re.findall(r"\b(?:Qed|Defined)\.", code))
    return bad, stats


def assumptions_of(make_log_or_file, prop_vo):
    """Print Assumptions output recorded when Properties/Cxx.v was compiled (kept beside the .vo)."""
    path = os.path.join(COQ, prop_vo[:-3] + ".assumptions")
    return open(path).read() if os.path.exists(path) else ""


def record_assumptions(prop_v):
    """Recompile nothing: run coqc on the property file only if .assumptions is stale, capturing Print Assumptions."""
    v = os.path.join(COQ, prop_v)
    a = v[:-2] + ".assumptions"
    vo = v + "o"
    if os.path.exists(a) and os.path.exists(vo) and os.path.getmtime(a) >= os.path.getmtime(vo):
        return open(a).read()
    rc, out = sh(["coqc", "-R", ".", "GF", "-w", "-notation-overridden,-deprecated-hint-without-locality,-deprecated-instance-without-locality", prop_v], cwd=COQ, timeout=900)
    if rc != 0:
        raise Broken("proof obligation no longer checks: " + prop_v, out[-2000:])
    open(a, "w").write(out)
    return out


def parse_assumptions(text):
    """Returns (n_closed, axioms list) from concatenated Print Assumptions output."""
    closed = len(re.findall(r"Closed under the global context", text))
    axioms = []
    for m in re.finditer(r"Axioms:\n((?:.+\n?)+?)(?:\n|$)", text):
        for line in m.group(1).split("\n"):
            mm = re.match(r"^(\S+)\s*:", line)
            if mm:
                axioms.append(mm.group(1))
    return closed, sorted(set(axioms))


def build_driver(log):
    """Extract the model (coqc on Extract/ExtAll.v in build/ml) and compile the OCaml driver, when stale."""
    ml = os.path.join(BUILD, "ml")
    os.makedirs(ml, exist_ok=True)
    t0 = time.time()
    ext = os.path.join(COQ, "Extract/ExtAll.v")
    srcs = [ext, os.path.join(VERIF, "ml/driver.ml"), os.path.join(VERIF, "ml/main.ml")] + \
        [os.path.join(d, f) for d, _, fs in os.walk(COQ) for f in fs if f.endswith(".vo") and "Properties" not in d and "Proofs" not in d]
    stamp = os.path.join(ml, ".stamp")
    h = file_hash(srcs)
    if os.path.exists(DRIVER) and os.path.exists(stamp) and open(stamp).read() == h:
        return
    for f in os.listdir(ml):
        if f.endswith((".ml", ".mli", ".cmi", ".cmx", ".o")):
            os.unlink(os.path.join(ml, f))
    rc, out = sh(["coqc", "-R", COQ, "GF", "-w", "-extraction-reserved-identifier,-extraction-opaque-accessed,-notation-overridden", ext], cwd=ml, timeout=900)
    if rc != 0:
        raise Broken("extraction failed", out[-2000:])
    for f in ("driver.ml", "main.ml"):
        open(os.path.join(ml, f), "w").write(open(os.path.join(VERIF, "ml", f)).read())
    rc, order = subprocess.getstatusoutput("cd %s && ocamlfind ocamldep -sort *.ml *.mli 2>/dev/null" % ml)
    files = order.split()
    rc, out = sh(["ocamlfind", "ocamlopt", "-w", "-a"] + files + ["-o", DRIVER], cwd=ml, timeout=900)
    if rc != 0:
        raise Broken("ocaml build of the extracted model failed", out[-2000:])
    open(stamp, "w").write(h)
    log["driver_build_s"] = round(time.time() - t0, 1)


def run_lines(binary, stream, lines, args=(), timeout=1800, cwd=None):
    os.makedirs(RUNDIR, exist_ok=True)
    data = "".join(l + "\n" for l in lines)
    def big_stack():
        import resource      # the extracted model recurses on long lists (not tail-recursive): lift the stack limit
        try:
            resource.setrlimit(resource.RLIMIT_STACK, (resource.RLIM_INFINITY, resource.RLIM_INFINITY))
        except (ValueError, OSError):
            pass
    p = subprocess.run([binary, stream] + list(args), input=data, stdout=subprocess.PIPE, stderr=subprocess.PIPE,
                       text=True, errors="replace", timeout=timeout, cwd=cwd, preexec_fn=big_stack if binary == DRIVER else None)
    out = p.stdout.split("\n")
    if out and out[-1] == "":
        out.pop()
    return p.returncode, out, p.stderr


def run_resilient(binary, stream, lines, args=(), timeout=1800, cwd=None):
    """Like run_lines, for binaries that flush one line per case and may die on a case (crash, watchdog exit):
    the case at which the process stopped gets the line CRASH/TIMEOUT and the run resumes after it."""
    out, err, i = [], "", 0
    while i < len(lines):
        rc, o, e = run_lines(binary, stream, lines[i:], args, timeout, cwd)
        out += o
        i += len(o)
        if i < len(lines):
            if not (o and o[-1] == "TIMEOUT"):
                tail = " ".join(e.strip().split("\n")[:2])[:200]
                out.append("CRASH " + tail)
                i += 1
            err += e[-500:]
    return 0, out, err


def chunks(l, n):
    k = max(1, (len(l) + n - 1) // n)
    return [l[i:i + k] for i in range(0, len(l), k)]


def run_parallel(binary, stream, lines, args=(), jobs=8, timeout=1800, cwd=None, resilient=False):
    """Run a line-oriented binary over the cases in parallel shards, preserving order."""
    import concurrent.futures as cf
    runner = run_resilient if resilient else run_lines
    if len(lines) < 2000 or jobs <= 1:
        return runner(binary, stream, lines, args, timeout, cwd)
    parts = chunks(lines, jobs)
    with cf.ThreadPoolExecutor(max_workers=jobs) as ex:
        res = list(ex.map(lambda p: runner(binary, stream, p, args, timeout, cwd), parts))
    rc = max(r[0] for r in res)
    out = [l for r in res for l in r[1]]
    err = "".join(r[2] for r in res)
    return rc, out, err


class Stream:
    """One correspondence stream: cases -> implementation lines, model lines; optional implementation-side oracle."""
    def __init__(self, name, cmd, cases, oracle=None, normal=None, args=(), model_cmd=None, nontrivial=None, exhaustive=False, describe=""):
        self.name, self.cmd, self.cases, self.oracle, self.normal = name, cmd, cases, oracle, normal
        self.args, self.model_cmd, self.nontrivial = list(args), model_cmd or cmd, nontrivial
        self.exhaustive, self.describe = exhaustive, describe
        self.go, self.model, self.mismatches, self.oracle_hits = [], [], [], []

    def run(self):
        t0 = time.time()
        rc1, self.go, e1 = run_parallel(HARNESS, self.cmd, self.cases, self.args, jobs=12)
        if getattr(self, "impl_only", False):
            # a stream observed on the implementation only (effects on the file system, processes): no model column
            if len(self.go) != len(self.cases):
                raise Broken("stream %s: implementation harness produced %d lines for %d cases (rc=%d)" % (self.name, len(self.go), len(self.cases), rc1), e1[-2000:])
            self.model = list(self.go)
            for i, (c, a) in enumerate(zip(self.cases, self.go)):
                r = self.oracle(c, a) if self.oracle else (a if a.startswith("VIOL") else None)
                if r:
                    self.oracle_hits.append((i, r))
            self.wall = round(time.time() - t0, 2)
            return
        rc2, self.model, e2 = run_parallel(DRIVER, self.model_cmd, self.cases, self.args, jobs=12)
        if len(self.go) != len(self.cases):
            raise Broken("stream %s: implementation harness produced %d lines for %d cases (rc=%d)" % (self.name, len(self.go), len(self.cases), rc1), e1[-2000:])
        if len(self.model) != len(self.cases):
            raise RuntimeError("stream %s: model driver produced %d lines for %d cases (rc=%d): %s" % (self.name, len(self.model), len(self.cases), rc2, e2[-500:]))
        norm = self.normal or (lambda c, x: x)
        for i, (c, a, b) in enumerate(zip(self.cases, self.go, self.model)):
            if norm(c, a) != norm(c, b):
                self.mismatches.append(i)
        if self.oracle:
            for i, (c, a) in enumerate(zip(self.cases, self.go)):
                r = self.oracle(c, a)
                if r:
                    self.oracle_hits.append((i, r))
        self.wall = round(time.time() - t0, 2)

    def stats(self):
        distinct = set(self.cases)
        nt = len([c for c in distinct if (self.nontrivial(c) if self.nontrivial else len(c.split()) > 1)])
        return {"stream": self.name, "cases": len(self.cases), "distinct": len(distinct), "distinct_nontrivial": nt,
                "mismatches": len(self.mismatches), "oracle_violations": len(self.oracle_hits), "exhaustive_part": self.exhaustive,
                "wall_s": getattr(self, "wall", 0), "describe": self.describe}


def shrink(case, still_bad, sep=" "):
    """Greedy one-token-removal shrinking of a whitespace-separated case line (first token kept if keep_head)."""
    toks = case.split(sep)
    changed = True
    while changed and len(toks) > 1:
        changed = False
        for i in range(len(toks) - 1, -1, -1):
            cand = toks[:i] + toks[i + 1:]
            c = sep.join(cand)
            try:
                if cand and still_bad(c):
                    toks, changed = cand, True
            except Exception:
                pass
    return sep.join(toks)


def load_findings():
    p = os.path.join(VERIF, "known_findings.jsonl")
    out = []
    if os.path.exists(p):
        for l in open(p):
            l = l.strip()
            if l and not l.startswith("#"):
                out.append(json.loads(l))
    return out


def write_replay(prop, payload):
    os.makedirs(REPLAYS, exist_ok=True)
    body = json.dumps(payload, indent=1, ensure_ascii=False, sort_keys=True)
    h = hashlib.sha256(body.encode()).hexdigest()[:12]
    path = os.path.join(REPLAYS, "%s-%s.json" % (prop, h))
    open(path, "w").write(body + "\n")
    return path


def write_evidence(prop, tier, seed, coverage, assumptions, wall, violations):
    os.makedirs(EVID, exist_ok=True)
    ev = {"property_id": prop, "tier": tier, "seed": seed, "level": "proof", "coverage": coverage,
          "assumptions": assumptions, "wall_s": round(wall, 1), "violations": violations}
    open(os.path.join(EVID, prop + ".json"), "w").write(json.dumps(ev, indent=1, ensure_ascii=False) + "\n")


def decode_runes(s):
    return "".join(chr(int(x)) for x in re.split(r"[ ,]+", s.strip()) if x)


def encode_runes(s, sep=" "):
    return sep.join(str(ord(c)) for c in s)
