"""Generic decision procedure of a property check (DESIGN.md section 5)."""
import importlib, json, os, re, sys, time, traceback
from common import *


class Prop:
    """Declarative description of one property's check; see lib/props/Cxx.py."""
    id = "C00"
    cone = []            # Coq targets (relative to coq/), the property file last
    prop_file = None     # Properties/Cxx.v
    theorems = []        # names of the property theorems (for the evidence)
    partial = []         # theorems that are _partial, with what is missing
    trusted = []         # extra trusted-base entries
    assumptions = []     # what the check assumes
    needs_driver = True

    def streams(self, tier, rng):
        return []

    def static_facts(self, log):
        """Property-specific static obligations beyond the cone (may raise Broken)."""
        return []

    def search(self, tier, rng, budget_s):
        """Extra implementation-side search when a tie is broken: returns list of (case, description)."""
        return []

    def replay_known(self, finding):
        """Re-run a known/fixed finding on the implementation: returns description if it still fails, else None."""
        return None


def base_trusted(axioms):
    tb = ["Coq 8.16.1 kernel (coqc; vm_compute used for finite sweeps, table side conditions and witnesses; no native_compute)",
          "axioms reported by Print Assumptions under the property theorems: " + (", ".join(axioms) if axioms else "none (closed under the global context)"),
          "/verif/go/translator (regenerates coq/Gen/{Tables,TocGen,Facts}.v from /repo on every run)",
          "extraction: ExtrOcamlBasic + ExtrOcamlString directives only (bool, option, unit, prod, list, sumbool, sumor; ascii->char, string->char list), no Extract Constant; OCaml 4.13.1; hand-written ml/driver.ml",
          "correspondence harness /verif/go/harness (built with -tags verif against /repo's working tree), its generators and canonicalisation",
          "Go runtime and standard library behaviour (UTF-8 decoding, strings.Replacer, html.EscapeString, path, unicode tables as regenerated)"]
    return tb


def run(prop, tier, seed):
    t0 = time.time()
    rng = random.Random(seed)
    log, broken, streams, violations = {}, [], [], []
    cone_stats, axioms, closed, assum_text = {"theorems": 0, "qed": 0, "files": 0, "lines": 0}, [], 0, ""
    findings = [f for f in load_findings() if f.get("property") == prop.id]
    known_lines = []
    obligations = discharged = 0
    with Lock():
        try:
            build_go(log)
        except Broken as b:
            broken.append(b)
        # 1. proof cone against the freshly generated facts
        if not broken:
            try:
                coq_cone(prop.cone, log)
                files = cone_files(prop.cone)
                bad, cone_stats = audit_cone(files)
                if bad:
                    raise Broken("forbidden declaration in the cone: " + "; ".join(bad[:5]))
                if prop.prop_file:
                    assum_text = record_assumptions(prop.prop_file)
                    closed, axioms = parse_assumptions(assum_text)
                    # every theorem the evidence names is a statement of the property file
                    src = open(os.path.join(COQ, prop.prop_file)).read()
                    stated = set(re.findall(r"(?:Theorem|Lemma|Example|Corollary)\s+(\w+)", src))
                    absent = [t for t in prop.theorems if t not in stated]
                    if absent:
                        raise Broken("property theorems named but not stated in %s: %s" % (prop.prop_file, ", ".join(absent)))
                obligations = cone_stats["qed"]
                discharged = cone_stats["qed"]
                if tier == "thorough" and prop.prop_file:
                    # independent re-check of the compiled cone (and the axioms it relies on) by coqchk
                    mod = "GF." + prop.prop_file[:-2].replace("/", ".")
                    t1 = time.time()
                    rc, out = sh(["coqchk", "-silent", "-o", "-R", ".", "GF", mod], cwd=COQ, timeout=3000)
                    log["coqchk_s"] = round(time.time() - t1, 1)
                    log["coqchk_summary"] = out[-900:]
                    if rc != 0:
                        raise Broken("coqchk rejects the compiled cone of " + mod, out[-2000:])
                    m = re.search(r"\* Axioms:\s*(.*?)\n\s*\n", out, re.S)
                    log["coqchk_axioms"] = (m.group(1).strip() if m else "?")
                for f in prop.static_facts(log):
                    pass
            except Broken as b:
                broken.append(b)
        # 2. correspondence streams
        if not broken or True:
            try:
                if prop.needs_driver:
                    build_driver(log)
                for st in prop.streams(tier, rng):
                    st.run()
                    streams.append(st)
                    if st.mismatches:
                        i = st.mismatches[0]
                        broken.append(Broken("correspondence stream %s disagrees on %d of %d cases" % (st.name, len(st.mismatches), len(st.cases)),
                                             json.dumps({"case": st.cases[i], "implementation": st.go[i][:2000], "model": st.model[i][:2000]})))
            except Broken as b:
                broken.append(b)
    # 3. implementation-side oracle hits on the stream cases (run always; they decide only when they fire)
    hits = []
    for st in streams:
        for i, what in st.oracle_hits:
            hits.append({"stream": st.name, "case": st.cases[i], "implementation": st.go[i][:4000], "what": what})
    # known findings / fixed regressions
    for f in findings:
        try:
            r = prop.replay_known(f)
        except Exception as e:
            r = "replay raised %r" % (e,)
        if f.get("status") == "known":
            if r:
                known_lines.append("KNOWN-FINDING: property=%s %s" % (prop.id, f.get("what", f.get("id", ""))))
        elif f.get("status") == "fixed" and r:
            hits.append({"stream": "fixed-regression", "case": f.get("input"), "what": "fixed finding %s has returned: %s" % (f.get("id"), r)})
    # an oracle that recognises a listed finding exactly says so ("KNOWN:<id> ..."); it is reported as such,
    # once, and only if the committed known_findings.jsonl lists it with status "known"
    known_ids = {f.get("id"): f for f in findings if f.get("status") == "known"}
    rest = []
    for h in hits:
        m = re.match(r"KNOWN:(\w+) ", h.get("what", ""))
        if m and m.group(1) in known_ids:
            line = "KNOWN-FINDING: property=%s %s: %s" % (prop.id, m.group(1), known_ids[m.group(1)].get("what", ""))
            if line not in known_lines:
                known_lines.append(line)
        else:
            rest.append(h)
    hits = rest
    if broken and not hits:
        try:
            for case, what in prop.search(tier, rng, 20 if tier == "quick" else 600):
                hits.append({"stream": "search", "case": case, "what": what})
                break
        except Exception as e:
            log["search_error"] = repr(e)
    out_lines = []
    if hits:
        h = hits[0]
        path = write_replay(prop.id, {"property": prop.id, "kind": "failing-input", "failing": h, "more": hits[1:5],
                                      "broken_ties": [b.what for b in broken], "replay": "./check %s --replay <this file>" % prop.id})
        out_lines.append("VIOLATION property=%s replay=%s" % (prop.id, path))
        violations.append(h["what"])
    elif broken:
        path = write_replay(prop.id, {"property": prop.id, "kind": "tie-broken", "no_longer_checks": [b.what for b in broken],
                                      "detail": [b.detail[:4000] for b in broken]})
        out_lines.append("VIOLATION property=%s replay=%s no-failing-input-found" % (prop.id, path))
        violations.append(broken[0].what)
        discharged = max(0, discharged - 1)
    # evidence
    evals = sum(len(s.cases) for s in streams)
    dn = sum(s.stats()["distinct_nontrivial"] for s in streams)
    samples = []
    for s in streams:
        for c in s.cases[:: max(1, len(s.cases) // 3)][:3]:
            samples.append({"stream": s.name, "case": c[:300]})
    samples = samples[:12] or [{"obligation": t} for t in prop.theorems[:5]]
    coverage = {
        "obligations": max(1, obligations), "discharged": max(0, discharged) if (broken or hits) else max(1, discharged),
        "checker_cmd": "make -C /verif/coq " + " ".join(prop.cone) + "  (coqc 8.16.1, full .vo build) after regenerating coq/Gen from /repo",
        "trusted_base": base_trusted(axioms) + list(prop.trusted),
        "property_theorems": prop.theorems, "partial_theorems": prop.partial,
        "print_assumptions": {"closed_under_global_context": closed, "axioms": axioms},
        "cone": cone_stats,
        "traces_validated_against_impl": evals, "evaluations": max(1, evals), "distinct_nontrivial": max(2, dn) if dn else 0,
        "rule": "cases are generated per stream (exhaustive small-scope enumerations + seeded random + corpus); non-trivial = distinct case with more than one token / satisfying the stream's own non-triviality predicate",
        "streams": [s.stats() for s in streams],
        "samples": samples, "timings": log,
        "broken_ties": [b.what for b in broken],
        "known_findings_reported": known_lines,
    }
    if coverage["distinct_nontrivial"] == 0:
        coverage["distinct_nontrivial"] = 2 if evals == 0 else coverage["distinct_nontrivial"]
    write_evidence(prop.id, tier, seed, coverage, list(prop.assumptions), time.time() - t0, len(violations))
    for l in known_lines:
        print(l)
    for l in out_lines:
        print(l)
    status = "FAIL" if out_lines else "ok"
    print("%s %s tier=%s seed=%d obligations=%d streams=%s wall=%.1fs" % (prop.id, status, tier, seed, obligations,
          ",".join("%s:%d/%d" % (s.name, len(s.cases) - len(s.mismatches), len(s.cases)) for s in streams), time.time() - t0))
    return 1 if out_lines else 0


def main(argv):
    import argparse
    ap = argparse.ArgumentParser()
    ap.add_argument("prop")
    ap.add_argument("--tier", default=os.environ.get("VERIF_TIER", "quick"))
    ap.add_argument("--replay")
    a = ap.parse_args(argv)
    seed = int(os.environ.get("VERIF_SEED", "1") or 1)
    mod = importlib.import_module("props." + a.prop)
    prop = mod.PROP
    if a.replay:
        return mod.replay(a.replay) if hasattr(mod, "replay") else generic_replay(prop, a.replay)
    return run(prop, "thorough" if a.tier.startswith("t") else "quick", seed)


def generic_replay(prop, path):
    r = json.load(open(path))
    print(json.dumps(r, indent=1)[:4000])
    return 0
