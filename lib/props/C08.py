import propdefs
PROP = propdefs.C08()
