import propdefs
PROP = propdefs.C20()
