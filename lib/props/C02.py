import propdefs
PROP = propdefs.C02()
