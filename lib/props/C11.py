import propdefs
PROP = propdefs.C11()
