import propdefs
PROP = propdefs.C05()
