import propdefs
PROP = propdefs.C18()
