import propdefs
PROP = propdefs.C01()
