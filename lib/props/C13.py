import propdefs
PROP = propdefs.C13()
