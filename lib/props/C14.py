import propdefs
PROP = propdefs.C14()
