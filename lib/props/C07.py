import propdefs
PROP = propdefs.C07()
