import propdefs
PROP = propdefs.C15()
