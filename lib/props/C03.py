import propdefs
PROP = propdefs.C03()
