import propdefs
PROP = propdefs.C04()
