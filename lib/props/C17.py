import propdefs
PROP = propdefs.C17()
