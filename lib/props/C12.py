import propdefs
PROP = propdefs.C12()
