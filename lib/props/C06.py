import propdefs
PROP = propdefs.C06()
