import propdefs
PROP = propdefs.C09()
