import propdefs
PROP = propdefs.C10()
