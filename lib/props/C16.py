import propdefs
PROP = propdefs.C16()
