from runner import Prop
from common import Stream, decode_runes, encode_runes, HARNESS, run_lines
import gen, re, unicodedata

WS = [9, 10, 11, 12, 13, 32, 0x85, 0x1680] + list(range(0x2000, 0x200b)) + [0x2028, 0x2029, 0x202f, 0x205f, 0x3000]   # White_Space minus U+00A0


def words(s):
    out, cur = [], ""
    for c in s:
        if ord(c) in WS:
            if cur:
                out.append(cur)
            cur = ""
        else:
            cur += c
    if cur:
        out.append(cur)
    return out


def oracle(case, got):
    """C19 on the implementation's own output: same words in order; every line break is followed by exactly
    `indent` blanks and then a word; separators are a single blank or a break."""
    f = case.split()
    if not f:
        return None
    ind = int(f[0])
    src = "".join(chr(int(x)) for x in f[1:])
    out = decode_runes(got)
    ws = words(src)
    if words(out) != ws:
        return "words differ: source %r output %r" % (ws[:8], words(out)[:8])
    # shape: out = w0 sep w1 sep ... wn with sep in {" ", "\n"+indent*" "}
    pos = 0
    for i, w in enumerate(ws):
        if i > 0:
            if out.startswith("\n" + " " * ind, pos) and not out.startswith("\n" + " " * (ind + 1), pos):
                pos += 1 + ind
            elif out.startswith(" ", pos):
                pos += 1
            else:
                return "separator before word %d is neither one blank nor newline+%d blanks: %r" % (i, ind, out[pos:pos + 8])
        if not out.startswith(w, pos):
            return "word %d split or altered at %d" % (i, pos)
        pos += len(w)
    if pos != len(out):
        return "trailing output %r" % out[pos:pos + 8]
    return None


class C19(Prop):
    id = "C19"
    cone = ["Properties/C19.vo"]
    prop_file = "Properties/C19.v"
    theorems = ["C19_words_preserved", "C19_shape"]
    assumptions = ["the model Reflow.reflow is processText (tied by stream S-reflow on every run)",
                   "unicode.IsSpace = in_ranges white_space with the table regenerated from the toolchain (checked over all code points by stream S-uni in the thorough tier)"]

    def streams(self, tier, rng):
        alpha = ["a", " ", "\n", "\t", " ", " ", "é"]
        cases = []
        n = 5 if tier == "quick" else 7
        for ind in (0, 3):
            for s in gen.all_strings(alpha, n):
                cases.append("%d %s" % (ind, gen.runes(s)))
        # line-width boundary: words of length 50..60 after a prefix, at indents 0,2,3,5,8
        for ind in (0, 2, 3, 4, 5, 6, 8, 9, 12):
            for a in range(1, 58, 5 if tier == "quick" else 1):
                for b in (1, 2, 54, 55, 56, 57, 60):
                    for sep in (" ", "\n", "  ", " \t"):
                        cases.append("%d %s" % (ind, gen.runes("x" * a + sep + "y" * b + sep + "z" * 3)))
        exh = len(cases)
        k = 4000 if tier == "quick" else 60000
        for _ in range(k):
            ind = rng.choice([0, 0, 1, 2, 3, 4, 5, 6, 7, 8, 9, 10, 12, 15])
            nw = rng.randint(0, 40 if rng.random() < 0.9 else 400)
            parts = []
            for _ in range(nw):
                wl = rng.choice([1, 2, 3, 5, 8, 13, 20, 54, 55, 56, 80]) if rng.random() < 0.3 else rng.randint(1, 12)
                parts.append(gen.rand_string(rng, "abcé xyz\U0001F600.", wl))
                parts.append(rng.choice([" ", " ", " ", "\n", "  ", "\t", " \n ", " ", ""]))
            if rng.random() < 0.2:
                parts.insert(0, rng.choice([" ", "\n", "   "]))
            cases.append("%d %s" % (ind, gen.runes("".join(parts))))
        return [Stream("S-reflow", "reflow", cases, oracle=oracle, exhaustive=True,
                       nontrivial=lambda c: len(c.split()) > 2,
                       describe="markdown processText(indent,text): all texts <= %d over {a SP NL TAB NBSP U+2003 e-acute} at indents 0,3; width-boundary words; %d random paragraphs (first %d cases exhaustive)" % (n, k, exh))]

    def search(self, tier, rng, budget):
        return []


PROP = C19()
