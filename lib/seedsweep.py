#!/usr/bin/env python3
"""seedsweep.py [names...]: applies each seeded change to /repo, runs the check of the property it breaks, undoes it.
Writes seeded/RESULTS.json (which check catches which change)."""
import json, os, subprocess, sys, time
V = "/verif"
names = sys.argv[1:] or sorted(d for d in os.listdir(V + "/seeded") if os.path.isdir(V + "/seeded/" + d))
res = {}
rp = V + "/seeded/RESULTS.json"
if os.path.exists(rp):
    res = json.load(open(rp))
for n in names:
    meta = json.load(open("%s/seeded/%s/meta.json" % (V, n)))
    prop = meta["property"]
    subprocess.run(["git", "-C", "/repo", "checkout", "--", "."], check=True)
    a = subprocess.run(["git", "-C", "/repo", "apply", "%s/seeded/%s/patch.diff" % (V, n)], capture_output=True, text=True)
    if a.returncode != 0:
        res[n] = {"property": prop, "applied": False, "error": a.stderr[-300:]}
        print(n, "PATCH DOES NOT APPLY"); continue
    t = time.time()
    try:
        p = subprocess.run([V + "/check", prop], cwd=V, capture_output=True, text=True, timeout=900)
        out, rc = p.stdout + p.stderr, p.returncode
    except subprocess.TimeoutExpired:
        out, rc = "TIMEOUT", 124
    finally:
        subprocess.run(["git", "-C", "/repo", "checkout", "--", "."], check=True)
    vio = [l for l in out.split("\n") if l.startswith("VIOLATION")]
    what = ""
    if vio:
        try:
            rpath = vio[0].split("replay=")[1].split()[0]
            r = json.load(open(rpath))
            what = (r.get("failing") or {}).get("what", "") or "; ".join(r.get("no_longer_checks", []))
        except Exception as e:
            what = repr(e)
    res[n] = {"property": prop, "applied": True, "exit": rc, "detected": rc == 1 and bool(vio), "violation_line": vio[0] if vio else "",
              "what": what[:300], "wall_s": round(time.time() - t, 1), "tail": out.strip().split("\n")[-1][:300]}
    print(n, "DETECTED" if res[n]["detected"] else "MISSED", "|", res[n]["violation_line"][-60:], "|", what[:120])
    json.dump(res, open(rp, "w"), indent=1, sort_keys=True)
