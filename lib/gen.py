"""Case generators shared by the streams."""
import itertools, random


def runes(s):
    return " ".join(str(ord(c)) for c in s)


def all_strings(alphabet, maxlen, minlen=0):
    for n in range(minlen, maxlen + 1):
        for t in itertools.product(alphabet, repeat=n):
            yield "".join(t)


def rand_string(rng, alphabet, n):
    return "".join(rng.choice(alphabet) for _ in range(n))
