"""Implementation-side oracles: each checks a property on the implementation's own output for one case.
They serve the search for a failing input when a tie is broken, the replay of known/fixed findings and a
secondary sweep over the stream cases; a theorem is never replaced by them."""
import re
import xml.parsers.expat
from e2e import parse_go, dec, raw_free


def quiet_ok(go):
    """('ok', files, diags) with no diagnostics -> files dict (decoded) else None"""
    a = parse_go(go)
    if a[0] != "ok" or a[2]:
        return None
    return {dec(k): dec(v) for k, v in a[1].items()}


def all_files(go):
    a = parse_go(go)
    if a[0] != "ok":
        return None
    return {dec(k): dec(v) for k, v in a[1].items()}


# ---------------------------------------------------------------- XML
def xml_wf(text, fragment):
    """None if well-formed (strict: expat also rejects duplicate attributes), else the parser's message."""
    p = xml.parsers.expat.ParserCreate()
    try:
        if fragment:
            text = "<frag>" + text + "</frag>"
        else:
            text = re.sub(r"^(<\?xml[^>]*\?>\s*)?<!DOCTYPE[^>]*>", lambda m: m.group(1) or "", text, count=1)
        p.Parse(text.encode("utf-8"), True)
        return None
    except xml.parsers.expat.ExpatError as e:
        return str(e)


MARKUP_EXT = (".html", ".xhtml", ".opf", ".ncx", ".xml")


LOX_DIV = re.compile(r'<div class="lo[ftp]">')
LOX_LI = re.compile(r'(?m)^    <li><a href="[^"]*">\d+\. .*</a>$')


def c02_oracle(case, go):
    files = quiet_ok(go)
    if files is None or not raw_free(case):
        return None
    fm = case.split(" ", 1)[0]
    for name, text in sorted(files.items()):
        if name == "":
            frag = fm[0] == "x" and (len(fm) < 2 or fm[1] in "0x")
            if fm[0] not in "xe":
                return None
            e = xml_wf(text, frag)
        elif name.endswith(MARKUP_EXT):
            frag = False
            e = xml_wf(text, False)
        else:
            continue
        if e:
            # known finding D7: entries of a list of figures/tables/poems never close their <li>; if closing them
            # makes the file well formed the violation is exactly D7, otherwise it is something else
            fixed = LOX_LI.sub(lambda m: m.group(0) + "</li>", text) if LOX_DIV.search(text) else text
            if fixed != text and xml_wf(fixed, frag if name == "" else False) is None:
                return "KNOWN:D7 list-of-X entries never close their <li> (%r)" % (name or "<stdout file>")
            return "quiet compilation, output %r is not well-formed XML: %s" % (name or "<stdout file>", e)
    return None


# ---------------------------------------------------------------- TeX
BEGIN_END = re.compile(r"\\(begin|end)\{([^}]*)\}")


def tex_balanced(s):
    depth, envs, i = 0, [], 0
    while i < len(s):
        c = s[i]
        if c == "\\":
            m = BEGIN_END.match(s, i)
            if m:
                if m.group(1) == "begin":
                    envs.append((m.group(2), depth))
                else:
                    if not envs or envs[-1] != (m.group(2), depth):
                        return "\\end{%s} does not match" % m.group(2)
                    envs.pop()
                i = m.end()
                continue
            i += 2
            continue
        if c == "%":          # comment to end of line
            while i < len(s) and s[i] != "\n":
                i += 1
            continue
        if c == "{":
            depth += 1
        elif c == "}":
            depth -= 1
            if depth < 0:
                return "stray }"
        i += 1
    if depth:
        return "unclosed {"
    if envs:
        return "unclosed environment %s" % envs[-1][0]
    return None


def c04_oracle(case, go):
    files = quiet_ok(go)
    if files is None or not case.startswith("l") or not raw_free(case):
        return None
    e = tex_balanced(files.get("", ""))
    return ("quiet compilation, LaTeX output unbalanced: " + e) if e else None


# ---------------------------------------------------------------- panic / runaway
def c01_oracle(case, go):
    if go.startswith("PANIC") or go.startswith("CRASH"):
        return "runtime panic: " + go[:200]
    return None


def c16_oracle(case, go):
    if go.startswith("TIMEOUT") or go.startswith("CRASH") or go.startswith("PANIC"):
        return "recursion not cut off: " + go[:120]
    return None


# ---------------------------------------------------------------- links (C05)
HREF = re.compile(r'(?:href|src)="([^"]*)"')
IDATTR = re.compile(r'\sid="([^"]*)"')


def c05_oracle(case, go):
    files = quiet_ok(go)
    if files is None:
        return None
    fm = case.split(" ", 1)[0]
    if fm[0] == "l":
        t = files.get("", "")
        labels = re.findall(r"\\label\{([^}]*)\}", t) + re.findall(r"\\hypertarget\{([^}]*)\}", t)
        for ref in re.findall(r"\\hyperref\[([^\]]*)\]", t) + re.findall(r"\\hyperlink\{([^}]*)\}", t):
            if labels.count(ref) != 1:
                return "LaTeX reference %r has %d targets" % (ref, labels.count(ref))
        return None
    if fm[0] not in "xe":
        return None
    multi = len(fm) > 1 and fm[1] in "23" or fm[0] == "e"
    ids = {n: IDATTR.findall(t) for n, t in files.items()}
    for name, text in files.items():
        if not (name == "" or name.endswith((".html", ".xhtml", ".ncx", ".opf"))):
            continue
        base = name.rsplit("/", 1)[0] + "/" if "/" in name else ""
        for h in HREF.findall(text):
            h = h.replace("&amp;", "&")
            if re.match(r"[a-zA-Z][a-zA-Z0-9+.-]*:", h) or h == "":
                continue
            f, _, frag = h.partition("#")
            target = name if f == "" else (base + f)
            if not multi:
                target = ""
                if f:
                    continue          # relative file link in single-file output: an external resource
            if target not in files:
                if f.startswith(("images/", "i.", "img.")) or f.endswith((".css", ".png", ".jpg", ".pdf", ".eps", ".ico")):
                    continue
                return "link %r in %r points to a file that was not generated" % (h, name or "output")
            if frag and ids.get(target, []).count(frag) != 1:
                return "link %r in %r: anchor occurs %d times in %r" % (h, name or "output", ids.get(target, []).count(frag), target or "output")
    return None
