#!/usr/bin/env python3
"""Regenerates MANIFEST.json from lib/manifest_data.py (kept valid at all times)."""
import json, os, sys
sys.path.insert(0, os.path.dirname(os.path.abspath(__file__)))
from manifest_data import CHECKS, NOT_APPLICABLE, HOOK_COMMITS
ALL = ["C%02d" % i for i in range(1, 21)]
checks = []
for pid in ALL:
    if pid not in CHECKS:
        continue
    c = CHECKS[pid]
    checks.append({
        "property_id": pid,
        "quick_cmd": "./check %s --tier quick" % pid,
        "thorough_cmd": "./check %s --tier thorough" % pid,
        "evidence_file": "/verif/evidence/%s.json" % pid,
        "replay_cmd_template": "./check %s --replay {path}" % pid,
        "engine": "coq-proof+correspondence",
        "level_claimed": {"category": "proof", "text": c["text"], "design_ref": c.get("ref", "DESIGN.md section 6, " + pid)},
        "level_note": c["note"],
        "technique": c["technique"],
    })
na = [{"property_id": p, "reason": NOT_APPLICABLE[p]} for p in ALL if p not in CHECKS]
m = {
    "version": 1,
    "setup_cmd": "./setup.sh",
    "hooks": {"guard": "verif", "enable": "go build -tags verif (add-only files named verif_hooks.go, //go:build verif)",
              "baseline_off_cmd": "cd /repo && go build ./... && go test -vet=off -count=1 ./...",
              "source_commits": HOOK_COMMITS, "add_only": True},
    "engines": [{"name": "coq-proof+correspondence", "path": "/verif/check",
                 "serves_properties": [c["property_id"] for c in checks],
                 "kind_free_text": "Coq 8.16.1 theorems about a hand-written executable Gallina model (coq/), tied to /repo on every run by a translator (go/translator -> coq/Gen) and by differential correspondence between the extracted model (OCaml) and the Go packages built from /repo (go/harness)"}],
    "checks": checks,
    "not_applicable": na,
    "notes": "See DESIGN.md. Every check rebuilds the Go harness and regenerates coq/Gen from /repo's working tree, re-checks the property's Coq cone, then runs the correspondence streams. known_findings.jsonl lists genuine defects (known / fixed).",
}
open(os.path.join(os.path.dirname(os.path.dirname(os.path.abspath(__file__))), "MANIFEST.json"), "w").write(json.dumps(m, indent=1) + "\n")
print("MANIFEST.json: %d checks, %d not_applicable" % (len(checks), len(na)))
