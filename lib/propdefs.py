"""Definitions of the per-property checks (lib/props/Cxx.py re-export them)."""
import itertools, re, random
from runner import Prop
from common import Stream, decode_runes, encode_runes, HARNESS, run_lines, Broken
from e2eprops import E2EProp, fam_cases, ALLFAM, nontrivial


def spanning_cases(fm, tier):
    """inline markup of two different elements (plain .Bm and a declared tag) nested and kept open across what ends a
    paragraph: the closing and reopening orders matter only when the elements differ"""
    pre = ".X mtag -f xhtml,epub -t s -c strong\n.X mtag -f latex -t s -c textbf\n.X mtag -f mom,markdown -t s -b < -e >\n"
    alpha = [".Bm", ".Bm -t s", ".Em", ".P", "t", ".D", ".Bl -t verse", ".It l"]
    n = 4 if tier == "quick" else 5
    out = [e2e.case_of(fm, pre + e2e.doc_of(list(s))) for k in range(2, n + 1) for s in itertools.product(alpha, repeat=k)
           if ".Bm" in s and ".Bm -t s" in s]
    # the same, closed: quiet documents
    mid = ["t", ".P", ".D", ".P T", ".It l", ".Sm w"]
    for opens in ([".Bm", ".Bm -t s"], [".Bm -t s", ".Bm"], [".Bm", "a", ".Bm -t s"], [".Bm -t s", ".Bm", ".Bm -t s"]):
        for k in range(1, (3 if tier == "quick" else 4) + 1):
            for m in itertools.product(mid, repeat=k):
                closes = [".Em"] * sum(1 for x in opens if x.startswith(".Bm"))
                for wrap in (None, "verse", "list"):
                    body = opens + list(m) + closes + ["z"]
                    if wrap == "verse":
                        body = [".Bl -t verse", ".It f"] + body[:-1] + [".El"]
                    elif wrap == "list":
                        if k > 2:
                            continue
                        body = [".Bl", ".It f"] + body[:-1] + [".El"]
                    elif ".It l" in m:
                        continue
                    out.append(e2e.case_of(fm, pre + e2e.doc_of(body)))
    return out
import e2e, gen, oracles

Q = "quick"


def T(tier, q, t):
    return q if tier == Q else t


# =================================================================== Tier 1 streams
def esc_stream(table, tier, rng, specials, extra=""):
    alpha = list(specials) + ["a", " ", "\n", " ", "é", "…", "\U0001F600"]
    cases = []
    for s in gen.all_strings(alpha, T(tier, 3, 4)):
        cases.append("%s %s" % (table, gen.runes(s)))
    exh = len(cases)
    for c in list(range(0, 0x300)) + [0x2026, 0x2019, 0xfffd, 0xffff, 0x10000, 0x10ffff]:
        if 0xD800 <= c <= 0xDFFF:
            continue
        cases.append("%s %d" % (table, c))
    if tier != Q:
        for c in range(0x300, 0x110000, 7):
            if not 0xD800 <= c <= 0xDFFF:
                cases.append("%s %d" % (table, c))
    for _ in range(T(tier, 2000, 30000)):
        cases.append("%s %s" % (table, gen.runes(gen.rand_string(rng, alpha, rng.randint(1, 60)))))

    def norm(c, x):
        return x

    def oracle(case, got):
        f = case.split()
        src = "".join(chr(int(x)) for x in f[1:])
        out = decode_runes(got.split(" | ")[0])
        if table == "roff":
            q = "bol"          # the control-line machine of Proofs/EscapeProofs.v, on the implementation's output
            for ch in out:
                if q in ("bol", "mid"):
                    if ch == "\\":
                        q = "bs"
                    elif ch == '"' or (q == "bol" and ch in ".'"):
                        return "escaped text can be read as roff syntax at %r in %r" % (ch, out[:40])
                    else:
                        q = "bol" if ch == "\n" else "mid"
                elif q == "bs":
                    if ch in "e&~":
                        q = "mid"
                    elif ch == "(":
                        q = "par"
                    else:
                        return "backslash not followed by an exporter escape in %r" % out[:40]
                elif q == "par":
                    q = "par2" if ch in "dc" else "bad"
                elif q == "par2":
                    q = "mid" if ch == "q" else "bad"
                if q == "bad":
                    return "unknown escape in %r" % out[:40]
            if q not in ("bol", "mid"):
                return "escaped text ends inside an escape: %r" % out[:40]
        elif table == "latex":
            back, k, BS = "", 0, chr(92)
            forms = [(BS + "textbackslash{}", BS), (BS + "^{}", "^"), (BS + "~{}", "~")] + [(BS + c, c) for c in "{}%&$#_"]
            while k < len(out):
                for f_, c_ in forms:
                    if out.startswith(f_, k):
                        back += c_
                        k += len(f_)
                        break
                else:
                    ch = out[k]
                    if ch in BS + "{}$&#^_%":
                        return "TeX-special character %r outside an escape form in %r" % (ch, out[:40])
                    back += chr(0xa0) if ch == "~" else ch
                    k += 1
            if back != src:
                return "escaped text does not decode to the source: %r" % out[:40]
        elif table == "html":
            import html as H
            if re.search(r"[<>\"']", out) or re.search(r"&(?!(amp|lt|gt|#34|#39);)", out):
                return "markup-significant character unescaped in %r" % out[:40]
            if H.unescape(out) != src:
                return "escaped text does not decode to the source"
        return None
    return Stream("S-esc-" + table, "esc", cases, oracle=oracle, exhaustive=True, nontrivial=lambda c: len(c.split()) > 2,
                  describe="escape.%s / html.EscapeString on all strings <= %d over the table's special characters and images (%d cases), every code point below U+0300 (all code points in steps of 7 in the thorough tier), random strings" % (table, T(tier, 3, 4), exh))


def umacro_docs():
    bodies = [".Sm \\$1 by \\$2", ".Sm also \\$@", "x \\$@ y", ".Sm \\$3", "t \\$[o] \\$?[f]", ".Sm a \\$1", ".P \\$@", ".Sm \\$2\\$1 \\$@"]
    calls = [".m", ".m a", ".m a b", ".m a b c d", ".m -f a", ".m -o v a b", ".m \"\" b"]
    docs = []
    for b1 in bodies:
        for b2 in [None] + bodies:
            body = [b1] + ([b2] if b2 else [])
            for c in calls:
                docs.append([".#de m"] + body + [".#.", c, "after"])
    return docs


TEX_SPECIALS = ["\\e", "{", "}", "$", "&", "#", "^", "_", "%", "~", "\xa0"]
TEXT_POSITIONS = ["%s", "x %s y", ".Sm %s", ".Sm a %s", ".Bm\n%s\n.Em", ".Ch %s", ".Sh %s\n.Tc", ".P %s", ".Bl\n.It %s\n.El", ".Bl -t desc\n.It %s\nv\n.El",
                  ".Bl -t table %s\n.It %s\n.Ta %s\n.El\n.Tc -lot", ".Bl -t verse %s\n.It %s\n.El", ".Lk http://a %s", ".Im i.png %s\n.Tc -lof",
                  ".Sm -id %s w", ".Bm -id %s\nt\n.Em", ".Bd -id %s\nt\n.Ed", ".Ch -id %s T\n.Sx %s", ".Bl -id %s\n.It a\n.El", ".D\n%s", ".#dv v %s\n\\*[v]", ".Lk %s", ".Lk %s l", ".Im -link %s i.png",
                  ".Lk http://a.b/?q=%s", ".Lk http://a.b/?q=%s l", ".Lk http://a.b/c#%s",
                  ".X dtag -f latex -t q -c %s\n.Bd -t q\nt\n.Ed", ".X mtag -f latex -t m -c %s\n.Sm -t m w"]

# configuration values that reach markup without being rendered (D29-D33): image names with special characters
# (the harness creates them), raw parameters, header ids used as anchors or file names
# documents inside the quantifier of C02 (labels and tag names are identifiers, parameters are plain): image paths given as
# macro arguments, attribute keys
CONFIG_IN = [".Im b\\e.png", ".Im b\\e.png cap", ".Im d\\e", ".Im d\\e cap", ".Im c&o.png", ".Im c\"o.png", ".Im c&o.png cap",
             ".X mtag -f xhtml -t u -c b -a |k<|v\n.Sm -t u w", ".X mtag -f xhtml -t u -c b -a |k&|v\n.Sm -t u w", ".X mtag -f xhtml -t u -c b -a |1k|v\n.Bm -t u\nw\n.Em",
             ".X dtag -f xhtml -t d -c div -a |-k|v\n.Bd -t d\nw\n.Ed"]
# documents outside it, which C03 ("no character of source text is interpreted as markup ... wherever it stands ... attribute")
# and C05 do quantify over: unrendered parameters, header ids, tag names, the chapter prefix
CONFIG_OUT = [".X set lang e\"n\nt", ".X set xhtml-css a&b\".css\nt", ".X set xhtml-favicon f\"<.ico\nt", ".X set dmark <\n.D\nt", ".X set dmark &\n.D\nt",
              ".X set xhtml-custom-ids 1\n.Ch -id a&b T\nt\n.Sh -id c\"d U\n.Tc\n.Sx a&b", ".X set xhtml-custom-ids 1\n.Ch -id a<b T\n.Tc",
              ".X set xhtml-chap-custom-filenames 1\n.Ch -id a&b T\nt\n.Ch -id c\"d U\nu\n.Tc", ".X set xhtml-chap-custom-filenames 1\n.X set xhtml-custom-ids 1\n.Ch -id a'b T\n.Sh -id x>y U",
              ".X set xhtml-chap-prefix p\"q\n.Ch T\nt", ".X set xhtml-chap-prefix p&q\n.Ch T\nt",
              ".X mtag -f xhtml -t c<d -c b\n.Sm -t c<d w", ".X mtag -f xhtml -t c&d -c b\n.Bm -t c&d\nw\n.Em"]
CONFIG_DOCS = CONFIG_IN + CONFIG_OUT


def config_cases(modes, pre="", docs=None):
    return [e2e.case_of(fm, pre + d + "\n") for fm in modes for d in (CONFIG_DOCS if docs is None else docs)]


def config_wf_oracle(case, go):
    """quiet compilation, and a markup file that is not well-formed XML: a character of a parameter, id or tag was read as markup"""
    r = oracles.c02_oracle(case, go)
    return ("a value written into an attribute or as text is interpreted as markup: " + r) if r and "KNOWN:" not in r else None


def position_docs(specials, n, positions=TEXT_POSITIONS):
    def quote(a):
        return '"' + a.replace('"', '""') + '"'
    out = []
    for a in gen.all_strings(specials, n, 1):
        for tmpl in positions:
            lines = []
            for line in tmpl.split("\n"):
                if "%s" in line:
                    line = line.replace("%s", quote(a)) if line.startswith(".") else line.replace("%s", ("\\&" if a.startswith(".") else "") + a)
                lines.append(line)
            out.append("\n".join(lines) + "\n")
    return out


class C04(E2EProp):
    id = "C04"
    cone = ["Properties/C04.vo"]
    prop_file = "Properties/C04.v"
    theorems = ["C04_escape_decodable", "C04_escape_injective", "C04_specials_only_in_escape_forms", "C04_escape_is_rune_by_rune", "C04_escape_compositional", "C04_escaped_text_is_brace_neutral", "C04_url_is_brace_neutral", "C04_headers_balanced_partial", "C04_inline_titles_balanced", "C04_url_table_is_the_source", "C04_tex_guards_are_the_source", "C04_model_rendered_text_decodes"]
    partial = ["C04 balance half is proved for the sub-language of Proofs/FragHL.v (text, Bm/Em/Sm, P with title, D, Lk with any url, Bd/Ed at any depth, headers, Tc; fragment mode) against the brace machine of Proofs/TokL.v, which does not read environments; lists, tables, verse, images, user macros and the standalone preamble are tied by S-e2e bytes and searched by the TeX balance oracle"]
    oracle = staticmethod(oracles.c04_oracle)
    assumptions = ["escape.LaTeX = strings.Replacer over latexEscapes = Repl.enc latex_table (translator checks the shape of escape.go; stream S-esc-latex)",
                   "processor + LaTeX exporter = Model/Loop.compile_source (stream S-e2e-latex)"]

    def plan(self, tier, rng):
        pos = [e2e.case_of("l0", d) for d in position_docs(TEX_SPECIALS, T(tier, 1, 2))] + [e2e.case_of("l0", d) for d in position_docs(["a%_b", "x#y", "50%_off", "{}", "\\e\\e"], 1)]
        return [("S-e2e-latex", fam_cases("l0", ALLFAM, T(tier, 3, 4), rng, 2, T(tier, 1500, 20000)), "LaTeX fragments: all sequences <= %d over 10 family alphabets, skeletons, random" % T(tier, 3, 4)),
                ("S-e2e-latex-config", config_cases(["l0"]), "images with special names, raw parameters and header ids (D29-D33 class), LaTeX"),
                ("S-e2e-latex-spanning", spanning_cases("l0", tier), "two kinds of inline markup nested and open across paragraph breaks, dialogue lines and verse items: all sequences <= %d over 8 lines" % T(tier, 4, 5)),
                ("S-e2e-latex-positions", pos, "TeX-special strings <= %d in %d text-bearing positions (text, titles, items, cells, captions, labels, ids, urls: path, query and fragment)" % (T(tier, 1, 2), len(TEXT_POSITIONS)))]

    def standalone_stream(self, tier, rng):
        """standalone documents (preamble, \\begin{document} ... \\end{document}): not modelled, implementation side and balance oracle only"""
        pre = [".X set document-title %s\n.X set document-author %s\n.X set document-date %s\n.X set title-page 1\n" % (q, q, q)
               for q in ['"T"', '"a {b"', '"a }b"', '"a \\e"', '"50% & $x_y^z #1 ~"']] + [".X set lang fr\n", ".X set lang xx}\n", ".X set latex-variant article\n"]
        cases = [c.replace("l0 ", "l1 ", 1) for c in fam_cases("l0", ["head", "misc", "title", "tags"], T(tier, 2, 3), rng, None, T(tier, 300, 3000))]
        cases += [e2e.case_of("l1", p + d + "\n") for p in pre for d in CONFIG_DOCS[:5] + [".Ch A\nt\n.Sh B\n.Tc", ".Pt P\n.Ch C\n.Bl\n.It a\n.El", "t"]]
        st = e2e.E2EStream("S-e2e-latex-standalone", "e2e", cases, oracle=self.oracle, exhaustive=False, nontrivial=nontrivial,
                           describe="standalone LaTeX documents (preamble from the parameters, title page): implementation side and TeX balance oracle only (the preamble is not modelled)")
        st.impl_only = True
        return st

    def streams(self, tier, rng):
        return [esc_stream("latex", tier, rng, "\\{}$&#^_%~[]\xa0")] + super().streams(tier, rng) + [self.standalone_stream(tier, rng)]


class C15(E2EProp):
    id = "C15"
    cone = ["Properties/C15.vo"]
    prop_file = "Properties/C15.v"
    theorems = ["C15_escaped_text_is_never_control", "C15_specials_are_escaped", "C15_model_text_is_escaped", "C15_model_arguments_are_escaped"]
    partial = ["C15_lines / C15_quoted on whole mom output: proved for what the text renderer of the model returns in mom format (C15_model_text_is_escaped, C15_model_arguments_are_escaped: text blocks and rendered arguments, any typography, any inlines); that every text-bearing position of Model/Mom.v writes only such text or its own requests, at the right place in a line, is tied by S-e2e-mom bytes and searched by the line oracle, not proved"]
    assumptions = ["escape.Roff = Repl.enc roff_table (S-esc-roff)", "mom exporter = Model/Mom.v (S-e2e-mom)"]

    @staticmethod
    def oracle(case, go):
        files = oracles.all_files(go)
        if files is None or not case.startswith("m"):
            return None
        if not e2e.raw_free(case):
            return None
        for line in files.get("", "").split("\n"):
            if line[:1] in (".", "'") and not re.match(r"^[lcr ]*\.$", line):
                # a request line must be one the exporter itself emits
                if not re.match(r"\.(PP|HEADING|PDF_WWW_LINK|PDF_LINK|PDF_TARGET|LIST|ITEM|QUOTE|BLOCKQUOTE|TS|TE|FLOAT|CAPTION|LABEL|PDF_IMAGE|TOC|START|TITLE|AUTHOR|DOCTYPE|PRINTSTYLE|PAPER|LEFT|RIGHT|CENTER|SP|br|nf|fi|ds|de|\.|[A-Z_]+)\b", line):
                    return "output line begins with a control character but is not an exporter request: %r" % line[:60]
        return None

    def plan(self, tier, rng):
        pos = []
        sp = [".", "'", "\\e", "\"", "…"]
        for a in gen.all_strings(sp, T(tier, 2, 3), 1):
            for tmpl in ["%s x", ".Sm %s", ".Ch %s", ".It %s", ".P %s", ".Lk http://a %s", ".Bl -t table %s", ".Bl -t verse\n.It %s\n.El", "a\n%s b"]:
                # with the default language (apostrophes are curled before the escaper sees them) and with a language
                # that has no automatic typography (they reach it straight)
                for lang in ("", ".X set lang de\n"):
                    if '"' in a and tmpl.startswith("."):
                        a2 = a.replace('"', '""')
                        pos.append(e2e.case_of("m0", lang + (tmpl % ('"' + a2 + '"')) + "\n"))
                    else:
                        pos.append(e2e.case_of("m0", lang + (tmpl % a) + "\n"))
        # a straight apostrophe or a dot first on a line of a chunk that has no other significant character
        for first in ["'", "\\&'", ".", "\\&."]:
            for lang in ("", ".X set lang de\n"):
                for tmpl in ["Plain line\n%stis the season", "%stis", ".Bl -t verse\n.It %stis\n.El", ".Bl\n.It %stis\n.El", ".Sh %stis", ".Bd\n%stis\n.Ed", ".Bm\n%stis\n.Em", ".D\n%stis"]:
                    pos.append(e2e.case_of("m0", lang + (tmpl % first) + "\n"))
        pos += [e2e.case_of("m0", d) for d in position_docs([".", "'", "\\e", "\"", "%", ":"], T(tier, 2, 3), [".Lk %s", ".Lk %s l", ".Sx %s", ".Sm -id %s w", ".Ch -id %s T", ".Im %s", ".Im %s cap", "%s"])]
        return [("S-e2e-mom", fam_cases("m0", ALLFAM, T(tier, 3, 4), rng, 2, T(tier, 1500, 20000)) + pos,
                 "mom fragments: family sequences, skeletons, random; roff-significant strings <= %d in 9 text-bearing positions, with and without automatic typography; chunks whose only significant character is a leading apostrophe or dot" % T(tier, 2, 3))]

    def streams(self, tier, rng):
        return [esc_stream("roff", tier, rng, ".'\\\"\xa0…")] + super().streams(tier, rng)


def resolve_escapes(a):
    out, i = "", 0
    while i < len(a):
        if a[i] == "\\" and i + 1 < len(a):
            out += {"e": "\\", "&": "", "~": "\xa0"}.get(a[i + 1], "")
            i += 2
        else:
            out += a[i]
            i += 1
    return out


class C03(E2EProp):
    id = "C03"
    cone = ["Properties/C03.vo"]
    prop_file = "Properties/C03.v"
    theorems = ["C03_escape_decodable", "C03_markup_characters_escaped", "C03_typography_only_inserts_fr", "C03_typography_only_inserts_en", "C03_model_rendered_text_decodes"]
    partial = ["C03_no_raw / C03_once_in_order on whole documents (every text-bearing position is rendered through the escaper, once, in order): tied by the S-e2e position sweep, searched by the text oracle; proof pending"]
    assumptions = ["html.EscapeString = Repl.enc html_table, the table probed from the toolchain over every code point (S-esc-html)", "XHTML exporter = Model/Xhtml.v (S-e2e position sweep)"]
    SPECIALS = ["<", ">", "&", "\"", "'", "\\e", "é", "\U0001F600", "\xa0"]
    POSITIONS = ["%s", "x %s y", ".Sm %s", ".Sm a %s", ".Bm\n%s\n.Em", ".Ch %s", ".Sh %s\n.Tc", ".P %s", ".It %s", ".Bl\n.It %s\n.El", ".Bl -t desc\n.It %s\nv\n.El",
                 ".Bl -t table %s\n.It %s\n.Ta %s\n.El", ".Bl -t verse %s\n.It %s\n.El", ".Lk http://a %s", ".Im -alt %s i.png", ".Im i.png %s",
                 ".Sm -id %s w", ".D\n%s", ".#dv v %s\n\\*[v]", ".X set document-title %s\n.Ch c\n.Tc", ".Bd -id %s\nt\n.Ed", ".Sx %s", ".Sx lab %s"]

    @staticmethod
    def events(text):
        """(tag skeleton with attribute names, character data and attribute values) of a fragment; None if not well formed"""
        import xml.parsers.expat
        ev = []
        p = xml.parsers.expat.ParserCreate()
        p.StartElementHandler = lambda n, a: ev.append(("S", n, tuple(sorted(a.items()))))
        p.EndElementHandler = lambda n: ev.append(("E", n))
        p.CharacterDataHandler = lambda d: ev.append(("T", d))
        p.buffer_text = True
        try:
            p.Parse(("<r>" + text + "</r>").encode("utf-8"), True)
        except xml.parsers.expat.ExpatError:
            return None
        return ev

    def plan(self, tier, rng):
        cases, self.meta = [], {}
        n = T(tier, 2, 3)
        for a in list(gen.all_strings(self.SPECIALS, n, 1)) + ["Sm", "Bm", "Em", "\\&Sm x", "a\\&'b", "\\&'-x\\&'"]:
            for tmpl in self.POSITIONS:
                import unicodedata
                res = resolve_escapes(a)
                body = res
                # a last argument made of punctuation is a closing delimiter, kept outside the markup: the neutral word must be one too
                neutral = "\u00a7" if body and all(unicodedata.category(ch).startswith("P") for ch in body) and not a.startswith("\\&") else "Q"
                for lang in (("", ".X set lang fr\n", ".X set lang xx\n") if len(a) <= 4 else ("",)):
                    pair = []
                    for val in (a, neutral):
                        out = []
                        for line in tmpl.split("\n"):
                            if "%s" in line:
                                line = line.replace("%s", '"' + val.replace('"', '""') + '"') if line.startswith(".") else line.replace("%s", val)
                            out.append(line)
                        pair.append(e2e.case_of("x0", lang + "\n".join(out) + "\n"))
                    exp = resolve_escapes(a)
                    if tmpl.startswith(".") and a in ("Sm", "Bm", "Em") and "%s" in tmpl.split("\n")[0] and not re.search(r"-(id|alt) %s", tmpl):
                        continue      # an unescaped Sm/Bm/Em argument is an inline macro by design
                    self.meta[pair[0]] = (pair[1], exp, neutral)
                    cases += pair
        return [("S-e2e-xhtml-positions", cases + fam_cases("x0", ["misc", "title", "tags"], T(tier, 2, 3), rng, None, T(tier, 500, 5000)),
                 "XHTML: every string <= %d over {< > & dq sq backslash e-acute astral NBSP} (and Sm/Bm/Em, escaped apostrophes) in %d text-bearing positions, lang en/fr/other, each paired with the same document holding a neutral word; family sequences; random" % (n, len(self.POSITIONS)))]

    # parameters rendered at assignment and shown to the reader (D36): the text of the "go up" link of every page of a
    # multi-file document, the subject of an EPUB
    def param_stream(self, tier):
        import html as _html
        n = T(tier, 2, 3)
        vals = [a for a in gen.all_strings(["<", ">", "&", "\"", "x", "\xe9"], n, 1)]
        want, cases = {}, []
        for a in vals:
            q = '"' + a.replace('"', '""') + '"'
            c1 = e2e.case_of("x2", ".X set xhtml-go-up %s\n.Ch T\nt\n" % q)
            c2 = e2e.case_of("e3", ".X set document-title T\n.X set epub-uuid u\n.X set epub-subject %s\n.Ch T\nt\n" % q)
            want[c1.split(" | ")[0]] = ("go-up", a)
            want[c2.split(" | ")[0]] = ("subject", a)
            cases += [c1, c2]

        def oracle(case, go):
            kind, a = want.get(case.split(" | ")[0], (None, None))
            g = e2e.parse_go(go)
            if kind is None or g[0] != "ok":
                return None
            files = {e2e.dec(k): e2e.dec(v) for k, v in g[1].items()}
            if kind == "go-up":
                page = next((v for k, v in files.items() if k.startswith("body-")), "")
                m = re.search(r'<a href="index.html">(.*?)</a>', page)
                seen = _html.unescape(m.group(1)) if m else None
            else:
                m = re.search(r'<dc:subject[^>]*>(.*?)</dc:subject>', files.get("EPUB/content.opf", ""))
                seen = _html.unescape(m.group(1)) if m else None
            if seen is not None and seen != a:
                return "the reader sees %r where %r was written (%s)" % (seen, a, kind)
            return None
        return e2e.E2EStream("S-e2e-xhtml-params", "e2e", cases, oracle=oracle, exhaustive=True, nontrivial=nontrivial,
                             describe="every string <= %d over {< > & dq x e-acute} as the text of the go-up link (multi-file) and as the EPUB subject: the character data seen equals the text written" % n)

    def config_stream(self):
        cases = config_cases(["x0", "x1", "x2"], docs=CONFIG_OUT) + config_cases(["e3"], ".X set document-title T\n.X set epub-uuid u\n.Ch A\n", docs=CONFIG_OUT)
        return e2e.E2EStream("S-e2e-xhtml-config", "e2e", cases, oracle=config_wf_oracle, exhaustive=True, nontrivial=nontrivial,
                             describe="values that stand in attributes or text without being rendered at assignment - lang, css, favicon, dialogue mark, header ids, chapter prefix, tag names - with markup characters, every XHTML mode: none is read as markup (D32, D33, D35)")

    def streams(self, tier, rng):
        sts = [esc_stream("html", tier, rng, "<>&\"'")] + C20().streams(tier, rng) + [self.param_stream(tier), self.config_stream()] + super().streams(tier, rng)
        prop = self
        st = sts[-1]
        orig_run = st.run

        def run():
            orig_run()
            idx = {c.split(" | ")[0]: i for i, c in enumerate(st.cases)}
            for ca, (cb, exp, neutral) in prop.meta.items():
                i, j = idx.get(ca), idx.get(cb)
                if i is None or j is None:
                    continue
                a, b = e2e.parse_go(st.go[i]), e2e.parse_go(st.go[j])
                if a[0] != "ok" or b[0] != "ok":
                    if a[0] != b[0]:
                        st.oracle_hits.append((i, "exit class differs from the neutral-word document"))
                    continue
                if [d for d in a[2] if not e2e.SCANNER_DIAG.match(d)] != [d for d in b[2] if not e2e.SCANNER_DIAG.match(d)] and len(a[2]) != len(b[2]):
                    continue
                ea, eb = prop.events(e2e.dec(a[1].get("", ""))), prop.events(e2e.dec(b[1].get("", "")))
                if eb is None:
                    continue
                if ea is None:
                    st.oracle_hits.append((i, "text %r makes the output malformed (the same document with a neutral word is well formed)" % exp))
                    continue
                curl = lambda t: t.replace("\u2019", "'")
                want = curl(exp)

                def norm(ev):
                    out = []
                    for e in ev:
                        if e[0] == "T":
                            out.append(("T", curl(e[1]).replace(want, neutral) if want else curl(e[1])))
                        elif e[0] == "S":
                            out.append(("S", e[1], tuple((k, curl(v).replace(want, neutral) if want else curl(v)) for k, v in e[2])))
                        else:
                            out.append(e)
                    return out
                if norm(ea) != norm(eb):
                    st.oracle_hits.append((i, "the reader does not see the text %r as written: structure or character data differ from the neutral-word document" % exp))
        st.run = run
        return sts


# =================================================================== processor-level properties
class C01(E2EProp):
    id = "C01"
    cone = ["Properties/C01.vo"]
    prop_file = "Properties/C01.v"
    theorems = ["C01_blocks_no_panic_partial", "C01_source_no_panic_partial", "C01_dispatch_table_agrees", "C01_dispatch_domain", "C01_option_tables_agree", "C01_source_constants_agree", "D1_unclosed_table", "D2_mom_fontstack", "D3_user_macro_named_Sm"]
    partial = ["C01_full (no panic site reachable) is proved for the sub-language of Proofs/FragH.v (XHTML fragment, standalone, multi-file and EPUB modes: text, Bm/Em/Sm, P, D, Lk, Bd/Ed, headers with pass agreement, Tc) and every world and positive fuel; beyond it the model has a partial primitive at every Go panic site and agrees with the implementation on the exit class of every case (S-e2e)"]
    oracle = staticmethod(oracles.c01_oracle)
    assumptions = ["Model/Loop.compile_source is the implementation for the four fragment formats and the XHTML standalone, multi-file and EPUB modes (S-e2e: bytes, diagnostics and exit class)",
                   "failures that are not expression-level panics (memory exhaustion, Go stack limit) are outside the model"]

    def plan(self, tier, rng):
        n = T(tier, 3, 4)
        out = []
        for fm in ("x0", "l0", "m0", "k0"):
            out.append(("S-e2e-" + fm, fam_cases(fm, ALLFAM, n if fm == "x0" else T(tier, 2, 3), rng, 2, T(tier, 800, 10000)), "fragment mode %s: family sequences, skeletons, random and perturbed nested documents" % fm))
        for fm in ("x1", "x2", "e3"):
            out.append(("S-e2e-" + fm, fam_cases(fm, ["head", "misc", "table"], 2, rng, None, T(tier, 300, 4000)), "mode %s: headers/images/tables sequences <= 2, random" % fm))
        um = umacro_docs()
        out.append(("S-e2e-usermacros", [e2e.case_of(fm, e2e.doc_of(d)) for fm in ("x0", "k0") for d in um], "user macros: 8 x 9 bodies using $N, $@, $[o], $?[f] x 7 invocations with 0-4 arguments and options"))
        return out


class C02(E2EProp):
    id = "C02"
    cone = ["Properties/C02.vo"]
    prop_file = "Properties/C02.v"
    theorems = ["C02_headers_balanced_partial", "C02_inline_titles_balanced", "C02_toc_writer_balanced", "C02_text_keeps_invariant", "C02_Bm_keeps_invariant", "C02_Em_keeps_invariant", "C02_Sm_keeps_invariant", "C02_P_keeps_invariant", "D4_D5_D6_D16_D17_D18_D19_D21_D22", "D7_known_refuted", "C02_guards_are_the_source"]
    partial = ["C02_full is stated against Spec/Xml.wf_xml; proved: element balance (tag machine of Proofs/Tok.v, weaker than XML well-formedness) of the whole output for the sub-language of Proofs/FragH.v in fragment, standalone, multi-file and EPUB mode (every file written - index page, one page per part and chapter with header, navigation bars and footer, the EPUB package files - is balanced; Proofs/Multi.v), of processInlineMacros, of the TOC writer (XHTML, EPUB nav, NCX) and of the EPUB package files (C14); lists, tables, verse, images, cross-references, user macros and the standalone/multi-file/EPUB page skeletons are tied by S-e2e bytes and searched by the strict XML oracle; the list-of-X writer is the known finding D7"]
    oracle = staticmethod(oracles.c02_oracle)
    assumptions = ["XHTML/EPUB exporter = Model/Xhtml.v through Model/Loop.compile_source (S-e2e bytes of every generated file)"]

    def plan(self, tier, rng):
        out = [("S-e2e-x0", fam_cases("x0", ALLFAM, T(tier, 3, 4), rng, T(tier, 2, 3), T(tier, 1500, 20000)), "XHTML fragments: family sequences, skeletons, random")]
        out.append(("S-e2e-spanning", spanning_cases("x0", tier) + spanning_cases("x1", tier)[:: 5], "two kinds of inline markup nested and open across paragraph breaks, dialogue lines and verse items: all sequences <= %d over 8 lines" % T(tier, 4, 5)))
        for fm in ("x1", "x2", "e3"):
            out.append(("S-e2e-" + fm, fam_cases(fm, ["head", "misc", "title"], 2, rng, None, T(tier, 300, 4000)), "mode %s" % fm))
        out.append(("S-e2e-config", config_cases(["x0", "x1", "x2"], docs=CONFIG_IN) + config_cases(["e3"], ".X set document-title T\n.X set epub-uuid u\n.Ch A\n", docs=CONFIG_IN),
                    "inside the quantifier of C02: image paths with special characters given as arguments, attribute keys (D31, D34), every XHTML mode"))
        return out


class C05(E2EProp):
    id = "C05"
    cone = ["Properties/C05.vo"]
    prop_file = "Properties/C05.v"
    theorems = ["C05_toc_entries_refer_to_their_header_partial", "C05_examples"]
    partial = ["C05_links on the bytes: stated; proved on the data of the model for the sub-language of Proofs/FragH.v (entries numbered in document order, the i-th refers to #s<i>, the id of the i-th header); labels, figures, tables, poems, multi-file names, nav/NCX/OPF are tied by S-e2e and searched by the link oracle"]
    oracle = staticmethod(oracles.c05_oracle)
    FAM = [".Pt P", ".Ch C", ".Ch -id c1 D", ".Sh S", ".Sh -id h1 L", ".Ss s", ".Tc", ".Tc -mini", ".Sx h1", ".Sx c1", ".Sx f1", ".Im -id f1 i.png cap", ".Im i.png .", ".Im i.png c2",
           ".Tc -lof", ".Bl -t table -id t1 T", ".It a", ".El", ".Sx t1", ".Sm -id m1 w", ".Sx m1", ".Bl -t verse -id p1 V", "t"]

    def plan(self, tier, rng):
        n = T(tier, 3, 4)
        docs = [list(s) for k in range(1, n + 1) for s in itertools.product(self.FAM, repeat=k)] if tier != Q else \
               [list(s) for k in range(1, 3) for s in itertools.product(self.FAM, repeat=k)] + [[rng.choice(self.FAM) for _ in range(rng.randint(3, 9))] for _ in range(3000)]
        out = []
        for fm, pre in (("x0", ""), ("x2", ""), ("x2", ".X set xhtml-chap-custom-filenames 1\n.X set xhtml-custom-ids 1\n"), ("e3", ".X set document-title T\n.X set epub-uuid u\n"), ("l0", "")):
            sub = docs if fm in ("x0", "l0") else docs[:: 3]
            out.append(("S-e2e-%s%s" % (fm, "-custom" if "custom" in pre else ""), [e2e.case_of(fm, pre + e2e.doc_of(d)) for d in sub], "labels, cross-references, TOC and list-of-figures entries in mode %s" % fm))
        # user ids that have the form of a generated anchor (D37)
        clash = [".Ch A\n.Bd -id s1\nt\n.Ed\n.Sx s1\n.Tc\n", ".Im i.png cap\n.Sm -id fig1 w\n.Sx fig1\n.Tc -lof\n", ".Bl -t table T\n.It a\n.El\n.Bm -id tbl1\nw\n.Em\n.Sx tbl1\n",
                 ".Tc -title Contents\n.Ch A\n.Bd -id toc-title\nt\n.Ed\n.Sx toc-title\n", ".Ch A\n.Sh B\n.Sm -id s2 w\n.Sx s2\n"]
        out.append(("S-e2e-anchor-clash", [e2e.case_of(fm, d) for fm in ("x0", "x1") for d in clash], "user ids with the form of the anchors generated for headers, figures, tables and the TOC title"))
        ids = [d + "\n" for d in CONFIG_OUT if "-id " in d]
        out.append(("S-e2e-id-characters", [e2e.case_of(fm, d) for fm in ("x0", "x1", "x2") for d in ids] + [e2e.case_of("e3", ".X set document-title T\n.X set epub-uuid u\n" + d) for d in ids],
                    "header ids with quotes, & and < used as custom ids and custom file names (D33): every link still resolves to exactly one anchor"))
        return out


class C06(E2EProp):
    id = "C06"
    cone = ["Properties/C06.vo"]
    prop_file = "Properties/C06.v"
    theorems = ["C06_counters", "C06_levels_ordered", "C06_toc_nested", "C06_toc_writer_balanced", "C06_model_counters_are_the_source", "C06_model_levels_are_the_source", "C06_model_reset_is_the_source"]
    partial = ["C06_toc_entries (each TOC lists exactly the selected headers with the header’s own number and title): tied by S-e2e and searched by the numbering oracle; proved: counters/levels (translated source = model), TOC writer nesting on the real strings"]
    HDR = [".Pt P", ".Ch C", ".Sh S", ".Ss s", ".Pt -nonum p", ".Ch -nonum c", ".Sh -nonum h", ".Ss -nonum u"]
    TC = ["", ".Tc", ".Tc -mini", ".Tc -summary", ".Tc -mini -summary", ".Tc -nonum"]

    @staticmethod
    def oracle(case, go):
        files = oracles.all_files(go)
        if files is None or not case.startswith("x0"):
            return None
        doc = decode_runes(case.split(" ", 1)[1]) if " " in case else ""
        hs = [l.split() for l in doc.split("\n") if l[:3] in (".Pt", ".Ch", ".Sh", ".Ss")]
        if len(hs) != len([l for l in doc.split("\n") if l.strip() and not l.startswith(".Tc")]):
            return None
        # independent hierarchical counter
        has_ch = False        # the format c.s / s is fixed by whether a chapter has been seen so far
        pt = ch = sh = ss = 0
        want = []
        for h in hs:
            k, nonum = h[0], "-nonum" in h
            if k == ".Ch":
                has_ch = True
            if k == ".Pt":
                sh = ss = 0
                pt += 0 if nonum else 1
                num = str(pt)
            elif k == ".Ch":
                sh = ss = 0
                ch += 0 if nonum else 1
                num = str(ch)
            elif k == ".Sh":
                ss = 0
                sh += 0 if nonum else 1
                num = "%d.%d" % (ch, sh) if has_ch else str(sh)
            else:
                ss += 0 if nonum else 1
                num = "%d.%d.%d" % (ch, sh, ss) if has_ch else "%d.%d" % (sh, ss)
            want.append((k[1:], "" if nonum else num, h[-1]))
        got = re.findall(r'<h(\d) class="(\w\w)" id="[^"]*">(?:([\d.]+) )?(\w)</h\1>', files.get("", ""))
        if len(got) != len(want):
            return "expected %d headers, found %d" % (len(want), len(got))
        for (lvl, k, num, title), (wk, wnum, wt) in zip(got, want):
            if k != wk or num != wnum or title != wt:
                return "header %s %s: number %r, expected %r" % (wk, wt, num, wnum)
        lv = {}
        for lvl, k, _, _ in got:
            lv[k] = int(lvl)
        order = [lv[k] for k in ("Pt", "Ch", "Sh", "Ss") if k in lv]
        if order != sorted(order) or len(set(order)) != len(order):
            return "heading levels not ordered: %r" % lv
        return None

    def plan(self, tier, rng):
        n = T(tier, 4, 6)
        cases = []
        seqs = [s for k in range(1, n + 1) for s in itertools.product(self.HDR, repeat=k)]
        if tier == Q:
            seqs = [s for s in seqs if len(s) <= 3] + rng.sample([s for s in seqs if len(s) == 4], 1500)
        for s in seqs:
            for tc in (self.TC if len(s) <= 3 else [rng.choice(self.TC)]):
                for pos in ({0, len(s)} if tc else {0}):
                    d = list(s)
                    if tc:
                        d.insert(pos, tc)
                    cases.append(e2e.case_of("x0", e2e.doc_of(d)))
        more = []
        for s in seqs[:: T(tier, 7, 3)]:
            for fm in ("x2", "e3", "l0", "k0", "m0"):
                more.append(e2e.case_of(fm, (".X set document-title T\n.X set epub-uuid u\n" if fm == "e3" else "") + e2e.doc_of(list(s) + [".Tc"])))
        for _ in range(T(tier, 300, 5000)):
            d = [rng.choice(self.HDR + self.TC[1:]) for _ in range(rng.randint(5, 40))]
            cases.append(e2e.case_of("x0", e2e.doc_of(d)))
        return [("S-toc-x0", cases, "all header sequences <= %d over {Pt,Ch,Sh,Ss}x{num,nonum} x Tc options and placements (sampled at the longest length in the quick tier), random sequences to 40" % n),
                ("S-toc-modes", more, "header sequences in multi-file, EPUB, LaTeX, markdown and mom with a Tc")]


class C07(E2EProp):
    id = "C07"
    cone = ["Properties/C07.vo"]
    prop_file = "Properties/C07.v"
    theorems = ["C07_examples", "C07_open_conditionals_are_reported", "C07_open_inline_scopes_are_reported", "C07_open_blocks_are_reported", "C07_sweep_reports_every_open_scope", "C07_closing_logs_nothing_under_quiet"]
    partial = ["C07_complete / C07_sound / C07_lines on whole documents: stated; proved are the steps of the end-of-file sweep - one diagnostic per open conditional, one per open inline scope and one per open display block (all of them closed), macroEm and macroEd log nothing under quiet, an open filter region or definition is reported; the same count for list scopes, that balanced documents are never reported, and the line of the opening macro (which the projected diagnostics of the model do not carry) are tied by S-e2e projected diagnostics (file, line, macro) and S-parse line numbers and searched by the nesting and location oracles"]
    OPEN = [".Bd", ".Bl", ".Bm", ".Bf -f xhtml", ".#if 1", ".#de m", ".Bl -t enum", ".It x"]
    CLOSE = [".Ed", ".El", ".Em", ".Ef", ".#;", ".#.", ".Ch C"]
    NEUT = ["t", ".Sm w", ".P", "\\\" comment"]

    @staticmethod
    def location_oracle(case, a):
        """every diagnostic designates, in an existing file, the line on which the reported macro line begins (for lines
        coming from a user macro body: the outermost invocation, which is not inside a macro definition)"""
        parts = case.split(" | ")
        files = {"w/d.frundis": decode_runes(parts[0].split(" ", 1)[1]) if " " in parts[0] else ""}
        for p in parts[1:]:
            if p.startswith("F ") and "=" in p:
                n, c = p[2:].split("=", 1)
                files[decode_runes(n)] = decode_runes(c)
        for d in a[2]:
            m = re.match(r"frundis: ([^:]+):(\d+):(in user macro `\.([^']*)':)?([^:]*): ", d)
            if not m:
                continue
            fname, ln, um, mac = m.group(1), int(m.group(2)), m.group(4), m.group(5)
            if fname not in files:
                return "diagnostic names a file that is not a source: %s" % d[:100]
            lines = files[fname].split("\n")
            if ln < 1 or ln > len(lines):
                return "diagnostic designates line %d of %s, which has %d lines" % (ln, fname, len(lines))
            text = lines[ln - 1]
            depth = 0        # definitions do not nest: a .#de inside a definition is reported and the first .#. ends the definition
            for l in lines[:ln - 1]:
                if l.startswith(".#de"):
                    depth = 1
                elif l == ".#.":
                    depth = 0
            if depth > 0 and text not in (".#.",) and not text.startswith(".#de"):
                return "diagnostic designates line %d of %s, inside a macro definition (not the invocation): %s" % (ln, fname, d[:100])
            if um is not None:
                if not re.match(r"\.\s*" + re.escape(um) + r"(\s|$)", text):
                    return "diagnostic says line %d invokes .%s but the line is %r" % (ln, um, text[:40])
            elif mac and mac not in ("End Of File",) and text.startswith(".") and not re.match(r"\.\s*" + re.escape(mac.split()[0]) + r"(\s|$)", text):
                return "diagnostic reports %s at line %d but the line is %r" % (mac, ln, text[:40])
        return None

    @staticmethod
    def oracle(case, go):
        a = e2e.parse_go(go)
        if a[0] != "ok":
            return None
        r = C07.location_oracle(case, a)
        if r:
            return r
        if not case.startswith("x0 "):
            return None
        doc = decode_runes(case.split(" | ")[0].split(" ", 1)[1])
        lines = doc.split("\n")
        FALSE = [".#if 0", ".#if -f latex"]          # conditions that do not hold in an xhtml compilation
        if any(not (l in C07.OPEN + C07.CLOSE + C07.NEUT + FALSE + [""]) for l in lines):
            return None
        inbf = False
        for l in lines:           # a filter block holds raw text only: macros inside it (another .Bf included) are reported by design
            if inbf and l.startswith(".") and l != ".Ef":
                return None
            if l.startswith(".Bf"):
                inbf = True
            elif l == ".Ef":
                inbf = False
        # independent stack discipline
        stack, off = [], []
        inde = False
        crossing = False     # markup opened by Bm spans paragraphs, not blocks: a block boundary inside it is reported by design
        ign = 0              # depth of ignored conditionals: inside, only #if and #; count
        for i, l in enumerate(lines, 1):
            if inde:
                if l == ".#.":
                    inde = False
                continue
            if ign > 0:
                if l.startswith(".#if"):
                    stack.append(("#if", i))
                    ign += 1
                elif l == ".#;":
                    stack.pop()
                    ign -= 1
                continue
            if l in FALSE:
                stack.append(("#if", i))
                ign = 1
                continue
            if any(m == "Bm" for m, _ in stack) and (l in (".Bd", ".Ed", ".El") or l.startswith(".Bl")):
                crossing = True
            if l == ".#de m":
                inde = i
            elif l in (".Bd", ".Bm", ".Bf -f xhtml", ".#if 1") or l.startswith(".Bl"):
                stack.append((l.split()[0][1:], i))
            elif l in (".Ed", ".Em", ".Ef", ".#;", ".El"):
                want = {".Ed": "Bd", ".Em": "Bm", ".Ef": "Bf", ".#;": "#if", ".El": "Bl"}[l]
                if not any(m == want for m, _ in stack):
                    off.append((l[1:], i))
                else:
                    while stack and stack[-1][0] != want:
                        off.append(stack.pop())
                    stack.pop()
            elif l == ".#.":
                off.append(("#.", i))
        quietly_balanced = not off and not stack and not inde and not crossing
        balance_diag = [d for d in a[2] if re.search(r"isn't closed|no corresponding|without previous|unclosed|End Of File", d)]
        if quietly_balanced and balance_diag and ".It x" not in lines and ".Ch C" not in lines and ".P" not in lines:
            return "balanced document reported: %s" % balance_diag[0][:120]
        if (stack or inde) and not balance_diag and ".Ch C" not in lines:
            return "unclosed %r not reported" % (stack[-1:] or inde,)
        return None

    def plan(self, tier, rng):
        alpha = self.OPEN + self.CLOSE + self.NEUT
        n = T(tier, 3, 4)
        cases = [e2e.case_of("x0", e2e.doc_of(s)) for k in range(1, n + 1) for s in itertools.product(alpha, repeat=k)]
        # layouts: comments, continuations, empty control lines, user-macro wrappers, includes
        lay = []
        for s in itertools.product(self.OPEN[:5] + self.CLOSE[:5] + ["t"], repeat=2):
            d = list(s)
            lay.append(e2e.case_of("x0", ".\\\" c\n" + d[0] + " \\\" c\n.\n" + d[1] + "\n"))
            lay.append(e2e.case_of("x0", "a\n\n" + d[0] + "\n.Sm a \\\nb\n" + d[1] + "\n"))
            lay.append(e2e.case_of("x0", ".#de w\n" + d[0] + "\n.#.\nt\n.w\n" + d[1] + "\n"))
            lay.append(e2e.case_of("x0", "t\n.If inc.frundis\n" + d[1] + "\n", [("inc.frundis", "x\n" + d[0] + "\n")]))
            lay.append(e2e.case_of("l0", "t\n.If inc.frundis\n" + d[1] + "\n", [("inc.frundis", "x\n" + d[0] + "\n")]))
        for s2 in itertools.product(self.OPEN[:5] + self.CLOSE[:5], repeat=1):
            x = s2[0]
            # wrapper calling another user macro before the offending line; macro defined in an included library file
            lay.append(e2e.case_of("x0", ".#de inner\nin\n.#.\n.#de outer\n.inner\n" + x + "\n.#.\nt\n\n.outer\nend\n"))
            lay.append(e2e.case_of("x0", ".#de inner\n" + x + "\n.#.\n.#de outer\nt\n.inner\n.#.\nt\n.outer\n.outer\n"))
            lay.append(e2e.case_of("x0", "t\n.If lib.frundis\nu\n\n.cw\nv\n.cw\n", [("lib.frundis", ".\\\" library\n\n.#de cw\n" + x + "\n.#.\n")]))
            lay.append(e2e.case_of("l0", "t\n.If lib.frundis\n.#de w2\n.cw\n" + x + "\n.#.\n.w2\n", [("lib/lib.frundis", ".#de cw\nz\n" + x + "\n.#.\n")], ["lib"]))
        # conditionals inside ignored regions: what a false branch hides must neither be reported nor unbalance the rest
        calpha = [".#if 0", ".#if 1", ".#;", "t", ".Bm", ".Em", ".#if -f latex"]
        cond = [e2e.case_of(fm, e2e.doc_of(s)) for fm in ("x0", "k0") for k in range(2, T(tier, 5, 6) + 1) for s in itertools.product(calpha, repeat=k)
                if any(x.startswith(".#if 0") or x.startswith(".#if -f") for x in s) and (fm == "x0" or k <= 4)]
        return [("S-e2e-nesting", cases, "all sequences <= %d over 8 openers, 7 closers, 4 neutral lines (xhtml fragment)" % n),
                ("S-e2e-ignored", cond, "all sequences <= %d over false, true and format-restricted conditionals, their end, text and markup, with at least one false conditional (bytes and diagnostics with their locations)" % T(tier, 5, 6)),
                ("S-e2e-layouts", lay, "pairs of openers/closers embedded in comments, continuation lines, empty control lines, user-macro wrappers and included files")]


def pair_oracle_factory(describe):
    return None


class PairProp(E2EProp):
    """Streams of document pairs (original, transformed): besides the model correspondence on every document,
    the implementation-side oracle compares the outputs of the two documents of each pair."""
    fmts = ("x0", "l0", "m0", "k0")

    def pairs(self, tier, rng):
        return []          # list of (docA, filesA, docB, filesB, libsA, libsB)

    def plan(self, tier, rng):
        out = []
        ps = self.pairs(tier, rng)
        for fm in self.fmts:
            cases = []
            for p in ps:
                a, fa, b, fb = p[:4]
                la = p[4] if len(p) > 4 else None
                lb = p[5] if len(p) > 5 else None
                cases.append(e2e.case_of(fm, a, fa, la))
                cases.append(e2e.case_of(fm, b, fb, lb))
            out.append(("S-pairs-" + fm, cases, self.describe_pairs + " (%d pairs, format %s)" % (len(ps), fm)))
        return out

    def streams(self, tier, rng):
        sts = super().streams(tier, rng)
        prop = self
        for st in sts:
            orig_run = st.run

            def run(st=st, orig_run=orig_run):
                orig_run()
                for i in range(0, len(st.cases) - 1, 2):
                    a, b = e2e.parse_go(st.go[i]), e2e.parse_go(st.go[i + 1])
                    r = prop.compare_pair(st.cases[i], st.cases[i + 1], a, b)
                    if r:
                        st.oracle_hits.append((i, r + " | other document: " + e2e.show_case(st.cases[i + 1])[:300]))
            st.run = run
        return sts

    def compare_pair(self, ca, cb, a, b):
        if a[0] != b[0]:
            return "exit class differs: %s vs %s" % (a[0], b[0])
        if a[0] != "ok":
            return None
        if a[1] != b[1]:
            return "outputs differ between the two documents of the pair"
        return None


class C08(PairProp):
    id = "C08"
    cone = ["Properties/C08.vo"]
    prop_file = "Properties/C08.v"
    theorems = ["C08_call_runs_the_substituted_body", "C08_substitution_rules", "C08_text_without_arguments_is_unchanged", "C08_examples"]
    partial = ["the substitution of a text (Model/Proc3.subst_text) is proved to be the inline-by-inline replacement of the manual's rules when every argument referred to exists (C08_substitution_rules); the missing-argument cases and the whole-argument \\$@ of subst_block are compared with an independent Python substitution by the S-pairs oracle",
               "lifting the state-level equation to byte equality of whole documents needs the frame facts 'call depth, location and expansion count are not read by rendering', tied by S-pairs"]
    describe_pairs = "user macro invocation vs body with arguments substituted"
    BODIES = [[".Sm \\$1"], ["a \\$1 b"], [".Sm \\$1: \\$1=\\$2", "The key \\$1 is set."], [".P \\$@"], [".Sm \\$@"], ["x \\$@ y"], [".Sm -t t \\$1 \\$2"], ["\\$1\\$2"], [".Sm \\$2 \\$1"],
              [".Ch \\$1", "\\$1 again"], ["\\$?[f]x\\$[o]y"], [".Sm a\\$?[f]b \\$[o]"], [".It \\$1"], [".Sm \\$1 \\$@"], [".Bm", "\\$1", ".Em \\$2"]]
    ARGS = [[], ["a"], ["a", "b"], ["a b", "c"], ["C:\\edir\\efile", "3"], ["a\"\"b", "c"], ["", "x"], ["<&>", "$"], ["a", "b", "c", "d"], ["\\&-x", "y"], ["é\U0001F600", "-"], ["!", "?"]]

    @staticmethod
    def q(a):
        return '"' + a.replace('"', '""') + '"' if (a == "" or " " in a or a.startswith('"')) else a

    def subst(self, line, args, flags, opts, macro_line):
        # manual's rules, independent of argsSubstBlock
        if macro_line:
            toks = line.split(" ")
            out = [toks[0]]
            for t in toks[1:]:
                if t == "\\$@":
                    out += [self.q(a) for a in args[self.argsc:]]
                else:
                    out.append(self.subst_text(t, args, flags, opts, True))
            return " ".join(out)
        return self.subst_text(line, args, flags, opts, False)

    def subst_text(self, t, args, flags, opts, in_arg):
        def rep(m):
            k = int(m.group(1))
            return args[k - 1] if 0 < k <= len(args) else "\\$" + str(k)
        r = re.sub(r"\\\$(\d)", rep, t)
        r = r.replace("\\$@", " ".join(args[self.argsc:]))
        r = re.sub(r"\\\$\?\[(\w+)\]", lambda m: "1" if m.group(1) in flags else "", r)
        r = re.sub(r"\\\$\[(\w+)\]", lambda m: opts.get(m.group(1), ""), r)
        if in_arg and (r == "" or " " in r or r.startswith('"')):
            r = self.q(r)
        return r

    def pairs(self, tier, rng):
        ps = []
        for body in self.BODIES:
            text = "\n".join(body)
            self.argsc = max([int(x) for x in re.findall(r"\\\$(\d)", text)] + [0])
            named = "\\$[" in text or "\\$?[" in text
            for args in self.ARGS:
                if any(int(x) > len(args) for x in re.findall(r"\\\$(\d)", text)):
                    continue
                if named:
                    variants = [([], {}), (["f"], {}), ([], {"o": "v w"}), (["f"], {"o": "z"})]
                else:
                    variants = [([], {})]
                for flags, opts in variants:
                    if named and args and args[0].startswith("-"):
                        continue
                    call = ".m" + "".join(" -" + f for f in flags) + "".join(" -%s %s" % (k, self.q(v)) for k, v in opts.items()) + "".join(" " + self.q(a) for a in args)
                    a = ".X mtag -f xhtml -t t -c b\n.X mtag -f latex -t t -c textbf\n.X mtag -f mom -t t -c B\n.X mtag -f markdown -t t -c **\n.#de m\n" + text + "\n.#.\nbefore\n" + call + "\nafter\n"
                    if any(x.startswith("-") for x in args):
                        continue
                    sub = [self.subst(l, args, flags, opts, l.startswith(".")) for l in body]
                    b = ".X mtag -f xhtml -t t -c b\n.X mtag -f latex -t t -c textbf\n.X mtag -f mom -t t -c B\n.X mtag -f markdown -t t -c **\nbefore\n" + "\n".join(sub) + "\nafter\n"
                    ps.append((a, None, b, None))
        return ps

    def compare_pair(self, ca, cb, a, b):
        if a[0] != "ok" or b[0] != "ok":
            return None if a[0] == b[0] else "exit class differs"
        if a[2] or b[2]:
            return None        # the property speaks about invocations that supply what the body uses; diagnosed ones are skipped
        if a[1] != b[1]:
            return "invocation and substituted body give different output"
        return None


class C09(PairProp):
    id = "C09"
    cone = ["Properties/C09.vo"]
    prop_file = "Properties/C09.v"
    theorems = ["C09_false_branch", "C09_ignored_region", "C09_true_branch_delimiters_partial", "C09_end_line_only_pops", "C09_restricted_variable_definition_is_absent_partial", "C09_restricted_macro_definition_is_absent", "C09_restricted_include_is_absent", "C09_restricted_filter_line_is_absent", "C09_restricted_definition_example", "C09_examples", "D10b_format_restricted"]
    partial = ["C09_false_branch is the state-level statement (state after the block = state before it up to dispatch registers and diagnostics, for every body and nesting); lifting it to byte equality of whole documents needs 'no handler reads the diagnostics or the stale registers', which is tied by S-pairs, not proved",
               "C09_true: proved for the two delimiter lines (C09_true_branch_delimiters_partial: the #if line of a true conditional only pushes one scope, the matching #; only pops it, for every body); that the processing of the body does not depend on the extra scope is tied by S-pairs, not proved", "C09_format (format-restricted constructs): proved for the variable definition (C09_restricted_variable_definition_is_absent_partial) for the macro definition with its whole body (C09_restricted_macro_definition_is_absent), for the include line and, in the rendering pass, the filter line (C09_restricted_include_is_absent, C09_restricted_filter_line_is_absent); the others (filter blocks, parameter and tag declarations) tied by S-pairs in four formats, not proved"]
    describe_pairs = "document with a conditional / format-restricted construct vs the document with it elided"
    BODY = [["t"], [".Sm w"], [".Bm", "x", ".Em"], [".#if 1", "n", ".#;"], [".#if 0", "n", ".#;"], [".Ch C"], [".#dv v z"], ["\\*[v]"], [".Bl", ".It a", ".El"], [".Lk u"], [".P"], [".#if -f latex", "q", ".#;", "r"]]
    CTX = [([], []), ([".Bm", ".Lk u"], [".Em"]), (["a"], ["b"]), ([".#dv v 1", ".Bl", ".It"], [".El"]), ([".Bm"], [".Em", ".Sx x"]),
           (["a", ".Bm"], ["x", ".Em"]), (["a", ".Ft -f xhtml,latex,mom,markdown,epub z"], ["More"]), (["a", ".Bf -f xhtml,latex,mom,markdown,epub", "r", ".Ef -ns"], ["More"]), (["a", ".Sm -ns w"], ["b"])]

    def pairs(self, tier, rng):
        ps = []
        conds_false = [".#if 0", ".#if \"\"", ".#if -not 1", ".#if -eq a b", ".#if -f nosuch", ".#if -not -eq a a", ".#if \\*[undef]"]
        conds_true = [".#if 1", ".#if x", ".#if -not 0", ".#if -eq a a", ".#if -not -f nosuch"]
        # every combination of -not, -f (current targets / another), -eq (equal / different), string (true / false / none),
        # with the truth value computed from the manual: all given sub-conditions must hold; -not negates the whole
        allf = "xhtml,latex,mom,markdown,epub"
        for neg in (False, True):
            for f in (None, allf, "nosuch"):
                for eq in (None, "a"):
                    for arg in (None, "1", "0", "a", "b"):
                        if eq is None and f is None and arg is None:
                            continue
                        if eq is not None and arg is None:
                            continue
                        val = True
                        if f is not None:
                            val = val and f == allf
                        if eq is not None:
                            val = val and (arg == eq)
                        elif arg is not None:
                            val = val and arg not in ("0", "")
                        if neg:
                            val = not val
                        line = ".#if" + (" -not" if neg else "") + (" -f " + f if f else "") + (" -eq " + eq if eq else "") + (" " + arg if arg is not None else "")
                        (conds_true if val else conds_false).append(line)
        for pre, post in self.CTX:
            for body in self.BODY:
                for c in conds_false:
                    a = e2e.doc_of(pre + [c] + body + [".#;"] + post)
                    b = e2e.doc_of(pre + post)
                    ps.append((a, None, b, None))
                for c in conds_true:
                    a = e2e.doc_of(pre + [c] + body + [".#;"] + post)
                    b = e2e.doc_of(pre + body + post)
                    ps.append((a, None, b, None))
            # format-restricted constructs naming another target
            for line in [".Ft -f nosuch x", ".#dv -f nosuch v 2", ".X set -f nosuch lang fr", ".X mtag -f nosuch -t q -c b", ".If -f nosuch inc.frundis", ".X dtag -f nosuch -t q -c pre"]:
                a = e2e.doc_of(pre + [line] + post)
                b = e2e.doc_of(pre + post)
                ps.append((a, [("inc.frundis", "included\n")], b, None))
            for blk in [[".Bf -f nosuch", "raw", ".Ef"], [".#de -f nosuch m", "x", ".#."]]:
                ps.append((e2e.doc_of(pre + blk + post), None, e2e.doc_of(pre + post), None))
        return ps

    def compare_pair(self, ca, cb, a, b):
        if a[0] != "ok" or b[0] != "ok":
            return None if a[0] == b[0] else "exit class differs"
        bad = [d for d in a[2] if "invalid argument to -f" not in d and "unknown" not in d.lower()]
        if a[1] != b[1]:
            return "conditional / format-restricted construct changes the output"
        return None


class C10(PairProp):
    id = "C10"
    cone = ["Properties/C10.vo"]
    prop_file = "Properties/C10.v"
    theorems = ["C10_use_is_value", "C10_use_is_literal", "C10_rendered_like_literal", "C10_assigned_value", "C10_join", "C10_assignment_changes_only_the_table", "C10_assignment_keeps_other_names", "C10_assignment_for_other_formats_is_absent", "C10_examples"]
    partial = ["C10_toc_same (a title interpolating a variable shows the same value in place and in every TOC entry): follows from both passes executing the same assignments; tied by S-pairs with Tc, not proved",
               "option-like and Sm/Bm/Em-like values in macro arguments (ParseOptions and inline processing look at literal text only): tied by S-pairs"]
    describe_pairs = "document using \\*[v] vs the document with the latest assigned value written literally"
    VALUES = ["x", "a b", "Sm", "Bm", "<&>", "a\"\"b", "$%_{}", "-t", "\\e", "1", "é", "a  b"]
    USES = ["u %s w", ".Sm %s", ".Sm a %s b", ".Ch T %s\n.Tc", ".P %s", ".It %s", ".Bl -t table C %s\n.It a\n.El\n.Tc -lot", ".Lk http://a %s", ".Im i.png %s\n.Tc -lof", ".Sh %s\n.Tc -mini"]

    @staticmethod
    def q(a):
        return '"' + a.replace('"', '""') + '"' if (a == "" or " " in a or a.startswith('"')) else a

    def pairs(self, tier, rng):
        ps = []
        for v in self.VALUES:
            joined = " ".join(v.split(" ")) if "  " not in v else v
            for u in self.USES:
                for dv in [".#dv v %s" % self.q(v), ".#dv v other\n.#dv v %s" % self.q(v), ".#dv v %s\n.#dv -f nosuch v wrong" % self.q(v)]:
                    use = u % "\\*[v]"
                    lit_in_macro = u.startswith(".")
                    if lit_in_macro:
                        lit = self.q(v) if u.split("\n")[0].count("%s") and (u.split("\n")[0].split("%s")[0].endswith(" ") and (u.split("\n")[0].split("%s")[1] in ("", ) or u.split("\n")[0].split("%s")[1].startswith(" "))) else v
                        # inside a macro argument a literal Sm/Bm/Em would be read as inline markup, an option-like value as an option
                        if v in ("Sm", "Bm", "Em") or v.startswith("-"):
                            lit = "\\&" + v
                    else:
                        lit = v
                    a = dv + "\n" + use + "\n"
                    b = dv + "\n" + (u % lit) + "\n"
                    ps.append((a, None, b, None))
        # later assignments affect only later uses; joining with single spaces
        ps.append((".#dv v a\n\\*[v]\n.#dv v b\n\\*[v]\n", None, "a\nb\n", None))
        ps.append((".#dv v a  b   c\n\\*[v]\n", None, ".#dv v \"a b c\"\n\\*[v]\n", None))
        ps.append((".#dv v a b\nx \\*[v] y\n", None, "x a b y\n", None))
        return ps

    def compare_pair(self, ca, cb, a, b):
        if a[0] != "ok" or b[0] != "ok":
            return None if a[0] == b[0] else "exit class differs"
        if a[1] != b[1]:
            return "interpolated and literal documents give different output"
        return None


class C11(PairProp):
    id = "C11"
    cone = ["Properties/C11.vo"]
    prop_file = "Properties/C11.v"
    theorems = ["C11_include_is_walk", "C11_paste_is_sequencing", "C11_search_current_directory_first", "C11_search_first_library_directory", "C11_search_reports_absence", "C11_examples"]
    partial = ["the two theorems give include = walking the file's blocks in place, up to the current-file name, the include stack and the current-block flag; that rendering does not read these (only diagnostics and the cycle check do) is tied by S-pairs, not proved",
               "C11_lib (a file found through FRUNDISLIB behaves like one in the current directory): C11_include_is_walk holds for whatever path the search returns, and the search is characterised (current directory first, then the first library directory that has the name, else not found); that the file system oracle is_file / fs_get is the operating system is tied by S-pairs with library directories"]
    describe_pairs = "document vs the same document with a run of blocks moved into an included file; documents in which one run occurs two or three times vs one file included at each place"
    DOCS = [[".Ch A", "text one", ".Bm", "two", ".Em", ".Sh B", "three"], [".#dv v x", ".#de m", "\\*[v] \\$1", ".#.", ".m a", ".Bl", ".It i", ".El", "end \\*[v]"],
            [".Bd", "a", ".Ed", ".Bl -t enum", ".It x", ".It y", ".El", ".Tc"], ["p1", ".P", "p2", ".#if 1", "c", ".#;", ".Sm w", "tail"], [".Pt P", ".Ch C", ".Sh -id s S", ".Sx s", ".Tc -mini"]]

    def pairs(self, tier, rng):
        ps = []
        for d in self.DOCS:
            n = len(d)
            whole = e2e.doc_of(d)
            for i in range(n):
                # the include line must itself be executed: not inside a macro definition
                if sum(1 for l in d[:i] if l.startswith(".#de")) != sum(1 for l in d[:i] if l == ".#."):
                    continue
                for j in range(i + 1, n + 1):
                    if tier == Q and (j - i) not in (1, 2, n - i):
                        continue
                    inc = e2e.doc_of(d[i:j])
                    split = e2e.doc_of(d[:i] + [".If part.frundis"] + d[j:])
                    ps.append((whole, None, split, [("part.frundis", inc)]))
                    ps.append((whole, None, split, [("lib2/part.frundis", inc)], None, ["lib1", "lib2"]))
                    # nested: the part itself includes an inner part
                    if j - i >= 2 and not any(l.startswith(".#de") or l == ".#." for l in d[i:j]):
                        k = i + (j - i) // 2
                        outer = e2e.doc_of(d[i:k] + [".If inner.frundis"])
                        ps.append((whole, None, split, [("lib1/part.frundis", outer), ("inner.frundis", e2e.doc_of(d[k:j])), ("lib1/inner.frundis", "WRONG\n")], None, ["lib1"]))
                        if j - k >= 2:
                            inner = e2e.doc_of(d[k:k + 1] + [".If deep.frundis"])
                            ps.append((whole, None, split, [("part.frundis", outer), ("lib2/inner.frundis", inner), ("deep.frundis", e2e.doc_of(d[k + 1:j]))], None, ["lib1", "lib2"]))
        # the same run of blocks at several places, moved into ONE file included at each (the parsed-file cache; what
        # pass 1 records per occurrence: tables, titles, headers, figures, poems, variables), directly, through the
        # library path, and from inside another included file
        for x in self.RUNS:
            for sep in ([".Ch Two"], ["mid", ".P"], []):
                for times in (2, 3):
                    for tail in ([], [".Tc"], [".Tc -lot", ".Tc -lof", ".Tc -lop"]):
                        if tier == Q and times == 3 and tail:
                            continue
                        body, sbody = [], []
                        for k in range(times):
                            body += (sep if k else []) + x
                            sbody += (sep if k else []) + [".If part.frundis"]
                        whole = e2e.doc_of([".Ch One"] + body + tail)
                        split = e2e.doc_of([".Ch One"] + sbody + tail)
                        inc = e2e.doc_of(x)
                        ps.append((whole, None, split, [("part.frundis", inc)]))
                        ps.append((whole, None, split, [("lib2/part.frundis", inc)], None, ["lib1", "lib2"]))
                        ps.append((whole, None, e2e.doc_of([".Ch One", ".If outer.frundis"] + tail), [("outer.frundis", e2e.doc_of(sbody)), ("lib1/part.frundis", inc)], None, ["lib1"]))
        return ps

    RUNS = [[".Bl -t table -columns 2 Marks", ".It a", ".Ta b", ".It c", ".Ta 5", ".El"], [".Sh S", "text"], [".Im i.png cap"], [".Bl -t verse Poem", ".It l", ".El"],
            ["plain", ".Sm w"], [".#dv n \\*[n]x", "\\*[n]"], [".Bl -t table", ".It a", ".Ta b", ".Ta c", ".El", ".Bl -t table T2", ".It z", ".El"], [".Sh -id k S", ".Sx k"]]

    def compare_pair(self, ca, cb, a, b):
        if a[0] != "ok" or b[0] != "ok":
            return None if a[0] == b[0] else "exit class differs"
        if a[1] != b[1]:
            return "pasted and included documents give different output"
        if len(a[2]) != len(b[2]):
            return "pasted and included documents give a different number of diagnostics"
        return None


class C16(E2EProp):
    id = "C16"
    cone = ["Properties/C16.vo"]
    prop_file = "Properties/C16.v"
    theorems = ["C16_nesting_bounded", "C16_fuel_never_decides", "C16_expansions_within_budget", "C16_call_beyond_budget_is_refused", "C16_include_cycle_is_refused", "C16_examples"]
    partial = ["C16_bounded as a step-count bound (cost <= K * size): not proved; proved instead: nesting of re-entrant calls is bounded by 43 + number of files for every document, so the recursion is always cut by the code's own limits, and the expansions counted for one top-level line never exceed the budget of 10000, a call beyond it not running the body (C16_expansions_within_budget, C16_call_beyond_budget_is_refused); the work of one expansion (argument size <= 10000, body size) is not turned into a step count; S-e2e-recursion exercises the whole under a watchdog",
               "wall-clock time, memory and the Go stack limit are represented only as step count and nesting depth"]
    oracle = staticmethod(oracles.c16_oracle)

    def plan(self, tier, rng):
        cases = []
        for fm in ("x0", "l0"):
            for fan in (1, 2, 3):
                cases.append(e2e.case_of(fm, e2e.doc_of([".#de a", "x"] + [".a"] * fan + [".#.", "before", ".a", "after"])))
                cases.append(e2e.case_of(fm, e2e.doc_of([".#de a"] + [".a \\$1"] * fan + ["\\$1", ".#.", ".a y", "after"])))
            for cyc in (2, 3):
                names = ["m%d" % i for i in range(cyc)]
                d = []
                for i, nme in enumerate(names):
                    d += [".#de " + nme, ".Sm " + nme, "." + names[(i + 1) % cyc], "." + names[(i + 1) % cyc], ".#."]
                cases.append(e2e.case_of(fm, e2e.doc_of(d + [".m0", "after"])))
            for cyc in (1, 2, 3):
                files = [("f%d.frundis" % i, "in f%d\n.If f%d.frundis\n.If f%d.frundis\n" % (i, (i + 1) % cyc, (i + 1) % cyc)) for i in range(cyc)]
                cases.append(e2e.case_of(fm, "start\n.If f0.frundis\nafter\n", files))
            for sp in ("./f0.frundis", "sub/../f0.frundis", ".//f0.frundis"):
                cases.append(e2e.case_of(fm, "start\n.If f0.frundis\nafter\n", [("f0.frundis", "in f0\n.If %s\n.If %s\n" % (sp, sp)), ("sub/x", "")]))
                cases.append(e2e.case_of(fm, "start\n.If %s\nafter\n" % sp, [("f0.frundis", "in f0\n.If f1.frundis\n"), ("f1.frundis", "in f1\n.If %s\n" % sp), ("sub/x", "")]))
            cases.append(e2e.case_of(fm, ".#de M\nXPN\n.If part.frundis\n.M\n.M\n.#.\nHEAD\n.M\nTAIL\n", [("part.frundis", "part\n.M\n")]))
            cases.append(e2e.case_of(fm, "start\n.If f.frundis\nafter\n", [("f.frundis", "in f\n.#dv p ./\\*[p]\n.If \\*[p]f.frundis\n")]))
            cases.append(e2e.case_of(fm, ".#de m\n.If f.frundis\n.#.\n.m\nafter\n", [("f.frundis", "x\n.m\n.m\n")]))
            cases.append(e2e.case_of(fm, ".If f.frundis\n.m\nafter\n", [("f.frundis", ".#de m\n.If f.frundis\n.m\n.#.\n")]))
            cases.append(e2e.case_of(fm, ".#de t\n.P a Sm \\$1\n.t \\$1\n.t \\$1\n.#.\n.t x\nafter\n"))
            cases.append(e2e.case_of(fm, ".#de M\n.M \\$1\\$1\n.#.\n.M a\nafter\n"))
            cases.append(e2e.case_of(fm, ".#de M\n.M \\$@ \\$@\n.#.\n.M a b\nafter\n"))
            cases.append(e2e.case_of(fm, ".#de M\n.M \"\\$1 \\$1\"\n.#.\n.M a\nafter\n"))
        if tier != Q:
            cases.append(e2e.case_of("x0", ".#de t\n.Ch a Sm \\$1\n.t \\$1\n.t \\$1\n.#.\n.t x\nafter\n"))
        return [("S-e2e-recursion", cases, "self-call fan-out 1-3, through arguments, mutual cycles 2-3, include cycles 1-3 with fan-out 2, mixed macro/include cycles, recursion through a title")]


class C13(E2EProp):
    id = "C13"
    cone = ["Properties/C13.vo"]
    prop_file = "Properties/C13.v"
    theorems = ["C13_static"]
    theorems = ["C13_static", "C13_no_command_without_x", "C13_with_x"]
    partial = []
    assumptions = ["the model of #run, X ftag -shell/-gsub, Ft, Bf..Ef, If -as-is is the code (stream S-e2e-run: bytes and diagnostics, restricted and -x, with the commands echo, cat, true whose output the model knows)",
                   "what a started command prints is an oracle (Model/Ctl.run_cmd); that the Go standard library starts no process of its own accord is assumed",
                   "the SSA dominance computation of the translator"]
    RUNFAM = [".#run echo a b", ".#run \"echo c  d\"", ".#run true", ".#run nosuchcmd", ".#run", ".X ftag -t c -shell cat", ".X ftag -t e -shell echo x", ".X ftag -t g -gsub /a/b/cc/d",
              ".X ftag -f latex -t l -shell cat", ".Ft -t c some text", ".Ft -t g abcca", ".Ft -t e y", ".Ft -t l z", ".Ft -t nosuch t", ".Bf -t c", ".Bf -t g", "raw a cc", ".Ef", ".Ef -ns",
              ".If -as-is -t c inc.txt", ".If -as-is -t g inc.txt", ".If inc.frundis", "t", ".Bm", ".Em"]

    def plan(self, tier, rng):
        n = T(tier, 2, 3)
        files = [("inc.txt", "a <b> cc\n"), ("inc.frundis", ".#run echo included\n.Ft -t c in\n")]
        docs = [list(s) for k in range(1, n + 1) for s in itertools.product(self.RUNFAM, repeat=k)]
        if tier == Q:
            docs += [[rng.choice(self.RUNFAM) for _ in range(rng.randint(3, 7))] for _ in range(2000)]
        out = []
        for fm in ("x0", "x0x", "l0x", "m0x", "k0x", "l0"):
            sub = docs if fm in ("x0", "x0x") else docs[:: 4]
            out.append(("S-e2e-run-" + fm, [e2e.case_of(fm, e2e.doc_of(d), files) for d in sub], "documents over #run, shell and gsub filters, filter lines and blocks, as-is and plain includes; format %s, %s" % (fm[0], "-x" if fm.endswith("x") else "restricted")))
        return out

    def streams(self, tier, rng):
        return E2EProp.streams(self, tier, rng) + [run_stream(tier, rng)]


def run_stream(tier, rng):
    """Implementation-side stream: every syntactic route to #run / X ftag -shell through the real binary, with and without -x,
    in every format and in template mode; a marker file tells whether a process ran."""
    routes = [(".#run touch MARK", 1), (".#de m\n.#run touch MARK\n.#.\n.m", 1), (".#dv c touch\n.#run \\*[c] MARK", 1), (".If inc.frundis", 1),
              (".X ftag -t sh -shell \"touch MARK\"\n.Ft -t sh x", 1), (".X ftag -t sh -shell \"touch MARK\"\n.Bf -t sh\nx\n.Ef", 1),
              (".X ftag -t sh -shell \"touch MARK\"\n.If -as-is -t sh inc.frundis", 1), (".X ftag -t sh -shell touch MARK\n.Sm a\n.Ft -t sh y", 1),
              (".#if 1\n.#run touch MARK\n.#;", 1), (".Bd\n.#run touch MARK\n.Ed", 1),
              # the same call site reached more than once (a macro called twice, a file included twice, a filter line in a macro, a call in a title)
              (".#de m\n.#run touch MARK\n.#.\n.m\n.m\n.m", 1), (".If inc.frundis\n.If inc.frundis", 1),
              (".X ftag -t sh -shell \"touch MARK\"\n.#de f\n.Ft -t sh x\n.#.\n.f\n.f", 1), (".#de m\n.#run true\n.#.\n.m\n.#run touch MARK", 1),
              (".#de m\n.#run touch MARK\n.#.\n.#de n\n.m\n.m\n.#.\n.n", 1), (".#if 0\n.#run touch MARK\n.#;", 0), (".#de m\n.#run touch MARK\n.#.", 0), ("t", 0)]
    modes = ["-T xhtml -a", "-T xhtml -a -s", "-T latex", "-T latex -s", "-T mom", "-T markdown", "-T xhtml -a -t", "-T latex -t", "-T xhtml -s -o outdir", "-T epub -o outdir"]
    cases, expect = [], {}
    for m in modes:
        for x in ("", " -x"):
            for r, reach in routes:
                if "-t" in m.split() and not r.startswith((".#run", ".#de", ".#dv", ".If", ".#if", "t", ".X")):
                    continue
                c = "%s%s | %s | F %s=%s" % (m, x, gen.runes(r + "\n"), ",".join(str(ord(ch)) for ch in "inc.frundis"), ",".join(str(ord(ch)) for ch in ".#run touch MARK\n"))
                cases.append(c)
                expect[c] = (bool(x), reach)

    def oracle(case, got):
        x, reach = expect[case]
        ran = "ran=1" in got
        if not x and ran:
            return "an external command was started without -x"
        if x and reach and not ran and "-t" not in case.split(" | ")[0].split():
            return "with -x the command was not run"
        if not x and reach and "skipdiag=1" not in got and "-t" not in case.split(" | ")[0].split():
            return "command skipped without the diagnostic"
        return None
    st = Stream("S-run-routes", "runroutes", cases, oracle=oracle, describe="18 documents (15 routes to #run / shell filters, five of them reaching one call site several times, 3 unreachable ones) x 10 command lines (formats, standalone, template mode, multi-file, epub) x {restricted, -x}: marker file and diagnostic observed on the real binary")
    st.impl_only = True
    return st


class C18(E2EProp):
    id = "C18"
    cone = ["Properties/C18.vo"]
    prop_file = "Properties/C18.v"
    theorems = ["C18_static"]
    partial = ["C18_no_carry as a history theorem over explicit process globals: the model is a function (no globals); markdown's two scratch buffers are reset by processText (Reflow.reflow starts from init); stream S-hist compares compilations in one process with each alone"]
    needs_driver = False

    def streams(self, tier, rng):
        docs = ["a b\n.Sm w\n", ".Ch C\n.Sh S\ntext\n.Tc\n", ".Bl\n.It a\n.Bd\n", ".X set lang fr\na : b\n", ".X set xhtml-go-up Home\n.Ch A\n.Ch B\n", ".Bm\nopen\n", ".#de m\nx\n.#.\n.m\n",
                ".Bl -t table T\n.It a\n.Ta b\n.El\n.Tc -lot\n", ".Ch A\n.Ch B\n", ".Bl -t enum\n.It " + "word " * 30 + "\n.El\n", ".Bd\n.Bm\nnever closed\n.Ch Next\nMore\n", ".Sm a\\\n"]
        fms = ["x0", "x2", "e3", "l0", "m0", "k0"]
        cases = []
        basis = [(f, d) for f in fms for d in docs]
        idx = list(range(len(basis)))
        pairs = [(i, j) for i in idx for j in idx] if tier != Q else [(rng.choice(idx), rng.choice(idx)) for _ in range(500)]
        for i, j in pairs:
            cases.append("%s %s ;; %s %s" % (basis[i][0], gen.runes(basis[i][1]), basis[j][0], gen.runes(basis[j][1])))
        for _ in range(T(tier, 100, 1000)):
            k = [rng.choice(idx) for _ in range(rng.randint(3, 4))]
            cases.append(" ;; ".join("%s %s" % (basis[i][0], gen.runes(basis[i][1])) for i in k))
        # the same name declared with different contents in the history and in the compilation observed
        # (a cache keyed too coarsely, a table mutated in place): both orders, every pair of formats
        allf = "-f xhtml,epub,latex,mom,markdown"
        twins = [(".X ftag -t r -regexp /o/0\n.Ft -t r foo boo\n", ".X ftag -t r -regexp /o/1\n.Ft -t r foo boo\n"),
                 (".X ftag -t g -gsub /a/b\n.Ft -t g aa\n", ".X ftag -t g -gsub /a/c\n.Ft -t g aa\n"),
                 (".X mtag %s -t k -b [ -e ]\n.Sm -t k w\n" % allf, ".X mtag %s -t k -b {{ -e }}\n.Sm -t k w\n" % allf),
                 (".X dtag %s -t d -c div\n.Bd -t d\nx\n.Ed\n" % allf, ".X dtag %s -t d -c pre\n.Bd -t d\nx\n.Ed\n" % allf),
                 (".X set document-title One\n.Ch A\n", ".X set document-title Two\n.Ch A\n"),
                 (".#dv v 1\n\\*[v]\n", ".#dv v 2\n\\*[v]\n"),
                 (".#de m\nfirst\n.#.\n.m\n", ".#de m\nsecond\n.#.\n.m\n"),
                 (".Ch -id same A\n.Sx same l\n", ".Sh -id same B\n.Sx same l\n")]
        tfms = fms if tier != Q else ["x0", "l0", "m0", "k0"]
        for a, b in twins:
            for f1 in tfms:
                for f2 in tfms:
                    for h, last in ((a, b), (b, a)):
                        cases.append("%s %s ;; %s %s" % (f1, gen.runes(h), f2, gen.runes(last)))
        basis = basis + [(f, d) for f in fms for tw in twins for d in tw]
        # baseline: each compilation alone in a fresh process
        import subprocess
        from common import HARNESS
        base = {}
        for f, d in basis:
            p = subprocess.run([HARNESS, "hist"], input="%s %s\n" % (f, gen.runes(d)), capture_output=True, text=True, timeout=60)
            base["%s %s" % (f, gen.runes(d))] = p.stdout.strip()
        cases = cases * 2          # every history twice: nondeterminism shows up as two different digests

        def oracle(case, got):
            last = case.split(" ;; ")[-1].strip()
            if got.strip() != base.get(last):
                return "result of the last compilation differs from the same compilation alone in a fresh process"
            return None
        st = Stream("S-hist", "hist", cases, oracle=oracle, describe="sequences of 2-4 compilations in one process (12 documents x 6 formats/modes, including ones ending in errors), and 8 pairs of documents that declare one name (filter, markup or display tag, parameter, variable, macro, id) with different contents, one as the history of the other, both orders, every pair of formats; each history run twice: the last compilation must equal the same compilation alone in a fresh process")
        st.impl_only = True
        return [st]


class C14(E2EProp):
    id = "C14"
    cone = ["Properties/C14.vo"]
    prop_file = "Properties/C14.v"
    theorems = ["C14_container_balanced", "C14_nav_balanced", "C14_ncx_balanced", "C14_package_balanced", "C14_epub_files_balanced_partial", "C14_examples"]
    partial = ["C14_tree / C14_zip: stated; proved: the four generated XML files are balanced for every book (tag machine of Proofs/Tok.v), and for every document of the sub-language of Proofs/FragH.v compiled as an EPUB no panic is recorded and every file of the book (package files, index page, one page per part and chapter) is balanced (C14_epub_files_balanced_partial); that the manifest lists exactly the files of the tree and the archive order are tied by S-e2e-epub (the bytes of every file) and S-zip on the implementation; the cover page and a user stylesheet are outside the model (implementation-only stream with the manifest/spine oracle)"]
    FAM = [".Pt P", ".Ch C", ".Ch -id c1 D", ".Sh S", ".Im i.png", ".Im img.png cap", "t", ".Tc", ".Ch -nonum N"]

    @staticmethod
    def oracle(case, go):
        files = oracles.quiet_ok(go)
        if files is None or not case.startswith("e"):
            return None
        if files.get("mimetype") != "application/epub+zip":
            return "mimetype file is %r" % files.get("mimetype")
        if 'full-path="EPUB/content.opf"' not in files.get("META-INF/container.xml", ""):
            return "container does not point at the package file"
        opf = files.get("EPUB/content.opf", "")
        # (well-formedness of these files is C02's clause, not C14's; file names are compared after unescaping)
        import html as _html
        items = [_html.unescape(h) for h in re.findall(r'<item\s[^>]*href="([^"]*)"[^>]*>', opf)]
        for h in items:
            if "EPUB/" + h not in files:
                return "manifest lists %r which does not exist" % h
        for n in files:
            if n.startswith("EPUB/") and n != "EPUB/content.opf" and n[5:] not in items:
                return "file %r is not in the manifest" % n
        ids = dict(re.findall(r'<item\s[^>]*id="([^"]*)"[^>]*href="([^"]*)"', opf))
        ids.update({i: h for h, i in re.findall(r'<item\s[^>]*href="([^"]*)"[^>]*id="([^"]*)"', opf)})
        spine = re.findall(r'<itemref\s[^>]*idref="([^"]*)"', opf)
        for s in spine:
            if s not in ids:
                return "spine idref %r has no manifest item" % s
        return None

    PRE = [".X set document-title T\n.X set epub-uuid u\n", ".X set document-title T\n.X set epub-uuid u\n.X set epub-version 2\n",
           ".X set document-title T\n.X set epub-uuid u\n.X set xhtml-chap-custom-filenames 1\n.X set xhtml-chap-prefix pre\n"]
    # the cover page and a user stylesheet are not modelled (DESIGN 0.1): their documents go to an implementation-only stream
    PRE_COVER = ".X set document-title T\n.X set epub-uuid u\n.X set epub-css i.png\n.X set epub-cover img.png\n"
    PRE_COVER2 = ".X set document-title T\n.X set epub-uuid u\n.X set epub-cover c&o.png\n"

    def plan(self, tier, rng):
        n = T(tier, 3, 4)
        pre = self.PRE
        cases = []
        for k in range(0, n + 1):
            for s in itertools.product(self.FAM, repeat=k):
                for p in (pre if k <= 2 else [pre[(len(cases)) % len(pre)]]):
                    cases.append(e2e.case_of("e3", p + e2e.doc_of(list(s))))
        if tier == Q:
            cases = cases[:: 2] + cases[1:: 6]
        return [("S-e2e-epub", cases, "EPUB trees for all sequences <= %d over parts, chapters, images, Tc x {epub 3, epub 2, custom file names + prefix}" % n)]

    def cover_stream(self, tier):
        n = T(tier, 2, 3)
        cases = [e2e.case_of("e3", self.PRE_COVER + e2e.doc_of(list(s))) for k in range(0, n + 1) for s in itertools.product(self.FAM, repeat=k)]
        cases += [e2e.case_of("e3", self.PRE_COVER2 + d) for d in [".Ch A\nt\n", ".Im c\"o.png\n.Ch A\n", ".Im c&o.png cap\n"]]
        st = e2e.E2EStream("S-e2e-epub-cover", "e2e", cases, oracle=self.oracle, exhaustive=True, nontrivial=nontrivial,
                           describe="the same with a cover image and a user stylesheet (not modelled): implementation side and oracle only")
        st.impl_only = True
        return st

    def streams(self, tier, rng):
        return super().streams(tier, rng) + [self.cover_stream(tier), zip_stream(tier, rng)]


def zip_stream(tier, rng):
    docs = [".X set document-title T\n.X set epub-uuid u\n" + d for d in ["t\n", ".Ch A\nx\n.Ch B\ny\n", ".Pt P\n.Ch C\n.Im i.png\n", ".Im img.png cap\n.Ch Z\n", ".X set epub-css i.png\n.Ch A\n", ".X set epub-cover img.png\n.Ch A\n.Ch B\n.Ch C\n"]]
    cases = []
    for d in docs:
        for o in ("book", "./book", "sub/../book", "a/b/book"):
            cases.append("%s | %s" % (",".join(str(ord(c)) for c in o), gen.runes(d)))
    st = Stream("S-zip", "zip", cases, describe="the real binary with -T epub -z -o <spelling of the output path>: archive = tree, mimetype first and stored")
    st.impl_only = True
    return st


class C17(E2EProp):
    id = "C17"
    cone = ["Properties/C17.vo"]
    prop_file = "Properties/C17.v"
    theorems = ["C17_safe_component_stays_inside", "C17_chapter_name_has_no_separator", "C17_prefix_with_separator_is_refused"]
    partial = ["C17_confined on the whole model (every created path lies under the output path): the model's file names are tied by S-e2e (the set of generated files is compared); created-paths outside the output directory are observed on the implementation by stream S-sandbox; proof pending"]
    VALS = ["a", "..", "../x", "../../evil", "../../../up3", "a/b", "/abs", ".", "x/../y", "a%2Fb", "..%2F..%2Fz", "..%2F..%2F..%2Fup3", "%2E%2E%2Fq", "é", ""]

    def plan(self, tier, rng):
        cases = []
        for v in self.VALS:
            for fm in ("x2", "e3"):
                base = ".X set document-title T\n.X set epub-uuid u\n"
                q = '"%s"' % v if v == "" else v
                cases.append(e2e.case_of(fm, base + ".X set xhtml-chap-custom-filenames 1\n.Ch -id %s T\ntext\n.Ch U\n.Sx %s\n" % (q, q)))
                cases.append(e2e.case_of(fm, base + ".X set xhtml-chap-prefix %s\n.Ch T\ntext\n.Pt P\n" % q))
                cases.append(e2e.case_of(fm, base + ".X set xhtml-chap-custom-filenames 1\n.X set xhtml-chap-prefix %s\n.Pt -id %s T\n.Ch -id ok C\n" % (q, q)))
                cases.append(e2e.case_of(fm, base + ".Ch C\n.Sh -id %s S\n.Sx %s\n" % (q, q)))
        return [("S-e2e-filenames", cases, "ids and xhtml-chap-prefix over 12 values with separators and dot-dot segments, multi-file XHTML and EPUB: the set of generated files and their bytes")]

    def streams(self, tier, rng):
        alpha = "a./"
        pc = ["%s|%s" % (",".join(str(ord(c)) for c in a), ",".join(str(ord(c)) for c in b)) for a in gen.all_strings(alpha, T(tier, 5, 6)) for b in ([""] if len(a) > 3 else list(gen.all_strings(alpha, 3)))]
        path = Stream("S-path", "path", pc, exhaustive=True, nontrivial=lambda c: len(c) > 3, describe="path.Clean/Join/Base on all strings <= %d over {a . /}, all pairs up to (3,3)" % T(tier, 5, 6))
        sb = Stream("S-sandbox", "sandbox", sandbox_cases(self.VALS), describe="real binary in a sandbox directory: every file created outside the output path is reported (ids, prefix, image names, epub parameters over values with separators and dot-dot)")
        sb.impl_only = True
        return [path] + super().streams(tier, rng) + [sb]


def sandbox_cases(vals):
    cases = []
    for v in vals:
        q = '""' if v == "" else v
        for fm in ("xhtml", "epub"):
            for doc in [".X set xhtml-chap-custom-filenames 1\n.Ch -id %s T\ntext\n" % q, ".X set xhtml-chap-prefix %s\n.Ch T\n" % q, ".Im %s\n.Ch C\n" % q, ".Im %s cap\n" % q, ".X set epub-cover %s\n.Ch C\n" % q, ".X set epub-css %s\n.Ch C\n" % q]:
                cases.append("%s | %s" % (fm, gen.runes(".X set document-title T\n.X set epub-uuid u\n" + doc)))
    # shell filters leave nothing behind in the temporary directory (run with -x)
    for cmd in ("cat", "cat; exit 3", "nosuchcommand-xyz"):
        cases.append("xhtml | %s | -x" % gen.runes(".X ftag -t f -shell \"%s\"\n.Ft -t f text\n.Ch C\n" % cmd))
    return cases


class C12(Prop):
    id = "C12"
    cone = ["Properties/C12.vo"]
    prop_file = "Properties/C12.v"
    theorems = ["C12_first_block_partial", "C12_arguments_read_back", "C12_document_read_back"]
    partial = ["C12_document_read_back covers documents made of macro lines with single blanks between arguments, for every fuel large enough; text blocks, continuation lines, several blanks and trailing comments are tied by S-parse and checked by the print/parse oracle"]
    assumptions = ["Model/Scan.parse is parser.ParseString on the scanner's rune stream (S-parse: blocks, inline kinds, line numbers, error flag)"]
    ALPHA = [".", "\\", "\"", " ", "\n", "a", "e", "&", "*", "$", "[", "]", "@", "?", "1", "\xa0", "\x00"]

    @staticmethod
    def pr_arg(a):
        if a == "" or a.startswith('"') or any(c.isspace() or c == "\xa0" for c in a):
            return '"' + a.replace("\\", "\\e").replace('"', '""') + '"'
        return a.replace("\\", "\\e")

    def streams(self, tier, rng):
        n = T(tier, 4, 5)
        cases = [gen.runes(s) for s in gen.all_strings(self.ALPHA, n)]
        exh = len(cases)
        # printed macro lines: name, argument vectors, layouts (blanks, continuation, comment, final newline or not, following block)
        argal = ["a", " ", "\"", "\\", "", "\u2003", "\xa0", "é", ".", "-"]
        vecs = [[x] for x in gen.all_strings(argal, 2)] + [[x, y] for x in gen.all_strings(argal, 1) for y in gen.all_strings(argal, 1)] + [["a", "", "b c", '"q"'], ['a""'], ['x""""y'], ['s=""', 'b'], ['a"b""c']]
        self.meta = {}
        rt = []
        for v in vecs:
            for lay in range(7):
                for tail in ("", "\n", "\n.Nx y\n", "\ntext\n", "\n\n.Nx\n"):
                    parts = [self.pr_arg(a) for a in v]
                    sep = [" ", "  ", " \\\n", " \\\n  ", " ", " ", " "][lay]
                    line = ".Nm" + "".join(sep + p for p in parts)
                    if lay == 4:
                        line += " \\\" comment"
                    if lay == 5:
                        line = ".\\\" c\n" + line
                    if lay == 6:
                        line = "\n" + line          # the source begins with an empty line
                    c = gen.runes(line + tail)
                    rt.append(c)
                    self.meta[c] = (v, 2 if lay in (5, 6) else 1, tail)
        for _ in range(T(tier, 1000, 20000)):
            toks = [rng.choice([".Sm", ".Ch", "a", "b c", "\\e", "\\&", "\\*[v]", "\\$1", "\\$@", "\\$[n]", "\\$?[f]", "\"q r\"", "\"\"", "\\\" c", "\n", "\n", " ", "  ", "\\\n", ".\n", "\\~", "é"]) for _ in range(rng.randint(1, 40))]
            cases.append(gen.runes("".join(toks)))
        meta = self.meta

        def oracle(case, got):
            m = meta.get(case)
            if not m:
                return None
            v, line, tail = m
            blocks = [b for b in got.split(" # ") if b.startswith("M") and ":78,109" in b.split("(")[0]]
            first = blocks[0] if blocks else got.split(" # ")[0]
            mm = re.match(r"M(\d+):([\d,]*)(.*)$", first)
            if not mm:
                return "printed macro line not read back as a macro block: %r" % first[:80]
            if int(mm.group(1)) != line:
                return "block carries line %s, begins on line %d" % (mm.group(1), line)
            args = re.findall(r"\(([^)]*)\)", mm.group(3).split(" ERR")[0])
            txt = []
            for a in args:
                s = ""
                for it in a.split():
                    k, r = it[0], it[2:]
                    body = "".join(chr(int(x)) for x in r.split(",") if x)
                    s += body if k == "T" else ("\\" if (k == "E" and body == "e") else "")
                txt.append(s)
            if txt != v:
                return "arguments %r read back as %r" % (v, txt)
            return None
        return [Stream("S-parse", "parse", cases, exhaustive=True, nontrivial=lambda c: len(c.split()) > 1,
                       describe="parser.ParseString: all inputs <= %d over a 17-rune alphabet (%d), random token-built documents" % (n, exh)),
                Stream("S-parse-roundtrip", "parse", rt, oracle=oracle, exhaustive=True, nontrivial=lambda c: True,
                       describe="macro lines printed by the manual's rules for all argument vectors (single <= 2, pairs <= 1 over 10 characters) x 6 layouts (blanks, continuation lines, trailing comment, leading comment line) x 5 tails")]


class C20(Prop):
    id = "C20"
    cone = ["Properties/C20.vo"]
    prop_file = "Properties/C20.v"
    theorems = ["C20_french_only_inserts", "C20_english_only_inserts", "C20_french_marks_protected", "C20_french_guillemet_protected", "C20_english_apostrophes_protected", "C20_spacing_examples"]
    partial = ["C20_spaced / C20_suppress are proved in the form: every mark of the French output is protected (an author's no-break space or protecting escape, or the inserted one), skipping interpolations, and every opening guillemet is followed by a protector; the two-space diagnostics counter (errs) and the French apostrophe rule are tied by S-typo only"]
    assumptions = ["Model/Typo.french/english are FrenchTypography/EnglishTypography (S-typo: output inlines, number of diagnostics)"]

    @staticmethod
    def oracle(case, got):
        # undo: delete inserted \~ and uncurl apostrophes -> source; spacing of high punctuation
        src = []
        for it in case.split():
            k, r = it[0], it[2:]
            body = "".join(chr(int(x)) for x in r.split(",") if x)
            src += [("c", ch) for ch in body] if k == "T" else [(k, body)]
        fr = got.split(" | ")[0]
        out = []
        for it in fr.split():
            k, r = it[0], it[2:]
            body = "".join(chr(int(x)) for x in r.split(",") if x)
            out += [("c", ch) for ch in body] if k == "T" else [(k, body)]
        # embedding check
        i = 0
        for o in out:
            if i < len(src) and (o == src[i] or (o == ("c", "\u2019") and src[i] == ("c", "'"))):
                i += 1
            elif o == ("E", "~"):
                continue
            else:
                return "french output is not the source with insertions only at %r" % (o,)
        if i != len(src):
            return "french output dropped source atoms"
        # spacing: each mark preceded by nbsp-ish unless the author protected it
        for j, o in enumerate(out):
            if o[0] == "c" and o[1] in "!:;?»":
                prev = out[j - 1] if j > 0 else None
                if prev is None:
                    continue
                ok = prev in (("E", "~"), ("E", "&"), ("c", "\xa0")) or prev[0] == "V"
                if not ok and prev[0] == "c" and prev[1] in " \n":
                    return "mark %r preceded by a breaking space" % o[1]
            if o == ("c", "«"):
                nxt = out[j + 1] if j + 1 < len(out) else None
                if nxt is not None and nxt[0] == "c" and nxt[1] in " \n":
                    return "opening guillemet followed by a breaking space"
        return None

    def streams(self, tier, rng):
        alpha = ["a", " ", "!", ":", "?", "«", "»", "'", "\xa0", "\n", "\u2019", ";"]
        n = T(tier, 4, 5)
        texts = list(gen.all_strings(alpha, n))
        cases = ["T:" + ",".join(str(ord(c)) for c in s) if s else "" for s in texts]
        cases = [c for c in cases if c]
        seps = ["", "E:38", "E:126", "E:101", "V:118", "E:38 V:118"]
        for s in texts:
            if len(s) > n - 1:
                continue
            for i in range(len(s) + 1):
                for sep in seps:
                    a, b = s[:i], s[i:]
                    parts = []
                    if a:
                        parts.append("T:" + ",".join(str(ord(c)) for c in a))
                    if sep:
                        parts.append(sep)
                    if b:
                        parts.append("T:" + ",".join(str(ord(c)) for c in b))
                    if parts:
                        cases.append(" ".join(parts))
        exh = len(cases)
        for _ in range(T(tier, 3000, 50000)):
            k = rng.randint(1, 6)
            parts = []
            for _ in range(k):
                r = rng.random()
                if r < 0.6:
                    parts.append("T:" + ",".join(str(ord(c)) for c in gen.rand_string(rng, "".join(alpha) + "abcé", rng.randint(1, 12))))
                elif r < 0.85:
                    parts.append(rng.choice(["E:38", "E:126", "E:101"]))
                else:
                    parts.append("V:118")
            cases.append(" ".join(parts))
        return [Stream("S-typo", "typo", cases, oracle=self.oracle, exhaustive=True, nontrivial=lambda c: len(c) > 6,
                       describe="FrenchTypography/EnglishTypography: all texts <= %d over {a SP ! : ; ? guillemets apostrophes NBSP NL}, every split into two fragments with nothing / \\& / \\~ / \\e / a variable / \\&+variable in between (%d cases), random inline lists" % (n, exh))]
