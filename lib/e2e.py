"""End-to-end stream (S-e2e): document families, skeleton enumeration, comparison of projected observables."""
import itertools, random, re
from common import Stream, decode_runes
import gen

# ------------------------------------------------------------------ family alphabets (lines of a document)
FAM = {
    "para": ["a b", ".P", ".P t", ".D", ".Bm", ".Em", ".Sm w", ".Bd", ".Ed", ".Em !"],
    "list": [".Bl", ".Bl -t enum", ".Bl -t desc", ".It", ".It a", ".El", "t", ".Bd", ".Ed", ".P"],
    "table": [".Bl -t table", ".Bl -t table T", ".Ta", ".Ta x", ".It a", ".It", ".El", "t", ".Ch C", ".Bl"],
    "verse": [".Bl -t verse", ".Bl -t verse T", ".It a", ".It", ".P", ".D", ".El", "t", ".Bm", ".Em", ".Sm w"],
    "head": [".Pt P", ".Ch C", ".Sh S", ".Ss s", ".Ch -nonum N", ".Sh -nonum M", ".Tc", ".Tc -mini", ".Tc -summary", ".Sh -id lab L", ".Sx lab", "t"],
    "title": [".Bm", ".Em", "t", ".P a Bm b", ".P a Em b", ".P Sm x y", ".Sh a Bm b", ".Sh a Em b", ".Lk http://x a Em b", ".Lk http://x Bm l", ".It a Sm b c", ".Bl", ".El"],
    "shadow": [".#de Sm", ".#de Bm", ".P \\$1", ".Ch inner", ".Bl -t table T", ".#.", ".Sh a Sm x", ".P a Sm b", ".Ch Sm", ".Bm", ".Em", "t"],
    "ctl": [".#if 0", ".#if 1", ".#if -f latex", ".#if -f xhtml", ".#;", ".#dv v a  b", "\\*[v] x", ".#de m", ".#.", ".m", ".m p q", ".Sm \\$1 \\*[v]", "t", ".Ch C \\*[v]"],
    "misc": [".Im i.png", ".Im i.png cap", ".Im -link http://u i.png", ".Lk http://a.b/c?d=e&f l", ".Lk http://a", ".Tc -lof", ".Tc -lot", ".Tc -lop",
             ".Bl -t table T", ".It a", ".El", ".Bl -t verse V", ".X set lang fr", ".X set document-title D", "a : b ; c!"],
    "tags": [".X mtag -f xhtml -t t -c span", ".X mtag -f latex -t t -c textbf", ".X dtag -f xhtml -t d -c pre", ".X dtag -f latex -t d -c quote",
             ".Sm -t t w", ".Bm -t t", ".Em", ".Bd -t d", ".Ed", ".Bd -t d -r", ".Ed -t d", ".Bm -r -t t", ".Em -t t", "t",
             ".Bf -f xhtml", ".Ef", ".Ft -f latex \\e{x}", ".Bf -t escape", "<&>",
             ".X mtag -f xhtml -t u -c b -a |class|x|id|y", ".X dtag -f xhtml -t e -a |k|1|k|2", ".Sm -t u -id i w", ".Bd -t e"],
}
SKEL = [
    ("verse", [".Bl -t verse", ".It a"], [".El"]),
    ("para", [".Bd"], [".Ed"]),
    ("para", [".Bm"], [".Em"]),
    ("list", [".Bl", ".It a"], [".El"]),
    ("table", [".Bl -t table T", ".It a"], [".El"]),
    ("title", [".Bm", "t"], [".Em"]),
    ("ctl", [".#de u"], [".#.", ".u"]),
    ("head", [".Ch C"], [".Tc"]),
    ("tags", [".Bf -t escape"], [".Ef"]),
]
SPECIALS = ["<", ">", "&", "\"", "'", "\\e", " ", " ", "é", "\U0001F600", "{", "}", "$", "#", "%", "_", "^", "~", ".", "*", "`", "[", "]"]


def doc_of(lines):
    return "".join(l + "\n" for l in lines)


def case_of(fm, doc, files=None, libs=None):
    c = fm + " " + gen.runes(doc)
    for n, t in (files or []):
        c += " | F " + ",".join(str(ord(x)) for x in n) + "=" + ",".join(str(ord(x)) for x in t)
    for d in (libs or []):
        c += " | L " + ",".join(str(ord(x)) for x in d)
    return c


def family_docs(fam, maxlen, minlen=1):
    a = FAM[fam]
    for n in range(minlen, maxlen + 1):
        for seq in itertools.product(a, repeat=n):
            yield list(seq)


def skeleton_docs(maxfree):
    for fam, pre, suf in SKEL:
        a = FAM[fam]
        for n in range(0, maxfree + 1):
            for seq in itertools.product(a, repeat=n):
                yield pre + list(seq) + suf


def random_doc(rng, maxlines=14):
    fams = list(FAM)
    n = rng.randint(1, maxlines)
    lines = []
    fam = rng.choice(fams)
    for _ in range(n):
        if rng.random() < 0.25:
            fam = rng.choice(fams)
        l = rng.choice(FAM[fam])
        if rng.random() < 0.15:
            l = l + " " + rng.choice(SPECIALS) + rng.choice(["", "x", rng.choice(SPECIALS)])
        lines.append(l)
    return lines


def nested_doc(rng, depth=0):
    """Grammar-driven, mostly well-nested document."""
    out = []
    for _ in range(rng.randint(1, 4)):
        k = rng.random()
        if k < 0.3 or depth > 2:
            out.append(rng.choice(["some text", "a : b", "x \\*[v] y", "l'eau « b »", ".Sm w", ".Sm -t t w .", ".Lk http://a l", ".Im i.png"]))
        elif k < 0.45:
            out += [".Bd"] + nested_doc(rng, depth + 1) + [".Ed"]
        elif k < 0.6:
            t = rng.choice(["", " -t enum", " -t desc"])
            out.append(".Bl" + t)
            for _ in range(rng.randint(1, 3)):
                out.append(".It" + rng.choice(["", " a", " a b"]))
                out += nested_doc(rng, depth + 1)
            out.append(".El")
        elif k < 0.7:
            out += [".Bm"] + nested_doc(rng, depth + 2) + [".Em" + rng.choice(["", " !", " -ns"])]
        elif k < 0.78:
            out.append(".Bl -t table" + rng.choice(["", " Title"]))
            for _ in range(rng.randint(1, 2)):
                out.append(".It a")
                out.append(".Ta b")
            out.append(".El")
        elif k < 0.85:
            out.append(".Bl -t verse" + rng.choice(["", " Poem"]))
            out += [".It l1", ".It l2", ".P", ".It l3", ".El"]
        elif k < 0.95 and depth == 0:
            out.append(rng.choice([".Ch C", ".Sh S", ".Ss s", ".Pt P", ".Ch -nonum N", ".Tc", ".Tc -mini", ".Sh -id lab L", ".Sx lab"]))
        else:
            out += [rng.choice([".#if 1", ".#if 0", ".#if -f xhtml"])] + nested_doc(rng, depth + 1) + [".#;"]
    return out


def perturb(rng, lines):
    lines = list(lines)
    for _ in range(rng.randint(1, 3)):
        if not lines:
            break
        i = rng.randrange(len(lines))
        r = rng.random()
        if r < 0.4:
            del lines[i]
        elif r < 0.7:
            lines.insert(i, lines[i])
        else:
            j = rng.randrange(len(lines))
            lines[i], lines[j] = lines[j], lines[i]
    return lines


# ------------------------------------------------------------------ comparison
def parse_go(line):
    if line.startswith("PANIC"):
        return ("panic", line[6:])
    if line.startswith("FATAL"):
        return ("fatal", line[6:])
    if line.startswith("TIMEOUT") or line.startswith("CRASH"):
        return ("runaway", line)
    o, d = line[3:].split(" | ", 1) if " | " in line else (line[3:].rstrip(" |"), "")
    files = dict(x.split("=", 1) for x in o.split(";")) if o else {}
    return ("ok", files, [x for x in d.split("\x1f") if x])


SCANNER_DIAG = re.compile(r"^frundis:[^ ]")       # "frundis:<file>:<line>:<col>: ..." (the processor writes "frundis: <file>:...")


def parse_model(line):
    if line.startswith("PANIC"):
        m = decode_runes(line[6:])
        return ("fatal", m) if m == "parse error" else ("panic", m)
    o, d = line[3:].split(" | ", 1) if " | " in line else (line[3:].rstrip(" |"), "")
    files = dict(x.split("=", 1) for x in o.split(";")) if o else {}
    return ("ok", files, [x for x in d.split(" ") if x])


def dec(r):
    return "".join(chr(int(x)) for x in r.split(",") if x)


def diag_matches(goline, m):
    f = m.split(";")
    line, user, macro, kind = f[:4]
    srcname = dec(f[4]) if len(f) > 4 else "w/d.frundis"
    loc = "frundis: " + srcname + ":" + ("" if line == "EOF" else line + ":")
    if user != "-":
        loc += "in user macro `." + dec(user) + "':"
    if line == "EOF" and not goline.startswith(loc) and goline.startswith("frundis: ") and user == "-":
        loc = "frundis: "
    if not goline.startswith(loc):
        return False
    rest = goline[len(loc):]
    mac = dec(macro)
    return (not mac) or rest.startswith(mac + ": ")


UUID_RE = re.compile(r"urn:uuid:[0-9a-f]{8}-[0-9a-f]{4}-[0-9a-f]{4}-[0-9a-f]{4}-[0-9a-f]{12}")
TIME_RE = re.compile(r"(<meta property=\"dcterms:modified\">)\d{4}-\d\d-\d\dT\d\d:\d\d:\d\d(?:Z|[+-]\d\d:\d\d)(</meta>)")


def norm_nondet(text):
    return TIME_RE.sub(r"\g<1>0001-01-01T01:01:01Z\g<2>", UUID_RE.sub("", text))


def compare(case, go, model):
    """Returns None if the projected observables agree, else a short reason."""
    a, b = parse_go(go), parse_model(model)
    if a[0] != b[0]:
        return "exit class %s vs %s" % (a[0], b[0])
    if a[0] != "ok":
        return None
    if a[1] != b[1]:
        ks = sorted(set(a[1]) | set(b[1]))
        for k in ks:
            if a[1].get(k) != b[1].get(k):
                if k in a[1] and k in b[1] and norm_nondet(dec(a[1][k])) == dec(b[1][k]):
                    continue        # random EPUB identifier / modification time when epub-uuid is unset (excluded by C18 itself)
                return "output file %r differs" % dec(k)
    # scanner diagnostics (unknown escape, unterminated quoted argument, ...) are not modelled: the model's
    # diagnostics are the processor's; they still count for "quiet" on the implementation side (oracles)
    ga = [x for x in a[2] if not SCANNER_DIAG.match(x)]
    if len(ga) != len(b[2]):
        return "number of diagnostics %d vs %d" % (len(ga), len(b[2]))
    for x, y in zip(ga, b[2]):
        if not diag_matches(x, y):
            return "diagnostic %r vs %r" % (x[:80], y)
    return None


class E2EStream(Stream):
    def run(self):
        import time
        from common import run_parallel, HARNESS, DRIVER, Broken
        t0 = time.time()
        # the url oracle: url.Parse(x).String() for the literal macro arguments of each document, computed by net/url
        rc0, add, e0 = run_parallel(HARNESS, "urlcands", self.cases, jobs=8)
        if len(add) == len(self.cases):
            self.cases = [c + a for c, a in zip(self.cases, add)]
        small = len(self.cases) < 2000
        import concurrent.futures as cf
        if small and len(self.cases) > 12:
            # few but possibly heavy cases: one shard per worker all the same
            from common import chunks, run_resilient, run_lines
            parts = chunks(self.cases, 12)
            with cf.ThreadPoolExecutor(max_workers=12) as ex:
                rg = list(ex.map(lambda p: run_resilient(HARNESS, "e2e", p), parts))
                rm = list(ex.map(lambda p: run_lines(DRIVER, "e2e", p), parts))
            rc1, self.go, e1 = 0, [l for r in rg for l in r[1]], "".join(r[2] for r in rg)
            rc2, self.model, e2 = 0, [l for r in rm for l in r[1]], "".join(r[2] for r in rm)
        else:
            rc1, self.go, e1 = run_parallel(HARNESS, "e2e", self.cases, jobs=12, resilient=True)
            rc2, self.model, e2 = run_parallel(DRIVER, "e2e", self.cases, jobs=12)
        if len(self.go) != len(self.cases):
            raise Broken("stream %s: implementation harness produced %d lines for %d cases (rc=%d)" % (self.name, len(self.go), len(self.cases), rc1), e1[-2000:])
        if len(self.model) != len(self.cases):
            raise RuntimeError("stream %s: model driver produced %d lines for %d cases: %s" % (self.name, len(self.model), len(self.cases), e2[-500:]))
        self.reasons = {}
        if getattr(self, "impl_only", False):
            # features outside the model: the implementation's results are kept for the oracle only, no model column
            self.model = list(self.go)
        for i, (c, a, b) in enumerate(zip(self.cases, self.go, self.model)):
            r = None if getattr(self, "impl_only", False) else compare(c, a, b)
            if r:
                self.mismatches.append(i)
                self.reasons[i] = r
        if self.oracle:
            for i, (c, a) in enumerate(zip(self.cases, self.go)):
                r = self.oracle(c, a)
                if r:
                    self.oracle_hits.append((i, r))
        self.wall = round(time.time() - t0, 2)


RAW = re.compile(r"^\.\s*(Ft|Bf|#run)\b|-as-is|^\.\s*X\s+ftag", re.M)


def raw_free(case):
    """the document uses no raw pass-through feature (Ft, Bf, If -as-is, #run, filters)"""
    parts = case.split(" | ")
    docs = [decode_runes(parts[0].split(" ", 1)[1]) if " " in parts[0] else ""]
    for p in parts[1:]:
        if p.startswith("F ") and "=" in p:
            docs.append(decode_runes(p.split("=", 1)[1]))
    return not any(RAW.search(d) for d in docs)


def show_case(case):
    parts = case.split(" | ")
    f, r = parts[0].split(" ", 1) if " " in parts[0] else (parts[0], "")
    out = f + " | " + " / ".join(decode_runes(r).split("\n"))
    for p in parts[1:]:
        if p.startswith("F "):
            n, c = p[2:].split("=", 1)
            out += "  [file %s: %s]" % (decode_runes(n), " / ".join(decode_runes(c).split("\n")))
        elif p.startswith("L "):
            out += "  [lib %s]" % decode_runes(p[2:])
    return out
