HOOK_COMMITS = ["df6448a"]
NOT_APPLICABLE = {}
CHECKS = {
 'C01': {
  "text": 'Exit class (output / error / panic) of every compilation is compared between the Go code and the Gallina model, which has a partial primitive at every Go panic site; the repaired defects are machine-checked witnesses on the model; the no-panic theorem C01_full is stated, its proof pending.',
  "note": 'Theorems are about the hand-written Gallina model (coq/Model, coq/Base) and about coq/Gen regenerated from /repo; that the model is the code is differential testing (streams named in the evidence); see evidence.coverage.partial_theorems for what is not yet proved. Trusted base in evidence.coverage.trusted_base.',
  "technique": 'correspondence (exit class) + Coq witnesses; theorem C01_full pending',
 },
 'C02': {
  "text": 'Quiet XHTML/EPUB compilations: bytes of every generated file agree between code and model on exhaustive family enumerations; Spec/Xml.wf_xml evaluated on the model for the repaired defects (Coq witnesses); known finding D7 is a machine-checked refutation witness; C02_full stated, balance invariant pending.',
  "note": 'Theorems are about the hand-written Gallina model (coq/Model, coq/Base) and about coq/Gen regenerated from /repo; that the model is the code is differential testing (streams named in the evidence); see evidence.coverage.partial_theorems for what is not yet proved. Trusted base in evidence.coverage.trusted_base.',
  "technique": 'correspondence (bytes) + strict XML oracle + Coq witnesses; invariant proof pending',
 },
 'C03': {
  "text": 'Coq theorems on the regenerated html table: escaping is decodable (no character dropped, duplicated, reordered), markup characters never pass through, typography only inserts; position sweep ties every text-bearing position of the model to the code.',
  "note": 'Theorems are about the hand-written Gallina model (coq/Model, coq/Base) and about coq/Gen regenerated from /repo; that the model is the code is differential testing (streams named in the evidence); see evidence.coverage.partial_theorems for what is not yet proved. Trusted base in evidence.coverage.trusted_base.',
  "technique": 'Coq proof (generic replacer theorem on regenerated table) + position-sweep correspondence',
 },
 'C04': {
  "text": 'Coq theorems on the regenerated LaTeX table: decodable, injective, specials only inside escape forms, compositional; LaTeX exporter tied by byte correspondence; balance half searched by a TeX balance oracle, proof pending.',
  "note": 'Theorems are about the hand-written Gallina model (coq/Model, coq/Base) and about coq/Gen regenerated from /repo; that the model is the code is differential testing (streams named in the evidence); see evidence.coverage.partial_theorems for what is not yet proved. Trusted base in evidence.coverage.trusted_base.',
  "technique": 'Coq proof (generic replacer theorem on regenerated table) + correspondence',
 },
 'C05': {
  "text": "Link/anchor consistency: the model's printed bytes (incl. nav, NCX, OPF) agree with the code on label/cross-reference families in all modes; a link-following oracle runs on every quiet output; Coq witness on the model; theorem pending.",
  "note": 'Theorems are about the hand-written Gallina model (coq/Model, coq/Base) and about coq/Gen regenerated from /repo; that the model is the code is differential testing (streams named in the evidence); see evidence.coverage.partial_theorems for what is not yet proved. Trusted base in evidence.coverage.trusted_base.',
  "technique": 'correspondence + link oracle + Coq witness; theorem pending',
 },
 'C06': {
  "text": 'Coq theorems about toc.go as translated statement-by-statement on every run (GoLite): counters = hierarchical spec, levels ordered; nesting loop balanced for every level sequence; exhaustive header-sequence streams tie writeTOC and the headers.',
  "note": 'Theorems are about the hand-written Gallina model (coq/Model, coq/Base) and about coq/Gen regenerated from /repo; that the model is the code is differential testing (streams named in the evidence); see evidence.coverage.partial_theorems for what is not yet proved. Trusted base in evidence.coverage.trusted_base.',
  "technique": 'Coq proof on translated source (GoLite) + exhaustive correspondence',
 },
 'C07': {
  "text": 'Diagnostics (file, line, macro) of the model agree with the code on all opener/closer sequences and layouts; independent nesting checker as oracle; Coq witnesses for lines and reports; theorems pending.',
  "note": 'Theorems are about the hand-written Gallina model (coq/Model, coq/Base) and about coq/Gen regenerated from /repo; that the model is the code is differential testing (streams named in the evidence); see evidence.coverage.partial_theorems for what is not yet proved. Trusted base in evidence.coverage.trusted_base.',
  "technique": 'correspondence (projected diagnostics) + nesting oracle + Coq witnesses',
 },
 'C08': {
  "text": 'User macro call vs substituted body: both documents compiled by code and model (agreeing), outputs compared pairwise in four formats; Coq witness on the model; theorem pending.',
  "note": 'Theorems are about the hand-written Gallina model (coq/Model, coq/Base) and about coq/Gen regenerated from /repo; that the model is the code is differential testing (streams named in the evidence); see evidence.coverage.partial_theorems for what is not yet proved. Trusted base in evidence.coverage.trusted_base.',
  "technique": 'pair correspondence + Coq witness; theorem pending',
 },
 'C09': {
  "text": 'Conditional/format elision: pairs (with construct, elided) compiled by code and model in four formats; Coq witnesses incl. refutation witness of known finding D10b; false-branch lemma to be ported.',
  "note": 'Theorems are about the hand-written Gallina model (coq/Model, coq/Base) and about coq/Gen regenerated from /repo; that the model is the code is differential testing (streams named in the evidence); see evidence.coverage.partial_theorems for what is not yet proved. Trusted base in evidence.coverage.trusted_base.',
  "technique": 'pair correspondence + Coq witnesses; theorem pending',
 },
 'C10': {
  "text": 'Variable interpolation vs literal: pairs compiled by code and model; Coq witness; theorem pending.',
  "note": 'Theorems are about the hand-written Gallina model (coq/Model, coq/Base) and about coq/Gen regenerated from /repo; that the model is the code is differential testing (streams named in the evidence); see evidence.coverage.partial_theorems for what is not yet proved. Trusted base in evidence.coverage.trusted_base.',
  "technique": 'pair correspondence + Coq witness; theorem pending',
 },
 'C11': {
  "text": 'Include vs paste: all splits of five documents at block boundaries, nested to depth 3, cwd and FRUNDISLIB, compiled by code and model; Coq witness; theorem pending.',
  "note": 'Theorems are about the hand-written Gallina model (coq/Model, coq/Base) and about coq/Gen regenerated from /repo; that the model is the code is differential testing (streams named in the evidence); see evidence.coverage.partial_theorems for what is not yet proved. Trusted base in evidence.coverage.trusted_base.',
  "technique": 'pair correspondence + Coq witness; theorem pending',
 },
 'C12': {
  "text": "Coq theorems on the scanner/parser model: a macro line printed by the manual's rules is read back as that name and those arguments on line 1 (single-blank layout, _partial); model identical to parser.ParseString on all inputs <= 4 over 17 runes; other layouts and line numbers by exhaustive round-trip oracle.",
  "note": 'Theorems are about the hand-written Gallina model (coq/Model, coq/Base) and about coq/Gen regenerated from /repo; that the model is the code is differential testing (streams named in the evidence); see evidence.coverage.partial_theorems for what is not yet proved. Trusted base in evidence.coverage.trusted_base.',
  "technique": 'Coq proof (partial) + exhaustive correspondence',
 },
 'C13': {
  "text": 'Coq theorem over facts regenerated from SSA on every run: only getCommand creates a process, every call is dominated by the Unrestricted guard, the flag has two writers; every route observed on the real binary with a marker file.',
  "note": 'Theorems are about the hand-written Gallina model (coq/Model, coq/Base) and about coq/Gen regenerated from /repo; that the model is the code is differential testing (streams named in the evidence); see evidence.coverage.partial_theorems for what is not yet proved. Trusted base in evidence.coverage.trusted_base.',
  "technique": 'Coq proof over regenerated static facts + route sweep on the binary',
 },
 'C14': {
  "text": "EPUB tree: every file's bytes agree between code and model over parts/chapters/images/cover/css/version families; manifest/spine oracle; archive checked on the real binary (-z) for four spellings of the output path; Coq witness; theorem pending.",
  "note": 'Theorems are about the hand-written Gallina model (coq/Model, coq/Base) and about coq/Gen regenerated from /repo; that the model is the code is differential testing (streams named in the evidence); see evidence.coverage.partial_theorems for what is not yet proved. Trusted base in evidence.coverage.trusted_base.',
  "technique": 'correspondence (whole tree) + manifest oracle + archive check',
 },
 'C15': {
  "text": 'Coq theorem on the regenerated roff table: escaped text never drives the control-line machine to Bad (no leading dot/quote, no double quote, every backslash starts an exporter escape), wherever lines break; mom exporter tied by byte correspondence incl. roff-significant strings in 9 positions.',
  "note": 'Theorems are about the hand-written Gallina model (coq/Model, coq/Base) and about coq/Gen regenerated from /repo; that the model is the code is differential testing (streams named in the evidence); see evidence.coverage.partial_theorems for what is not yet proved. Trusted base in evidence.coverage.trusted_base.',
  "technique": 'Coq proof (machine invariant over regenerated table) + correspondence',
 },
 'C16': {
  "text": 'Recursion shapes compiled under a watchdog by code and model (agreeing on output and diagnostics); Coq witnesses that cycles are cut, diagnosed and the rest processed; cost-bound theorem pending.',
  "note": 'Theorems are about the hand-written Gallina model (coq/Model, coq/Base) and about coq/Gen regenerated from /repo; that the model is the code is differential testing (streams named in the evidence); see evidence.coverage.partial_theorems for what is not yet proved. Trusted base in evidence.coverage.trusted_base.',
  "technique": 'correspondence under watchdog + Coq witnesses; bound theorem pending',
 },
 'C17': {
  "text": 'Coq theorem on the path model (safe component stays inside); generated file names tied by tree correspondence; real binary run in a sandbox reports any path created outside the output path or left in TMPDIR.',
  "note": 'Theorems are about the hand-written Gallina model (coq/Model, coq/Base) and about coq/Gen regenerated from /repo; that the model is the code is differential testing (streams named in the evidence); see evidence.coverage.partial_theorems for what is not yet proved. Trusted base in evidence.coverage.trusted_base.',
  "technique": 'Coq proof (path lemma) + tree correspondence + sandbox observation',
 },
 'C18': {
  "text": 'Coq theorem over regenerated static facts (mutable globals, map ranges, time/rand sites); histories of 2-4 compilations in one process compared with each compilation alone in a fresh process.',
  "note": 'Theorems are about the hand-written Gallina model (coq/Model, coq/Base) and about coq/Gen regenerated from /repo; that the model is the code is differential testing (streams named in the evidence); see evidence.coverage.partial_theorems for what is not yet proved. Trusted base in evidence.coverage.trusted_base.',
  "technique": 'Coq proof over regenerated static facts + history stream',
 },
 'C19': {
  "text": "Theorem C19_words_preserved (all texts, all indents): the reflowed paragraph has exactly the words of the input, for the model of processText instantiated with the toolchain's White_Space table; model tied by S-reflow.",
  "note": 'Theorems are about the hand-written Gallina model (coq/Model, coq/Base) and about coq/Gen regenerated from /repo; that the model is the code is differential testing (streams named in the evidence); see evidence.coverage.partial_theorems for what is not yet proved. Trusted base in evidence.coverage.trusted_base.',
  "technique": 'Coq proof (invariant over fold_left step) + extracted-model correspondence',
 },
 'C20': {
  "text": 'Theorems C20_french/english_only_inserts: output embeds the source with only no-break-space insertions and apostrophe curling; model identical to the Go functions on exhaustive texts and fragment splits; suppress/spaced clauses by oracle.',
  "note": 'Theorems are about the hand-written Gallina model (coq/Model, coq/Base) and about coq/Gen regenerated from /repo; that the model is the code is differential testing (streams named in the evidence); see evidence.coverage.partial_theorems for what is not yet proved. Trusted base in evidence.coverage.trusted_base.',
  "technique": 'Coq proof (Embed relation) + exhaustive correspondence',
 },
}
