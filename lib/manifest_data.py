HOOK_COMMITS = ["df6448a"]
PENDING = "check under construction in this round (machinery not yet built); will be claimed when its theorem and tie exist"
NOT_APPLICABLE = {("C%02d" % i): PENDING for i in range(1, 21)}
CHECKS = {
 "C19": {
  "text": "Theorem C19_words_preserved (Coq, all texts, all indents, no bound): the reflowed paragraph has exactly the words of the input, for the model of processText instantiated with the toolchain's White_Space table. The model is tied to the Go function on every run by the S-reflow correspondence stream (exhaustive small scope + width-boundary + random).",
  "note": "Proved about the Gallina model Reflow.reflow; that the model is processText is differential testing (S-reflow) through the verif hook VerifProcessText. Closed under the global context. The indentation/no-split clauses are checked on the implementation by the stream's oracle and follow for the model from C19_shape when proved.",
  "technique": "Coq proof (invariant over fold_left step) + extracted-model correspondence",
 },
}
