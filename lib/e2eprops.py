"""Property checks whose tie is the end-to-end stream (S-e2e) of the processor model."""
from runner import Prop
from common import Stream, Broken
import e2e, gen, oracles


def fam_cases(fm, fams, n, rng=None, skel=None, nrand=0):
    cases = []
    for f in fams:
        cases += [e2e.case_of(fm, e2e.doc_of(d)) for d in e2e.family_docs(f, n)]
    if skel is not None:
        cases += [e2e.case_of(fm, e2e.doc_of(d)) for d in e2e.skeleton_docs(skel)]
    if rng is not None and nrand:
        cases += [e2e.case_of(fm, e2e.doc_of(e2e.random_doc(rng))) for _ in range(nrand)]
        cases += [e2e.case_of(fm, e2e.doc_of(e2e.perturb(rng, e2e.nested_doc(rng)))) for _ in range(nrand)]
        cases += [e2e.case_of(fm, e2e.doc_of(e2e.nested_doc(rng))) for _ in range(nrand)]
    return cases


ALLFAM = ["para", "list", "table", "verse", "head", "title", "shadow", "ctl", "misc", "tags"]


def nontrivial(case):
    return case.count(" 10") >= 2     # at least two lines


class E2EProp(Prop):
    """plan(tier, rng) -> list of (stream name, cases); oracle(case, go)"""
    oracle = None
    exhaustive = True

    def plan(self, tier, rng):
        return []

    def streams(self, tier, rng):
        out = []
        for name, cases, descr in self.plan(tier, rng):
            out.append(e2e.E2EStream(name, "e2e", cases, oracle=self.oracle, exhaustive=self.exhaustive, nontrivial=nontrivial, describe=descr))
        return out
