#!/usr/bin/env python3
"""confirm_seed.py <seed-out-dir> <name>
Confirms a seeded change in a scratch worktree of /repo (under /tmp), then stores it as /verif/seeded/<name>/.
Confirmation: (1) demo passes on the unchanged tree, (2) with the patch the repository's own test suite passes,
(3) with the patch the demo fails."""
import json, os, re, shutil, subprocess, sys
src, name = sys.argv[1], sys.argv[2]
env = dict(os.environ, GOFLAGS="-mod=mod", GOPROXY="off", GOSUMDB="off", GOTOOLCHAIN="local")
meta = json.load(open(os.path.join(src, "meta.json")))
wt = "/tmp/confirm-%s" % name
subprocess.run(["git", "-C", "/repo", "worktree", "remove", "--force", wt], capture_output=True)
subprocess.check_call(["git", "-C", "/repo", "worktree", "add", "-q", "--detach", wt, "HEAD"])
def sh(cmd):
    p = subprocess.run(cmd, shell=True, cwd=wt, env=env, capture_output=True, text=True)
    return p.returncode, (p.stdout + p.stderr)[-1500:]
try:
    place = (meta.get("demo_place", "").split() or [""])[0].replace("/tmp/seed/%s/wt/" % meta["property"], "").strip("/")
    place = re.sub(r"^.*?/wt/?", "", place) if "/wt" in place else place
    demos = [f for f in os.listdir(src) if f.endswith("_test.go") or f.endswith(".sh")]
    for f in demos:
        shutil.copy(os.path.join(src, f), os.path.join(wt, place, f))
    m = re.search(r"go test[^&|;]*", meta["demo_cmd"])
    demo_cmd = m.group(0).strip() if m else meta["demo_cmd"]
    r = {}
    r["demo_on_unchanged"] = sh(demo_cmd)
    rc, out = sh("git apply %s" % os.path.join(os.path.abspath(src), "patch.diff"))
    if rc != 0:
        print("PATCH DOES NOT APPLY", out); sys.exit(2)
    for f in demos:
        os.rename(os.path.join(wt, place, f), os.path.join("/tmp", "confirm-demo-" + f))
    r["suite_with_patch"] = sh("go build ./... && go test -vet=off -count=1 ./...")
    for f in demos:
        os.rename(os.path.join("/tmp", "confirm-demo-" + f), os.path.join(wt, place, f))
    r["demo_with_patch"] = sh(demo_cmd)
    ok = r["demo_on_unchanged"][0] == 0 and r["suite_with_patch"][0] == 0 and r["demo_with_patch"][0] != 0
    print(name, "CONFIRMED" if ok else "NOT CONFIRMED", {k: v[0] for k, v in r.items()})
    if not ok:
        for k, v in r.items():
            print("==", k, v[0]); print(v[1][-800:])
        sys.exit(1)
    dst = os.path.join("/verif/seeded", name)
    os.makedirs(dst, exist_ok=True)
    for f in os.listdir(src):
        if os.path.isfile(os.path.join(src, f)):
            shutil.copy(os.path.join(src, f), os.path.join(dst, f))
    meta["confirmed_by_verifier"] = {"base_commit": subprocess.check_output(["git", "-C", "/repo", "rev-parse", "--short", "HEAD"], text=True).strip(),
        "demo_cmd": demo_cmd, "demo_place": place,
        "ran": ["demo on unchanged tree: exit %d" % r["demo_on_unchanged"][0],
                "go build ./... && go test -vet=off -count=1 ./... with patch (demo moved aside): exit %d" % r["suite_with_patch"][0],
                "demo with patch: exit %d" % r["demo_with_patch"][0]]}
    json.dump(meta, open(os.path.join(dst, "meta.json"), "w"), indent=1)
finally:
    subprocess.run(["git", "-C", "/repo", "worktree", "remove", "--force", wt], capture_output=True)
