(* Extraction of the executable model for the correspondence drivers.
   Directives in force: those ExtrOcamlBasic declares (bool, option, unit, prod, list, sumbool, sumor)
   and ExtrOcamlString (ascii -> char, string -> char list); no Extract Constant of our own.
   N, positive, nat, Z stay the Coq datatypes. *)
From Coq Require Import Extraction ExtrOcamlBasic ExtrOcamlString.
Require Reflow Unicode Typo Scan PathClean Repl Tables Loop St.
Definition reflow_c := Reflow.reflow Unicode.is_space.
Separate Extraction reflow_c Typo.french Typo.english Scan.parse PathClean.clean PathClean.join PathClean.base
  Repl.enc Repl.dec Tables.latex_table Tables.roff_table Tables.markdown_table Tables.html_table Unicode.is_space Unicode.is_punct
  Loop.compile_source Loop.mkWorld St.wout St.files St.diagnostics St.panicked St.d_file St.d_line St.d_user St.d_macro St.d_kind.
