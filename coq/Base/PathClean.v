(* Scratch prototype: Go's path.Clean / path.Join / path.Base, as used for output file names (C17) *)
From Coq Require Import List NArith Bool Lia.
Import ListNotations.
Open Scope N_scope.

Definition rune := N.
Definition str := list rune.
Definition SL : rune := 47. Definition DOTC : rune := 46.

Fixpoint str_eqb (a b : str) : bool :=
  match a, b with [], [] => true | x :: a', y :: b' => (x =? y) && str_eqb a' b' | _, _ => false end.

(* split at slashes *)
Fixpoint split_acc (l : str) (cur : str) : list str :=
  match l with
  | [] => [rev cur]
  | c :: r => if c =? SL then rev cur :: split_acc r [] else split_acc r (c :: cur)
  end.
Definition split (l : str) : list str := split_acc l [].

Definition DOT : str := [DOTC]. Definition DOTDOT : str := [DOTC; DOTC].

(* the element stack is kept reversed (top first) *)
Definition clean_step (rooted : bool) (stack : list str) (e : str) : list str :=
  if match e with [] => true | _ => false end then stack
  else if str_eqb e DOT then stack
  else if str_eqb e DOTDOT then
    match stack with
    | top :: rest => if str_eqb top DOTDOT then (if rooted then stack else e :: stack) else rest
    | [] => if rooted then [] else [e]
    end
  else e :: stack.

Fixpoint join_sl (es : list str) : str :=
  match es with [] => [] | [e] => e | e :: r => e ++ SL :: join_sl r end.

Definition clean (p : str) : str :=
  match p with
  | [] => DOT
  | c :: _ =>
    let rooted := c =? SL in
    let stack := fold_left (clean_step rooted) (split p) [] in
    let body := join_sl (rev stack) in
    if rooted then SL :: body else match body with [] => DOT | _ => body end
  end.

Definition join (elems : list str) : str :=
  match filter (fun e => match e with [] => false | _ => true end) elems with
  | [] => []
  | es => clean (join_sl es)
  end.

Fixpoint strip_trailing (l : str) : str :=     (* via reverse *)
  match l with c :: r => if c =? SL then strip_trailing r else l | [] => [] end.
Fixpoint after_last_slash (l : str) (cur : str) : str :=
  match l with [] => rev cur | c :: r => if c =? SL then after_last_slash r [] else after_last_slash r (c :: cur) end.
Definition base (p : str) : str :=
  match p with
  | [] => DOT
  | _ => let q := rev (strip_trailing (rev p)) in
         match q with [] => [SL] | _ => after_last_slash q [] end
  end.
