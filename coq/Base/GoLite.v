(* Scratch prototype: a small imperative language for translated Go leaf functions, with its semantics *)
From Coq Require Import String Ascii List ZArith Bool DecimalString.
Import ListNotations.
Open Scope string_scope. Open Scope Z_scope.

Inductive value := VInt (z : Z) | VStr (s : string) | VBool (b : bool).
Inductive expr :=
| EInt (z : Z) | EStr (s : string) | EBool (b : bool)
| EVar (x : string) | EField (f : string)
| ENot (e : expr) | EAdd (a b : expr)
| ESprintf (fmt : expr) (args : list expr).
Inductive lval := LVar (x : string) | LField (f : string).
Inductive stmt :=
| SAssign (l : lval) (e : expr)
| SAdd (l : lval) (e : expr)
| SIf (c : expr) (th el : list stmt)
| SSwitch (tag : expr) (cases : list (list expr * list stmt)) (default : option (list stmt))
| SReturn (es : list expr)
| SPanic.

Definition store := list (string * value).
Record env := { locals : store; fields : store }.
Fixpoint get (s : store) (x : string) : option value :=
  match s with [] => None | (y, v) :: r => if String.eqb y x then Some v else get r x end.
Fixpoint set (s : store) (x : string) (v : value) : store :=
  match s with
  | [] => [(x, v)]
  | (y, w) :: r => if String.eqb y x then (y, v) :: r else (y, w) :: set r x v
  end.

Definition string_of_Z (z : Z) : string := NilZero.string_of_int (Z.to_int z).

(* fmt.Sprintf with %d and %s only *)
Fixpoint sprintf (f : string) (args : list value) : option string :=
  match f with
  | EmptyString => match args with [] => Some EmptyString | _ => None end
  | String "%"%char (String "d"%char r) =>
      match args with VInt z :: a => option_map (append (string_of_Z z)) (sprintf r a) | _ => None end
  | String "%"%char (String "s"%char r) =>
      match args with VStr s :: a => option_map (append s) (sprintf r a) | _ => None end
  | String c r => option_map (String c) (sprintf r args)
  end.

Fixpoint eval (en : env) (e : expr) : option value :=
  match e with
  | EInt z => Some (VInt z) | EStr s => Some (VStr s) | EBool b => Some (VBool b)
  | EVar x => get (locals en) x
  | EField f => get (fields en) f
  | ENot a => match eval en a with Some (VBool b) => Some (VBool (negb b)) | _ => None end
  | EAdd a b => match eval en a, eval en b with Some (VInt x), Some (VInt y) => Some (VInt (x + y)) | _, _ => None end
  | ESprintf f args =>
      match eval en f with
      | Some (VStr fs) =>
          (fix go (l : list expr) (acc : list value) : option value :=
             match l with
             | [] => option_map VStr (sprintf fs (rev acc))
             | a :: r => match eval en a with Some v => go r (v :: acc) | None => None end
             end) args []
      | _ => None
      end
  end.

Definition value_eqb (a b : value) : bool :=
  match a, b with
  | VInt x, VInt y => Z.eqb x y | VStr x, VStr y => String.eqb x y | VBool x, VBool y => Bool.eqb x y
  | _, _ => false
  end.

Inductive outcome := ONormal (e : env) | OReturn (e : env) (vs : list value) | OPanic | OStuck.

Definition assign (en : env) (l : lval) (v : value) : env :=
  match l with
  | LVar x => {| locals := set (locals en) x v; fields := fields en |}
  | LField f => {| locals := locals en; fields := set (fields en) f v |}
  end.
Definition read (en : env) (l : lval) : option value :=
  match l with LVar x => get (locals en) x | LField f => get (fields en) f end.

Fixpoint exec (fuel : nat) (ss : list stmt) (en : env) : outcome :=
  match fuel with O => OStuck | S fu =>
  match ss with
  | [] => ONormal en
  | s :: rest =>
    let continue_with (o : outcome) := match o with ONormal en' => exec fu rest en' | other => other end in
    match s with
    | SAssign l e => match eval en e with Some v => exec fu rest (assign en l v) | None => OStuck end
    | SAdd l e => match read en l, eval en e with
                  | Some (VInt a), Some (VInt b) => exec fu rest (assign en l (VInt (a + b)))
                  | _, _ => OStuck end
    | SIf c th el => match eval en c with
                     | Some (VBool true) => continue_with (exec fu th en)
                     | Some (VBool false) => continue_with (exec fu el en)
                     | _ => OStuck end
    | SSwitch tag cases default =>
        match eval en tag with
        | Some v =>
            let fix pick (cs : list (list expr * list stmt)) : option (list stmt) :=
                match cs with
                | [] => default
                | (vals, body) :: r =>
                    if existsb (fun ve => match eval en ve with Some w => value_eqb v w | None => false end) vals
                    then Some body else pick r
                end in
            match pick cases with
            | Some body => continue_with (exec fu body en)
            | None => exec fu rest en
            end
        | None => OStuck
        end
    | SReturn es =>
        (fix go (l : list expr) (acc : list value) : outcome :=
           match l with
           | [] => OReturn en (rev acc)
           | a :: r => match eval en a with Some v => go r (v :: acc) | None => OStuck end
           end) es []
    | SPanic => OPanic
    end
  end end.
