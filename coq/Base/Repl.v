From Coq Require Import List NArith Lia Bool.
Import ListNotations.
Open Scope N_scope.

Definition rune := N.
Definition str := list rune.
Definition table := list (rune * str).

Fixpoint lookup (tbl : table) (c : rune) : option str :=
  match tbl with
  | [] => None
  | (k, im) :: t => if N.eqb k c then Some im else lookup t c
  end.

Definition enc1 (tbl : table) (c : rune) : str :=
  match lookup tbl c with Some im => im | None => [c] end.

Definition enc (tbl : table) (s : str) : str := flat_map (enc1 tbl) s.

Fixpoint strip (p s : str) : option str :=
  match p, s with
  | [], _ => Some s
  | a :: p', b :: s' => if N.eqb a b then strip p' s' else None
  | _ :: _, [] => None
  end.

Fixpoint match_row (rows : table) (s : str) : option (rune * str) :=
  match rows with
  | [] => None
  | (k, im) :: t => match strip im s with
                    | Some rest => Some (k, rest)
                    | None => match_row t s
                    end
  end.

Definition is_key (tbl : table) (c : rune) : bool :=
  match lookup tbl c with Some _ => true | None => false end.

Fixpoint dec (tbl : table) (fuel : nat) (s : str) : option str :=
  match fuel with
  | O => match s with [] => Some [] | _ => None end
  | S f =>
    match s with
    | [] => Some []
    | c :: r =>
      match match_row tbl s with
      | Some (k, rest) => option_map (cons k) (dec tbl f rest)
      | None => if is_key tbl c then None else option_map (cons c) (dec tbl f r)
      end
    end
  end.

(* executable side conditions *)
Definition str_eqb (a b : str) : bool :=
  (Nat.eqb (length a) (length b)) && match strip a b with Some [] => true | _ => false end.

Definition is_prefix (p s : str) : bool := match strip p s with Some _ => true | None => false end.

Fixpoint nodup_keys (tbl : table) : bool :=
  match tbl with
  | [] => true
  | (k, _) :: t => negb (existsb (fun r => N.eqb (fst r) k) t) && nodup_keys t
  end.

Definition prefix_free_from (im : str) (t : table) : bool :=
  forallb (fun r => negb (is_prefix im (snd r)) && negb (is_prefix (snd r) im)) t.

Fixpoint prefix_free (tbl : table) : bool :=
  match tbl with
  | [] => true
  | (_, im) :: t => prefix_free_from im t && prefix_free t
  end.

Definition heads_are_keys (tbl : table) : bool :=
  forallb (fun r => match snd r with [] => false | h :: _ => is_key tbl h end) tbl.

Definition table_ok (tbl : table) : bool :=
  nodup_keys tbl && prefix_free tbl && heads_are_keys tbl.

(* ---------- lemmas ---------- *)

Lemma strip_app : forall p s, strip p (p ++ s) = Some s.
Proof. induction p as [|a p IH]; intros s; cbn [strip app]; [reflexivity|]. rewrite N.eqb_refl. apply IH. Qed.

Lemma strip_spec : forall p s r, strip p s = Some r -> s = p ++ r.
Proof.
  induction p as [|a p IH]; intros s r H; cbn [strip] in H.
  - inversion H; reflexivity.
  - destruct s as [|b s]; [discriminate|]. destruct (N.eqb_spec a b) as [->|]; [|discriminate].
    cbn [app]. f_equal. apply IH; assumption.
Qed.

Lemma is_prefix_app_cases : forall p q s, is_prefix p (q ++ s) = true -> is_prefix p q = true \/ is_prefix q p = true.
Proof.
  unfold is_prefix. induction p as [|a p IH]; intros q s H; cbn [strip] in *.
  - left; reflexivity.
  - destruct q as [|b q]; cbn [app strip] in *.
    + right; reflexivity.
    + destruct (N.eqb_spec a b) as [->|]; [|discriminate].
      rewrite N.eqb_refl. apply (IH q s H).
Qed.

Lemma lookup_in : forall tbl c im, lookup tbl c = Some im -> In (c, im) tbl.
Proof.
  induction tbl as [|[k i] t IH]; intros c im H; cbn [lookup] in H; [discriminate|].
  destruct (N.eqb_spec k c) as [->|]; [inversion H; left; reflexivity| right; auto].
Qed.

Lemma match_row_none_head : forall rows tbl c r,
  (forall k im, In (k, im) rows -> exists h t, im = h :: t /\ is_key tbl h = true) ->
  is_key tbl c = false -> match_row rows (c :: r) = None.
Proof.
  induction rows as [|[k im] t IH]; intros tbl c r Hh Hc; cbn [match_row]; [reflexivity|].
  destruct (Hh k im (or_introl eq_refl)) as (h & tl & -> & Hk).
  cbn [strip]. destruct (N.eqb_spec h c) as [->|]; [congruence|].
  apply IH with (tbl := tbl); [|assumption]. intros k' im' Hin. apply (Hh k' im'); right; assumption.
Qed.

Lemma forallb_heads : forall tbl, heads_are_keys tbl = true ->
  forall k im, In (k, im) tbl -> exists h t, im = h :: t /\ is_key tbl h = true.
Proof.
  unfold heads_are_keys. intros tbl H k im Hin. rewrite forallb_forall in H.
  specialize (H (k, im) Hin). cbn [snd] in H. destruct im as [|h t]; [discriminate|]. eauto.
Qed.

(* the row for key c is the unique matching row *)
Lemma match_row_hit : forall rows c im s,
  nodup_keys rows = true -> prefix_free rows = true ->
  lookup rows c = Some im -> match_row rows (im ++ s) = Some (c, s).
Proof.
  induction rows as [|[k i] t IH]; intros c im s Hn Hp Hl; cbn [lookup] in Hl; [discriminate|].
  cbn [nodup_keys prefix_free] in Hn, Hp.
  apply andb_true_iff in Hn as [Hn1 Hn2]. apply andb_true_iff in Hp as [Hp1 Hp2].
  cbn [match_row]. destruct (N.eqb_spec k c) as [->|Hne].
  - inversion Hl; subst. rewrite strip_app. reflexivity.
  - destruct (strip i (im ++ s)) as [rest|] eqn:E.
    + exfalso. assert (Hpre : is_prefix i (im ++ s) = true) by (unfold is_prefix; rewrite E; reflexivity).
      apply is_prefix_app_cases in Hpre. unfold prefix_free_from in Hp1. rewrite forallb_forall in Hp1.
      specialize (Hp1 (c, im) (lookup_in _ _ _ Hl)). cbn [snd] in Hp1.
      apply andb_true_iff in Hp1 as [A B]. destruct Hpre as [P|P]; rewrite P in *; discriminate.
    + apply IH; assumption.
Qed.

Lemma enc1_nonempty : forall tbl c, heads_are_keys tbl = true -> enc1 tbl c <> [].
Proof.
  intros tbl c H. unfold enc1. destruct (lookup tbl c) eqn:E; [|discriminate].
  apply lookup_in in E. destruct (forallb_heads _ H _ _ E) as (h & t & -> & _). discriminate.
Qed.

Theorem dec_enc : forall tbl, table_ok tbl = true ->
  forall s fuel, (length (enc tbl s) <= fuel)%nat -> dec tbl fuel (enc tbl s) = Some s.
Proof.
  intros tbl Hok. unfold table_ok in Hok.
  apply andb_true_iff in Hok as [Hok Hh]. apply andb_true_iff in Hok as [Hn Hp].
  induction s as [|c s IH]; intros fuel Hf.
  - destruct fuel; reflexivity.
  - cbn [enc flat_map] in *. fold (enc tbl s) in *.
    assert (Hne := enc1_nonempty tbl c Hh).
    destruct fuel as [|f].
    { rewrite app_length in Hf. destruct (enc1 tbl c); [congruence| cbn in Hf; lia]. }
    unfold enc1 in *. destruct (lookup tbl c) as [im|] eqn:E.
    + destruct im as [|h t] eqn:Eim; [congruence|].
      cbn [dec app]. change (h :: t ++ enc tbl s) with ((h :: t) ++ enc tbl s).
      rewrite (match_row_hit tbl c (h :: t) (enc tbl s) Hn Hp E).
      rewrite IH; [reflexivity|]. rewrite app_length in Hf. cbn in Hf. lia.
    + cbn [dec app].
      assert (Hk : is_key tbl c = false) by (unfold is_key; rewrite E; reflexivity).
      rewrite (match_row_none_head tbl tbl c (enc tbl s) (forallb_heads tbl Hh) Hk). rewrite Hk.
      rewrite IH; [reflexivity|]. cbn in Hf. lia.
Qed.

Corollary enc_injective : forall tbl, table_ok tbl = true -> forall a b, enc tbl a = enc tbl b -> a = b.
Proof.
  intros tbl Hok a b H.
  assert (Ha := dec_enc tbl Hok a _ (le_n _)). assert (Hb := dec_enc tbl Hok b _ (le_n _)).
  rewrite H in Ha. rewrite Ha in Hb. inversion Hb; reflexivity.
Qed.


(* every character of [specials] is a key: it can only leave [enc] inside its image *)
Definition specials_are_keys (tbl : table) (specials : str) : bool := forallb (is_key tbl) specials.

(* token view of the encoding: one token per source rune, either the row's image or the rune itself when it is not a key *)
Lemma enc_tokens : forall tbl s, enc tbl s = concat (map (enc1 tbl) s).
Proof. intros. unfold enc. apply flat_map_concat_map. Qed.
Lemma enc1_cases : forall tbl c, (exists im, lookup tbl c = Some im /\ enc1 tbl c = im) \/ (is_key tbl c = false /\ enc1 tbl c = [c]).
Proof. intros tbl c. unfold enc1, is_key. destruct (lookup tbl c); [left; eauto | right; auto]. Qed.
Lemma enc_app : forall tbl a b, enc tbl (a ++ b) = enc tbl a ++ enc tbl b.
Proof. intros. unfold enc. apply flat_map_app. Qed.

(* A character-level machine run over an encoding stays in a set of resting states as soon as every image
   and every pass-through character keeps it there.  (The tag machine of XHTML, the brace machine of
   LaTeX and the control-line machine of roff are instances.) *)
Section Machine.
Variables (Q : Type) (step : Q -> rune -> Q) (Rest : Q -> Prop) (tbl : table).
Definition mrun (q : Q) (s : str) : Q := fold_left step s q.
Hypothesis Himg : forall k im q, In (k, im) tbl -> Rest q -> Rest (mrun q im).
Hypothesis Hpass : forall c q, is_key tbl c = false -> Rest q -> Rest (step q c).
Lemma mrun_app q a b : mrun q (a ++ b) = mrun (mrun q a) b.
Proof. apply fold_left_app. Qed.
Lemma enc_rests : forall s q, Rest q -> Rest (mrun q (enc tbl s)).
Proof.
  induction s as [|c s IH]; intros q Hq; [exact Hq|].
  cbn [enc flat_map]. fold (enc tbl s). rewrite mrun_app. apply IH.
  destruct (enc1_cases tbl c) as [(im & Hl & ->)|[Hk ->]].
  - eapply Himg; [apply lookup_in; exact Hl| exact Hq].
  - cbn. apply Hpass; assumption.
Qed.
End Machine.
