(* Unicode classes as range tables regenerated from the Go toolchain (Gen/Tables.v). *)
From Coq Require Import List NArith Bool.
Import ListNotations.
Require Import Tables.
Open Scope N_scope.

Fixpoint in_ranges (c : N) (l : list (N * N)) : bool :=
  match l with
  | [] => false
  | (lo, hi) :: r => ((lo <=? c) && (c <=? hi)) || in_ranges c r
  end.

Definition is_space (c : N) : bool := in_ranges c white_space.   (* unicode.IsSpace *)
Definition is_punct (c : N) : bool := in_ranges c punct.         (* unicode.IsPunct *)

Lemma is_space_SP : is_space 32 = true. Proof. reflexivity. Qed.
Lemma is_space_NL : is_space 10 = true. Proof. reflexivity. Qed.
Lemma is_space_NBSP : is_space 160 = true. Proof. reflexivity. Qed.
