#!/usr/bin/env python3
"""iterate_frames.py GETTER excluded...: regenerate Proofs/Frame_<g>.v until it compiles, recording in
Proofs/frame_skip_<g>.txt the functions whose lemma the generic tactic does not prove (they are then done by hand)."""
import re, subprocess, sys, os
g = sys.argv[1]; rest = sys.argv[2:]
skipfile = "Proofs/frame_skip_%s.txt" % g
for it in range(200):
    subprocess.check_call(["python3", "Proofs/gen_frames.py", g] + rest, stdout=subprocess.DEVNULL)
    p = subprocess.run(["timeout", "1500", "coqc", "-R", ".", "GF", "-w", "-notation-overridden,-deprecated-hint-without-locality", "Proofs/Frame_%s.v" % g], capture_output=True, text=True)
    if p.returncode == 0:
        print("compiled after", it, "iterations; skipped:", open(skipfile).read().split() if os.path.exists(skipfile) else [])
        break
    m = re.search(r'line (\d+), characters', p.stderr + p.stdout)
    if not m:
        print(p.stderr[-2000:]); break
    ln = int(m.group(1))
    lines = open("Proofs/Frame_%s.v" % g).read().split("\n")
    name = None
    for i in range(ln - 1, -1, -1):
        mm = re.match(r"Lemma (\w+) :", lines[i])
        if mm:
            name = mm.group(1); break
    err = (p.stderr + p.stdout).strip().split("\n")[-1][:100]
    print("skip", name, "|", err)
    if not name: print(p.stderr[-1500:]); break
    open(skipfile, "a").write(name + "\n")
