(* C02/C05/C06: headers in the proved sub-language.  Supporting facts: decimal numerals are digits; header elements open
   and close the same name whatever the level; ParseOptions reads the state only through the variables. *)
From Coq Require Import List NArith Bool Lia Arith String ZifyN ZifyNat ZifyBool.
Import ListNotations.
Require Import Xhtml Exp Proc1 Proc2 Proc3 Ctl Loop Eqd Tok Inv EqF InvI TocStr.
Require FuelProofs.
Open Scope N_scope.
Arguments run : simpl never.
Arguments rev : simpl never.
Arguments flat : simpl never.

(* ---- decimal numerals ---- *)
Definition is_digit (c : rune) : bool := (48 <=? c) && (c <=? 57).
Lemma dec_digits_digit : forall fuel n acc, forallb is_digit acc = true -> forallb is_digit (dec_digits fuel n acc) = true.
Proof. induction fuel as [|f IH]; intros n acc H; [exact H|]. cbn [dec_digits].
  assert (Hd : is_digit (N.of_nat (n mod 10) + 48) = true).
  { unfold is_digit. pose proof (Nat.mod_upper_bound n 10 ltac:(lia)). apply andb_true_iff. split; lia. }
  destruct (Nat.ltb n 10); [cbn [forallb]; rewrite Hd, H; reflexivity|]. apply IH. cbn [forallb]. rewrite Hd, H. reflexivity. Qed.
Lemma dec_digit n : forallb is_digit (dec n) = true. Proof. apply dec_digits_digit. reflexivity. Qed.
Lemma digits_no_c k x : is_digit k = false -> forallb is_digit x = true -> no_c k x = true.
Proof. intros Hk. induction x as [|c r IH]; [reflexivity|]. cbn [forallb no_c]. intro H. apply andb_true_iff in H as [H1 H2].
  apply andb_true_iff. split; [|apply IH; exact H2]. destruct (c =? k) eqn:E; [|reflexivity]. apply N.eqb_eq in E. subst c. congruence. Qed.
Lemma dec_textual n : textual (dec n). Proof. apply textual_no_lt. apply (digits_no_c 60); [reflexivity|apply dec_digit]. Qed.
Lemma dec_no_gt n : no_c 62 (dec n) = true. Proof. apply (digits_no_c 62); [reflexivity|apply dec_digit]. Qed.
Lemma digits_name x : forallb is_digit x = true -> forallb is_name_char x = true.
Proof. induction x as [|c r IH]; [reflexivity|]. cbn [forallb]. intro H. apply andb_true_iff in H as [H1 H2]. rewrite (IH H2), andb_true_r.
  unfold is_digit in H1. unfold is_name_char. apply andb_true_iff in H1 as [A B]. rewrite A, B. cbn. rewrite !orb_true_r. reflexivity. Qed.

(* ---- the header element: <hL ...> ... </hL> for L a numeral, -1 or ? ---- *)
Lemma run_oname x : forallb is_name_char x = true -> forall acc stk, run x (OName acc, stk) = (OName (rev x ++ acc), stk).
Proof. induction x as [|c r IH]; intros H acc stk; [reflexivity|]. cbn [forallb] in H. apply andb_true_iff in H as [H1 H2].
  unfold run. cbn [fold_left tstep]. rewrite H1. fold (run r (OName (c :: acc), stk)). rewrite (IH H2). change (rev (c :: r)) with (rev r ++ [c]). rewrite <- app_assoc. reflexivity. Qed.
Lemma run_cname x : forallb is_name_char x = true -> forall acc stk, run x (CName acc, stk) = (CName (rev x ++ acc), stk).
Proof. induction x as [|c r IH]; intros H acc stk; [reflexivity|]. cbn [forallb] in H. apply andb_true_iff in H as [H1 H2].
  unfold run. cbn [fold_left tstep]. rewrite H1. fold (run r (CName (c :: acc), stk)). rewrite (IH H2). change (rev (c :: r)) with (rev r ++ [c]). rewrite <- app_assoc. reflexivity. Qed.
Definition hname (L : str) : str := if forallb is_digit L then 104 :: L else [104].
Definition level_ok (L : str) : Prop := forallb is_digit L = true \/ L = R "-1" \/ L = R "?".
Lemma level_str_ok t m : level_ok (level_str t m).
Proof. unfold level_str. destruct (header_level t m) as [[|n]|]; [right; left; reflexivity|left; apply dec_digit|right; right; reflexivity]. Qed.
Lemma run_header_open L attrs : level_ok L -> no_c 62 attrs = true -> rest_slash attrs false = false ->
  forall stk, run (R "<h" ++ L ++ R " " ++ attrs ++ R ">") (Txt, stk) = (Txt, hname L :: stk).
Proof. intros HL Ha Hs stk. rewrite run_app. change (run (R "<h") (Txt, stk)) with (OName [104], stk).
  destruct HL as [Hd | [-> | ->]].
  - rewrite run_app, (run_oname L (digits_name L Hd)). rewrite run_app. change (run (R " ") (OName (rev L ++ [104]), stk)) with (ORest (rev (rev L ++ [104])) false, stk).
    rewrite run_app, (run_rest _ Ha). unfold hname. rewrite Hd, rev_app_distr, rev_involutive, Hs. reflexivity.
  - rewrite run_app. change (run (R "-1") (OName [104], stk)) with (ORest [104] false, stk).
    rewrite run_app. change (run (R " ") (ORest [104] false, stk)) with (ORest [104] false, stk).
    rewrite run_app, (run_rest _ Ha), Hs. reflexivity.
  - rewrite run_app. change (run (R "?") (OName [104], stk)) with (ORest [104] false, stk).
    rewrite run_app. change (run (R " ") (ORest [104] false, stk)) with (ORest [104] false, stk).
    rewrite run_app, (run_rest _ Ha), Hs. reflexivity.
Qed.
Lemma run_header_close L : level_ok L -> forall stk, run (R "</h" ++ L ++ R ">" ++ NLs) (Txt, hname L :: stk) = (Txt, stk).
Proof. intros HL stk. rewrite run_app. change (run (R "</h") (Txt, hname L :: stk)) with (CName [104], hname L :: stk).
  destruct HL as [Hd | [-> | ->]].
  - rewrite run_app, (run_cname L (digits_name L Hd)). unfold hname. rewrite Hd.
    change (R ">" ++ NLs) with [62; 10]. unfold run. cbn [fold_left tstep]. change (is_name_char 62) with false. cbv iota. change (62 =? 62) with true. cbv iota.
    unfold close. rewrite rev_app_distr, rev_involutive. change (rev [104]) with [104]. cbn [app].
    match goal with |- context [str_eqb ?a ?b] => destruct (str_eqb a b) eqn:E end; [reflexivity|]. exfalso. revert E.
    change (str_eqb (104 :: L) (104 :: L) = false -> False). rewrite FuelProofs.str_eqb_refl. discriminate.
  - reflexivity.
  - reflexivity.
Qed.

(* ---- ParseOptions reads the state only through the variables ---- *)
Lemma ivars_eqd a b : a ~~ b -> ivars a = ivars b. Proof. apply eqd_get. intro; reflexivity. Qed.
Lemma inline_text_iv i a b : ivars a = ivars b -> fst (inline_text i a) = fst (inline_text i b).
Proof. intro H. destruct i; cbn; try reflexivity. rewrite H. destruct (assoc _ _); cbn; [reflexivity|].
  match goal with |- context [match ?x with [] => _ | _ => _ end] => destruct x as [|c r] end; cbn; [reflexivity|].
  destruct c; try reflexivity.
  repeat (match goal with |- context [match ?x with _ => _ end] => destruct x end; cbn; try reflexivity). Qed.
Lemma inlines_text_iv l : forall a b, ivars a = ivars b -> fst (inlines_text l a) = fst (inlines_text l b).
Proof. induction l as [|i r IH]; intros a b H; cbn; [reflexivity|].
  pose proof (inline_text_iv i a b H) as H1. pose proof (ivars_eqd _ _ (inline_text_eqd i a)) as Ea. pose proof (ivars_eqd _ _ (inline_text_eqd i b)) as Eb.
  destruct (inline_text i a) as [x a1]. destruct (inline_text i b) as [y b1]. cbn [fst snd] in *. subst y.
  pose proof (IH a1 b1 ltac:(congruence)) as H2. destruct (inlines_text r a1) as [u a2]. destruct (inlines_text r b1) as [v b2]. cbn [fst] in *. subst v. reflexivity. Qed.
Lemma parse_options_iv f sp : forall l acc a b, ivars a = ivars b -> fst (parse_options f sp l acc a) = fst (parse_options f sp l acc b).
Proof. induction f as [|f IH]; intros l acc a b H; [reflexivity|]. cbn [parse_options].
  destruct l as [|x rest]; [reflexivity|].
  destruct x as [|i x']; [reflexivity|]. destruct i; try reflexivity.
  match goal with |- context [match ?x with [] => _ | _ => _ end] => destruct x as [|c t0] end; [reflexivity|].
  destruct c; try reflexivity.
  repeat (match goal with |- context [match ?p with xH => _ | _ => _ end] => destruct p; try reflexivity end).
  pose proof (inlines_text_iv (IText (45 :: t0) :: x') a b H) as H1.
  pose proof (ivars_eqd _ _ (inlines_text_eqd (IText (45 :: t0) :: x') a)) as Ea. pose proof (ivars_eqd _ _ (inlines_text_eqd (IText (45 :: t0) :: x') b)) as Eb.
  destruct (inlines_text _ a) as [full a1]. destruct (inlines_text _ b) as [full' b1]. cbn [fst snd] in *. subst full'.
  assert (H' : ivars a1 = ivars b1) by congruence.
  destruct (assoc _ sp) as [[|]|].
  - destruct rest as [|v rest2]; apply IH; [|exact H']. rewrite !(ivars_eqd _ _ (err_eqd _ _)). exact H'.
  - apply IH. exact H'.
  - apply IH. rewrite !(ivars_eqd _ _ (err_eqd _ _)). exact H'.
Qed.
Lemma parse_opts_iv sp l a b : ivars a = ivars b -> fst (parse_opts sp l a) = fst (parse_opts sp l b).
Proof. apply parse_options_iv. Qed.
