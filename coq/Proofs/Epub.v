(* C14/C02: the EPUB files the exporter generates from the collected headers - META-INF/container.xml, the navigation
   document, the NCX and the package file - are balanced for every book: read by the tag machine of Tok.v (which skips
   <?xml ...?> and <!DOCTYPE ...>) each takes it from character data with nothing open back to the same state. *)
From Coq Require Import List NArith Bool Lia Arith String Ascii.
Import ListNotations.
Require Import Xhtml Exp Eqd Tok Inv TocStr.
Open Scope N_scope.
Arguments run : simpl never.
Arguments flat : simpl never.

Theorem container_xml_balanced : run X.container_xml (Txt, []) = (Txt, []).
Proof. vm_compute. reflexivity. Qed.

(* split every concatenation and run the literal chunks whose starting state is known *)
Ltac lit :=
  match goal with
  | |- context [run (runes ?x) (?m, ?S)] => let v := eval vm_compute in (run (runes x) (m, S)) in change (run (runes x) (m, S)) with v
  | |- context [run NLs (?m, ?S)] => let v := eval vm_compute in (run NLs (m, S)) in change (run NLs (m, S)) with v
  | |- context [run [] ?st] => change (run [] st) with st
  end.
Ltac norm := repeat (first [rewrite run_app | lit]).
Lemma attr_value n x S : no_c 62 x = true -> forall sl, exists sl', run x (ORest n sl, S) = (ORest n sl', S).
Proof. intros H sl. eexists. apply (run_rest _ H). Qed.
Lemma run_after_quote r n sl S : run (runes (String (Ascii.ascii_of_nat 34) r)) (ORest n sl, S) = run (runes r) (ORest n false, S).
Proof. destruct sl; reflexivity. Qed.
(* an attribute value x without '>' (hypothesis H), then its closing quote *)
Ltac val H x :=
  match goal with |- context [run x (ORest ?n ?sl, ?S)] =>
    let sl' := fresh "sl" in destruct (attr_value n x S H sl) as [sl' ->]; rewrite run_after_quote end; norm.

Theorem nav_xhtml_balanced title s : fmt s = FX -> Forall entry_ok (lox_toc s) -> textual (X.param "document-title" s) ->
  textual title -> balanced_chunk (fst (X.nav_xhtml title s)).
Proof. intros Hf Hok Hdt Htitle. pose proof (html_escape_no_gt (lang s)) as Hlang. unfold X.nav_xhtml.
  pose proof (fun t s1 => toc_string_balanced X.DNav (mkPo [] [] []) s t s1 Hf Hok Hdt) as Hbal.
  destruct (X.toc_string X.DNav (mkPo [] [] []) s) as [t s1]. cbn [fst]. intro stk.
  assert (Ht : balanced_chunk (match title with [] => [] | _ => R "    <title>" ++ title ++ R "</title>" ++ NLs end)).
  { intro S. destruct title as [|c0 r0] eqn:E; [reflexivity|]. rewrite <- E in *. norm. rewrite Htitle. norm. reflexivity. }
  assert (Hx : balanced_chunk (match t with Some x => x | None => [] end)).
  { destruct t as [x|]; [apply (Hbal x s1 eq_refl)|intro; reflexivity]. }
  norm. val Hlang (html_escape (lang s)). rewrite Ht. norm. rewrite Hx. norm. reflexivity.
Qed.

Theorem toc_ncx_balanced title s : fmt s = FX -> Forall entry_ok (lox_toc s) -> textual (X.param "document-title" s) ->
  no_c 62 (X.param "epub-uuid" s) = true -> textual title -> balanced_chunk (fst (X.toc_ncx title s)).
Proof. intros Hf Hok Hdt Huuid Htitle. unfold X.toc_ncx.
  pose proof (fun t s1 => toc_string_balanced X.DNcx (mkPo [] [] []) s t s1 Hf Hok Hdt) as Hbal.
  destruct (X.toc_string X.DNcx (mkPo [] [] []) s) as [t s1]. cbn [fst]. intro stk.
  assert (Ht : balanced_chunk (match title with [] => [] | _ => R "  <docTitle>" ++ NLs ++ R "    <text>" ++ title ++ R "</text>" ++ NLs ++ R "  </docTitle>" ++ NLs end)).
  { intro S. destruct title as [|c0 r0] eqn:E; [reflexivity|]. rewrite <- E in *. norm. rewrite Htitle. norm. reflexivity. }
  assert (Hx : balanced_chunk (match t with Some x => x | None => [] end)).
  { destruct t as [x|]; [apply (Hbal x s1 eq_refl)|intro; reflexivity]. }
  norm. val Huuid (X.param "epub-uuid" s). rewrite Ht. norm. rewrite Hx. norm. reflexivity.
Qed.

(* the package file: every manifest item and spine reference is a self-closing element *)
Definition ref_ok (s : st) (e : lox) : Prop := no_c 62 (X.get_id s e) = true /\ no_c 62 (lx_ref e) = true.
Lemma media_type_no_gt im mt : X.media_type im = Some mt -> no_c 62 mt = true.
Proof. unfold X.media_type. intro E. repeat (match type of E with (if ?c then _ else _) = _ => destruct c end; [injection E as <-; reflexivity|]). discriminate. Qed.

Theorem content_opf_balanced title s : textual title -> textual (X.param "epub-uuid" s) -> textual (X.param "document-author" s) ->
  textual (X.param "epub-subject" s) -> Forall (ref_ok s) (X.chap_entries s) -> balanced_chunk (fst (X.content_opf title s)).
Proof. intros Htitle Huuid Hauth Hsub Hrefs. pose proof (html_escape_textual (lang s)) as Hlang. unfold X.content_opf. cbv zeta.
  (* the images: each adds a self-closing item; the state only gathers diagnostics *)
  set (step := fun '(acc, s0) im => _).
  assert (Hfold : forall l a, balanced_chunk (fst a) ->
            balanced_chunk (fst (fold_left step l a)) /\ snd (fold_left step l a) ~~ snd a).
  { induction l as [|im r IH]; intros [acc s0] Hacc; [split; [exact Hacc|reflexivity]|]. cbn [fold_left]. cbn [fst snd] in *.
    pose proof (html_escape_no_gt (X.base_name im [])) as Hx.
    remember (step (acc, s0) im) as r0 eqn:Er. unfold step in Er. destruct (X.media_type im) as [mt|] eqn:Emt; subst r0.
    - apply IH. intro S. pose proof (media_type_no_gt im mt Emt) as Hmt. cbn [fst].
      norm. rewrite Hacc. norm. val Hx (html_escape (X.base_name im [])). val Hx (html_escape (X.base_name im [])). val Hmt mt. reflexivity.
    - destruct (IH (acc, err "unknown image format" s0) Hacc) as [H1 H2]. split; [exact H1|]. eapply eqd_trans; [exact H2|apply err_eqd]. }
  match goal with |- context [fold_left step (images s) ?init] =>
    pose proof (Hfold (images s) init (fun _ => eq_refl)) as Hf2; destruct (fold_left step (images s) init) as [imgs s1] end.
  cbn [fst snd] in Hf2. destruct Hf2 as [Himg Es1]. clear Hfold.
  assert (Hsubj : balanced_chunk (match X.param "epub-subject" s with [] => [] | _ => R "<dc:subject id=""epub-subject-1"">" ++ X.param "epub-subject" s ++ R "</dc:subject>" ++ NLs end)).
  { intro S. destruct (X.param "epub-subject" s) as [|c0 r0] eqn:E; [reflexivity|]. rewrite <- E in *. norm. rewrite Hsub. norm. reflexivity. }
  assert (Hau : balanced_chunk (match X.param "document-author" s with [] => [] | a => R "<dc:creator id=""epub-creator-1"">" ++ a ++ R "</dc:creator>" ++ NLs end)).
  { intro S. destruct (X.param "document-author" s) as [|c0 r0] eqn:E; [reflexivity|]. rewrite <- E in *. norm. rewrite Hauth. norm. reflexivity. }
  assert (Hitems : balanced_chunk (flat_map (fun e => R "<item id=""" ++ X.get_id s e ++ R """ href=""" ++ lx_ref e ++ R """ media-type=""application/xhtml+xml"" />" ++ NLs) (X.chap_entries s))).
  { revert Hrefs. generalize (X.chap_entries s). induction l as [|e r IH]; intros Hl S; [reflexivity|]. inversion Hl as [|x y [Hx1 Hx2] Hy]; subst.
    cbn [flat_map]. norm. val Hx1 (X.get_id s e). val Hx2 (lx_ref e). apply (IH Hy). }
  assert (Hspine : balanced_chunk (flat_map (fun e => R "<itemref idref=""" ++ X.get_id s1 e ++ R """ />" ++ NLs) (X.chap_entries s1))).
  { assert (Ece : X.chap_entries s1 = X.chap_entries s) by (unfold X.chap_entries; rewrite (eqd_get lox_toc _ _ (fun _ => eq_refl) Es1); reflexivity).
    assert (Egid : forall e, X.get_id s1 e = X.get_id s e).
    { intro e. unfold X.get_id, X.multi, X.epub, X.custom_ids. rewrite (eqd_get mode _ _ (fun _ => eq_refl) Es1), (eqd_get params _ _ (fun _ => eq_refl) Es1). reflexivity. }
    rewrite Ece. revert Hrefs. generalize (X.chap_entries s). induction l as [|e r IH]; intros Hl S; [reflexivity|]. inversion Hl as [|x y [Hx1 Hx2] Hy]; subst.
    cbn [flat_map]. norm. rewrite Egid. val Hx1 (X.get_id s e). apply (IH Hy). }
  intro stk. unfold X.param in *.
  destruct (X.epub3 s); cbn [fst]; norm; rewrite ?Huuid; norm; rewrite ?Hlang; norm; rewrite ?Htitle; norm; rewrite ?Hsubj; norm; rewrite ?Hau; norm;
    rewrite ?Hitems; norm; rewrite ?Himg; norm; rewrite ?Hspine; norm; reflexivity.
Qed.
Print Assumptions content_opf_balanced.
