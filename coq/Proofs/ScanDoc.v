(* C12, whole documents: a list of macro lines printed by the manual's rules is read back, block for block, with the
   line number of each line - for every fuel large enough.  Builds on the first-block theorem of ScanProofs.v. *)
Require Import Scan ScanProofs.
From Coq Require Import List NArith Bool Lia Arith.
Import ListNotations.
Open Scope N_scope.

(* what the parser holds after a macro line: the first token of the next block, or end of input *)
Definition eof_pst : pst := {| p_sc := (SEnd, []); p_tok := EOF; p_rest := [NL]; p_lit := [] |}.
Definition after_line (rest : str) : pst := match rest with [] => eof_pst | _ => p_scan (BlockStart, rest) end.

Lemma pm_step_eof f s args r s' : scan1 s = ((EOF, r, []), s') ->
  parse_macro (S f) (mk s) args [] = inl (args, {| p_sc := s'; p_tok := EOF; p_rest := r; p_lit := [] |}).
Proof. intros H. cbn [parse_macro p_sc mk]. unfold p_scan. rewrite H. reflexivity. Qed.
Lemma scan1_last_nl : scan1 (NewArg, [NL]) = ((EOF, [NL], []), (SEnd, [])).
Proof. reflexivity. Qed.
Lemma pm_end rest args : exists k, forall f, parse_macro (k + f) (mk (NewArg, NL :: rest)) args [] = inl (args, after_line rest).
Proof. exists 1%nat. intro f. cbn [Nat.add]. destruct rest as [|y r].
  - erewrite pm_step_eof by apply scan1_last_nl. reflexivity.
  - erewrite pm_step_macro_end by apply scan1_macro_end. reflexivity. Qed.

Lemma pm_line_gen args : Forall wf_arg args -> forall done rest,
  exists k, forall f, parse_macro (k + f) (mk (NewArg, args_tail args rest)) done []
                      = inl (done ++ map (fun a => arg_inl a []) args, after_line rest).
Proof.
  induction args as [|a r IH]; intros Hw done rest.
  - destruct (pm_end rest done) as (k & Hk). exists k. intros f. cbn [args_tail map]. rewrite app_nil_r. apply Hk.
  - inversion Hw as [|? ? Ha Hr]; subst. cbn [args_tail map].
    destruct r as [|b r].
    + destruct (pm_arg a Ha done NL rest eq_refl) as (k1 & H1).
      destruct (pm_end rest (done ++ [arg_inl a []])) as (k2 & H2).
      exists (k1 + (1 + k2))%nat. intros f. cbn [args_tail]. replace (k1 + (1 + k2) + f)%nat with (k1 + S (k2 + f))%nat by lia.
      rewrite H1. erewrite pm_step_argend by apply scan1_argend_nl. rewrite H2. reflexivity.
    + destruct (IH Hr (done ++ [arg_inl a []]) rest) as (k2 & H2).
      inversion Hr as [|? ? Hb _]; subst.
      destruct (print_arg_head b Hb) as (h & t & Hh & Hsp).
      assert (Htail : args_tail (b :: r) rest = h :: (t ++ (match r with [] => NL :: rest | _ => 32 :: args_tail r rest end))).
      { cbn [args_tail]. rewrite Hh. reflexivity. }
      destruct (pm_arg a Ha done 32 (args_tail (b :: r) rest) eq_refl) as (k1 & H1).
      exists (k1 + (1 + k2))%nat. intros f. replace (k1 + (1 + k2) + f)%nat with (k1 + S (k2 + f))%nat by lia.
      rewrite H1. rewrite Htail.
      erewrite pm_step_argend by (apply scan1_argend_sp; exact Hsp). rewrite <- Htail.
      rewrite H2. rewrite <- app_assoc. reflexivity.
Qed.

(* the scan of a macro name at the start of any line *)
Lemma line_scan n args rest : wf_name n -> Forall wf_arg args ->
  p_scan (BlockStart, print_line n args rest) =
  {| p_sc := (NewArg, args_tail args rest); p_tok := MACRO_NAME; p_rest := print_line n args rest; p_lit := n |}.
Proof.
  intros [Hne Hn] Hw. unfold p_scan, print_line, scan1, scan_entry.
  cbn [is_c cur snd hd_error]. change (DOT =? 0) with false. cbn iota.
  destruct n as [|x n]; [congruence|]. inversion Hn as [|? ? [Hx1 Hx2] Hn']; subst.
  cbn [app]. cbn [scan_dispatch st_of fst is_c cur snd hd_error]. change (DOT =? DOT) with true. cbn iota.
  unfold scan_macro_name, set_state. cbn [snd fst]. rewrite adv_cons2.
  assert (Hsk : forall tl, skip_ws (MacroName, x :: tl) = (MacroName, x :: tl)).
  { intros tl. unfold skip_ws, fuel_of. cbn [snd length skip_ws_f cur hd_error]. rewrite Hx1. reflexivity. }
  rewrite Hsk. cbn [is_c cur snd hd_error].
  assert (Hxnl : (x =? NL) = false) by (destruct (N.eqb_spec x NL) as [->|]; [vm_compute in Hx1; discriminate|reflexivity]).
  rewrite Hxnl. destruct (N.eqb_spec x BS); [congruence|].
  destruct args as [|a r].
  - change (x :: n ++ NL :: rest) with ((x :: n) ++ NL :: rest).
    unfold fuel_of. cbn [snd]. rewrite name_loop_spec; [|assumption|reflexivity| rewrite app_length; cbn [length]; lia].
    cbn [rev app st_of fst sstate_eqb]. unfold skip_ws, fuel_of. cbn [snd length skip_ws_f cur hd_error].
    change (is_space NL && negb (NL =? NL)) with false. cbn iota. reflexivity.
  - destruct (args_tail_head (a :: r) rest Hw ltac:(discriminate)) as (h & t & Hh & Hs).
    change (x :: n ++ 32 :: args_tail (a :: r) rest) with ((x :: n) ++ 32 :: args_tail (a :: r) rest).
    unfold fuel_of. cbn [snd]. rewrite name_loop_spec; [|assumption|reflexivity| rewrite app_length; cbn [length]; lia].
    cbn [rev app st_of fst sstate_eqb]. rewrite Hh. unfold skip_ws, fuel_of. cbn [snd length skip_ws_f cur hd_error].
    change (is_space 32 && negb (32 =? NL)) with true. cbn iota. rewrite adv_cons2. cbn [cur snd hd_error]. rewrite Hs.
    reflexivity.
Qed.

(* a document: macro lines one after the other *)
Definition mline := (str * list str)%type.
Definition wf_line (l : mline) : Prop := wf_name (fst l) /\ Forall wf_arg (snd l).
Definition print_doc (ls : list mline) : str := fold_right (fun l rest => print_line (fst l) (snd l) rest) [] ls.
Fixpoint blocks_from (i : nat) (ls : list mline) : list block :=
  match ls with [] => [] | l :: r => BMacro (fst l) (map (fun a => arg_inl a []) (snd l)) i :: blocks_from (S i) r end.

Lemma count_nl_map_char (P : rune -> Prop) w : (forall c, P c -> c <> NL) -> Forall P w -> count_nl w = 0%nat.
Proof. intros HP H. induction H as [|c w Hc Hw IH]; [reflexivity|]. cbn [count_nl]. destruct (N.eqb_spec c NL) as [E|_]; [destruct (HP c Hc E)|exact IH]. Qed.

(* every printed line holds exactly one newline, its last character *)
Lemma count_nl_enc (enc : rune -> str) a : (forall c, c <> NL -> count_nl (enc c) = 0%nat) -> wf_arg a -> count_nl (flat_map enc a) = 0%nat.
Proof. intros He H. induction H as [|c w [Hc _] Hw IH]; [reflexivity|]. cbn [flat_map]. rewrite count_nl_app, (He c Hc), IH. reflexivity. Qed.
Lemma count_nl_print_arg a : wf_arg a -> count_nl (print_arg a) = 0%nat.
Proof. intro H. unfold print_arg. destruct (needs_quote a).
  - change (DQ :: flat_map enc_quoted a ++ [DQ]) with ([DQ] ++ flat_map enc_quoted a ++ [DQ]). rewrite !count_nl_app.
    rewrite (count_nl_enc enc_quoted a); [reflexivity| |exact H].
    intros c Hc. unfold enc_quoted. destruct (c =? BS); [reflexivity|]. destruct (c =? DQ); [reflexivity|]. cbn [count_nl].
    destruct (N.eqb_spec c NL); [congruence|reflexivity].
  - apply count_nl_enc; [|exact H]. intros c Hc. unfold enc_bare. destruct (c =? BS); [reflexivity|]. cbn [count_nl].
    destruct (N.eqb_spec c NL); [congruence|reflexivity]. Qed.
Lemma count_nl_args_tail args rest : Forall wf_arg args -> count_nl (args_tail args rest) = S (count_nl rest).
Proof. intro H. induction H as [|a r Ha Hr IH]; [reflexivity|]. cbn [args_tail]. rewrite count_nl_app, (count_nl_print_arg a Ha).
  destruct r as [|b r']; [reflexivity|]. change (32 :: args_tail (b :: r') rest) with ([32] ++ args_tail (b :: r') rest). rewrite count_nl_app, IH. reflexivity. Qed.
Lemma count_nl_name n : wf_name n -> count_nl n = 0%nat.
Proof. intros [_ H]. apply (count_nl_map_char name_char); [|exact H]. intros c [Hs _] ->. vm_compute in Hs. discriminate. Qed.
Lemma count_nl_print_line n args rest : wf_name n -> Forall wf_arg args -> count_nl (print_line n args rest) = S (count_nl rest).
Proof. intros Hn Hw. unfold print_line. change (DOT :: n ++ _) with ([DOT] ++ n ++ (match args with [] => NL :: rest | _ => 32 :: args_tail args rest end)).
  rewrite !count_nl_app, (count_nl_name n Hn). destruct args as [|a r]; [reflexivity|].
  change (32 :: args_tail (a :: r) rest) with ([32] ++ args_tail (a :: r) rest). rewrite count_nl_app, (count_nl_args_tail _ rest Hw). reflexivity. Qed.
Lemma count_nl_print_doc ls : Forall wf_line ls -> count_nl (print_doc ls) = List.length ls.
Proof. intro H. induction H as [|l r [Hn Hw] Hr IH]; [reflexivity|]. cbn [print_doc fold_right List.length].
  fold (print_doc r). rewrite (count_nl_print_line _ _ _ Hn Hw), IH. reflexivity. Qed.

(* the parser over the rest of a document: [done] lines were read before *)
Lemma parse_doc_from total ls : Forall wf_line ls -> forall acc done, total = (done + List.length ls)%nat ->
  exists k, forall f, parse_blocks total (k + f) (after_line (print_doc ls)) acc = (acc ++ blocks_from (S done) ls, None).
Proof. intro H. induction H as [|l r [Hn Hw] Hr IH]; intros acc done Ht.
  - exists 1%nat. intro f. cbn [print_doc fold_right after_line Nat.add parse_blocks eof_pst p_tok blocks_from]. rewrite app_nil_r. reflexivity.
  - cbn [print_doc fold_right]. fold (print_doc r). set (rest := print_doc r).
    assert (Hne : exists c t, print_line (fst l) (snd l) rest = c :: t) by (unfold print_line; eexists _, _; reflexivity).
    destruct Hne as (c0 & t0 & Hc0).
    assert (Eal : after_line (print_line (fst l) (snd l) rest) = p_scan (BlockStart, print_line (fst l) (snd l) rest)) by (rewrite Hc0; reflexivity).
    rewrite Eal, (line_scan _ _ rest Hn Hw).
    destruct (pm_line_gen (snd l) Hw [] rest) as (k1 & H1).
    destruct (IH (acc ++ [BMacro (fst l) (map (fun a => arg_inl a []) (snd l)) (S done)]) (S done)) as (k2 & H2); [cbn [List.length] in Ht; lia|].
    exists (S (k1 + k2))%nat. intro f.
    change (S (k1 + k2) + f)%nat with (S (k1 + k2 + f))%nat. cbn [parse_blocks p_tok p_rest p_lit].
    rewrite parse_macro_sc. cbn [p_sc]. replace (S (k1 + k2 + f)) with (k1 + S (k2 + f))%nat by lia. rewrite H1. cbn [app].
    assert (Hline : line_at total (print_line (fst l) (snd l) rest) = S done).
    { unfold line_at. rewrite (count_nl_print_line _ _ rest Hn Hw). unfold rest. rewrite (count_nl_print_doc r Hr). cbn [List.length] in Ht. lia. }
    rewrite Hline. replace (k1 + k2 + f)%nat with (k2 + (k1 + f))%nat by lia. rewrite H2, <- app_assoc. reflexivity.
Qed.

Lemma scan1_init x c t : x = c :: t -> c <> 0 -> scan1 (init_sc x) = scan1 (BlockStart, x).
Proof. intros -> Hc. unfold scan1, scan_entry, init_sc. cbn [is_c cur snd hd_error]. change (0 =? 0) with true. cbn iota.
  rewrite adv_cons2. cbn [is_c cur snd hd_error]. destruct (N.eqb_spec c 0); [congruence|]. reflexivity. Qed.

Theorem C12_document ls : Forall wf_line ls -> ls <> [] ->
  exists k, forall f, parse_blocks (count_nl (print_doc ls)) (k + f) (p_scan (init_sc (print_doc ls))) [] = (blocks_from 1 ls, None).
Proof. intros H Hne. destruct (parse_doc_from (count_nl (print_doc ls)) ls H [] 0%nat) as (k & Hk); [rewrite (count_nl_print_doc ls H); reflexivity|].
  exists k. intro f.
  assert (E : p_scan (init_sc (print_doc ls)) = after_line (print_doc ls)).
  { destruct ls as [|l r]; [congruence|]. cbn [print_doc fold_right]. fold (print_doc r).
    assert (Hc0 : print_line (fst l) (snd l) (print_doc r) = DOT :: (fst l ++ (match snd l with [] => NL :: print_doc r | _ => 32 :: args_tail (snd l) (print_doc r) end))) by reflexivity.
    unfold p_scan at 1. rewrite (scan1_init _ _ _ Hc0) by discriminate. rewrite Hc0. reflexivity. }
  rewrite E. exact (Hk f).
Qed.
Print Assumptions C12_document.

(* non-vacuity, and the fuel parse really uses is enough on it *)
Example C12_document_example :
  let ls := [([83;109], [[97]; [98;32;99]]); ([80], []); ([66;109], [[45;116]; [34;113]])] in
  Forall wf_line ls /\ parse (print_doc ls) = (blocks_from 1 ls, None).
Proof. split; [|vm_compute; reflexivity].
  repeat (apply Forall_cons; [split; [split; [discriminate|repeat (apply Forall_cons; [split; [reflexivity|discriminate]|]); apply Forall_nil]
                                    |repeat (apply Forall_cons; [repeat (apply Forall_cons; [split; discriminate|]); apply Forall_nil|]); apply Forall_nil]|]). apply Forall_nil. Qed.
