(* The generic replacer theorem instantiated on the tables regenerated from /repo/escape/escape.go (Gen/Tables.v). *)
From Coq Require Import List NArith Lia Bool.
Import ListNotations.
Require Import Repl Tables.
Open Scope N_scope.

Lemma latex_table_ok : table_ok latex_table = true. Proof. vm_compute. reflexivity. Qed.
Lemma roff_table_ok : table_ok roff_table = true. Proof. vm_compute. reflexivity. Qed.
Lemma markdown_table_ok : table_ok markdown_table = true. Proof. vm_compute. reflexivity. Qed.
Lemma html_table_ok : table_ok html_table = true. Proof. vm_compute. reflexivity. Qed.

(* TeX-special characters: \ { } $ & # ^ _ % ~ *)
Definition tex_specials : str := [92; 123; 125; 36; 38; 35; 94; 95; 37; 126].
Lemma latex_specials_keys : specials_are_keys latex_table tex_specials = true. Proof. vm_compute. reflexivity. Qed.

(* roff-significant characters: . ' \ " *)
Definition roff_specials : str := [46; 39; 92; 34].
Lemma roff_specials_keys : specials_are_keys roff_table roff_specials = true. Proof. vm_compute. reflexivity. Qed.

(* XML markup-significant characters: < > & " ' *)
Definition xml_specials : str := [60; 62; 38; 34; 39].
Lemma html_specials_keys : specials_are_keys html_table xml_specials = true. Proof. vm_compute. reflexivity. Qed.

Theorem latex_roundtrip : forall s, dec latex_table (length (enc latex_table s)) (enc latex_table s) = Some s.
Proof. intros s. apply dec_enc; [exact latex_table_ok | apply le_n]. Qed.
Theorem roff_roundtrip : forall s, dec roff_table (length (enc roff_table s)) (enc roff_table s) = Some s.
Proof. intros s. apply dec_enc; [exact roff_table_ok | apply le_n]. Qed.
Theorem html_roundtrip : forall s, dec html_table (length (enc html_table s)) (enc html_table s) = Some s.
Proof. intros s. apply dec_enc; [exact html_table_ok | apply le_n]. Qed.

(* A special character occurs in the encoding only inside the image of a row. *)
Lemma special_not_passthrough : forall tbl specials c, specials_are_keys tbl specials = true -> In c specials ->
  exists im, lookup tbl c = Some im /\ enc1 tbl c = im.
Proof.
  intros tbl sp c H Hin. unfold specials_are_keys in H. rewrite forallb_forall in H. specialize (H c Hin).
  destruct (enc1_cases tbl c) as [?|[Hk _]]; [assumption|congruence].
Qed.
