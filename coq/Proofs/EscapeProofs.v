(* The generic replacer theorem instantiated on the tables regenerated from /repo/escape/escape.go (Gen/Tables.v). *)
From Coq Require Import List NArith Lia Bool.
Import ListNotations.
Require Import Repl Tables.
Open Scope N_scope.

Lemma latex_table_ok : table_ok latex_table = true. Proof. vm_compute. reflexivity. Qed.
Lemma markdown_table_ok : table_ok markdown_table = true. Proof. vm_compute. reflexivity. Qed.
Lemma html_table_ok : table_ok html_table = true. Proof. vm_compute. reflexivity. Qed.

(* TeX-special characters: \ { } $ & # ^ _ % ~ *)
Definition tex_specials : str := [92; 123; 125; 36; 38; 35; 94; 95; 37; 126].
Lemma latex_specials_keys : specials_are_keys latex_table tex_specials = true. Proof. vm_compute. reflexivity. Qed.

(* roff-significant characters: dot, quote, backslash, double quote *)
Definition roff_specials : str := [46; 39; 92; 34].
Lemma roff_specials_keys : specials_are_keys roff_table roff_specials = true. Proof. vm_compute. reflexivity. Qed.

(* XML markup-significant characters: less-than, greater-than, ampersand, double quote, quote *)
Definition xml_specials : str := [60; 62; 38; 34; 39].
Lemma html_specials_keys : specials_are_keys html_table xml_specials = true. Proof. vm_compute. reflexivity. Qed.

Theorem latex_roundtrip : forall s, dec latex_table (length (enc latex_table s)) (enc latex_table s) = Some s.
Proof. intros s. apply dec_enc; [exact latex_table_ok | apply le_n]. Qed.
Theorem html_roundtrip : forall s, dec html_table (length (enc html_table s)) (enc html_table s) = Some s.
Proof. intros s. apply dec_enc; [exact html_table_ok | apply le_n]. Qed.

(* A special character occurs in the encoding only inside the image of a row. *)
Lemma special_not_passthrough : forall tbl specials c, specials_are_keys tbl specials = true -> In c specials ->
  exists im, lookup tbl c = Some im /\ enc1 tbl c = im.
Proof.
  intros tbl sp c H Hin. unfold specials_are_keys in H. rewrite forallb_forall in H. specialize (H c Hin).
  destruct (enc1_cases tbl c) as [?|[Hk _]]; [assumption|congruence].
Qed.

(* ---- roff: escaped text is never read as a request, and every backslash starts an exporter escape ----
   The machine reads the characters of a chunk of escaped text.  Resting states: at the beginning of a line
   (the chunk may itself start a line) or inside one.  A dot or a quote first on a line, a double quote
   anywhere (it would end a quoted request argument), a backslash not followed by one of
   e & ~ (dq (cq, all lead to Bad. *)
Inductive rstate := Bol | Mid | Bs | Par | ParD | ParC | Bad.
Definition rstep (q : rstate) (c : N) : rstate :=
  match q with
  | Bol => if c =? 92 then Bs else if (c =? 46) || (c =? 39) || (c =? 34) then Bad else if c =? 10 then Bol else Mid
  | Mid => if c =? 92 then Bs else if c =? 34 then Bad else if c =? 10 then Bol else Mid
  | Bs => if (c =? 101) || (c =? 38) || (c =? 126) then Mid else if c =? 40 then Par else Bad
  | Par => if c =? 100 then ParD else if c =? 99 then ParC else Bad
  | ParD | ParC => if c =? 113 then Mid else Bad
  | Bad => Bad
  end.
Definition rresting (q : rstate) : Prop := q = Bol \/ q = Mid.

Lemma roff_images_rest : forall k im q, In (k, im) roff_table -> rresting q -> rresting (mrun rstate rstep q im).
Proof.
  intros k im q Hin [->| ->]; cbn in Hin;
    repeat (destruct Hin as [Hin|Hin]; [inversion Hin; subst; vm_compute; auto|]); contradiction.
Qed.
Lemma roff_pass_rest : forall c q, is_key roff_table c = false -> rresting q -> rresting (rstep q c).
Proof.
  intros c q Hk Hq.
  assert (H92 : (c =? 92) = false) by (destruct (N.eqb_spec c 92) as [->|]; [vm_compute in Hk; discriminate|reflexivity]).
  assert (H46 : (c =? 46) = false) by (destruct (N.eqb_spec c 46) as [->|]; [vm_compute in Hk; discriminate|reflexivity]).
  assert (H39 : (c =? 39) = false) by (destruct (N.eqb_spec c 39) as [->|]; [vm_compute in Hk; discriminate|reflexivity]).
  assert (H34 : (c =? 34) = false) by (destruct (N.eqb_spec c 34) as [->|]; [vm_compute in Hk; discriminate|reflexivity]).
  destruct Hq as [->| ->]; unfold rstep; rewrite ?H92, ?H46, ?H39, ?H34; cbn [orb]; destruct (c =? 10); unfold rresting; auto.
Qed.

Theorem roff_escape_safe : forall s q, rresting q -> rresting (mrun rstate rstep q (enc roff_table s)).
Proof. intros s q. apply enc_rests; [exact roff_images_rest | exact roff_pass_rest]. Qed.
