(* The dispatcher's tables, tied to the source: Gen/Facts.v carries the map literal of frundis.DefaultExporterMacros
   (regenerated from /repo on every run); here the model's dispatch is shown to have the same domain and to send each
   name to the model of the handler the Go table names. *)
From Coq Require Import List NArith Bool String.
Import ListNotations.
Require Import Exp Proc1 Proc2 Proc3 Ctl Loop FuelProofs.
Require Facts.
Open Scope string_scope.

Section D.
Variable pb : list block -> cst -> cst.
Definition model_dispatch (n : str) : option (cst -> cst) :=
  match control_builtin pb n with Some h => Some h | None => option_map lift (builtin n) end.
(* the model of each Go handler function *)
Definition handler_of (g : string) : option (cst -> cst) :=
  if String.eqb g "macroBd" then Some (lift macro_bd) else if String.eqb g "macroBf" then Some (lift macro_bf)
  else if String.eqb g "macroBl" then Some (lift (macro_bl pim)) else if String.eqb g "macroBm" then Some (lift macro_bm)
  else if String.eqb g "macroHeader" then Some (lift (macro_header pim))
  else if String.eqb g "macroD" then Some (lift macro_d) else if String.eqb g "macroEd" then Some (lift macro_ed)
  else if String.eqb g "macroEf" then Some macro_ef else if String.eqb g "macroEl" then Some (lift macro_el)
  else if String.eqb g "macroEm" then Some (lift macro_em) else if String.eqb g "macroFt" then Some macro_ft
  else if String.eqb g "macroIncludeFile" then Some (macro_include pb)
  else if String.eqb g "macroIm" then Some (lift macro_im) else if String.eqb g "macroIt" then Some (lift (macro_it pim))
  else if String.eqb g "macroLk" then Some (lift (macro_lk pim)) else if String.eqb g "macroP" then Some (lift (macro_p pim))
  else if String.eqb g "macroSm" then Some (lift macro_sm) else if String.eqb g "macroSx" then Some (lift (macro_sx pim))
  else if String.eqb g "macroTa" then Some (lift (macro_ta pim)) else if String.eqb g "macroTc" then Some (lift macro_tc)
  else if String.eqb g "macroX" then Some (lift macro_x)
  else if String.eqb g "macroDefStart" then Some (lift macro_def_start) else if String.eqb g "macroDefEnd" then Some (lift macro_def_end)
  else if String.eqb g "macroIfStart" then Some (lift macro_if_start) else if String.eqb g "macroIfEnd" then Some (lift macro_if_end)
  else if String.eqb g "macroDefVar" then Some (lift macro_def_var) else if String.eqb g "macroRun" then Some macro_run
  else None.

(* every entry of the Go table: the model dispatches that name to the model of that handler *)
Theorem dispatch_agrees : Forall (fun p => model_dispatch (runes (fst p)) = handler_of (snd p) /\ handler_of (snd p) <> None) Facts.dispatch_table.
Proof. unfold Facts.dispatch_table. repeat (apply Forall_cons; [split; [reflexivity|discriminate]|]). apply Forall_nil. Qed.

(* and the model dispatches no other name *)
Ltac name_case H :=
  match type of H with
  | context [is_name ?n ?m] =>
      let E := fresh "E" in destruct (is_name n m) eqn:E;
      [apply str_eqb_eq in E; subst n | ]
  end.
Theorem dispatch_domain : forall n, model_dispatch n <> None -> In n (map (fun p => runes (fst p)) Facts.dispatch_table).
Proof. intros n H. unfold model_dispatch, control_builtin, builtin in H.
  repeat (name_case H; [vm_compute; tauto|]). cbn in H. congruence. Qed.

(* the names processBlock hides from PrevMacro are the model's control names *)
Theorem invisible_names_agree : forall n, is_control_name n = true <-> In n (map runes Facts.invisible_names).
Proof. intro n. split.
  - intro H. unfold is_control_name in H.
    repeat (name_case H; [vm_compute; tauto|]). discriminate.
  - intro H. vm_compute in H. repeat (destruct H as [H|H]; [subst n; reflexivity|]). destruct H. Qed.
End D.

(* ---- option tables: options.go's specOpt* maps (Gen/Facts.opt_specs) against the model's ---- *)
Definition model_spec (g : string) : option spec :=
  if String.eqb g "specOptBd" then Some specOptBd else if String.eqb g "specOptBf" then Some specOptBf
  else if String.eqb g "specOptBl" then Some specOptBl else if String.eqb g "specOptBm" then Some specOptBm
  else if String.eqb g "specOptD" || String.eqb g "specOptEl" || String.eqb g "specOptIt" || String.eqb g "specOptP" || String.eqb g "specOptTa" then Some specOptNone
  else if String.eqb g "specOptDef" || String.eqb g "specOptDefVar" then Some specOptDef
  else if String.eqb g "specOptEd" then Some specOptEd else if String.eqb g "specOptEm" then Some specOptEm
  else if String.eqb g "specOptEf" then Some specOptEf else if String.eqb g "specOptFt" then Some specOptFt
  else if String.eqb g "specOptIf" then Some specOptIf else if String.eqb g "specOptIncludeFile" then Some specOptIncludeFile
  else if String.eqb g "specOptIm" then Some specOptIm else if String.eqb g "specOptLk" then Some specOptLk
  else if String.eqb g "specOptRun" then Some specOptRun else if String.eqb g "specOptSm" then Some specOptSm
  else if String.eqb g "specOptSx" then Some specOptSx else if String.eqb g "specOptTc" then Some specOptTc
  else if String.eqb g "specOptXdtag" then Some specOptXdtag else if String.eqb g "specOptXftag" then Some specOptXftag
  else if String.eqb g "specOptXmtag" then Some specOptXmtag else if String.eqb g "specOptXset" then Some specOptXset
  else if String.eqb g "specOptHeader" then Some specOptHeader
  else None.
(* same finite map: every Go entry is in the model's table with the same kind, and the tables have the same size without duplicates *)
Definition spec_agrees (go : list (string * bool)) (m : spec) : bool :=
  forallb (fun p => match assoc (runes (fst p)) m with Some k => Bool.eqb k (snd p) | None => false end) go &&
  Nat.eqb (List.length go) (List.length m) &&
  forallb (fun p => Nat.eqb (List.length (filter (fun q => str_eqb (fst q) (fst p)) m)) 1) m.
Theorem option_tables_agree :
  forallb (fun p => match model_spec (fst p) with Some m => spec_agrees (snd p) m | None => false end) Facts.opt_specs = true.
Proof. vm_compute. reflexivity. Qed.
(* and each handler hands ParseOptions a table that exists (the one user-macro call site computes its table from the definition) *)
Theorem parse_options_uses_known :
  forallb (fun p => String.eqb (snd p) "<computed>" || match model_spec (snd p) with Some _ => true | None => false end) Facts.parse_options_uses = true.
Proof. vm_compute. reflexivity. Qed.

(* ---- more constants of the source: parameter names, element tables, export formats, expansion limits ---- *)
Definition switch_of (f : string) : list (list string) :=
  match find (fun p => String.eqb (fst p) f) Facts.string_switches with Some p => snd p | None => [] end.
Theorem known_params_agree : nth_error (switch_of "frundis.macroXset") 0 = Some known_params /\ nth_error (switch_of "frundis.macroXset") 1 = Some rendered_params.
Proof. vm_compute. split; reflexivity. Qed.
Theorem element_tables_agree : switch_of "xhtml.Xdtag" = [flow_elems] /\ switch_of "xhtml.Xmtag" = [phrasing_elems].
Proof. vm_compute. split; reflexivity. Qed.
Theorem valid_formats_agree : Facts.valid_formats = valid_formats.
Proof. reflexivity. Qed.
Theorem expansion_limits_agree : N.of_nat max_macro_expansions = Facts.max_macro_expansions /\ N.of_nat max_macro_args_size = Facts.max_macro_args_size.
Proof. vm_compute. split; reflexivity. Qed.
