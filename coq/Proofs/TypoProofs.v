Require Import Typo.
From Coq Require Import List NArith Bool Lia.
Import ListNotations.
Open Scope N_scope.

Inductive atom := AChar (c : rune) | AEsc (e : str) | AOth (k : N) (s : str).
Definition atoms1 (i : inline) : list atom :=
  match i with IText t => map AChar t | IEsc e => [AEsc e] | IOther k s => [AOth k s] end.
Definition atoms (l : list inline) : list atom := flat_map atoms1 l.

(* out is obtained from src only by inserting no-break escapes and curling apostrophes *)
Inductive Embed : list atom -> list atom -> Prop :=
| E_nil : Embed [] []
| E_keep a s o : Embed s o -> Embed (a :: s) (a :: o)
| E_ins s o : Embed s o -> Embed s (AEsc TILDE :: o)
| E_apos s o : Embed s o -> Embed (AChar APOS :: s) (AChar RSQUO :: o).

Lemma Embed_refl s : Embed s s.
Proof. induction s; constructor; assumption. Qed.
Lemma Embed_app a b c d : Embed a b -> Embed c d -> Embed (a ++ c) (b ++ d).
Proof. induction 1 as [|x s o He IH|s o He IH|s o He IH]; intros Hcd; cbn [app]; try constructor; auto. Qed.

Lemma atoms_app a b : atoms (a ++ b) = atoms a ++ atoms b.
Proof. unfold atoms. apply flat_map_app. Qed.
Lemma atoms_flush s : atoms (flush_pend s) = map AChar (pend s).
Proof. unfold flush_pend. destruct (pend s); [reflexivity|]. cbn. rewrite app_nil_r. reflexivity. Qed.

Definition cur_atoms (s : fst_) : list atom := atoms (out s) ++ map AChar (pend s).

(* one rune: the new content is the old content followed by one of four shapes *)
Lemma french_rune_shape after s c nxt :
  exists X, cur_atoms (french_rune after s c nxt) = cur_atoms s ++ X /\ Embed [AChar c] X.
Proof.
  unfold french_rune, cur_atoms.
  destruct (is_mark c) eqn:Em.
  { destruct (esc s); cbn [out pend].
    - exists [AChar c]. rewrite map_app, app_assoc. split; [reflexivity| apply Embed_refl].
    - exists [AEsc TILDE; AChar c]. rewrite !atoms_app, atoms_flush. cbn. rewrite <- !app_assoc. split; [reflexivity|].
      apply E_ins, Embed_refl. }
  destruct (c =? NBSP) eqn:En.
  { cbn [out pend]. exists [AChar c]. rewrite map_app, app_assoc. split; [reflexivity| apply Embed_refl]. }
  destruct (c =? LGUIL) eqn:El.
  { assert (Hins : exists X, atoms (out s ++ [IText (pend s ++ [c]); IEsc TILDE]) ++ map AChar [] =
                            (atoms (out s) ++ map AChar (pend s)) ++ X /\ Embed [AChar c] X).
    { exists [AChar c; AEsc TILDE]. rewrite atoms_app. cbn. rewrite map_app, app_nil_r. cbn. rewrite <- !app_assoc.
      split; [reflexivity|]. apply E_keep, E_ins, E_nil. }
    assert (Hkeep : exists X, atoms (out s) ++ map AChar (pend s ++ [c]) = (atoms (out s) ++ map AChar (pend s)) ++ X /\ Embed [AChar c] X).
    { exists [AChar c]. rewrite map_app, app_assoc. split; [reflexivity| apply Embed_refl]. }
    destruct nxt as [r|].
    - destruct (r =? NBSP); cbn [out pend]; assumption.
    - destruct after; cbn [out pend]; assumption. }
  destruct (c =? APOS) eqn:Ea.
  { apply N.eqb_eq in Ea. subst c. destruct (esc s); cbn [out pend].
    - exists [AChar APOS]. rewrite map_app, app_assoc. split; [reflexivity| apply Embed_refl].
    - exists [AChar RSQUO]. rewrite !atoms_app, atoms_flush. cbn. rewrite app_nil_r, <- !app_assoc. split; [reflexivity|].
      apply E_apos, E_nil. }
  cbn [out pend]. exists [AChar c]. rewrite map_app, app_assoc. split; [reflexivity| apply Embed_refl].
Qed.

Lemma french_text_embed after t : forall s src,
  Embed src (cur_atoms s) -> Embed (src ++ map AChar t) (cur_atoms (french_text after s t)).
Proof.
  induction t as [|c r IH]; intros s src H; cbn [french_text map]; [rewrite app_nil_r; exact H|].
  destruct (french_rune_shape after s c (hd_error r)) as (X & HX & HE).
  change (AChar c :: map AChar r) with ([AChar c] ++ map AChar r). rewrite app_assoc.
  apply IH. rewrite HX. apply Embed_app; assumption.
Qed.

Lemma french_go_embed l : forall acc e n src,
  Embed src (atoms acc) -> Embed (src ++ atoms l) (atoms (fst (french_go l acc e n))).
Proof.
  induction l as [|i l IH]; intros acc e n src H; cbn [french_go]; [cbn; rewrite app_nil_r; exact H|].
  change (atoms (i :: l)) with (atoms1 i ++ atoms l). rewrite app_assoc.
  destruct i as [t|x|k x].
  - apply IH. rewrite atoms_app, atoms_flush.
    set (s0 := {| out := acc; pend := []; esc := e; spc := false; errs := n |}).
    change (atoms (out (french_text (classify l) s0 t)) ++ map AChar (pend (french_text (classify l) s0 t)))
      with (cur_atoms (french_text (classify l) s0 t)).
    apply french_text_embed. unfold cur_atoms, s0. cbn [out pend map]. rewrite app_nil_r. exact H.
  - apply IH. rewrite atoms_app. apply Embed_app; [exact H| apply Embed_refl].
  - apply IH. rewrite atoms_app. apply Embed_app; [exact H| apply Embed_refl].
Qed.

Theorem C20_french l : Embed (atoms l) (atoms (fst (french l))).
Proof. unfold french. apply (french_go_embed l [] false 0%nat []). constructor. Qed.

(* English *)
Lemma english_rune_shape s c : exists X, cur_atoms (english_rune s c) = cur_atoms s ++ X /\ Embed [AChar c] X.
Proof.
  unfold english_rune, cur_atoms. destruct (c =? APOS) eqn:Ea.
  - apply N.eqb_eq in Ea. subst c. destruct (esc s); cbn [out pend].
    + exists [AChar APOS]. rewrite map_app, app_assoc. split; [reflexivity| apply Embed_refl].
    + exists [AChar RSQUO]. rewrite !atoms_app, atoms_flush. cbn. rewrite app_nil_r, <- !app_assoc. split; [reflexivity|].
      apply E_apos, E_nil.
  - cbn [out pend]. exists [AChar c]. rewrite map_app, app_assoc. split; [reflexivity| apply Embed_refl].
Qed.
Lemma english_text_embed t : forall s src,
  Embed src (cur_atoms s) -> Embed (src ++ map AChar t) (cur_atoms (fold_left english_rune t s)).
Proof.
  induction t as [|c r IH]; intros s src H; cbn [fold_left map]; [rewrite app_nil_r; exact H|].
  destruct (english_rune_shape s c) as (X & HX & HE).
  change (AChar c :: map AChar r) with ([AChar c] ++ map AChar r). rewrite app_assoc.
  apply IH. rewrite HX. apply Embed_app; assumption.
Qed.
Lemma english_go_embed l : forall acc e src,
  Embed src (atoms acc) -> Embed (src ++ atoms l) (atoms (english_go l acc e)).
Proof.
  induction l as [|i l IH]; intros acc e src H; cbn [english_go]; [cbn; rewrite app_nil_r; exact H|].
  change (atoms (i :: l)) with (atoms1 i ++ atoms l). rewrite app_assoc.
  destruct i as [t|x|k x].
  - apply IH. rewrite atoms_app, atoms_flush.
    set (s0 := {| out := acc; pend := []; esc := e; spc := false; errs := 0 |}).
    change (atoms (out (fold_left english_rune t s0)) ++ map AChar (pend (fold_left english_rune t s0)))
      with (cur_atoms (fold_left english_rune t s0)).
    apply english_text_embed. unfold cur_atoms, s0. cbn [out pend map]. rewrite app_nil_r. exact H.
  - apply IH. rewrite atoms_app. apply Embed_app; [exact H| apply Embed_refl].
  - apply IH. rewrite atoms_app. apply Embed_app; [exact H| apply Embed_refl].
Qed.
Theorem C20_english l : Embed (atoms l) (atoms (english l)).
Proof. unfold english. apply (english_go_embed l [] false []). constructor. Qed.

Print Assumptions C20_french.
Print Assumptions C20_english.
