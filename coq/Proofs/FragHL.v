(* C04 (balance half) with headers and tables of contents: the sub-language of FragBL.v plus .Ch/.Pt/.Sh/.Ss and .Tc with any
   arguments; LaTeX, fragment mode.  The LaTeX exporter does not index the entries of pass 1, so no pass agreement is needed. *)
From Coq Require Import List NArith ZArith Bool Lia Arith String.
Import ListNotations.
Require Import Latex Exp Proc1 Proc2 Proc3 Ctl Loop Eqd Tok TokL Inv InvL EqFL InvIL Hdr FragBL.
Open Scope N_scope.
Arguments runL : simpl never.
Arguments rev : simpl never.
Arguments flat : simpl never.

Definition is_hdr (n : str) : bool := is_name n "Ch" || is_name n "Pt" || is_name n "Sh" || is_name n "Ss".
Definition in_fragHL (b : block) : Prop :=
  in_frag b \/ (exists n a l, b = BMacro n a l /\ is_hdr n = true) \/ (exists a l, b = BMacro (R "Tc") a l).

Lemma Side_change s s' : Side s -> mtags s' = mtags s -> inl s' = inl s -> asis s' = asis s -> ifdepth s' = ifdepth s -> udef s' = udef s ->
  umacros s' = umacros s -> bf s' = bf s -> dtags s' = dtags s -> verse s' = verse s -> format s' = format s -> mode s' = mode s ->
  panicked s' = panicked s -> ivars s' = ivars s -> params s' = params s ->
  lox_lof s' = lox_lof s -> lox_lot s' = lox_lot s -> lox_lop s' = lox_lop s -> Side s'.
Proof. intros [A1 A3 A4 A5 A6 A7 A8 A9 A10 A11 A12 A13 A14 A15 A18 A19 A20] E1 E3 E4 E5 E6 E7 E8 E9 E10 E11 E12 E13 E14 E15 E18 E19 E20.
  split; try congruence; try (unfold fmt in *; rewrite E11; exact A11); try (rewrite E1; exact A1). Qed.
Lemma P_change p s s' : P p s -> Side s' -> sblock s' = sblock s -> process s' = process s ->
  out s' = out s -> view s' = view s -> buf s' = buf s -> format s' = format s -> P p s'.
Proof. intros (HS & Hsb & Hpr & HI) HS' E1 E2 Eo Ev Eb Ef. split; [exact HS'|]. split; [rewrite E1; exact Hsb|]. split; [rewrite E2; exact Hpr|].
  intro Hp. apply (InvL_regs s); [exact Eo|exact Ev|exact Eb|exact Ef|exact (HI Hp)]. Qed.
Lemma opt_text_eqd n o s : snd (opt_text n o s) ~~ s.
Proof. unfold opt_text. destruct (opt n o); [apply inlines_text_eqd|reflexivity]. Qed.

Lemma digits_textualL x : forallb is_digit x = true -> textualL x.
Proof. induction x as [|c r IH]; intros H d; [reflexivity|]. cbn [forallb] in H. apply andb_true_iff in H as [H1 H2].
  unfold runL. cbn [fold_left lstep]. unfold is_digit in H1. apply andb_true_iff in H1 as [A B].
  assert (c <> 92 /\ c <> 123 /\ c <> 125) as (N1 & N2 & N3) by (apply N.leb_le in A, B; repeat split; lia).
  apply N.eqb_neq in N1, N2, N3. rewrite N1, N2, N3. apply (IH H2). Qed.
Lemma dec_textualL n : textualL (dec n). Proof. apply digits_textualL, dec_digit. Qed.
Lemma hname_textualL n : is_hdr n = true -> textualL (L.hname n).
Proof. unfold is_hdr. intro H. repeat (apply orb_true_iff in H as [H|H]); apply FuelProofs.str_eqb_eq in H; subst n; intro d; reflexivity. Qed.

Lemma macro_header_PL p s n : is_hdr n = true -> macro s = n -> has_cur s = true -> P p s -> P p (macro_header pim s).
Proof. intros Hn Hmac Hc HP. pose proof HP as (HS & Hsb & Hpr & HI).
  unfold macro_header.
  pose proof (parse_opts_eqd specOptHeader (args s) s) as E1.
  destruct (parse_opts specOptHeader (args s) s) as [o s1]. cbn [fst snd] in *.
  pose proof (P_eqd _ _ _ E1 HP) as HP1.
  assert (Hm1 : macro s1 = n) by (rewrite (eqd_get macro _ _ (fun _ => eq_refl) E1); exact Hmac).
  assert (Hpr1 : process s1 = p) by (apply HP1). rewrite Hpr1, Hm1.
  assert (Hc1 : has_cur s1 = true) by (rewrite (eqd_get has_cur _ _ (fun _ => eq_refl) E1); exact Hc).
  destruct (po_args o) as [|a0 al] eqn:Epo; [destruct p; [apply (P_eqd _ _ _ (err_eqd _ _) HP1)|exact HP1]|].
  set (nonum := flag "nonum" o).
  destruct p.
  - (* pass 2 *)
    destruct (close_unclosed_inline_P _ HP1) as [HPa Hsia].
    destruct (close_unclosed_block_P _ HPa) as (HPb & _ & Hsib & Hhcb & Hsbb). specialize (Hsib Hsia).
    destruct (end_par_P _ HPb Hsib) as (HP2 & Hp2 & Hsi2 & F2). cbv zeta in HP2, Hp2, Hsi2, F2.
    assert (Hc2 : has_cur (end_par PNormal (close_unclosed_block (close_unclosed_inline s1))) = true).
    { rewrite (eqf_get has_cur _ _ (fun _ => eq_refl) F2), Hhcb.
      rewrite (eqf_get has_cur _ _ (fun _ => eq_refl) (close_unclosed_inline_eqf _ (sd_fmt _ (proj1 HP1)) (sd_mk _ (proj1 HP1)))). exact Hc1. }
    set (s2 := end_par PNormal (close_unclosed_block (close_unclosed_inline s1))) in *. clearbody s2.
    pose proof HP2 as (HS2 & _ & Hpr2 & HI2). specialize (HI2 eq_refl).
    set (s3 := s2 <| toc ::= update_headers n nonum |>).
    assert (HS3 : Side s3) by (apply (Side_change s2 s3 HS2); reflexivity).
    assert (HP3 : P true s3) by (apply (P_change true s2 s3 HP2 HS3); reflexivity).
    assert (Hc3 : has_cur s3 = true) by exact Hc2.
    destruct (pim_spec (a0 :: al) s3 (sd_fmt _ HS3) (sd_asis _ HS3) (sd_inl _ HS3) (sd_mk _ HS3) (sd_bf _ HS3) Hc3) as (Ht & F4 & Ho4 & Hv4 & Hb4).
    destruct (pim (a0 :: al) s3) as [title s4]. cbn [fst snd] in *.
    assert (HP4 : P true s4) by (apply (P_same true s4 s3 F4 Ho4 Hv4 Hb4 HP3)).
    pose proof (opt_text_eqd "id" o s4) as E5. destruct (opt_text "id" o s4) as [idx s5]. cbn [snd] in E5.
    pose proof (P_eqd _ _ _ E5 HP4) as HP5.
    set (s7 := if str_eqb n (R "Ch") || str_eqb n (R "Pt") then s5 <| cidx := idx |> <| cid := idx |> else s5 <| cidx := idx |>).
    assert (HP7 : P true s7 /\ view s7 = view s2).
    { assert (Hv5 : view s5 = view s2) by (rewrite (view_eqd _ _ E5), Hv4; reflexivity).
      unfold s7. destruct (str_eqb n (R "Ch") || str_eqb n (R "Pt")); (split; [|exact Hv5]);
      (eapply (P_change true s5); [exact HP5|apply (Side_change s5 _ (proj1 HP5)); reflexivity|reflexivity..]). }
    destruct HP7 as (HP7 & Hv7).
    change (let s6 := s5 <| cidx := idx |> in
            let s7 := if str_eqb n (R "Ch") || str_eqb n (R "Pt") then s6 <| cid := idx |> else s6 in
            let s8 := w title (begin_header n (negb nonum) title s7) in end_header n (negb nonum) title (close_unclosed_inline s8))
      with (end_header n (negb nonum) title (close_unclosed_inline (w title (begin_header n (negb nonum) title s7)))).
    clearbody s7. pose proof HP7 as (HS7 & Hsb7 & Hpr7 & HI7). specialize (HI7 eq_refl).
    assert (Hp7 : par s7 = false) by (rewrite <- Hp2; exact (f_equal (fun v => fst (fst (fst (snd v)))) Hv7)).
    assert (Hsi7 : sinline s7 = []) by (rewrite <- Hsi2; exact (f_equal (fun v => snd (fst (snd v))) Hv7)).
    assert (Hb7 : buf s7 = []) by (apply (invl_buf _ HI7 Hp7)).
    unfold begin_header. rewrite (sd_fmt _ HS7). unfold L.begin_header.
    set (c1 := R "\" ++ L.hname n ++ (if negb nonum then [] else R "*") ++ R "{").
    assert (Hc1x : forall d, runL c1 (LTxt, d) = (LTxt, S d)).
    { intro d. unfold c1. change (R "\" ++ L.hname n ++ (if negb nonum then [] else R "*") ++ R "{") with (92 :: (L.hname n ++ (if negb nonum then [] else R "*") ++ R "{")).
      unfold is_hdr in Hn. repeat (apply orb_true_iff in Hn as [Hn|Hn]); apply FuelProofs.str_eqb_eq in Hn; subst n; destruct (negb nonum); reflexivity. }
    clearbody c1.
    set (s8 := w title (w c1 s7)).
    assert (F8 : s8 ~= s7) by (unfold s8; eapply eqf_trans; apply w_eqf).
    assert (Hsi8 : sinline s8 = []) by (unfold s8; change (sinline (w title (w c1 s7))) with (let '(_, _, _, (_, _, si, _)) := view (w title (w c1 s7)) in si); rewrite !view_w; exact Hsi7).
    assert (Ecl : close_unclosed_inline s8 = s8) by (unfold close_unclosed_inline; rewrite Hsi8; reflexivity). rewrite Ecl.
    unfold end_header. rewrite (fmt_eqf _ _ F8), (sd_fmt _ HS7). unfold L.end_header.
    set (c3 := R "}" ++ NLs ++ (if negb nonum then [] else R "\addcontentsline{toc}{" ++ L.hname n ++ R "}{" ++ title ++ R "}" ++ NLs) ++ R "\label{s:" ++ dec (hcount (toc s8)) ++ R "}" ++ NLs).
    assert (Hc3x : forall d, runL c3 (LTxt, S d) = (LTxt, d)).
    { intro d. unfold c3. destruct (negb nonum).
      - cbn [app]. rewrite runL_app. change (runL (R "}") (LTxt, S d)) with (LTxt, d).
        rewrite runL_app. change (runL NLs (LTxt, d)) with (LTxt, d).
        rewrite runL_app. change (runL (R "\label{s:") (LTxt, d)) with (LTxt, S d). rewrite runL_app, dec_textualL. reflexivity.
      - rewrite runL_app. change (runL (R "}") (LTxt, S d)) with (LTxt, d).
        rewrite runL_app. change (runL NLs (LTxt, d)) with (LTxt, d).
        rewrite <- !app_assoc.
        rewrite runL_app. change (runL (R "\addcontentsline{toc}{") (LTxt, d)) with (LTxt, S d).
        rewrite runL_app, (hname_textualL n Hn). rewrite runL_app. change (runL (R "}{") (LTxt, S d)) with (LTxt, S d). rewrite runL_app, Ht.
        rewrite runL_app. change (runL (R "}") (LTxt, S d)) with (LTxt, d). rewrite runL_app. change (runL NLs (LTxt, d)) with (LTxt, d).
        rewrite runL_app. change (runL (R "\label{s:") (LTxt, d)) with (LTxt, S d). rewrite runL_app, dec_textualL. reflexivity. }
    clearbody c3.
    set (sf := w c3 s8).
    assert (Ff : sf ~= s7) by (unfold sf; eapply eqf_trans; [apply w_eqf|exact F8]).
    split; [apply (Side_eqf _ _ Ff HS7)|]. split; [rewrite (eqf_get sblock _ _ (fun _ => eq_refl) Ff); exact Hsb7|].
    split; [rewrite (eqf_get process _ _ (fun _ => eq_refl) Ff); exact Hpr7|]. intros _.
    apply (InvL_step s7 _ (c1 ++ title ++ c3) HI7).
    + unfold sf, s8. rewrite !out_w; [rewrite <- !app_assoc; reflexivity|intros _; exact Hb7|apply bufc_w; intros _; exact Hb7|apply bufc_w, bufc_w; intros _; exact Hb7].
    + unfold depthL, sf, s8. rewrite !view_w, !runL_app, Hc1x, Ht. apply Hc3x.
    + unfold sf, s8. apply bufc_w, bufc_w, bufc_w. intros _. exact Hb7.
    + rewrite (fmt_eqf _ _ Ff). exact (sd_fmt _ HS7).
  - (* pass 1: counters, label, entries; nothing is written *)
    pose proof HP1 as (HS1 & Hsb1 & _ & _).
    set (s3 := if str_eqb n (R "Pt") then _ else _).
    assert (HP3 : P false s3 /\ has_cur s3 = true).
    { split; [|unfold s3; destruct (str_eqb n (R "Pt")); [|destruct (str_eqb n (R "Ch"))]; exact Hc1].
      split; [apply (Side_change s1 s3 HS1); unfold s3; destruct (str_eqb n (R "Pt")); try destruct (str_eqb n (R "Ch")); reflexivity|].
      split; [unfold s3; destruct (str_eqb n (R "Pt")); [|destruct (str_eqb n (R "Ch"))]; exact Hsb1|].
      split; [unfold s3; destruct (str_eqb n (R "Pt")); [|destruct (str_eqb n (R "Ch"))]; exact Hpr1|discriminate]. }
    destruct HP3 as [HP3 Hc3]. clearbody s3.
    pose proof (opt_text_eqd "id" o s3) as E4. destruct (opt_text "id" o s3) as [id s4]. cbn [snd] in E4.
    pose proof (P_eqd _ _ _ E4 HP3) as HP4.
    set (s6 := if str_eqb n (R "Ch") || str_eqb n (R "Pt") then s4 <| cidx := id |> <| cid := id |> else s4 <| cidx := id |>).
    assert (HP6 : P false s6 /\ has_cur s6 = true).
    { assert (Hc4 : has_cur s4 = true) by (rewrite (eqd_get has_cur _ _ (fun _ => eq_refl) E4); exact Hc3).
      unfold s6. destruct (str_eqb n (R "Ch") || str_eqb n (R "Pt")); (split; [|exact Hc4]);
      (eapply (P_change false s4); [exact HP4|apply (Side_change s4 _ (proj1 HP4)); reflexivity|reflexivity..]). }
    destruct HP6 as (HP6 & Hc6).
    change (let s5 := s4 <| cidx := id |> in
            let s6 := if str_eqb n (R "Ch") || str_eqb n (R "Pt") then s5 <| cid := id |> else s5 in _)
      with (let s6 := if (match fmt s6 with FX => true | _ => false end) && Xhtml.X.custom_ids s6 && negb (Xhtml.X.id_safe (cidx s6))
                      then err "id contains a markup character and cannot be used as custom id" s6 else s6 in
            let ref := header_reference s6 in let num := header_num (toc s6) n nonum in
            let s7 := match id with [] => s6 | _ => store_id id (mkId ref num 5) s6 end in
            let '(title, s8) := pim (a0 :: al) s7 in
            let e := mkLox (hcount (toc s8)) n nonum num ref (R "s") title id in
            let s9 := s8 <| lox_toc ::= fun l => l ++ [e] |> in
            if str_eqb n (R "Pt") || str_eqb n (R "Ch") then s9 <| lox_nav ::= fun l => l ++ [e] |> else s9).
    clearbody s6. cbv zeta.
    assert (Hcond : (match fmt s6 with FX => true | _ => false end) && Xhtml.X.custom_ids s6 && negb (Xhtml.X.id_safe (cidx s6)) = false)
      by (rewrite (sd_fmt _ (proj1 HP6)); reflexivity).
    rewrite Hcond. cbv iota.
    set (ref := header_reference s6). set (num := header_num (toc s6) n nonum).
    set (s7 := match id with [] => s6 | _ => store_id id (mkId ref num 5) s6 end).
    assert (F7 : s7 ~= s6) by (unfold s7; destruct id; [apply eqf_refl|apply store_id_eqf]).
    pose proof (Side_eqf _ _ F7 (proj1 HP6)) as HS7.
    assert (Hc7 : has_cur s7 = true) by (rewrite (eqf_get has_cur _ _ (fun _ => eq_refl) F7); exact Hc6).
    destruct (pim_spec (a0 :: al) s7 (sd_fmt _ HS7) (sd_asis _ HS7) (sd_inl _ HS7) (sd_mk _ HS7) (sd_bf _ HS7) Hc7) as (_ & F8 & _ & _ & _).
    destruct (pim (a0 :: al) s7) as [title s8]. cbn [fst snd] in *.
    assert (F86 : s8 ~= s6) by (eapply eqf_trans; [exact F8|exact F7]).
    pose proof (Side_eqf _ _ F86 (proj1 HP6)) as HS8.
    set (e := mkLox (hcount (toc s8)) n nonum num ref (R "s") title id).
    destruct (str_eqb n (R "Pt") || str_eqb n (R "Ch")).
    + split; [apply (Side_change s8 _ HS8); reflexivity|]. split; [cbn; rewrite (eqf_get sblock _ _ (fun _ => eq_refl) F86); apply HP6|].
      split; [cbn; rewrite (eqf_get process _ _ (fun _ => eq_refl) F86); apply HP6|discriminate].
    + split; [apply (Side_change s8 _ HS8); reflexivity|]. split; [cbn; rewrite (eqf_get sblock _ _ (fun _ => eq_refl) F86); apply HP6|].
      split; [cbn; rewrite (eqf_get process _ _ (fun _ => eq_refl) F86); apply HP6|discriminate].
Qed.

(* ---------- Tc ---------- *)
Lemma macro_tc_PL p s : P p s -> P p (macro_tc s).
Proof. intros HP. pose proof HP as (HS & Hsb & Hpr & HI).
  unfold macro_tc. rewrite Hpr. destruct p; cbn [negb]; [|exact HP].
  rewrite (sd_fmt _ HS).
  destruct (close_unclosed_inline_P _ HP) as [HP0 Hsi0].
  destruct (close_unclosed_block_P _ HP0) as (HP1 & _ & Hsi1' & _ & _). pose proof (Hsi1' Hsi0) as Hsi1.
  set (s1 := close_unclosed_block (close_unclosed_inline s)) in *. clearbody s1.
  pose proof (parse_opts_eqd specOptTc (args s1) s1) as E2.
  destruct (parse_opts specOptTc (args s1) s1) as [o s2]. cbn [fst snd] in *.
  assert (E2' : useless o s2 ~~ s1) by (unfold useless; destruct (po_args o); [exact E2|eapply eqd_trans; [apply err_eqd|exact E2]]).
  pose proof (P_eqd _ _ _ E2' HP1) as HP2.
  assert (Hsi2 : sinline (useless o s2) = []) by (rewrite (eqd_get sinline _ _ (fun _ => eq_refl) E2'); exact Hsi1).
  destruct (end_par_P _ HP2 Hsi2) as (HP3 & Hp3 & Hsi3 & F3). cbv zeta in HP3, Hp3, Hsi3, F3.
  set (s3 := end_par PNormal (useless o s2)) in *. clearbody s3.
  pose proof HP3 as (HS3 & Hsb3 & Hpr3 & HI3). specialize (HI3 eq_refl).
  set (n := List.length (filter (fun f => flag f o) ["toc"%string; "lof"%string; "lot"%string; "lop"%string])).
  set (o1 := if Nat.eqb n 0 then mkPo (po_opts o) (R "toc" :: po_flags o) (po_args o) else o). clearbody o1.
  assert (Hres : exists c, table_of_contents o1 s3 ~~ wl c s3 /\ textualL (flat c)).
  { unfold table_of_contents. rewrite (sd_fmt _ HS3). unfold L.table_of_contents.
    set (c0 := R "\setcounter{tocdepth}{" ++ (if flag "summary" o1 then R "0" else R "3") ++ R "}" ++ NLs).
    assert (Hc0 : textualL c0) by (unfold c0; destruct (flag "summary" o1); intro d; reflexivity).
    assert (H2 : forall x, textualL x -> textualL (flat [x; c0])) by (intros x Hx; unfold flat; cbn [fold_left]; rewrite !app_nil_r; apply textualL_app; [exact Hc0|exact Hx]).
    assert (H1 : textualL (flat [c0])) by (unfold flat; cbn [fold_left]; rewrite !app_nil_r; exact Hc0).
    destruct (flag "mini" o1).
    - destruct (flag "lof" o1); [|destruct (flag "lot" o1)]; (eexists [_; c0]; split; [apply eqd_refl|apply H2; intro d; reflexivity]).
    - destruct (flag "lof" o1); [eexists [_; c0]; split; [apply eqd_refl|apply H2; intro d; reflexivity]|].
      destruct (flag "lot" o1); [eexists [_; c0]; split; [apply eqd_refl|apply H2; intro d; reflexivity]|].
      destruct (flag "lop" o1); [exists [c0]; split; [apply err_eqd|exact H1]|].
      eexists [_; c0]; split; [apply eqd_refl|apply H2; intro d; reflexivity]. }
  assert (Hfin : exists c, (if Nat.ltb 1 n then err "only one of the -toc, -lof and -lot options should bet set" s3 else table_of_contents o1 s3) ~~ wl c s3 /\ textualL (flat c)).
  { destruct (Nat.ltb 1 n); [exists []; split; [apply err_eqd|intro; reflexivity]|exact Hres]. }
  destruct Hfin as (c & Ex & Hbc).
  apply (P_eqd _ _ _ Ex).
  assert (Ff : wl c s3 ~= s3) by apply wl_eqf.
  split; [apply (Side_eqf _ _ Ff HS3)|]. split; [rewrite (eqf_get sblock _ _ (fun _ => eq_refl) Ff); exact Hsb3|].
  split; [rewrite (eqf_get process _ _ (fun _ => eq_refl) Ff); exact Hpr3|]. intros _.
  assert (Hbx : par s3 = false -> buf s3 = []) by (apply HI3).
  apply (InvL_step s3 _ (flat c) HI3).
  - apply out_wl. exact Hbx.
  - unfold depthL. rewrite view_wl. apply Hbc.
  - apply bufc_wl. exact Hbx.
  - rewrite fmt_wl. exact (sd_fmt _ HS3).
Qed.

(* ---------- the dispatcher and the two passes ---------- *)
Lemma step_fragHL pb p b c s : in_fragHL b -> P p s -> P p (snd (step pb b (c, s))).
Proof. intros Hb HP. destruct Hb as [Hb | [(n & a & l & -> & Hn) | (a & l & ->)]]; [apply step_frag; assumption| |].
  - unfold step. cbv zeta.
    destruct (P_set_regs p (BMacro n a l) s HP) as [HP0 Hc0].
    set (s0 := set_regs (BMacro n a l) s) in *.
    pose proof HP0 as (HS0 & _).
    rewrite (sd_if _ HS0), (sd_udef _ HS0). cbn [Nat.ltb Nat.leb]. rewrite (sd_inl _ HS0), (sd_um _ HS0). cbn [assoc].
    assert (Ebf : bf_check n s0 = s0) by (unfold bf_check; rewrite (sd_bf _ HS0); reflexivity).
    assert (Ecb : control_builtin pb n = None /\ builtin n = Some (macro_header pim)).
    { unfold is_hdr in Hn. repeat (apply orb_true_iff in Hn as [Hn|Hn]); apply FuelProofs.str_eqb_eq in Hn; subst n; split; reflexivity. }
    destruct Ecb as [-> ->]. cbn [snd]. rewrite Ebf.
    apply P_after_handler, (macro_header_PL p s0 n Hn eq_refl Hc0 HP0).
  - unfold step. cbv zeta.
    destruct (P_set_regs p (BMacro (R "Tc") a l) s HP) as [HP0 Hc0].
    set (s0 := set_regs (BMacro (R "Tc") a l) s) in *.
    pose proof HP0 as (HS0 & _).
    rewrite (sd_if _ HS0), (sd_udef _ HS0). cbn [Nat.ltb Nat.leb]. rewrite (sd_inl _ HS0), (sd_um _ HS0). cbn [assoc].
    assert (Ebf : bf_check (R "Tc") s0 = s0) by (unfold bf_check; rewrite (sd_bf _ HS0); reflexivity).
    change (control_builtin pb (R "Tc")) with (@None (cst -> cst)). change (builtin (R "Tc")) with (Some macro_tc). cbn [snd]. rewrite Ebf.
    apply P_after_handler, macro_tc_PL. exact HP0.
Qed.

Theorem fragHL_invariant p : forall fuel bs cs, Forall in_fragHL bs -> P p (snd cs) -> P p (snd (run_blocks (S fuel) bs cs)).
Proof. intros f bs cs Hbs. cbn [run_blocks]. revert cs. induction Hbs as [|b rest Hb Hrest IHb]; intros cs HP; [exact HP|].
  cbn [walk]. destruct cs as [c s]. pose proof (step_fragHL (run_blocks f) p b c s Hb HP) as H1.
  rewrite (sd_np _ (proj1 H1)). apply IHb. exact H1. Qed.

Lemma P_start wd main : P false (start_st (R "latex") 0 wd main).
Proof. split; [split; try reflexivity; exact markup_okL_nil|]. split; [constructor|]. split; [reflexivity|discriminate]. Qed.
Lemma P_reset s : Side s -> P true (exp_reset (reset s)).
Proof. intro HS.
  assert (Hf : fmt (reset s) = FL) by (unfold fmt; change (format (reset s)) with (format s); exact (sd_fmt _ HS)).
  unfold exp_reset. rewrite Hf.
  split; [split; try reflexivity; [exact (sd_mk _ HS)|exact (sd_dt _ HS)|exact Hf|exact (sd_mode _ HS)|exact (sd_pa _ HS)|exact (sd_lof _ HS)|exact (sd_lot _ HS)|exact (sd_lop _ HS)]|].
  split; [constructor|]. split; [reflexivity|]. intros _. split; [reflexivity|reflexivity|exact Hf]. Qed.

Theorem C04_headers_balanced fuel wd main bs : Forall in_fragHL bs ->
  let s := snd (compile (S fuel) (R "latex") 0 wd main bs) in
  panicked s = None /\
  runL (flat (wout s)) (LTxt, 0%nat) = (LTxt, 0%nat) /\ In (curfile s, flat (wout s)) (files s).
Proof. intros Hbs. unfold compile.
  pose proof (fragHL_invariant false fuel bs (start_ctl wd main, start_st (R "latex") 0 wd main) Hbs (P_start wd main)) as H1.
  destruct (run_blocks (S fuel) bs (start_ctl wd main, start_st (R "latex") 0 wd main)) as [c1 s1]. cbn [snd] in H1.
  rewrite (sd_np _ (proj1 H1)).
  pose proof (fragHL_invariant true fuel bs (set_budget 0 false c1, exp_reset (reset s1)) Hbs (P_reset s1 (proj1 H1))) as H2.
  destruct (run_blocks (S fuel) bs (set_budget 0 false c1, exp_reset (reset s1))) as [c2 s2]. cbn [snd] in H2.
  rewrite (sd_np _ (proj1 H2)).
  destruct (eof_sweep_P s2 H2) as (HS & HI & Hp & Hsb). cbv zeta in HS, HI, Hp, Hsb. set (s7 := eof_sweep s2) in *. clearbody s7.
  assert (Epost : exp_post s7 = s7) by (unfold exp_post; rewrite (sd_fmt _ HS); reflexivity). rewrite Epost.
  cbn [snd]. change (wout (s7 <| files ::= fun l => l ++ [(curfile s7, flat (wout s7))] |>)) with (wout s7).
  split; [exact (sd_np _ HS)|]. split.
  - destruct HI as [A B C]. unfold out in A. rewrite (B Hp), flat_nil, app_nil_r in A. unfold depthL, view, depth_v in A. rewrite Hp in A. exact A.
  - change (files (s7 <| files ::= fun l => l ++ [(curfile s7, flat (wout s7))] |>)) with (files s7 ++ [(curfile s7, flat (wout s7))]).
    apply in_or_app. right. left. reflexivity.
Qed.
Print Assumptions C04_headers_balanced.

(* non-vacuity and agreement with computation on a concrete document *)
Definition ex_src := runes "a & b
.Ch First <chapter>
.Bd
.Bm
c <d>
.Sh -nonum A Bm section Em title
.Bd -id x
nested
.Em !
.P A <title> Bm with Em markup
new paragraph
.Sm strong <t> .
.Ed
said so, see
.Lk http://example.org/a?b={c&d ""the <site>"" .
.Lk http://example.org/x
.Ch
.Tc
.Tc -summary -title Contents -nonum
e
.Bm
left open
".
Definition ex_world := mkWorld [] [(R "m.frundis", ex_src)] [] false [(R "http://example.org/a?b={c&d", Some (R "http://example.org/a?b={c&d"))].
Example headersL_example :
  Forall in_fragHL (fst (parse ex_src)) /\
  (let s := compile_source (R "latex") 0 ex_world (R "m.frundis") in
   panicked s = None /\ flat (wout s) = runes "a \& b

\chapter{First <chapter>}
\label{s:1}
\emph{c <d>}

\section*{A \emph{section}title}
\addcontentsline{toc}{section}{A \emph{section}title}
\label{s:2}
\hypertarget{x}{}
nested

\paragraph{A <title> \emph{with}markup}
new paragraph
\emph{strong <t>}.

said so, see
\href{http://example.org/a?b=\%7Bc&d}{the <site>}.
\url{http://example.org/x}

\setcounter{tocdepth}{3}
\tableofcontents
\setcounter{tocdepth}{0}
\tableofcontents
e
\emph{left open}

").
Proof. split; [|vm_compute; split; reflexivity].
  vm_compute.
  repeat (apply Forall_cons; [first [left; first [exact I | left; reflexivity | right; left; reflexivity | right; right; left; reflexivity | right; right; right; left; reflexivity
    | right; right; right; right; left; reflexivity | right; right; right; right; right; left; reflexivity | right; right; right; right; right; right; left; reflexivity
    | right; right; right; right; right; right; right; reflexivity] | right; left; eexists _, _, _; split; reflexivity | right; right; eexists _, _; reflexivity]|]). apply Forall_nil. Qed.
