(* The nesting fuel of Model/Loop.run_blocks is never the reason for a result: with the code's own limits
   (43 levels of user macro calls, no file processed twice at once) the nesting of re-entrant calls is bounded
   by 43 + the number of files, and any larger fuel gives the same result (C16: recursion is always cut off
   by the code's diagnostics, never by the model's fuel). *)
From Coq Require Import List NArith ZArith Bool Lia Arith String.
Import ListNotations.
Require Import Exp Proc1 Proc2 Proc3 Ctl Loop.
Require PathClean.
Local Open Scope nat_scope.

(* ---- what a run leaves unchanged in the control state ---- *)
Definition ctl_frame (c c' : ctl) : Prop :=
  cdepth c' = cdepth c /\ incstack c' = incstack c /\ fs c' = fs c /\ libdirs c' = libdirs c.
Lemma frame_refl c : ctl_frame c c. Proof. repeat split. Qed.
Lemma frame_trans a b c : ctl_frame a b -> ctl_frame b c -> ctl_frame a c.
Proof. intros (A1 & A2 & A3 & A4) (B1 & B2 & B3 & B4). repeat split; congruence. Qed.
Lemma frame_budget n x c : ctl_frame c (set_budget n x c). Proof. repeat split. Qed.
Lemma frame_execs e c : ctl_frame c (set_execs e c). Proof. repeat split. Qed.
Ltac dif := match goal with |- context [if ?x then _ else _] => destruct x end.

Lemma shell_filter_frame cmd text c s : ctl_frame c (fst (snd (shell_filter cmd text (c, s)))).
Proof. unfold shell_filter. destruct (unrestricted c); cbn [negb]; [destruct (run_cmd cmd text); cbn; apply frame_execs | cbn; apply frame_refl]. Qed.
Lemma apply_filter_frame tag text c s r : apply_filter tag text (c, s) = Some r -> ctl_frame c (fst (snd r)).
Proof.
  unfold apply_filter. destruct (str_eqb tag _); [intros H; inversion H; cbn; apply frame_refl|].
  cbn [snd]. destruct (assoc tag (filters s)) as [[pairs|cmd]|]; intros H; inversion H; cbn [fst snd];
    [apply frame_refl | apply shell_filter_frame].
Qed.
Lemma macro_run_frame c s : ctl_frame c (fst (macro_run (c, s))).
Proof.
  unfold macro_run. destruct (process s); cbn [negb]; [|apply frame_refl].
  destruct (unrestricted c); cbn [negb]; [|apply frame_refl].
  destruct (parse_opts specOptRun (args s) s) as [o s1].
  match goal with |- context [fold_left ?f (po_args o) ([], s1)] => destruct (fold_left f (po_args o) ([], s1)) as [sargs s2] end.
  destruct sargs; [apply frame_refl|]. destruct (run_cmd _ _); cbn; apply frame_execs.
Qed.
Lemma macro_ef_frame c s : ctl_frame c (fst (macro_ef (c, s))).
Proof.
  unfold macro_ef. destruct (process s); cbn [negb]; [|apply frame_refl].
  destruct (parse_opts specOptEf (args s) s) as [o s1].
  destruct (bf (useless o s1)) as [b|]; [|apply frame_refl].
  destruct (bf_ignore b); [apply frame_refl|].
  destruct (bf_tag b) as [|t0 tr] eqn:Et.
  - cbn. repeat dif; apply frame_refl.
  - destruct (apply_filter (t0 :: tr) (raw (useless o s1)) (c, useless o s1)) as [[t [c' s']]|] eqn:Ea.
    + apply apply_filter_frame in Ea. cbn [fst snd] in *. repeat dif; exact Ea.
    + cbn. repeat dif; apply frame_refl.
Qed.
Lemma macro_ft_frame c s : ctl_frame c (fst (macro_ft (c, s))).
Proof.
  unfold macro_ft. destruct (process s); cbn [negb]; [|apply frame_refl].
  destruct (parse_opts specOptFt (args s) s) as [o s1].
  destruct (match opt "f" o with Some f => _ | None => (false, s1) end) as [skip s2].
  destruct skip; [apply frame_refl|].
  destruct (opt "f" o) as [f|], (opt "t" o) as [tg|]; try apply frame_refl.
  all: try (destruct (args_text (po_args o) _) as [x s']; apply frame_refl).
  all: destruct (inlines_text tg _) as [tag s'];
       (destruct (has_filter tag s');
        [ destruct (args_text (po_args o) s') as [x s''];
          destruct (apply_filter tag x (c, s'')) as [[t [c' s3]]|] eqn:Ea; [apply apply_filter_frame in Ea; exact Ea | apply frame_refl]
        | destruct (render_args (po_args o) _) as [y s'']; apply frame_refl ]).
Qed.

Definition frame_pb (pb : list block -> cst -> cst) : Prop := forall bs c s, ctl_frame c (fst (pb bs (c, s))).

Lemma macro_include_frame pb c s : frame_pb pb -> ctl_frame c (fst (macro_include pb (c, s))).
Proof.
  intros Hpb. unfold macro_include.
  destruct (parse_opts specOptIncludeFile (args s) s) as [o s1].
  destruct (match opt "f" o with Some f => _ | None => (false, s1) end) as [skip s2].
  destruct skip; [apply frame_refl|].
  destruct (po_args o) as [|a0 ar]; [apply frame_refl|].
  destruct (inlines_text a0 s2) as [name s3].
  destruct (flag "as-is" o).
  - destruct (process s3); cbn [negb]; [|apply frame_refl].
    destruct (fs_get name c); [|apply frame_refl].
    destruct (opt "t" o) as [tg|]; [|apply frame_refl].
    destruct (inlines_text tg _) as [tag s'].
    destruct (apply_filter tag s0 (c, s')) as [[t [c' s5]]|] eqn:Ea; [apply apply_filter_frame in Ea; exact Ea | apply frame_refl].
  - destruct (search_inc_file name c) as [path found].
    destruct found; cbn [negb]; [|apply frame_refl].
    destruct (existsb _ (incstack c)); [apply frame_refl|].
    destruct (fs_get path c); [|apply frame_refl].
    destruct (parse s0) as [bs e]. destruct e; [apply frame_refl|].
    match goal with |- context [pb bs (?c0, ?s0)] => pose proof (Hpb bs c0 s0) as H; destruct (pb bs (c0, s0)) as [c5 s5] end.
    cbn [fst] in *. destruct H as (H1 & H2 & H3 & H4). cbn in *. repeat split; cbn; congruence.
Qed.
Lemma user_macro_frame pb m n l c s : frame_pb pb -> ctl_frame c (fst (user_macro pb m n l (c, s))).
Proof.
  intros Hpb. unfold user_macro.
  destruct (Nat.ltb 42 (cdepth c)); [apply frame_refl|].
  destruct (Nat.leb max_macro_expansions (xcount c)); [apply frame_budget|].
  destruct (Nat.ltb max_macro_args_size _); [apply frame_budget|].
  destruct (parse_opts (um_opts m) _ _) as [o sa].
  destruct (if Nat.ltb 0 (um_argsc m) || um_list m || _ then _ else _) as [blocks sd].
  match goal with |- context [pb blocks (?c0, ?s0)] => pose proof (Hpb blocks c0 s0) as H; destruct (pb blocks (c0, s0)) as [cf sf] end.
  cbn [fst] in H. destruct H as (H1 & H2 & H3 & H4). cbn in H1, H2, H3, H4.
  dif; cbn [fst]; repeat split; cbn; try congruence; rewrite H1; reflexivity.
Qed.
Lemma step_frame pb b c s : frame_pb pb -> ctl_frame c (fst (step pb b (c, s))).
Proof.
  intros Hpb. unfold step.
  destruct (Nat.ltb 0 (ifdepth (set_regs b s))); [apply frame_refl|].
  destruct (udef (set_regs b s)); [apply frame_refl|].
  destruct b as [n a l|t l]; [|apply frame_refl].
  destruct (if inl _ then None else assoc n _) as [m|]; [apply user_macro_frame; exact Hpb|].
  unfold control_builtin.
  destruct (is_name n "Ef").
  { pose proof (macro_ef_frame c (bf_check n (set_regs (BMacro n a l) s))) as H. destruct (macro_ef _) as [c1 s1]. exact H. }
  destruct (is_name n "Ft").
  { pose proof (macro_ft_frame c (bf_check n (set_regs (BMacro n a l) s))) as H. destruct (macro_ft _) as [c1 s1]. exact H. }
  destruct (is_name n "If").
  { pose proof (macro_include_frame pb c (bf_check n (set_regs (BMacro n a l) s)) Hpb) as H. destruct (macro_include _ _) as [c1 s1]. exact H. }
  destruct (is_name n "#run").
  { pose proof (macro_run_frame c (bf_check n (set_regs (BMacro n a l) s))) as H. destruct (macro_run _) as [c1 s1]. exact H. }
  destruct (builtin n); apply frame_refl.
Qed.
Lemma walk_frame pb : frame_pb pb -> frame_pb (walk pb).
Proof.
  intros Hpb bs. induction bs as [|b rest IH]; intros c s; [apply frame_refl|].
  cbn [walk]. pose proof (step_frame pb b c s Hpb) as H. destruct (step pb b (c, s)) as [c1 s1]. cbn [fst snd] in *.
  destruct (panicked s1); [exact H|]. eapply frame_trans; [exact H| apply IH].
Qed.
Theorem run_blocks_frame : forall d, frame_pb (run_blocks d).
Proof. induction d as [|d IH]; [intros bs c s; apply frame_refl | cbn [run_blocks]; apply walk_frame; exact IH]. Qed.

(* ---- enough fuel ---- *)
Lemma str_eqb_eq : forall a b, str_eqb a b = true -> a = b.
Proof.
  induction a as [|x a IH]; destruct b as [|y b]; cbn; try discriminate; [reflexivity|].
  intros H. apply andb_true_iff in H as [H1 H2]. apply N.eqb_eq in H1. rewrite (IH b H2), H1. reflexivity.
Qed.
Lemma str_eqb_refl : forall a, str_eqb a a = true.
Proof. induction a as [|x a IH]; cbn; [reflexivity|]. rewrite N.eqb_refl, IH. reflexivity. Qed.
Lemma assoc_in {A} (k : str) (m : list (str * A)) v : assoc k m = Some v -> In k (map fst m).
Proof.
  induction m as [|[k' v'] m IH]; cbn; [discriminate|].
  destruct (str_eqb k k') eqn:E; [intros _; left; symmetry; apply str_eqb_eq; exact E | intros H; right; apply IH; exact H].
Qed.
Lemma existsb_false_notin k l : existsb (str_eqb k) l = false -> ~ In k l.
Proof.
  induction l as [|x l IH]; cbn; [tauto|]. intros H. apply orb_false_iff in H as [H1 H2].
  intros [->|Hin]; [rewrite str_eqb_refl in H1; discriminate | exact (IH H2 Hin)].
Qed.

Lemma NoDup_snoc {A} (l : list A) x : NoDup l -> ~ In x l -> NoDup (l ++ [x]).
Proof.
  intros Hn Hx. apply NoDup_rev in Hn. rewrite <- (rev_involutive (l ++ [x])). apply NoDup_rev.
  rewrite rev_app_distr. cbn. constructor; [rewrite <- in_rev; exact Hx | exact Hn].
Qed.
Definition CInv (c : ctl) : Prop := NoDup (incstack c) /\ incl (incstack c) (map fst (fs c)) /\ cdepth c <= 43.
(* room left for re-entrant calls *)
Definition avail (c : ctl) : nat := (43 - cdepth c) + (List.length (fs c) - List.length (incstack c)).
Lemma CInv_len c : CInv c -> List.length (incstack c) <= List.length (fs c).
Proof. intros (Hn & Hi & _). rewrite <- (map_length fst (fs c)). apply NoDup_incl_length; assumption. Qed.
Lemma CInv_frame c c' : ctl_frame c c' -> CInv c -> CInv c'.
Proof. intros (H1 & H2 & H3 & _) (A & B & C). unfold CInv. rewrite H1, H2, H3. auto. Qed.
Lemma avail_frame c c' : ctl_frame c c' -> avail c' = avail c.
Proof. intros (H1 & H2 & H3 & _). unfold avail. rewrite H1, H2, H3. reflexivity. Qed.

Lemma avail_push c x : List.length (incstack c) < List.length (fs c) -> S (avail (set_incstack (incstack c ++ [x]) c)) = avail c.
Proof. intros H. unfold avail, set_incstack. cbn [cdepth incstack fs]. rewrite app_length. cbn [List.length]. lia. Qed.
Lemma avail_call c : cdepth c <= 42 -> S (avail (set_cdepth (S (cdepth c)) c)) = avail c.
Proof. intros H. unfold avail, set_cdepth. cbn [cdepth incstack fs]. lia. Qed.

(* two recursive entries that agree wherever there is less room *)
Definition agree_below (k : nat) (pb1 pb2 : list block -> cst -> cst) : Prop :=
  forall bs c s, CInv c -> avail c < k -> pb1 bs (c, s) = pb2 bs (c, s).

Lemma macro_include_agree k pb1 pb2 c s : CInv c -> avail c <= k -> agree_below k pb1 pb2 ->
  macro_include pb1 (c, s) = macro_include pb2 (c, s).
Proof.
  intros Hinv Hk Hag. unfold macro_include.
  destruct (parse_opts specOptIncludeFile (args s) s) as [o s1].
  destruct (match opt "f" o with Some f => _ | None => (false, s1) end) as [skip s2].
  destruct skip; [reflexivity|].
  destruct (po_args o) as [|a0 ar]; [reflexivity|].
  destruct (inlines_text a0 s2) as [name s3].
  destruct (flag "as-is" o); [reflexivity|].
  destruct (search_inc_file name c) as [path found].
  destruct found; cbn [negb]; [|reflexivity].
  destruct (existsb _ (incstack c)) eqn:Ex; [reflexivity|].
  destruct (fs_get path c) eqn:Eg; [|reflexivity].
  destruct (parse s0) as [bs e]. destruct e; [reflexivity|].
  rewrite (Hag bs); [reflexivity| |].
  - destruct Hinv as (Hn & Hi & Hd). unfold CInv. cbn.
    apply existsb_false_notin in Ex. unfold fs_get in Eg. apply assoc_in in Eg.
    split; [|split; [|exact Hd]].
    + apply NoDup_snoc; assumption.
    + intros x Hx. apply in_app_or in Hx as [Hx|[<-|[]]]; [apply Hi; exact Hx | exact Eg].
  - apply existsb_false_notin in Ex. unfold fs_get in Eg. apply assoc_in in Eg.
    assert (Hlt : List.length (incstack c) < List.length (fs c)).
    { destruct Hinv as (Hn & Hi & _). rewrite <- (map_length fst (fs c)).
      assert (Hn' : NoDup (PathClean.clean path :: incstack c)) by (constructor; assumption).
      assert (Hi' : incl (PathClean.clean path :: incstack c) (map fst (fs c))) by (intros x [<-|Hx]; [exact Eg | apply Hi; exact Hx]).
      pose proof (NoDup_incl_length Hn' Hi') as H. unfold lt. exact H. }
    pose proof (avail_push c (PathClean.clean path) Hlt) as Hp.
    apply Nat.lt_le_trans with (avail c); [|exact Hk]. rewrite <- Hp. apply Nat.lt_succ_diag_r.
Qed.

Lemma user_macro_agree k pb1 pb2 m n l c s : CInv c -> avail c <= k -> agree_below k pb1 pb2 ->
  user_macro pb1 m n l (c, s) = user_macro pb2 m n l (c, s).
Proof.
  intros Hinv Hk Hag. unfold user_macro.
  destruct (Nat.ltb 42 (cdepth c)) eqn:Ed; [reflexivity|]. apply Nat.ltb_ge in Ed.
  destruct (Nat.leb max_macro_expansions (xcount c)); [reflexivity|].
  destruct (Nat.ltb max_macro_args_size _); [reflexivity|].
  destruct (parse_opts (um_opts m) _ _) as [o sa].
  destruct (if Nat.ltb 0 (um_argsc m) || um_list m || _ then _ else _) as [blocks sd].
  rewrite (Hag blocks); [reflexivity| |].
  - destruct Hinv as (Hn & Hi & Hd). unfold CInv. cbn. repeat split; try assumption. lia.
  - pose proof (avail_call (set_budget (S (xcount c)) (xexh c) c)) as Hp. cbn [cdepth set_budget] in Hp. specialize (Hp Ed).
    apply Nat.lt_le_trans with (avail c); [|exact Hk].
    change (avail (set_budget (S (xcount c)) (xexh c) c)) with (avail c) in Hp. rewrite <- Hp. apply Nat.lt_succ_diag_r.
Qed.

Lemma step_agree k pb1 pb2 b c s : CInv c -> avail c <= k -> agree_below k pb1 pb2 -> step pb1 b (c, s) = step pb2 b (c, s).
Proof.
  intros Hinv Hk Hag. unfold step.
  destruct (Nat.ltb 0 (ifdepth (set_regs b s))); [reflexivity|].
  destruct (udef (set_regs b s)); [reflexivity|].
  destruct b as [n a l|t l]; [|reflexivity].
  destruct (if inl _ then None else assoc n _) as [m|]; [apply (user_macro_agree k); assumption|].
  unfold control_builtin.
  destruct (is_name n "Ef"); [reflexivity|]. destruct (is_name n "Ft"); [reflexivity|].
  destruct (is_name n "If"); [|reflexivity].
  rewrite (macro_include_agree k pb1 pb2); [reflexivity|assumption..].
Qed.

Lemma walk_agree k pb1 pb2 : frame_pb pb1 -> agree_below k pb1 pb2 ->
  forall bs c s, CInv c -> avail c <= k -> walk pb1 bs (c, s) = walk pb2 bs (c, s).
Proof.
  intros Hf Hag bs. induction bs as [|b rest IH]; intros c s Hinv Hk; [reflexivity|].
  cbn [walk]. rewrite <- (step_agree k pb1 pb2 b c s Hinv Hk Hag).
  pose proof (step_frame pb1 b c s Hf) as Hfr. destruct (step pb1 b (c, s)) as [c1 s1]. cbn [fst snd] in *.
  destruct (panicked s1); [reflexivity|].
  apply IH; [eapply CInv_frame; eassumption | rewrite (avail_frame c c1 Hfr); exact Hk].
Qed.

(* with room [avail c] left, any fuel above it gives the same result *)
Theorem fuel_enough : forall d d' bs c s, CInv c -> avail c < d -> d <= d' -> run_blocks d' bs (c, s) = run_blocks d bs (c, s).
Proof.
  induction d as [|d IH]; intros d' bs c s Hinv Hav Hle; [lia|].
  destruct d' as [|d']; [lia|]. cbn [run_blocks].
  apply (walk_agree d); [apply run_blocks_frame | | exact Hinv | lia].
  intros bs0 c0 s0 Hinv0 Hav0. apply IH; [exact Hinv0 | exact Hav0 | lia].
Qed.
Print Assumptions fuel_enough.

(* the start of a compilation: one file on the stack, which is a file of the world *)
Lemma start_CInv wd main src : assoc main (w_fs wd) = Some src -> PathClean.clean main = main -> CInv (start_ctl wd main).
Proof.
  intros Hm Hc. unfold CInv, start_ctl. cbn. rewrite Hc. repeat split.
  - constructor; [intros []|constructor].
  - intros x [<-|[]]. eapply assoc_in; exact Hm.
  - lia.
Qed.
Lemma start_avail wd main : avail (start_ctl wd main) < nesting_fuel wd.
Proof. unfold avail, start_ctl, nesting_fuel. cbn. lia. Qed.

(* a whole compilation: the fuel chosen by compile_source is enough, any larger one gives the same result *)
Theorem compile_fuel_independent : forall fmtname md wd main src bs d,
  assoc main (w_fs wd) = Some src -> PathClean.clean main = main -> nesting_fuel wd <= d ->
  compile d fmtname md wd main bs = compile (nesting_fuel wd) fmtname md wd main bs.
Proof.
  intros fmtname md wd main src bs d Hm Hc Hd. unfold compile.
  pose proof (start_CInv wd main src Hm Hc) as Hinv. pose proof (start_avail wd main) as Hav.
  rewrite (fuel_enough (nesting_fuel wd) d bs _ _ Hinv Hav Hd).
  pose proof (run_blocks_frame (nesting_fuel wd) bs (start_ctl wd main) (start_st fmtname md wd main)) as Hfr.
  destruct (run_blocks (nesting_fuel wd) bs (start_ctl wd main, start_st fmtname md wd main)) as [c1 s1]. cbn [fst] in Hfr.
  destruct (panicked s1); [reflexivity|].
  assert (Hfr2 : ctl_frame (start_ctl wd main) (set_budget 0 false c1)) by (eapply frame_trans; [exact Hfr| apply frame_budget]).
  rewrite (fuel_enough (nesting_fuel wd) d bs (set_budget 0 false c1) _); [reflexivity| eapply CInv_frame; eassumption | rewrite (avail_frame _ _ Hfr2); exact Hav | exact Hd].
Qed.
Print Assumptions compile_fuel_independent.

(* the expansion budget: never more than max_macro_expansions expansions counted *)
Definition budget_ok (c : ctl) : Prop := xcount c <= max_macro_expansions.
Definition budget_pb (pb : list block -> cst -> cst) : Prop := forall bs c s, budget_ok c -> budget_ok (fst (pb bs (c, s))).
Lemma shell_filter_budget cmd text c s : xcount (fst (snd (shell_filter cmd text (c, s)))) = xcount c.
Proof. unfold shell_filter. destruct (unrestricted c); cbn [negb]; [destruct (run_cmd cmd text)|]; reflexivity. Qed.
Lemma apply_filter_budget tag text c s r : apply_filter tag text (c, s) = Some r -> xcount (fst (snd r)) = xcount c.
Proof.
  unfold apply_filter. destruct (str_eqb tag _); [intros H; inversion H; reflexivity|].
  cbn [snd]. destruct (assoc tag (filters s)) as [[pairs|cmd]|]; intros H; inversion H; cbn [fst snd]; [reflexivity| apply shell_filter_budget].
Qed.

(* relational form: a run keeps the counter within the budget *)
Definition bud (c c' : ctl) : Prop := budget_ok c -> budget_ok c'.
Lemma bud_refl c : bud c c. Proof. intro H; exact H. Qed.
Lemma bud_trans a b c : bud a b -> bud b c -> bud a c. Proof. unfold bud; auto. Qed.
Lemma bud_same c c' : xcount c' = xcount c -> bud c c'. Proof. unfold bud, budget_ok. intros ->. auto. Qed.
Definition bud_pb (pb : list block -> cst -> cst) : Prop := forall bs c s, bud c (fst (pb bs (c, s))).

Lemma macro_run_bud c s : bud c (fst (macro_run (c, s))).
Proof.
  unfold macro_run. destruct (process s); cbn [negb]; [|apply bud_refl].
  destruct (unrestricted c) eqn:E; cbn [negb]; [|apply bud_refl].
  destruct (parse_opts specOptRun (args s) s) as [o s1].
  match goal with |- context [fold_left ?f (po_args o) ([], s1)] => destruct (fold_left f (po_args o) ([], s1)) as [sargs s2] end.
  destruct sargs; [apply bud_refl|].
  destruct (run_cmd _ _); apply bud_same; reflexivity.
Qed.
Lemma macro_ef_bud c s : bud c (fst (macro_ef (c, s))).
Proof.
  unfold macro_ef. destruct (process s); cbn [negb]; [|apply bud_refl].
  destruct (parse_opts specOptEf (args s) s) as [o s1].
  destruct (bf (useless o s1)) as [b|]; [|apply bud_refl].
  destruct (bf_ignore b); [apply bud_refl|].
  destruct (bf_tag b) as [|t0 tr] eqn:Et.
  - cbn. repeat dif; apply bud_refl.
  - destruct (apply_filter (t0 :: tr) (raw (useless o s1)) (c, useless o s1)) as [[t [c' s']]|] eqn:Ea.
    + apply apply_filter_budget in Ea. cbn [fst snd] in *. repeat dif; apply bud_same; exact Ea.
    + cbn. repeat dif; apply bud_refl.
Qed.
Lemma macro_ft_bud c s : bud c (fst (macro_ft (c, s))).
Proof.
  unfold macro_ft. destruct (process s); cbn [negb]; [|apply bud_refl].
  destruct (parse_opts specOptFt (args s) s) as [o s1].
  destruct (match opt "f" o with Some f => _ | None => (false, s1) end) as [skip s2].
  destruct skip; [apply bud_refl|].
  destruct (opt "f" o) as [f|], (opt "t" o) as [tg|]; try apply bud_refl.
  all: try (destruct (args_text (po_args o) _) as [x s']; apply bud_refl).
  all: destruct (inlines_text tg _) as [tag s'];
       (destruct (has_filter tag s');
        [ destruct (args_text (po_args o) s') as [x s''];
          destruct (apply_filter tag x (c, s'')) as [[t [c' s3]]|] eqn:Ea; [apply apply_filter_budget in Ea; apply bud_same; exact Ea | apply bud_refl]
        | destruct (render_args (po_args o) _) as [y s'']; apply bud_refl ]).
Qed.
Lemma macro_include_bud pb c s : bud_pb pb -> bud c (fst (macro_include pb (c, s))).
Proof.
  intros Hpb. unfold macro_include.
  destruct (parse_opts specOptIncludeFile (args s) s) as [o s1].
  destruct (match opt "f" o with Some f => _ | None => (false, s1) end) as [skip s2].
  destruct skip; [apply bud_refl|].
  destruct (po_args o) as [|a0 ar]; [apply bud_refl|].
  destruct (inlines_text a0 s2) as [name s3].
  destruct (flag "as-is" o).
  - destruct (process s3); cbn [negb]; [|apply bud_refl].
    destruct (fs_get name c); [|apply bud_refl].
    destruct (opt "t" o) as [tg|]; [|apply bud_refl].
    destruct (inlines_text tg _) as [tag s'].
    destruct (apply_filter tag s0 (c, s')) as [[t [c' s5]]|] eqn:Ea; [apply apply_filter_budget in Ea; apply bud_same; exact Ea | apply bud_refl].
  - destruct (search_inc_file name c) as [path found].
    destruct found; cbn [negb]; [|apply bud_refl].
    destruct (existsb _ (incstack c)); [apply bud_refl|].
    destruct (fs_get path c); [|apply bud_refl].
    destruct (parse s0) as [bs e]. destruct e; [apply bud_refl|].
    match goal with |- context [pb bs (?c0, ?s0)] => pose proof (Hpb bs c0 s0) as H; destruct (pb bs (c0, s0)) as [c5 s5] end.
    cbn [fst] in *. intro Hc. apply H. exact Hc.
Qed.
(* the call itself: beyond the budget the body is not run at all; within it one more expansion is counted *)
Lemma user_macro_refused pb m n l c s : cdepth c <= 42 -> max_macro_expansions <= xcount c ->
  user_macro pb m n l (c, s) =
  (set_budget (xcount c) true c, if process s && negb (xexh c) then err "recursive macro: too many expansions" s else s).
Proof.
  intros Hd Hx. unfold user_macro.
  assert (E1 : Nat.ltb 42 (cdepth c) = false) by (apply Nat.ltb_ge; exact Hd). rewrite E1.
  assert (E2 : Nat.leb max_macro_expansions (xcount c) = true) by (apply Nat.leb_le; exact Hx). rewrite E2. reflexivity.
Qed.
Lemma user_macro_bud pb m n l c s : bud_pb pb -> bud c (fst (user_macro pb m n l (c, s))).
Proof.
  intros Hpb. unfold user_macro.
  destruct (Nat.ltb 42 (cdepth c)); [apply bud_refl|].
  destruct (Nat.leb max_macro_expansions (xcount c)) eqn:Ex; [apply bud_same; reflexivity|].
  apply Nat.leb_gt in Ex.
  assert (Hs : budget_ok (set_budget (S (xcount c)) (xexh c) c)) by (unfold budget_ok; change (S (xcount c) <= max_macro_expansions); exact Ex).
  destruct (Nat.ltb max_macro_args_size _); [intros _; exact Hs|].
  destruct (parse_opts (um_opts m) _ _) as [o sa].
  destruct (if Nat.ltb 0 (um_argsc m) || um_list m || _ then _ else _) as [blocks sd].
  match goal with |- context [pb blocks (?c0, ?s0)] => pose proof (Hpb blocks c0 s0) as H; destruct (pb blocks (c0, s0)) as [cf sf] end.
  cbn [fst] in H. intros _.
  assert (Hf : budget_ok cf) by (apply H; exact Hs).
  dif; cbn [fst]; unfold budget_ok in *; [change (0 <= max_macro_expansions); apply Nat.le_0_l | exact Hf].
Qed.
Lemma step_bud pb b c s : bud_pb pb -> bud c (fst (step pb b (c, s))).
Proof.
  intros Hpb. unfold step.
  destruct (Nat.ltb 0 (ifdepth (set_regs b s))); [apply bud_refl|].
  destruct (udef (set_regs b s)); [apply bud_refl|].
  destruct b as [n a l|t l]; [|apply bud_refl].
  destruct (if inl _ then None else assoc n _) as [m|]; [apply user_macro_bud; exact Hpb|].
  unfold control_builtin.
  destruct (is_name n "Ef").
  { pose proof (macro_ef_bud c (bf_check n (set_regs (BMacro n a l) s))) as H. destruct (macro_ef _) as [c1 s1]. exact H. }
  destruct (is_name n "Ft").
  { pose proof (macro_ft_bud c (bf_check n (set_regs (BMacro n a l) s))) as H. destruct (macro_ft _) as [c1 s1]. exact H. }
  destruct (is_name n "If").
  { pose proof (macro_include_bud pb c (bf_check n (set_regs (BMacro n a l) s)) Hpb) as H. destruct (macro_include _ _) as [c1 s1]. exact H. }
  destruct (is_name n "#run").
  { pose proof (macro_run_bud c (bf_check n (set_regs (BMacro n a l) s))) as H. destruct (macro_run _) as [c1 s1]. exact H. }
  destruct (builtin n); apply bud_refl.
Qed.
Lemma walk_bud pb : bud_pb pb -> bud_pb (walk pb).
Proof.
  intros Hpb bs. induction bs as [|b rest IH]; intros c s; [apply bud_refl|].
  cbn [walk]. pose proof (step_bud pb b c s Hpb) as H. destruct (step pb b (c, s)) as [c1 s1]. cbn [fst snd] in *.
  destruct (panicked s1); [exact H|]. eapply bud_trans; [exact H| apply IH].
Qed.
Theorem run_blocks_budget : forall d, bud_pb (run_blocks d).
Proof. induction d as [|d IH]; [intros bs c s; apply bud_refl | cbn [run_blocks]; apply walk_bud; exact IH]. Qed.
Print Assumptions run_blocks_budget.

(* an include line naming a file that is being processed (whatever the spelling of its path) does not re-enter the loop:
   for ANY recursive entry pb the result is the same, namely the control state unchanged and a diagnostic *)
Theorem include_cycle_is_refused pb c s o s1 a0 ar name s3 path :
  parse_opts specOptIncludeFile (args s) s = (o, s1) -> opt "f" o = None -> po_args o = a0 :: ar ->
  inlines_text a0 s1 = (name, s3) -> flag "as-is" o = false ->
  search_inc_file name c = (path, true) ->
  existsb (str_eqb (PathClean.clean path)) (incstack c) = true ->
  macro_include pb (c, s) = (c, if process s3 then err "recursive inclusion" s3 else s3).
Proof.
  intros Ho Hf Ha Hn Has Hs Hcyc. unfold macro_include. rewrite Ho, Hf, Ha, Hn, Has, Hs. cbn [negb]. rewrite Hcyc. reflexivity.
Qed.
Print Assumptions include_cycle_is_refused.
