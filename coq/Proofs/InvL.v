(* C04, balance half: the open-group invariant of the LaTeX exporter, stated on the bytes the model writes.
   [depthL s] is the number of brace groups the processor state says are open (inline markup scopes inside a paragraph);
   [InvL s] says the brace machine of TokL.v, run over everything written so far, is in text mode at exactly that depth. *)
From Coq Require Import List NArith Bool Lia Arith String.
Import ListNotations.
Require Import Latex Exp Proc1 Proc2 Eqd Tok TokL Inv.
Open Scope N_scope.
Arguments flat : simpl never.
Arguments runL : simpl never.

Definition depth_v (v : list scope * list (str * dtag) * bool * (bool * bool * list scope * list (str * mtag))) : nat :=
  let '(_, _, _, (p, _, si, _)) := v in if p then List.length si else 0%nat.
Definition depthL (s : st) : nat := depth_v (view s).

Record InvL (s : st) : Prop := {
  invl_run : runL (out s) (LTxt, 0%nat) = (LTxt, depthL s);
  invl_buf : par s = false -> buf s = [];
  invl_fmt : fmt s = FL;
}.

Definition escapedL (x : str) := exists t, x = latex_escape t.
Definition markup_okL (mt : list (str * mtag)) : Prop :=
  forall tag id, escapedL id ->
    (exists x, (forall s, mtags s = mt -> L.begin_markup_block tag id s = w x s) /\ open_group x) /\
    (forall punct, textualL punct ->
       exists x, (forall s, mtags s = mt -> L.end_markup_block tag punct s = w x s) /\ close_group x).

Lemma InvL_eqd a b : a ~~ b -> InvL b -> InvL a.
Proof. intros H [H1 H2 H3]. split.
  - unfold depthL. rewrite (out_eqd _ _ H), (view_eqd _ _ H). exact H1.
  - rewrite (eqd_get par _ _ (fun _ => eq_refl) H), (eqd_get buf _ _ (fun _ => eq_refl) H). exact H2.
  - rewrite (fmt_eqd _ _ H). exact H3. Qed.
Lemma InvL_step s s' x : InvL s -> out s' = out s ++ x -> runL x (LTxt, depthL s) = (LTxt, depthL s') ->
  (par s' = false -> buf s' = []) -> fmt s' = FL -> InvL s'.
Proof. intros [H1 H2 H3] Ho Hr Hb Hf. split; [|exact Hb|exact Hf]. rewrite Ho, runL_app, H1. exact Hr. Qed.
Lemma InvL_regs s s' : out s' = out s -> view s' = view s -> buf s' = buf s -> format s' = format s -> InvL s -> InvL s'.
Proof. intros Ho Hv Hb Hf [A B C]. split.
  - unfold depthL. rewrite Ho, Hv. exact A.
  - assert (Hp : par s' = par s) by (exact (f_equal (fun v => fst (fst (fst (snd v)))) Hv)). rewrite Hp, Hb. exact B.
  - unfold fmt in *. rewrite Hf. exact C. Qed.
Lemma InvL_obs a b : obs a = obs b -> InvL b -> InvL a.
Proof. intros H [H1 H2 H3]. split.
  - unfold depthL. rewrite (obs_out _ _ H), (obs_view _ _ H). exact H1.
  - rewrite (obs_par _ _ H), (obs_buf _ _ H). exact H2.
  - rewrite (obs_fmt _ _ H). exact H3. Qed.
Lemma InvL_ws b s : InvL s -> InvL (s <| ws := b |>).
Proof. intros [H1 H2 H3]. split; assumption. Qed.

Lemma reopen_foldL mt l : markup_okL mt -> forall s, fmt s = FL -> mtags s = mt ->
  exists c, fold_left (fun a sc => begin_markup_block (sc_tag sc) [] a) l s = wl c s /\
            forall d, runL (flat c) (LTxt, d) = (LTxt, (List.length l + d)%nat).
Proof. intro Hm. induction l as [|sc r IH]; intros s Hf Ht.
  - exists []. split; reflexivity.
  - cbn [fold_left]. unfold begin_markup_block at 2. rewrite Hf.
    destruct (Hm (sc_tag sc) [] (ex_intro _ [] eq_refl)) as [[x [Ex Hx]] _]. rewrite (Ex s Ht).
    destruct (IH (w x s)) as [y [Ey Hy]]; [rewrite fmt_w; exact Hf|rewrite mtags_w; exact Ht|].
    exists (y ++ [x]). split; [rewrite Ey, wl_app; reflexivity|].
    intro d. rewrite flat_app. change (flat [x]) with (x ++ []). rewrite app_nil_r, runL_app, Hx, Hy. f_equal. cbn [List.length]. lia. Qed.
Lemma close_foldL mt l : markup_okL mt -> forall s, fmt s = FL -> mtags s = mt ->
  exists c, fold_left (fun a sc => end_markup_block (sc_tag sc) [] a) l s = wl c s /\
            forall d, runL (flat c) (LTxt, (List.length l + d)%nat) = (LTxt, d).
Proof. intro Hm. induction l as [|sc r IH]; intros s Hf Ht.
  - exists []. split; reflexivity.
  - cbn [fold_left]. unfold end_markup_block at 2. rewrite Hf.
    destruct (Hm (sc_tag sc) [] (ex_intro _ [] eq_refl)) as [_ Hc]. destruct (Hc [] textualL_nil) as [x [Ex Hx]]. rewrite (Ex s Ht).
    destruct (IH (w x s)) as [y [Ey Hy]]; [rewrite fmt_w; exact Hf|rewrite mtags_w; exact Ht|].
    exists (y ++ [x]). split; [rewrite Ey, wl_app; reflexivity|].
    intro d. rewrite flat_app. change (flat [x]) with (x ++ []). rewrite app_nil_r, runL_app. cbn [List.length plus]. rewrite Hx. apply Hy. Qed.

Lemma escape_fn_FL s : fmt s = FL -> escape_fn s = latex_escape.
Proof. unfold fmt, escape_fn. destruct (str_eqb (format s) _); [reflexivity|]. destruct (str_eqb (format s) _); [discriminate|].
  destruct (str_eqb (format s) _); discriminate. Qed.

(* ---------- processText ---------- *)
Lemma InvL_text_open s : InvL s -> markup_okL (mtags s) ->
  let s1 := if negb (par s) then reopen_spanning ((begin_paragraph s) <| par := true |>)
            else if ws s then s <| buf ::= cons [10] |> else s in
  InvL s1 /\ par s1 = true.
Proof. intros HI Hm. destruct (par s) eqn:Ep; cbn [negb].
  - destruct (ws s); [|split; [exact HI|exact Ep]]. split; [|exact Ep].
    apply (InvL_step s _ [10] HI).
    + change (out (s <| buf ::= cons [10] |>)) with (flat (wout s) ++ flat ([10] :: buf s)). unfold out. rewrite flat_cons. apply app_assoc.
    + reflexivity.
    + change (par (s <| buf ::= cons [10] |>)) with (par s). rewrite Ep. discriminate.
    + apply HI.
  - pose proof (invl_fmt _ HI) as Hf. unfold begin_paragraph. rewrite Hf. unfold L.begin_paragraph.
    set (sa := s <| par := true |>). unfold reopen_spanning.
    destruct (reopen_foldL (mtags s) (sinline sa) Hm sa Hf eq_refl) as [x [Ex Hx]]. rewrite Ex. split; [|rewrite par_wl; reflexivity].
    apply (InvL_step s _ (flat x) HI).
    + rewrite out_wl by discriminate. reflexivity.
    + unfold depthL. rewrite view_wl. unfold view, depth_v. cbn [par sinline sa]. cbn. rewrite Ep, Hx, Nat.add_0_r. reflexivity.
    + rewrite par_wl. discriminate.
    + rewrite fmt_wl. exact Hf.
Qed.
Lemma InvL_buf_text s t : InvL s -> par s = true -> textualL t -> InvL (s <| buf ::= cons t |> <| ws := true |>).
Proof. intros HI Hp Ht. apply (InvL_step s _ t HI).
  - change (out (s <| buf ::= cons t |> <| ws := true |>)) with (flat (wout s) ++ flat (t :: buf s)). unfold out. rewrite flat_cons. apply app_assoc.
  - change (depthL (s <| buf ::= cons t |> <| ws := true |>)) with (depthL s). apply Ht.
  - change (par (s <| buf ::= cons t |> <| ws := true |>)) with (par s). rewrite Hp. discriminate.
  - apply HI. Qed.
Theorem InvL_process_text s : InvL s -> markup_okL (mtags s) -> process s = true -> asis s = false -> InvL (process_text s).
Proof. intros HI Hm Hpr Has. unfold process_text. rewrite Hpr, Has. cbn [negb].
  destruct (InvL_text_open s HI Hm) as [HI1 Hp1]. cbv zeta in HI1, Hp1.
  set (s1 := if negb (par s) then _ else _) in *. clearbody s1.
  pose proof (render_text_eqd (text s1) s1) as He. destruct (render_text_escaped (text s1) s1) as [t0 Et].
  destruct (render_text (text s1) s1) as [t s2]. cbn [fst snd] in *.
  rewrite (escape_fn_FL _ (invl_fmt _ HI1)) in Et. subst t.
  assert (HI2 : InvL s2) by (apply (InvL_eqd _ _ He HI1)).
  assert (Hp2 : par s2 = true) by (rewrite (eqd_get par _ _ (fun _ => eq_refl) He); exact Hp1).
  match goal with |- InvL (?x <| buf ::= _ |> <| ws := _ |>) => set (s3 := x) end.
  assert (E3 : s3 ~~ s2). { unfold s3. destruct (latex_escape t0); [reflexivity|]. destruct (has_blank_line _); [apply err_eqd|reflexivity]. }
  apply InvL_buf_text; [apply (InvL_eqd _ _ E3 HI2)|rewrite (eqd_get par _ _ (fun _ => eq_refl) E3); exact Hp2|apply latex_escape_textual]. Qed.

(* ---------- Bm ---------- *)
Lemma opt_render_escapedL n o s : fmt s = FL -> escapedL (fst (opt_render n o s)).
Proof. intro Hf. unfold opt_render. destruct (opt n o) as [l|].
  - destruct (render_text_escaped l s) as [t E]. exists t. rewrite E, (escape_fn_FL _ Hf). reflexivity.
  - exists []. reflexivity. Qed.
Lemma render_args_textualL l : forall s, fmt s = FL -> textualL (fst (render_args l s)).
Proof. induction l as [|a r IH]; intros s Hf; [apply textualL_nil|]. destruct r as [|b r'].
  - cbn. destruct (render_text_escaped a s) as [t E]. rewrite E, (escape_fn_FL _ Hf). apply latex_escape_textual.
  - change (render_args (a :: b :: r') s) with (let '(x, s1) := render_text a s in let '(y, s2) := render_args (b :: r') s1 in (x ++ [32] ++ y, s2)).
    pose proof (render_text_eqd a s) as H1. destruct (render_text_escaped a s) as [t E]. destruct (render_text a s) as [x s1]. cbn [fst snd] in *.
    pose proof (IH s1) as H2. destruct (render_args (b :: r') s1) as [y s2]. cbn [fst] in *.
    rewrite E, (escape_fn_FL _ Hf). apply textualL_app; [apply latex_escape_textual|]. apply textualL_app; [intro; reflexivity|].
    apply H2. rewrite (fmt_eqd _ _ H1). exact Hf. Qed.

Lemma InvL_begin_phrasing ns s : InvL s -> markup_okL (mtags s) -> inl s = false -> (par s = false -> scope_verse s = false) ->
  InvL (begin_phrasing ns s) /\ par (begin_phrasing ns s) = true /\ mtags (begin_phrasing ns s) = mtags s /\ inl (begin_phrasing ns s) = false
  /\ sinline (begin_phrasing ns s) = sinline s.
Proof. intros HI Hm Hi Hv. unfold begin_phrasing. destruct (par s) eqn:Ep.
  - destruct (ws s && negb ns).
    + rewrite Hi. split; [|rewrite par_w, mtags_w, inl_w; repeat split; try assumption;
        change (sinline (w [10] s)) with (let '(_, _, _, (_, _, si, _)) := view (w [10] s) in si); rewrite view_w; reflexivity].
      apply (InvL_step s _ [10] HI).
      * apply out_w. rewrite Ep. discriminate.
      * unfold depthL. rewrite view_w. reflexivity.
      * rewrite par_w, Ep. discriminate.
      * rewrite fmt_w. apply HI.
    + split; [exact HI|]. repeat split; first [assumption | reflexivity | exact Ep].
  - rewrite Hi, (Hv eq_refl). cbn [negb andb].
    pose proof (invl_fmt _ HI) as Hf. unfold begin_paragraph. rewrite Hf. unfold L.begin_paragraph. unfold reopen_spanning.
    destruct (reopen_foldL (mtags s) (sinline s) Hm s Hf eq_refl) as [x [Ex Hx]]. rewrite !Ex.
    assert (Hba : par s = false -> buf s = []) by (intros _; exact (invl_buf _ HI Ep)).
    assert (HI' : InvL (wl x s <| par := true |>)).
    { apply (InvL_step s _ (flat x) HI).
      * change (out (wl x s <| par := true |>)) with (out (wl x s)). rewrite out_wl by exact Hba. reflexivity.
      * unfold depthL. change (view (wl x s <| par := true |>)) with (let '(a, b, c, (_, v, si, mt)) := view (wl x s) in (a, b, c, (true, v, si, mt))).
        rewrite view_wl. unfold view, depth_v. rewrite Ep, Hx, Nat.add_0_r. reflexivity.
      * discriminate.
      * change (fmt (wl x s <| par := true |>)) with (fmt (wl x s)). rewrite fmt_wl. exact Hf. }
    split; [exact HI'|]. split; [reflexivity|].
    split; [change (mtags (wl x s <| par := true |>)) with (mtags (wl x s)); rewrite mtags_wl; reflexivity|].
    split; [change (inl (wl x s <| par := true |>)) with (inl (wl x s)); rewrite inl_wl; exact Hi|].
    change (sinline (wl x s <| par := true |>)) with (let '(_, _, _, (_, _, si, _)) := view (wl x s) in si). rewrite view_wl. reflexivity.
Qed.

Lemma depth_push (p : bool) si sc : depth_v (@nil scope, @nil (str * dtag), false, (true, p, si ++ [sc], @nil (str * mtag))) = S (depth_v (@nil scope, @nil (str * dtag), false, (true, p, si, @nil (str * mtag)))).
Proof. unfold depth_v. rewrite app_length. cbn. lia. Qed.

Theorem InvL_macro_bm s : InvL s -> markup_okL (mtags s) -> process s = true -> inl s = false ->
  (par s = false -> scope_verse s = false) -> InvL (macro_bm s).
Proof. intros HI Hm Hpr Hi Hv. unfold macro_bm.
  pose proof (parse_opts_eqd specOptBm (args s) s) as E1. destruct (parse_opts specOptBm (args s) s) as [o s1]. cbn [snd] in E1.
  pose proof (opt_render_eqd "id" o s1) as E2.
  pose proof (opt_render_escapedL "id" o s1) as Hid. destruct (opt_render "id" o s1) as [id s2]. cbn [fst snd] in *.
  assert (E : s2 ~~ s) by (eapply eqd_trans; eauto). clear E2.
  specialize (Hid ltac:(rewrite (fmt_eqd _ _ E1); apply HI)).
  assert (Hpr2 : process s2 = true) by (rewrite (eqd_get process _ _ (fun _ => eq_refl) E); exact Hpr). rewrite Hpr2. cbn [negb].
  assert (HI2 : InvL s2) by (apply (InvL_eqd _ _ E HI)).
  assert (Hmt2 : mtags s2 = mtags s) by (apply (eqd_get mtags _ _ (fun _ => eq_refl) E)).
  assert (Hi2 : inl s2 = false) by (rewrite (eqd_get inl _ _ (fun _ => eq_refl) E); exact Hi).
  assert (Hv2 : par s2 = false -> scope_verse s2 = false).
  { rewrite (scope_verse_eqd _ _ E), (eqd_get par _ _ (fun _ => eq_refl) E). exact Hv. }
  destruct (InvL_begin_phrasing (flag "ns" o) s2 HI2 ltac:(rewrite Hmt2; exact Hm) Hi2 Hv2) as (HI3 & Hp3 & Hmt3 & Hi3 & Hsi3).
  set (s3 := begin_phrasing (flag "ns" o) s2 <| ws := false |>).
  assert (HI3' : InvL s3) by (apply InvL_ws; exact HI3).
  set (r4 := match opt "t" o with Some t => _ | None => _ end).
  assert (E4 : snd r4 ~~ s3).
  { unfold r4. destruct (opt "t" o) as [t|]; [|reflexivity].
    pose proof (inlines_text_eqd t s3) as H. destruct (inlines_text t s3) as [tg s']. cbn [snd] in *.
    destruct (has_key tg (mtags s')); [exact H|]. eapply eqd_trans; [apply err_eqd|exact H]. }
  destruct r4 as [tag s4]. cbn [snd] in E4.
  assert (HI4 : InvL s4) by (apply (InvL_eqd _ _ E4 HI3')).
  assert (Hp4 : par s4 = true) by (rewrite (eqd_get par _ _ (fun _ => eq_refl) E4); exact Hp3).
  assert (Hmt4 : mtags s4 = mtags s) by (rewrite (eqd_get mtags _ _ (fun _ => eq_refl) E4), <- Hmt2; exact Hmt3).
  assert (Hi4 : inl s4 = false) by (rewrite (eqd_get inl _ _ (fun _ => eq_refl) E4); exact Hi3).
  destruct (push_inline_spec tag id (flag "r" o) s4) as (sc & s4' & Epi & Etag & E4'). rewrite Epi.
  assert (Hmt4' : mtags s4' = mtags s) by (rewrite (obs_mtags _ _ E4'); exact Hmt4).
  assert (Hp4' : par s4' = true) by (rewrite (obs_par _ _ E4'); exact Hp4).
  assert (Hi4' : inl s4' = false) by (rewrite (obs_inl _ _ E4'); exact Hi4).
  pose proof (InvL_obs _ _ E4' HI4) as HI4'.
  unfold begin_markup_block. change (fmt (s4' <| sinline ::= fun l => l ++ [sc] |>)) with (fmt s4'). rewrite (invl_fmt _ HI4').
  destruct (Hm tag id Hid) as [[x [Ex Hx]] _]. rewrite !Ex by exact Hmt4'.
  set (s5 := w x (s4' <| sinline ::= fun l => l ++ [sc] |>)).
  assert (HI5 : InvL s5).
  { apply (InvL_step s4' _ x HI4').
    - unfold s5. rewrite out_w; [reflexivity|]. change (par (s4' <| sinline ::= fun l => l ++ [sc] |>)) with (par s4'). rewrite Hp4'. discriminate.
    - unfold s5, depthL. rewrite view_w. unfold view, depth_v. cbn [par sinline]. cbn. rewrite Hp4', app_length, Hx. cbn. f_equal. lia.
    - unfold s5. rewrite par_w. change (par (s4' <| sinline ::= fun l => l ++ [sc] |>)) with (par s4'). rewrite Hp4'. discriminate.
    - unfold s5. rewrite fmt_w. apply HI4'. }
  assert (Hi5 : inl s5 = false) by (unfold s5; rewrite inl_w; exact Hi4').
  destruct (po_args o); [exact HI5|]. rewrite Hi5. cbn [negb]. apply (InvL_eqd _ _ (err_eqd _ _) HI5). Qed.

Theorem InvL_macro_em s : InvL s -> markup_okL (mtags s) -> process s = true -> inl s = false -> InvL (macro_em s).
Proof. intros HI Hm Hpr Hi. unfold macro_em. rewrite Hpr. cbn [negb].
  pose proof (parse_opts_eqd specOptEm (args s) s) as E1. destruct (parse_opts specOptEm (args s) s) as [o s1]. cbn [snd] in E1.
  pose proof (InvL_eqd _ _ E1 HI) as HI1.
  destruct (top (sinline s1)) as [sc|] eqn:Etop; [|apply (InvL_eqd _ _ (err_eqd _ _) HI1)].
  apply top_pop in Etop.
  set (s2 := s1 <| sinline ::= pop |>).
  set (s3 := match opt "t" o with Some t => _ | None => _ end).
  assert (E3 : s3 ~~ s2).
  { unfold s3. destruct (opt "t" o) as [t|].
    - pose proof (inlines_text_eqd t s2) as H. destruct (inlines_text t s2) as [tx s']. cbn [snd] in H.
      destruct (str_eqb tx (sc_tag sc)); [exact H|]. eapply eqd_trans; [apply err_eqd|exact H].
    - destruct (sc_req sc); [apply err_eqd|reflexivity]. }
  assert (Hi3 : inl s3 = false) by (rewrite (eqd_get inl _ _ (fun _ => eq_refl) E3); change (inl s2) with (inl s1); rewrite (eqd_get inl _ _ (fun _ => eq_refl) E1); exact Hi).
  set (r4 := match po_args o with [] => _ | a :: r => _ end).
  assert (H4 : snd r4 ~~ s2 /\ textualL (fst (fst r4))).
  { unfold r4. destruct (po_args o) as [|a r]; [split; [exact E3|apply textualL_nil]|].
    rewrite Hi3. cbn [negb].
    pose proof (render_text_eqd a s3) as H. destruct (render_text_escaped a s3) as [t Et]. destruct (render_text a s3) as [p s'']. cbn [fst snd] in *.
    split; [eapply eqd_trans; eauto|].
    rewrite Et, (escape_fn_FL s3); [apply latex_escape_textual|]. rewrite (fmt_eqd _ _ E3). apply HI1. }
  destruct r4 as [[punct rest] s4]. cbn [fst snd] in H4. destruct H4 as (E4 & Hpunct).
  assert (Hmt1 : mtags s1 = mtags s) by (apply (eqd_get mtags _ _ (fun _ => eq_refl) E1)).
  assert (Hmt4 : mtags s4 = mtags s) by (rewrite (eqd_get mtags _ _ (fun _ => eq_refl) E4); exact Hmt1).
  assert (Hp4 : par s4 = par s1) by (apply (eqd_get par _ _ (fun _ => eq_refl) E4)).
  assert (Hf4 : fmt s4 = FL) by (rewrite (fmt_eqd _ _ E4); apply HI1).
  assert (Hi4 : inl s4 = false) by (rewrite (eqd_get inl _ _ (fun _ => eq_refl) E4); change (inl s2) with (inl s1); rewrite (eqd_get inl _ _ (fun _ => eq_refl) E1); exact Hi).
  set (s5 := if par s4 then end_markup_block (sc_tag sc) punct s4 else w punct s4).
  assert (HI5 : InvL s5 /\ inl s5 = false).
  { assert (Ho4 : out s4 = out s1) by (rewrite (out_eqd _ _ E4); reflexivity).
    assert (Hv4 : view s4 = view s2) by (apply view_eqd; exact E4).
    assert (Hb4 : par s4 = false -> buf s4 = []) by (rewrite (eqd_get buf _ _ (fun _ => eq_refl) E4), Hp4; apply HI1).
    unfold s5. destruct (par s4) eqn:Ep4.
    - unfold end_markup_block. rewrite Hf4. destruct (Hm (sc_tag sc) [] (ex_intro _ [] eq_refl)) as [_ Hc].
      destruct (Hc punct Hpunct) as [x [Ex Hx]]. rewrite (Ex s4 Hmt4). split; [|rewrite inl_w; exact Hi4].
      apply (InvL_step s1 _ x HI1).
      + rewrite out_w by (rewrite Ep4; discriminate). rewrite Ho4. reflexivity.
      + unfold depthL. rewrite view_w, Hv4. unfold view, depth_v. cbn [par sinline s2]. cbn.
        rewrite <- Hp4. rewrite Etop at 1. rewrite app_length. cbn [List.length]. rewrite Nat.add_1_r. apply Hx.
      + rewrite par_w, Ep4. discriminate.
      + rewrite fmt_w. exact Hf4.
    - split; [|rewrite inl_w; exact Hi4]. apply (InvL_step s1 _ punct HI1).
      + rewrite out_w by (intros _; exact (Hb4 eq_refl)). rewrite Ho4. reflexivity.
      + unfold depthL. rewrite view_w, Hv4. unfold view, depth_v. cbn [par sinline s2]. cbn.
        rewrite <- Hp4. apply Hpunct.
      + apply bufc_w. rewrite Ep4. exact Hb4.
      + rewrite fmt_w. exact Hf4. }
  destruct HI5 as [HI5 Hi5]. clearbody s5. apply InvL_ws.
  destruct rest; [exact HI5|]. rewrite Hi5. cbn [negb]. apply (InvL_eqd _ _ (err_eqd _ _) HI5). Qed.

Lemma get_close_punct_textualL l s : fmt s = FL -> textualL (snd (fst (get_close_punct l s))).
Proof. intro Hf. unfold get_close_punct. destruct (rev l) as [|la rr]; [apply textualL_nil|].
  pose proof (is_punct_arg_eqd la s) as E. destruct (is_punct_arg la s) as [b s1]. cbn [snd] in E. destruct b; [|apply textualL_nil].
  destruct (render_text_escaped la s1) as [t Et]. destruct (render_text la s1) as [p s2]. cbn [fst snd] in *.
  rewrite Et, (escape_fn_FL s1); [apply latex_escape_textual|]. rewrite (fmt_eqd _ _ E). exact Hf. Qed.

Theorem InvL_macro_sm s : InvL s -> markup_okL (mtags s) -> process s = true -> inl s = false ->
  (par s = false -> scope_verse s = false) -> InvL (macro_sm s).
Proof. intros HI Hm Hpr Hi Hv. unfold macro_sm.
  pose proof (parse_opts_eqd specOptSm (args s) s) as E1. destruct (parse_opts specOptSm (args s) s) as [o s1]. cbn [snd] in E1.
  pose proof (opt_render_eqd "id" o s1) as E2.
  pose proof (opt_render_escapedL "id" o s1) as Hid. destruct (opt_render "id" o s1) as [id s2]. cbn [fst snd] in *.
  assert (E : s2 ~~ s) by (eapply eqd_trans; eauto). clear E2.
  specialize (Hid ltac:(rewrite (fmt_eqd _ _ E1); apply HI)).
  assert (Hpr2 : process s2 = true) by (rewrite (eqd_get process _ _ (fun _ => eq_refl) E); exact Hpr). rewrite Hpr2. cbn [negb].
  assert (HI2 : InvL s2) by (apply (InvL_eqd _ _ E HI)).
  destruct (po_args o) as [|a0 al] eqn:Epo; [apply (InvL_eqd _ _ (err_eqd _ _) HI2)|].
  set (r3 := if Nat.ltb 1 (List.length (a0 :: al)) then get_close_punct (a0 :: al) s2 else (a0 :: al, [], s2)).
  assert (H3 : snd r3 ~~ s2 /\ textualL (snd (fst r3))).
  { unfold r3. destruct (Nat.ltb 1 (List.length (a0 :: al))); [|split; [reflexivity|apply textualL_nil]].
    split; [apply get_close_punct_eqd|apply get_close_punct_textualL; apply HI2]. }
  destruct r3 as [[a punct] s3]. cbn [fst snd] in H3. destruct H3 as [E3 Hpunct].
  assert (E3' : s3 ~~ s) by (eapply eqd_trans; eauto).
  assert (HI3 : InvL s3) by (apply (InvL_eqd _ _ E3' HI)).
  assert (Hmt3 : mtags s3 = mtags s) by (apply (eqd_get mtags _ _ (fun _ => eq_refl) E3')).
  assert (Hi3 : inl s3 = false) by (rewrite (eqd_get inl _ _ (fun _ => eq_refl) E3'); exact Hi).
  assert (Hv3 : par s3 = false -> scope_verse s3 = false).
  { rewrite (scope_verse_eqd _ _ E3'), (eqd_get par _ _ (fun _ => eq_refl) E3'). exact Hv. }
  destruct (InvL_begin_phrasing (flag "ns" o) s3 HI3 ltac:(rewrite Hmt3; exact Hm) Hi3 Hv3) as (HI4 & Hp4 & Hmt4 & Hi4 & Hsi4).
  set (s4 := begin_phrasing (flag "ns" o) s3) in *. clearbody s4.
  set (r5 := match opt "t" o with Some t => _ | None => _ end).
  assert (E5 : snd r5 ~~ s4).
  { unfold r5. destruct (opt "t" o) as [t|]; [|reflexivity].
    pose proof (inlines_text_eqd t s4) as H. destruct (inlines_text t s4) as [tg s']. cbn [snd] in *.
    destruct (has_key tg (mtags s')); [exact H|]. eapply eqd_trans; [apply err_eqd|exact H]. }
  destruct r5 as [tag s5]. cbn [snd] in E5.
  assert (HI5 : InvL s5) by (apply (InvL_eqd _ _ E5 HI4)).
  assert (Hp5 : par s5 = true) by (rewrite (eqd_get par _ _ (fun _ => eq_refl) E5); exact Hp4).
  assert (Hmt5 : mtags s5 = mtags s) by (rewrite (eqd_get mtags _ _ (fun _ => eq_refl) E5), Hmt4; exact Hmt3).
  unfold begin_markup_block. rewrite (invl_fmt _ HI5).
  destruct (Hm tag id Hid) as [[x [Ex Hx]] Hc]. rewrite (Ex s5 Hmt5).
  pose proof (render_args_eqd a (w x s5)) as E7. pose proof (render_args_textualL a (w x s5) ltac:(rewrite fmt_w; apply HI5)) as Ht.
  destruct (render_args a (w x s5)) as [t s7]. cbn [fst snd] in *.
  assert (Hf7 : fmt s7 = FL) by (rewrite (fmt_eqd _ _ E7), fmt_w; apply HI5).
  assert (Hmt7 : mtags s7 = mtags s) by (rewrite (eqd_get mtags _ _ (fun _ => eq_refl) E7), mtags_w; exact Hmt5).
  assert (Hp7 : par s7 = true) by (rewrite (eqd_get par _ _ (fun _ => eq_refl) E7), par_w; exact Hp5).
  unfold end_markup_block. rewrite fmt_w, Hf7.
  destruct (Hc punct Hpunct) as [y [Ey Hy]]. rewrite (Ey (w t s7)) by (rewrite mtags_w; exact Hmt7).
  apply InvL_ws. apply (InvL_step s5 _ (x ++ t ++ y) HI5).
  - rewrite out_w by (rewrite par_w, Hp7; discriminate). rewrite out_w by (rewrite Hp7; discriminate).
    rewrite (out_eqd _ _ E7), out_w by (rewrite Hp5; discriminate). rewrite <- !app_assoc. reflexivity.
  - unfold depthL. rewrite !view_w, (view_eqd _ _ E7), view_w.
    rewrite !runL_app, Hx, Ht, Hy. reflexivity.
  - rewrite !par_w, Hp7. discriminate.
  - rewrite !fmt_w. exact Hf7.
Qed.

Section P.
Variable pim : PIM.
Theorem InvL_macro_p_plain s : InvL s -> markup_okL (mtags s) -> process s = true -> args s = [] ->
  scope_verse s = false -> InvL (macro_p pim s).
Proof. intros HI Hm Hpr Ha Hsv. unfold macro_p. rewrite Hpr, Ha, parse_opts_nil. cbn [negb po_args].
  pose proof (invl_fmt _ HI) as Hf.
  destruct (par s) eqn:Ep.
  - unfold close_spanning.
    destruct (close_foldL (mtags s) (rev (sinline s)) Hm s Hf eq_refl) as [c [Ec Hc]]. rewrite Ec.
    set (s1 := process_paragraph (wl c s)).
    assert (Hsv1 : scope_verse s1 = false).
    { unfold scope_verse. change (sblock s1) with (let '(sb, _, _, _) := view (wl c s) in sb). rewrite view_wl. exact Hsv. }
    rewrite Hsv1. cbn [andb]. unfold end_paragraph.
    assert (Hf1 : fmt s1 = FL) by (change (fmt s1) with (fmt (wl c s)); rewrite fmt_wl; exact Hf). rewrite Hf1. unfold L.end_paragraph.
    assert (Hp1 : par s1 = false) by reflexivity.
    assert (Hw : w (NLs ++ NLs) s1 = s1 <| wout ::= cons (NLs ++ NLs) |>) by (unfold w; rewrite Hp1; reflexivity). rewrite Hw.
    apply (InvL_step s _ (flat c ++ NLs ++ NLs) HI).
    + unfold out. cbn [wout buf]. unfold s1, process_paragraph, format_paragraph. rewrite fmt_wl, Hf. unfold L.format_paragraph, wo. cbn.
      rewrite !flat_cons, flat_nil, app_nil_r. change (flat (wout (wl c s)) ++ flat (buf (wl c s))) with (out (wl c s)).
      rewrite out_wl by (rewrite Ep; discriminate). unfold out. rewrite <- !app_assoc. reflexivity.
    + unfold depthL at 2. unfold view, depth_v. cbn [par]. cbn.
      unfold depthL, view, depth_v. rewrite Ep, runL_app. pose proof (Hc 0%nat) as Hc0. rewrite Nat.add_0_r, rev_length in Hc0. rewrite Hc0. reflexivity.
    + reflexivity.
    + exact Hf1.
  - unfold end_paragraph. rewrite Hf. unfold L.end_paragraph.
    assert (Hw : w NLs s = s <| wout ::= cons NLs |>) by (unfold w; rewrite Ep; reflexivity). rewrite Hw.
    apply (InvL_step s _ NLs HI).
    + unfold out. cbn. rewrite flat_cons, (invl_buf _ HI Ep), flat_nil, !app_nil_r. reflexivity.
    + unfold depthL, view, depth_v. cbn. rewrite Ep. reflexivity.
    + intros _. exact (invl_buf _ HI Ep).
    + exact Hf.
Qed.
End P.

(* the paragraph break at the start of macroP, for any arguments *)
Lemma InvL_p_break s : InvL s -> markup_okL (mtags s) -> scope_verse s = false ->
  InvL (p_break s) /\ view (p_break s) = (sblock s, dtags s, ttitscope s, (false, verse s, sinline s, mtags s)).
Proof. intros HI Hm Hsv. unfold p_break.
  pose proof (invl_fmt _ HI) as Hf.
  destruct (par s) eqn:Ep.
  - unfold close_spanning.
    destruct (close_foldL (mtags s) (rev (sinline s)) Hm s Hf eq_refl) as [c [Ec Hc]]. rewrite Ec.
    set (s1 := process_paragraph (wl c s)).
    assert (Hsv1 : scope_verse s1 = false).
    { unfold scope_verse. change (sblock s1) with (let '(sb, _, _, _) := view (wl c s) in sb). rewrite view_wl. exact Hsv. }
    cbv zeta. rewrite Hsv1. cbn [andb]. unfold end_paragraph.
    assert (Hf1 : fmt s1 = FL) by (change (fmt s1) with (fmt (wl c s)); rewrite fmt_wl; exact Hf). rewrite Hf1. unfold L.end_paragraph.
    assert (Hp1 : par s1 = false) by reflexivity.
    assert (Hw : w (NLs ++ NLs) s1 = s1 <| wout ::= cons (NLs ++ NLs) |>) by (unfold w; rewrite Hp1; reflexivity). rewrite Hw.
    assert (Ev2 : view (s1 <| wout ::= cons (NLs ++ NLs) |>) = (sblock s, dtags s, ttitscope s, (false, verse s, sinline s, mtags s))).
    { unfold view. cbn. unfold s1, process_paragraph, wo. cbn.
      change (sblock (wl c s)) with (let '(sb, _, _, _) := view (wl c s) in sb).
      change (dtags (wl c s)) with (let '(_, dt, _, _) := view (wl c s) in dt).
      change (ttitscope (wl c s)) with (let '(_, _, t3, _) := view (wl c s) in t3).
      change (verse (wl c s)) with (let '(_, _, _, (_, v, _, _)) := view (wl c s) in v).
      change (sinline (wl c s)) with (let '(_, _, _, (_, _, si, _)) := view (wl c s) in si).
      change (mtags (wl c s)) with (let '(_, _, _, (_, _, _, mt)) := view (wl c s) in mt).
      rewrite view_wl. reflexivity. }
    split; [|exact Ev2].
    apply (InvL_step s _ (flat c ++ NLs ++ NLs) HI).
    + unfold out. cbn [wout buf]. unfold s1, process_paragraph, format_paragraph. rewrite fmt_wl, Hf. unfold L.format_paragraph, wo. cbn.
      rewrite !flat_cons, flat_nil, app_nil_r. change (flat (wout (wl c s)) ++ flat (buf (wl c s))) with (out (wl c s)).
      rewrite out_wl by (rewrite Ep; discriminate). unfold out. rewrite <- !app_assoc. reflexivity.
    + unfold depthL at 2. rewrite Ev2. unfold depthL, view, depth_v. rewrite Ep, runL_app. pose proof (Hc 0%nat) as Hc0. rewrite Nat.add_0_r, rev_length in Hc0. rewrite Hc0. reflexivity.
    + reflexivity.
    + exact Hf1.
  - unfold end_paragraph. rewrite Hf. unfold L.end_paragraph.
    assert (Hw : w NLs s = s <| wout ::= cons NLs |>) by (unfold w; rewrite Ep; reflexivity). rewrite Hw.
    assert (Ev : view (s <| wout ::= cons NLs |> <| par := false |>) = (sblock s, dtags s, ttitscope s, (false, verse s, sinline s, mtags s))) by reflexivity.
    split; [|exact Ev].
    apply (InvL_step s _ NLs HI).
    + unfold out. cbn. rewrite flat_cons, (invl_buf _ HI Ep), flat_nil, !app_nil_r. reflexivity.
    + unfold depthL. rewrite Ev. unfold view, depth_v. rewrite Ep. reflexivity.
    + intros _. exact (invl_buf _ HI Ep).
    + exact Hf.
Qed.
Lemma runL_ptitle t : (forall d, runL t (LTxt, d) = (LTxt, d)) -> forall d, runL (R "\paragraph{" ++ t ++ R "}" ++ NLs) (LTxt, d) = (LTxt, d).
Proof. intros Ht d. rewrite runL_app. change (runL (R "\paragraph{") (LTxt, d)) with (LTxt, S d). rewrite runL_app, Ht. reflexivity. Qed.
