(* C04 (balance half) on the fragment of FragB.v: text lines, .Bm/.Em/.Sm, argument-less .P and display blocks .Bd/.Ed
   nested to any depth; LaTeX, fragment mode, any world.  Mirrors FragB.v with the brace machine of TokL.v. *)
From Coq Require Import List NArith ZArith Bool Lia Arith String.
Import ListNotations.
Require Import Latex Exp Proc1 Proc2 Proc3 Ctl Loop Eqd Tok TokL Inv InvL.
Open Scope N_scope.
Arguments runL : simpl never.
Arguments rev : simpl never.
Arguments flat : simpl never.

(* equality on everything the three handlers and the dispatcher never change *)
Definition nf (s : st) : st :=
  s <| buf := [] |> <| wout := [] |> <| ws := false |> <| sinline := [] |> <| par := false |> <| diags := [] |>
    <| macro := [] |> <| args := [] |> <| line := 0%nat |> <| text := [] |> <| prev := [] |> <| ids := [] |>
    <| elided := false |> <| quiet := false |>.
Definition eqf (a b : st) : Prop := nf a = nf b.
Infix "~=" := eqf (at level 70).
Lemma eqf_refl s : s ~= s. Proof. reflexivity. Qed.
Lemma eqf_trans a b c : a ~= b -> b ~= c -> a ~= c. Proof. unfold eqf; congruence. Qed.
Lemma nf_nd s : nf (nd s) = nf s. Proof. destruct s; reflexivity. Qed.
Lemma eqd_eqf a b : a ~~ b -> a ~= b.
Proof. intro H. unfold eqf. rewrite <- (nf_nd a), <- (nf_nd b). unfold eqd in H. rewrite H. reflexivity. Qed.
Lemma w_eqf x s : w x s ~= s. Proof. unfold w. destruct (par s); destruct s; reflexivity. Qed.
Lemma wl_eqf l s : wl l s ~= s. Proof. induction l as [|x r IH]; [reflexivity|]. cbn. eapply eqf_trans; [apply w_eqf|exact IH]. Qed.
Lemma eqf_get {A} (g : st -> A) a b : (forall s, g (nf s) = g s) -> a ~= b -> g a = g b.
Proof. intros Hg H. rewrite <- (Hg a), <- (Hg b). unfold eqf in H. rewrite H. reflexivity. Qed.

Lemma set_par_eqf b s : s <| par := b |> ~= s. Proof. destruct s; reflexivity. Qed.
Lemma set_ws_eqf b s : s <| ws := b |> ~= s. Proof. destruct s; reflexivity. Qed.
Lemma upd_buf_eqf f s : s <| buf ::= f |> ~= s. Proof. destruct s; reflexivity. Qed.
Lemma upd_sinline_eqf f s : s <| sinline ::= f |> ~= s. Proof. destruct s; reflexivity. Qed.
Lemma set_prev_eqf b s : s <| prev := b |> ~= s. Proof. destruct s; reflexivity. Qed.
Lemma fmt_eqf a b : a ~= b -> fmt a = fmt b. Proof. apply eqf_get. intro; reflexivity. Qed.
Lemma mtags_eqf a b : a ~= b -> mtags a = mtags b. Proof. apply eqf_get. intro; reflexivity. Qed.
Lemma after_handler_eqf n s : after_handler n s ~= s.
Proof. unfold after_handler. destruct (elided s); [destruct s; reflexivity|]. destruct (is_control_name n); [reflexivity|apply set_prev_eqf]. Qed.
Lemma push_inline_eqf tag id r s : has_cur s = true -> push_inline tag id r s ~= s.
Proof. intro Hc. unfold push_inline, mk_scope. destruct (cloc s) as [[[l n] f]|]; [apply upd_sinline_eqf|].
  rewrite Hc. apply upd_sinline_eqf. Qed.

Lemma begin_paragraph_eqf s : fmt s = FL -> begin_paragraph s ~= s.
Proof. intro Hf. unfold begin_paragraph. rewrite Hf. apply eqf_refl. Qed.
Lemma reopen_spanning_eqf s : fmt s = FL -> markup_okL (mtags s) -> reopen_spanning s ~= s.
Proof. intros Hf Hm. unfold reopen_spanning. destruct (reopen_foldL (mtags s) (sinline s) Hm s Hf eq_refl) as [x [Ex _]]. rewrite Ex. apply wl_eqf. Qed.
Lemma begin_phrasing_eqf ns s : fmt s = FL -> markup_okL (mtags s) -> begin_phrasing ns s ~= s.
Proof. intros Hf Hm. unfold begin_phrasing. destruct (par s).
  - destruct (ws s && negb ns); [apply w_eqf|apply eqf_refl].
  - eapply eqf_trans; [apply set_par_eqf|]. destruct (negb (inl s) && negb (scope_verse s)).
    + pose proof (begin_paragraph_eqf s Hf) as H. eapply eqf_trans; [|exact H].
      apply reopen_spanning_eqf; [rewrite (fmt_eqf _ _ H); exact Hf|rewrite (mtags_eqf _ _ H); exact Hm].
    + destruct (negb (inl s)); [apply eqd_eqf, err_eqd|apply eqf_refl]. Qed.

Lemma process_text_eqf s : asis s = false -> fmt s = FL -> markup_okL (mtags s) -> process_text s ~= s.
Proof. intros Has Hf Hm. unfold process_text. destruct (process s); [|apply eqf_refl]. rewrite Has. cbn [negb].
  set (s1 := if negb (par s) then _ else _).
  assert (E1 : s1 ~= s).
  { unfold s1. destruct (negb (par s)).
    - pose proof (eqf_trans _ _ _ (set_par_eqf true (begin_paragraph s)) (begin_paragraph_eqf s Hf)) as H.
      eapply eqf_trans; [|exact H]. apply reopen_spanning_eqf; [rewrite (fmt_eqf _ _ H); exact Hf|rewrite (mtags_eqf _ _ H); exact Hm].
    - destruct (ws s); [apply upd_buf_eqf|apply eqf_refl]. }
  clearbody s1. pose proof (render_text_eqd (text s1) s1) as He. destruct (render_text (text s1) s1) as [t s2]. cbn [snd] in He.
  set (s3 := match t with [] => s2 | _ => _ end).
  assert (E3 : s3 ~~ s2). { unfold s3. destruct t; [reflexivity|]. destruct (has_blank_line _); [apply err_eqd|reflexivity]. }
  eapply eqf_trans; [apply set_ws_eqf|]. eapply eqf_trans; [apply upd_buf_eqf|].
  eapply eqf_trans; [apply eqd_eqf; exact E3|]. eapply eqf_trans; [apply eqd_eqf; exact He|exact E1]. Qed.

Lemma store_id_eqf id i s : store_id id i s ~= s.
Proof. unfold store_id. set (s1 := if has_key id (ids s) then _ else s).
  assert (E : s1 ~= s).
  { unfold s1. destruct (has_key id (ids s)); [|apply eqf_refl]. unfold err. cbn. destruct s; reflexivity. }
  eapply eqf_trans; [|exact E]. destruct s1; reflexivity. Qed.

Lemma macro_bm_eqf s : fmt s = FL -> markup_okL (mtags s) -> has_cur s = true -> macro_bm s ~= s.
Proof. intros Hf Hm Hc. unfold macro_bm.
  pose proof (parse_opts_eqd specOptBm (args s) s) as E1. destruct (parse_opts specOptBm (args s) s) as [o s1]. cbn [snd] in E1.
  pose proof (opt_render_eqd "id" o s1) as E2. pose proof (opt_render_escapedL "id" o s1) as Hid.
  destruct (opt_render "id" o s1) as [id s2]. cbn [fst snd] in *.
  assert (E : s2 ~~ s) by (eapply eqd_trans; eauto). specialize (Hid ltac:(rewrite (Inv.fmt_eqd _ _ E1); exact Hf)).
  assert (F2 : s2 ~= s) by (apply eqd_eqf; exact E).
  destruct (process s2); cbn [negb]; [|destruct id; [exact F2|eapply eqf_trans; [apply store_id_eqf|exact F2]]].
  set (s3 := begin_phrasing (flag "ns" o) s2 <| ws := false |>).
  assert (F3 : s3 ~= s).
  { eapply eqf_trans; [apply set_ws_eqf|]. eapply eqf_trans; [|exact F2].
    apply begin_phrasing_eqf; [rewrite (fmt_eqf _ _ F2); exact Hf|rewrite (mtags_eqf _ _ F2); exact Hm]. }
  clearbody s3.
  set (r4 := match opt "t" o with Some t => _ | None => _ end).
  assert (E4 : snd r4 ~~ s3).
  { unfold r4. destruct (opt "t" o) as [t|]; [|reflexivity].
    pose proof (inlines_text_eqd t s3) as H. destruct (inlines_text t s3) as [tg s']. cbn [snd] in *.
    destruct (has_key tg (mtags s')); [exact H|]. eapply eqd_trans; [apply err_eqd|exact H]. }
  destruct r4 as [tag s4]. cbn [snd] in E4.
  assert (F4 : s4 ~= s) by (eapply eqf_trans; [apply eqd_eqf; exact E4|exact F3]).
  assert (F4' : push_inline tag id (flag "r" o) s4 ~= s) by (eapply eqf_trans; [apply push_inline_eqf; rewrite (eqf_get has_cur _ _ (fun _ => eq_refl) F4); exact Hc|exact F4]).
  set (s4' := push_inline tag id (flag "r" o) s4) in *. clearbody s4'.
  unfold begin_markup_block. rewrite (fmt_eqf _ _ F4'), Hf.
  destruct (Hm tag id Hid) as [[x [Ex Hx]] _]. rewrite !Ex by (apply (mtags_eqf _ _ F4')).
  set (s5 := w x s4').
  assert (F5 : s5 ~= s) by (eapply eqf_trans; [apply w_eqf|exact F4']).
  clearbody s5. destruct (po_args o) as [|a0 al]; [exact F5|]. destruct (negb (inl s5)); [eapply eqf_trans; [apply eqd_eqf, err_eqd|exact F5]|].
  pose proof (render_args_eqd (a0 :: al) s5) as Er. destruct (render_args (a0 :: al) s5) as [t s']. cbn [snd] in Er.
  eapply eqf_trans; [apply w_eqf|]. eapply eqf_trans; [apply eqd_eqf; exact Er|exact F5]. Qed.

(* macroEm: besides what ~= ignores, it pops the innermost inline scope when there is one *)
Lemma macro_em_eqf s : fmt s = FL -> markup_okL (mtags s) ->
  macro_em s ~= s /\ (process s = true -> sinline (macro_em s) = pop (sinline s)).
Proof. intros Hf Hm. unfold macro_em. destruct (process s); cbn [negb]; [|split; [apply eqf_refl|discriminate]].
  pose proof (parse_opts_eqd specOptEm (args s) s) as E1. destruct (parse_opts specOptEm (args s) s) as [o s1]. cbn [snd] in E1.
  assert (F1 : s1 ~= s) by (apply eqd_eqf; exact E1).
  assert (Hsi1 : sinline s1 = sinline s) by (apply (eqd_get sinline _ _ (fun _ => eq_refl) E1)).
  destruct (top (sinline s1)) as [sc|] eqn:Etop.
  2:{ split; [eapply eqf_trans; [apply eqd_eqf, err_eqd|exact F1]|]. intros _.
      rewrite (eqd_get sinline _ _ (fun _ => eq_refl) (err_eqd _ s1)), Hsi1. rewrite Hsi1 in Etop.
      unfold top in Etop. destruct (sinline s) as [|a l]; [reflexivity|]. exfalso. clear -Etop.
      revert a Etop. induction l as [|b l IH]; intros a H; [discriminate|]. exact (IH b H). }
  set (s2 := s1 <| sinline ::= pop |>). assert (F2 : s2 ~= s) by (eapply eqf_trans; [apply upd_sinline_eqf|exact F1]).
  set (s3 := match opt "t" o with Some t => _ | None => _ end).
  assert (E3 : s3 ~~ s2).
  { unfold s3. destruct (opt "t" o) as [t|].
    - pose proof (inlines_text_eqd t s2) as H. destruct (inlines_text t s2) as [tx s']. cbn [snd] in H.
      destruct (str_eqb tx (sc_tag sc)); [exact H|]. eapply eqd_trans; [apply err_eqd|exact H].
    - destruct (sc_req sc); [apply err_eqd|reflexivity]. }
  set (r4 := match po_args o with [] => _ | a :: r => _ end).
  assert (E4 : snd r4 ~~ s2 /\ textualL (fst (fst r4))).
  { unfold r4. destruct (po_args o) as [|a r]; [split; [exact E3|apply textualL_nil]|].
    set (u := if negb (inl s3) then (true, s3) else is_punct_arg a s3).
    assert (Eu : snd u ~~ s3) by (unfold u; destruct (negb (inl s3)); [reflexivity|apply is_punct_arg_eqd]).
    destruct u as [use s']. cbn [snd] in Eu. destruct use; [|split; [eapply eqd_trans; eauto|apply textualL_nil]].
    pose proof (render_text_eqd a s') as H. destruct (render_text_escaped a s') as [t Et]. destruct (render_text a s') as [p s'']. cbn [fst snd] in *.
    split; [eapply eqd_trans; [exact H|eapply eqd_trans; eauto]|].
    rewrite Et, (escape_fn_FL s'); [apply latex_escape_textual|]. rewrite (Inv.fmt_eqd _ _ Eu), (Inv.fmt_eqd _ _ E3), (fmt_eqf _ _ F2). exact Hf. }
  destruct r4 as [[punct rest] s4]. cbn [fst snd] in E4. destruct E4 as [E4 Hpunct].
  assert (F4 : s4 ~= s) by (eapply eqf_trans; [apply eqd_eqf; exact E4|exact F2]).
  assert (Hsi4 : sinline s4 = pop (sinline s)) by (rewrite (eqd_get sinline _ _ (fun _ => eq_refl) E4); unfold s2; cbn; rewrite Hsi1; reflexivity).
  set (s5 := if par s4 then end_markup_block (sc_tag sc) punct s4 else w punct s4).
  assert (F5 : exists c, s5 = wl c s4).
  { unfold s5. destruct (par s4); [|exists [punct]; reflexivity]. unfold end_markup_block. rewrite (fmt_eqf _ _ F4), Hf.
    destruct (Hm (sc_tag sc) [] (ex_intro _ [] eq_refl)) as [_ Hc]. destruct (Hc punct Hpunct) as [x [Ex _]].
    rewrite Ex by apply (mtags_eqf _ _ F4). exists [x]; reflexivity. }
  destruct F5 as [c5 F5]. clearbody s5. subst s5.
  assert (Hsw : forall c s, sinline (wl c s) = sinline s).
  { intros c s'. change (sinline (wl c s')) with (let '(_, _, _, (_, _, si, _)) := view (wl c s') in si). rewrite view_wl. reflexivity. }
  destruct rest as [|a0 al].
  - split; [eapply eqf_trans; [apply set_ws_eqf|]; eapply eqf_trans; [apply wl_eqf|exact F4]|].
    intros _. change (sinline (wl c5 s4 <| ws := negb (flag "ns" o) |>)) with (sinline (wl c5 s4)). rewrite Hsw. exact Hsi4.
  - destruct (negb (inl (wl c5 s4))).
    + split; [eapply eqf_trans; [apply set_ws_eqf|]; eapply eqf_trans; [apply eqd_eqf, err_eqd|]; eapply eqf_trans; [apply wl_eqf|exact F4]|].
      intros _. change (sinline (err "useless args in macro Em" (wl c5 s4) <| ws := negb (flag "ns" o) |>)) with (sinline (err "useless args in macro Em" (wl c5 s4))).
      rewrite (eqd_get sinline _ _ (fun _ => eq_refl) (err_eqd _ _)), Hsw. exact Hsi4.
    + pose proof (render_args_eqd (a0 :: al) (wl c5 s4)) as Er. destruct (render_args (a0 :: al) (wl c5 s4)) as [t s']. cbn [snd] in Er.
      split; [eapply eqf_trans; [apply set_ws_eqf|]; eapply eqf_trans; [apply w_eqf|]; eapply eqf_trans; [apply eqd_eqf; exact Er|]; eapply eqf_trans; [apply wl_eqf|exact F4]|].
      intros _. change (sinline (w t s' <| ws := negb (flag "ns" o) |>)) with (sinline (wl [t] s')). rewrite Hsw.
      rewrite (eqd_get sinline _ _ (fun _ => eq_refl) Er), Hsw. exact Hsi4.
Qed.

Lemma macro_sm_eqf s : fmt s = FL -> markup_okL (mtags s) -> macro_sm s ~= s.
Proof. intros Hf Hm. unfold macro_sm.
  pose proof (parse_opts_eqd specOptSm (args s) s) as E1. destruct (parse_opts specOptSm (args s) s) as [o s1]. cbn [snd] in E1.
  pose proof (opt_render_eqd "id" o s1) as E2. pose proof (opt_render_escapedL "id" o s1) as Hid.
  destruct (opt_render "id" o s1) as [id s2]. cbn [fst snd] in *.
  assert (E : s2 ~~ s) by (eapply eqd_trans; eauto). specialize (Hid ltac:(rewrite (Inv.fmt_eqd _ _ E1); exact Hf)).
  assert (F2 : s2 ~= s) by (apply eqd_eqf; exact E).
  destruct (process s2); cbn [negb]; [|destruct id; [exact F2|eapply eqf_trans; [apply store_id_eqf|exact F2]]].
  destruct (po_args o) as [|a0 al]; [eapply eqf_trans; [apply eqd_eqf, err_eqd|exact F2]|].
  set (r3 := if Nat.ltb 1 (List.length (a0 :: al)) then get_close_punct (a0 :: al) s2 else (a0 :: al, [], s2)).
  assert (H3 : snd r3 ~~ s2 /\ textualL (snd (fst r3))).
  { unfold r3. destruct (Nat.ltb 1 (List.length (a0 :: al))); [|split; [reflexivity|apply textualL_nil]].
    split; [apply get_close_punct_eqd|apply get_close_punct_textualL; rewrite (fmt_eqf _ _ F2); exact Hf]. }
  destruct r3 as [[a punct] s3]. cbn [fst snd] in H3. destruct H3 as [E3 Hpunct].
  assert (F3 : s3 ~= s) by (eapply eqf_trans; [apply eqd_eqf; exact E3|exact F2]).
  set (s4 := begin_phrasing (flag "ns" o) s3).
  assert (F4 : s4 ~= s) by (eapply eqf_trans; [|exact F3]; apply begin_phrasing_eqf; [rewrite (fmt_eqf _ _ F3); exact Hf|rewrite (mtags_eqf _ _ F3); exact Hm]).
  clearbody s4.
  set (r5 := match opt "t" o with Some t => _ | None => _ end).
  assert (E5 : snd r5 ~~ s4).
  { unfold r5. destruct (opt "t" o) as [t|]; [|reflexivity].
    pose proof (inlines_text_eqd t s4) as H. destruct (inlines_text t s4) as [tg s']. cbn [snd] in *.
    destruct (has_key tg (mtags s')); [exact H|]. eapply eqd_trans; [apply err_eqd|exact H]. }
  destruct r5 as [tag s5]. cbn [snd] in E5.
  assert (F5 : s5 ~= s) by (eapply eqf_trans; [apply eqd_eqf; exact E5|exact F4]).
  unfold begin_markup_block. rewrite (fmt_eqf _ _ F5), Hf.
  destruct (Hm tag id Hid) as [[x [Ex Hx]] Hc]. rewrite (Ex s5 (mtags_eqf _ _ F5)).
  pose proof (render_args_eqd a (w x s5)) as E7. destruct (render_args a (w x s5)) as [t s7]. cbn [snd] in E7.
  assert (F7 : s7 ~= s) by (eapply eqf_trans; [apply eqd_eqf; exact E7|]; eapply eqf_trans; [apply w_eqf|exact F5]).
  unfold end_markup_block. rewrite Inv.fmt_w, (fmt_eqf _ _ F7), Hf.
  destruct (Hc punct Hpunct) as [y [Ey Hy]]. rewrite (Ey (w t s7)) by (rewrite mtags_w; apply (mtags_eqf _ _ F7)).
  eapply eqf_trans; [apply set_ws_eqf|]. eapply eqf_trans; [apply w_eqf|]. eapply eqf_trans; [apply w_eqf|exact F7]. Qed.

Lemma set_verse_eqf s : verse s = false -> s <| verse := false |> ~= s.
Proof. intro H. destruct s; cbn in *; subst; reflexivity. Qed.
Lemma macro_p_plain_eqf pim s : fmt s = FL -> markup_okL (mtags s) -> args s = [] -> verse s = false -> macro_p pim s ~= s.
Proof. intros Hf Hm Ha Hv. unfold macro_p. destruct (process s); cbn [negb]; [|apply eqf_refl].
  rewrite Ha, parse_opts_nil. cbn [po_args].
  set (s2 := if par s then _ else _).
  assert (F2 : s2 ~= s).
  { unfold s2. destruct (par s).
    - unfold close_spanning. destruct (close_foldL (mtags s) (rev (sinline s)) Hm s Hf eq_refl) as [c [Ec _]]. rewrite Ec.
      set (s1 := process_paragraph (wl c s)).
      assert (F1 : s1 ~= s) by (eapply eqf_trans; [|apply (wl_eqf c s)]; unfold s1, process_paragraph, wo; destruct (wl c s); reflexivity).
      clearbody s1. destruct (scope_verse s1 && verse s1).
      + unfold end_stanza, end_paragraph. rewrite (fmt_eqf _ _ F1), Hf. unfold L.end_stanza, L.end_paragraph.
        eapply eqf_trans; [apply w_eqf|exact F1].
      + unfold end_paragraph. rewrite (fmt_eqf _ _ F1), Hf. unfold L.end_paragraph. eapply eqf_trans; [apply w_eqf|exact F1].
    - unfold end_paragraph. rewrite Hf. unfold L.end_paragraph. eapply eqf_trans; [apply set_par_eqf|apply w_eqf]. }
  clearbody s2. eapply eqf_trans; [|exact F2]. eapply eqf_trans; [|apply (set_ws_eqf false s2)].
  apply set_verse_eqf. change (verse (s2 <| ws := false |>)) with (verse s2). rewrite (eqf_get verse _ _ (fun _ => eq_refl) F2). exact Hv. Qed.

(* ---------- the fragment: top-level text blocks, Bm and Em; no user macros, no open #if/#de, no filter region, no blocks ---------- *)
Record Side (s : st) : Prop := {
  sd_mk : markup_okL (mtags s); sd_inl : inl s = false; sd_asis : asis s = false;
  sd_if : ifdepth s = 0%nat; sd_udef : udef s = None; sd_um : umacros s = []; sd_bf : bf s = None;
  sd_dt : dtags s = []; sd_vs : verse s = false; sd_fmt : fmt s = FL; sd_mode : mode s = 0%nat;
  sd_np : panicked s = None
}.
Lemma Side_eqf a b : a ~= b -> Side b -> Side a.
Proof. intros H [A1 A3 A4 A5 A6 A7 A8 A9 A10 A11 A12 A13].
  split; [rewrite (eqf_get mtags _ _ (fun _ => eq_refl) H)|rewrite (eqf_get inl _ _ (fun _ => eq_refl) H)
         |rewrite (eqf_get asis _ _ (fun _ => eq_refl) H)|rewrite (eqf_get ifdepth _ _ (fun _ => eq_refl) H)
         |rewrite (eqf_get udef _ _ (fun _ => eq_refl) H)|rewrite (eqf_get umacros _ _ (fun _ => eq_refl) H)
         |rewrite (eqf_get bf _ _ (fun _ => eq_refl) H)|rewrite (eqf_get dtags _ _ (fun _ => eq_refl) H)
         |rewrite (eqf_get verse _ _ (fun _ => eq_refl) H)|rewrite (fmt_eqf _ _ H)|rewrite (eqf_get mode _ _ (fun _ => eq_refl) H)|rewrite (eqf_get panicked _ _ (fun _ => eq_refl) H)]; assumption. Qed.
Definition is_bd (sc : scope) : Prop := sc_macro sc = R "Bd".
Definition P (p : bool) (s : st) : Prop := Side s /\ Forall is_bd (sblock s) /\ process s = p /\ (p = true -> InvL s).
Definition in_frag (b : block) : Prop :=
  match b with BText _ _ => True | BMacro n a _ => n = R "Bm" \/ n = R "Em" \/ n = R "Sm" \/ (n = R "P" /\ a = []) \/ n = R "Bd" \/ n = R "Ed" end.

Lemma top_app {A} (l : list A) x : top (l ++ [x]) = Some x.
Proof. unfold top. rewrite map_app. cbn [map]. induction (map Some l) as [|a r IH]; [reflexivity|]. cbn [app]. destruct (r ++ [Some x]) eqn:E; [destruct r; discriminate|]. exact IH. Qed.
Lemma top_in {A} (l : list A) x : top l = Some x -> In x l.
Proof. intro H. rewrite (top_pop l x H). apply in_or_app. right. left. reflexivity. Qed.
Lemma scope_verse_bd s : Forall is_bd (sblock s) -> scope_verse s = false.
Proof. intro H. unfold scope_verse. destruct (top (sblock s)) as [sc|] eqn:E; [|reflexivity].
  rewrite Forall_forall in H. rewrite (H sc (top_in _ _ E)). reflexivity. Qed.
Lemma InvL_regs s s' : out s' = out s -> view s' = view s -> buf s' = buf s -> format s' = format s -> InvL s -> InvL s'.
Proof. intros Ho Hv Hb Hf [A B C]. split.
  - unfold depthL. rewrite Ho, Hv. exact A.
  - assert (Hp : par s' = par s) by (exact (f_equal (fun v => fst (fst (fst (snd v)))) Hv)). rewrite Hp, Hb. exact B.
  - unfold fmt in *. rewrite Hf. exact C. Qed.

(* ---------- the default markup table ---------- *)
Lemma target_textual id : escapedL id -> textualL (L.target id).
Proof. intros [t ->]. unfold L.target. destruct (latex_escape t) eqn:E; [apply textualL_nil|]. rewrite <- E.
  intro d. rewrite !runL_app. change (runL (R "\hypertarget{") (LTxt, d)) with (LTxt, S d). rewrite latex_escape_textual. reflexivity. Qed.
Lemma markup_okL_nil : markup_okL [].
Proof. intros tag id Hid. split.
  - exists (L.target id ++ R "\emph{"). split.
    + intros s Hs. unfold L.begin_markup_block. rewrite Hs. reflexivity.
    + intro d. rewrite runL_app, (target_textual id Hid). reflexivity.
  - intros punct Hp. exists ([] ++ R "}" ++ punct). split.
    + intros s Hs. unfold L.end_markup_block. rewrite Hs. reflexivity.
    + apply (brace_close punct Hp). Qed.

(* ---------- end of file: closeUnclosedScopes(scopeInline), then the open paragraph ---------- *)
Lemma top_none {A} (l : list A) : top l = None -> l = [].
Proof. unfold top. destruct l as [|a l]; [reflexivity|]. intro H. exfalso. revert a H. induction l as [|b l IH]; intros a H; [discriminate|]. exact (IH b H). Qed.
Lemma pop_length {A} (l : list A) : List.length (pop l) = (List.length l - 1)%nat.
Proof. unfold pop. induction l as [|a [|b r] IH]; [reflexivity|reflexivity|]. change (removelast (a :: b :: r)) with (a :: removelast (b :: r)).
  cbn [List.length] in *. rewrite IH. lia. Qed.
Lemma InvL_quiet q s : InvL s -> InvL (s <| quiet := q |>). Proof. intros [A B C]. split; assumption. Qed.
Lemma set_quiet_eqf q s : s <| quiet := q |> ~= s. Proof. destruct s; reflexivity. Qed.
Lemma set_macro_eqf q s : s <| macro := q |> ~= s. Proof. destruct s; reflexivity. Qed.
Lemma set_args_eqf q s : s <| args := q |> ~= s. Proof. destruct s; reflexivity. Qed.

Lemma close_inline_loop_P cur : forall f s, P true s -> (List.length (sinline s) <= f)%nat ->
  P true (close_inline_loop f cur s) /\ (List.length (sinline s) < f -> sinline (close_inline_loop f cur s) = [])%nat.
Proof. induction f as [|f IH]; intros s HP Hl; cbn [close_inline_loop]; [split; [exact HP|lia]|].
  destruct (top (sinline s)) as [sc|] eqn:Etop; [|split; [exact HP|intros _; apply top_none; exact Etop]].
  destruct HP as (HS & Hsb & Hpr & HI). specialize (HI eq_refl).
  set (s2 := warn_unclosed sc (s <| macro := cur |>) <| macro := R "Em" |> <| args := tag_args (sc_tag sc) |>).
  assert (F2 : s2 ~= s).
  { unfold s2. eapply eqf_trans; [apply set_args_eqf|]. eapply eqf_trans; [apply set_macro_eqf|].
    eapply eqf_trans; [apply eqd_eqf, err_eqd|apply set_macro_eqf]. }
  assert (Hsi2 : sinline s2 = sinline s).
  { unfold s2. change (sinline (warn_unclosed sc (s <| macro := cur |>) <| macro := R "Em" |> <| args := tag_args (sc_tag sc) |>)) with (sinline (warn_unclosed sc (s <| macro := cur |>))).
    unfold warn_unclosed. rewrite (eqd_get sinline _ _ (fun _ => eq_refl) (err_eqd _ _)). reflexivity. }
  assert (HI2 : InvL s2).
  { unfold s2. apply (InvL_regs (warn_unclosed sc (s <| macro := cur |>))); try reflexivity.
    unfold warn_unclosed. apply (InvL_eqd _ _ (err_eqd _ _)). apply (InvL_regs s); try reflexivity. exact HI. }
  set (s2q := s2 <| quiet := true |>).
  assert (F2q : s2q ~= s) by (eapply eqf_trans; [apply set_quiet_eqf|exact F2]).
  pose proof (Side_eqf _ _ F2q HS) as HS2q.
  assert (Hpr2q : process s2q = true) by (rewrite (eqf_get process _ _ (fun _ => eq_refl) F2q); exact Hpr).
  destruct (macro_em_eqf s2q (sd_fmt _ HS2q) (sd_mk _ HS2q)) as [Fem Hpop]. specialize (Hpop Hpr2q).
  pose proof (InvL_macro_em s2q (InvL_quiet true s2 HI2) (sd_mk _ HS2q) Hpr2q (sd_inl _ HS2q)) as HIem.
  set (s3 := macro_em s2q <| quiet := quiet s2 |> <| args := [] |>).
  assert (F3 : s3 ~= s) by (unfold s3; eapply eqf_trans; [apply set_args_eqf|]; eapply eqf_trans; [apply set_quiet_eqf|]; eapply eqf_trans; [exact Fem|exact F2q]).
  assert (HI3 : InvL s3) by (unfold s3; apply (InvL_regs (macro_em s2q)); try reflexivity; exact HIem).
  assert (Hsi3 : sinline s3 = pop (sinline s)) by (unfold s3; change (sinline (macro_em s2q <| quiet := quiet s2 |> <| args := [] |>)) with (sinline (macro_em s2q)); rewrite Hpop; exact (f_equal pop Hsi2)).
  assert (HP3 : P true s3) by (split; [apply (Side_eqf _ _ F3 HS)|split; [rewrite (eqf_get sblock _ _ (fun _ => eq_refl) F3); exact Hsb|split; [rewrite (eqf_get process _ _ (fun _ => eq_refl) F3); exact Hpr|intros _; exact HI3]]]).
  assert (Hl3 : (List.length (sinline s3) <= f)%nat) by (rewrite Hsi3, pop_length; lia).
  destruct (IH s3 HP3 Hl3) as [H1 H2]. split; [exact H1|]. intro Hlt. apply H2. rewrite Hsi3, pop_length.
  assert (List.length (sinline s) <> 0)%nat by (destruct (sinline s); [discriminate|cbn; lia]). lia.
Qed.

Lemma close_unclosed_inline_P s : P true s -> P true (close_unclosed_inline s) /\ sinline (close_unclosed_inline s) = [].
Proof. intro HP. unfold close_unclosed_inline. destruct (sinline s) as [|sc l] eqn:E; [split; [exact HP|exact E]|].
  set (s0 := s <| args := [] |>).
  assert (HP0 : P true s0).
  { destruct HP as (HS & Hsb & Hpr & HI). split; [apply (Side_eqf _ _ (set_args_eqf [] s) HS)|]. split; [exact Hsb|]. split; [exact Hpr|]. intros _. apply (InvL_regs s); try reflexivity. exact (HI eq_refl). }
  assert (Hl : (List.length (sinline s0) <= S (List.length (sc :: l)))%nat) by (change (sinline s0) with (sinline s); rewrite E; lia).
  destruct (close_inline_loop_P (macro s) (S (List.length (sc :: l))) s0 HP0 Hl) as [H1 H2].
  set (r := close_inline_loop (S (List.length (sc :: l))) (macro s) s0) in *.
  split.
  - destruct H1 as (HS & Hsb & Hpr & HI). split; [eapply Side_eqf; [|exact HS]; eapply eqf_trans; [apply set_args_eqf|apply set_macro_eqf]|]. split; [exact Hsb|]. split; [exact Hpr|].
    intros _. apply (InvL_regs r); try reflexivity. exact (HI eq_refl).
  - change (sinline (r <| macro := macro s |> <| args := args s |>)) with (sinline r). apply H2. change (sinline s0) with (sinline s). rewrite E. lia.
Qed.

Lemma end_par_P s : P true s -> sinline s = [] ->
  let s' := end_par PNormal s in P true s' /\ par s' = false /\ sinline s' = [] /\ s' ~= s.
Proof. intros (HS & Hsb & Hpr & HI) Hsi. specialize (HI eq_refl). cbv zeta. unfold end_par. destruct (par s) eqn:Ep.
  2:{ split; [split; [exact HS|split; [exact Hsb|split; [exact Hpr|intros _; exact HI]]]|]. split; [assumption|]. split; [assumption|apply eqf_refl]. }
  unfold process_paragraph, format_paragraph, end_paragraph. rewrite (sd_fmt _ HS). unfold L.format_paragraph.
  set (s1 := wo (flat (buf s)) s <| buf := [] |> <| par := false |>).
  assert (F1 : s1 ~= s) by (unfold s1, wo; destruct s; reflexivity).
  rewrite (fmt_eqf _ _ F1), (sd_fmt _ HS). unfold L.end_paragraph.
  assert (Hp1 : par s1 = false) by reflexivity.
  assert (Hw : w (NLs ++ NLs) s1 = s1 <| wout ::= cons (NLs ++ NLs) |>) by (unfold w; rewrite Hp1; reflexivity). rewrite Hw.
  set (s2 := s1 <| wout ::= cons (NLs ++ NLs) |>).
  assert (F2 : s2 ~= s) by (eapply eqf_trans; [|exact F1]; unfold s2; destruct s1; reflexivity).
  split; [|split; [reflexivity|split; [exact Hsi|exact F2]]].
  split; [apply (Side_eqf _ _ F2 HS)|]. split; [rewrite (eqf_get sblock _ _ (fun _ => eq_refl) F2); exact Hsb|]. split; [rewrite (eqf_get process _ _ (fun _ => eq_refl) F2); exact Hpr|]. intros _.
  apply (InvL_step s _ (NLs ++ NLs) HI).
  - unfold out. change (wout s2) with ((NLs ++ NLs) :: flat (buf s) :: wout s). change (buf s2) with (@nil str).
    rewrite !flat_cons, flat_nil, app_nil_r. reflexivity.
  - unfold depthL, view, depth_v. change (par s2) with false. rewrite Ep, Hsi. reflexivity.
  - reflexivity.
  - rewrite (fmt_eqf _ _ F2). exact (sd_fmt _ HS).
Qed.

Lemma close_inline_loop_eqf cur : forall n s, fmt s = FL -> markup_okL (mtags s) -> close_inline_loop n cur s ~= s.
Proof. induction n as [|n IH]; intros s Hf Hm; [apply eqf_refl|]. cbn [close_inline_loop]. destruct (top (sinline s)) as [sc|]; [|apply eqf_refl].
  set (s2 := warn_unclosed sc (s <| macro := cur |>) <| macro := R "Em" |> <| args := tag_args (sc_tag sc) |>).
  assert (F2 : s2 <| quiet := true |> ~= s).
  { eapply eqf_trans; [apply set_quiet_eqf|]. unfold s2. eapply eqf_trans; [apply set_args_eqf|]. eapply eqf_trans; [apply set_macro_eqf|].
    eapply eqf_trans; [apply eqd_eqf, err_eqd|apply set_macro_eqf]. }
  destruct (macro_em_eqf (s2 <| quiet := true |>) ltac:(rewrite (fmt_eqf _ _ F2); exact Hf) ltac:(rewrite (mtags_eqf _ _ F2); exact Hm)) as [Fem _].
  set (s3' := macro_em (s2 <| quiet := true |>) <| quiet := quiet s2 |> <| args := [] |>).
  assert (F3 : s3' ~= s) by (unfold s3'; eapply eqf_trans; [apply set_args_eqf|]; eapply eqf_trans; [apply set_quiet_eqf|]; eapply eqf_trans; [exact Fem|exact F2]).
  eapply eqf_trans; [apply IH; [rewrite (fmt_eqf _ _ F3); exact Hf|rewrite (mtags_eqf _ _ F3); exact Hm]|exact F3]. Qed.
Lemma close_unclosed_inline_eqf s : fmt s = FL -> markup_okL (mtags s) -> close_unclosed_inline s ~= s.
Proof. intros Hf Hm. unfold close_unclosed_inline. destruct (sinline s) as [|x l]; [apply eqf_refl|].
  eapply eqf_trans; [apply set_args_eqf|]. eapply eqf_trans; [apply set_macro_eqf|].
  eapply eqf_trans; [apply close_inline_loop_eqf; [exact Hf|exact Hm]|apply set_args_eqf]. Qed.

(* ---------- display blocks ---------- *)
Lemma P_eqd p a b : a ~~ b -> P p b -> P p a.
Proof. intros E (HS & Hsb & Hpr & HI). split; [apply (Side_eqf _ _ (eqd_eqf _ _ E) HS)|].
  split; [rewrite (eqd_get sblock _ _ (fun _ => eq_refl) E); exact Hsb|]. split; [rewrite (eqd_get process _ _ (fun _ => eq_refl) E); exact Hpr|].
  intro Hp. apply (InvL_eqd _ _ E (HI Hp)). Qed.
Lemma push_block_spec m tag id r s : has_cur s = true -> exists sc, push_block m tag id r s = s <| sblock ::= fun l => l ++ [sc] |> /\ sc_macro sc = runes m /\ sc_tag sc = tag.
Proof. intro Hc. unfold push_block, mk_scope. destruct (cloc s) as [[[l n] f]|]; [|rewrite Hc]; eexists; repeat split. Qed.
Lemma Forall_pop {A} (Q : A -> Prop) l : Forall Q l -> Forall Q (pop l).
Proof. unfold pop. induction 1 as [|x l Hx Hl IH]; [constructor|]. destruct l as [|y r]; [constructor|]. change (removelast (x :: y :: r)) with (x :: removelast (y :: r)). constructor; assumption. Qed.
Lemma Side_set_sblock f s : Side s -> Side (s <| sblock ::= f |>).
Proof. intros [A1 A3 A4 A5 A6 A7 A8 A9 A10 A11 A12 A13]. split; assumption. Qed.

Lemma macro_bd_P p s : P p s -> has_cur s = true -> P p (macro_bd s).
Proof. intros HP Hc. pose proof HP as (HS & Hsb & Hpr & HI). unfold macro_bd. rewrite (scope_verse_bd _ Hsb).
  pose proof (parse_opts_eqd specOptBd (args s) s) as E1. destruct (parse_opts specOptBd (args s) s) as [o s1]. cbn [snd] in E1.
  pose proof (opt_render_eqd "id" o s1) as E2. pose proof (opt_render_escapedL "id" o s1) as Hid.
  destruct (opt_render "id" o s1) as [id s2]. cbn [fst snd] in *.
  assert (E : s2 ~~ s) by (eapply eqd_trans; eauto). specialize (Hid ltac:(rewrite (Inv.fmt_eqd _ _ E1); exact (sd_fmt _ HS))).
  pose proof (P_eqd _ _ _ E HP) as HP2.
  assert (Hpr2 : process s2 = p) by (exact (proj1 (proj2 (proj2 HP2)))). rewrite Hpr2. destruct p; cbn [negb].
  2:{ destruct id; [exact HP2|]. destruct HP2 as (HS2 & Hsb2 & _ & _). pose proof (store_id_eqf (r :: id) (mkId (gen_ref s2 [] (r :: id)) [] 2) s2) as F.
      split; [apply (Side_eqf _ _ F HS2)|]. split; [rewrite (eqf_get sblock _ _ (fun _ => eq_refl) F); exact Hsb2|]. split; [rewrite (eqf_get process _ _ (fun _ => eq_refl) F); exact Hpr2|discriminate]. }
  set (s3 := if contains_space id then _ else s2).
  assert (E3 : useless o s3 ~~ s2).
  { unfold useless. assert (E3' : s3 ~~ s2) by (unfold s3; destruct (contains_space id); [apply err_eqd|reflexivity]).
    destruct (po_args o); [exact E3'|]. eapply eqd_trans; [apply err_eqd|exact E3']. }
  destruct (close_unclosed_inline_P _ (P_eqd _ _ _ E3 HP2)) as [HP4 Hsi4].
  assert (Hc4 : has_cur (close_unclosed_inline (useless o s3)) = true).
  { pose proof (P_eqd _ _ _ E3 HP2) as (HSu & _). rewrite (eqf_get has_cur _ _ (fun _ => eq_refl) (close_unclosed_inline_eqf _ (sd_fmt _ HSu) (sd_mk _ HSu))).
    rewrite (eqd_get has_cur _ _ (fun _ => eq_refl) E3), (eqd_get has_cur _ _ (fun _ => eq_refl) E). exact Hc. }
  set (s4 := close_unclosed_inline (useless o s3)) in *. clearbody s4.
  pose proof (opt_render_eqd "t" o s4) as E5. destruct (opt_render "t" o s4) as [tag s5]. cbn [snd] in E5.
  pose proof (P_eqd _ _ _ E5 HP4) as HP5.
  assert (Hsi5 : sinline s5 = []) by (rewrite (eqd_get sinline _ _ (fun _ => eq_refl) E5); exact Hsi4).
  assert (Hdc : dtag_cmd tag s5 = []) by (unfold dtag_cmd; rewrite (sd_dt _ (proj1 HP5)); reflexivity). rewrite Hdc.
  destruct (end_par_P s5 HP5 Hsi5) as (HP6 & Hp6 & Hsi6 & F6). cbv zeta in HP6, Hp6, Hsi6, F6.
  set (s6 := end_par PNormal s5) in *. clearbody s6.
  assert (Hc6 : has_cur s6 = true) by (rewrite (eqf_get has_cur _ _ (fun _ => eq_refl) F6), (eqd_get has_cur _ _ (fun _ => eq_refl) E5); exact Hc4).
  destruct (push_block_spec "Bd" tag id (flag "r" o) s6 Hc6) as (sc & Epb & Emac & Etag). rewrite Epb.
  destruct HP6 as (HS6 & Hsb6 & Hpr6 & HI6). specialize (HI6 eq_refl).
  set (s6' := s6). assert (O6' : obs s6' = obs s6) by reflexivity. assert (F6' : s6' ~= s6) by apply eqf_refl.
  pose proof (Side_eqf _ _ F6' HS6) as HS6'.
  pose proof (InvL_obs _ _ O6' HI6) as HI6'.
  assert (Hsb6' : sblock s6' = sblock s6) by (apply (eqf_get sblock _ _ (fun _ => eq_refl) F6')).
  set (s7 := s6' <| sblock ::= fun l => l ++ [sc] |>).
  set (s8 := match tag with [] => s7 | _ => if has_key tag (dtags s7) then s7 else err "invalid tag" s7 end).
  assert (E8 : s8 ~~ s7) by (unfold s8; destruct tag; [reflexivity|]; destruct (has_key _ _); [reflexivity|apply err_eqd]).
  assert (HS7 : Side s7) by (apply Side_set_sblock; exact HS6').
  assert (HS8 : Side s8) by (apply (Side_eqf _ _ (eqd_eqf _ _ E8) HS7)).
  assert (Hx : exists c, begin_display_block tag id s8 = wl c s8 /\ textualL (flat c)).
  { unfold begin_display_block. rewrite (sd_fmt _ HS8). unfold L.begin_display_block, L.dcmd. rewrite (sd_dt _ HS8). cbn [assoc].
    destruct id as [|i0 id0] eqn:Eid; [exists []; split; [reflexivity|apply textualL_nil]|].
    exists [L.target (i0 :: id0) ++ NLs]. split; [reflexivity|]. change (flat [L.target (i0 :: id0) ++ NLs]) with ((L.target (i0 :: id0) ++ NLs) ++ []). rewrite app_nil_r.
    apply textualL_app; [apply target_textual; exact Hid|intro d; reflexivity]. }
  destruct Hx as [x [Ex Hx]]. rewrite Ex.
  assert (Hp8 : par s8 = false) by (rewrite (eqd_get par _ _ (fun _ => eq_refl) E8); change (par s7) with (par s6'); rewrite (obs_par _ _ O6'); exact Hp6).
  assert (Hsb8 : sblock s8 = sblock s6 ++ [sc]) by (rewrite (eqd_get sblock _ _ (fun _ => eq_refl) E8); unfold s7; cbn; rewrite Hsb6'; reflexivity).
  split; [apply (Side_eqf _ _ (wl_eqf x s8) HS8)|].
  split; [rewrite (eqf_get sblock _ _ (fun _ => eq_refl) (wl_eqf x s8)), Hsb8; apply Forall_app; split; [exact Hsb6|constructor; [exact Emac|constructor]]|].
  split; [rewrite (eqf_get process _ _ (fun _ => eq_refl) (wl_eqf x s8)), (eqd_get process _ _ (fun _ => eq_refl) E8); change (process s7) with (process s6');
          rewrite (eqf_get process _ _ (fun _ => eq_refl) F6'); exact Hpr6|].
  assert (Hb8 : buf s8 = []) by (rewrite (eqd_get buf _ _ (fun _ => eq_refl) E8); change (buf s7) with (buf s6'); rewrite (obs_buf _ _ O6'); apply (invl_buf _ HI6 Hp6)).
  intros _. apply (InvL_step s6' _ (flat x) HI6').
  - rewrite out_wl by (intros _; exact Hb8). rewrite (out_eqd _ _ E8). reflexivity.
  - unfold depthL. rewrite view_wl, (view_eqd _ _ E8). unfold view, depth_v. cbn [par sinline s7]. apply Hx.
  - apply bufc_wl. intros _. exact Hb8.
  - rewrite fmt_wl. exact (sd_fmt _ HS8).
Qed.

(* macroEd and closeUnclosedBlocks, one level of the mutual recursion unfolded *)
Definition cub_body (ed el : st -> st) (mname : string) (s : st) : st :=
      let scopes := sblock s in
      if Nat.leb (List.length scopes) 1 then s else
      if negb (existsb (fun sc => str_eqb (sc_macro sc) (runes mname) || (String.eqb mname "It" && str_eqb (sc_macro sc) (R "Bl"))) scopes) then s else
      match top scopes with
      | None => s
      | Some t0 =>
        if str_eqb (sc_macro t0) (macro s) || (String.eqb mname "It" && str_eqb (sc_macro t0) (R "Bl")) then s else
        let cur := macro s in let cura := args s in
        let fix loop (l : list scope) (s : st) : st :=
          match l with
          | [] => s
          | sc :: r =>
            if str_eqb (sc_macro sc) (runes mname) || (String.eqb mname "It" && str_eqb (sc_macro sc) (R "Bl")) then s else
            let s1 := end_par PNormal s in
            let is_list := str_eqb (sc_macro sc) (R "Bl") || str_eqb (sc_macro sc) (R "It") in
            let s2 := err "found macro while block isn't closed yet" s1 in
            let s3 := s2 <| macro := (if is_list then R "El" else R "Ed") |> <| args := tag_args (sc_tag sc) |> in
            let q := quiet s3 in
            let s4 := (if is_list then el else ed) (s3 <| quiet := true |>) in
            loop r (s4 <| quiet := q |> <| macro := cur |> <| args := cura |>)
          end in
        (loop (rev scopes) (s <| args := [] |>)) <| macro := cur |> <| args := cura |>
      end.
Definition ed_body (cub : string -> st -> st) (s : st) : st :=
      if scope_verse s then err "Ed disallowed within verse" s else
      if negb (process s) then s else
      let '(o, s1) := parse_opts specOptEd (args s) s in
      let s2 := match po_args o with [] => s1 | _ => err "useless arguments" s1 end in
      match last_scope "Bd" (sblock s2) with
      | None => err "no corresponding Bd" s2
      | Some sc =>
        let s3 := match opt "t" o with
                  | Some t => let '(tx, s') := inlines_text t s2 in if str_eqb tx (sc_tag sc) then s' else err "tag mismatch" s'
                  | None => if sc_req sc then err "missing required tag" s2 else s2
                  end in
        let pb := match dtag_cmd (sc_tag sc) s3 with [] => PNormal | _ => PBlock end in
        let s4 := cub "Bd"%string (close_unclosed_inline s3) in
        let s5 := end_par pb (s4 <| sblock ::= pop |>) in
        (end_display_block (sc_tag sc) s5) <| ws := false |>
      end.
Lemma closers_cub f : snd (closers (S f)) = cub_body (fst (fst (closers f))) (snd (fst (closers f))).
Proof. cbn [closers]. destruct (closers f) as [[ed el] cub]. reflexivity. Qed.
Lemma closers_ed f : fst (fst (closers (S f))) = ed_body (snd (closers (S f))).
Proof. cbn [closers]. destruct (closers f) as [[ed el] cub]. reflexivity. Qed.
Lemma closer_fuel_S s : exists f, closer_fuel s = S f.
Proof. unfold closer_fuel. exists (2 * List.length (sblock s) + 3)%nat. lia. Qed.

Lemma cub_bd ed el s : Forall is_bd (sblock s) -> cub_body ed el "Bd" s = s.
Proof. intro H. unfold cub_body. cbv zeta. destruct (Nat.leb _ 1); [reflexivity|]. destruct (negb _); [reflexivity|].
  destruct (top (sblock s)) as [t0|] eqn:Et; [|reflexivity]. destruct (_ || _); [reflexivity|].
  rewrite (top_pop _ _ Et) at 1. rewrite rev_app_distr. change (rev [t0]) with [t0]. cbn [app]. cbv beta iota fix.
  assert (Hb : is_bd t0) by (rewrite Forall_forall in H; apply H; apply (top_in _ _ Et)). unfold is_bd in Hb. rewrite Hb.
  change (str_eqb (R "Bd") (runes "Bd")) with true. cbn [orb]. destruct s; reflexivity. Qed.
Lemma last_scope_bd l : Forall is_bd l -> last_scope "Bd" l = top l.
Proof. unfold last_scope. intro H.
  assert (G : forall acc, fold_left (fun a sc => if str_eqb (sc_macro sc) (runes "Bd") then Some sc else a) l acc = match top l with Some x => Some x | None => acc end).
  { induction H as [|x r Hx Hr IH]; intro acc; [reflexivity|]. cbn [fold_left]. unfold is_bd in Hx. rewrite Hx. change (str_eqb (R "Bd") (runes "Bd")) with true. cbv iota.
    rewrite IH. destruct r as [|y r']; [reflexivity|]. change (top (x :: y :: r')) with (top (y :: r')). destruct (top (y :: r')) eqn:E; [reflexivity|]. apply top_none in E. discriminate. }
  rewrite G. destruct (top l); reflexivity. Qed.

Lemma end_par_pop_comm s : fmt s = FL -> end_par PNormal (s <| sblock ::= pop |>) = (end_par PNormal s) <| sblock ::= pop |>.
Proof. intro Hf. unfold end_par. change (par (s <| sblock ::= pop |>)) with (par s). destruct (par s) eqn:Ep; [|reflexivity].
  unfold process_paragraph, format_paragraph, end_paragraph.
  change (fmt (s <| sblock ::= pop |>)) with (fmt s). rewrite Hf. unfold L.format_paragraph, wo.
  change (fmt (s <| sblock ::= pop |> <| wout ::= cons (flat (buf (s <| sblock ::= pop |>))) |> <| buf := [] |> <| par := false |>)) with (fmt s).
  change (fmt (s <| wout ::= cons (flat (buf s)) |> <| buf := [] |> <| par := false |>)) with (fmt s). rewrite Hf.
  unfold L.end_paragraph, w. cbn. destruct s; reflexivity. Qed.

Lemma macro_ed_P p s : P p s -> P p (macro_ed s) /\ (p = true -> sblock (macro_ed s) = pop (sblock s) /\ (par s = false -> par (macro_ed s) = false)).
Proof. intros HP. pose proof HP as (HS & Hsb & Hpr & HI). unfold macro_ed. destruct (closer_fuel_S s) as [f ->]. rewrite closers_ed, closers_cub.
  unfold ed_body. rewrite (scope_verse_bd _ Hsb), Hpr. destruct p; cbn [negb]; [|split; [exact HP|discriminate]].
  pose proof (parse_opts_eqd specOptEd (args s) s) as E1. destruct (parse_opts specOptEd (args s) s) as [o s1]. cbn [snd] in E1.
  set (s2 := match po_args o with [] => s1 | _ => _ end).
  assert (E2 : s2 ~~ s) by (unfold s2; destruct (po_args o); [exact E1|eapply eqd_trans; [apply err_eqd|exact E1]]).
  pose proof (P_eqd _ _ _ E2 HP) as HP2. clearbody s2.
  rewrite (last_scope_bd _ (proj1 (proj2 HP2))).
  assert (Hsb2 : sblock s2 = sblock s) by (apply (eqd_get sblock _ _ (fun _ => eq_refl) E2)).
  destruct (top (sblock s2)) as [sc|] eqn:Etop.
  2:{ split; [apply (P_eqd _ _ _ (err_eqd _ _) HP2)|]. intros _. split; [rewrite (eqd_get sblock _ _ (fun _ => eq_refl) (err_eqd _ s2)), <- Hsb2, (top_none _ Etop); reflexivity|].
      rewrite (eqd_get par _ _ (fun _ => eq_refl) (err_eqd _ s2)), (eqd_get par _ _ (fun _ => eq_refl) E2). exact (fun H => H). }
  set (s3 := match opt "t" o with Some t => _ | None => _ end).
  assert (E3 : s3 ~~ s2).
  { unfold s3. destruct (opt "t" o) as [t|].
    - pose proof (inlines_text_eqd t s2) as H. destruct (inlines_text t s2) as [tx s']. cbn [snd] in H.
      destruct (str_eqb tx (sc_tag sc)); [exact H|]. eapply eqd_trans; [apply err_eqd|exact H].
    - destruct (sc_req sc); [apply err_eqd|reflexivity]. }
  pose proof (P_eqd _ _ _ E3 HP2) as HP3.
  assert (Hsb3 : sblock s3 = sblock s2) by (apply (eqd_get sblock _ _ (fun _ => eq_refl) E3)).
  assert (Hdc : dtag_cmd (sc_tag sc) s3 = []) by (unfold dtag_cmd; rewrite (sd_dt _ (proj1 HP3)); reflexivity). rewrite Hdc.
  clearbody s3.
  destruct (close_unclosed_inline_P _ HP3) as [HP4 Hsi4].
  assert (Hsb4 : sblock (close_unclosed_inline s3) = sblock s3).
  { unfold close_unclosed_inline. destruct (sinline s3) as [|x l] eqn:Esi; [reflexivity|].
    change (sblock (close_inline_loop (S (List.length (x :: l))) (macro s3) (s3 <| args := [] |>) <| macro := macro s3 |> <| args := args s3 |>))
      with (sblock (close_inline_loop (S (List.length (x :: l))) (macro s3) (s3 <| args := [] |>))).
    generalize (S (List.length (x :: l))). intro n.
    assert (G : forall n s, fmt s = FL -> markup_okL (mtags s) -> sblock (close_inline_loop n (macro s3) s) = sblock s).
    { clear. induction n as [|n IH]; intros s Hf Hm; [reflexivity|]. cbn [close_inline_loop]. destruct (top (sinline s)) as [sc|]; [|reflexivity].
      set (s2 := warn_unclosed sc (s <| macro := macro s3 |>) <| macro := R "Em" |> <| args := tag_args (sc_tag sc) |>).
      assert (F2 : s2 <| quiet := true |> ~= s).
      { eapply eqf_trans; [apply set_quiet_eqf|]. unfold s2. eapply eqf_trans; [apply set_args_eqf|]. eapply eqf_trans; [apply set_macro_eqf|].
        eapply eqf_trans; [apply eqd_eqf, err_eqd|apply set_macro_eqf]. }
      destruct (macro_em_eqf (s2 <| quiet := true |>) ltac:(rewrite (fmt_eqf _ _ F2); exact Hf) ltac:(rewrite (mtags_eqf _ _ F2); exact Hm)) as [Fem _].
      set (s3' := macro_em (s2 <| quiet := true |>) <| quiet := quiet s2 |> <| args := [] |>).
      assert (F3 : s3' ~= s) by (unfold s3'; eapply eqf_trans; [apply set_args_eqf|]; eapply eqf_trans; [apply set_quiet_eqf|]; eapply eqf_trans; [exact Fem|exact F2]).
      rewrite IH; [apply (eqf_get sblock _ _ (fun _ => eq_refl) F3)|rewrite (fmt_eqf _ _ F3); exact Hf|rewrite (mtags_eqf _ _ F3); exact Hm]. }
    set (sx := s3 <| args := [] |>). change (sblock s3) with (sblock sx). apply G; [exact (sd_fmt _ (proj1 HP3))|exact (sd_mk _ (proj1 HP3))]. }
  set (s4 := close_unclosed_inline s3) in *. clearbody s4.
  rewrite (cub_bd _ _ s4 (proj1 (proj2 HP4))).
  rewrite (end_par_pop_comm s4 (sd_fmt _ (proj1 HP4))).
  destruct (end_par_P s4 HP4 Hsi4) as (HP6 & Hp6 & Hsi6 & F6). cbv zeta in HP6, Hp6, Hsi6, F6.
  set (s6 := end_par PNormal s4) in *. clearbody s6.
  destruct HP6 as (HS6 & Hsb6 & Hpr6 & HI6). specialize (HI6 eq_refl).
  assert (Esb6 : sblock s6 = pop (sblock s6) ++ [sc]).
  { apply top_pop. rewrite (eqf_get sblock _ _ (fun _ => eq_refl) F6), Hsb4, Hsb3. exact Etop. }
  set (s7 := s6 <| sblock ::= pop |>).
  assert (HS7 : Side s7) by (apply Side_set_sblock; exact HS6).
  assert (Ex : end_display_block (sc_tag sc) s7 = s7).
  { unfold end_display_block. rewrite (sd_fmt _ HS7). unfold L.end_display_block, L.dcmd. rewrite (sd_dt _ HS7). cbn [assoc]. destruct (sc_tag sc); reflexivity. }
  rewrite Ex.
  assert (F8 : s7 <| ws := false |> ~= s7) by apply set_ws_eqf.
  split; [|intros _; split; [rewrite (eqf_get sblock _ _ (fun _ => eq_refl) F8); unfold s7; cbn; rewrite (eqf_get sblock _ _ (fun _ => eq_refl) F6), Hsb4, Hsb3, Hsb2; reflexivity|
    intros _; exact Hp6]].
  split; [apply (Side_eqf _ _ F8 HS7)|].
  split; [rewrite (eqf_get sblock _ _ (fun _ => eq_refl) F8); apply Forall_pop; exact Hsb6|].
  split; [rewrite (eqf_get process _ _ (fun _ => eq_refl) F8); exact Hpr6|].
  intros _. destruct HI6 as [A B C]. split; [exact A|exact B|exact C].
Qed.

Lemma Side_set_regs b s : Side s -> Side (set_regs b s).
Proof. intros [A1 A3 A4 A5 A6 A7 A8 A9 A10 A11 A12 A13]. destruct b; split; assumption. Qed.
Lemma P_set_regs p b s : P p s -> P p (set_regs b s) /\ has_cur (set_regs b s) = true.
Proof. intros (HS & Hsb & Hpr & HI). split; [|destruct b; reflexivity].
  split; [apply Side_set_regs; exact HS|]. split; [destruct b; exact Hsb|]. split; [destruct b; exact Hpr|].
  intro Hp. apply (InvL_regs s); [..|exact (HI Hp)]; unfold set_regs; destruct b; reflexivity. Qed.
Lemma P_after_handler p n s : P p s -> P p (after_handler n s).
Proof. intros (HS & Hsb & Hpr & HI). pose proof (after_handler_eqf n s) as F.
  split; [apply (Side_eqf _ _ F HS)|]. split; [rewrite (eqf_get sblock _ _ (fun _ => eq_refl) F); exact Hsb|].
  split; [rewrite (eqf_get process _ _ (fun _ => eq_refl) F); exact Hpr|].
  intro Hp. apply (InvL_regs s); [..|exact (HI Hp)]; unfold after_handler; destruct (elided s); try reflexivity; destruct (is_control_name n); reflexivity. Qed.

(* BLOCKS4-HERE *)
Lemma step_frag pb p b c s : in_frag b -> P p s -> P p (snd (step pb b (c, s))).
Proof. intros Hb HP. unfold step. cbv zeta.
  destruct (P_set_regs p b s HP) as [HP0 Hc0]. clear HP.
  set (s0 := set_regs b s) in *.
  pose proof HP0 as (HS & Hsb & Hpr & HI). pose proof HS as HS0. pose proof Hsb as Hsb0. pose proof Hpr as Hpr0. pose proof HI as HI0.
  assert (F0 : s0 ~= s0) by apply eqf_refl.
  destruct HS0 as [A1 A3 A4 A5 A6 A7 A8 A9 A10 A11 A12 A13].
  rewrite A5, A6. cbn [Nat.ltb Nat.leb].
  assert (Hv : par s0 = false -> scope_verse s0 = false) by (intros _; apply scope_verse_bd; exact Hsb0).
  destruct b as [n a l|t l].
  - rewrite A3, A7. cbn [assoc].
    assert (Ebf : bf_check n s0 = s0) by (unfold bf_check; rewrite A8; reflexivity).
    destruct Hb as [-> | [-> | [-> | [[-> ->] | [-> | ->]]]]].
    + change (control_builtin pb (R "Bm")) with (@None (cst -> cst)). change (builtin (R "Bm")) with (Some macro_bm). cbn [snd]. rewrite Ebf.
      pose proof (macro_bm_eqf s0 A11 A1 Hc0) as F1.
      assert (F : after_handler (R "Bm") (macro_bm s0) ~= s0) by (eapply eqf_trans; [apply after_handler_eqf|exact F1]).
      split; [apply (Side_eqf _ _ F HS)|]. split; [rewrite (eqf_get sblock _ _ (fun _ => eq_refl) F); exact Hsb|]. split; [rewrite (eqf_get process _ _ (fun _ => eq_refl) F); exact Hpr|].
      intro Hp. pose proof (InvL_macro_bm s0 (HI0 Hp) A1 (eq_trans Hpr0 Hp) A3 Hv) as H.
      apply (InvL_regs (macro_bm s0)); [..|exact H]; unfold after_handler; destruct (elided (macro_bm s0)); reflexivity.
    + change (control_builtin pb (R "Em")) with (@None (cst -> cst)). change (builtin (R "Em")) with (Some macro_em). cbn [snd]. rewrite Ebf.
      destruct (macro_em_eqf s0 A11 A1) as [F1 _].
      assert (F : after_handler (R "Em") (macro_em s0) ~= s0) by (eapply eqf_trans; [apply after_handler_eqf|exact F1]).
      split; [apply (Side_eqf _ _ F HS)|]. split; [rewrite (eqf_get sblock _ _ (fun _ => eq_refl) F); exact Hsb|]. split; [rewrite (eqf_get process _ _ (fun _ => eq_refl) F); exact Hpr|].
      intro Hp. pose proof (InvL_macro_em s0 (HI0 Hp) A1 (eq_trans Hpr0 Hp) A3) as H.
      apply (InvL_regs (macro_em s0)); [..|exact H]; unfold after_handler; destruct (elided (macro_em s0)); reflexivity.
    + change (control_builtin pb (R "Sm")) with (@None (cst -> cst)). change (builtin (R "Sm")) with (Some macro_sm). cbn [snd]. rewrite Ebf.
      pose proof (macro_sm_eqf s0 A11 A1) as F1.
      assert (F : after_handler (R "Sm") (macro_sm s0) ~= s0) by (eapply eqf_trans; [apply after_handler_eqf|exact F1]).
      split; [apply (Side_eqf _ _ F HS)|]. split; [rewrite (eqf_get sblock _ _ (fun _ => eq_refl) F); exact Hsb|]. split; [rewrite (eqf_get process _ _ (fun _ => eq_refl) F); exact Hpr|].
      intro Hp. pose proof (InvL_macro_sm s0 (HI0 Hp) A1 (eq_trans Hpr0 Hp) A3 Hv) as H.
      apply (InvL_regs (macro_sm s0)); [..|exact H]; unfold after_handler; destruct (elided (macro_sm s0)); reflexivity.
    + change (control_builtin pb (R "P")) with (@None (cst -> cst)). change (builtin (R "P")) with (Some (macro_p pim)). cbn [snd]. rewrite Ebf.
      assert (Ha0 : args s0 = []) by reflexivity.
      pose proof (macro_p_plain_eqf pim s0 A11 A1 Ha0 A10) as F1.
      assert (F : after_handler (R "P") (macro_p pim s0) ~= s0) by (eapply eqf_trans; [apply after_handler_eqf|exact F1]).
      split; [apply (Side_eqf _ _ F HS)|]. split; [rewrite (eqf_get sblock _ _ (fun _ => eq_refl) F); exact Hsb|]. split; [rewrite (eqf_get process _ _ (fun _ => eq_refl) F); exact Hpr|].
      intro Hp. pose proof (InvL_macro_p_plain pim s0 (HI0 Hp) A1 (eq_trans Hpr0 Hp) Ha0 (scope_verse_bd _ Hsb0)) as H.
      apply (InvL_regs (macro_p pim s0)); [..|exact H]; unfold after_handler; destruct (elided (macro_p pim s0)); reflexivity.
    + change (control_builtin pb (R "Bd")) with (@None (cst -> cst)). change (builtin (R "Bd")) with (Some macro_bd). cbn [snd]. rewrite Ebf.
      apply P_after_handler, macro_bd_P; [exact HP0|exact Hc0].
    + change (control_builtin pb (R "Ed")) with (@None (cst -> cst)). change (builtin (R "Ed")) with (Some macro_ed). cbn [snd]. rewrite Ebf.
      apply P_after_handler, macro_ed_P. exact HP0.
  - cbn [snd]. unfold text_block.
    pose proof (process_text_eqf s0 A4 A11 A1) as F1.
    assert (Ebf : bf (process_text s0) = None) by (rewrite (eqf_get bf _ _ (fun _ => eq_refl) F1); exact A8). rewrite Ebf.
    assert (F : process_text s0 <| prev := [] |> ~= s0) by (eapply eqf_trans; [apply set_prev_eqf|exact F1]).
    split; [apply (Side_eqf _ _ F HS)|]. split; [rewrite (eqf_get sblock _ _ (fun _ => eq_refl) F); exact Hsb|]. split; [rewrite (eqf_get process _ _ (fun _ => eq_refl) F); exact Hpr|].
    intro Hp. pose proof (InvL_process_text s0 (HI0 Hp) A1 (eq_trans Hpr0 Hp) A4) as H.
    apply (InvL_regs (process_text s0)); [..|exact H]; reflexivity.
Qed.

Theorem frag_invariant p : forall fuel bs cs, Forall in_frag bs -> P p (snd cs) -> P p (snd (run_blocks (S fuel) bs cs)).
Proof. intros f bs cs Hbs. cbn [run_blocks]. revert cs. induction Hbs as [|b rest Hb Hrest IHb]; intros cs HP; [exact HP|].
  cbn [walk]. destruct cs as [c s]. pose proof (step_frag (run_blocks f) p b c s Hb HP) as H1.
  destruct (panicked (snd (step (run_blocks f) b (c, s)))); [exact H1|]. apply IHb. exact H1. Qed.

Lemma P_same p a b : a ~= b -> out a = out b -> view a = view b -> buf a = buf b -> P p b -> P p a.
Proof. intros F Ho Hv Hb (HS & Hsb & Hpr & HI). split; [apply (Side_eqf _ _ F HS)|]. split; [rewrite (eqf_get sblock _ _ (fun _ => eq_refl) F); exact Hsb|].
  split; [rewrite (eqf_get process _ _ (fun _ => eq_refl) F); exact Hpr|]. intro Hp. apply (InvL_regs b); [exact Ho|exact Hv|exact Hb|apply (eqf_get format _ _ (fun _ => eq_refl) F)|exact (HI Hp)]. Qed.

Lemma close_block_loop_P cur : forall f s, P true s -> par s = false -> (List.length (sblock s) <= f)%nat ->
  P true (close_block_loop f cur s) /\ par (close_block_loop f cur s) = false /\ (List.length (sblock s) < f -> sblock (close_block_loop f cur s) = [])%nat.
Proof. induction f as [|f IH]; intros s HP Hp Hl; cbn [close_block_loop]; [split; [exact HP|split; [exact Hp|lia]]|].
  destruct (top (sblock s)) as [sc|] eqn:Etop; [|split; [exact HP|split; [exact Hp|intros _; apply top_none; exact Etop]]].
  assert (Hbd : is_bd sc) by (destruct HP as (_ & Hsb & _); rewrite Forall_forall in Hsb; apply Hsb, (top_in _ _ Etop)).
  unfold is_bd in Hbd. rewrite Hbd. change (str_eqb (R "Bd") (R "Bl") || str_eqb (R "Bd") (R "It")) with false. cbv iota.
  set (s2 := warn_unclosed sc (s <| macro := cur |>) <| macro := R "Ed" |> <| args := tag_args (sc_tag sc) |>).
  set (s2q := s2 <| quiet := true |>).
  assert (HP2q : P true s2q).
  { apply (P_same true _ (warn_unclosed sc (s <| macro := cur |>))); [unfold s2q, s2; destruct (warn_unclosed sc (s <| macro := cur |>)); reflexivity|reflexivity|reflexivity|reflexivity|].
    unfold warn_unclosed. apply (P_eqd _ _ _ (err_eqd _ _)). apply (P_same true _ s); [destruct s; reflexivity|reflexivity|reflexivity|reflexivity|exact HP]. }
  assert (Hsb2q : sblock s2q = sblock s) by (unfold s2q, s2, warn_unclosed; cbn; rewrite (eqd_get sblock _ _ (fun _ => eq_refl) (err_eqd _ _)); reflexivity).
  assert (Hp2q : par s2q = false) by (unfold s2q, s2, warn_unclosed; cbn; rewrite (eqd_get par _ _ (fun _ => eq_refl) (err_eqd _ _)); exact Hp).
  destruct (macro_ed_P true s2q HP2q) as [HPe He]. destruct (He eq_refl) as [Hpop Hpar]. specialize (Hpar Hp2q).
  set (s3 := macro_ed s2q <| quiet := quiet s2 |> <| args := [] |>).
  assert (HP3 : P true s3) by (apply (P_same true _ (macro_ed s2q)); [unfold s3; destruct (macro_ed s2q); reflexivity|reflexivity|reflexivity|reflexivity|exact HPe]).
  assert (Hsb3 : sblock s3 = pop (sblock s)) by (unfold s3; cbn; rewrite Hpop, Hsb2q; reflexivity).
  assert (Hp3 : par s3 = false) by exact Hpar.
  assert (Hl3 : (List.length (sblock s3) <= f)%nat) by (rewrite Hsb3, pop_length; lia).
  destruct (IH s3 HP3 Hp3 Hl3) as (H1 & H2 & H3). split; [exact H1|]. split; [exact H2|]. intro Hlt. apply H3. rewrite Hsb3, pop_length.
  assert (List.length (sblock s) <> 0)%nat by (destruct (sblock s); [discriminate|cbn; lia]). lia.
Qed.

Lemma close_unclosed_block_P s : P true s -> par s = false ->
  P true (close_unclosed_block s) /\ par (close_unclosed_block s) = false /\ sblock (close_unclosed_block s) = [].
Proof. intros HP Hp. unfold close_unclosed_block. destruct (sblock s) as [|sc l] eqn:E; [split; [exact HP|split; [exact Hp|exact E]]|].
  set (s0 := s <| args := [] |>).
  assert (HP0 : P true s0) by (apply (P_same true _ s); [destruct s; reflexivity|reflexivity|reflexivity|reflexivity|exact HP]).
  assert (Hl : (List.length (sblock s0) <= S (S (List.length (sc :: l))))%nat) by (change (sblock s0) with (sblock s); rewrite E; lia).
  destruct (close_block_loop_P (macro s) (S (S (List.length (sc :: l)))) s0 HP0 Hp Hl) as (H1 & H2 & H3).
  set (r := close_block_loop (S (S (List.length (sc :: l)))) (macro s) s0) in *.
  split; [apply (P_same true _ r); [destruct r; reflexivity|reflexivity|reflexivity|reflexivity|exact H1]|]. split; [exact H2|].
  change (sblock (r <| macro := macro s |> <| args := args s |>)) with (sblock r). apply H3. change (sblock s0) with (sblock s). rewrite E. lia.
Qed.

Lemma depth_closed s : par s = false -> depthL s = 0%nat.
Proof. intros Hp. unfold depthL, view, depth_v. rewrite Hp. reflexivity. Qed.

Lemma eof_sweep_P s : P true s -> let s' := eof_sweep s in Side s' /\ InvL s' /\ par s' = false /\ sblock s' = [].
Proof. intros HP. cbv zeta. unfold eof_sweep.
  set (s3 := s <| has_cur := false |> <| macro := R "End Of File" |>).
  assert (HP3 : P true s3).
  { destruct HP as ([A1 A3 A4 A5 A6 A7 A8 A9 A10 A11 A12 A13] & Hsb & Hpr & HI). split; [split; assumption|]. split; [exact Hsb|]. split; [exact Hpr|].
    intro Hp. apply (InvL_regs s); try reflexivity. exact (HI Hp). }
  destruct (close_unclosed_inline_P s3 HP3) as [HPa Hsia].
  destruct (end_par_P _ HPa Hsia) as (HPb & Hpb & _). cbv zeta in HPb, Hpb.
  set (sb := end_par PNormal (close_unclosed_inline s3)) in *. clearbody sb.
  destruct (close_unclosed_block_P sb HPb Hpb) as (HPc & Hpc & Hsbc).
  set (sc := close_unclosed_block sb) in *. clearbody sc.
  destruct HPc as (HSc & _ & _ & HIc). specialize (HIc eq_refl).
  set (s5 := fold_left (fun a x => warn_unclosed x a) (rev (sif sc)) sc).
  assert (E5 : s5 ~~ sc) by (apply fold_err_eqd; intros a x; apply err_eqd).
  rewrite (eqd_get bf _ _ (fun _ => eq_refl) E5), (sd_bf _ HSc).
  rewrite (eqd_get udef _ _ (fun _ => eq_refl) E5), (sd_udef _ HSc).
  split; [apply (Side_eqf _ _ (eqd_eqf _ _ E5) HSc)|]. split; [apply (InvL_eqd _ _ E5 HIc)|].
  split; [rewrite (eqd_get par _ _ (fun _ => eq_refl) E5); exact Hpc|rewrite (eqd_get sblock _ _ (fun _ => eq_refl) E5); exact Hsbc].
Qed.

(* ---------- the two passes ---------- *)
Lemma P_start wd main : P false (start_st (R "latex") 0 wd main).
Proof. split; [split; try reflexivity; exact markup_okL_nil|]. split; [constructor|]. split; [reflexivity|discriminate]. Qed.

Lemma P_reset s : Side s -> P true (exp_reset (reset s)).
Proof. intro HS.
  assert (Hf : fmt (reset s) = FL) by (unfold fmt; change (format (reset s)) with (format s); exact (sd_fmt _ HS)).
  assert (Hm : mode (reset s) = 0%nat) by exact (sd_mode _ HS).
  unfold exp_reset. rewrite Hf.
  split; [split; try reflexivity; [exact (sd_mk _ HS)|exact (sd_dt _ HS)|exact Hf|exact Hm]|]. split; [constructor|]. split; [reflexivity|]. intros _.
  split; [reflexivity|reflexivity|exact Hf]. Qed.

Theorem C04_blocks_balanced fuel wd main bs : Forall in_frag bs ->
  let s := snd (compile (S fuel) (R "latex") 0 wd main bs) in
  panicked s = None /\
  runL (flat (wout s)) (LTxt, 0%nat) = (LTxt, 0%nat) /\ In (curfile s, flat (wout s)) (files s).
Proof. intros Hbs. unfold compile.
  pose proof (frag_invariant false fuel bs (start_ctl wd main, start_st (R "latex") 0 wd main) Hbs (P_start wd main)) as H1.
  destruct (run_blocks (S fuel) bs (start_ctl wd main, start_st (R "latex") 0 wd main)) as [c1 s1]. cbn [snd] in H1.
  rewrite (sd_np _ (proj1 H1)).
  pose proof (frag_invariant true fuel bs (set_budget 0 false c1, exp_reset (reset s1)) Hbs (P_reset s1 (proj1 H1))) as H2.
  destruct (run_blocks (S fuel) bs (set_budget 0 false c1, exp_reset (reset s1))) as [c2 s2]. cbn [snd] in H2.
  rewrite (sd_np _ (proj1 H2)).
  destruct (eof_sweep_P s2 H2) as (HS & HI & Hp & Hsb). cbv zeta in HS, HI, Hp, Hsb. set (s7 := eof_sweep s2) in *. clearbody s7.
  assert (Epost : exp_post s7 = s7) by (unfold exp_post; rewrite (sd_fmt _ HS); reflexivity). rewrite Epost.
  cbn [snd]. change (wout (s7 <| files ::= fun l => l ++ [(curfile s7, flat (wout s7))] |>)) with (wout s7).
  split; [exact (sd_np _ HS)|]. split.
  - destruct HI as [A B C]. unfold out in A. rewrite (B Hp), flat_nil, app_nil_r, (depth_closed _ Hp) in A. exact A.
  - change (files (s7 <| files ::= fun l => l ++ [(curfile s7, flat (wout s7))] |>)) with (files s7 ++ [(curfile s7, flat (wout s7))]).
    apply in_or_app. right. left. reflexivity.
Qed.
Print Assumptions C04_blocks_balanced.



(* non-vacuity and agreement with computation on a concrete document *)
Definition ex_src := runes "a & b
.Bd
.Bm
c <d>
.Bd -id x
nested
.Em !
.P
new paragraph
.Sm strong <t> .
.Ed
e
.Bm
left open
".
Definition ex_world := mkWorld [] [(R "m.frundis", ex_src)] [] false [].
Example blocksL_example :
  Forall in_frag (fst (parse ex_src)) /\
  (let s := compile_source (R "latex") 0 ex_world (R "m.frundis") in
   panicked s = None /\ flat (wout s) = runes "a \& b

\emph{c <d>}

\hypertarget{x}{}
nested

new paragraph
\emph{strong <t>}.

e
\emph{left open}

").
Proof. split; [|vm_compute; split; reflexivity].
  vm_compute.
  repeat (apply Forall_cons; [first [exact I | left; reflexivity | right; left; reflexivity | right; right; left; reflexivity | right; right; right; left; split; reflexivity
    | right; right; right; right; left; reflexivity | right; right; right; right; right; reflexivity]|]). apply Forall_nil. Qed.
