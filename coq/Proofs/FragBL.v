(* C04 (balance half) on the sub-language of FragB.v: text lines, .Bm/.Em/.Sm, .P with or without title, display blocks
   .Bd/.Ed nested to any depth; LaTeX, fragment mode, any world.  Mirrors FragB.v with the brace machine of TokL.v. *)
From Coq Require Import List NArith ZArith Bool Lia Arith String.
Import ListNotations.
Require Import Latex Exp Proc1 Proc2 Proc3 Ctl Loop Eqd Tok TokL Inv InvL EqFL InvIL.
Open Scope N_scope.
Arguments runL : simpl never.
Arguments rev : simpl never.
Arguments flat : simpl never.

(* ---------- the fragment: top-level text blocks, Bm and Em; no user macros, no open #if/#de, no filter region, no blocks ---------- *)
Record Side (s : st) : Prop := {
  sd_mk : markup_okL (mtags s); sd_inl : inl s = false; sd_asis : asis s = false;
  sd_if : ifdepth s = 0%nat; sd_udef : udef s = None; sd_um : umacros s = []; sd_bf : bf s = None;
  sd_dt : dtags s = []; sd_vs : verse s = false; sd_fmt : fmt s = FL; sd_mode : mode s = 0%nat;
  sd_np : panicked s = None; sd_iv : ivars s = []; sd_pa : params s = [(R "lang", R "en")];
  sd_lof : lox_lof s = []; sd_lot : lox_lot s = []; sd_lop : lox_lop s = []
}.
Lemma Side_eqf a b : a ~= b -> Side b -> Side a.
Proof. intros H [A1 A3 A4 A5 A6 A7 A8 A9 A10 A11 A12 A13 A14 A15 A18 A19 A20].
  split; [rewrite (eqf_get mtags _ _ (fun _ => eq_refl) H)|rewrite (eqf_get inl _ _ (fun _ => eq_refl) H)
         |rewrite (eqf_get asis _ _ (fun _ => eq_refl) H)|rewrite (eqf_get ifdepth _ _ (fun _ => eq_refl) H)
         |rewrite (eqf_get udef _ _ (fun _ => eq_refl) H)|rewrite (eqf_get umacros _ _ (fun _ => eq_refl) H)
         |rewrite (eqf_get bf _ _ (fun _ => eq_refl) H)|rewrite (eqf_get dtags _ _ (fun _ => eq_refl) H)
         |rewrite (eqf_get verse _ _ (fun _ => eq_refl) H)|rewrite (fmt_eqf _ _ H)|rewrite (eqf_get mode _ _ (fun _ => eq_refl) H)|rewrite (eqf_get panicked _ _ (fun _ => eq_refl) H)|rewrite (eqf_get ivars _ _ (fun _ => eq_refl) H)|rewrite (eqf_get params _ _ (fun _ => eq_refl) H)
         |rewrite (eqf_get lox_lof _ _ (fun _ => eq_refl) H)|rewrite (eqf_get lox_lot _ _ (fun _ => eq_refl) H)|rewrite (eqf_get lox_lop _ _ (fun _ => eq_refl) H)]; assumption. Qed.
Definition is_bd (sc : scope) : Prop := sc_macro sc = R "Bd".
Definition P (p : bool) (s : st) : Prop := Side s /\ Forall is_bd (sblock s) /\ process s = p /\ (p = true -> InvL s).
Definition in_frag (b : block) : Prop :=
  match b with BText _ _ => True | BMacro n a _ => n = R "Bm" \/ n = R "Em" \/ n = R "Sm" \/ n = R "P" \/ n = R "Bd" \/ n = R "Ed" \/ n = R "D" \/ n = R "Lk" end.

Lemma top_app {A} (l : list A) x : top (l ++ [x]) = Some x.
Proof. unfold top. rewrite map_app. cbn [map]. induction (map Some l) as [|a r IH]; [reflexivity|]. cbn [app]. destruct (r ++ [Some x]) eqn:E; [destruct r; discriminate|]. exact IH. Qed.
Lemma top_in {A} (l : list A) x : top l = Some x -> In x l.
Proof. intro H. rewrite (top_pop l x H). apply in_or_app. right. left. reflexivity. Qed.
Lemma scope_verse_bd s : Forall is_bd (sblock s) -> scope_verse s = false.
Proof. intro H. unfold scope_verse. destruct (top (sblock s)) as [sc|] eqn:E; [|reflexivity].
  rewrite Forall_forall in H. rewrite (H sc (top_in _ _ E)). reflexivity. Qed.
Lemma InvL_regs s s' : out s' = out s -> view s' = view s -> buf s' = buf s -> format s' = format s -> InvL s -> InvL s'.
Proof. intros Ho Hv Hb Hf [A B C]. split.
  - unfold depthL. rewrite Ho, Hv. exact A.
  - assert (Hp : par s' = par s) by (exact (f_equal (fun v => fst (fst (fst (snd v)))) Hv)). rewrite Hp, Hb. exact B.
  - unfold fmt in *. rewrite Hf. exact C. Qed.

(* ---------- the default markup table ---------- *)
Lemma target_textual id : escapedL id -> textualL (L.target id).
Proof. intros [t ->]. unfold L.target. destruct (latex_escape t) eqn:E; [apply textualL_nil|]. rewrite <- E.
  intro d. rewrite !runL_app. change (runL (R "\hypertarget{") (LTxt, d)) with (LTxt, S d). rewrite latex_escape_textual. reflexivity. Qed.
Lemma markup_okL_nil : markup_okL [].
Proof. intros tag id Hid. split.
  - exists (L.target id ++ R "\emph{"). split.
    + intros s Hs. unfold L.begin_markup_block. rewrite Hs. reflexivity.
    + intro d. rewrite runL_app, (target_textual id Hid). reflexivity.
  - intros punct Hp. exists ([] ++ R "}" ++ punct). split.
    + intros s Hs. unfold L.end_markup_block. rewrite Hs. reflexivity.
    + apply (brace_close punct Hp). Qed.

(* ---------- end of file: closeUnclosedScopes(scopeInline), then the open paragraph ---------- *)
Lemma top_none {A} (l : list A) : top l = None -> l = [].
Proof. unfold top. destruct l as [|a l]; [reflexivity|]. intro H. exfalso. revert a H. induction l as [|b l IH]; intros a H; [discriminate|]. exact (IH b H). Qed.
Lemma pop_length {A} (l : list A) : List.length (pop l) = (List.length l - 1)%nat.
Proof. unfold pop. induction l as [|a [|b r] IH]; [reflexivity|reflexivity|]. change (removelast (a :: b :: r)) with (a :: removelast (b :: r)).
  cbn [List.length] in *. rewrite IH. lia. Qed.
Lemma InvL_quiet q s : InvL s -> InvL (s <| quiet := q |>). Proof. intros [A B C]. split; assumption. Qed.

Lemma close_inline_loop_P cur : forall f s, P true s -> (List.length (sinline s) <= f)%nat ->
  P true (close_inline_loop f cur s) /\ (List.length (sinline s) < f -> sinline (close_inline_loop f cur s) = [])%nat.
Proof. induction f as [|f IH]; intros s HP Hl; cbn [close_inline_loop]; [split; [exact HP|lia]|].
  destruct (top (sinline s)) as [sc|] eqn:Etop; [|split; [exact HP|intros _; apply top_none; exact Etop]].
  destruct HP as (HS & Hsb & Hpr & HI). specialize (HI eq_refl).
  set (s2 := warn_unclosed sc (s <| macro := cur |>) <| macro := R "Em" |> <| args := tag_args (sc_tag sc) |>).
  assert (F2 : s2 ~= s).
  { unfold s2. eapply eqf_trans; [apply set_args_eqf|]. eapply eqf_trans; [apply set_macro_eqf|].
    eapply eqf_trans; [apply eqd_eqf, err_eqd|apply set_macro_eqf]. }
  assert (Hsi2 : sinline s2 = sinline s).
  { unfold s2. change (sinline (warn_unclosed sc (s <| macro := cur |>) <| macro := R "Em" |> <| args := tag_args (sc_tag sc) |>)) with (sinline (warn_unclosed sc (s <| macro := cur |>))).
    unfold warn_unclosed. rewrite (eqd_get sinline _ _ (fun _ => eq_refl) (err_eqd _ _)). reflexivity. }
  assert (HI2 : InvL s2).
  { unfold s2. apply (InvL_regs (warn_unclosed sc (s <| macro := cur |>))); try reflexivity.
    unfold warn_unclosed. apply (InvL_eqd _ _ (err_eqd _ _)). apply (InvL_regs s); try reflexivity. exact HI. }
  set (s2q := s2 <| quiet := true |>).
  assert (F2q : s2q ~= s) by (eapply eqf_trans; [apply set_quiet_eqf|exact F2]).
  pose proof (Side_eqf _ _ F2q HS) as HS2q.
  assert (Hpr2q : process s2q = true) by (rewrite (eqf_get process _ _ (fun _ => eq_refl) F2q); exact Hpr).
  destruct (macro_em_eqf s2q (sd_fmt _ HS2q) (sd_mk _ HS2q)) as [Fem Hpop]. specialize (Hpop Hpr2q).
  pose proof (InvL_macro_em s2q (InvL_quiet true s2 HI2) (sd_mk _ HS2q) Hpr2q (sd_inl _ HS2q)) as HIem.
  set (s3 := macro_em s2q <| quiet := quiet s2 |> <| args := [] |>).
  assert (F3 : s3 ~= s) by (unfold s3; eapply eqf_trans; [apply set_args_eqf|]; eapply eqf_trans; [apply set_quiet_eqf|]; eapply eqf_trans; [exact Fem|exact F2q]).
  assert (HI3 : InvL s3) by (unfold s3; apply (InvL_regs (macro_em s2q)); try reflexivity; exact HIem).
  assert (Hsi3 : sinline s3 = pop (sinline s)) by (unfold s3; change (sinline (macro_em s2q <| quiet := quiet s2 |> <| args := [] |>)) with (sinline (macro_em s2q)); rewrite Hpop; exact (f_equal pop Hsi2)).
  assert (HP3 : P true s3) by (split; [apply (Side_eqf _ _ F3 HS)|split; [rewrite (eqf_get sblock _ _ (fun _ => eq_refl) F3); exact Hsb|split; [rewrite (eqf_get process _ _ (fun _ => eq_refl) F3); exact Hpr|intros _; exact HI3]]]).
  assert (Hl3 : (List.length (sinline s3) <= f)%nat) by (rewrite Hsi3, pop_length; lia).
  destruct (IH s3 HP3 Hl3) as [H1 H2]. split; [exact H1|]. intro Hlt. apply H2. rewrite Hsi3, pop_length.
  assert (List.length (sinline s) <> 0)%nat by (destruct (sinline s); [discriminate|cbn; lia]). lia.
Qed.

Lemma close_unclosed_inline_P s : P true s -> P true (close_unclosed_inline s) /\ sinline (close_unclosed_inline s) = [].
Proof. intro HP. unfold close_unclosed_inline. destruct (sinline s) as [|sc l] eqn:E; [split; [exact HP|exact E]|].
  set (s0 := s <| args := [] |>).
  assert (HP0 : P true s0).
  { destruct HP as (HS & Hsb & Hpr & HI). split; [apply (Side_eqf _ _ (set_args_eqf [] s) HS)|]. split; [exact Hsb|]. split; [exact Hpr|]. intros _. apply (InvL_regs s); try reflexivity. exact (HI eq_refl). }
  assert (Hl : (List.length (sinline s0) <= S (List.length (sc :: l)))%nat) by (change (sinline s0) with (sinline s); rewrite E; lia).
  destruct (close_inline_loop_P (macro s) (S (List.length (sc :: l))) s0 HP0 Hl) as [H1 H2].
  set (r := close_inline_loop (S (List.length (sc :: l))) (macro s) s0) in *.
  split.
  - destruct H1 as (HS & Hsb & Hpr & HI). split; [eapply Side_eqf; [|exact HS]; eapply eqf_trans; [apply set_args_eqf|apply set_macro_eqf]|]. split; [exact Hsb|]. split; [exact Hpr|].
    intros _. apply (InvL_regs r); try reflexivity. exact (HI eq_refl).
  - change (sinline (r <| macro := macro s |> <| args := args s |>)) with (sinline r). apply H2. change (sinline s0) with (sinline s). rewrite E. lia.
Qed.

Lemma end_par_P s : P true s -> sinline s = [] ->
  let s' := end_par PNormal s in P true s' /\ par s' = false /\ sinline s' = [] /\ s' ~= s.
Proof. intros (HS & Hsb & Hpr & HI) Hsi. specialize (HI eq_refl). cbv zeta. unfold end_par. destruct (par s) eqn:Ep.
  2:{ split; [split; [exact HS|split; [exact Hsb|split; [exact Hpr|intros _; exact HI]]]|]. split; [assumption|]. split; [assumption|apply eqf_refl]. }
  cbv zeta. assert (Hsv : scope_verse (process_paragraph s) = false) by (apply scope_verse_bd; exact Hsb). rewrite Hsv. cbn [andb].
  unfold process_paragraph, format_paragraph, end_paragraph. rewrite (sd_fmt _ HS). unfold L.format_paragraph.
  set (s1 := wo (flat (buf s)) s <| buf := [] |> <| par := false |>).
  assert (F1 : s1 ~= s) by (unfold s1, wo; destruct s; reflexivity).
  rewrite (fmt_eqf _ _ F1), (sd_fmt _ HS). unfold L.end_paragraph.
  assert (Hp1 : par s1 = false) by reflexivity.
  assert (Hw : w (NLs ++ NLs) s1 = s1 <| wout ::= cons (NLs ++ NLs) |>) by (unfold w; rewrite Hp1; reflexivity). rewrite Hw.
  set (s2 := s1 <| wout ::= cons (NLs ++ NLs) |>).
  assert (F2 : s2 ~= s) by (eapply eqf_trans; [|exact F1]; unfold s2; destruct s1; reflexivity).
  split; [|split; [reflexivity|split; [exact Hsi|exact F2]]].
  split; [apply (Side_eqf _ _ F2 HS)|]. split; [rewrite (eqf_get sblock _ _ (fun _ => eq_refl) F2); exact Hsb|]. split; [rewrite (eqf_get process _ _ (fun _ => eq_refl) F2); exact Hpr|]. intros _.
  apply (InvL_step s _ (NLs ++ NLs) HI).
  - unfold out. change (wout s2) with ((NLs ++ NLs) :: flat (buf s) :: wout s). change (buf s2) with (@nil str).
    rewrite !flat_cons, flat_nil, app_nil_r. reflexivity.
  - unfold depthL, view, depth_v. change (par s2) with false. rewrite Ep, Hsi. reflexivity.
  - reflexivity.
  - rewrite (fmt_eqf _ _ F2). exact (sd_fmt _ HS).
Qed.


(* ---------- display blocks ---------- *)
Lemma P_eqd p a b : a ~~ b -> P p b -> P p a.
Proof. intros E (HS & Hsb & Hpr & HI). split; [apply (Side_eqf _ _ (eqd_eqf _ _ E) HS)|].
  split; [rewrite (eqd_get sblock _ _ (fun _ => eq_refl) E); exact Hsb|]. split; [rewrite (eqd_get process _ _ (fun _ => eq_refl) E); exact Hpr|].
  intro Hp. apply (InvL_eqd _ _ E (HI Hp)). Qed.
Lemma push_block_spec m tag id r s : has_cur s = true -> exists sc, push_block m tag id r s = s <| sblock ::= fun l => l ++ [sc] |> /\ sc_macro sc = runes m /\ sc_tag sc = tag.
Proof. intro Hc. unfold push_block, mk_scope. destruct (cloc s) as [[[l n] f]|]; [|rewrite Hc]; eexists; repeat split. Qed.
Lemma Forall_pop {A} (Q : A -> Prop) l : Forall Q l -> Forall Q (pop l).
Proof. unfold pop. induction 1 as [|x l Hx Hl IH]; [constructor|]. destruct l as [|y r]; [constructor|]. change (removelast (x :: y :: r)) with (x :: removelast (y :: r)). constructor; assumption. Qed.
Lemma Side_set_sblock f s : Side s -> Side (s <| sblock ::= f |>).
Proof. intros [A1 A3 A4 A5 A6 A7 A8 A9 A10 A11 A12 A13 A14 A15 A18 A19 A20]. split; assumption. Qed.

Lemma macro_bd_P p s : P p s -> has_cur s = true -> P p (macro_bd s).
Proof. intros HP Hc. pose proof HP as (HS & Hsb & Hpr & HI). unfold macro_bd. rewrite (scope_verse_bd _ Hsb).
  pose proof (parse_opts_eqd specOptBd (args s) s) as E1. destruct (parse_opts specOptBd (args s) s) as [o s1]. cbn [snd] in E1.
  pose proof (opt_render_eqd "id" o s1) as E2. pose proof (opt_render_escapedL "id" o s1) as Hid.
  destruct (opt_render "id" o s1) as [id s2]. cbn [fst snd] in *.
  assert (E : s2 ~~ s) by (eapply eqd_trans; eauto). specialize (Hid ltac:(rewrite (Inv.fmt_eqd _ _ E1); exact (sd_fmt _ HS))).
  pose proof (P_eqd _ _ _ E HP) as HP2.
  assert (Hpr2 : process s2 = p) by (exact (proj1 (proj2 (proj2 HP2)))). rewrite Hpr2. destruct p; cbn [negb].
  2:{ destruct id; [exact HP2|]. destruct HP2 as (HS2 & Hsb2 & _ & _). pose proof (store_id_eqf (r :: id) (mkId (gen_ref s2 [] (r :: id)) [] 2) s2) as F.
      split; [apply (Side_eqf _ _ F HS2)|]. split; [rewrite (eqf_get sblock _ _ (fun _ => eq_refl) F); exact Hsb2|]. split; [rewrite (eqf_get process _ _ (fun _ => eq_refl) F); exact Hpr2|discriminate]. }
  set (s3 := if contains_space id then _ else s2).
  assert (E3 : useless o s3 ~~ s2).
  { unfold useless. assert (E3' : s3 ~~ s2) by (unfold s3; destruct (contains_space id); [apply err_eqd|reflexivity]).
    destruct (po_args o); [exact E3'|]. eapply eqd_trans; [apply err_eqd|exact E3']. }
  destruct (close_unclosed_inline_P _ (P_eqd _ _ _ E3 HP2)) as [HP4 Hsi4].
  assert (Hc4 : has_cur (close_unclosed_inline (useless o s3)) = true).
  { pose proof (P_eqd _ _ _ E3 HP2) as (HSu & _). rewrite (eqf_get has_cur _ _ (fun _ => eq_refl) (close_unclosed_inline_eqf _ (sd_fmt _ HSu) (sd_mk _ HSu))).
    rewrite (eqd_get has_cur _ _ (fun _ => eq_refl) E3), (eqd_get has_cur _ _ (fun _ => eq_refl) E). exact Hc. }
  set (s4 := close_unclosed_inline (useless o s3)) in *. clearbody s4.
  pose proof (opt_render_eqd "t" o s4) as E5. destruct (opt_render "t" o s4) as [tag s5]. cbn [snd] in E5.
  pose proof (P_eqd _ _ _ E5 HP4) as HP5.
  assert (Hsi5 : sinline s5 = []) by (rewrite (eqd_get sinline _ _ (fun _ => eq_refl) E5); exact Hsi4).
  assert (Hdc : dtag_cmd tag s5 = []) by (unfold dtag_cmd; rewrite (sd_dt _ (proj1 HP5)); reflexivity). rewrite Hdc.
  destruct (end_par_P s5 HP5 Hsi5) as (HP6 & Hp6 & Hsi6 & F6). cbv zeta in HP6, Hp6, Hsi6, F6.
  set (s6 := end_par PNormal s5) in *. clearbody s6.
  assert (Hc6 : has_cur s6 = true) by (rewrite (eqf_get has_cur _ _ (fun _ => eq_refl) F6), (eqd_get has_cur _ _ (fun _ => eq_refl) E5); exact Hc4).
  destruct (push_block_spec "Bd" tag id (flag "r" o) s6 Hc6) as (sc & Epb & Emac & Etag). rewrite Epb.
  destruct HP6 as (HS6 & Hsb6 & Hpr6 & HI6). specialize (HI6 eq_refl).
  set (s6' := s6). assert (O6' : obs s6' = obs s6) by reflexivity. assert (F6' : s6' ~= s6) by apply eqf_refl.
  pose proof (Side_eqf _ _ F6' HS6) as HS6'.
  pose proof (InvL_obs _ _ O6' HI6) as HI6'.
  assert (Hsb6' : sblock s6' = sblock s6) by (apply (eqf_get sblock _ _ (fun _ => eq_refl) F6')).
  set (s7 := s6' <| sblock ::= fun l => l ++ [sc] |>).
  set (s8 := match tag with [] => s7 | _ => if has_key tag (dtags s7) then s7 else err "invalid tag" s7 end).
  assert (E8 : s8 ~~ s7) by (unfold s8; destruct tag; [reflexivity|]; destruct (has_key _ _); [reflexivity|apply err_eqd]).
  assert (HS7 : Side s7) by (apply Side_set_sblock; exact HS6').
  assert (HS8 : Side s8) by (apply (Side_eqf _ _ (eqd_eqf _ _ E8) HS7)).
  assert (Hx : exists c, begin_display_block tag id s8 = wl c s8 /\ textualL (flat c)).
  { unfold begin_display_block. rewrite (sd_fmt _ HS8). unfold L.begin_display_block, L.dcmd. rewrite (sd_dt _ HS8). cbn [assoc].
    destruct id as [|i0 id0] eqn:Eid; [exists []; split; [reflexivity|apply textualL_nil]|].
    exists [L.target (i0 :: id0) ++ NLs]. split; [reflexivity|]. change (flat [L.target (i0 :: id0) ++ NLs]) with ((L.target (i0 :: id0) ++ NLs) ++ []). rewrite app_nil_r.
    apply textualL_app; [apply target_textual; exact Hid|intro d; reflexivity]. }
  destruct Hx as [x [Ex Hx]]. rewrite Ex.
  assert (Hp8 : par s8 = false) by (rewrite (eqd_get par _ _ (fun _ => eq_refl) E8); change (par s7) with (par s6'); rewrite (obs_par _ _ O6'); exact Hp6).
  assert (Hsb8 : sblock s8 = sblock s6 ++ [sc]) by (rewrite (eqd_get sblock _ _ (fun _ => eq_refl) E8); unfold s7; cbn; rewrite Hsb6'; reflexivity).
  split; [apply (Side_eqf _ _ (wl_eqf x s8) HS8)|].
  split; [rewrite (eqf_get sblock _ _ (fun _ => eq_refl) (wl_eqf x s8)), Hsb8; apply Forall_app; split; [exact Hsb6|constructor; [exact Emac|constructor]]|].
  split; [rewrite (eqf_get process _ _ (fun _ => eq_refl) (wl_eqf x s8)), (eqd_get process _ _ (fun _ => eq_refl) E8); change (process s7) with (process s6');
          rewrite (eqf_get process _ _ (fun _ => eq_refl) F6'); exact Hpr6|].
  assert (Hb8 : buf s8 = []) by (rewrite (eqd_get buf _ _ (fun _ => eq_refl) E8); change (buf s7) with (buf s6'); rewrite (obs_buf _ _ O6'); apply (invl_buf _ HI6 Hp6)).
  intros _. apply (InvL_step s6' _ (flat x) HI6').
  - rewrite out_wl by (intros _; exact Hb8). rewrite (out_eqd _ _ E8). reflexivity.
  - unfold depthL. rewrite view_wl, (view_eqd _ _ E8). unfold view, depth_v. cbn [par sinline s7]. apply Hx.
  - apply bufc_wl. intros _. exact Hb8.
  - rewrite fmt_wl. exact (sd_fmt _ HS8).
Qed.

(* macroEd and closeUnclosedBlocks, one level of the mutual recursion unfolded *)
Definition cub_body (ed el : st -> st) (mname : string) (s : st) : st :=
      let scopes := sblock s in
      if Nat.leb (List.length scopes) 1 then s else
      if negb (existsb (fun sc => str_eqb (sc_macro sc) (runes mname) || (String.eqb mname "It" && str_eqb (sc_macro sc) (R "Bl"))) scopes) then s else
      match top scopes with
      | None => s
      | Some t0 =>
        if str_eqb (sc_macro t0) (macro s) || (String.eqb mname "It" && str_eqb (sc_macro t0) (R "Bl")) then s else
        let cur := macro s in let cura := args s in
        let fix loop (l : list scope) (s : st) : st :=
          match l with
          | [] => s
          | sc :: r =>
            if str_eqb (sc_macro sc) (runes mname) || (String.eqb mname "It" && str_eqb (sc_macro sc) (R "Bl")) then s else
            let s1 := end_par PNormal s in
            let is_list := str_eqb (sc_macro sc) (R "Bl") || str_eqb (sc_macro sc) (R "It") in
            let s2 := err "found macro while block isn't closed yet" s1 in
            let s3 := s2 <| macro := (if is_list then R "El" else R "Ed") |> <| args := tag_args (sc_tag sc) |> in
            let q := quiet s3 in
            let s4 := (if is_list then el else ed) (s3 <| quiet := true |>) in
            loop r (s4 <| quiet := q |> <| macro := cur |> <| args := cura |>)
          end in
        (loop (rev scopes) (s <| args := [] |>)) <| macro := cur |> <| args := cura |>
      end.
Definition ed_body (cub : string -> st -> st) (s : st) : st :=
      if scope_verse s then err "Ed disallowed within verse" s else
      if negb (process s) then s else
      let '(o, s1) := parse_opts specOptEd (args s) s in
      let s2 := match po_args o with [] => s1 | _ => err "useless arguments" s1 end in
      match last_scope "Bd" (sblock s2) with
      | None => err "no corresponding Bd" s2
      | Some sc =>
        let s3 := match opt "t" o with
                  | Some t => let '(tx, s') := inlines_text t s2 in if str_eqb tx (sc_tag sc) then s' else err "tag mismatch" s'
                  | None => if sc_req sc then err "missing required tag" s2 else s2
                  end in
        let pb := match dtag_cmd (sc_tag sc) s3 with [] => PNormal | _ => PBlock end in
        let s4 := cub "Bd"%string (close_unclosed_inline s3) in
        let s5 := end_par pb (s4 <| sblock ::= pop |>) in
        (end_display_block (sc_tag sc) s5) <| ws := false |>
      end.
Lemma closers_cub f : snd (closers (S f)) = cub_body (fst (fst (closers f))) (snd (fst (closers f))).
Proof. cbn [closers]. destruct (closers f) as [[ed el] cub]. reflexivity. Qed.
Lemma closers_ed f : fst (fst (closers (S f))) = ed_body (snd (closers (S f))).
Proof. cbn [closers]. destruct (closers f) as [[ed el] cub]. reflexivity. Qed.
Lemma closer_fuel_S s : exists f, closer_fuel s = S f.
Proof. unfold closer_fuel. exists (2 * List.length (sblock s) + 3)%nat. lia. Qed.

Lemma cub_bd ed el s : Forall is_bd (sblock s) -> cub_body ed el "Bd" s = s.
Proof. intro H. unfold cub_body. cbv zeta. destruct (Nat.leb _ 1); [reflexivity|]. destruct (negb _); [reflexivity|].
  destruct (top (sblock s)) as [t0|] eqn:Et; [|reflexivity]. destruct (_ || _); [reflexivity|].
  rewrite (top_pop _ _ Et) at 1. rewrite rev_app_distr. change (rev [t0]) with [t0]. cbn [app]. cbv beta iota fix.
  assert (Hb : is_bd t0) by (rewrite Forall_forall in H; apply H; apply (top_in _ _ Et)). unfold is_bd in Hb. rewrite Hb.
  change (str_eqb (R "Bd") (runes "Bd")) with true. cbn [orb]. destruct s; reflexivity. Qed.
Lemma last_scope_bd l : Forall is_bd l -> last_scope "Bd" l = top l.
Proof. unfold last_scope. intro H.
  assert (G : forall acc, fold_left (fun a sc => if str_eqb (sc_macro sc) (runes "Bd") then Some sc else a) l acc = match top l with Some x => Some x | None => acc end).
  { induction H as [|x r Hx Hr IH]; intro acc; [reflexivity|]. cbn [fold_left]. unfold is_bd in Hx. rewrite Hx. change (str_eqb (R "Bd") (runes "Bd")) with true. cbv iota.
    rewrite IH. destruct r as [|y r']; [reflexivity|]. change (top (x :: y :: r')) with (top (y :: r')). destruct (top (y :: r')) eqn:E; [reflexivity|]. apply top_none in E. discriminate. }
  rewrite G. destruct (top l); reflexivity. Qed.

Lemma end_par_pop_comm s : fmt s = FL -> Forall is_bd (sblock s) -> end_par PNormal (s <| sblock ::= pop |>) = (end_par PNormal s) <| sblock ::= pop |>.
Proof. intros Hf Hsb. unfold end_par. change (par (s <| sblock ::= pop |>)) with (par s). destruct (par s) eqn:Ep; [|reflexivity]. cbv zeta.
  assert (Hsv1 : scope_verse (process_paragraph (s <| sblock ::= pop |>)) = false) by (apply scope_verse_bd; apply Forall_pop; exact Hsb).
  assert (Hsv2 : scope_verse (process_paragraph s) = false) by (apply scope_verse_bd; exact Hsb).
  rewrite Hsv1, Hsv2. cbn [andb].
  unfold process_paragraph, format_paragraph, end_paragraph.
  change (fmt (s <| sblock ::= pop |>)) with (fmt s). rewrite Hf. unfold L.format_paragraph, wo.
  change (fmt (s <| sblock ::= pop |> <| wout ::= cons (flat (buf (s <| sblock ::= pop |>))) |> <| buf := [] |> <| par := false |>)) with (fmt s).
  change (fmt (s <| wout ::= cons (flat (buf s)) |> <| buf := [] |> <| par := false |>)) with (fmt s). rewrite Hf.
  unfold L.end_paragraph, w. cbn. destruct s; reflexivity. Qed.

Lemma macro_ed_P p s : P p s -> P p (macro_ed s) /\ (p = true -> sblock (macro_ed s) = pop (sblock s) /\ (par s = false -> par (macro_ed s) = false) /\ (sinline s = [] -> sinline (macro_ed s) = []) /\ has_cur (macro_ed s) = has_cur s).
Proof. intros HP. pose proof HP as (HS & Hsb & Hpr & HI). unfold macro_ed. destruct (closer_fuel_S s) as [f ->]. rewrite closers_ed, closers_cub.
  unfold ed_body. rewrite (scope_verse_bd _ Hsb), Hpr. destruct p; cbn [negb]; [|split; [exact HP|discriminate]].
  pose proof (parse_opts_eqd specOptEd (args s) s) as E1. destruct (parse_opts specOptEd (args s) s) as [o s1]. cbn [snd] in E1.
  set (s2 := match po_args o with [] => s1 | _ => _ end).
  assert (E2 : s2 ~~ s) by (unfold s2; destruct (po_args o); [exact E1|eapply eqd_trans; [apply err_eqd|exact E1]]).
  pose proof (P_eqd _ _ _ E2 HP) as HP2. clearbody s2.
  rewrite (last_scope_bd _ (proj1 (proj2 HP2))).
  assert (Hsb2 : sblock s2 = sblock s) by (apply (eqd_get sblock _ _ (fun _ => eq_refl) E2)).
  destruct (top (sblock s2)) as [sc|] eqn:Etop.
  2:{ split; [apply (P_eqd _ _ _ (err_eqd _ _) HP2)|]. intros _. split; [rewrite (eqd_get sblock _ _ (fun _ => eq_refl) (err_eqd _ s2)), <- Hsb2, (top_none _ Etop); reflexivity|].
      split; [rewrite (eqd_get par _ _ (fun _ => eq_refl) (err_eqd _ s2)), (eqd_get par _ _ (fun _ => eq_refl) E2); exact (fun H => H)|].
      split; [rewrite (eqd_get sinline _ _ (fun _ => eq_refl) (err_eqd _ s2)), (eqd_get sinline _ _ (fun _ => eq_refl) E2); exact (fun H => H)|].
      rewrite (eqd_get has_cur _ _ (fun _ => eq_refl) (err_eqd _ s2)). apply (eqd_get has_cur _ _ (fun _ => eq_refl) E2). }
  set (s3 := match opt "t" o with Some t => _ | None => _ end).
  assert (E3 : s3 ~~ s2).
  { unfold s3. destruct (opt "t" o) as [t|].
    - pose proof (inlines_text_eqd t s2) as H. destruct (inlines_text t s2) as [tx s']. cbn [snd] in H.
      destruct (str_eqb tx (sc_tag sc)); [exact H|]. eapply eqd_trans; [apply err_eqd|exact H].
    - destruct (sc_req sc); [apply err_eqd|reflexivity]. }
  pose proof (P_eqd _ _ _ E3 HP2) as HP3.
  assert (Hsb3 : sblock s3 = sblock s2) by (apply (eqd_get sblock _ _ (fun _ => eq_refl) E3)).
  assert (Hdc : dtag_cmd (sc_tag sc) s3 = []) by (unfold dtag_cmd; rewrite (sd_dt _ (proj1 HP3)); reflexivity). rewrite Hdc.
  clearbody s3.
  destruct (close_unclosed_inline_P _ HP3) as [HP4 Hsi4].
  assert (Hsb4 : sblock (close_unclosed_inline s3) = sblock s3).
  { unfold close_unclosed_inline. destruct (sinline s3) as [|x l] eqn:Esi; [reflexivity|].
    change (sblock (close_inline_loop (S (List.length (x :: l))) (macro s3) (s3 <| args := [] |>) <| macro := macro s3 |> <| args := args s3 |>))
      with (sblock (close_inline_loop (S (List.length (x :: l))) (macro s3) (s3 <| args := [] |>))).
    generalize (S (List.length (x :: l))). intro n.
    assert (G : forall n s, fmt s = FL -> markup_okL (mtags s) -> sblock (close_inline_loop n (macro s3) s) = sblock s).
    { clear. induction n as [|n IH]; intros s Hf Hm; [reflexivity|]. cbn [close_inline_loop]. destruct (top (sinline s)) as [sc|]; [|reflexivity].
      set (s2 := warn_unclosed sc (s <| macro := macro s3 |>) <| macro := R "Em" |> <| args := tag_args (sc_tag sc) |>).
      assert (F2 : s2 <| quiet := true |> ~= s).
      { eapply eqf_trans; [apply set_quiet_eqf|]. unfold s2. eapply eqf_trans; [apply set_args_eqf|]. eapply eqf_trans; [apply set_macro_eqf|].
        eapply eqf_trans; [apply eqd_eqf, err_eqd|apply set_macro_eqf]. }
      destruct (macro_em_eqf (s2 <| quiet := true |>) ltac:(rewrite (fmt_eqf _ _ F2); exact Hf) ltac:(rewrite (mtags_eqf _ _ F2); exact Hm)) as [Fem _].
      set (s3' := macro_em (s2 <| quiet := true |>) <| quiet := quiet s2 |> <| args := [] |>).
      assert (F3 : s3' ~= s) by (unfold s3'; eapply eqf_trans; [apply set_args_eqf|]; eapply eqf_trans; [apply set_quiet_eqf|]; eapply eqf_trans; [exact Fem|exact F2]).
      rewrite IH; [apply (eqf_get sblock _ _ (fun _ => eq_refl) F3)|rewrite (fmt_eqf _ _ F3); exact Hf|rewrite (mtags_eqf _ _ F3); exact Hm]. }
    set (sx := s3 <| args := [] |>). change (sblock s3) with (sblock sx). apply G; [exact (sd_fmt _ (proj1 HP3))|exact (sd_mk _ (proj1 HP3))]. }
  assert (Hc4 : has_cur (close_unclosed_inline s3) = has_cur s3) by (apply (eqf_get has_cur _ _ (fun _ => eq_refl)), close_unclosed_inline_eqf; [exact (sd_fmt _ (proj1 HP3))|exact (sd_mk _ (proj1 HP3))]).
  set (s4 := close_unclosed_inline s3) in *. clearbody s4.
  rewrite (cub_bd _ _ s4 (proj1 (proj2 HP4))).
  rewrite (end_par_pop_comm s4 (sd_fmt _ (proj1 HP4)) (proj1 (proj2 HP4))).
  destruct (end_par_P s4 HP4 Hsi4) as (HP6 & Hp6 & Hsi6 & F6). cbv zeta in HP6, Hp6, Hsi6, F6.
  set (s6 := end_par PNormal s4) in *. clearbody s6.
  destruct HP6 as (HS6 & Hsb6 & Hpr6 & HI6). specialize (HI6 eq_refl).
  assert (Esb6 : sblock s6 = pop (sblock s6) ++ [sc]).
  { apply top_pop. rewrite (eqf_get sblock _ _ (fun _ => eq_refl) F6), Hsb4, Hsb3. exact Etop. }
  set (s7 := s6 <| sblock ::= pop |>).
  assert (HS7 : Side s7) by (apply Side_set_sblock; exact HS6).
  assert (Ex : end_display_block (sc_tag sc) s7 = s7).
  { unfold end_display_block. rewrite (sd_fmt _ HS7). unfold L.end_display_block, L.dcmd. rewrite (sd_dt _ HS7). cbn [assoc]. destruct (sc_tag sc); reflexivity. }
  rewrite Ex.
  assert (F8 : s7 <| ws := false |> ~= s7) by apply set_ws_eqf.
  split; [|intros _; split; [rewrite (eqf_get sblock _ _ (fun _ => eq_refl) F8); unfold s7; cbn; rewrite (eqf_get sblock _ _ (fun _ => eq_refl) F6), Hsb4, Hsb3, Hsb2; reflexivity|
    split; [intros _; exact Hp6|split; [intros _; exact Hsi6|
    rewrite (eqf_get has_cur _ _ (fun _ => eq_refl) F8); change (has_cur s7) with (has_cur s6); rewrite (eqf_get has_cur _ _ (fun _ => eq_refl) F6), Hc4, (eqd_get has_cur _ _ (fun _ => eq_refl) E3); apply (eqd_get has_cur _ _ (fun _ => eq_refl) E2)]]]].
  split; [apply (Side_eqf _ _ F8 HS7)|].
  split; [rewrite (eqf_get sblock _ _ (fun _ => eq_refl) F8); apply Forall_pop; exact Hsb6|].
  split; [rewrite (eqf_get process _ _ (fun _ => eq_refl) F8); exact Hpr6|].
  intros _. destruct HI6 as [A B C]. split; [exact A|exact B|exact C].
Qed.

(* ---------- P with or without a title ---------- *)
Lemma macro_p_P p s : P p s -> has_cur s = true -> P p (macro_p pim s).
Proof. intros HP Hc. pose proof HP as (HS & Hsb & Hpr & HI). unfold macro_p. rewrite Hpr. destruct p; cbn [negb]; [|exact HP].
  pose proof (parse_opts_eqd specOptNone (args s) s) as E1. destruct (parse_opts specOptNone (args s) s) as [o s1]. cbn [snd] in E1.
  pose proof (P_eqd _ _ _ E1 HP) as (HS1 & Hsb1 & Hpr1 & HI1). specialize (HI1 eq_refl).
  pose proof (InvL_p_break s1 HI1 (sd_mk _ HS1) (scope_verse_bd _ Hsb1)) as H2. rewrite (sd_vs _ HS1) in H2.
  pose proof (p_break_eqf s1 (sd_fmt _ HS1) (sd_mk _ HS1)) as F2.
  unfold p_break in H2, F2. cbv zeta in H2, F2.
  match type of F2 with ?x ~= _ => set (s2 := x) in * end. clearbody s2. destruct H2 as [HI2 Hv2].
  pose proof (Side_eqf _ _ F2 HS1) as HS2.
  assert (Hp2 : par s2 = false) by (exact (f_equal (fun v => fst (fst (fst (snd v)))) Hv2)).
  assert (Hvs2 : verse s2 = false) by (exact (f_equal (fun v => snd (fst (fst (snd v)))) Hv2)).
  assert (Hsb2 : sblock s2 = sblock s1) by (apply (eqf_get sblock _ _ (fun _ => eq_refl) F2)).
  destruct (po_args o) as [|a0 al].
  - assert (F : s2 <| ws := false |> <| verse := false |> ~= s2) by (eapply eqf_trans; [apply set_verse_eqf; exact Hvs2|apply set_ws_eqf]).
    split; [apply (Side_eqf _ _ F HS2)|]. split; [rewrite (eqf_get sblock _ _ (fun _ => eq_refl) F), Hsb2; exact Hsb1|].
    split; [rewrite (eqf_get process _ _ (fun _ => eq_refl) F), (eqf_get process _ _ (fun _ => eq_refl) F2); exact Hpr1|]. intros _.
    apply (InvL_regs s2); try reflexivity; [|exact HI2]. unfold view. cbn. rewrite Hvs2. reflexivity.
  - set (s2p := s2 <| par := true |>).
    assert (F2p : s2p ~= s2) by apply set_par_eqf.
    pose proof (Side_eqf _ _ F2p HS2) as HS2p.
    assert (Hc2p : has_cur s2p = true).
    { rewrite (eqf_get has_cur _ _ (fun _ => eq_refl) F2p), (eqf_get has_cur _ _ (fun _ => eq_refl) F2), (eqd_get has_cur _ _ (fun _ => eq_refl) E1). exact Hc. }
    destruct (pim_spec (a0 :: al) s2p (sd_fmt _ HS2p) (sd_asis _ HS2p) (sd_inl _ HS2p) (sd_mk _ HS2p) (sd_bf _ HS2p) Hc2p) as (Ht & F3 & Ho3 & Hv3 & Hb3).
    destruct (pim (a0 :: al) s2p) as [title s3]. cbn [fst snd] in *.
    pose proof (Side_eqf _ _ F3 HS2p) as HS3.
    unfold paragraph_title. rewrite (sd_fmt _ HS3). unfold L.paragraph_title.
    set (pt := R "\paragraph{" ++ title ++ R "}" ++ NLs).
    assert (Hrpt : forall d, runL pt (LTxt, d) = (LTxt, d)) by (intro d; apply (runL_ptitle title Ht)). clearbody pt.
    assert (Hp3 : par s3 = true) by (exact (f_equal (fun v => fst (fst (fst (snd v)))) Hv3)).
    unfold reopen_spanning.
    destruct (reopen_foldL (mtags (w pt s3)) (sinline (w pt s3)) ltac:(rewrite mtags_w; exact (sd_mk _ HS3)) (w pt s3) ltac:(rewrite Inv.fmt_w; exact (sd_fmt _ HS3)) eq_refl) as [c [Ec Hcx]].
    rewrite Ec.
    set (sf := wl c (w pt s3)).
    assert (Ff : sf ~= s2) by (unfold sf; eapply eqf_trans; [apply wl_eqf|]; eapply eqf_trans; [apply w_eqf|]; eapply eqf_trans; [exact F3|exact F2p]).
    assert (Hvf : view sf = view s2p) by (unfold sf; rewrite view_wl, view_w; exact Hv3).
    assert (Hvsf : verse sf = false) by (rewrite (eqf_get verse _ _ (fun _ => eq_refl) Ff); exact Hvs2).
    assert (F : sf <| ws := false |> <| verse := false |> ~= s2) by (eapply eqf_trans; [apply set_verse_eqf; exact Hvsf|]; eapply eqf_trans; [apply set_ws_eqf|exact Ff]).
    split; [apply (Side_eqf _ _ F HS2)|]. split; [rewrite (eqf_get sblock _ _ (fun _ => eq_refl) F), Hsb2; exact Hsb1|].
    split; [rewrite (eqf_get process _ _ (fun _ => eq_refl) F), (eqf_get process _ _ (fun _ => eq_refl) F2); exact Hpr1|]. intros _.
    apply (InvL_regs sf); try reflexivity; [unfold view; cbn; rewrite Hvsf; reflexivity|].
    apply (InvL_step s2 _ (pt ++ flat c) HI2).
    + unfold sf. rewrite out_wl by (rewrite par_w, Hp3; discriminate). rewrite out_w by (rewrite Hp3; discriminate). rewrite Ho3, <- app_assoc. reflexivity.
    + unfold depthL. rewrite Hvf, Hv2. unfold s2p, view, depth_v. cbn [par sinline]. cbn.
      assert (Esi : sinline (w pt s3) = sinline s2) by (change (sinline (w pt s3)) with (let '(_, _, _, (_, _, si, _)) := view (w pt s3) in si); rewrite view_w, Hv3; reflexivity).
      rewrite runL_app, Hrpt, Hcx, Esi, Nat.add_0_r. reflexivity.
    + unfold sf. rewrite par_wl, par_w, Hp3. discriminate.
    + rewrite (fmt_eqf _ _ Ff). exact (sd_fmt _ HS2).
Qed.

Lemma P_same p a b : a ~= b -> out a = out b -> view a = view b -> buf a = buf b -> P p b -> P p a.
Proof. intros F Ho Hv Hb (HS & Hsb & Hpr & HI). split; [apply (Side_eqf _ _ F HS)|]. split; [rewrite (eqf_get sblock _ _ (fun _ => eq_refl) F); exact Hsb|].
  split; [rewrite (eqf_get process _ _ (fun _ => eq_refl) F); exact Hpr|]. intro Hp. apply (InvL_regs b); [exact Ho|exact Hv|exact Hb|apply (eqf_get format _ _ (fun _ => eq_refl) F)|exact (HI Hp)]. Qed.

(* ---------- D: a dialogue paragraph ---------- *)
Lemma macro_d_P p s : P p s -> P p (macro_d s).
Proof. intros HP. pose proof HP as (HS & Hsb & Hpr & HI). unfold macro_d. rewrite Hpr. destruct p; cbn [negb]; [|exact HP].
  pose proof (parse_opts_eqd specOptNone (args s) s) as E1. destruct (parse_opts specOptNone (args s) s) as [o s1]. cbn [snd] in E1.
  assert (E2 : useless o s1 ~~ s) by (unfold useless; destruct (po_args o); [exact E1|eapply eqd_trans; [apply err_eqd|exact E1]]).
  pose proof (P_eqd _ _ _ E2 HP) as (HS2 & Hsb2 & Hpr2 & HI2). specialize (HI2 eq_refl).
  set (s2 := useless o s1) in *. clearbody s2.
  (* the paragraph in progress, if any, is ended *)
  match goal with |- context [if par s2 then ?a else s2] => assert (H3 : exists s3, (if par s2 then a else s2) = s3 /\ InvL s3 /\ s3 ~= s2 /\
      view s3 = (sblock s2, dtags s2, ttitscope s2, (false, false, sinline s2, mtags s2))) end.
  { destruct (par s2) eqn:Ep.
    - pose proof (InvL_p_break s2 HI2 (sd_mk _ HS2) (scope_verse_bd _ Hsb2)) as H. rewrite (sd_vs _ HS2) in H.
      pose proof (p_break_eqf s2 (sd_fmt _ HS2) (sd_mk _ HS2)) as F. unfold p_break in H, F. rewrite Ep in H, F.
      eexists. split; [reflexivity|]. split; [exact (proj1 H)|]. split; [exact F|exact (proj2 H)].
    - exists s2. split; [reflexivity|]. split; [exact HI2|]. split; [apply eqf_refl|]. unfold view. rewrite Ep, (sd_vs _ HS2). reflexivity. }
  destruct H3 as (s3 & -> & HI3 & F3 & Hv3).
  pose proof (Side_eqf _ _ F3 HS2) as HS3.
  assert (Hp3 : par s3 = false) by (exact (f_equal (fun v => fst (fst (fst (snd v)))) Hv3)).
  unfold begin_paragraph. rewrite (sd_fmt _ HS3). unfold L.begin_paragraph.
  set (sa := s3 <| par := true |>).
  assert (Fa : sa ~= s3) by apply set_par_eqf.
  unfold reopen_spanning.
  destruct (reopen_foldL (mtags sa) (sinline sa) ltac:(rewrite (mtags_eqf _ _ Fa); exact (sd_mk _ HS3)) sa ltac:(rewrite (fmt_eqf _ _ Fa); exact (sd_fmt _ HS3)) eq_refl) as [c [Ec Hc]].
  rewrite Ec. unfold begin_dialogue. rewrite fmt_wl, (fmt_eqf _ _ Fa), (sd_fmt _ HS3). unfold L.begin_dialogue.
  assert (Hpa : params (wl c sa) = params s3) by (rewrite (eqf_get params _ _ (fun _ => eq_refl) (wl_eqf c sa)); apply (eqf_get params _ _ (fun _ => eq_refl) Fa)).
  rewrite Hpa, (sd_pa _ HS3).
  assert (Edm : assoc (R "dmark") [(R "lang", R "en")] = None) by reflexivity. rewrite Edm.
  set (sf := w (R "---") (wl c sa)).
  assert (Ff : sf ~= s3) by (unfold sf; eapply eqf_trans; [apply w_eqf|]; eapply eqf_trans; [apply wl_eqf|exact Fa]).
  assert (Hvsf : verse sf = false) by (rewrite (eqf_get verse _ _ (fun _ => eq_refl) Ff); exact (sd_vs _ HS3)).
  assert (F : sf <| ws := false |> <| verse := false |> ~= s3) by (eapply eqf_trans; [apply set_verse_eqf; exact Hvsf|]; eapply eqf_trans; [apply set_ws_eqf|exact Ff]).
  split; [apply (Side_eqf _ _ F HS3)|]. split; [rewrite (eqf_get sblock _ _ (fun _ => eq_refl) F), (eqf_get sblock _ _ (fun _ => eq_refl) F3); exact Hsb2|].
  split; [rewrite (eqf_get process _ _ (fun _ => eq_refl) F), (eqf_get process _ _ (fun _ => eq_refl) F3); exact Hpr2|]. intros _.
  apply (InvL_regs sf); try reflexivity; [unfold view; cbn; rewrite Hvsf; reflexivity|].
  assert (Hpsa : par sa = true) by reflexivity.
  apply (InvL_step s3 _ (flat c ++ R "---") HI3).
  - unfold sf. rewrite out_w by (rewrite par_wl, Hpsa; discriminate). rewrite out_wl by (rewrite Hpsa; discriminate).
    change (out sa) with (out s3). rewrite <- app_assoc. reflexivity.
  - unfold depthL, sf. rewrite view_w, view_wl, Hv3. unfold sa, view, depth_v. cbn [par sinline]. cbn.
    rewrite runL_app, Hc. change (sinline sa) with (sinline s3).
    assert (Esi : sinline s3 = sinline s2) by (exact (f_equal (fun v => snd (fst (snd v))) Hv3)). rewrite Esi, Nat.add_0_r. reflexivity.
  - unfold sf. rewrite par_w, par_wl, Hpsa. discriminate.
  - rewrite (fmt_eqf _ _ Ff). exact (sd_fmt _ HS3).
Qed.

(* ---------- Lk: a link, with or without a label ---------- *)
Lemma latex_url_textual u : textualL (latex_url u).
Proof. intro d. unfold latex_url. induction u as [|c r IH]; [reflexivity|]. cbn [flat_map]. rewrite runL_app.
  assert (H1 : runL (latex_url1 c) (LTxt, d) = (LTxt, d)).
  { unfold latex_url1. destruct (c =? 37) eqn:E1; [reflexivity|]. destruct (c =? 123) eqn:E2; [reflexivity|]. destruct (c =? 125) eqn:E3; [reflexivity|].
    destruct (c =? 92) eqn:E4; [reflexivity|]. unfold runL. cbn [fold_left lstep]. rewrite E4, E2, E3. reflexivity. }
  rewrite H1. exact IH. Qed.
Lemma link_chunkL cmd u label punct : cmd = R "\href{" \/ cmd = R "\url{" -> textualL label -> textualL punct ->
  textualL (cmd ++ latex_url u ++ R "}" ++ label ++ punct).
Proof. intros Hc Hl Hp d. rewrite runL_app. assert (Hcmd : runL cmd (LTxt, d) = (LTxt, S d)) by (destruct Hc as [-> | ->]; reflexivity). rewrite Hcmd.
  rewrite runL_app, latex_url_textual, runL_app. change (runL (R "}") (LTxt, S d)) with (LTxt, d). rewrite runL_app, Hl. apply Hp. Qed.

Lemma macro_lk_P p s : P p s -> has_cur s = true -> P p (macro_lk pim s).
Proof. intros HP Hc. pose proof HP as (HS & Hsb & Hpr & HI). unfold macro_lk. rewrite Hpr. destruct p; cbn [negb]; [|exact HP].
  pose proof (parse_opts_eqd specOptLk (args s) s) as E1. destruct (parse_opts specOptLk (args s) s) as [o s1]. cbn [snd] in E1.
  set (r2 := if Nat.ltb 1 (List.length (po_args o)) then get_close_punct (po_args o) s1 else (po_args o, [], s1)).
  assert (H2 : snd r2 ~~ s1 /\ textualL (snd (fst r2))).
  { unfold r2. destruct (Nat.ltb 1 (List.length (po_args o))); [|split; [reflexivity|apply textualL_nil]].
    split; [apply get_close_punct_eqd|apply get_close_punct_textualL; rewrite (Inv.fmt_eqd _ _ E1); exact (sd_fmt _ HS)]. }
  destruct r2 as [[a punct] s2]. cbn [fst snd] in H2. destruct H2 as [E2 Hpunct].
  assert (E2' : s2 ~~ s) by (eapply eqd_trans; eauto).
  pose proof (P_eqd _ _ _ E2' HP) as HP2.
  destruct a as [|u rest]; [apply (P_eqd _ _ _ (err_eqd _ _) HP2)|].
  pose proof HP2 as (HS2 & Hsb2 & Hpr2 & HI2). specialize (HI2 eq_refl).
  assert (Hv2 : par s2 = false -> scope_verse s2 = false) by (intros _; apply scope_verse_bd; exact Hsb2).
  destruct (InvL_begin_phrasing (flag "ns" o) s2 HI2 (sd_mk _ HS2) (sd_inl _ HS2) Hv2) as (HI3 & Hp3 & _).
  pose proof (begin_phrasing_eqf (flag "ns" o) s2 (sd_fmt _ HS2) (sd_mk _ HS2)) as F3.
  set (s3 := begin_phrasing (flag "ns" o) s2 <| ws := true |>).
  assert (F3' : s3 ~= s2) by (eapply eqf_trans; [apply set_ws_eqf|exact F3]).
  assert (HI3' : InvL s3) by (apply InvL_ws; exact HI3).
  assert (Hp3' : par s3 = true) by exact Hp3.
  clearbody s3.
  pose proof (inlines_text_eqd u s3) as E4. destruct (inlines_text u s3) as [url s4]. cbn [snd] in E4.
  assert (F4 : s4 ~= s2) by (eapply eqf_trans; [apply eqd_eqf; exact E4|exact F3']).
  pose proof (InvL_eqd _ _ E4 HI3') as HI4.
  assert (Hp4 : par s4 = true) by (rewrite (eqd_get par _ _ (fun _ => eq_refl) E4); exact Hp3').
  pose proof (Side_eqf _ _ F4 HS2) as HS4.
  (* what is written is neutral for the braces, whatever the url and the label *)
  assert (Hlab : exists s5 k, (match rest with [] => lk_without_label url punct s4 | _ => let '(label, s5) := pim rest s4 in lk_with_label url label punct s5 end)
                   = with_url url (fun n => w (k n)) s5 /\ (forall n, textualL (k n)) /\ s5 ~= s4 /\ out s5 = out s4 /\ view s5 = view s4 /\ buf s5 = buf s4).
  { destruct rest as [|r0 rr].
    - exists s4, (fun n => R "\url{" ++ latex_url n ++ R "}" ++ punct). split; [unfold lk_without_label; rewrite (sd_fmt _ HS4); reflexivity|].
      split; [intro n; apply (link_chunkL (R "\url{") n [] punct (or_intror eq_refl) textualL_nil Hpunct)|]. repeat split; apply eqf_refl.
    - assert (Hc4 : has_cur s4 = true).
      { rewrite (eqf_get has_cur _ _ (fun _ => eq_refl) F4), (eqd_get has_cur _ _ (fun _ => eq_refl) E2'). exact Hc. }
      destruct (pim_spec (r0 :: rr) s4 (sd_fmt _ HS4) (sd_asis _ HS4) (sd_inl _ HS4) (sd_mk _ HS4) (sd_bf _ HS4) Hc4) as (Ht & F5 & Ho5 & Hv5 & Hb5).
      destruct (pim (r0 :: rr) s4) as [label s5]. cbn [fst snd] in *.
      exists s5, (fun n => R "\href{" ++ latex_url n ++ R "}{" ++ latex_escape label ++ R "}" ++ punct).
      split; [unfold lk_with_label; rewrite (fmt_eqf _ _ F5), (sd_fmt _ HS4); reflexivity|].
      split; [|repeat split; assumption]. intro n.
      replace (R "\href{" ++ latex_url n ++ R "}{" ++ latex_escape label ++ R "}" ++ punct) with (R "\href{" ++ latex_url n ++ R "}" ++ (R "{" ++ latex_escape label ++ R "}") ++ punct)
        by (rewrite <- !app_assoc; reflexivity).
      apply (link_chunkL (R "\href{") n _ punct (or_introl eq_refl)); [|exact Hpunct].
      intro d. rewrite runL_app. change (runL (R "{") (LTxt, d)) with (LTxt, S d). rewrite runL_app, latex_escape_textual. reflexivity. }
  destruct Hlab as (s5 & k & -> & Hk & F5 & Ho5 & Hv5 & Hb5).
  assert (HP5 : P true s5) by (apply (P_same true s5 s4 F5 Ho5 Hv5 Hb5); split; [exact HS4|split; [rewrite (eqf_get sblock _ _ (fun _ => eq_refl) F4); exact Hsb2|split; [rewrite (eqf_get process _ _ (fun _ => eq_refl) F4); exact Hpr2|intros _; exact HI4]]]).
  assert (Hp5 : par s5 = true) by (rewrite <- Hp4; exact (f_equal (fun v => fst (fst (fst (snd v)))) Hv5)).
  unfold with_url.
  assert (Hfin : forall n sx, sx ~~ s5 -> P true (w (k n) sx)).
  { intros n sx Ex. pose proof (P_eqd _ _ _ Ex HP5) as (HSx & Hsbx & Hprx & HIx). specialize (HIx eq_refl).
    assert (Hpx : par sx = true) by (rewrite (eqd_get par _ _ (fun _ => eq_refl) Ex); exact Hp5).
    split; [apply (Side_eqf _ _ (w_eqf (k n) sx) HSx)|]. split; [rewrite (eqf_get sblock _ _ (fun _ => eq_refl) (w_eqf (k n) sx)); exact Hsbx|].
    split; [rewrite (eqf_get process _ _ (fun _ => eq_refl) (w_eqf (k n) sx)); exact Hprx|]. intros _.
    apply (InvL_step sx _ (k n) HIx).
    - apply out_w. rewrite Hpx. discriminate.
    - unfold depthL. rewrite view_w. apply (Hk n).
    - rewrite par_w, Hpx. discriminate.
    - rewrite Inv.fmt_w. exact (sd_fmt _ HSx). }
  destruct (url_norm s5 url) as [n|]; [apply Hfin; reflexivity|apply Hfin; apply err_eqd].
Qed.

Lemma Side_set_regs b s : Side s -> Side (set_regs b s).
Proof. intros [A1 A3 A4 A5 A6 A7 A8 A9 A10 A11 A12 A13 A14 A15 A18 A19 A20]. destruct b; split; assumption. Qed.
Lemma P_set_regs p b s : P p s -> P p (set_regs b s) /\ has_cur (set_regs b s) = true.
Proof. intros (HS & Hsb & Hpr & HI). split; [|destruct b; reflexivity].
  split; [apply Side_set_regs; exact HS|]. split; [destruct b; exact Hsb|]. split; [destruct b; exact Hpr|].
  intro Hp. apply (InvL_regs s); [..|exact (HI Hp)]; unfold set_regs; destruct b; reflexivity. Qed.
Lemma P_after_handler p n s : P p s -> P p (after_handler n s).
Proof. intros (HS & Hsb & Hpr & HI). pose proof (after_handler_eqf n s) as F.
  split; [apply (Side_eqf _ _ F HS)|]. split; [rewrite (eqf_get sblock _ _ (fun _ => eq_refl) F); exact Hsb|].
  split; [rewrite (eqf_get process _ _ (fun _ => eq_refl) F); exact Hpr|].
  intro Hp. apply (InvL_regs s); [..|exact (HI Hp)]; unfold after_handler; destruct (elided s); try reflexivity; destruct (is_control_name n); reflexivity. Qed.

(* BLOCKS4-HERE *)
Lemma step_frag pb p b c s : in_frag b -> P p s -> P p (snd (step pb b (c, s))).
Proof. intros Hb HP. unfold step. cbv zeta.
  destruct (P_set_regs p b s HP) as [HP0 Hc0]. clear HP.
  set (s0 := set_regs b s) in *.
  pose proof HP0 as (HS & Hsb & Hpr & HI). pose proof HS as HS0. pose proof Hsb as Hsb0. pose proof Hpr as Hpr0. pose proof HI as HI0.
  assert (F0 : s0 ~= s0) by apply eqf_refl.
  destruct HS0 as [A1 A3 A4 A5 A6 A7 A8 A9 A10 A11 A12 A13 A14 A15 A18 A19 A20].
  rewrite A5, A6. cbn [Nat.ltb Nat.leb].
  assert (Hv : par s0 = false -> scope_verse s0 = false) by (intros _; apply scope_verse_bd; exact Hsb0).
  destruct b as [n a l|t l].
  - rewrite A3, A7. cbn [assoc].
    assert (Ebf : bf_check n s0 = s0) by (unfold bf_check; rewrite A8; reflexivity).
    destruct Hb as [-> | [-> | [-> | [-> | [-> | [-> | [-> | ->]]]]]]].
    + change (control_builtin pb (R "Bm")) with (@None (cst -> cst)). change (builtin (R "Bm")) with (Some macro_bm). cbn [snd]. rewrite Ebf.
      pose proof (macro_bm_eqf s0 A11 A1 Hc0) as F1.
      assert (F : after_handler (R "Bm") (macro_bm s0) ~= s0) by (eapply eqf_trans; [apply after_handler_eqf|exact F1]).
      split; [apply (Side_eqf _ _ F HS)|]. split; [rewrite (eqf_get sblock _ _ (fun _ => eq_refl) F); exact Hsb|]. split; [rewrite (eqf_get process _ _ (fun _ => eq_refl) F); exact Hpr|].
      intro Hp. pose proof (InvL_macro_bm s0 (HI0 Hp) A1 (eq_trans Hpr0 Hp) A3 Hv) as H.
      apply (InvL_regs (macro_bm s0)); [..|exact H]; unfold after_handler; destruct (elided (macro_bm s0)); reflexivity.
    + change (control_builtin pb (R "Em")) with (@None (cst -> cst)). change (builtin (R "Em")) with (Some macro_em). cbn [snd]. rewrite Ebf.
      destruct (macro_em_eqf s0 A11 A1) as [F1 _].
      assert (F : after_handler (R "Em") (macro_em s0) ~= s0) by (eapply eqf_trans; [apply after_handler_eqf|exact F1]).
      split; [apply (Side_eqf _ _ F HS)|]. split; [rewrite (eqf_get sblock _ _ (fun _ => eq_refl) F); exact Hsb|]. split; [rewrite (eqf_get process _ _ (fun _ => eq_refl) F); exact Hpr|].
      intro Hp. pose proof (InvL_macro_em s0 (HI0 Hp) A1 (eq_trans Hpr0 Hp) A3) as H.
      apply (InvL_regs (macro_em s0)); [..|exact H]; unfold after_handler; destruct (elided (macro_em s0)); reflexivity.
    + change (control_builtin pb (R "Sm")) with (@None (cst -> cst)). change (builtin (R "Sm")) with (Some macro_sm). cbn [snd]. rewrite Ebf.
      pose proof (macro_sm_eqf s0 A11 A1) as F1.
      assert (F : after_handler (R "Sm") (macro_sm s0) ~= s0) by (eapply eqf_trans; [apply after_handler_eqf|exact F1]).
      split; [apply (Side_eqf _ _ F HS)|]. split; [rewrite (eqf_get sblock _ _ (fun _ => eq_refl) F); exact Hsb|]. split; [rewrite (eqf_get process _ _ (fun _ => eq_refl) F); exact Hpr|].
      intro Hp. pose proof (InvL_macro_sm s0 (HI0 Hp) A1 (eq_trans Hpr0 Hp) A3 Hv) as H.
      apply (InvL_regs (macro_sm s0)); [..|exact H]; unfold after_handler; destruct (elided (macro_sm s0)); reflexivity.
    + change (control_builtin pb (R "P")) with (@None (cst -> cst)). change (builtin (R "P")) with (Some (macro_p pim)). cbn [snd]. rewrite Ebf.
      apply P_after_handler, macro_p_P; [exact HP0|exact Hc0].
    + change (control_builtin pb (R "Bd")) with (@None (cst -> cst)). change (builtin (R "Bd")) with (Some macro_bd). cbn [snd]. rewrite Ebf.
      apply P_after_handler, macro_bd_P; [exact HP0|exact Hc0].
    + change (control_builtin pb (R "Ed")) with (@None (cst -> cst)). change (builtin (R "Ed")) with (Some macro_ed). cbn [snd]. rewrite Ebf.
      apply P_after_handler, macro_ed_P. exact HP0.
    + change (control_builtin pb (R "D")) with (@None (cst -> cst)). change (builtin (R "D")) with (Some macro_d). cbn [snd]. rewrite Ebf.
      apply P_after_handler, macro_d_P. exact HP0.
    + change (control_builtin pb (R "Lk")) with (@None (cst -> cst)). change (builtin (R "Lk")) with (Some (macro_lk pim)). cbn [snd]. rewrite Ebf.
      apply P_after_handler, macro_lk_P; [exact HP0|exact Hc0].
  - cbn [snd]. unfold text_block.
    pose proof (process_text_eqf s0 A4 A11 A1) as F1.
    assert (Ebf : bf (process_text s0) = None) by (rewrite (eqf_get bf _ _ (fun _ => eq_refl) F1); exact A8). rewrite Ebf.
    assert (F : process_text s0 <| prev := [] |> ~= s0) by (eapply eqf_trans; [apply set_prev_eqf|exact F1]).
    split; [apply (Side_eqf _ _ F HS)|]. split; [rewrite (eqf_get sblock _ _ (fun _ => eq_refl) F); exact Hsb|]. split; [rewrite (eqf_get process _ _ (fun _ => eq_refl) F); exact Hpr|].
    intro Hp. pose proof (InvL_process_text s0 (HI0 Hp) A1 (eq_trans Hpr0 Hp) A4) as H.
    apply (InvL_regs (process_text s0)); [..|exact H]; reflexivity.
Qed.

Theorem frag_invariant p : forall fuel bs cs, Forall in_frag bs -> P p (snd cs) -> P p (snd (run_blocks (S fuel) bs cs)).
Proof. intros f bs cs Hbs. cbn [run_blocks]. revert cs. induction Hbs as [|b rest Hb Hrest IHb]; intros cs HP; [exact HP|].
  cbn [walk]. destruct cs as [c s]. pose proof (step_frag (run_blocks f) p b c s Hb HP) as H1.
  destruct (panicked (snd (step (run_blocks f) b (c, s)))); [exact H1|]. apply IHb. exact H1. Qed.


Lemma close_block_loop_P cur : forall f s, P true s -> (List.length (sblock s) <= f)%nat ->
  P true (close_block_loop f cur s) /\ (par s = false -> par (close_block_loop f cur s) = false) /\
  (sinline s = [] -> sinline (close_block_loop f cur s) = []) /\ has_cur (close_block_loop f cur s) = has_cur s /\ (List.length (sblock s) < f -> sblock (close_block_loop f cur s) = [])%nat.
Proof. induction f as [|f IH]; intros s HP Hl; cbn [close_block_loop]; [split; [exact HP|split; [exact (fun H => H)|split; [exact (fun H => H)|split; [reflexivity|lia]]]]|].
  destruct (top (sblock s)) as [sc|] eqn:Etop; [|split; [exact HP|split; [exact (fun H => H)|split; [exact (fun H => H)|split; [reflexivity|intros _; apply top_none; exact Etop]]]]].
  assert (Hbd : is_bd sc) by (destruct HP as (_ & Hsb & _); rewrite Forall_forall in Hsb; apply Hsb, (top_in _ _ Etop)).
  unfold is_bd in Hbd. rewrite Hbd. change (str_eqb (R "Bd") (R "Bl") || str_eqb (R "Bd") (R "It")) with false. cbv iota.
  set (s2 := warn_unclosed sc (s <| macro := cur |>) <| macro := R "Ed" |> <| args := tag_args (sc_tag sc) |>).
  set (s2q := s2 <| quiet := true |>).
  assert (HP2q : P true s2q).
  { apply (P_same true _ (warn_unclosed sc (s <| macro := cur |>))); [unfold s2q, s2; destruct (warn_unclosed sc (s <| macro := cur |>)); reflexivity|reflexivity|reflexivity|reflexivity|].
    unfold warn_unclosed. apply (P_eqd _ _ _ (err_eqd _ _)). apply (P_same true _ s); [destruct s; reflexivity|reflexivity|reflexivity|reflexivity|exact HP]. }
  assert (Hsb2q : sblock s2q = sblock s) by (unfold s2q, s2, warn_unclosed; cbn; rewrite (eqd_get sblock _ _ (fun _ => eq_refl) (err_eqd _ _)); reflexivity).
  assert (Hp2q : par s2q = par s) by (unfold s2q, s2, warn_unclosed; cbn; rewrite (eqd_get par _ _ (fun _ => eq_refl) (err_eqd _ _)); reflexivity).
  assert (Hsi2q : sinline s2q = sinline s) by (unfold s2q, s2, warn_unclosed; cbn; rewrite (eqd_get sinline _ _ (fun _ => eq_refl) (err_eqd _ _)); reflexivity).
  assert (Hhc2q : has_cur s2q = has_cur s) by (unfold s2q, s2, warn_unclosed; cbn; rewrite (eqd_get has_cur _ _ (fun _ => eq_refl) (err_eqd _ _)); reflexivity).
  destruct (macro_ed_P true s2q HP2q) as [HPe He]. destruct (He eq_refl) as (Hpop & Hpar & Hsin & Hhc).
  set (s3 := macro_ed s2q <| quiet := quiet s2 |> <| args := [] |>).
  assert (HP3 : P true s3) by (apply (P_same true _ (macro_ed s2q)); [unfold s3; destruct (macro_ed s2q); reflexivity|reflexivity|reflexivity|reflexivity|exact HPe]).
  assert (Hsb3 : sblock s3 = pop (sblock s)) by (unfold s3; cbn; rewrite Hpop, Hsb2q; reflexivity).
  assert (Hl3 : (List.length (sblock s3) <= f)%nat) by (rewrite Hsb3, pop_length; lia).
  destruct (IH s3 HP3 Hl3) as (H1 & H2 & H2' & H2h & H3). split; [exact H1|].
  split; [intro Hp; apply H2; apply Hpar; rewrite Hp2q; exact Hp|].
  split; [intro Hsi; apply H2'; apply Hsin; rewrite Hsi2q; exact Hsi|].
  split; [rewrite H2h; unfold s3; cbn; rewrite Hhc; exact Hhc2q|].
  intro Hlt. apply H3. rewrite Hsb3, pop_length.
  assert (List.length (sblock s) <> 0)%nat by (destruct (sblock s); [discriminate|cbn; lia]). lia.
Qed.

Lemma close_unclosed_block_P s : P true s ->
  P true (close_unclosed_block s) /\ (par s = false -> par (close_unclosed_block s) = false) /\
  (sinline s = [] -> sinline (close_unclosed_block s) = []) /\ has_cur (close_unclosed_block s) = has_cur s /\ sblock (close_unclosed_block s) = [].
Proof. intros HP. unfold close_unclosed_block. destruct (sblock s) as [|sc l] eqn:E; [split; [exact HP|split; [exact (fun H => H)|split; [exact (fun H => H)|split; [reflexivity|exact E]]]]|].
  set (s0 := s <| args := [] |>).
  assert (HP0 : P true s0) by (apply (P_same true _ s); [destruct s; reflexivity|reflexivity|reflexivity|reflexivity|exact HP]).
  assert (Hl : (List.length (sblock s0) <= S (S (List.length (sc :: l))))%nat) by (change (sblock s0) with (sblock s); rewrite E; lia).
  destruct (close_block_loop_P (macro s) (S (S (List.length (sc :: l)))) s0 HP0 Hl) as (H1 & H2 & H2' & H2h & H3).
  set (r := close_block_loop (S (S (List.length (sc :: l)))) (macro s) s0) in *.
  split; [apply (P_same true _ r); [destruct r; reflexivity|reflexivity|reflexivity|reflexivity|exact H1]|]. split; [exact H2|]. split; [exact H2'|]. split; [exact H2h|].
  change (sblock (r <| macro := macro s |> <| args := args s |>)) with (sblock r). apply H3. change (sblock s0) with (sblock s). rewrite E. lia.
Qed.

Lemma elems_closed s : sblock s = [] -> par s = false -> elems s = [].
Proof. intros Hb Hp. unfold elems, view, elems_v. rewrite Hb, Hp. reflexivity. Qed.

Lemma eof_sweep_P s : P true s -> let s' := eof_sweep s in Side s' /\ InvL s' /\ par s' = false /\ sblock s' = [].
Proof. intros HP. cbv zeta. unfold eof_sweep.
  set (s3 := s <| has_cur := false |> <| macro := R "End Of File" |>).
  assert (HP3 : P true s3).
  { destruct HP as ([A1 A3 A4 A5 A6 A7 A8 A9 A10 A11 A12 A13 A14 A15 A18 A19 A20] & Hsb & Hpr & HI). split; [split; assumption|]. split; [exact Hsb|]. split; [exact Hpr|].
    intro Hp. apply (InvL_regs s); try reflexivity. exact (HI Hp). }
  destruct (close_unclosed_inline_P s3 HP3) as [HPa Hsia].
  destruct (end_par_P _ HPa Hsia) as (HPb & Hpb & _). cbv zeta in HPb, Hpb.
  set (sb := end_par PNormal (close_unclosed_inline s3)) in *. clearbody sb.
  destruct (close_unclosed_block_P sb HPb) as (HPc & Hpc' & _ & _ & Hsbc). pose proof (Hpc' Hpb) as Hpc.
  set (sc := close_unclosed_block sb) in *. clearbody sc.
  destruct HPc as (HSc & _ & _ & HIc). specialize (HIc eq_refl).
  set (s5 := fold_left (fun a x => warn_unclosed x a) (rev (sif sc)) sc).
  assert (E5 : s5 ~~ sc) by (apply fold_err_eqd; intros a x; apply err_eqd).
  rewrite (eqd_get bf _ _ (fun _ => eq_refl) E5), (sd_bf _ HSc).
  rewrite (eqd_get udef _ _ (fun _ => eq_refl) E5), (sd_udef _ HSc).
  split; [apply (Side_eqf _ _ (eqd_eqf _ _ E5) HSc)|]. split; [apply (InvL_eqd _ _ E5 HIc)|].
  split; [rewrite (eqd_get par _ _ (fun _ => eq_refl) E5); exact Hpc|rewrite (eqd_get sblock _ _ (fun _ => eq_refl) E5); exact Hsbc].
Qed.

