Require Import PathClean.
From Coq Require Import List NArith Bool Lia.
Import ListNotations.
Open Scope N_scope.

Definition no_slash (c : str) : Prop := Forall (fun x => x <> SL) c.
Definition safe (c : str) : Prop := c <> [] /\ no_slash c /\ c <> DOT /\ c <> DOTDOT.

Lemma str_eqb_eq a : forall b, str_eqb a b = true <-> a = b.
Proof.
  induction a as [|x a IH]; intros [|y b]; cbn; split; intros H; try discriminate; try reflexivity.
  - apply andb_true_iff in H as [H1 H2]. apply N.eqb_eq in H1. apply IH in H2. subst. reflexivity.
  - inversion H; subst. rewrite N.eqb_refl. apply IH. reflexivity.
Qed.
Lemma str_eqb_neq a b : a <> b -> str_eqb a b = false.
Proof. intros H. destruct (str_eqb a b) eqn:E; [apply str_eqb_eq in E; congruence|reflexivity]. Qed.

(* splitting a path followed by "/" and a slash-free component *)
Lemma split_acc_app p : forall cur c, no_slash c ->
  split_acc (p ++ SL :: c) cur = split_acc p cur ++ [c].
Proof.
  induction p as [|x p IH]; intros cur c Hc; cbn [app split_acc].
  - rewrite N.eqb_refl. f_equal.
    assert (G : forall c acc, no_slash c -> split_acc c acc = [rev acc ++ c]).
    { clear. induction c as [|y c IH]; intros acc H; cbn [split_acc]; [rewrite app_nil_r; reflexivity|].
      inversion H; subst. destruct (N.eqb_spec y SL); [congruence|]. rewrite IH by assumption. cbn [rev]. rewrite <- app_assoc. reflexivity. }
    rewrite (G c [] Hc). reflexivity.
  - destruct (x =? SL); [cbn [app]; f_equal|]; apply IH; assumption.
Qed.

Lemma clean_step_safe rooted stack c : safe c -> clean_step rooted stack c = c :: stack.
Proof.
  intros (Hne & _ & Hd & Hdd). unfold clean_step. destruct c as [|x c]; [congruence|].
  rewrite (str_eqb_neq _ _ Hd), (str_eqb_neq _ _ Hdd). reflexivity.
Qed.

(* a path as (rooted?, cleaned element list); clean is its rendering *)
Definition elems (p : str) : bool * list str :=
  match p with
  | [] => (false, [])
  | c :: _ => (c =? SL, rev (fold_left (clean_step (c =? SL)) (PathClean.split p) []))
  end.
Definition render (e : bool * list str) : str :=
  let body := join_sl (snd e) in
  if fst e then SL :: body else match body with [] => DOT | _ => body end.
Lemma clean_render p : clean p = render (elems p).
Proof. destruct p; reflexivity. Qed.

(* C17 core: joining a directory with a safe component only appends that component *)
Theorem join_safe_elems o c : o <> [] -> safe c ->
  elems (o ++ SL :: c) = (fst (elems o), snd (elems o) ++ [c]).
Proof.
  intros Ho Hs. destruct o as [|x o]; [congruence|]. assert (Hc := Hs). destruct Hc as (Hne & Hns & _ & _).
  unfold elems. cbn [app fst snd]. unfold PathClean.split. change (x :: o ++ SL :: c) with ((x :: o) ++ SL :: c).
  rewrite split_acc_app by assumption. rewrite fold_left_app. cbn [fold_left].
  rewrite clean_step_safe by assumption. reflexivity.
Qed.

(* and an unsafe one can leave it: the witness of D13 *)
Example dotdot_escapes :
  let o := [111; 117; 116] in                       (* "out" *)
  clean (o ++ SL :: [46; 46; 47; 101]) = [101].      (* "out/../e"  ->  "e" *)
Proof. vm_compute. reflexivity. Qed.

Print Assumptions join_safe_elems.
