(* C09, false branch, on the real dispatcher (Model/Loop.step): a region entered with the ignore depth positive
   leaves everything but the dispatch registers and the log unchanged, nesting respected, and starts no process. *)
From Coq Require Import List NArith Bool Lia Arith String.
Import ListNotations.
Require Import Exp Proc1 Proc2 Proc3 Ctl Loop.
Open Scope N_scope.

(* equality of rendering states up to the dispatch registers and the diagnostics *)
Definition nfc (s : st) : st :=
  s <| macro := [] |> <| args := [] |> <| line := 0%nat |> <| has_cur := false |> <| text := [] |> <| diags := [] |>.
Definition eqc (a b : st) : Prop := nfc a = nfc b.
Infix "=c=" := eqc (at level 70).
Lemma eqc_refl s : s =c= s. Proof. reflexivity. Qed.
Lemma eqc_trans a b c : a =c= b -> b =c= c -> a =c= c. Proof. unfold eqc; congruence. Qed.
Lemma err_eqc k s : err k s =c= s.
Proof. unfold err. destruct (quiet s); [reflexivity|]. destruct (cloc s) as [[[l n] f]|]; destruct s; vm_compute; reflexivity. Qed.
Ltac getc H g := apply (f_equal g) in H; cbn in H.

Definition is_if (b : block) : bool := match b with BMacro n _ _ => is_name n "#if" | _ => false end.
Definition is_end (b : block) : bool := match b with BMacro n _ _ => is_name n "#;" | _ => false end.
Lemma regs_eqc b s : set_regs b s =c= s. Proof. destruct b; destruct s; vm_compute; reflexivity. Qed.
Lemma regs_ifdepth b s : ifdepth (set_regs b s) = ifdepth s. Proof. destruct b; reflexivity. Qed.
Lemma regs_panicked b s : panicked (set_regs b s) = panicked s. Proof. destruct b; reflexivity. Qed.

(* one block while ignoring *)
Lemma step_ignored_other pb b c s : (0 < ifdepth s)%nat -> is_if b = false -> is_end b = false -> step pb b (c, s) = (c, set_regs b s).
Proof.
  intros Hd H1 H2. unfold step. rewrite regs_ifdepth.
  destruct (Nat.ltb_spec 0 (ifdepth s)) as [_|C]; [|lia].
  destruct b as [n a l|t l]; [|reflexivity]. cbn in H1, H2. rewrite H1, H2. reflexivity.
Qed.

Lemma step_ignored_if pb n a l c s : (0 < ifdepth s)%nat -> is_name n "#;" = false -> is_name n "#if" = true ->
  exists sc s1, step pb (BMacro n a l) (c, s) = (c, s1) /\ s1 =c= s <| sif ::= fun x => x ++ [sc] |> <| ifdepth ::= S |>
                /\ panicked s1 = panicked s.
Proof.
  intros Hd H1 H2. unfold step. rewrite regs_ifdepth.
  destruct (Nat.ltb_spec 0 (ifdepth s)) as [_|C]; [|lia]. rewrite H1, H2.
  set (s0 := set_regs (BMacro n a l) s).
  unfold macro_if_start, push_if, mk_scope. change (has_cur s0) with true.
  destruct (cloc s0) as [[[l0 n0] f0]|]; cbv zeta.
  - change (ifdepth (s0 <| sif ::= fun x => x ++ [mkScope [] [] [] false l0 true] |>)) with (ifdepth s).
    destruct (Nat.ltb_spec 0 (ifdepth s)) as [_|C]; [|lia]. do 2 eexists. split; [reflexivity|]. split; [|reflexivity].
    unfold s0. destruct s; vm_compute; reflexivity.
  - change (ifdepth (s0 <| sif ::= fun x => x ++ [mkScope [] [] [] false (line s0) false] |>)) with (ifdepth s).
    destruct (Nat.ltb_spec 0 (ifdepth s)) as [_|C]; [|lia]. do 2 eexists. split; [reflexivity|]. split; [|reflexivity].
    unfold s0. destruct s; vm_compute; reflexivity.
Qed.

Lemma step_ignored_end pb n a l c s sc r : (0 < ifdepth s)%nat -> is_name n "#;" = true -> sif s = r ++ [sc] ->
  exists s1, step pb (BMacro n a l) (c, s) = (c, s1) /\ s1 =c= s <| sif := r |> <| ifdepth ::= Nat.pred |> /\ panicked s1 = panicked s.
Proof.
  intros Hd H1 Hs. unfold step. rewrite regs_ifdepth.
  destruct (Nat.ltb_spec 0 (ifdepth s)) as [_|C]; [|lia]. rewrite H1.
  set (s0 := set_regs (BMacro n a l) s). eexists. split; [reflexivity|].
  unfold macro_if_end.
  set (s1 := if negb (Nat.eqb (List.length (args s0)) 0) && process s0 then err "useless arguments" s0 else s0).
  assert (E1 : s1 =c= s) by (unfold s1; destruct (_ && _); [eapply eqc_trans; [apply err_eqc|]|]; unfold s0; destruct s; vm_compute; reflexivity).
  assert (P1 : panicked s1 = panicked s).
  { unfold s1. destruct (_ && _); [|reflexivity]. unfold err. destruct (quiet s0); [reflexivity|]. destruct (cloc s0) as [[[? ?] ?]|]; reflexivity. }
  assert (S1 : sif s1 = r ++ [sc]) by (pose proof E1 as H; getc H sif; rewrite H; exact Hs).
  change (sif (s1 <| ifdepth ::= Nat.pred |>)) with (sif s1). rewrite S1.
  assert (Hne : exists h t, r ++ [sc] = h :: t) by (destruct r; cbn; eauto). destruct Hne as (h & t & Hht). rewrite Hht. cbv beta iota.
  split; [|exact P1].
  unfold eqc in *.
  assert (Hpop : forall x : st, sif x = r ++ [sc] -> x <| sif ::= pop |> = x <| sif := r |>).
  { intros x Hx. transitivity (x <| sif := pop (sif x) |>); [destruct x; reflexivity|]. rewrite Hx. unfold pop. rewrite removelast_last. reflexivity. }
  rewrite Hpop by exact S1.
  transitivity (nfc s1 <| ifdepth ::= Nat.pred |> <| sif := r |>); [destruct s1; vm_compute; reflexivity|]. rewrite E1. destruct s; vm_compute; reflexivity.
Qed.

(* bodies in which #if and #; are balanced *)
Inductive bal : list block -> Prop :=
| bal_nil : bal []
| bal_other b r : is_if b = false -> is_end b = false -> bal r -> bal (b :: r)
| bal_nest n1 a1 l1 inner n2 a2 l2 r :
    is_name n1 "#;" = false -> is_name n1 "#if" = true -> is_name n2 "#;" = true ->
    bal inner -> bal r -> bal (BMacro n1 a1 l1 :: inner ++ BMacro n2 a2 l2 :: r).

Lemma eqc_ifdepth a b : a =c= b -> ifdepth a = ifdepth b. Proof. intro H. getc H ifdepth. exact H. Qed.
Lemma eqc_sif a b : a =c= b -> sif a = sif b. Proof. intro H. getc H sif. exact H. Qed.

(* processing a list is processing its two halves in turn *)
Lemma walk_app pb a : forall b cs, panicked (snd cs) = None ->
  walk pb (a ++ b) cs = (match panicked (snd (walk pb a cs)) with Some _ => walk pb a cs | None => walk pb b (walk pb a cs) end).
Proof.
  induction a as [|x a IH]; intros b cs Hp.
  - cbn [app walk]. rewrite Hp. reflexivity.
  - cbn [app walk]. destruct (panicked (snd (step pb x cs))) eqn:E.
    + rewrite E. reflexivity.
    + apply IH. exact E.
Qed.

Theorem ignored_region pb body : bal body -> forall c s, (0 < ifdepth s)%nat -> panicked s = None ->
  exists s', walk pb body (c, s) = (c, s') /\ s' =c= s /\ panicked s' = None.
Proof.
  induction 1 as [|b r H1 H2 Hr IHr|n1 a1 l1 inner n2 a2 l2 r H1 H2 H3 Hin IHin Hr IHr]; intros c s Hd Hp.
  - exists s. split; [reflexivity|]. split; [reflexivity|exact Hp].
  - cbn [walk]. rewrite (step_ignored_other pb b c s Hd H1 H2). cbn [snd]. rewrite regs_panicked, Hp.
    destruct (IHr c (set_regs b s)) as (s' & E & A & B); [rewrite regs_ifdepth; exact Hd | rewrite regs_panicked; exact Hp|].
    exists s'. split; [exact E|]. split; [eapply eqc_trans; [exact A|apply regs_eqc]|exact B].
  - cbn [walk]. destruct (step_ignored_if pb n1 a1 l1 c s Hd H1 H2) as (sc & s1 & Es & E1 & P1). rewrite Es. cbn [snd]. rewrite P1, Hp.
    assert (D1 : ifdepth s1 = S (ifdepth s)) by (rewrite (eqc_ifdepth _ _ E1); reflexivity).
    assert (Pn : panicked s1 = None) by congruence.
    rewrite (walk_app pb inner (BMacro n2 a2 l2 :: r) (c, s1) Pn).
    destruct (IHin c s1 ltac:(lia) Pn) as (s2 & E2 & A & B). rewrite E2. cbn [snd]. rewrite B.
    cbn [walk].
    assert (D2 : (0 < ifdepth s2)%nat) by (rewrite (eqc_ifdepth _ _ A); lia).
    assert (S2 : sif s2 = sif s ++ [sc]) by (rewrite (eqc_sif _ _ A), (eqc_sif _ _ E1); reflexivity).
    destruct (step_ignored_end pb n2 a2 l2 c s2 sc (sif s) D2 H3 S2) as (s3 & E3s & E3 & P3). rewrite E3s. cbn [snd]. rewrite P3, B.
    assert (E3' : s3 =c= s).
    { eapply eqc_trans; [exact E3|]. unfold eqc in *.
      transitivity (nfc s2 <| sif := sif s |> <| ifdepth ::= Nat.pred |>); [destruct s2; vm_compute; reflexivity|]. rewrite A.
      transitivity (nfc s1 <| sif := sif s |> <| ifdepth ::= Nat.pred |>); [destruct s1; vm_compute; reflexivity|]. rewrite E1. destruct s; vm_compute; reflexivity. }
    destruct (IHr c s3) as (s4 & E4 & A4 & B4); [rewrite (eqc_ifdepth _ _ E3'); exact Hd|congruence|].
    exists s4. split; [exact E4|]. split; [eapply eqc_trans; eauto|exact B4].
Qed.
Print Assumptions ignored_region.

(* C09, false branch: after the #if that starts ignoring (ignore depth 1), a balanced body and the matching #; leave the
   control state, the output, the paragraph buffer and every other piece of rendering state as they were *)
Lemma walk_one pb b cs : walk pb [b] cs = step pb b cs.
Proof. cbn [walk]. destruct (panicked (snd (step pb b cs))); reflexivity. Qed.
Theorem false_branch_elided pb body n a l c s : bal body -> is_name n "#;" = true -> (ifdepth s = 1)%nat -> panicked s = None ->
  forall sc r, sif s = r ++ [sc] ->
  exists s', walk pb (body ++ [BMacro n a l]) (c, s) = (c, s') /\
             s' =c= s <| sif := r |> <| ifdepth := 0%nat |> /\ panicked s' = None.
Proof.
  intros Hb Hn Hd Hp sc r Hs. rewrite (walk_app pb body _ (c, s) Hp).
  destruct (ignored_region pb body Hb c s ltac:(lia) Hp) as (s2 & E2 & A & B). rewrite E2. cbn [snd]. rewrite B, walk_one.
  destruct (step_ignored_end pb n a l c s2 sc r ltac:(rewrite (eqc_ifdepth _ _ A); lia) Hn ltac:(rewrite (eqc_sif _ _ A); exact Hs)) as (s3 & E3s & E3 & P3).
  exists s3. split; [exact E3s|]. split; [|congruence].
  eapply eqc_trans; [exact E3|]. unfold eqc in *.
  transitivity (nfc s2 <| sif := r |> <| ifdepth ::= Nat.pred |>); [destruct s2; vm_compute; reflexivity|]. rewrite A.
  transitivity (nfc (s <| sif := r |> <| ifdepth := Nat.pred (ifdepth s) |>)); [destruct s; vm_compute; reflexivity|]. rewrite Hd. reflexivity.
Qed.
Print Assumptions false_branch_elided.

(* ---- the #if line itself: whatever its arguments, its only effects are the scope push, the choice of the ignore
   depth (0 or 1) and diagnostics ---- *)
Require Import Eqd.
Lemma macro_if_start_spec s : has_cur s = true -> ifdepth s = 0%nat ->
  exists sc d, (d = 0%nat \/ d = 1%nat) /\ macro_if_start s ~~ s <| sif ::= fun x => x ++ [sc] |> <| ifdepth := d |>.
Proof.
  intros Hc Hd. unfold macro_if_start.
  assert (E0 : exists sc, push_if s = s <| sif ::= fun x => x ++ [sc] |>).
  { unfold push_if, mk_scope. rewrite Hc. destruct (cloc s) as [[[l n] f]|]; eexists; reflexivity. }
  destruct E0 as [sc E0]. rewrite E0. set (s0 := s <| sif ::= fun x => x ++ [sc] |>).
  change (ifdepth s0) with (ifdepth s). rewrite Hd. cbn [Nat.ltb Nat.leb].
  pose proof (parse_opts_eqd specOptIf (args s0) s0) as E1. destruct (parse_opts specOptIf (args s0) s0) as [o s1]. cbn [snd] in E1. cbv zeta.
  set (s2 := if _ && process s1 then err "too many arguments" s1 else s1).
  assert (E2 : s2 ~~ s0) by (unfold s2; destruct (_ && _); [eapply eqd_trans; [apply err_eqd|exact E1]|exact E1]). clearbody s2.
  set (r3 := match opt "f" o with Some f => _ | None => (false, s2) end).
  assert (E3 : snd r3 ~~ s0).
  { unfold r3. destruct (opt "f" o) as [f|]; [|exact E2].
    pose proof (formats_of_eqd f s2) as H. destruct (formats_of f s2) as [fs s']. cbn [snd] in *.
    destruct (process s'); cbn [snd]; [eapply eqd_trans; [apply check_formats_eqd|]|]; eapply eqd_trans; eauto. }
  destruct r3 as [ig1 s3]. cbn [snd] in E3.
  set (r4 := match opt "eq" o with Some c => _ | None => (ig1, s3) end).
  assert (E4 : snd r4 ~~ s0).
  { unfold r4. destruct (opt "eq" o) as [c|]; [|exact E3]. destruct (po_args o) as [|x xs].
    - cbn [snd]. destruct (process s3); [eapply eqd_trans; [apply err_eqd|exact E3]|exact E3].
    - pose proof (inlines_text_eqd c s3) as H1. destruct (inlines_text c s3) as [cs s']. cbn [snd] in H1.
      pose proof (inlines_text_eqd x s') as H2. destruct (inlines_text x s') as [xs' s'']. cbn [snd] in *.
      eapply eqd_trans; [exact H2|]. eapply eqd_trans; eauto. }
  destruct r4 as [ig2 s4]. cbn [snd] in E4.
  set (s5 := if _ && process s4 then err "boolean argument required" s4 else s4).
  assert (E5 : s5 ~~ s0) by (unfold s5; destruct (_ && _); [eapply eqd_trans; [apply err_eqd|exact E4]|exact E4]). clearbody s5.
  set (r6 := match po_args o with x :: _ => _ | [] => (ig2, s5) end).
  assert (E6 : snd r6 ~~ s0).
  { unfold r6. destruct (po_args o) as [|x xs]; [exact E5|]. destruct (match opt "eq" o with Some _ => true | None => false end); [exact E5|].
    pose proof (inlines_text_eqd x s5) as H. destruct (inlines_text x s5) as [xs' s']. cbn [snd] in *. eapply eqd_trans; eauto. }
  destruct r6 as [ig3 s6]. cbn [snd] in E6.
  exists sc. exists (if (if flag "not" o then negb ig3 else ig3) then 1%nat else 0%nat).
  split; [destruct (if flag "not" o then negb ig3 else ig3); auto|].
  unfold eqd in *. transitivity (nd s6 <| ifdepth := (if (if flag "not" o then negb ig3 else ig3) then 1%nat else 0%nat) |>); [destruct s6; reflexivity|].
  rewrite E6. unfold s0. destruct s; reflexivity.
Qed.
Print Assumptions macro_if_start_spec.

(* ---- a whole conditional block whose condition is false, dispatched at top level ---- *)
Lemma eqd_eqc a b : a ~~ b -> a =c= b.
Proof. intro H. unfold eqc, eqd in *. transitivity (nfc (nd a)); [destruct a; reflexivity|]. rewrite H. destruct b; reflexivity. Qed.
Theorem false_conditional_is_absent pb a l body n2 a2 l2 c s :
  let b := BMacro (R "#if") a l in
  ifdepth s = 0%nat -> udef s = None -> elided s = false -> panicked s = None ->
  (inl s = true \/ assoc (R "#if") (umacros s) = None) ->
  ifdepth (macro_if_start (set_regs b s)) = 1%nat ->           (* the condition is false *)
  bal body -> is_name n2 "#;" = true ->
  exists s', walk pb (b :: body ++ [BMacro n2 a2 l2]) (c, s) = (c, s') /\ s' =c= s /\ panicked s' = None.
Proof.
  intros b Hd Hu He Hp Hum Hfalse Hb Hn2.
  set (s0 := set_regs b s).
  destruct (macro_if_start_spec s0) as (sc & d & Hdd & Hs); [reflexivity | exact Hd|].
  assert (Hd1 : ifdepth (macro_if_start s0) = d) by (rewrite (eqd_get ifdepth _ _ (fun x => eq_refl) Hs); reflexivity).
  fold s0 in Hfalse. rewrite Hd1 in Hfalse. subst d.
  assert (Hstep : step pb b (c, s) = (c, macro_if_start s0)).
  { unfold step. fold s0. change (ifdepth s0) with (ifdepth s). rewrite Hd. cbn [Nat.ltb Nat.leb].
    change (udef s0) with (udef s). rewrite Hu.
    assert (Hl : (if inl s0 then None else assoc (R "#if") (umacros s0)) = None).
    { change (inl s0) with (inl s). change (umacros s0) with (umacros s). destruct Hum as [->| ->]; [reflexivity| destruct (inl s); reflexivity]. }
    unfold b at 1. rewrite Hl.
    change (control_builtin pb (R "#if")) with (@None (cst -> cst)).
    change (builtin (R "#if")) with (Some macro_if_start). cbv iota.
    assert (Hbf : bf_check (R "#if") s0 = s0) by (unfold bf_check; destruct (bf s0); reflexivity). rewrite Hbf.
    unfold after_handler.
    assert (Hel : elided (macro_if_start s0) = false) by (rewrite (eqd_get elided _ _ (fun x => eq_refl) Hs); exact He).
    rewrite Hel. reflexivity. }
  assert (Hp1 : panicked (macro_if_start s0) = None) by (rewrite (eqd_get panicked _ _ (fun x => eq_refl) Hs); exact Hp).
  change (b :: body ++ [BMacro n2 a2 l2]) with ([b] ++ (body ++ [BMacro n2 a2 l2])).
  rewrite (walk_app pb [b] _ (c, s) Hp), walk_one, Hstep. cbn [snd]. rewrite Hp1.
  set (s1 := macro_if_start s0) in *.
  assert (Hsif : sif s1 = sif s ++ [sc]) by (rewrite (eqd_get sif _ _ (fun x => eq_refl) Hs); reflexivity).
  destruct (false_branch_elided pb body n2 a2 l2 c s1 Hb Hn2 Hd1 Hp1 sc (sif s) Hsif) as (s' & Ew & Es & Ep).
  exists s'. split; [exact Ew|]. split; [|exact Ep].
  eapply eqc_trans; [exact Es|]. apply eqd_eqc in Hs. unfold eqc in *.
  transitivity (nfc s1 <| sif := sif s |> <| ifdepth := 0%nat |>); [destruct s1; vm_compute; reflexivity|]. rewrite Hs.
  unfold s0. rewrite <- Hd. destruct s; destruct b; vm_compute; reflexivity.
Qed.
Print Assumptions false_conditional_is_absent.
