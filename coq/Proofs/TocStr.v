(* C02/C06: the table-of-contents writer of the XHTML exporter (Model/Xhtml.toc_string, the model of writeTOC after the
   repair of D4) emits a correctly nested list for every header sequence and every combination of options: read by the
   tag machine of Tok.v, its output opens and closes exactly its own elements. *)
From Coq Require Import List NArith Bool Lia Arith String.
Import ListNotations.
Require Import Xhtml Exp Eqd Tok Inv.
Open Scope N_scope.
Arguments run : simpl never.
Arguments flat : simpl never.

Definition balanced_chunk (x : str) : Prop := forall stk, run x (Txt, stk) = (Txt, stk).
Lemma balanced_app a b : balanced_chunk a -> balanced_chunk b -> balanced_chunk (a ++ b).
Proof. intros Ha Hb stk. rewrite run_app, Ha, Hb. reflexivity. Qed.
Lemma textual_balanced x : textual x -> balanced_chunk x. Proof. exact (fun H => H). Qed.
Lemma spaces2_textual n : textual (spaces2 n).
Proof. unfold spaces2. induction n as [|n IH]; [apply textual_nil|]. cbn [repeat concat]. apply textual_app; [intro; reflexivity|exact IH]. Qed.

Record entry_ok (e : lox) : Prop := { eo_ref : no_c 62 (lx_ref e) = true; eo_title : balanced_chunk (lx_title e); eo_num : textual (lx_num e) }.

Lemma replace_hash_no_gt l : no_c 62 l = true -> no_c 62 (X.replace_hash l) = true.
Proof. induction l as [|c r IH]; [reflexivity|]. cbn [X.replace_hash no_c forallb]. intro H. apply andb_true_iff in H as [H1 H2].
  apply andb_true_iff. split; [|apply IH; exact H2]. destruct (c =? 35) eqn:E; [reflexivity|exact H1]. Qed.

(* element names per dialect: the list item, the nested list (none in NCX), the enclosing elements *)
Definition item (d : X.dialect) : str := match d with X.DNcx => R "navPoint" | _ => R "li" end.
Definition lst (d : X.dialect) : list str := match d with X.DXhtml => [R "ul"] | X.DNcx => [] | X.DNav => [R "ol"] end.
Definition B (d : X.dialect) (stk : list str) : list str :=
  match d with X.DXhtml => R "ul" :: R "div" :: stk | X.DNcx => R "navMap" :: stk | X.DNav => R "ol" :: R "nav" :: stk end.
Definition nest (d : X.dialect) (k : nat) (stk : list str) : list str := List.concat (repeat (lst d ++ [item d]) k) ++ B d stk.
Definition stackL (d : X.dialect) (L : nat) (stk : list str) : list str := match L with O => B d stk | S k => item d :: nest d k stk end.

Lemma numdot_textual e : textual (lx_num e) -> textual (X.numdot e).
Proof. intro Hn. unfold X.numdot. destruct (lx_num e) eqn:E; [apply textual_nil|]. apply textual_app; [exact Hn|intro; reflexivity]. Qed.

Lemma run_entry d mf e nonum level : entry_ok e -> open_chunk (item d) (X.entry_str d mf e nonum level).
Proof. intros [Hr Ht Hn] stk. unfold X.entry_str. destruct d.
  - unfold X.toc_entry.
    set (num := if nonum || _ then [] else _).
    assert (Hnum : textual num).
    { unfold num. destruct (nonum || _); [apply textual_nil|]. destruct (lx_num e) eqn:E; [apply textual_nil|]. apply textual_app; [exact Hn|intro; reflexivity]. }
    clearbody num.
    rewrite run_app, (spaces2_textual (S level)).
    rewrite run_app. change (run (R "<li><a href=""") (Txt, stk)) with (ORest (R "a") false, R "li" :: stk).
    rewrite run_app, (run_rest _ Hr).
    rewrite run_app. assert (Hq : forall sl S, run (R """>") (ORest (R "a") sl, S) = (Txt, R "a" :: S)) by (intros [|] S; reflexivity). rewrite Hq.
    rewrite run_app, Hnum, run_app, Ht. reflexivity.
  - rewrite run_app, (spaces2_textual (S level)).
    rewrite run_app. change (run (R "<navPoint id=""") (Txt, stk)) with (ORest (R "navPoint") false, stk).
    rewrite run_app, (run_rest _ (replace_hash_no_gt _ Hr)).
    rewrite run_app. assert (Hq : forall sl S, run (R """>") (ORest (R "navPoint") sl, S) = (Txt, R "navPoint" :: S)) by (intros [|] S; reflexivity). rewrite Hq.
    rewrite run_app. change (run NLs (Txt, R "navPoint" :: stk)) with (Txt, R "navPoint" :: stk).
    rewrite run_app, (spaces2_textual (S (S level))).
    rewrite run_app. change (run (R "<navLabel><text>") (Txt, R "navPoint" :: stk)) with (Txt, R "text" :: R "navLabel" :: R "navPoint" :: stk).
    rewrite run_app, (numdot_textual e Hn), run_app, Ht.
    rewrite run_app. change (run (R "</text></navLabel>") (Txt, R "text" :: R "navLabel" :: R "navPoint" :: stk)) with (Txt, R "navPoint" :: stk).
    rewrite run_app. change (run NLs (Txt, R "navPoint" :: stk)) with (Txt, R "navPoint" :: stk).
    rewrite run_app, (spaces2_textual (S (S level))).
    rewrite run_app. change (run (R "<content src=""") (Txt, R "navPoint" :: stk)) with (ORest (R "content") false, R "navPoint" :: stk).
    rewrite run_app, (run_rest _ Hr).
    rewrite run_app. assert (Hq2 : forall sl S, run (R """ />") (ORest (R "content") sl, S) = (Txt, S)) by (intros [|] S; reflexivity). rewrite Hq2. reflexivity.
  - rewrite run_app, (spaces2_textual (S level)).
    rewrite run_app. change (run (R "<li><a href=""") (Txt, stk)) with (ORest (R "a") false, R "li" :: stk).
    rewrite run_app, (run_rest _ Hr).
    rewrite run_app. assert (Hq : forall sl S, run (R """>") (ORest (R "a") sl, S) = (Txt, R "a" :: S)) by (intros [|] S; reflexivity). rewrite Hq.
    rewrite run_app, (numdot_textual e Hn), run_app, Ht. reflexivity.
Qed.

Lemma run_close_lists d from k : forall n stk,
  run (X.close_lists d from k) (Txt, nest d (k + n) stk) = (Txt, nest d n stk).
Proof. unfold X.close_lists. generalize 0%nat as st0. induction k as [|k IH]; intros st0 n stk; [reflexivity|].
  cbn [seq flat_map]. rewrite run_app.
  assert (H1 : run (spaces2 (from - st0) ++ X.close_list d ++ X.close_item d ++ NLs) (Txt, nest d (S k + n) stk) = (Txt, nest d (k + n) stk)).
  { rewrite run_app, (spaces2_textual (from - st0)). unfold nest. cbn [plus repeat concat]. destruct d; reflexivity. }
  rewrite H1. apply IH. Qed.
Lemma stackL_S d L stk : stackL d (S L) stk = item d :: nest d L stk. Proof. reflexivity. Qed.
Lemma run_close_item d L stk : run (X.close_item d) (Txt, item d :: nest d L stk) = (Txt, nest d L stk).
Proof. destruct d; reflexivity. Qed.
Lemma run_open_list d L n stk : run (match d with X.DXhtml => spaces2 n ++ R "<ul>" ++ NLs | X.DNav => spaces2 n ++ R "<ol>" ++ NLs | X.DNcx => [] end) (Txt, item d :: nest d L stk) = (Txt, nest d (S L) stk).
Proof. destruct d; [rewrite run_app, (spaces2_textual n)|idtac|rewrite run_app, (spaces2_textual n)]; reflexivity. Qed.

Theorem toc_string_balanced d opts s t s1 : fmt s = FX -> Forall entry_ok (lox_toc s) -> textual (X.param "document-title" s) ->
  X.toc_string d opts s = (Some t, s1) -> balanced_chunk t.
Proof. intros Hf Hok Hdt. unfold X.toc_string.
  destruct (lox_toc s) as [|e0 l0] eqn:Elox; [discriminate|]. rewrite <- Elox. cbv zeta.
  set (start3 := if flag "mini" opts && Nat.ltb 0 (pcount (toc s) + ccount (toc s)) then _ else _).
  destruct start3 as [[start mini_macro] bad]. destruct bad; [discriminate|].
  set (doctitle := match assoc (R "document-title") (params s) with Some t0 => t0 | None => [] end).
  assert (Hdoc : textual doctitle) by exact Hdt.
  set (tt := match opt "title" opts with Some t0 => render_text t0 s | None => if flag "mini" opts then render_text [] s else (doctitle, s) end).
  assert (Htt : textual (fst tt)).
  { unfold tt. destruct (opt "title" opts) as [t0|].
    - destruct (render_text_escaped t0 s) as [x Ex]. rewrite Ex, (escape_fn_FX _ Hf). apply html_escape_textual.
    - destruct (flag "mini" opts); [|exact Hdoc]. destruct (render_text_escaped [] s) as [x Ex]. rewrite Ex, (escape_fn_FX _ Hf). apply html_escape_textual. }
  destruct tt as [title s1']. cbn [fst] in Htt.
  set (hd := match d with X.DXhtml => _ | X.DNcx => _ | X.DNav => _ end).
  assert (Hhead : forall stk, run (fst hd) (Txt, stk) = (Txt, B d stk)).
  { intro stk. unfold hd. clear -Htt Hdoc. destruct d; cbn [fst].
    - destruct title as [|c0 r0] eqn:Et; [reflexivity|]. rewrite <- Et in *. clear Et.
      rewrite run_app. change (run (R "<div class=""toc"">") (Txt, stk)) with (Txt, R "div" :: stk).
      rewrite run_app. change (run NLs (Txt, R "div" :: stk)) with (Txt, R "div" :: stk).
      rewrite <- !app_assoc, run_app.
      change (run (R "  <h2 id=""toc-title"" class=""toc-title"">") (Txt, R "div" :: stk)) with (Txt, R "h2" :: R "div" :: stk).
      rewrite run_app, Htt. reflexivity.
    - rewrite <- ?app_assoc. repeat (rewrite run_app; match goal with |- context [run ?x (Txt, ?S)] => first [rewrite Hdoc | let v := eval vm_compute in (run x (Txt, S)) in change (run x (Txt, S)) with v] end). reflexivity.
    - destruct doctitle as [|c0 r0] eqn:Et; [reflexivity|]. rewrite <- Et in *. clear Et.
      rewrite <- ?app_assoc. repeat (rewrite run_app; match goal with |- context [run ?x (Txt, ?S)] => first [rewrite Hdoc | let v := eval vm_compute in (run x (Txt, S)) in change (run x (Txt, S)) with v] end). reflexivity. }
  destruct hd as [head s1h].
  set (step := fun (a : X.tw) (e : lox) => _).
  match goal with |- (Some (?h ++ ?m ++ ?tl), _) = _ -> _ => set (mid := m); set (tail := tl) end.
  intro H. assert (Et : head ++ mid ++ tail = t) by (injection H; auto). rewrite <- Et. clear H Et. intro stk. cbn [fst] in Hhead.
  set (TI := fun a : X.tw => run (X.tw_out a) (Txt, B d stk) = (Txt, stackL d (X.tw_level a) stk)).
  assert (Hstep : forall a e, TI a -> entry_ok e -> TI (step a e)).
  { intros a e Ha He. unfold step. destruct (X.tw_stop a); [exact Ha|].
    destruct (flag "mini" opts && (str_eqb (lx_macro e) mini_macro || str_eqb (lx_macro e) (R "Pt"))); [exact Ha|]. destruct (flag "summary" opts && _); [exact Ha|].
    set (tl := match header_level (toc s1h) (lx_macro e) with Some n => n | None => 0%nat end). clearbody tl.
    unfold TI in *. destruct (X.tw_level a) as [|L] eqn:EL.
    - cbn [Nat.eqb X.tw_level X.tw_out X.tw_prev]. rewrite run_app, Ha. apply (run_entry d _ e _ _ He).
    - cbn [Nat.eqb]. destruct (Nat.ltb (X.tw_prev a) tl).
      + cbn [X.tw_level X.tw_out]. rewrite !run_app, Ha, stackL_S, run_open_list, (run_entry d _ e _ _ He). reflexivity.
      + destruct (Nat.ltb tl (X.tw_prev a)).
        * cbn [X.tw_level X.tw_out]. set (k := Nat.min (X.tw_prev a - tl) (S L - 1)).
          assert (Hk : (k <= L)%nat) by (unfold k; lia).
          rewrite !run_app, Ha, (spaces2_textual (S (S L))), stackL_S, run_close_item.
          change (run NLs (Txt, nest d L stk)) with (Txt, nest d L stk).
          assert (HL : nest d L stk = nest d (k + (L - k)) stk) by (f_equal; lia). rewrite HL, run_close_lists, (run_entry d _ e _ _ He).
          replace (S L - k)%nat with (S (L - k)) by lia. reflexivity.
        * cbn [X.tw_level X.tw_out]. rewrite !run_app, Ha, (spaces2_textual (S (S L))), stackL_S, run_close_item.
          change (run NLs (Txt, nest d L stk)) with (Txt, nest d L stk). rewrite (run_entry d _ e _ _ He). reflexivity. }
  assert (Hfold : forall l a, TI a -> Forall entry_ok l -> TI (fold_left step l a)).
  { induction l as [|e r IH]; intros a Ha Hl; [exact Ha|]. inversion Hl; subst. cbn [fold_left]. apply IH; [apply Hstep; assumption|assumption]. }
  assert (Hskip : Forall entry_ok (skipn start (lox_toc s))).
  { rewrite <- Elox in Hok. rewrite Forall_forall in *. intros x Hx. apply Hok. rewrite <- (firstn_skipn start (lox_toc s)). apply in_or_app. right. exact Hx. }
  pose proof (Hfold (skipn start (lox_toc s)) (X.mkTw 0 1 [] false) eq_refl Hskip) as Hfin. unfold TI in Hfin.
  unfold mid, tail.
  set (a := fold_left step (skipn start (lox_toc s)) (X.mkTw 0 1 [] false)) in *. clearbody a.
  rewrite !run_app, Hhead, Hfin.
  destruct (X.tw_level a) as [|L].
  - cbn [Nat.ltb Nat.leb]. destruct d; reflexivity.
  - change (Nat.ltb 0 (S L)) with true. cbv iota. rewrite !run_app, (spaces2_textual (S (S L))), stackL_S, run_close_item.
    change (run NLs (Txt, nest d L stk)) with (Txt, nest d L stk).
    replace (S L - 1)%nat with L by lia. assert (HL : nest d L stk = nest d (L + 0) stk) by (f_equal; lia). rewrite HL, run_close_lists. destruct d; reflexivity.
Qed.
Print Assumptions toc_string_balanced.
