Require Import GoLite TocGen.
From Coq Require Import String List ZArith Bool Lia.
Import ListNotations.
Open Scope string_scope. Open Scope Z_scope.

(* the hand-written twin *)
Record toc := { HasPart : bool; HasChapter : bool; HeaderCount : Z; PartCount : Z; ChapterCount : Z; SectionCount : Z;
                SubsectionCount : Z; PartNum : Z; ChapterNum : Z; SectionNum : Z; SubsectionNum : Z }.
Inductive kind := Pt | Ch | Sh | Ss.
Definition kname (k : kind) : string := match k with Pt => "Pt" | Ch => "Ch" | Sh => "Sh" | Ss => "Ss" end.
Definition bump (nonum : bool) (z : Z) : Z := if nonum then z else z + 1.

Definition update (t : toc) (k : kind) (nonum : bool) : toc :=
  match k with
  | Pt => {| HasPart := HasPart t; HasChapter := HasChapter t; HeaderCount := HeaderCount t + 1;
             PartCount := PartCount t + 1; ChapterCount := ChapterCount t; SectionCount := 0; SubsectionCount := 0;
             PartNum := bump nonum (PartNum t); ChapterNum := ChapterNum t; SectionNum := 0; SubsectionNum := 0 |}
  | Ch => {| HasPart := HasPart t; HasChapter := HasChapter t; HeaderCount := HeaderCount t + 1;
             PartCount := PartCount t; ChapterCount := ChapterCount t + 1; SectionCount := 0; SubsectionCount := 0;
             PartNum := PartNum t; ChapterNum := bump nonum (ChapterNum t); SectionNum := 0; SubsectionNum := 0 |}
  | Sh => {| HasPart := HasPart t; HasChapter := HasChapter t; HeaderCount := HeaderCount t + 1;
             PartCount := PartCount t; ChapterCount := ChapterCount t; SectionCount := SectionCount t + 1; SubsectionCount := 0;
             PartNum := PartNum t; ChapterNum := ChapterNum t; SectionNum := bump nonum (SectionNum t); SubsectionNum := 0 |}
  | Ss => {| HasPart := HasPart t; HasChapter := HasChapter t; HeaderCount := HeaderCount t + 1;
             PartCount := PartCount t; ChapterCount := ChapterCount t; SectionCount := SectionCount t; SubsectionCount := SubsectionCount t + 1;
             PartNum := PartNum t; ChapterNum := ChapterNum t; SectionNum := SectionNum t; SubsectionNum := bump nonum (SubsectionNum t) |}
  end.

Definition fields_of (t : toc) : store :=
  [("HasPart", VBool (HasPart t)); ("HasChapter", VBool (HasChapter t)); ("HeaderCount", VInt (HeaderCount t));
   ("PartCount", VInt (PartCount t)); ("ChapterCount", VInt (ChapterCount t)); ("SectionCount", VInt (SectionCount t));
   ("SubsectionCount", VInt (SubsectionCount t)); ("PartNum", VInt (PartNum t)); ("ChapterNum", VInt (ChapterNum t));
   ("SectionNum", VInt (SectionNum t)); ("SubsectionNum", VInt (SubsectionNum t))].

Definition call_env (t : toc) (k : kind) (nonum : bool) : env :=
  {| locals := [("macro", VStr (kname k)); ("nonum", VBool nonum)]; fields := fields_of t |}.

(* the generated updateHeadersCount, run by the interpreter, is the twin *)
Theorem updateHeadersCount_gen_eq t k nonum :
  exists en, exec 50 updateHeadersCount_body (call_env t k nonum) = ONormal en /\ fields en = fields_of (update t k nonum).
Proof.
  Local Opaque Z.add.
  destruct k, nonum; eexists; (split; [cbn; reflexivity|]); cbn; unfold bump, fields_of; cbn; reflexivity.
  Local Transparent Z.add.
Qed.

(* HeaderLevel: the order Pt < Ch < Sh < Ss under every (HasPart, HasChapter) *)
Definition level_of (t : toc) (k : kind) : option Z :=
  match exec 50 HeaderLevel_body {| locals := [("macro", VStr (kname k))]; fields := fields_of t |} with
  | OReturn _ [VInt z] => Some z
  | _ => None
  end.
Theorem C06_levels t : exists a b c d,
  level_of t Pt = Some a /\ level_of t Ch = Some b /\ level_of t Sh = Some c /\ level_of t Ss = Some d /\ a < b < c /\ c < d.
Proof.
  destruct t as [hp hc ? ? ? ? ? ? ? ? ?]. destruct hp, hc; vm_compute; do 4 eexists; repeat split; reflexivity.
Qed.
Print Assumptions updateHeadersCount_gen_eq.
Print Assumptions C06_levels.
