(* C15 on the model's text rendering: in mom format whatever render_text / render_args return -- the text of every
   text block and of every argument the exporter is handed -- keeps the control-line machine of EscapeProofs resting. *)
From Coq Require Import List NArith Bool String.
Import ListNotations.
Require Import Repl Tables EscapeProofs Xhtml Exp Proc1 Proc2 Eqd.
Open Scope N_scope.

Lemma escape_fn_mom s : format s = R "mom" -> escape_fn s = MBase.roff_escape.
Proof. intro H. unfold escape_fn. rewrite H. reflexivity. Qed.

Theorem mom_rendered_text_rests l s q : format s = R "mom" -> rresting q ->
  rresting (mrun rstate rstep q (fst (render_text l s))).
Proof.
  intros Hf Hq. destruct (render_text_escaped l s) as [t Ht]. rewrite Ht, (escape_fn_mom s Hf).
  apply roff_escape_safe. exact Hq.
Qed.

Lemma mrun_app q a b : mrun rstate rstep q (a ++ b) = mrun rstate rstep (mrun rstate rstep q a) b.
Proof. unfold mrun. apply fold_left_app. Qed.
Lemma format_eqd a b : a ~~ b -> format a = format b. Proof. intro H. getd H format. exact H. Qed.

Theorem mom_rendered_args_rests l : forall s q, format s = R "mom" -> rresting q ->
  rresting (mrun rstate rstep q (fst (render_args l s))).
Proof.
  induction l as [|a r IH]; intros s q Hf Hq; [exact Hq|]. destruct r as [|b r'].
  - apply mom_rendered_text_rests; assumption.
  - change (render_args (a :: b :: r') s) with (let '(x, s1) := render_text a s in let '(y, s2) := render_args (b :: r') s1 in (x ++ [32] ++ y, s2)).
    pose proof (mom_rendered_text_rests a s q Hf Hq) as H1. pose proof (render_text_eqd a s) as E1.
    destruct (render_text a s) as [x s1]. cbn [fst snd] in *.
    assert (Hf1 : format s1 = R "mom") by (rewrite (format_eqd _ _ E1); exact Hf).
    set (q1 := mrun rstate rstep q x) in *.
    assert (H2 : rresting (mrun rstate rstep q1 [32])) by (destruct H1 as [->| ->]; vm_compute; auto).
    pose proof (IH s1 _ Hf1 H2) as H3. destruct (render_args (b :: r') s1) as [y s2]. cbn [fst] in *.
    rewrite mrun_app, mrun_app. exact H3.
Qed.
Print Assumptions mom_rendered_text_rests.
Print Assumptions mom_rendered_args_rests.
