(* C15 on the model's text rendering: in mom format whatever render_text / render_args return -- the text of every
   text block and of every argument the exporter is handed -- keeps the control-line machine of EscapeProofs resting. *)
From Coq Require Import List NArith Bool String.
Import ListNotations.
Require Import Repl Tables EscapeProofs Xhtml Exp Proc1 Proc2 Eqd.
Open Scope N_scope.

Lemma escape_fn_mom s : format s = R "mom" -> escape_fn s = MBase.roff_escape.
Proof. intro H. unfold escape_fn. rewrite H. reflexivity. Qed.

Theorem mom_rendered_text_rests l s q : format s = R "mom" -> rresting q ->
  rresting (mrun rstate rstep q (fst (render_text l s))).
Proof.
  intros Hf Hq. destruct (render_text_escaped l s) as [t Ht]. rewrite Ht, (escape_fn_mom s Hf).
  apply roff_escape_safe. exact Hq.
Qed.

Lemma mrun_app q a b : mrun rstate rstep q (a ++ b) = mrun rstate rstep (mrun rstate rstep q a) b.
Proof. unfold mrun. apply fold_left_app. Qed.
Lemma format_eqd a b : a ~~ b -> format a = format b. Proof. intro H. getd H format. exact H. Qed.

Theorem mom_rendered_args_rests l : forall s q, format s = R "mom" -> rresting q ->
  rresting (mrun rstate rstep q (fst (render_args l s))).
Proof.
  induction l as [|a r IH]; intros s q Hf Hq; [exact Hq|]. destruct r as [|b r'].
  - apply mom_rendered_text_rests; assumption.
  - change (render_args (a :: b :: r') s) with (let '(x, s1) := render_text a s in let '(y, s2) := render_args (b :: r') s1 in (x ++ [32] ++ y, s2)).
    pose proof (mom_rendered_text_rests a s q Hf Hq) as H1. pose proof (render_text_eqd a s) as E1.
    destruct (render_text a s) as [x s1]. cbn [fst snd] in *.
    assert (Hf1 : format s1 = R "mom") by (rewrite (format_eqd _ _ E1); exact Hf).
    set (q1 := mrun rstate rstep q x) in *.
    assert (H2 : rresting (mrun rstate rstep q1 [32])) by (destruct H1 as [->| ->]; vm_compute; auto).
    pose proof (IH s1 _ Hf1 H2) as H3. destruct (render_args (b :: r') s1) as [y s2]. cbn [fst] in *.
    rewrite mrun_app, mrun_app. exact H3.
Qed.
Print Assumptions mom_rendered_text_rests.
Print Assumptions mom_rendered_args_rests.

(* C03 / C04 on the text renderer: outside automatic typography, what render_text returns is the escape of exactly the
   text of the inlines, so unescaping it gives back what was written *)
Lemma render_text_plain l s : str_eqb (lang s) (R "fr") = false -> str_eqb (lang s) (R "en") = false ->
  fst (render_text l s) = escape_fn s (fst (inlines_text l s)).
Proof.
  intros H1 H2. unfold render_text. rewrite H1, H2.
  pose proof (inlines_text_eqd l s) as E. destruct (inlines_text l s) as [t s2]. cbn [fst snd] in *.
  apply (f_equal (fun f => f t)). apply escape_fn_eqd. exact E.
Qed.
Lemma escape_fn_xhtml s : Exp.fmt s = Exp.FX -> escape_fn s = MBase.html_escape.
Proof. unfold Exp.fmt, escape_fn. destruct (str_eqb (format s) _); [discriminate|]. destruct (str_eqb (format s) _); [discriminate|].
  destruct (str_eqb (format s) _); [discriminate|]. reflexivity. Qed.
Theorem xhtml_rendered_text_decodes l s : Exp.fmt s = Exp.FX ->
  str_eqb (lang s) (R "fr") = false -> str_eqb (lang s) (R "en") = false ->
  let r := fst (render_text l s) in Repl.dec html_table (List.length r) r = Some (fst (inlines_text l s)).
Proof.
  intros Hf H1 H2 r. unfold r. rewrite (render_text_plain l s H1 H2), (escape_fn_xhtml s Hf). apply html_roundtrip.
Qed.
Theorem latex_rendered_text_decodes l s : format s = R "latex" ->
  str_eqb (lang s) (R "fr") = false -> str_eqb (lang s) (R "en") = false ->
  let r := fst (render_text l s) in Repl.dec latex_table (List.length r) r = Some (fst (inlines_text l s)).
Proof.
  intros Hf H1 H2 r. unfold r. rewrite (render_text_plain l s H1 H2). unfold escape_fn. rewrite Hf. cbn [str_eqb].
  change (str_eqb (R "latex") (R "latex")) with true. cbv iota. apply latex_roundtrip.
Qed.
Print Assumptions xhtml_rendered_text_decodes.
