(* C20, second half: in the output of FrenchTypography every mark ( ! : ; ? and the closing guillemet ) is protected -
   the last atom before it that is not a variable/argument interpolation is a no-break space the author wrote, a
   protecting escape (\& or \~) the author wrote, or the \~ the function inserts.  So a mark the author did not
   protect gets its no-break space, and one the author protected gets nothing more (with C20_french_only_inserts:
   nothing else is ever inserted). *)
Require Import Typo TypoProofs.
From Coq Require Import List NArith Bool Lia.
Import ListNotations.
Open Scope N_scope.

Definition protector (a : atom) : bool := match a with AChar c => c =? NBSP | AEsc e => protecting e | AOth _ _ => false end.
(* scanning left to right; [p]: the last atom that is not an interpolation is a protector *)
Fixpoint scan (p : bool) (l : list atom) : bool :=
  match l with
  | [] => true
  | AOth _ _ :: r => scan p r
  | AEsc e :: r => scan (protecting e) r
  | AChar c :: r => if is_mark c then p && scan false r else scan (c =? NBSP) r
  end.
Fixpoint lastp (p : bool) (l : list atom) : bool :=
  match l with
  | [] => p
  | AOth _ _ :: r => lastp p r
  | AEsc e :: r => lastp (protecting e) r
  | AChar c :: r => lastp (if is_mark c then false else c =? NBSP) r
  end.
Lemma scan_app a : forall p b, scan p (a ++ b) = scan p a && scan (lastp p a) b.
Proof. induction a as [|x r IH]; intros p b; [reflexivity|]. destruct x as [c|e|k s]; cbn [app scan lastp].
  - destruct (is_mark c); [rewrite IH, andb_assoc; reflexivity|apply IH].
  - apply IH.
  - apply IH. Qed.
Lemma lastp_app a : forall p b, lastp p (a ++ b) = lastp (lastp p a) b.
Proof. induction a as [|x r IH]; intros p b; [reflexivity|]. destruct x as [c|e|k s]; cbn [app lastp]; apply IH. Qed.

(* the invariant while a text fragment is scanned: [rest] is what remains of it, [after] what follows it *)
Definition Iv (after : follow) (s : fst_) (rest : str) : Prop :=
  scan false (cur_atoms s) = true /\
  (esc s = true -> lastp false (cur_atoms s) = true \/ (exists r, rest = NBSP :: r) \/ (rest = [] /\ after = FollowProtecting)).

Lemma mark_not_nbsp c : is_mark c = true -> c =? NBSP = false.
Proof. unfold is_mark, NBSP, RGUIL. intro H. repeat (apply orb_true_iff in H as [H|H]); apply N.eqb_eq in H; subst c; reflexivity. Qed.
Lemma cur_atoms_push s c : atoms (out s) ++ map AChar (pend s ++ [c]) = cur_atoms s ++ [AChar c].
Proof. unfold cur_atoms. rewrite map_app, app_assoc. reflexivity. Qed.
Lemma cur_atoms_flush s X : atoms (out s ++ flush_pend s ++ X) = cur_atoms s ++ atoms X.
Proof. unfold cur_atoms. rewrite !atoms_app, atoms_flush, app_assoc. reflexivity. Qed.

Lemma french_rune_Iv after s c r : Iv after s (c :: r) -> Iv after (french_rune after s c (hd_error r)) r.
Proof. intros [A B]. unfold Iv, french_rune, cur_atoms.
  destruct (is_mark c) eqn:Em.
  { destruct (esc s) eqn:Ee; cbn [out pend esc].
    - destruct (B eq_refl) as [Hl | [[r0 Hr] | [Hr _]]]; [|injection Hr as Hc _; pose proof (mark_not_nbsp _ Em) as Hn; rewrite Hc in Hn; discriminate Hn|discriminate].
      split; [|discriminate]. rewrite cur_atoms_push, scan_app, A, Hl. cbn [scan]. rewrite Em. reflexivity.
    - split; [|discriminate]. change (atoms (out s ++ flush_pend s ++ [IEsc TILDE]) ++ map AChar [c]) with (atoms (out s ++ flush_pend s ++ [IEsc TILDE]) ++ [AChar c]).
      rewrite cur_atoms_flush, <- app_assoc, scan_app, A. cbn [atoms flat_map atoms1 app scan]. rewrite Em. reflexivity. }
  destruct (c =? NBSP) eqn:En.
  { cbn [out pend esc]. rewrite cur_atoms_push. split.
    - rewrite scan_app, A. cbn [scan]. rewrite Em. reflexivity.
    - intros _. left. rewrite lastp_app. cbn [lastp]. rewrite Em, En. reflexivity. }
  destruct (c =? LGUIL) eqn:El.
  { assert (Hkeep : scan false (cur_atoms s ++ [AChar c]) = true) by (rewrite scan_app, A; cbn [scan]; rewrite Em; reflexivity).
    assert (Hins : scan false (atoms (out s ++ [IText (pend s ++ [c]); IEsc TILDE]) ++ map AChar []) = true /\
                   lastp false (atoms (out s ++ [IText (pend s ++ [c]); IEsc TILDE]) ++ map AChar []) = true).
    { assert (E : atoms (out s ++ [IText (pend s ++ [c]); IEsc TILDE]) ++ map AChar [] = (cur_atoms s ++ [AChar c]) ++ [AEsc TILDE]).
      { unfold cur_atoms. rewrite atoms_app. cbn. rewrite map_app, !app_nil_r. cbn. rewrite <- !app_assoc. reflexivity. }
      rewrite E. split; [rewrite scan_app, Hkeep; reflexivity|rewrite lastp_app; reflexivity]. }
    destruct r as [|r0 rr]; cbn [hd_error].
    - destruct after; cbn [out pend esc]; try (split; [exact (proj1 Hins)|intros _; left; exact (proj2 Hins)]).
      rewrite cur_atoms_push. split; [exact Hkeep|]. intros _. right. right. split; reflexivity.
    - destruct (r0 =? NBSP) eqn:E0; cbn [out pend esc]; [|split; [exact (proj1 Hins)|intros _; left; exact (proj2 Hins)]].
      rewrite cur_atoms_push. split; [exact Hkeep|]. intros _. right. left. apply N.eqb_eq in E0. subst r0. exists rr. reflexivity. }
  destruct (c =? APOS) eqn:Ea.
  { destruct (esc s); cbn [out pend esc]; (split; [|discriminate]).
    - rewrite cur_atoms_push, scan_app, A. cbn [scan]. rewrite Em. reflexivity.
    - change (atoms (out s ++ flush_pend s ++ [IText [RSQUO]]) ++ map AChar []) with (atoms (out s ++ flush_pend s ++ [IText [RSQUO]]) ++ []).
      rewrite app_nil_r, cur_atoms_flush, scan_app, A. reflexivity. }
  cbn [out pend esc]. split; [|discriminate]. rewrite cur_atoms_push, scan_app, A. cbn [scan]. rewrite Em. reflexivity.
Qed.

Lemma french_text_Iv after t : forall s, Iv after s t -> Iv after (french_text after s t) [].
Proof. induction t as [|c r IH]; intros s H; [exact H|]. cbn [french_text]. apply IH, french_rune_Iv, H. Qed.

(* across the inline list *)
Definition J (acc : list inline) (e : bool) (l : list inline) : Prop :=
  scan false (atoms acc) = true /\ (e = true -> lastp false (atoms acc) = true \/ classify l = FollowProtecting).

Lemma french_go_spaced l : forall acc e n, J acc e l -> scan false (atoms (fst (french_go l acc e n))) = true.
Proof. induction l as [|i l IH]; intros acc e n [A B]; cbn [french_go]; [exact A|].
  destruct i as [t|x|k x].
  - apply IH.
    set (s0 := {| out := acc; pend := []; esc := e; spc := false; errs := n |}).
    assert (H0 : Iv (classify l) s0 t).
    { split; [unfold cur_atoms, s0; cbn [out pend map]; rewrite app_nil_r; exact A|].
      intro He. left. unfold cur_atoms, s0. cbn [out pend map]. rewrite app_nil_r.
      destruct (B He) as [H|H]; [exact H|discriminate H]. }
    destruct (french_text_Iv (classify l) t s0 H0) as [A1 B1]. set (s1 := french_text (classify l) s0 t) in *.
    assert (E : atoms (out s1 ++ flush_pend s1) = cur_atoms s1) by (rewrite atoms_app, atoms_flush; reflexivity).
    split; [rewrite E; exact A1|]. intro He. rewrite E. destruct (B1 He) as [H | [[r H] | [_ H]]]; [left; exact H|discriminate H|right; exact H].
  - apply IH. unfold J. rewrite atoms_app. split; [rewrite scan_app, A; reflexivity|].
    intro He. left. rewrite lastp_app. exact He.
  - apply IH. unfold J. rewrite atoms_app. split; [rewrite scan_app, A; reflexivity|].
    intro He. left. rewrite lastp_app. cbn [atoms flat_map atoms1 app lastp]. destruct (B He) as [H|H]; [exact H|discriminate H].
Qed.

Theorem C20_french_marks_protected l : scan false (atoms (fst (french l))) = true.
Proof. unfold french. apply french_go_spaced. split; [reflexivity|discriminate]. Qed.

(* ---------- the opening guillemet: the atom right after it is a protector ---------- *)
(* [owe]: the last atom is an opening guillemet still waiting for its protector; None: one was left without *)
Fixpoint sg (owe : bool) (l : list atom) : option bool :=
  match l with
  | [] => Some owe
  | a :: r => if owe && negb (protector a) then None else sg (match a with AChar c => c =? LGUIL | _ => false end) r
  end.
Lemma sg_app a : forall o b, sg o (a ++ b) = match sg o a with Some o' => sg o' b | None => None end.
Proof. induction a as [|x r IH]; intros o b; [reflexivity|]. cbn [app sg]. destruct (o && negb (protector x)); [reflexivity|apply IH]. Qed.
Definition Gv (after : follow) (s : fst_) (rest : str) : Prop :=
  exists owe, sg false (cur_atoms s) = Some owe /\
    (owe = true -> (exists r, rest = NBSP :: r) \/ (rest = [] /\ after = FollowProtecting)).
Lemma sg_push_plain l c : sg false l = Some false -> sg false (l ++ [AChar c]) = Some (c =? LGUIL).
Proof. intro H. rewrite sg_app, H. reflexivity. Qed.
Lemma french_rune_Gv after s c r : Gv after s (c :: r) -> Gv after (french_rune after s c (hd_error r)) r.
Proof. intros (owe & A & B). unfold Gv, french_rune.
  (* the atom now read discharges the debt: it is the no-break space the debt was waiting for *)
  assert (Hpay : sg false (cur_atoms s ++ [AChar c]) = Some (c =? LGUIL)).
  { rewrite sg_app, A. cbn [sg protector]. destruct owe; [|reflexivity].
    destruct (B eq_refl) as [[r0 Hr] | [Hr _]]; [injection Hr as -> _; reflexivity|discriminate]. }
  assert (Hfree : owe = true -> c = NBSP) by (intro Ho; destruct (B Ho) as [[r0 Hr] | [Hr _]]; [injection Hr as -> _; reflexivity|discriminate]).
  destruct (is_mark c) eqn:Em.
  { assert (Ho : owe = false) by (destruct owe; [rewrite (Hfree eq_refl) in Em; discriminate Em|reflexivity]). subst owe.
    assert (Hl : c =? LGUIL = false) by (unfold is_mark, LGUIL, RGUIL in *; repeat (apply orb_true_iff in Em as [Em|Em]); apply N.eqb_eq in Em; subst c; reflexivity).
    destruct (esc s); cbn [out pend]; exists false; (split; [|discriminate]).
    - unfold cur_atoms at 1. cbn [out pend]. rewrite cur_atoms_push, Hpay. f_equal. exact Hl.
    - unfold cur_atoms at 1. cbn [out pend]. change (map AChar [c]) with [AChar c].
      rewrite cur_atoms_flush, <- app_assoc, sg_app, A. cbn [atoms flat_map atoms1 app sg protector andb]. rewrite Hl. reflexivity. }
  destruct (c =? NBSP) eqn:En.
  { cbn [out pend]. exists false. split; [|discriminate]. unfold cur_atoms at 1. cbn [out pend]. rewrite cur_atoms_push, Hpay.
    apply N.eqb_eq in En. subst c. reflexivity. }
  assert (Ho : owe = false) by (destruct owe; [rewrite (Hfree eq_refl) in En; discriminate En|reflexivity]). subst owe.
  destruct (c =? LGUIL) eqn:El.
  { assert (Hins : sg false (atoms (out s ++ [IText (pend s ++ [c]); IEsc TILDE]) ++ map AChar []) = Some false).
    { assert (E : atoms (out s ++ [IText (pend s ++ [c]); IEsc TILDE]) ++ map AChar [] = (cur_atoms s ++ [AChar c]) ++ [AEsc TILDE]).
      { unfold cur_atoms. rewrite atoms_app. cbn. rewrite map_app, !app_nil_r. cbn. rewrite <- !app_assoc. reflexivity. }
      rewrite E, sg_app, Hpay, ?El. reflexivity. }
    destruct r as [|r0 rr]; cbn [hd_error].
    - destruct after; cbn [out pend]; try (exists false; split; [exact Hins|discriminate]).
      exists true. unfold cur_atoms at 1. cbn [out pend]. rewrite cur_atoms_push, Hpay, ?El. split; [reflexivity|]. intros _. right. split; reflexivity.
    - destruct (r0 =? NBSP) eqn:E0; cbn [out pend]; [|exists false; split; [exact Hins|discriminate]].
      exists true. unfold cur_atoms at 1. cbn [out pend]. rewrite cur_atoms_push, Hpay, ?El. split; [reflexivity|]. intros _. left.
      apply N.eqb_eq in E0. subst r0. exists rr. reflexivity. }
  destruct (c =? APOS) eqn:Ea.
  { destruct (esc s); cbn [out pend]; exists false; (split; [|discriminate]).
    - unfold cur_atoms at 1. cbn [out pend]. rewrite cur_atoms_push, Hpay, ?El. reflexivity.
    - unfold cur_atoms at 1. cbn [out pend map]. rewrite app_nil_r, cur_atoms_flush, sg_app, A. reflexivity. }
  cbn [out pend]. exists false. split; [|discriminate]. unfold cur_atoms at 1. cbn [out pend]. rewrite cur_atoms_push, Hpay, ?El. reflexivity.
Qed.
Lemma french_text_Gv after t : forall s, Gv after s t -> Gv after (french_text after s t) [].
Proof. induction t as [|c r IH]; intros s H; [exact H|]. cbn [french_text]. apply IH, french_rune_Gv, H. Qed.
Definition JG (acc : list inline) (l : list inline) : Prop :=
  exists owe, sg false (atoms acc) = Some owe /\ (owe = true -> classify l = FollowProtecting).
Lemma french_go_guil l : forall acc e n, JG acc l -> sg false (atoms (fst (french_go l acc e n))) = Some false.
Proof. induction l as [|i l IH]; intros acc e n (owe & A & B); cbn [french_go].
  - cbn [fst]. rewrite A. destruct owe; [discriminate (B eq_refl)|reflexivity].
  - destruct i as [t|x|k x].
    + apply IH.
      assert (Ho : owe = false) by (destruct owe; [discriminate (B eq_refl)|reflexivity]). subst owe.
      set (s0 := {| out := acc; pend := []; esc := e; spc := false; errs := n |}).
      assert (H0 : Gv (classify l) s0 t) by (exists false; split; [unfold cur_atoms, s0; cbn [out pend map]; rewrite app_nil_r; exact A|discriminate]).
      destruct (french_text_Gv (classify l) t s0 H0) as (o1 & A1 & B1). set (s1 := french_text (classify l) s0 t) in *.
      assert (E : atoms (out s1 ++ flush_pend s1) = cur_atoms s1) by (rewrite atoms_app, atoms_flush; reflexivity).
      exists o1. rewrite E. split; [exact A1|]. intro H1. destruct (B1 H1) as [[r H] | [_ H]]; [discriminate H|exact H].
    + apply IH. exists false. rewrite atoms_app, sg_app, A. cbn [atoms flat_map atoms1 app sg protector]. split; [|discriminate].
      destruct owe; [|reflexivity]. cbn [andb]. pose proof (B eq_refl) as Hc. cbn [classify] in Hc. destruct (protecting x); [reflexivity|discriminate Hc].
    + apply IH. exists false. rewrite atoms_app, sg_app, A. cbn [atoms flat_map atoms1 app sg protector]. split; [|discriminate].
      destruct owe; [discriminate (B eq_refl)|reflexivity].
Qed.
Theorem C20_french_guillemet_protected l : sg false (atoms (fst (french l))) = Some false.
Proof. unfold french. apply french_go_guil. exists false. split; [reflexivity|discriminate]. Qed.
Lemma sg_spec : forall l o, sg o l <> None -> forall pre post, l = pre ++ AChar LGUIL :: post -> sg o l = Some false ->
  exists a rest, post = a :: rest /\ protector a = true.
Proof. induction l as [|x r IH]; intros o Hn pre post E Hf; [destruct pre; discriminate|].
  cbn [sg] in Hf, Hn. destruct (o && negb (protector x)) eqn:Eo; [discriminate Hf|].
  destruct pre as [|y pre'].
  - cbn [app] in E. injection E as -> ->. change (LGUIL =? LGUIL) with true in Hf.
    destruct post as [|a rest]; [discriminate Hf|]. cbn [sg andb] in Hf. destruct (protector a) eqn:Ep; [exists a, rest; split; [reflexivity|exact Ep]|discriminate Hf].
  - cbn [app] in E. injection E as <- E. apply (IH _ ltac:(rewrite Hf; discriminate) pre' post E Hf).
Qed.
Theorem C20_french_guillemet_protected_spec l pre post : atoms (fst (french l)) = pre ++ AChar LGUIL :: post ->
  exists a rest, post = a :: rest /\ protector a = true.
Proof. intro E. apply (sg_spec _ false ltac:(rewrite C20_french_guillemet_protected; discriminate) pre post E (C20_french_guillemet_protected l)). Qed.
Print Assumptions C20_french_guillemet_protected_spec.

(* what [scan] says, without the scanner: before every mark, skipping interpolations, stands a protector *)
Definition interp (a : atom) : bool := match a with AOth _ _ => true | _ => false end.
Lemma scan_spec : forall l p, scan p l = true -> forall pre c post, l = pre ++ AChar c :: post -> is_mark c = true ->
  (forallb interp pre = true /\ p = true) \/
  exists q a mid, pre = q ++ a :: mid /\ protector a = true /\ forallb interp mid = true.
Proof. induction l as [|x r IH]; intros p H pre c post E Hm; [destruct pre; discriminate|].
  destruct pre as [|y pre'].
  - cbn [app] in E. injection E as -> ->. cbn [scan] in H. rewrite Hm in H. apply andb_true_iff in H as [Hp _]. left. split; [reflexivity|exact Hp].
  - cbn [app] in E. injection E as <- E.
    assert (Hgen : forall p', scan p' r = true -> (p' = true -> protector x = true \/ (interp x = true /\ p = true)) ->
       (forallb interp (x :: pre') = true /\ p = true) \/ exists q a mid, x :: pre' = q ++ a :: mid /\ protector a = true /\ forallb interp mid = true).
    { intros p' H' Hp'. destruct (IH p' H' pre' c post E Hm) as [[Hi Hpt] | (q & a & mid & -> & Ha & Hmid)].
      - destruct (Hp' Hpt) as [Hx | [Hx Hpp]].
        + right. exists [], x, pre'. split; [reflexivity|]. split; assumption.
        + left. cbn [forallb]. rewrite Hx, Hi. split; [reflexivity|exact Hpp].
      - right. exists (x :: q), a, mid. split; [reflexivity|]. split; assumption. }
    destruct x as [c0|e|k s]; cbn [scan] in H.
    + destruct (is_mark c0) eqn:Em0.
      * apply andb_true_iff in H as [_ H]. apply (Hgen false H). discriminate.
      * apply (Hgen (c0 =? NBSP) H). intro Hn. left. exact Hn.
    + apply (Hgen (protecting e) H). intro Hn. left. exact Hn.
    + apply (Hgen p H). intro Hn. right. split; [reflexivity|exact Hn].
Qed.
Theorem C20_french_marks_protected_spec l pre c post : atoms (fst (french l)) = pre ++ AChar c :: post -> is_mark c = true ->
  exists q a mid, pre = q ++ a :: mid /\ protector a = true /\ forallb interp mid = true.
Proof. intros E Hm. destruct (scan_spec _ false (C20_french_marks_protected l) pre c post E Hm) as [[_ H] | H]; [discriminate H|exact H]. Qed.
Print Assumptions C20_french_marks_protected_spec.

(* ---------- apostrophes (English, and the same rule in French): every straight apostrophe left in the output is one
   the author protected - the last atom before it that is not an interpolation is a no-break space or \& / \~ ---------- *)
Fixpoint scanA (p : bool) (l : list atom) : bool :=
  match l with
  | [] => true
  | AOth _ _ :: r => scanA p r
  | AEsc e :: r => scanA (protecting e) r
  | AChar c :: r => if c =? APOS then p && scanA false r else scanA (c =? NBSP) r
  end.
Fixpoint lastA (p : bool) (l : list atom) : bool :=
  match l with
  | [] => p
  | AOth _ _ :: r => lastA p r
  | AEsc e :: r => lastA (protecting e) r
  | AChar c :: r => lastA (if c =? APOS then false else c =? NBSP) r
  end.
Lemma scanA_app a : forall p b, scanA p (a ++ b) = scanA p a && scanA (lastA p a) b.
Proof. induction a as [|x r IH]; intros p b; [reflexivity|]. destruct x as [c|e|k s]; cbn [app scanA lastA].
  - destruct (c =? APOS); [rewrite IH, andb_assoc; reflexivity|apply IH].
  - apply IH.
  - apply IH. Qed.
Lemma lastA_app a : forall p b, lastA p (a ++ b) = lastA (lastA p a) b.
Proof. induction a as [|x r IH]; intros p b; [reflexivity|]. destruct x as [c|e|k s]; cbn [app lastA]; apply IH. Qed.

Definition IvA (s : fst_) : Prop := scanA false (cur_atoms s) = true /\ (esc s = true -> lastA false (cur_atoms s) = true).
Lemma english_rune_IvA s c : IvA s -> IvA (english_rune s c).
Proof. intros [A B]. unfold IvA, english_rune, cur_atoms. destruct (c =? APOS) eqn:Ea.
  - destruct (esc s) eqn:Ee; cbn [out pend esc]; (split; [|discriminate]).
    + rewrite cur_atoms_push, scanA_app, A, (B eq_refl). cbn [scanA]. rewrite Ea. reflexivity.
    + change (atoms (out s ++ flush_pend s ++ [IText [RSQUO]]) ++ map AChar []) with (atoms (out s ++ flush_pend s ++ [IText [RSQUO]]) ++ []).
      rewrite app_nil_r, cur_atoms_flush, scanA_app, A. reflexivity.
  - cbn [out pend esc]. split; [|discriminate]. rewrite cur_atoms_push, scanA_app, A. cbn [scanA]. rewrite Ea. reflexivity.
Qed.
Lemma english_text_IvA t : forall s, IvA s -> IvA (fold_left english_rune t s).
Proof. induction t as [|c r IH]; intros s H; [exact H|]. cbn [fold_left]. apply IH, english_rune_IvA, H. Qed.
Lemma english_go_apos l : forall acc e, scanA false (atoms acc) = true -> (e = true -> lastA false (atoms acc) = true) ->
  scanA false (atoms (english_go l acc e)) = true.
Proof. induction l as [|i l IH]; intros acc e A B; cbn [english_go]; [exact A|]. destruct i as [t|x|k x].
  - set (s0 := {| out := acc; pend := []; esc := e; spc := false; errs := 0 |}).
    assert (H0 : IvA s0) by (split; unfold cur_atoms, s0; cbn [out pend map esc]; rewrite app_nil_r; assumption).
    destruct (english_text_IvA t s0 H0) as [A1 B1]. set (s1 := fold_left english_rune t s0) in *.
    assert (E : atoms (out s1 ++ flush_pend s1) = cur_atoms s1) by (rewrite atoms_app, atoms_flush; reflexivity).
    apply IH; rewrite E; assumption.
  - apply IH; rewrite atoms_app; [rewrite scanA_app, A; reflexivity|]. intro He. rewrite lastA_app. exact He.
  - apply IH; rewrite atoms_app; [rewrite scanA_app, A; reflexivity|]. intro He. rewrite lastA_app. cbn [atoms flat_map atoms1 app lastA]. exact (B He).
Qed.
Theorem C20_english_apostrophes l : scanA false (atoms (english l)) = true.
Proof. unfold english. apply english_go_apos; [reflexivity|discriminate]. Qed.
Lemma scanA_spec : forall l p, scanA p l = true -> forall pre post, l = pre ++ AChar APOS :: post ->
  (forallb interp pre = true /\ p = true) \/
  exists q a mid, pre = q ++ a :: mid /\ protector a = true /\ forallb interp mid = true.
Proof. induction l as [|x r IH]; intros p H pre post E; [destruct pre; discriminate|].
  destruct pre as [|y pre'].
  - cbn [app] in E. injection E as -> ->. cbn [scanA] in H. change (APOS =? APOS) with true in H. apply andb_true_iff in H as [Hp _]. left. split; [reflexivity|exact Hp].
  - cbn [app] in E. injection E as <- E.
    assert (Hgen : forall p', scanA p' r = true -> (p' = true -> protector x = true \/ (interp x = true /\ p = true)) ->
       (forallb interp (x :: pre') = true /\ p = true) \/ exists q a mid, x :: pre' = q ++ a :: mid /\ protector a = true /\ forallb interp mid = true).
    { intros p' H' Hp'. destruct (IH p' H' pre' post E) as [[Hi Hpt] | (q & a & mid & -> & Ha & Hmid)].
      - destruct (Hp' Hpt) as [Hx | [Hx Hpp]].
        + right. exists [], x, pre'. split; [reflexivity|]. split; assumption.
        + left. cbn [forallb]. rewrite Hx, Hi. split; [reflexivity|exact Hpp].
      - right. exists (x :: q), a, mid. split; [reflexivity|]. split; assumption. }
    destruct x as [c0|e|k s]; cbn [scanA] in H.
    + destruct (c0 =? APOS) eqn:Em0.
      * apply andb_true_iff in H as [_ H]. apply (Hgen false H). discriminate.
      * apply (Hgen (c0 =? NBSP) H). intro Hn. left. exact Hn.
    + apply (Hgen (protecting e) H). intro Hn. left. exact Hn.
    + apply (Hgen p H). intro Hn. right. split; [reflexivity|exact Hn].
Qed.
Theorem C20_english_apostrophes_spec l pre post : atoms (english l) = pre ++ AChar APOS :: post ->
  exists q a mid, pre = q ++ a :: mid /\ protector a = true /\ forallb interp mid = true.
Proof. intros E. destruct (scanA_spec _ false (C20_english_apostrophes l) pre post E) as [[_ H] | H]; [discriminate H|exact H]. Qed.
Print Assumptions C20_english_apostrophes_spec.
