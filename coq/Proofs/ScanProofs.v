Require Import Scan.
From Coq Require Import List NArith Bool Lia.
Import ListNotations.
Open Scope N_scope.

(* ---------- printing (the manual's rules) ---------- *)
Definition enc_bare (c : rune) : str := if c =? BS then [BS; 101] else [c].
Definition enc_quoted (c : rune) : str := if c =? BS then [BS; 101] else if c =? DQ then [DQ; DQ] else [c].
Definition needs_quote (a : str) : bool :=
  match a with [] => true | c :: _ => (c =? DQ) || existsb is_space a end.
Definition print_arg (a : str) : str :=
  if needs_quote a then DQ :: flat_map enc_quoted a ++ [DQ] else flat_map enc_bare a.

(* what the parser is expected to build for an argument: text pieces separated by the escape e *)
Definition txt (cur : str) : list inline := match cur with [] => [] | _ => [IText cur] end.
Fixpoint arg_inl (a : str) (cur : str) : list inline :=
  match a with
  | [] => txt cur
  | c :: r => if c =? BS then txt cur ++ IEsc [101] :: arg_inl r [] else arg_inl r (cur ++ [c])
  end.

(* text of an inline list: escape e is a backslash *)
Definition inl_text (i : inline) : str :=
  match i with IText s => s | IEsc [101] => [BS] | _ => [] end.
Definition inls_text (l : list inline) : str := flat_map inl_text l.

Lemma arg_inl_text a : forall cur, inls_text (arg_inl a cur) = cur ++ a.
Proof.
  induction a as [|c r IH]; intros cur; cbn [arg_inl].
  - rewrite app_nil_r. destruct cur; cbn; rewrite ?app_nil_r; reflexivity.
  - destruct (N.eqb_spec c BS) as [->|Hne].
    + unfold inls_text in *. rewrite flat_map_app. cbn [flat_map inl_text]. rewrite (IH []).
      destruct cur; cbn; rewrite ?app_nil_r; reflexivity.
    + rewrite IH, <- app_assoc. reflexivity.
Qed.

(* ---------- scanner basics ---------- *)
Lemma adv_cons2 st a b r : adv (st, a :: b :: r) = (st, b :: r).
Proof. reflexivity. Qed.

Definition wf_char (c : rune) : Prop := c <> NL /\ c <> 0.
Definition wf_arg (a : str) : Prop := Forall wf_char a.

(* the quoted-argument loop over the encoding of a BS-free piece, then the closing quote *)
Lemma quoted_loop w : forall fuel acc c tl,
  Forall (fun x => x <> BS /\ x <> NL) w -> c <> DQ ->
  (length (flat_map enc_quoted w) + 2 <= fuel)%nat ->
  arg_text_loop fuel (QuotedArg, flat_map enc_quoted w ++ DQ :: c :: tl) acc =
  (rev acc ++ w, (ArgEnd, c :: tl)).
Proof.
  induction w as [|x w IH]; intros fuel acc c tl Hw Hc Hf.
  - cbn [flat_map app] in *. destruct fuel as [|f]; [cbn in Hf; lia|].
    cbn [arg_text_loop cur snd hd_error]. change (DQ =? BS) with false. change (DQ =? DQ) with true. cbn [st_of fst sstate_eqb].
    rewrite adv_cons2. cbn [is_c cur snd hd_error]. destruct (N.eqb_spec c DQ); [congruence|].
    rewrite app_nil_r. reflexivity.
  - inversion Hw as [|? ? [Hx1 Hx2] Hw']; subst. cbn [flat_map] in *. unfold enc_quoted at 1 in Hf. unfold enc_quoted at 1.
    destruct (N.eqb_spec x BS) as [|_]; [congruence|].
    destruct (N.eqb_spec x DQ) as [->|Hq].
    + (* doubled quote *)
      cbn [app] in *. destruct fuel as [|f]; [cbn in Hf; lia|].
      cbn [arg_text_loop cur snd hd_error]. change (DQ =? BS) with false. change (DQ =? DQ) with true. cbn [st_of fst sstate_eqb].
      rewrite adv_cons2. cbn [is_c cur snd hd_error]. change (DQ =? DQ) with true.
      assert (Hnext : exists y r, flat_map enc_quoted w ++ DQ :: c :: tl = y :: r /\ r <> []).
      { destruct (flat_map enc_quoted w) as [|y r]; cbn; [exists DQ, (c :: tl); split; [reflexivity|discriminate]|].
        exists y, (r ++ DQ :: c :: tl). split; [reflexivity|]. destruct r; discriminate. }
      destruct Hnext as (y & r & Hy & Hr). rewrite Hy. destruct r as [|z r]; [congruence|]. rewrite adv_cons2. rewrite <- Hy.
      rewrite IH; [|assumption|assumption| cbn in Hf; lia]. cbn [rev]. rewrite <- app_assoc. reflexivity.
    + cbn [app] in *. destruct fuel as [|f]; [cbn in Hf; lia|].
      cbn [arg_text_loop cur snd hd_error].
      destruct (N.eqb_spec x BS); [congruence|]. destruct (N.eqb_spec x DQ); [congruence|].
      cbn [st_of fst sstate_eqb negb andb]. destruct (N.eqb_spec x NL); [congruence|].
      assert (Hnext : exists y r, flat_map enc_quoted w ++ DQ :: c :: tl = y :: r).
      { destruct (flat_map enc_quoted w) as [|y r]; cbn; eauto. }
      destruct Hnext as (y & r & Hy). rewrite Hy. rewrite adv_cons2. rewrite <- Hy.
      rewrite IH; [|assumption|assumption| cbn in Hf; lia]. cbn [rev]. rewrite <- app_assoc. reflexivity.
Qed.

(* same loop, stopping at a backslash inside the quotes *)
Lemma quoted_loop_bs w : forall fuel acc tl,
  Forall (fun x => x <> BS /\ x <> NL) w ->
  (length (flat_map enc_quoted w) + 1 <= fuel)%nat ->
  arg_text_loop fuel (QuotedArg, flat_map enc_quoted w ++ BS :: tl) acc =
  (rev acc ++ w, (QuotedArg, BS :: tl)).
Proof.
  induction w as [|x w IH]; intros fuel acc tl Hw Hf.
  - cbn [flat_map app] in *. destruct fuel as [|f]; [cbn in Hf; lia|].
    cbn [arg_text_loop cur snd hd_error]. change (BS =? BS) with true. rewrite app_nil_r. reflexivity.
  - inversion Hw as [|? ? [Hx1 Hx2] Hw']; subst. cbn [flat_map] in *. unfold enc_quoted at 1 in Hf. unfold enc_quoted at 1.
    destruct (N.eqb_spec x BS) as [|_]; [congruence|].
    destruct (N.eqb_spec x DQ) as [->|Hq].
    + cbn [app] in *. destruct fuel as [|f]; [cbn in Hf; lia|].
      cbn [arg_text_loop cur snd hd_error]. change (DQ =? BS) with false. change (DQ =? DQ) with true. cbn [st_of fst sstate_eqb].
      rewrite adv_cons2. cbn [is_c cur snd hd_error]. change (DQ =? DQ) with true.
      assert (Hnext : exists y r, flat_map enc_quoted w ++ BS :: tl = y :: r).
      { destruct (flat_map enc_quoted w) as [|y r]; cbn; eauto. }
      destruct Hnext as (y & r & Hy). rewrite Hy. rewrite adv_cons2. rewrite <- Hy.
      rewrite IH; [|assumption| cbn in Hf; lia]. cbn [rev]. rewrite <- app_assoc. reflexivity.
    + cbn [app] in *. destruct fuel as [|f]; [cbn in Hf; lia|].
      cbn [arg_text_loop cur snd hd_error].
      destruct (N.eqb_spec x BS); [congruence|]. destruct (N.eqb_spec x DQ); [congruence|].
      cbn [st_of fst sstate_eqb negb andb]. destruct (N.eqb_spec x NL); [congruence|].
      assert (Hnext : exists y r, flat_map enc_quoted w ++ BS :: tl = y :: r).
      { destruct (flat_map enc_quoted w) as [|y r]; cbn; eauto. }
      destruct Hnext as (y & r & Hy). rewrite Hy. rewrite adv_cons2. rewrite <- Hy.
      rewrite IH; [|assumption| cbn in Hf; lia]. cbn [rev]. rewrite <- app_assoc. reflexivity.
Qed.

(* unquoted loop over a piece without blanks or backslashes; what follows decides the outcome *)
Definition bare_char (x : rune) : Prop := x <> BS /\ is_space x = false.
Lemma bare_loop w : forall fuel acc t0 tl,
  Forall bare_char w -> (length w + 1 <= fuel)%nat -> (t0 = BS \/ is_space t0 = true) ->
  arg_text_loop fuel (ArgMore, w ++ t0 :: tl) acc =
  (rev acc ++ w, (if t0 =? BS then ArgMore else ArgEnd, t0 :: tl)).
Proof.
  induction w as [|x w IH]; intros fuel acc t0 tl Hw Hf Ht.
  - cbn [app] in *. destruct fuel as [|f]; [cbn in Hf; lia|].
    cbn [arg_text_loop cur snd hd_error]. rewrite app_nil_r.
    destruct (N.eqb_spec t0 BS) as [->|Hne]; [reflexivity|].
    destruct Ht as [|Hsp]; [congruence|].
    destruct (N.eqb_spec t0 DQ) as [->|]; [vm_compute in Hsp; discriminate|].
    cbn [st_of fst sstate_eqb negb andb]. rewrite Hsp. reflexivity.
  - inversion Hw as [|? ? [Hx1 Hx2] Hw']; subst. cbn [app length] in *. destruct fuel as [|f]; [lia|].
    cbn [arg_text_loop cur snd hd_error]. destruct (N.eqb_spec x BS); [congruence|].
    assert (Hnext : exists y r, w ++ t0 :: tl = y :: r) by (destruct w; cbn; eauto).
    destruct Hnext as (y & r & Hy).
    destruct (N.eqb_spec x DQ) as [->|Hq].
    + cbn [st_of fst sstate_eqb]. rewrite Hy, adv_cons2, <- Hy. rewrite IH; [|assumption|lia|assumption].
      cbn [rev]. rewrite <- app_assoc. reflexivity.
    + cbn [st_of fst sstate_eqb negb andb]. rewrite Hx2. cbn [andb].
      assert (Hnl : (x =? NL) = false). { destruct (N.eqb_spec x NL) as [->|]; [vm_compute in Hx2; discriminate| reflexivity]. }
      rewrite Hnl. rewrite Hy, adv_cons2, <- Hy. rewrite IH; [|assumption|lia|assumption].
      cbn [rev]. rewrite <- app_assoc. reflexivity.
Qed.

(* the escape e *)
Lemma scan_escape_e st c tl : st <> SEnd -> scan_escape (st, BS :: 101 :: c :: tl) = ((ESCAPE, [101]), (st, c :: tl)).
Proof. intros _. reflexivity. Qed.

(* ---------- one Scan call, by situation ---------- *)
Definition piece_ok (w : str) : Prop := Forall (fun x => x <> BS /\ x <> NL /\ x <> 0) w.
Lemma piece_ok_q w : piece_ok w -> Forall (fun x => x <> BS /\ x <> NL) w.
Proof. apply Forall_impl. tauto. Qed.

Ltac entry_nz := unfold scan1, scan_entry; cbn [is_c cur snd hd_error].

(* opening quote, piece, closing quote *)
Lemma scan1_q_open_close w c tl : piece_ok w -> c <> DQ ->
  scan1 (NewArg, DQ :: flat_map enc_quoted w ++ DQ :: c :: tl) =
  ((TEXT, DQ :: flat_map enc_quoted w ++ DQ :: c :: tl, w), (ArgEnd, c :: tl)).
Proof.
  intros Hw Hc. entry_nz. change (DQ =? 0) with false. cbn [scan_dispatch st_of fst scan_argument cur snd hd_error].
  change (DQ =? BS) with false. change (DQ =? NL) with false. cbn [sstate_eqb]. change (DQ =? DQ) with true.
  assert (Hnext : exists y r, flat_map enc_quoted w ++ DQ :: c :: tl = y :: r) by (destruct (flat_map enc_quoted w); cbn; eauto).
  destruct Hnext as (y & r & Hy). unfold set_state. cbn [snd]. rewrite Hy, adv_cons2, <- Hy.
  unfold scan_arg_text, fuel_of. cbn [snd].
  rewrite quoted_loop; [reflexivity| apply piece_ok_q; assumption | assumption |].
  rewrite app_length. cbn [length]. lia.
Qed.

Lemma scan1_q_open_bs w tl : piece_ok w ->
  scan1 (NewArg, DQ :: flat_map enc_quoted w ++ BS :: tl) =
  ((TEXT, DQ :: flat_map enc_quoted w ++ BS :: tl, w), (QuotedArg, BS :: tl)).
Proof.
  intros Hw. entry_nz. change (DQ =? 0) with false. cbn [scan_dispatch st_of fst scan_argument cur snd hd_error].
  change (DQ =? BS) with false. change (DQ =? NL) with false. cbn [sstate_eqb]. change (DQ =? DQ) with true.
  assert (Hnext : exists y r, flat_map enc_quoted w ++ BS :: tl = y :: r) by (destruct (flat_map enc_quoted w); cbn; eauto).
  destruct Hnext as (y & r & Hy). unfold set_state. cbn [snd]. rewrite Hy, adv_cons2, <- Hy.
  unfold scan_arg_text, fuel_of. cbn [snd].
  rewrite quoted_loop_bs; [reflexivity| apply piece_ok_q; assumption |].
  rewrite app_length. cbn [length]. lia.
Qed.

(* the escape e, in any argument state *)
Lemma scan1_esc st x tl : (st = QuotedArg \/ st = ArgMore \/ st = NewArg) ->
  scan1 (st, BS :: 101 :: x :: tl) =
  ((ESCAPE, BS :: 101 :: x :: tl, [101]), (match st with NewArg => ArgMore | _ => st end, x :: tl)).
Proof. intros [ -> | [ -> | -> ] ]; reflexivity. Qed.

Lemma scan1_esc' st (tl : list rune) : (st = QuotedArg \/ st = ArgMore \/ st = NewArg) -> tl <> [] ->
  scan1 (st, BS :: 101 :: tl) =
  ((ESCAPE, BS :: 101 :: tl, [101]), (match st with NewArg => ArgMore | _ => st end, tl)).
Proof. intros H Hne. destruct tl as [|x tl]; [congruence|]. apply scan1_esc; assumption. Qed.

(* inside quotes after an escape: piece then closing quote (the piece may be empty) *)
Lemma scan1_q_cont_close w c tl : piece_ok w -> c <> DQ ->
  scan1 (QuotedArg, flat_map enc_quoted w ++ DQ :: c :: tl) =
  ((TEXT, flat_map enc_quoted w ++ DQ :: c :: tl, w), (ArgEnd, c :: tl)).
Proof.
  intros Hw Hc.
  assert (Hhd : exists y r, flat_map enc_quoted w ++ DQ :: c :: tl = y :: r /\ y <> 0 /\ y <> BS /\ y <> NL).
  { destruct w as [|x w]; cbn [flat_map app].
    - exists DQ, (c :: tl). repeat split; discriminate.
    - inversion Hw as [|? ? [H1 [H2 H3]] _]; subst. unfold enc_quoted at 1.
      destruct (N.eqb_spec x BS); [congruence|]. destruct (N.eqb_spec x DQ) as [->|].
      + eexists DQ, _. cbn [app]. repeat split; discriminate.
      + eexists x, _. cbn [app]. repeat split; assumption. }
  destruct Hhd as (y & r & Hy & Hy0 & Hyb & Hyn).
  unfold scan1, scan_entry. rewrite Hy. cbn [is_c cur snd hd_error]. destruct (N.eqb_spec y 0); [congruence|].
  cbn [scan_dispatch st_of fst scan_argument cur snd hd_error].
  destruct (N.eqb_spec y BS); [congruence|]. destruct (N.eqb_spec y NL); [congruence|]. cbn [sstate_eqb].
  rewrite <- Hy. unfold scan_arg_text, fuel_of. cbn [snd].
  rewrite quoted_loop; [reflexivity| apply piece_ok_q; assumption | assumption |].
  rewrite app_length. cbn [length]. lia.
Qed.

(* inside quotes after an escape: non-empty piece then a backslash *)
Lemma scan1_q_cont_bs w tl : piece_ok w -> w <> [] ->
  scan1 (QuotedArg, flat_map enc_quoted w ++ BS :: tl) =
  ((TEXT, flat_map enc_quoted w ++ BS :: tl, w), (QuotedArg, BS :: tl)).
Proof.
  intros Hw Hne.
  assert (Hhd : exists y r, flat_map enc_quoted w ++ BS :: tl = y :: r /\ y <> 0 /\ y <> BS /\ y <> NL).
  { destruct w as [|x w]; [congruence|]. cbn [flat_map app].
    inversion Hw as [|? ? [H1 [H2 H3]] _]; subst. unfold enc_quoted at 1.
    destruct (N.eqb_spec x BS); [congruence|]. destruct (N.eqb_spec x DQ) as [->|].
    + eexists DQ, _. cbn [app]. repeat split; discriminate.
    + eexists x, _. cbn [app]. repeat split; assumption. }
  destruct Hhd as (y & r & Hy & Hy0 & Hyb & Hyn).
  unfold scan1, scan_entry. rewrite Hy. cbn [is_c cur snd hd_error]. destruct (N.eqb_spec y 0); [congruence|].
  cbn [scan_dispatch st_of fst scan_argument cur snd hd_error].
  destruct (N.eqb_spec y BS); [congruence|]. destruct (N.eqb_spec y NL); [congruence|]. cbn [sstate_eqb].
  rewrite <- Hy. unfold scan_arg_text, fuel_of. cbn [snd].
  rewrite quoted_loop_bs; [reflexivity| apply piece_ok_q; assumption |].
  rewrite app_length. cbn [length]. lia.
Qed.

(* unquoted: non-empty piece *)
Definition bare_ok (w : str) : Prop := Forall (fun x => x <> BS /\ is_space x = false /\ x <> 0) w.
Lemma bare_ok_chars w : bare_ok w -> Forall bare_char w.
Proof. apply Forall_impl. unfold bare_char. tauto. Qed.

Lemma scan1_bare st w t0 tl :
  (st = ArgMore \/ (st = NewArg /\ hd_error w <> Some DQ)) -> bare_ok w -> w <> [] -> (t0 = BS \/ is_space t0 = true) ->
  scan1 (st, w ++ t0 :: tl) = ((TEXT, w ++ t0 :: tl, w), (if t0 =? BS then ArgMore else ArgEnd, t0 :: tl)).
Proof.
  intros Hst Hw Hne Ht. destruct w as [|y w]; [congruence|].
  inversion Hw as [|? ? [Hyb [Hys Hy0]] Hw']; subst.
  assert (Hynl : (y =? NL) = false). { destruct (N.eqb_spec y NL) as [->|]; [vm_compute in Hys; discriminate|reflexivity]. }
  unfold scan1, scan_entry. cbn [app is_c cur snd hd_error]. destruct (N.eqb_spec y 0); [congruence|].
  assert (Hgoal : scan_argument (st, y :: w ++ t0 :: tl) =
                  ((TEXT, y :: w), (if t0 =? BS then ArgMore else ArgEnd, t0 :: tl))).
  { unfold scan_argument. cbn [cur snd hd_error]. destruct (N.eqb_spec y BS); [congruence|]. rewrite Hynl.
    assert (Hs1 : (if sstate_eqb (st_of (st, y :: w ++ t0 :: tl)) NewArg
                   then if y =? DQ then adv (set_state QuotedArg (st, y :: w ++ t0 :: tl)) else set_state ArgMore (st, y :: w ++ t0 :: tl)
                   else (st, y :: w ++ t0 :: tl)) = (ArgMore, y :: w ++ t0 :: tl)).
    { destruct Hst as [->|[-> Hdq]]; cbn [st_of fst sstate_eqb]; [reflexivity|].
      destruct (N.eqb_spec y DQ) as [->|]; [cbn in Hdq; congruence| reflexivity]. }
    rewrite Hs1. unfold scan_arg_text, fuel_of. cbn [snd].
    change (y :: w ++ t0 :: tl) with ((y :: w) ++ t0 :: tl).
    rewrite bare_loop; [reflexivity| apply bare_ok_chars; assumption | rewrite app_length; cbn [length]; lia | assumption]. }
  destruct Hst as [->|[-> Hdq]]; cbn [scan_dispatch st_of fst]; rewrite Hgoal; reflexivity.
Qed.

(* unquoted: an empty last piece (the argument ended with an escape) *)
Lemma scan1_bare_empty t0 tl : is_space t0 = true ->
  scan1 (ArgMore, t0 :: tl) = ((TEXT, t0 :: tl, []), (ArgEnd, t0 :: tl)).
Proof.
  intros Hs. unfold scan1, scan_entry. cbn [is_c cur snd hd_error].
  destruct (N.eqb_spec t0 0) as [->|]; [vm_compute in Hs; discriminate|].
  cbn [scan_dispatch st_of fst]. unfold scan_argument. cbn [cur snd hd_error].
  destruct (N.eqb_spec t0 BS) as [->|]; [vm_compute in Hs; discriminate|].
  destruct (N.eqb_spec t0 NL) as [->|Hnl]; cbn [st_of fst sstate_eqb]; [reflexivity|].
  unfold scan_arg_text, fuel_of. cbn [snd arg_text_loop length cur hd_error].
  destruct (N.eqb_spec t0 BS); [congruence|].
  destruct (N.eqb_spec t0 DQ) as [->|]; [vm_compute in Hs; discriminate|].
  cbn [st_of fst sstate_eqb negb andb]. rewrite Hs. reflexivity.
Qed.

(* between arguments and at the end of the line *)
Lemma scan1_argend_sp x tl : (is_space x && negb (x =? NL)) = false ->
  scan1 (ArgEnd, 32 :: x :: tl) = ((ARG_END, 32 :: x :: tl, []), (NewArg, x :: tl)).
Proof.
  intros Hx. unfold scan1, scan_entry. cbn [is_c cur snd hd_error]. change (32 =? 0) with false.
  cbn [scan_dispatch st_of fst]. unfold skip_ws, fuel_of. cbn [snd length skip_ws_f cur hd_error].
  change (is_space 32 && negb (32 =? NL)) with true. cbn iota. rewrite adv_cons2. cbn [cur snd hd_error]. rewrite Hx. reflexivity.
Qed.
Lemma scan1_argend_nl tl :
  scan1 (ArgEnd, NL :: tl) = ((ARG_END, NL :: tl, []), (NewArg, NL :: tl)).
Proof. reflexivity. Qed.
Lemma scan1_macro_end y tl :
  scan1 (NewArg, NL :: y :: tl) = ((MACRO_END, NL :: y :: tl, []), (BlockStart, y :: tl)).
Proof. reflexivity. Qed.

(* ---------- parser level ---------- *)
Definition mk (s : sc) : pst := {| p_sc := s; p_tok := EOF; p_rest := []; p_lit := [] |}.
Lemma parse_macro_sc f p args a : parse_macro f p args a = parse_macro f (mk (p_sc p)) args a.
Proof. destruct f; reflexivity. Qed.

Lemma pm_step_text f s args a r w s' : scan1 s = ((TEXT, r, w), s') ->
  parse_macro (S f) (mk s) args a = parse_macro f (mk s') args (a ++ txt w).
Proof.
  intros H. cbn [parse_macro p_sc mk]. unfold p_scan. rewrite H. cbn [p_tok p_lit inline_of].
  rewrite (parse_macro_sc f). cbn [p_sc]. destruct w; cbn [snoc_opt txt]; [rewrite app_nil_r|]; reflexivity.
Qed.
Lemma pm_step_esc f s args a r s' : scan1 s = ((ESCAPE, r, [101]), s') ->
  parse_macro (S f) (mk s) args a = parse_macro f (mk s') args (a ++ [IEsc [101]]).
Proof.
  intros H. cbn [parse_macro p_sc mk]. unfold p_scan. rewrite H. cbn [p_tok p_lit inline_of snoc_opt].
  rewrite (parse_macro_sc f). reflexivity.
Qed.
Lemma pm_step_argend f s args a r s' : scan1 s = ((ARG_END, r, []), s') ->
  parse_macro (S f) (mk s) args a = parse_macro f (mk s') (args ++ [a]) [].
Proof.
  intros H. cbn [parse_macro p_sc mk]. unfold p_scan. rewrite H. cbn [p_tok].
  rewrite (parse_macro_sc f). reflexivity.
Qed.
Lemma pm_step_macro_end f s args r s' : scan1 s = ((MACRO_END, r, []), s') ->
  parse_macro (S f) (mk s) args [] = inl (args, p_scan s').
Proof.
  intros H. cbn [parse_macro p_sc mk].
  assert (E : p_scan s = {| p_sc := s'; p_tok := MACRO_END; p_rest := r; p_lit := [] |}) by (unfold p_scan; rewrite H; reflexivity).
  rewrite E. reflexivity.
Qed.

(* pieces of an argument between backslashes *)
Fixpoint pieces_acc (a : str) (cur : str) : list str :=
  match a with
  | [] => [cur]
  | c :: r => if c =? BS then cur :: pieces_acc r [] else pieces_acc r (cur ++ [c])
  end.
Fixpoint qenc (ps : list str) : str :=
  match ps with
  | [] => []
  | w :: r => match r with [] => flat_map enc_quoted w | _ => flat_map enc_quoted w ++ BS :: 101 :: qenc r end
  end.
Fixpoint benc (ps : list str) : str :=
  match ps with
  | [] => []
  | w :: r => match r with [] => w | _ => w ++ BS :: 101 :: benc r end
  end.
Fixpoint inl_pieces (ps : list str) : list inline :=
  match ps with
  | [] => []
  | w :: r => match r with [] => txt w | _ => txt w ++ IEsc [101] :: inl_pieces r end
  end.

Lemma pieces_acc_ne a cur : pieces_acc a cur <> [].
Proof. revert cur; induction a as [|c r IH]; intros cur; cbn; [discriminate|]. destruct (c =? BS); [discriminate| apply IH]. Qed.

Lemma arg_inl_pieces a : forall cur, arg_inl a cur = inl_pieces (pieces_acc a cur).
Proof.
  induction a as [|c r IH]; intros cur; cbn [arg_inl pieces_acc]; [reflexivity|].
  destruct (c =? BS); [|apply IH]. cbn [inl_pieces]. rewrite IH.
  destruct (pieces_acc r []) eqn:E; [exfalso; eapply pieces_acc_ne; eassumption| reflexivity].
Qed.

Definition nobs (w : str) : Prop := Forall (fun x => x <> BS) w.
Lemma enc_quoted_app a b : flat_map enc_quoted (a ++ b) = flat_map enc_quoted a ++ flat_map enc_quoted b.
Proof. apply flat_map_app. Qed.

Lemma qenc_pieces a : forall cur, flat_map enc_quoted cur ++ flat_map enc_quoted a = qenc (pieces_acc a cur).
Proof.
  induction a as [|c r IH]; intros cur; cbn [flat_map pieces_acc qenc]; [rewrite app_nil_r; reflexivity|].
  destruct (N.eqb_spec c BS) as [->|Hne].
  - change (enc_quoted BS) with [BS; 101]. cbn [qenc].
    destruct (pieces_acc r []) eqn:E; [exfalso; eapply pieces_acc_ne; eassumption|].
    rewrite <- E, <- (IH []). cbn [flat_map app]. reflexivity.
  - rewrite <- IH, enc_quoted_app. cbn [flat_map]. rewrite app_nil_r, <- app_assoc. reflexivity.
Qed.

Lemma enc_bare_nobs w : nobs w -> flat_map enc_bare w = w.
Proof.
  induction 1 as [|x w Hx _ IH]; [reflexivity|]. cbn [flat_map]. unfold enc_bare at 1.
  destruct (N.eqb_spec x BS); [congruence|]. cbn [app]. rewrite IH. reflexivity.
Qed.
Lemma benc_pieces a : forall cur, nobs cur -> cur ++ flat_map enc_bare a = benc (pieces_acc a cur).
Proof.
  induction a as [|c r IH]; intros cur Hc; cbn [flat_map pieces_acc benc]; [rewrite app_nil_r; reflexivity|].
  destruct (N.eqb_spec c BS) as [->|Hne].
  - change (enc_bare BS) with [BS; 101]. cbn [benc].
    destruct (pieces_acc r []) eqn:E; [exfalso; eapply pieces_acc_ne; eassumption|].
    rewrite <- E, <- (IH []); [reflexivity| constructor].
  - assert (Hc1 : enc_bare c = [c]) by (unfold enc_bare; destruct (N.eqb_spec c BS); [congruence|reflexivity]).
    rewrite Hc1. rewrite <- IH; [rewrite <- app_assoc; reflexivity|].
    apply Forall_app; split; [assumption| constructor; [assumption|constructor]].
Qed.

Lemma pieces_forall (P : rune -> Prop) a : forall cur, Forall P cur -> Forall P a -> Forall (Forall P) (pieces_acc a cur).
Proof.
  induction a as [|c r IH]; intros cur Hc Ha; cbn [pieces_acc]; [constructor; [assumption|constructor]|].
  inversion Ha; subst. destruct (c =? BS).
  - constructor; [assumption|]. apply IH; [constructor|assumption].
  - apply IH; [|assumption]. apply Forall_app; split; [assumption| constructor; [assumption|constructor]].
Qed.
Lemma pieces_nobs a : forall cur, nobs cur -> Forall nobs (pieces_acc a cur).
Proof.
  induction a as [|c r IH]; intros cur Hc; cbn [pieces_acc]; [constructor; [assumption|constructor]|].
  destruct (N.eqb_spec c BS).
  - constructor; [assumption|]. apply IH. constructor.
  - apply IH. apply Forall_app; split; [assumption| constructor; [assumption|constructor]].
Qed.

(* ---------- one whole argument at parser level ---------- *)
Lemma qenc_cons_ne (ps : list str) (c : rune) (tl : list rune) : qenc ps ++ DQ :: c :: tl <> [].
Proof. intros E. apply app_eq_nil in E as [_ E]. discriminate. Qed.

(* continuing inside quotes (after an escape) until the closing quote *)
Lemma pm_q_cont ps : ps <> [] -> Forall piece_ok ps -> forall args a c tl, c <> DQ ->
  exists k, forall f, parse_macro (k + f) (mk (QuotedArg, qenc ps ++ DQ :: c :: tl)) args a
                      = parse_macro f (mk (ArgEnd, c :: tl)) args (a ++ inl_pieces ps).
Proof.
  induction ps as [|w r IH]; intros Hne Hps args a c tl Hc; [congruence|].
  inversion Hps as [|? ? Hw Hr]; subst. destruct r as [|w2 r].
  - exists 1%nat. intros f. cbn [qenc inl_pieces Nat.add].
    rewrite (pm_step_text f _ args a _ w _ (scan1_q_cont_close w c tl Hw Hc)). reflexivity.
  - destruct (IH ltac:(discriminate) Hr args (a ++ txt w ++ [IEsc [101]]) c tl Hc) as (k & Hk).
    assert (Hq : qenc (w :: w2 :: r) = flat_map enc_quoted w ++ BS :: 101 :: qenc (w2 :: r)) by reflexivity.
    assert (Hi : inl_pieces (w :: w2 :: r) = txt w ++ IEsc [101] :: inl_pieces (w2 :: r)) by reflexivity.
    rewrite Hq, Hi. clear Hq Hi.
    destruct w as [|x w].
    + exists (S k). intros f. cbn [flat_map app txt Nat.add].
      erewrite pm_step_esc by (apply scan1_esc'; [auto| first [apply qenc_cons_ne | apply benc_cons_ne]]).
      cbn [txt app] in *. rewrite <- ?app_assoc. cbn [app]. rewrite Hk. rewrite <- ?app_assoc. reflexivity.
    + exists (S (S k)). intros f. cbn [Nat.add]. rewrite <- app_assoc. cbn [app].
      rewrite (pm_step_text (S (k + f)) _ args a _ (x :: w) _ (scan1_q_cont_bs (x :: w) _ Hw ltac:(discriminate))).
     
      erewrite pm_step_esc by (apply scan1_esc'; [auto| first [apply qenc_cons_ne | apply benc_cons_ne]]).
      cbn [txt app] in *. rewrite <- ?app_assoc. cbn [app]. rewrite Hk. rewrite <- ?app_assoc. reflexivity.
Qed.

(* a quoted argument from its opening quote *)
Lemma pm_quoted ps : ps <> [] -> Forall piece_ok ps -> forall args c tl, c <> DQ ->
  exists k, forall f, parse_macro (k + f) (mk (NewArg, DQ :: qenc ps ++ DQ :: c :: tl)) args []
                      = parse_macro f (mk (ArgEnd, c :: tl)) args (inl_pieces ps).
Proof.
  intros Hne Hps args c tl Hc. destruct ps as [|w r]; [congruence|]. inversion Hps as [|? ? Hw Hr]; subst.
  destruct r as [|w2 r].
  - exists 1%nat. intros f. cbn [qenc inl_pieces Nat.add].
    rewrite (pm_step_text f _ args [] _ w _ (scan1_q_open_close w c tl Hw Hc)). reflexivity.
  - destruct (pm_q_cont (w2 :: r) ltac:(discriminate) Hr args (txt w ++ [IEsc [101]]) c tl Hc) as (k & Hk).
    assert (Hq : qenc (w :: w2 :: r) = flat_map enc_quoted w ++ BS :: 101 :: qenc (w2 :: r)) by reflexivity.
    assert (Hi : inl_pieces (w :: w2 :: r) = txt w ++ IEsc [101] :: inl_pieces (w2 :: r)) by reflexivity.
    rewrite Hq, Hi. clear Hq Hi.
    exists (S (S k)). intros f. cbn [Nat.add]. rewrite <- app_assoc. cbn [app].
    rewrite (pm_step_text (S (k + f)) _ args [] _ w _ (scan1_q_open_bs w _ Hw)).
    cbn [app].
    erewrite pm_step_esc by (apply scan1_esc'; [auto| first [apply qenc_cons_ne | apply benc_cons_ne]]).
    cbn [txt app] in *. rewrite <- ?app_assoc. cbn [app]. rewrite Hk. rewrite <- ?app_assoc. reflexivity.
Qed.

(* unquoted argument: continuing after an escape, or at the start (then it must not begin with a quote) *)
Lemma benc_cons_ne (ps : list str) (t0 : rune) (tl : list rune) : benc ps ++ t0 :: tl <> [].
Proof. intros E. apply app_eq_nil in E as [_ E]. discriminate. Qed.

Lemma pm_b_cont ps : ps <> [] -> Forall bare_ok ps -> forall st args a t0 tl,
  (st = ArgMore \/ (st = NewArg /\ hd_error (benc ps) <> Some DQ /\ benc ps <> [])) -> is_space t0 = true ->
  exists k, forall f, parse_macro (k + f) (mk (st, benc ps ++ t0 :: tl)) args a
                      = parse_macro f (mk (ArgEnd, t0 :: tl)) args (a ++ inl_pieces ps).
Proof.
  induction ps as [|w r IH]; intros Hne Hps st args a t0 tl Hst Ht; [congruence|].
  inversion Hps as [|? ? Hw Hr]; subst.
  assert (Ht0 : (t0 =? BS) = false) by (destruct (N.eqb_spec t0 BS) as [->|]; [vm_compute in Ht; discriminate|reflexivity]).
  destruct r as [|w2 r].
  - cbn [benc inl_pieces] in *. destruct w as [|x w].
    + destruct Hst as [->|[_ [_ Hbad]]]; [|congruence].
      exists 1%nat. intros f. cbn [app Nat.add txt].
      rewrite (pm_step_text f _ args a _ [] _ (scan1_bare_empty t0 tl Ht)). reflexivity.
    + exists 1%nat. intros f. cbn [Nat.add].
      assert (Hs : scan1 (st, (x :: w) ++ t0 :: tl) = ((TEXT, (x :: w) ++ t0 :: tl, x :: w), (ArgEnd, t0 :: tl))).
      { rewrite scan1_bare; [rewrite Ht0; reflexivity| | assumption| discriminate| right; assumption].
        destruct Hst as [->|[-> [Hd _]]]; [left; reflexivity| right; split; [reflexivity|assumption]]. }
      rewrite (pm_step_text f _ args a _ _ _ Hs). reflexivity.
  - assert (Hb : benc (w :: w2 :: r) = w ++ BS :: 101 :: benc (w2 :: r)) by reflexivity.
    assert (Hi : inl_pieces (w :: w2 :: r) = txt w ++ IEsc [101] :: inl_pieces (w2 :: r)) by reflexivity.
    rewrite Hb, Hi in *. clear Hb Hi.
    destruct (IH ltac:(discriminate) Hr ArgMore args (a ++ txt w ++ [IEsc [101]]) t0 tl (or_introl eq_refl) Ht) as (k & Hk).
    destruct w as [|x w].
    + exists (S k). intros f. cbn [app txt Nat.add].
      assert (Hst' : st = QuotedArg \/ st = ArgMore \/ st = NewArg) by (destruct Hst as [->|[-> _]]; auto).
      erewrite pm_step_esc by (apply scan1_esc'; [auto| first [apply qenc_cons_ne | apply benc_cons_ne]]).
      assert (Hm : match st with NewArg => ArgMore | _ => st end = ArgMore) by (destruct Hst as [->|[-> _]]; reflexivity).
      rewrite Hm. cbn [txt app] in *. rewrite <- ?app_assoc. cbn [app]. rewrite Hk. rewrite <- ?app_assoc. reflexivity.
    + exists (S (S k)). intros f. cbn [Nat.add].
      assert (Hshape : ((x :: w) ++ BS :: 101 :: benc (w2 :: r)) ++ t0 :: tl
                       = (x :: w) ++ BS :: (101 :: benc (w2 :: r) ++ t0 :: tl)) by (rewrite <- app_assoc; reflexivity).
      rewrite Hshape.
      assert (Hs : scan1 (st, (x :: w) ++ BS :: (101 :: benc (w2 :: r) ++ t0 :: tl))
                   = ((TEXT, (x :: w) ++ BS :: (101 :: benc (w2 :: r) ++ t0 :: tl), x :: w),
                      (ArgMore, BS :: (101 :: benc (w2 :: r) ++ t0 :: tl)))).
      { rewrite scan1_bare; [reflexivity| | assumption| discriminate| left; reflexivity].
        destruct Hst as [->|[-> [Hd _]]]; [left; reflexivity| right; split; [reflexivity|]].
        cbn [app hd_error] in *. assumption. }
      rewrite (pm_step_text (S (k + f)) _ args a _ _ _ Hs).
      erewrite pm_step_esc by (apply scan1_esc'; [auto| apply benc_cons_ne]).
      cbn [txt app] in *. rewrite <- ?app_assoc. cbn [app]. rewrite Hk. rewrite <- ?app_assoc. reflexivity.
Qed.

(* ---------- a printed argument, whatever its form ---------- *)
Lemma Forall_and {A} (P Q : A -> Prop) l : Forall P l -> Forall Q l -> Forall (fun x => P x /\ Q x) l.
Proof. induction 1; intros HQ; inversion HQ; subst; constructor; auto. Qed.

Lemma pieces_piece_ok a : wf_arg a -> Forall piece_ok (pieces_acc a []).
Proof.
  intros Hw. assert (H1 := pieces_nobs a [] ltac:(constructor)).
  assert (H2 := pieces_forall wf_char a [] ltac:(constructor) Hw).
  revert H1 H2. generalize (pieces_acc a []). induction l as [|w l IH]; intros H1 H2; [constructor|].
  inversion H1; inversion H2; subst. constructor; [|apply IH; assumption].
  unfold piece_ok. eapply Forall_impl; [|apply (Forall_and _ _ w H3 H7)]. unfold wf_char. cbn. tauto.
Qed.

Lemma existsb_false_forall (f : rune -> bool) l : existsb f l = false -> Forall (fun x => f x = false) l.
Proof. induction l as [|x l IH]; cbn; [constructor|]. intros H. apply orb_false_iff in H as [H1 H2]. constructor; auto. Qed.

Lemma pieces_bare_ok a : wf_arg a -> existsb is_space a = false -> Forall bare_ok (pieces_acc a []).
Proof.
  intros Hw Hs. assert (H1 := pieces_nobs a [] ltac:(constructor)).
  assert (Hw' : Forall (fun x => is_space x = false /\ x <> 0) a).
  { apply Forall_and; [apply existsb_false_forall; assumption|]. eapply Forall_impl; [|exact Hw]. unfold wf_char. tauto. }
  assert (H2 := pieces_forall (fun x => is_space x = false /\ x <> 0) a [] ltac:(constructor) Hw').
  revert H1 H2. generalize (pieces_acc a []). induction l as [|w l IH]; intros H1 H2; [constructor|].
  inversion H1; inversion H2; subst. constructor; [|apply IH; assumption].
  unfold bare_ok. eapply Forall_impl; [|apply (Forall_and _ _ w H3 H7)]. cbn. tauto.
Qed.

Lemma pm_arg a : wf_arg a -> forall args c tl, is_space c = true ->
  exists k, forall f, parse_macro (k + f) (mk (NewArg, print_arg a ++ c :: tl)) args []
                      = parse_macro f (mk (ArgEnd, c :: tl)) args (arg_inl a []).
Proof.
  intros Hw args c tl Hc.
  assert (Hcq : c <> DQ) by (intros ->; vm_compute in Hc; discriminate).
  rewrite arg_inl_pieces. unfold print_arg. destruct (needs_quote a) eqn:Eq.
  - assert (Hshape : (DQ :: flat_map enc_quoted a ++ [DQ]) ++ c :: tl = DQ :: qenc (pieces_acc a []) ++ DQ :: c :: tl).
    { rewrite <- (qenc_pieces a []). cbn [flat_map app]. rewrite <- app_assoc. reflexivity. }
    rewrite Hshape. apply pm_quoted; [apply pieces_acc_ne| apply pieces_piece_ok; assumption| assumption].
  - destruct a as [|x a]; [discriminate|]. cbn [needs_quote] in Eq. apply orb_false_iff in Eq as [Ex Es].
    assert (Hb : flat_map enc_bare (x :: a) = benc (pieces_acc (x :: a) [])) by (rewrite <- (benc_pieces (x :: a) []); [reflexivity|constructor]).
    rewrite Hb.
    destruct (pm_b_cont (pieces_acc (x :: a) []) (pieces_acc_ne _ _) (pieces_bare_ok _ Hw Es) NewArg args [] c tl) as (k & Hk); [|assumption|].
    + right. split; [reflexivity|]. rewrite <- Hb. cbn [flat_map]. unfold enc_bare at 1 3.
      destruct (N.eqb_spec x BS) as [->|]; cbn [app hd_error]; [split; discriminate|].
      split; [|discriminate]. intros H. inversion H; subst. rewrite N.eqb_refl in Ex. discriminate.
    + exists k. intros f. rewrite Hk. reflexivity.
Qed.

(* ---------- the arguments of a line ---------- *)
Fixpoint args_tail (args : list str) (rest : str) : str :=
  match args with
  | [] => NL :: rest
  | a :: r => print_arg a ++ (match r with [] => NL :: rest | _ => 32 :: args_tail r rest end)
  end.

Lemma print_arg_head a : wf_arg a -> exists y t, print_arg a = y :: t /\ (is_space y && negb (y =? NL)) = false.
Proof.
  intros Hw. unfold print_arg. destruct (needs_quote a) eqn:Eq.
  - exists DQ, (flat_map enc_quoted a ++ [DQ]). split; reflexivity.
  - destruct a as [|x a]; [discriminate|]. cbn [needs_quote existsb] in Eq.
    apply orb_false_iff in Eq as [_ Es]. apply orb_false_iff in Es as [Ex _].
    cbn [flat_map]. unfold enc_bare at 1. destruct (N.eqb_spec x BS) as [->|].
    + eexists BS, _. split; reflexivity.
    + eexists x, _. split; [reflexivity|]. rewrite Ex. reflexivity.
Qed.

Lemma pm_line args : Forall wf_arg args -> forall done y rest,
  exists k, forall f, parse_macro (k + f) (mk (NewArg, args_tail args (y :: rest))) done []
                      = inl (done ++ map (fun a => arg_inl a []) args, p_scan (BlockStart, y :: rest)).
Proof.
  induction args as [|a r IH]; intros Hw done y rest.
  - exists 1%nat. intros f. cbn [args_tail Nat.add map].
    erewrite pm_step_macro_end by apply scan1_macro_end. rewrite app_nil_r. reflexivity.
  - inversion Hw as [|? ? Ha Hr]; subst. cbn [args_tail map].
    destruct r as [|b r].
    + (* last argument: followed by the newline *)
      destruct (pm_arg a Ha done NL (y :: rest) eq_refl) as (k1 & H1).
      exists (k1 + 2)%nat. intros f. cbn [args_tail]. replace (k1 + 2 + f)%nat with (k1 + S (S f))%nat by lia.
      rewrite H1. erewrite pm_step_argend by apply scan1_argend_nl.
      erewrite pm_step_macro_end by apply scan1_macro_end. reflexivity.
    + destruct (IH Hr (done ++ [arg_inl a []]) y rest) as (k2 & H2).
      inversion Hr as [|? ? Hb _]; subst.
      destruct (print_arg_head b Hb) as (h & t & Hh & Hsp).
      assert (Htail : args_tail (b :: r) (y :: rest) = h :: (t ++ (match r with [] => NL :: y :: rest | _ => 32 :: args_tail r (y :: rest) end))).
      { cbn [args_tail]. rewrite Hh. reflexivity. }
      destruct (pm_arg a Ha done 32 (args_tail (b :: r) (y :: rest)) eq_refl) as (k1 & H1).
      exists (k1 + (1 + k2))%nat. intros f. replace (k1 + (1 + k2) + f)%nat with (k1 + S (k2 + f))%nat by lia.
      rewrite H1. rewrite Htail.
      erewrite pm_step_argend by (apply scan1_argend_sp; exact Hsp). rewrite <- Htail.
      rewrite H2. rewrite <- app_assoc. reflexivity.
Qed.

(* ---------- the whole macro line ---------- *)
Definition name_char (x : rune) : Prop := is_space x = false /\ x <> BS.
Definition wf_name (n : str) : Prop := n <> [] /\ Forall name_char n.

Lemma name_loop_spec n : forall fuel st acc c tl, Forall name_char n -> is_space c = true -> (length n + 1 <= fuel)%nat ->
  name_loop fuel (st, n ++ c :: tl) acc = (rev acc ++ n, (st, c :: tl)).
Proof.
  induction n as [|x n IH]; intros fuel st acc c tl Hn Hc Hf.
  - destruct fuel; [cbn in Hf; lia|]. cbn [app name_loop cur snd hd_error]. rewrite Hc, app_nil_r. reflexivity.
  - inversion Hn as [|? ? [Hx1 Hx2] Hn']; subst. destruct fuel; [cbn in Hf; lia|].
    cbn [app name_loop cur snd hd_error]. rewrite Hx1. destruct (N.eqb_spec x BS); [congruence|].
    assert (Hnext : exists y r, n ++ c :: tl = y :: r) by (destruct n; cbn; eauto).
    destruct Hnext as (y & r & Hy). rewrite Hy, adv_cons2, <- Hy. rewrite IH; [|assumption|assumption| cbn in Hf; lia].
    cbn [rev]. rewrite <- app_assoc. reflexivity.
Qed.

Definition print_line (n : str) (args : list str) (rest : str) : str :=
  DOT :: n ++ (match args with [] => NL :: rest | _ => 32 :: args_tail args rest end).

Lemma args_tail_head args rest : Forall wf_arg args -> args <> [] ->
  exists h t, args_tail args rest = h :: t /\ (is_space h && negb (h =? NL)) = false.
Proof.
  intros Hw Hne. destruct args as [|a r]; [congruence|]. inversion Hw; subst.
  destruct (print_arg_head a H1) as (h & t & Hh & Hs). cbn [args_tail]. rewrite Hh. eexists h, _. split; [reflexivity|assumption].
Qed.

Lemma count_nl_app a b : count_nl (a ++ b) = (count_nl a + count_nl b)%nat.
Proof. induction a as [|c a IH]; cbn [app count_nl]; [reflexivity| rewrite IH; lia]. Qed.

(* the first Scan of the document: the macro name *)
Lemma first_scan n args y rest : wf_name n -> Forall wf_arg args ->
  p_scan (init_sc (print_line n args (y :: rest))) =
  {| p_sc := (NewArg, args_tail args (y :: rest)); p_tok := MACRO_NAME;
     p_rest := print_line n args (y :: rest); p_lit := n |}.
Proof.
  intros [Hne Hn] Hw. unfold p_scan, init_sc, print_line, scan1, scan_entry.
  cbn [is_c cur snd hd_error]. change (0 =? 0) with true. cbn iota.
  destruct n as [|x n]; [congruence|]. inversion Hn as [|? ? [Hx1 Hx2] Hn']; subst.
  cbn [app]. rewrite adv_cons2. cbn [scan_dispatch st_of fst is_c cur snd hd_error]. change (DOT =? DOT) with true. cbn iota.
  unfold scan_macro_name, set_state. cbn [snd fst]. rewrite adv_cons2.
  assert (Hsk : forall tl, skip_ws (MacroName, x :: tl) = (MacroName, x :: tl)).
  { intros tl. unfold skip_ws, fuel_of. cbn [snd length skip_ws_f cur hd_error]. rewrite Hx1. reflexivity. }
  rewrite Hsk. cbn [is_c cur snd hd_error].
  assert (Hxnl : (x =? NL) = false) by (destruct (N.eqb_spec x NL) as [->|]; [vm_compute in Hx1; discriminate|reflexivity]).
  rewrite Hxnl. destruct (N.eqb_spec x BS); [congruence|].
  destruct args as [|a r].
  - (* no arguments: the name is followed by the newline *)
    change (x :: n ++ NL :: y :: rest) with ((x :: n) ++ NL :: y :: rest).
    unfold fuel_of. cbn [snd]. rewrite name_loop_spec; [|assumption|reflexivity| rewrite app_length; cbn [length]; lia].
    cbn [rev app st_of fst sstate_eqb]. unfold skip_ws, fuel_of. cbn [snd length skip_ws_f cur hd_error].
    change (is_space NL && negb (NL =? NL)) with false. cbn iota. reflexivity.
  - destruct (args_tail_head (a :: r) (y :: rest) Hw ltac:(discriminate)) as (h & t & Hh & Hs).
    change (x :: n ++ 32 :: args_tail (a :: r) (y :: rest)) with ((x :: n) ++ 32 :: args_tail (a :: r) (y :: rest)).
    unfold fuel_of. cbn [snd]. rewrite name_loop_spec; [|assumption|reflexivity| rewrite app_length; cbn [length]; lia].
    cbn [rev app st_of fst sstate_eqb]. rewrite Hh. unfold skip_ws, fuel_of. cbn [snd length skip_ws_f cur hd_error].
    change (is_space 32 && negb (32 =? NL)) with true. cbn iota. rewrite adv_cons2. cbn [cur snd hd_error]. rewrite Hs.
    reflexivity.
Qed.

Theorem C12_first_block n args y rest : wf_name n -> Forall wf_arg args ->
  exists k, forall f,
    parse_blocks (count_nl (print_line n args (y :: rest))) (S (k + f))
                 (p_scan (init_sc (print_line n args (y :: rest)))) []
    = parse_blocks (count_nl (print_line n args (y :: rest))) (k + f) (p_scan (BlockStart, y :: rest))
                   [BMacro n (map (fun a => arg_inl a []) args) 1].
Proof.
  intros Hn Hw. destruct (pm_line args Hw [] y rest) as (k & Hk). exists k. intros f.
  rewrite (first_scan n args y rest Hn Hw). cbn [parse_blocks p_tok p_rest p_lit].
  rewrite parse_macro_sc. cbn [p_sc]. replace (S (k + f)) with (k + S f)%nat by lia. rewrite Hk. cbn [app].
  (* the line number *)
  assert (Hline : line_at (count_nl (print_line n args (y :: rest))) (print_line n args (y :: rest)) = 1%nat).
  { unfold line_at, print_line. cbn [tl count_nl]. change (DOT =? NL) with false. cbn iota. lia. }
  rewrite Hline. reflexivity.
Qed.

(* the arguments read back are, as text, the arguments written *)
Corollary C12_args_text args : map inls_text (map (fun a => arg_inl a []) args) = args.
Proof. rewrite map_map. induction args as [|a r IH]; cbn [map]; [reflexivity|]. rewrite arg_inl_text, IH. reflexivity. Qed.

Print Assumptions C12_first_block.
Print Assumptions C12_args_text.
