(* C02, multi-file XHTML (one file per part and chapter): what FileChange writes.  The file being left is closed by the
   kept navigation bar and the footer and stored; the new one starts with a document header carrying the header's title
   and a navigation bar whose links come from the collected part/chapter entries. *)
From Coq Require Import List NArith ZArith Bool Lia Arith String Ascii.
Import ListNotations.
Require Import Xhtml Exp Proc1 Proc2 Proc3 Ctl Loop Eqd Tok Inv EqF InvI TocStr Hdr Epub FragB.
Open Scope N_scope.
Arguments run : simpl never.
Arguments rev : simpl never.
Arguments flat : simpl never.

Definition default_params : list (str * str) := [(R "xhtml-index", R "full"); (R "lang", R "en")].

Lemma after_first_no_c k c x : no_c k x = true -> forall t, X.after_first c x = Some t -> no_c k t = true.
Proof. induction x as [|a r IH]; intros H t E; [discriminate|]. cbn in H. apply andb_true_iff in H as [Ha Hr].
  cbn [X.after_first] in E. destruct (a =? c); [injection E as <-; exact Hr|exact (IH Hr t E)]. Qed.
Lemma before_last_no_c k c x : no_c k x = true -> forall t, X.before_last c x = Some t -> no_c k t = true.
Proof. induction x as [|a r IH]; intros H t E; [discriminate|]. cbn in H. apply andb_true_iff in H as [Ha Hr].
  cbn [X.before_last] in E. destruct (X.before_last c r) as [u|].
  - injection E as <-. cbn. rewrite Ha. exact (IH Hr u eq_refl).
  - destruct (a =? c); [injection E as <-; reflexivity|discriminate]. Qed.
Lemma get_id_no_gt s e : X.custom_ids s = false -> no_c 62 (lx_ref e) = true -> no_c 62 (X.get_id s e) = true.
Proof. intros Hc Hr. unfold X.get_id. rewrite Hc. cbn [andb]. destruct (negb (X.multi s)).
  - rewrite no_c_app, dec_no_gt. reflexivity.
  - assert (Ha : no_c 62 (match X.after_first 35 (lx_ref e) with Some t => t | None => lx_ref e end) = true).
    { destruct (X.after_first 35 (lx_ref e)) as [t|] eqn:E; [exact (after_first_no_c 62 35 _ Hr t E)|exact Hr]. }
    destruct (X.before_last 46 _) as [t|] eqn:E; [exact (before_last_no_c 62 46 _ Ha t E)|exact Ha]. Qed.

(* the document header with the default parameters: everything but the title is a literal *)
Lemma doc_header_run title s : params s = default_params -> balanced_chunk title ->
  run (X.doc_header title s) (Txt, []) = (Txt, [R "body"; R "html"]).
Proof. intros Hp Ht. unfold X.doc_header, X.common_header, lang, X.epub3. rewrite Hp.
  change (assoc (R "xhtml-version") default_params) with (@None str). change (assoc (R "lang") default_params) with (Some (R "en")).
  change (assoc (R "epub-version") default_params) with (@None str). change (has_key (R "epub-css") default_params) with false.
  change (assoc (R "xhtml-favicon") default_params) with (@None str). change (assoc (R "xhtml-css") default_params) with (@None str).
  cbv iota. change (html_escape (R "en")) with (R "en").
  assert (Htt : balanced_chunk (match title with [] => [] | _ => R "    <title>" ++ title ++ R "</title>" ++ NLs end)).
  { intro S. destruct title as [|c0 r0] eqn:E; [reflexivity|]. rewrite <- E in *. norm. rewrite Ht. norm. reflexivity. }
  destruct (X.epub s); cbn [andb negb orb]; norm; rewrite Htt; norm; reflexivity. Qed.
Lemma go_up_default s : params s = default_params -> X.go_up s = R "Index".
Proof. intro Hp. unfold X.go_up, X.param, lang. rewrite Hp. reflexivity. Qed.
Lemma custom_file_names_default s : params s = default_params -> X.custom_file_names s = false.
Proof. intro Hp. unfold X.custom_file_names. rewrite Hp. reflexivity. Qed.
Lemma custom_ids_default s : params s = default_params -> X.custom_ids s = false.
Proof. intro Hp. unfold X.custom_ids. rewrite Hp. reflexivity. Qed.

Definition nav_bar (prev next : option lox) (up : str) : str :=
  R "    <div class=""topnav"">" ++ NLs ++ R "      <ul class=""topnav"">" ++ NLs ++
  (match prev with Some e => R "        <li><a href=""" ++ lx_ref e ++ R """>&lt;</a></li>" ++ NLs | None => R "        <li>&lt;</li>" ++ NLs end) ++
  R "        <li><a href=""index.html"">" ++ up ++ R "</a></li>" ++ NLs ++
  (match next with Some e => R "        <li><a href=""" ++ lx_ref e ++ R """>&gt;</a></li>" ++ NLs | None => R "        <li>&gt;</li>" ++ NLs end) ++
  R "      </ul>" ++ NLs ++ R "    </div>" ++ NLs.
Lemma nav_bar_balanced prev next up : (forall e, prev = Some e -> no_c 62 (lx_ref e) = true) -> (forall e, next = Some e -> no_c 62 (lx_ref e) = true) ->
  textual up -> balanced_chunk (nav_bar prev next up).
Proof. intros Hp Hn Hu S. unfold nav_bar.
  assert (A : forall o lbl, (forall e, o = Some e -> no_c 62 (lx_ref e) = true) -> lbl = R "&lt;" \/ lbl = R "&gt;" ->
     balanced_chunk (match o with Some e => R "        <li><a href=""" ++ lx_ref e ++ R """>" ++ lbl ++ R "</a></li>" ++ NLs | None => R "        <li>" ++ lbl ++ R "</li>" ++ NLs end)).
  { intros o lbl Ho Hl S'. destruct o as [e|].
    - pose proof (Ho e eq_refl) as He. destruct Hl as [-> | ->]; norm; val He (lx_ref e); reflexivity.
    - destruct Hl as [-> | ->]; reflexivity. }
  pose proof (A prev (R "&lt;") Hp (or_introl eq_refl)) as A1. pose proof (A next (R "&gt;") Hn (or_intror eq_refl)) as A2.
  norm.
  change (match prev with Some e => R "        <li><a href=""" ++ lx_ref e ++ R """>&lt;</a></li>" ++ NLs | None => R "        <li>&lt;</li>" ++ NLs end)
    with (match prev with Some e => R "        <li><a href=""" ++ lx_ref e ++ R """>" ++ R "&lt;" ++ R "</a></li>" ++ NLs | None => R "        <li>" ++ R "&lt;" ++ R "</li>" ++ NLs end).
  rewrite A1. norm. rewrite Hu. norm.
  change (match next with Some e => R "        <li><a href=""" ++ lx_ref e ++ R """>&gt;</a></li>" ++ NLs | None => R "        <li>&gt;</li>" ++ NLs end)
    with (match next with Some e => R "        <li><a href=""" ++ lx_ref e ++ R """>" ++ R "&gt;" ++ R "</a></li>" ++ NLs | None => R "        <li>" ++ R "&gt;" ++ R "</li>" ++ NLs end).
  rewrite A2. norm. reflexivity. Qed.

(* Side carried to a state that differs in fields it does not constrain, or constrains only through a predicate *)
Lemma Side_change_gen K K' BASE MD s s' : FragB.Side K BASE MD s -> mtags s' = mtags s -> inl s' = inl s -> asis s' = asis s -> ifdepth s' = ifdepth s -> udef s' = udef s ->
  umacros s' = umacros s -> bf s' = bf s -> dtags s' = dtags s -> verse s' = verse s -> format s' = format s -> mode s' = mode s ->
  panicked s' = panicked s -> ivars s' = ivars s -> params s' = params s -> toc s' = fst K' -> lox_toc s' = snd K' ->
  lox_lof s' = lox_lof s -> lox_lot s' = lox_lot s -> lox_lop s' = lox_lop s ->
  Forall file_ok (files s') -> balanced_chunk (navtext s') -> Forall nav_ok (lox_nav s') -> images s' = images s -> FragB.Side K' BASE MD s'.
Proof. intros [A1 A3 A4 A5 A6 A7 A8 A9 A10 A11 A12 A13 A14 A15 A16 A17 A18 A19 A20 A21 A22 A23 A24] E1 E3 E4 E5 E6 E7 E8 E9 E10 E11 E12 E13 E14 E15 E16 E17 E18 E19 E20 E21 E22 E23 E24.
  split; try congruence; try (unfold fmt in *; rewrite E11; exact A11); try (rewrite E1; exact A1); try (rewrite E12; exact A12). Qed.

Section FileChange.
Variable K : tocinfo * list lox.
Variable BASE : list str.
Variable MD : nat.
Local Notation Inv := (@Inv.Inv BASE).
Local Notation Side := (FragB.Side K BASE MD).

Lemma nth_error_ok {A} (Q : A -> Prop) l i e : Forall Q l -> nth_error l i = Some e -> Q e.
Proof. intros H E. rewrite Forall_forall in H. exact (H e (nth_error_In _ _ E)). Qed.

(* FileChange, at a point where nothing is open and no paragraph is buffered *)
Lemma file_change_spec title s : Side s -> MD = 2%nat \/ MD = 3%nat -> Inv s -> par s = false -> elems s = [] -> balanced_chunk title ->
  let r := X.file_change title s in
  Side r /\ Inv r /\ view r = view s /\ sblock r = sblock s /\ process r = process s /\ has_cur r = has_cur s.
Proof. intros HS Hmd HI Hp Hel Ht.
  pose proof (sd_pa _ _ _ _ HS) as Hpa. fold default_params in Hpa.
  destruct (sd_mode _ _ _ _ HS) as [Hm Hb].
  assert (HB : BASE = [R "body"; R "html"]) by (destruct Hb as [[Hx _]|[_ Hx]]; [destruct Hmd as [Hy|Hy]; rewrite Hy in Hx; discriminate|exact Hx]).
  assert (Hbuf : buf s = []) by (apply (inv_buf _ HI Hp)).
  assert (Hrun : run (flat (wout s)) (Txt, []) = (Txt, [R "body"; R "html"])).
  { destruct HI as [A _ _]. unfold out in A. rewrite Hbuf, flat_nil, app_nil_r, Hel, HB in A. exact A. }
  pose proof (sd_nav _ _ _ _ HS) as Hnav.
  unfold X.file_change.
  (* the file being left: navigation bar kept from its start (none in an EPUB), footer *)
  set (s1 := if X.epub s then s else match navtext s with [] => s | n => (wo n s) <| navtext := [] |> end).
  assert (H1 : exists nv nt, balanced_chunk nv /\ balanced_chunk nt /\ flat (wout s1) = flat (wout s) ++ nv /\ navtext s1 = nt /\
               s1 <| wout := [] |> <| navtext := [] |> = s <| wout := [] |> <| navtext := [] |>).
  { unfold s1. destruct (X.epub s).
    - exists [], (navtext s). rewrite app_nil_r. split; [intro; reflexivity|]. split; [exact Hnav|]. split; [reflexivity|]. split; reflexivity.
    - destruct (navtext s) as [|c0 n0] eqn:En.
      + exists [], []. rewrite app_nil_r. split; [intro; reflexivity|]. split; [intro; reflexivity|]. split; [reflexivity|]. split; [exact En|reflexivity].
      + exists (c0 :: n0), []. split; [exact Hnav|]. split; [intro; reflexivity|]. split; [apply flat_cons|]. split; reflexivity. }
  destruct H1 as (nv & nt & Hnv & Hnt & Hw1 & Hn1t & Hs1).
  assert (Hf1 : params s1 = params s /\ mode s1 = mode s /\ curfile s1 = curfile s /\ files s1 = files s /\ lox_nav s1 = lox_nav s).
  { unfold s1. destruct (X.epub s); [repeat split; reflexivity|]. destruct (navtext s); repeat split; reflexivity. }
  destruct Hf1 as (Hp1 & Hm1 & Hcf1 & Hfl1 & Hn1).
  clearbody s1.
  set (s2 := wo X.doc_footer s1).
  assert (Hcfn : X.custom_file_names s2 = false) by (apply custom_file_names_default; exact (eq_trans Hp1 Hpa)). rewrite Hcfn. cbn [andb].
  set (name := (if X.epub s2 then R "EPUB/" else []) ++ X.fprefix s2 ++ R "-" ++ X.chapname s2 ++ X.suffix s2).
  set (s3 := s2 <| files ::= fun l => l ++ [(curfile s2, flat (wout s2))] |> <| wout := [] |> <| curfile := name |>).
  assert (Hp3 : params s3 = default_params) by exact (eq_trans Hp1 Hpa).
  set (dh := X.doc_header title s3).
  assert (Hdh : run dh (Txt, []) = (Txt, [R "body"; R "html"])) by (apply doc_header_run; assumption).
  set (s4 := wo dh s3).
  assert (Er0 : forall nav' nt', s4 <| navtext := nt' |> <| wout ::= app nav' |> =
     s <| wout := nav' ++ [dh] |> <| navtext := nt' |> <| files := files s ++ [(curfile s, flat (wout s) ++ nv ++ X.doc_footer)] |> <| curfile := name |>).
  { intros nav' nt'. unfold s4, s3, s2. change (curfile (wo X.doc_footer s1)) with (curfile s1). change (wout (wo X.doc_footer s1)) with (X.doc_footer :: wout s1).
    rewrite flat_cons, Hw1, Hcf1, <- app_assoc.
    transitivity ((s1 <| wout := [] |> <| navtext := [] |>) <| wout := nav' ++ [dh] |> <| navtext := nt' |> <| files := files s1 ++ [(curfile s, flat (wout s) ++ nv ++ X.doc_footer)] |> <| curfile := name |>); [reflexivity|].
    rewrite Hs1, Hfl1. reflexivity. }
  assert (Hfile : file_ok (curfile s, flat (wout s) ++ nv ++ X.doc_footer)).
  { unfold file_ok. cbn [snd]. rewrite run_app, Hrun, run_app, Hnv. vm_compute. reflexivity. }
  assert (He4 : X.epub s4 = X.epub s) by (unfold X.epub; change (mode s4) with (mode s1); rewrite Hm1; reflexivity).
  rewrite He4. destruct (X.epub s) eqn:He.
  - (* EPUB: no navigation bar *)
    assert (Er : s4 = s <| wout := [dh] |> <| navtext := nt |> <| files := files s ++ [(curfile s, flat (wout s) ++ nv ++ X.doc_footer)] |> <| curfile := name |>).
    { transitivity (s4 <| navtext := nt |> <| wout ::= app [] |>); [rewrite <- Hn1t; unfold s4, s3, s2; destruct s1; reflexivity|].
      rewrite (Er0 [] nt). reflexivity. }
    clearbody s4 dh name. subst s4.
    split; [|split; [|repeat split; reflexivity]].
    + apply (Side_change_gen K K BASE MD s _ HS); try reflexivity; [exact (sd_toc _ _ _ _ HS)|exact (sd_lox _ _ _ _ HS)| |exact Hnt|exact (sd_lnav _ _ _ _ HS)].
      apply Forall_app. split; [exact (sd_files _ _ _ _ HS)|]. constructor; [exact Hfile|constructor].
    + split; [|intros _; exact Hbuf|exact (inv_fmt _ HI)].
      change (out _) with (flat [dh] ++ flat (buf s)). change (elems _) with (elems s).
      rewrite Hbuf, Hel, !flat_cons, flat_nil, !app_nil_r. cbn [app]. rewrite Hdh, HB. reflexivity.
  - rewrite (go_up_default s4 Hp3).
    set (navc := (pcount (toc s4) + ccount (toc s4))%nat).
    set (prev := if Nat.ltb 1 navc then nth_error (lox_nav s4) (navc - 2) else None).
    set (next := if Nat.ltb navc (List.length (lox_nav s4)) then nth_error (lox_nav s4) navc else None).
    fold (nav_bar prev next (R "Index")).
    assert (Hln : Forall (nav_ok) (lox_nav s4)) by (change (lox_nav s4) with (lox_nav s1); rewrite Hn1; exact (sd_lnav _ _ _ _ HS)).
    assert (Hnb : balanced_chunk (nav_bar prev next (R "Index"))).
    { apply nav_bar_balanced; [| |intro; reflexivity].
      - intros e E. unfold prev in E. destruct (Nat.ltb 1 navc); [exact (nth_error_ok nav_ok _ _ e Hln E)|discriminate].
      - intros e E. unfold next in E. destruct (Nat.ltb navc _); [exact (nth_error_ok nav_ok _ _ e Hln E)|discriminate]. }
    set (nav := nav_bar prev next (R "Index")) in *. clearbody nav.
    set (r := wo nav (s4 <| navtext := nav |>)).
    assert (Er : r = s <| wout := [nav; dh] |> <| navtext := nav |> <| files := files s ++ [(curfile s, flat (wout s) ++ nv ++ X.doc_footer)] |> <| curfile := name |>) by exact (Er0 [nav] nav).
    clearbody r dh name. subst r.
    split; [|split; [|repeat split; reflexivity]].
    + apply (Side_change_gen K K BASE MD s _ HS); try reflexivity; [exact (sd_toc _ _ _ _ HS)|exact (sd_lox _ _ _ _ HS)| |exact Hnb|exact (sd_lnav _ _ _ _ HS)].
      apply Forall_app. split; [exact (sd_files _ _ _ _ HS)|]. constructor; [exact Hfile|constructor].
    + split; [|intros _; exact Hbuf|exact (inv_fmt _ HI)].
      change (out _) with (flat [nav; dh] ++ flat (buf s)). change (elems _) with (elems s).
      rewrite Hbuf, Hel, !flat_cons, flat_nil, !app_nil_r. cbn [app]. rewrite run_app, Hdh, Hnb, HB. reflexivity.
Qed.
End FileChange.

(* references to headers never contain '>' (they are written as attribute values) *)
Lemma dec2_no_gt n : no_c 62 (X.dec2 n) = true.
Proof. unfold X.dec2. destruct (Nat.ltb n 10); [rewrite no_c_app|]; rewrite dec_no_gt; reflexivity. Qed.
Lemma gen_ref_no_gt s prefix id hasfile : params s = default_params -> no_c 62 prefix = true -> no_c 62 id = true ->
  no_c 62 (X.gen_ref_s s prefix id hasfile) = true.
Proof. intros Hp Hpre Hid. unfold X.gen_ref_s.
  assert (Hsuf : no_c 62 (X.suffix s) = true) by (unfold X.suffix; destruct (X.epub s); reflexivity).
  assert (Hfile : no_c 62 (X.fprefix s ++ R "-" ++ X.chapname s ++ X.suffix s) = true).
  { unfold X.fprefix, X.chapname. rewrite (custom_file_names_default s Hp), Hp. cbn [andb]. change (assoc (R "xhtml-chap-prefix") default_params) with (@None str).
    rewrite !no_c_app, dec_no_gt, dec2_no_gt, Hsuf. reflexivity. }
  destruct (negb (X.multi s)); [rewrite !no_c_app, Hpre, Hid; reflexivity|].
  destruct hasfile; [exact Hfile|]. destruct (_ || _).
  - rewrite no_c_app, Hfile, !no_c_app, Hpre, Hid. reflexivity.
  - rewrite !no_c_app, Hsuf, Hpre, Hid. reflexivity. Qed.
Lemma header_ref_no_gt K BASE MD s : FragB.Side K BASE MD s -> no_c 62 (header_reference s) = true.
Proof. intro HS. unfold header_reference. rewrite (sd_fmt _ _ _ _ HS). unfold X.header_reference.
  pose proof (sd_pa _ _ _ _ HS) as Hp. fold default_params in Hp.
  rewrite (custom_ids_default s Hp).
  destruct (_ || _); [apply gen_ref_no_gt; try assumption; try reflexivity; apply dec_no_gt|].
  destruct (negb (X.multi s)); apply gen_ref_no_gt; try assumption; try reflexivity; [apply dec_no_gt|].
  rewrite !no_c_app, !dec_no_gt. reflexivity. Qed.

(* ---------- EPUB: the files epubGen writes at Reset ---------- *)
Lemma toc_string_nomini_eqd d opts s : flag "mini" opts = false -> snd (X.toc_string d opts s) ~~ s.
Proof. intro Hmini. unfold X.toc_string. destruct (lox_toc s) as [|e0 l0]; [apply err_eqd|]. cbv zeta. rewrite Hmini. cbn [andb].
  destruct d; cbn [snd]; try reflexivity.
  destruct (opt "title" opts) as [t0|]; [|reflexivity].
  pose proof (render_text_eqd t0 s) as H. destruct (render_text t0 s) as [x s1]. exact H. Qed.

(* equality up to the log and the files written *)
Definition ndf (s : st) : st := s <| diags := [] |> <| files := [] |>.
Definition eqdf (a b : st) : Prop := ndf a = ndf b.
Lemma eqdf_trans a b c : eqdf a b -> eqdf b c -> eqdf a c. Proof. unfold eqdf; congruence. Qed.
Lemma eqd_eqdf a b : a ~~ b -> eqdf a b.
Proof. unfold eqd, eqdf. intro H. change (ndf a) with ((nd a) <| files := [] |>). change (ndf b) with ((nd b) <| files := [] |>). rewrite H. reflexivity. Qed.
Lemma add_eqdf f s : eqdf (s <| files ::= f |>) s. Proof. destruct s; reflexivity. Qed.
Lemma eqdf_get {A} (g : st -> A) a b : (forall s, g (ndf s) = g s) -> eqdf a b -> g a = g b.
Proof. intros Hg H. rewrite <- (Hg a), <- (Hg b). unfold eqdf in H. rewrite H. reflexivity. Qed.
Lemma balanced_file n c : balanced_chunk c -> file_ok (n, c). Proof. intro H. exact (H []). Qed.

Lemma epub_gen_spec K BASE MD r : FragB.Side K BASE MD r -> Forall entry_ok (lox_toc r) ->
  eqdf (X.epub_gen r) r /\ Forall file_ok (files (X.epub_gen r)).
Proof. intros HS Hok. pose proof (sd_pa _ _ _ _ HS) as Hp. fold default_params in Hp.
  unfold X.epub_gen. rewrite Hp. change (has_key (R "document-title") default_params) with false. cbv iota.
  set (s0 := err "EPUB requires document-title parameter to be set" r).
  assert (E0 : eqdf s0 r) by (apply eqd_eqdf, err_eqd).
  assert (F0 : Forall file_ok (files s0)) by (unfold s0, err; destruct (quiet r); [|destruct (cloc r) as [[[? ?] ?]|]]; exact (sd_files _ _ _ _ HS)).
  (* what the generators read *)
  assert (G : forall s, eqdf s r -> params s = default_params /\ fmt s = FX /\ Forall entry_ok (lox_toc s) /\ images s = []).
  { intros s E. split; [rewrite (eqdf_get params _ _ (fun _ => eq_refl) E); exact Hp|].
    split; [unfold fmt; rewrite (eqdf_get format _ _ (fun _ => eq_refl) E); exact (sd_fmt _ _ _ _ HS)|].
    split; [rewrite (eqdf_get lox_toc _ _ (fun _ => eq_refl) E); exact Hok|rewrite (eqdf_get images _ _ (fun _ => eq_refl) E); exact (sd_img _ _ _ _ HS)]. }
  assert (Ht : X.param "document-title" s0 = []) by (unfold X.param; rewrite (proj1 (G s0 E0)); reflexivity). rewrite Ht.
  clearbody s0.
  set (s1 := s0 <| files ::= fun l => l ++ [(R "mimetype", R "application/epub+zip")] |>).
  assert (E1 : eqdf s1 r) by (eapply eqdf_trans; [exact (add_eqdf _ s0)|exact E0]).
  assert (F1 : Forall file_ok (files s1)) by (apply Forall_app; split; [exact F0|constructor; [reflexivity|constructor]]).
  rewrite (proj2 (proj2 (proj2 (G s1 E1)))). cbn [fold_left]. clearbody s1.
  set (s3 := s1 <| files ::= fun l => l ++ [(R "META-INF/container.xml", X.container_xml)] |>).
  assert (E3 : eqdf s3 r) by (eapply eqdf_trans; [exact (add_eqdf _ s1)|exact E1]).
  assert (F3 : Forall file_ok (files s3)) by (apply Forall_app; split; [exact F1|constructor; [exact container_xml_balanced|constructor]]).
  clearbody s3. destruct (G s3 E3) as (Hp3 & Hf3 & Hok3 & Him3).
  (* the package file *)
  assert (Hopf : balanced_chunk (fst (X.content_opf [] s3)) /\ snd (X.content_opf [] s3) = s3).
  { split.
    - apply content_opf_balanced; try (intro; reflexivity); unfold X.param, lang; rewrite ?Hp3; try (intro; reflexivity).
      apply Forall_forall. intros e He. unfold X.chap_entries in He. apply filter_In in He as [He _].
      rewrite Forall_forall in Hok3. destruct (Hok3 e He) as [Hr _ _]. split; [|exact Hr].
      apply get_id_no_gt; [apply custom_ids_default; exact Hp3|exact Hr].
    - unfold X.content_opf. cbv zeta. rewrite Him3. reflexivity. }
  destruct (X.content_opf [] s3) as [opf s4]. cbn [fst snd] in Hopf. destruct Hopf as [Hopf ->].
  set (s5 := s3 <| files ::= fun l => l ++ [(R "EPUB/content.opf", opf)] |>).
  assert (E5 : eqdf s5 r) by (eapply eqdf_trans; [exact (add_eqdf _ s3)|exact E3]).
  assert (F5 : Forall file_ok (files s5)) by (apply Forall_app; split; [exact F3|constructor; [exact (balanced_file _ _ Hopf)|constructor]]).
  clearbody s5. destruct (G s5 E5) as (Hp5 & Hf5 & Hok5 & Him5).
  assert (He3 : X.epub3 s5 = true) by (unfold X.epub3; rewrite Hp5; reflexivity). rewrite He3.
  (* the navigation document *)
  assert (Hnav : balanced_chunk (fst (X.nav_xhtml [] s5)) /\ snd (X.nav_xhtml [] s5) ~~ s5).
  { split.
    - apply nav_xhtml_balanced; try assumption; unfold X.param, lang; rewrite ?Hp5; try (intro; reflexivity).
    - unfold X.nav_xhtml. pose proof (toc_string_nomini_eqd X.DNav (mkPo [] [] []) s5 eq_refl) as H. destruct (X.toc_string X.DNav (mkPo [] [] []) s5) as [t sx]. exact H. }
  destruct (X.nav_xhtml [] s5) as [nv s5']. cbn [fst snd] in Hnav. destruct Hnav as [Hnav E5'].
  set (s6 := s5' <| files ::= fun l => l ++ [(R "EPUB/nav.xhtml", nv)] |>).
  assert (E6 : eqdf s6 r) by (eapply eqdf_trans; [exact (add_eqdf _ s5')|]; eapply eqdf_trans; [apply eqd_eqdf; exact E5'|exact E5]).
  assert (F6 : Forall file_ok (files s6)).
  { apply Forall_app; split; [rewrite (eqd_get files _ _ (fun _ => eq_refl) E5'); exact F5|constructor; [exact (balanced_file _ _ Hnav)|constructor]]. }
  clearbody s6. destruct (G s6 E6) as (Hp6 & Hf6 & Hok6 & Him6).
  assert (Hcss : X.param "epub-css" s6 = []) by (unfold X.param; rewrite Hp6; reflexivity). rewrite Hcss. cbv iota.
  match goal with |- context [X.toc_ncx [] ?x] => set (s7 := x) end.
  assert (E7 : eqdf s7 r) by (eapply eqdf_trans; [exact (add_eqdf _ s6)|exact E6]).
  assert (F7 : Forall file_ok (files s7)) by (apply Forall_app; split; [exact F6|constructor; [reflexivity|constructor]]).
  clearbody s7. destruct (G s7 E7) as (Hp7 & Hf7 & Hok7 & Him7).
  (* the NCX *)
  assert (Hncx : balanced_chunk (fst (X.toc_ncx [] s7)) /\ snd (X.toc_ncx [] s7) ~~ s7).
  { split.
    - apply toc_ncx_balanced; try assumption; unfold X.param, lang; rewrite ?Hp7; try (intro; reflexivity). reflexivity.
    - unfold X.toc_ncx. pose proof (toc_string_nomini_eqd X.DNcx (mkPo [] [] []) s7 eq_refl) as H. destruct (X.toc_string X.DNcx (mkPo [] [] []) s7) as [t sx]. exact H. }
  destruct (X.toc_ncx [] s7) as [ncx s8]. cbn [fst snd] in Hncx. destruct Hncx as [Hncx E8].
  split.
  - eapply eqdf_trans; [exact (add_eqdf _ s8)|]. eapply eqdf_trans; [apply eqd_eqdf; exact E8|exact E7].
  - apply Forall_app; split; [rewrite (eqd_get files _ _ (fun _ => eq_refl) E8); exact F7|constructor; [exact (balanced_file _ _ Hncx)|constructor]].
Qed.
