(* C02, multi-file XHTML (one file per part and chapter): what FileChange writes.  The file being left is closed by the
   kept navigation bar and the footer and stored; the new one starts with a document header carrying the header's title
   and a navigation bar whose links come from the collected part/chapter entries. *)
From Coq Require Import List NArith ZArith Bool Lia Arith String Ascii.
Import ListNotations.
Require Import Xhtml Exp Proc1 Proc2 Proc3 Ctl Loop Eqd Tok Inv EqF InvI TocStr Hdr Epub FragB.
Open Scope N_scope.
Arguments run : simpl never.
Arguments rev : simpl never.
Arguments flat : simpl never.

Definition default_params : list (str * str) := [(R "xhtml-index", R "full"); (R "lang", R "en")].

Lemma after_first_no_c k c x : no_c k x = true -> forall t, X.after_first c x = Some t -> no_c k t = true.
Proof. induction x as [|a r IH]; intros H t E; [discriminate|]. cbn in H. apply andb_true_iff in H as [Ha Hr].
  cbn [X.after_first] in E. destruct (a =? c); [injection E as <-; exact Hr|exact (IH Hr t E)]. Qed.
Lemma before_last_no_c k c x : no_c k x = true -> forall t, X.before_last c x = Some t -> no_c k t = true.
Proof. induction x as [|a r IH]; intros H t E; [discriminate|]. cbn in H. apply andb_true_iff in H as [Ha Hr].
  cbn [X.before_last] in E. destruct (X.before_last c r) as [u|].
  - injection E as <-. cbn. rewrite Ha. exact (IH Hr u eq_refl).
  - destruct (a =? c); [injection E as <-; reflexivity|discriminate]. Qed.
Lemma get_id_no_gt s e : X.custom_ids s = false -> no_c 62 (lx_ref e) = true -> no_c 62 (X.get_id s e) = true.
Proof. intros Hc Hr. unfold X.get_id. rewrite Hc. cbn [andb]. destruct (negb (X.multi s)).
  - rewrite no_c_app, dec_no_gt. reflexivity.
  - assert (Ha : no_c 62 (match X.after_first 35 (lx_ref e) with Some t => t | None => lx_ref e end) = true).
    { destruct (X.after_first 35 (lx_ref e)) as [t|] eqn:E; [exact (after_first_no_c 62 35 _ Hr t E)|exact Hr]. }
    destruct (X.before_last 46 _) as [t|] eqn:E; [exact (before_last_no_c 62 46 _ Ha t E)|exact Ha]. Qed.

(* the document header with the default parameters: everything but the title is a literal *)
Lemma doc_header_run title s : params s = default_params -> X.epub s = false -> balanced_chunk title ->
  run (X.doc_header title s) (Txt, []) = (Txt, [R "body"; R "html"]).
Proof. intros Hp He Ht. unfold X.doc_header, X.common_header, lang, X.epub3. rewrite Hp, He.
  change (assoc (R "xhtml-version") default_params) with (@None str). change (assoc (R "lang") default_params) with (Some (R "en")).
  change (assoc (R "xhtml-favicon") default_params) with (@None str). change (assoc (R "xhtml-css") default_params) with (@None str).
  cbn [andb negb orb].
  assert (Htt : balanced_chunk (match title with [] => [] | _ => R "    <title>" ++ title ++ R "</title>" ++ NLs end)).
  { intro S. destruct title as [|c0 r0] eqn:E; [reflexivity|]. rewrite <- E in *. norm. rewrite Ht. norm. reflexivity. }
  norm. rewrite Htt. norm. reflexivity. Qed.
Lemma go_up_default s : params s = default_params -> X.go_up s = R "Index".
Proof. intro Hp. unfold X.go_up, X.param, lang. rewrite Hp. reflexivity. Qed.
Lemma custom_file_names_default s : params s = default_params -> X.custom_file_names s = false.
Proof. intro Hp. unfold X.custom_file_names. rewrite Hp. reflexivity. Qed.
Lemma custom_ids_default s : params s = default_params -> X.custom_ids s = false.
Proof. intro Hp. unfold X.custom_ids. rewrite Hp. reflexivity. Qed.

Definition nav_bar (prev next : option lox) (up : str) : str :=
  R "    <div class=""topnav"">" ++ NLs ++ R "      <ul class=""topnav"">" ++ NLs ++
  (match prev with Some e => R "        <li><a href=""" ++ lx_ref e ++ R """>&lt;</a></li>" ++ NLs | None => R "        <li>&lt;</li>" ++ NLs end) ++
  R "        <li><a href=""index.html"">" ++ up ++ R "</a></li>" ++ NLs ++
  (match next with Some e => R "        <li><a href=""" ++ lx_ref e ++ R """>&gt;</a></li>" ++ NLs | None => R "        <li>&gt;</li>" ++ NLs end) ++
  R "      </ul>" ++ NLs ++ R "    </div>" ++ NLs.
Lemma nav_bar_balanced prev next up : (forall e, prev = Some e -> no_c 62 (lx_ref e) = true) -> (forall e, next = Some e -> no_c 62 (lx_ref e) = true) ->
  textual up -> balanced_chunk (nav_bar prev next up).
Proof. intros Hp Hn Hu S. unfold nav_bar.
  assert (A : forall o lbl, (forall e, o = Some e -> no_c 62 (lx_ref e) = true) -> lbl = R "&lt;" \/ lbl = R "&gt;" ->
     balanced_chunk (match o with Some e => R "        <li><a href=""" ++ lx_ref e ++ R """>" ++ lbl ++ R "</a></li>" ++ NLs | None => R "        <li>" ++ lbl ++ R "</li>" ++ NLs end)).
  { intros o lbl Ho Hl S'. destruct o as [e|].
    - pose proof (Ho e eq_refl) as He. destruct Hl as [-> | ->]; norm; val He (lx_ref e); reflexivity.
    - destruct Hl as [-> | ->]; reflexivity. }
  pose proof (A prev (R "&lt;") Hp (or_introl eq_refl)) as A1. pose proof (A next (R "&gt;") Hn (or_intror eq_refl)) as A2.
  norm.
  change (match prev with Some e => R "        <li><a href=""" ++ lx_ref e ++ R """>&lt;</a></li>" ++ NLs | None => R "        <li>&lt;</li>" ++ NLs end)
    with (match prev with Some e => R "        <li><a href=""" ++ lx_ref e ++ R """>" ++ R "&lt;" ++ R "</a></li>" ++ NLs | None => R "        <li>" ++ R "&lt;" ++ R "</li>" ++ NLs end).
  rewrite A1. norm. rewrite Hu. norm.
  change (match next with Some e => R "        <li><a href=""" ++ lx_ref e ++ R """>&gt;</a></li>" ++ NLs | None => R "        <li>&gt;</li>" ++ NLs end)
    with (match next with Some e => R "        <li><a href=""" ++ lx_ref e ++ R """>" ++ R "&gt;" ++ R "</a></li>" ++ NLs | None => R "        <li>" ++ R "&gt;" ++ R "</li>" ++ NLs end).
  rewrite A2. norm. reflexivity. Qed.

(* Side carried to a state that differs in fields it does not constrain, or constrains only through a predicate *)
Lemma Side_change_gen K K' BASE MD s s' : FragB.Side K BASE MD s -> mtags s' = mtags s -> inl s' = inl s -> asis s' = asis s -> ifdepth s' = ifdepth s -> udef s' = udef s ->
  umacros s' = umacros s -> bf s' = bf s -> dtags s' = dtags s -> verse s' = verse s -> format s' = format s -> mode s' = mode s ->
  panicked s' = panicked s -> ivars s' = ivars s -> params s' = params s -> toc s' = fst K' -> lox_toc s' = snd K' ->
  lox_lof s' = lox_lof s -> lox_lot s' = lox_lot s -> lox_lop s' = lox_lop s ->
  Forall file_ok (files s') -> balanced_chunk (navtext s') -> Forall nav_ok (lox_nav s') -> FragB.Side K' BASE MD s'.
Proof. intros [A1 A3 A4 A5 A6 A7 A8 A9 A10 A11 A12 A13 A14 A15 A16 A17 A18 A19 A20 A21 A22 A23] E1 E3 E4 E5 E6 E7 E8 E9 E10 E11 E12 E13 E14 E15 E16 E17 E18 E19 E20 E21 E22 E23.
  split; try congruence; try (unfold fmt in *; rewrite E11; exact A11); try (rewrite E1; exact A1); try (rewrite E12; exact A12). Qed.

Section FileChange.
Variable K : tocinfo * list lox.
Variable BASE : list str.
Variable MD : nat.
Local Notation Inv := (@Inv.Inv BASE).
Local Notation Side := (FragB.Side K BASE MD).

Lemma nth_error_ok {A} (Q : A -> Prop) l i e : Forall Q l -> nth_error l i = Some e -> Q e.
Proof. intros H E. rewrite Forall_forall in H. exact (H e (nth_error_In _ _ E)). Qed.

(* FileChange, at a point where nothing is open and no paragraph is buffered *)
Lemma file_change_spec title s : Side s -> MD = 2%nat -> Inv s -> par s = false -> elems s = [] -> balanced_chunk title ->
  let r := X.file_change title s in
  Side r /\ Inv r /\ view r = view s /\ sblock r = sblock s /\ process r = process s /\ has_cur r = has_cur s.
Proof. intros HS Hmd HI Hp Hel Ht.
  pose proof (sd_pa _ _ _ _ HS) as Hpa. fold default_params in Hpa.
  destruct (sd_mode _ _ _ _ HS) as [Hm Hb]. rewrite Hmd in Hm.
  assert (HB : BASE = [R "body"; R "html"]) by (destruct Hb as [[Hx _]|[_ Hx]]; [rewrite Hmd in Hx; discriminate|exact Hx]).
  assert (He : X.epub s = false) by (unfold X.epub; rewrite Hm; reflexivity).
  assert (Hbuf : buf s = []) by (apply (inv_buf _ HI Hp)).
  assert (Hrun : run (flat (wout s)) (Txt, []) = (Txt, [R "body"; R "html"])).
  { destruct HI as [A _ _]. unfold out in A. rewrite Hbuf, flat_nil, app_nil_r, Hel, HB in A. exact A. }
  pose proof (sd_nav _ _ _ _ HS) as Hnav.
  unfold X.file_change. rewrite He.
  (* the file being left: navigation bar kept from its start, footer *)
  set (s1 := match navtext s with [] => s | n => (wo n s) <| navtext := [] |> end).
  assert (H1 : flat (wout s1) = flat (wout s) ++ navtext s /\ s1 <| wout := [] |> <| navtext := [] |> = s <| wout := [] |> <| navtext := [] |>).
  { unfold s1. destruct (navtext s) as [|c0 n0] eqn:En; [rewrite app_nil_r; split; reflexivity|]. split; [apply flat_cons|reflexivity]. }
  destruct H1 as [Hw1 Hs1].
  assert (Hf1 : params s1 = params s /\ mode s1 = mode s /\ cid s1 = cid s /\ curfile s1 = curfile s /\ files s1 = files s /\ toc s1 = toc s /\ lox_nav s1 = lox_nav s).
  { unfold s1. destruct (navtext s); repeat split; reflexivity. }
  destruct Hf1 as (Hp1 & Hm1 & Hc1 & Hcf1 & Hfl1 & Ht1 & Hn1).
  set (s2 := wo X.doc_footer s1).
  assert (Hcfn : X.custom_file_names s2 = false) by (apply custom_file_names_default; exact (eq_trans Hp1 Hpa)). rewrite Hcfn. cbn [andb].
  assert (He2 : X.epub s2 = false) by (unfold X.epub; change (mode s2) with (mode s1); rewrite Hm1, Hm; reflexivity). rewrite He2.
  set (name := [] ++ X.fprefix s2 ++ R "-" ++ X.chapname s2 ++ X.suffix s2).
  set (s3 := s2 <| files ::= fun l => l ++ [(curfile s2, flat (wout s2))] |> <| wout := [] |> <| curfile := name |>).
  assert (Hp3 : params s3 = default_params) by exact (eq_trans Hp1 Hpa).
  assert (He3 : X.epub s3 = false) by exact He2.
  set (dh := X.doc_header title s3).
  assert (Hdh : run dh (Txt, []) = (Txt, [R "body"; R "html"])) by (apply doc_header_run; assumption).
  set (s4 := wo dh s3). assert (He4 : X.epub s4 = false) by exact He2. rewrite He4.
  rewrite (go_up_default s4 Hp3).
  set (navc := (pcount (toc s4) + ccount (toc s4))%nat).
  set (prev := if Nat.ltb 1 navc then nth_error (lox_nav s4) (navc - 2) else None).
  set (next := if Nat.ltb navc (List.length (lox_nav s4)) then nth_error (lox_nav s4) navc else None).
  fold (nav_bar prev next (R "Index")).
  assert (Hln : Forall (nav_ok) (lox_nav s4)) by (change (lox_nav s4) with (lox_nav s1); rewrite Hn1; exact (sd_lnav _ _ _ _ HS)).
  assert (Hnb : balanced_chunk (nav_bar prev next (R "Index"))).
  { apply nav_bar_balanced; [| |intro; reflexivity].
    - intros e E. unfold prev in E. destruct (Nat.ltb 1 navc); [exact (nth_error_ok nav_ok _ _ e Hln E)|discriminate].
    - intros e E. unfold next in E. destruct (Nat.ltb navc _); [exact (nth_error_ok nav_ok _ _ e Hln E)|discriminate]. }
  set (nav := nav_bar prev next (R "Index")) in *. clearbody nav dh name.
  (* the state reached: s with the output restarted, one more file, the new navigation bar kept *)
  set (r := wo nav (s4 <| navtext := nav |>)).
  assert (Er : r = s <| wout := [nav; dh] |> <| navtext := nav |> <| files := files s ++ [(curfile s, flat (wout s) ++ navtext s ++ X.doc_footer)] |> <| curfile := name |>).
  { unfold r, s4, s3, s2. change (curfile (wo X.doc_footer s1)) with (curfile s1). change (wout (wo X.doc_footer s1)) with (X.doc_footer :: wout s1).
    rewrite flat_cons, Hw1, Hcf1, <- app_assoc.
    transitivity ((s1 <| wout := [] |> <| navtext := [] |>) <| wout := [nav; dh] |> <| navtext := nav |> <| files := files s1 ++ [(curfile s, flat (wout s) ++ navtext s ++ X.doc_footer)] |> <| curfile := name |>); [reflexivity|].
    rewrite Hs1, Hfl1. reflexivity. }
  clearbody r. subst r.
  split; [|split; [|repeat split; reflexivity]].
  - apply (Side_change_gen K K BASE MD s _ HS); try reflexivity; [exact (sd_toc _ _ _ _ HS)|exact (sd_lox _ _ _ _ HS)| |exact Hnb|exact (sd_lnav _ _ _ _ HS)].
    apply Forall_app. split; [exact (sd_files _ _ _ _ HS)|]. constructor; [|constructor].
    unfold file_ok. cbn [snd]. rewrite run_app, Hrun, run_app, Hnav. vm_compute. reflexivity.
  - split; [|intros _; exact Hbuf|exact (inv_fmt _ HI)].
    change (out _) with (flat [nav; dh] ++ flat (buf s)). change (elems _) with (elems s).
    rewrite Hbuf, Hel, !flat_cons, flat_nil, !app_nil_r. cbn [app]. rewrite run_app, Hdh, Hnb, HB. reflexivity.
Qed.
End FileChange.

(* references to headers never contain '>' (they are written as attribute values) *)
Lemma dec2_no_gt n : no_c 62 (X.dec2 n) = true.
Proof. unfold X.dec2. destruct (Nat.ltb n 10); [rewrite no_c_app|]; rewrite dec_no_gt; reflexivity. Qed.
Lemma gen_ref_no_gt s prefix id hasfile : params s = default_params -> X.epub s = false -> no_c 62 prefix = true -> no_c 62 id = true ->
  no_c 62 (X.gen_ref_s s prefix id hasfile) = true.
Proof. intros Hp He Hpre Hid. unfold X.gen_ref_s.
  assert (Hsuf : no_c 62 (X.suffix s) = true) by (unfold X.suffix; rewrite He; reflexivity).
  assert (Hfile : no_c 62 (X.fprefix s ++ R "-" ++ X.chapname s ++ X.suffix s) = true).
  { unfold X.fprefix, X.chapname. rewrite (custom_file_names_default s Hp), Hp. cbn [andb]. change (assoc (R "xhtml-chap-prefix") default_params) with (@None str).
    rewrite !no_c_app, dec_no_gt, dec2_no_gt, Hsuf. reflexivity. }
  destruct (negb (X.multi s)); [rewrite !no_c_app, Hpre, Hid; reflexivity|].
  destruct hasfile; [exact Hfile|]. destruct (_ || _).
  - rewrite no_c_app, Hfile, !no_c_app, Hpre, Hid. reflexivity.
  - rewrite !no_c_app, Hsuf, Hpre, Hid. reflexivity. Qed.
Lemma header_ref_no_gt K BASE MD s : FragB.Side K BASE MD s -> no_c 62 (header_reference s) = true.
Proof. intro HS. unfold header_reference. rewrite (sd_fmt _ _ _ _ HS). unfold X.header_reference.
  pose proof (sd_pa _ _ _ _ HS) as Hp. fold default_params in Hp.
  pose proof (proj2 (Side_multi _ _ _ _ HS)) as He.
  rewrite (custom_ids_default s Hp).
  destruct (_ || _); [apply gen_ref_no_gt; try assumption; try reflexivity; apply dec_no_gt|].
  destruct (negb (X.multi s)); apply gen_ref_no_gt; try assumption; try reflexivity; [apply dec_no_gt|].
  rewrite !no_c_app, !dec_no_gt. reflexivity. Qed.
