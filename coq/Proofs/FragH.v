(* C02/C01 with headers: the sub-language of FragB.v plus .Ch/.Pt/.Sh/.Ss with any arguments.  New here: the two passes
   must agree - the k-th header of pass 2 finds the k-th entry recorded in pass 1 - so the invariant carries the header
   counter, the collected entries and the number of headers still to come. *)
From Coq Require Import List NArith ZArith Bool Lia Arith String.
Import ListNotations.
Require Import Xhtml Exp Proc1 Proc2 Proc3 Ctl Loop Eqd Tok Inv EqF InvI TocStr Hdr FragB Epub Multi.
Open Scope N_scope.
Arguments run : simpl never.
Arguments rev : simpl never.
Arguments flat : simpl never.

Definition is_hdr (n : str) : bool := is_name n "Ch" || is_name n "Pt" || is_name n "Sh" || is_name n "Ss".
Definition has_hdr_args (a : list arg) : bool := match po_args (fst (parse_opts specOptHeader a init_st)) with [] => false | _ => true end.
Definition hdr_block (b : block) : bool := match b with BMacro n a _ => is_hdr n && has_hdr_args a | _ => false end.
Definition hdr_count (bs : list block) : nat := List.length (filter hdr_block bs).
Definition tc_no_mini (a : list arg) : Prop := flag "mini" (fst (parse_opts specOptTc a init_st)) = false.
Definition in_fragH (b : block) : Prop :=
  in_frag b \/ (exists n a l, b = BMacro n a l /\ is_hdr n = true) \/ (exists a l, b = BMacro (R "Tc") a l /\ tc_no_mini a).

Section WithBase.
(* the elements open around the body ([] for a fragment, [body; html] for a complete document) *)
Variable BASE : list str.
Variable MD : nat.
Local Notation Inv := (@Inv.Inv BASE).
Local Notation P K := (FragB.P K BASE MD).
Local Notation Side K := (FragB.Side K BASE MD).
Definition KS (s : st) : tocinfo * list lox := (toc s, lox_toc s).
Definition Q (p : bool) (N : nat) (rest : list block) (s : st) : Prop :=
  P (KS s) p s /\ Forall entry_ok (lox_toc s) /\
  (if p then (hcount (toc s) + hdr_count rest = List.length (lox_toc s))%nat
   else (List.length (lox_toc s) = hcount (toc s) /\ hcount (toc s) + hdr_count rest = N)%nat).

Lemma Side_change K K' s s' : Side K s -> mtags s' = mtags s -> inl s' = inl s -> asis s' = asis s -> ifdepth s' = ifdepth s -> udef s' = udef s ->
  umacros s' = umacros s -> bf s' = bf s -> dtags s' = dtags s -> verse s' = verse s -> format s' = format s -> mode s' = mode s ->
  panicked s' = panicked s -> ivars s' = ivars s -> params s' = params s -> toc s' = fst K' -> lox_toc s' = snd K' ->
  lox_lof s' = lox_lof s -> lox_lot s' = lox_lot s -> lox_lop s' = lox_lop s ->
  files s' = files s -> navtext s' = navtext s -> lox_nav s' = lox_nav s -> images s' = images s -> Side K' s'.
Proof. intros [A1 A3 A4 A5 A6 A7 A8 A9 A10 A11 A12 A13 A14 A15 A16 A17 A18 A19 A20 A21 A22 A23 A24] E1 E3 E4 E5 E6 E7 E8 E9 E10 E11 E12 E13 E14 E15 E16 E17 E18 E19 E20 E21 E22 E23 E24.
  split; try congruence; try (unfold fmt in *; rewrite E11; exact A11); try (rewrite E1; exact A1); try (rewrite E12; exact A12). Qed.
Lemma P_change K K' p s s' : P K p s -> Side K' s' -> sblock s' = sblock s -> process s' = process s ->
  out s' = out s -> view s' = view s -> buf s' = buf s -> format s' = format s -> P K' p s'.
Proof. intros (HS & Hsb & Hpr & HI) HS' E1 E2 Eo Ev Eb Ef. split; [exact HS'|]. split; [rewrite E1; exact Hsb|]. split; [rewrite E2; exact Hpr|].
  intro Hp. apply (Inv_regs BASE s); [exact Eo|exact Ev|exact Eb|exact Ef|exact (HI Hp)]. Qed.
Lemma P_K_eq K K' p s : P K p s -> K' = K -> P K' p s. Proof. intros H ->. exact H. Qed.
Lemma P_toc K p s : P K p s -> toc s = fst K /\ lox_toc s = snd K.
Proof. intros (HS & _). split; [exact (sd_toc _ _ _ _ HS)|exact (sd_lox _ _ _ _ HS)]. Qed.

(* the option parse of a header line does not depend on the pass *)
Lemma hdr_args_agree K p s a : P K p s -> po_args (fst (parse_opts specOptHeader a s)) = po_args (fst (parse_opts specOptHeader a init_st)).
Proof. intros (HS & _). f_equal. apply parse_opts_iv. rewrite (sd_iv _ _ _ _ HS). reflexivity. Qed.

Lemma hcount_update m nonum t : hcount (update_headers m nonum t) = S (hcount t).
Proof. unfold update_headers. cbv zeta. repeat (match goal with |- context [if ?c then _ else _] => destruct c end); reflexivity. Qed.
Lemma opt_text_eqd n o s : snd (opt_text n o s) ~~ s.
Proof. unfold opt_text. destruct (opt n o); [apply inlines_text_eqd|reflexivity]. Qed.
Lemma header_num_textual t m nonum : textual (header_num t m nonum).
Proof. unfold header_num. destruct nonum; [apply textual_nil|].
  repeat (match goal with |- textual (if ?c then _ else _) => destruct c end);
  repeat (first [apply dec_textual | apply textual_nil | apply textual_app | (intro; reflexivity)]). Qed.

Lemma hdr_count_cons b rest : hdr_count (b :: rest) = ((if hdr_block b then 1 else 0) + hdr_count rest)%nat.
Proof. unfold hdr_count. cbn [filter]. destruct (hdr_block b); reflexivity. Qed.
Lemma is_hdr_no_gt n : is_hdr n = true -> no_c 62 n = true /\ n <> [].
Proof. unfold is_hdr. intro H. repeat (apply orb_true_iff in H as [H|H]); apply FuelProofs.str_eqb_eq in H; subst n; split; (reflexivity || discriminate). Qed.
Lemma no_c_snoc_quote x : rest_slash (x ++ R """") false = false.
Proof. rewrite rest_slash_app. reflexivity. Qed.

(* the header of pass 2 *)
Lemma macro_header_pass2 N rest s n a l : is_hdr n = true -> macro s = n -> args s = a -> has_cur s = true ->
  Q true N (BMacro n a l :: rest) s -> Q true N rest (macro_header pim s) /\ lox_toc (macro_header pim s) = lox_toc s.
Proof. intros Hn Hmac Harg Hc (HP & Hok & Hcnt). pose proof HP as (HS & Hsb & Hpr & HI).
  unfold macro_header.
  pose proof (hdr_args_agree _ _ s a HP) as Hagree.
  pose proof (parse_opts_eqd specOptHeader (args s) s) as E1. rewrite <- Harg in Hagree.
  destruct (parse_opts specOptHeader (args s) s) as [o s1]. cbn [fst snd] in *.
  pose proof (P_eqd _ _ _ _ _ _ E1 HP) as HP1.
  assert (Hm1 : macro s1 = n) by (rewrite (eqd_get macro _ _ (fun _ => eq_refl) E1); exact Hmac).
  assert (Hpr1 : process s1 = true) by (apply HP1). rewrite Hpr1, Hm1.
  assert (Hk1 : KS s1 = KS s) by (unfold KS; rewrite (eqd_get toc _ _ (fun _ => eq_refl) E1), (eqd_get lox_toc _ _ (fun _ => eq_refl) E1); reflexivity).
  rewrite hdr_count_cons in Hcnt. cbn [hdr_block] in Hcnt. rewrite Hn in Hcnt. cbn [andb] in Hcnt. unfold has_hdr_args in Hcnt. rewrite Harg in Hagree. rewrite <- Hagree in Hcnt.
  destruct (po_args o) as [|a0 al] eqn:Epo.
  - (* no title: reported, nothing else *)
    cbn [plus] in Hcnt.
    assert (E : err "arguments required" s1 ~~ s) by (eapply eqd_trans; [apply err_eqd|exact E1]).
    assert (Hk : KS (err "arguments required" s1) = KS s) by (unfold KS; rewrite (eqd_get toc _ _ (fun _ => eq_refl) E), (eqd_get lox_toc _ _ (fun _ => eq_refl) E); reflexivity).
    split; [|apply (eqd_get lox_toc _ _ (fun _ => eq_refl) E)].
    split; [rewrite Hk; apply (P_eqd _ _ _ _ _ _ E HP)|]. rewrite (eqd_get lox_toc _ _ (fun _ => eq_refl) E), (eqd_get toc _ _ (fun _ => eq_refl) E). split; [exact Hok|exact Hcnt].
  - (* close what is open, then the header element *)
    set (nonum := flag "nonum" o).
    destruct (close_unclosed_inline_P _ _ _ _ HP1) as [HPa Hsia].
    destruct (close_unclosed_block_P _ _ _ _ HPa) as (HPb & _ & Hsib & Hhcb & Hsbb). specialize (Hsib Hsia).
    destruct (end_par_P _ _ _ _ HPb Hsib) as (HP2 & Hp2 & Hsi2 & F2). cbv zeta in HP2, Hp2, Hsi2, F2.
    assert (Hc2 : has_cur (end_par PNormal (close_unclosed_block (close_unclosed_inline s1))) = true).
    { rewrite (eqf_get has_cur _ _ (fun _ => eq_refl) F2), Hhcb.
      rewrite (eqf_get has_cur _ _ (fun _ => eq_refl) (close_unclosed_inline_eqf _ (sd_fmt _ _ _ _ (proj1 HP1)) (sd_mk _ _ _ _ (proj1 HP1)))), (eqd_get has_cur _ _ (fun _ => eq_refl) E1). exact Hc. }
    set (s2 := end_par PNormal (close_unclosed_block (close_unclosed_inline s1))) in *. clearbody s2.
    assert (Hsb2 : sblock s2 = []) by (rewrite (eqf_get sblock _ _ (fun _ => eq_refl) F2); exact Hsbb).
    pose proof HP2 as (HS2 & _ & Hpr2 & HI2). specialize (HI2 eq_refl).
    destruct (P_toc _ _ _ HP2) as [Ht2 Hl2]. cbn [fst snd KS] in Ht2, Hl2.
    (* the counters advance *)
    set (s3 := s2 <| toc ::= update_headers n nonum |>).
    set (K3 := (update_headers n nonum (toc s), lox_toc s)).
    assert (HS3 : Side K3 s3) by (apply (Side_change _ K3 s2 s3 HS2); try reflexivity; unfold s3, K3; cbn; [rewrite Ht2; reflexivity|exact Hl2]).
    assert (HP3 : P K3 true s3) by (apply (P_change _ K3 true s2 s3 HP2 HS3); reflexivity).
    assert (Hc3 : has_cur s3 = true) by exact Hc2.
    (* the title *)
    destruct (pim_spec (a0 :: al) s3 (sd_fmt _ _ _ _ HS3) (sd_asis _ _ _ _ HS3) (sd_inl _ _ _ _ HS3) (sd_mk _ _ _ _ HS3) (sd_bf _ _ _ _ HS3) Hc3) as (Ht & F4 & Ho4 & Hv4 & Hb4).
    destruct (pim (a0 :: al) s3) as [title s4]. cbn [fst snd] in *.
    assert (HP4 : P K3 true s4) by (apply (P_same K3 BASE MD true s4 s3 F4 Ho4 Hv4 Hb4 HP3)).
    pose proof (opt_text_eqd "id" o s4) as E5. destruct (opt_text "id" o s4) as [idx s5]. cbn [snd] in E5.
    pose proof (P_eqd _ _ _ _ _ _ E5 HP4) as HP5.
    set (s7o := if str_eqb n (R "Ch") || str_eqb n (R "Pt") then s5 <| cidx := idx |> <| cid := idx |> else s5 <| cidx := idx |>).
    assert (HP7o : P K3 true s7o /\ has_cur s7o = true /\ view s7o = view s2).
    { assert (Hc5 : has_cur s5 = true) by (rewrite (eqd_get has_cur _ _ (fun _ => eq_refl) E5), (eqf_get has_cur _ _ (fun _ => eq_refl) F4); exact Hc3).
      assert (Hv5 : view s5 = view s2) by (rewrite (view_eqd _ _ E5), Hv4; reflexivity).
      unfold s7o. destruct (str_eqb n (R "Ch") || str_eqb n (R "Pt")); (split; [|split; [exact Hc5|exact Hv5]]);
      (eapply (P_change K3 K3 true s5); [exact HP5|apply (Side_change K3 K3 s5 _ (proj1 HP5)); try reflexivity; [exact (sd_toc _ _ _ _ (proj1 HP5))|exact (sd_lox _ _ _ _ (proj1 HP5))]|reflexivity..]). }
    destruct HP7o as (HP7o & Hc7o & Hv7o).
    change (let s6 := s5 <| cidx := idx |> in
            let s7 := if str_eqb n (R "Ch") || str_eqb n (R "Pt") then s6 <| cid := idx |> else s6 in
            let s8 := w title (begin_header n (negb nonum) title s7) in end_header n (negb nonum) title (close_unclosed_inline s8))
      with (end_header n (negb nonum) title (close_unclosed_inline (w title (begin_header n (negb nonum) title s7o)))).
    clearbody s7o.
    (* multi-file mode: a part or a chapter starts a new file *)
    unfold begin_header. rewrite (sd_fmt _ _ _ _ (proj1 HP7o)). unfold X.begin_header. cbv zeta.
    match goal with |- context [if X.multi s7o && ?c then ?a else ?b] => set (s7 := if X.multi s7o && c then a else b) end.
    assert (HP7 : P K3 true s7 /\ has_cur s7 = true /\ view s7 = view s2).
    { unfold s7. destruct (X.multi s7o && _) eqn:Emf; [|split; [exact HP7o|split; [exact Hc7o|exact Hv7o]]].
      apply andb_true_iff in Emf as [Emf _]. rewrite (proj1 (Side_multi _ _ _ _ (proj1 HP7o))) in Emf.
      assert (Emf' : MD = 2%nat \/ MD = 3%nat) by (apply orb_true_iff in Emf as [E|E]; apply Nat.eqb_eq in E; [left|right]; exact E). clear Emf. rename Emf' into Emf.
      pose proof HP7o as (HSo & Hsbo & Hpro & HIo). specialize (HIo eq_refl).
      assert (Hpo : par s7o = false) by (rewrite <- Hp2; exact (f_equal (fun v => fst (fst (fst (snd v)))) Hv7o)).
      assert (Hel : elems s7o = []) by (unfold elems; rewrite Hv7o; unfold view, elems_v; rewrite Hsb2, Hp2; reflexivity).
      destruct (file_change_spec K3 BASE MD title s7o HSo Emf HIo Hpo Hel Ht) as (A & B & C & D & E & F).
      split; [split; [exact A|split; [rewrite D; exact Hsbo|split; [rewrite E; exact Hpro|intros _; exact B]]]|split; [rewrite F; exact Hc7o|rewrite C; exact Hv7o]]. }
    destruct HP7 as (HP7 & Hc7 & Hv7).
    clearbody s7. pose proof HP7 as (HS7 & Hsb7 & Hpr7 & HI7). specialize (HI7 eq_refl).
    destruct (P_toc _ _ _ HP7) as [Ht7 Hl7]. cbn [fst snd K3] in Ht7, Hl7.
    (* the entry recorded by pass 1 *)
    assert (Hh7 : hcount (toc s7) = S (hcount (toc s))) by (rewrite Ht7; apply hcount_update).
    assert (Hidx : exists e, nth_error (lox_toc s7) (hcount (toc s7) - 1) = Some e /\ entry_ok e).
    { rewrite Hh7, Hl7. replace (S (hcount (toc s)) - 1)%nat with (hcount (toc s)) by (clear; lia).
      destruct (nth_error (lox_toc s) (hcount (toc s))) as [e|] eqn:En; [|apply nth_error_None in En; cbn [plus] in Hcnt; clear -En Hcnt; lia].
      exists e. split; [reflexivity|]. rewrite Forall_forall in Hok. apply Hok. apply (nth_error_In _ _ En). }
    destruct Hidx as (e & En & [Her Het Hen]).
    assert (Hcust : X.custom_ids s7 = false) by (apply custom_ids_default; exact (sd_pa _ _ _ _ HS7)).
    rewrite En, Hh7. cbn [Nat.eqb].
    pose proof (get_id_no_gt s7 e Hcust Her) as Hgid. set (gid := X.get_id s7 e) in *. clearbody gid.
    set (L := level_str (toc s7) n).
    set (num := if negb nonum then lx_num e ++ R " " else []).
    assert (Hnum : textual num) by (unfold num; destruct (negb nonum); [apply textual_app; [exact Hen|intro; reflexivity]|apply textual_nil]).
    set (attrs := R "class=""" ++ n ++ R """ id=""" ++ gid ++ R """").
    assert (Hattrs : no_c 62 attrs = true /\ rest_slash attrs false = false).
    { unfold attrs. split.
      - rewrite !no_c_app, (proj1 (is_hdr_no_gt n Hn)), Hgid. reflexivity.
      - rewrite !app_assoc. apply no_c_snoc_quote. }
    set (c1 := R "<h" ++ L ++ R " class=""" ++ n ++ R """ id=""" ++ gid ++ R """>" ++ num).
    assert (Hc1 : forall stk, run c1 (Txt, stk) = (Txt, hname L :: stk)).
    { intro stk. unfold c1.
      replace (R "<h" ++ L ++ R " class=""" ++ n ++ R """ id=""" ++ gid ++ R """>" ++ num)
        with ((R "<h" ++ L ++ R " " ++ attrs ++ R ">") ++ num) by (unfold attrs; rewrite <- !app_assoc; reflexivity).
      rewrite run_app, (run_header_open L attrs (level_str_ok _ _) (proj1 Hattrs) (proj2 Hattrs)). apply Hnum. }
    clearbody c1.
    assert (Hp7 : par s7 = false) by (rewrite <- Hp2; exact (f_equal (fun v => fst (fst (fst (snd v)))) Hv7)).
    assert (Hsi7 : sinline s7 = []) by (rewrite <- Hsi2; exact (f_equal (fun v => snd (fst (snd v))) Hv7)).
    assert (Hb7 : buf s7 = []) by (apply (inv_buf _ HI7 Hp7)).
    set (s8 := w title (w c1 s7)).
    assert (F8 : s8 ~= s7) by (unfold s8; eapply eqf_trans; apply w_eqf).
    assert (Hsi8 : sinline s8 = []) by (unfold s8; change (sinline (w title (w c1 s7))) with (let '(_, _, _, (_, _, si, _)) := view (w title (w c1 s7)) in si); rewrite !view_w; exact Hsi7).
    assert (Ecl : close_unclosed_inline s8 = s8) by (unfold close_unclosed_inline; rewrite Hsi8; reflexivity). rewrite Ecl.
    unfold end_header. rewrite (fmt_eqf _ _ F8), (sd_fmt _ _ _ _ HS7). unfold X.end_header.
    rewrite (eqf_get toc _ _ (fun _ => eq_refl) F8). fold L.
    set (c3 := R "</h" ++ L ++ R ">" ++ NLs).
    set (sf := w c3 s8).
    assert (Ff : sf ~= s7) by (unfold sf; eapply eqf_trans; [apply w_eqf|exact F8]).
    assert (Hkf : KS sf = K3) by (unfold KS; rewrite (eqf_get toc _ _ (fun _ => eq_refl) Ff), (eqf_get lox_toc _ _ (fun _ => eq_refl) Ff), Ht7, Hl7; reflexivity).
    split; [|rewrite (eqf_get lox_toc _ _ (fun _ => eq_refl) Ff); exact Hl7].
    split; [rewrite Hkf|].
    + split; [apply (Side_eqf _ _ _ _ _ Ff HS7)|]. split; [rewrite (eqf_get sblock _ _ (fun _ => eq_refl) Ff); exact Hsb7|].
      split; [rewrite (eqf_get process _ _ (fun _ => eq_refl) Ff); exact Hpr7|]. intros _.
      apply (Inv_step s7 _ (c1 ++ title ++ c3) HI7).
      * unfold sf, s8. rewrite !out_w; [rewrite <- !app_assoc; reflexivity|intros _; exact Hb7|apply bufc_w; intros _; exact Hb7|apply bufc_w, bufc_w; intros _; exact Hb7].
      * unfold elems, sf, s8. rewrite !view_w, !run_app, Hc1, Ht. apply (run_header_close L (level_str_ok _ _)).
      * unfold sf, s8. apply bufc_w, bufc_w, bufc_w. intros _. exact Hb7.
      * rewrite (fmt_eqf _ _ Ff). exact (sd_fmt _ _ _ _ HS7).
    + rewrite (eqf_get lox_toc _ _ (fun _ => eq_refl) Ff), (eqf_get toc _ _ (fun _ => eq_refl) Ff), Hl7, Hh7. split; [exact Hok|]. cbn [plus] in Hcnt. clear -Hcnt. lia.
Qed.

(* the header of pass 1: counters, label, the entry for the tables of contents *)
Lemma header_ref_shape K s : Side K s -> (MD <= 1)%nat -> header_reference s = R "#s" ++ dec (hcount (toc s)).
Proof. intros HS Hmd. unfold header_reference. rewrite (sd_fmt _ _ _ _ HS). unfold X.header_reference.
  assert (Hmulti : X.multi s = false) by (rewrite (proj1 (Side_multi _ _ _ _ HS)); destruct MD as [|[|m]]; [reflexivity|reflexivity|clear -Hmd; lia]).
  assert (Hcust : X.custom_ids s = false) by (unfold X.custom_ids; rewrite (sd_pa _ _ _ _ HS); reflexivity).
  rewrite Hcust, Hmulti. cbn [negb]. unfold X.gen_ref_s. rewrite Hmulti. cbn [negb].
  destruct (_ || _); reflexivity. Qed.

Lemma macro_header_pass1 N rest s n a l : is_hdr n = true -> macro s = n -> args s = a -> has_cur s = true ->
  Q false N (BMacro n a l :: rest) s -> Q false N rest (macro_header pim s) /\
  (lox_toc (macro_header pim s) = lox_toc s \/
   exists e, lox_toc (macro_header pim s) = lox_toc s ++ [e] /\ lx_count e = S (List.length (lox_toc s)) /\ ((MD <= 1)%nat -> lx_ref e = R "#s" ++ dec (lx_count e))).
Proof. intros Hn Hmac Harg Hc (HP & Hok & Hlen & Hcnt). pose proof HP as (HS & Hsb & Hpr & _).
  unfold macro_header.
  pose proof (hdr_args_agree _ _ s a HP) as Hagree.
  pose proof (parse_opts_eqd specOptHeader (args s) s) as E1. rewrite <- Harg in Hagree.
  destruct (parse_opts specOptHeader (args s) s) as [o s1]. cbn [fst snd] in *.
  pose proof (P_eqd _ _ _ _ _ _ E1 HP) as HP1.
  assert (Hm1 : macro s1 = n) by (rewrite (eqd_get macro _ _ (fun _ => eq_refl) E1); exact Hmac).
  assert (Hpr1 : process s1 = false) by (apply HP1). rewrite Hpr1, Hm1.
  rewrite hdr_count_cons in Hcnt. cbn [hdr_block] in Hcnt. rewrite Hn in Hcnt. cbn [andb] in Hcnt. unfold has_hdr_args in Hcnt. rewrite Harg in Hagree. rewrite <- Hagree in Hcnt.
  destruct (po_args o) as [|a0 al] eqn:Epo.
  - cbn [plus] in Hcnt.
    assert (Hk : KS s1 = KS s) by (unfold KS; rewrite (eqd_get toc _ _ (fun _ => eq_refl) E1), (eqd_get lox_toc _ _ (fun _ => eq_refl) E1); reflexivity).
    split; [|left; apply (eqd_get lox_toc _ _ (fun _ => eq_refl) E1)].
    split; [rewrite Hk; exact HP1|]. rewrite (eqd_get lox_toc _ _ (fun _ => eq_refl) E1), (eqd_get toc _ _ (fun _ => eq_refl) E1). split; [exact Hok|split; [exact Hlen|exact Hcnt]].
  - set (nonum := flag "nonum" o).
    pose proof HP1 as (HS1 & Hsb1 & _ & _).
    destruct (P_toc _ _ _ HP1) as [Ht1 Hl1]. cbn [fst snd KS] in Ht1, Hl1.
    set (s3 := if str_eqb n (R "Pt") then _ else _).
    set (T3 := toc s3).
    assert (Hh3 : hcount T3 = S (hcount (toc s))).
    { unfold T3, s3. destruct (str_eqb n (R "Pt")); [|destruct (str_eqb n (R "Ch"))];
      change (hcount (update_headers n nonum (toc s1)) = S (hcount (toc s))); rewrite hcount_update, Ht1; reflexivity. }
    assert (HS3 : Side (T3, lox_toc s) s3).
    { apply (Side_change _ (T3, lox_toc s) s1 s3 HS1); try reflexivity; try (unfold s3; destruct (str_eqb n (R "Pt")); [|destruct (str_eqb n (R "Ch"))]; reflexivity).
      unfold s3. destruct (str_eqb n (R "Pt")); [|destruct (str_eqb n (R "Ch"))]; cbn; exact Hl1. }
    assert (HP3 : P (T3, lox_toc s) false s3).
    { split; [exact HS3|]. split; [unfold s3; destruct (str_eqb n (R "Pt")); [|destruct (str_eqb n (R "Ch"))]; exact Hsb1|].
      split; [unfold s3; destruct (str_eqb n (R "Pt")); [|destruct (str_eqb n (R "Ch"))]; exact Hpr1|discriminate]. }
    assert (Hc3 : has_cur s3 = true).
    { unfold s3. destruct (str_eqb n (R "Pt")); [|destruct (str_eqb n (R "Ch"))]; cbn; rewrite (eqd_get has_cur _ _ (fun _ => eq_refl) E1); exact Hc. }
    assert (Hm3 : macro s3 = n) by (unfold s3; destruct (str_eqb n (R "Pt")); [|destruct (str_eqb n (R "Ch"))]; exact Hm1).
    clearbody s3.
    pose proof (opt_text_eqd "id" o s3) as E4. destruct (opt_text "id" o s3) as [id s4]. cbn [snd] in E4.
    pose proof (P_eqd _ _ _ _ _ _ E4 HP3) as HP4.
    set (s6 := if str_eqb n (R "Ch") || str_eqb n (R "Pt") then s4 <| cidx := id |> <| cid := id |> else s4 <| cidx := id |>).
    assert (HP6 : P (T3, lox_toc s) false s6 /\ has_cur s6 = true /\ macro s6 = n).
    { assert (Hc4 : has_cur s4 = true) by (rewrite (eqd_get has_cur _ _ (fun _ => eq_refl) E4); exact Hc3).
      assert (Hm4 : macro s4 = n) by (rewrite (eqd_get macro _ _ (fun _ => eq_refl) E4); exact Hm3).
      unfold s6. destruct (str_eqb n (R "Ch") || str_eqb n (R "Pt")); (split; [|split; [exact Hc4|exact Hm4]]);
      (eapply (P_change _ _ false s4); [exact HP4|apply (Side_change _ _ s4 _ (proj1 HP4)); try reflexivity; [exact (sd_toc _ _ _ _ (proj1 HP4))|exact (sd_lox _ _ _ _ (proj1 HP4))]|reflexivity..]). }
    destruct HP6 as (HP6 & Hc6 & Hm6).
    change (let s5 := s4 <| cidx := id |> in
            let s6 := if str_eqb n (R "Ch") || str_eqb n (R "Pt") then s5 <| cid := id |> else s5 in _)
      with (let s6 := if (match fmt s6 with FX => true | _ => false end) && X.custom_ids s6 && negb (X.id_safe (cidx s6))
                      then err "id contains a markup character and cannot be used as custom id" s6 else s6 in
            let ref := header_reference s6 in let num := header_num (toc s6) n nonum in
            let s7 := match id with [] => s6 | _ => store_id id (mkId ref num 5) s6 end in
            let '(title, s8) := pim (a0 :: al) s7 in
            let e := mkLox (hcount (toc s8)) n nonum num ref (R "s") title id in
            let s9 := s8 <| lox_toc ::= fun l => l ++ [e] |> in
            if str_eqb n (R "Pt") || str_eqb n (R "Ch") then s9 <| lox_nav ::= fun l => l ++ [e] |> else s9).
    clearbody s6. cbv zeta.
    assert (Hcond : (match fmt s6 with FX => true | _ => false end) && X.custom_ids s6 && negb (X.id_safe (cidx s6)) = false)
      by (rewrite (custom_ids_default s6 (sd_pa _ _ _ _ (proj1 HP6))), andb_false_r; reflexivity).
    rewrite Hcond. cbv iota.
    pose proof (header_ref_shape _ s6 (proj1 HP6)) as Eref. pose proof (header_ref_no_gt _ _ _ s6 (proj1 HP6)) as Hrgt.
    set (ref := header_reference s6) in *. set (num := header_num (toc s6) n nonum).
    set (s7 := match id with [] => s6 | _ => store_id id (mkId ref num 5) s6 end).
    assert (F7 : s7 ~= s6) by (unfold s7; destruct id; [apply eqf_refl|apply store_id_eqf]).
    pose proof (Side_eqf _ _ _ _ _ F7 (proj1 HP6)) as HS7.
    assert (Hc7 : has_cur s7 = true) by (rewrite (eqf_get has_cur _ _ (fun _ => eq_refl) F7); exact Hc6).
    destruct (pim_spec (a0 :: al) s7 (sd_fmt _ _ _ _ HS7) (sd_asis _ _ _ _ HS7) (sd_inl _ _ _ _ HS7) (sd_mk _ _ _ _ HS7) (sd_bf _ _ _ _ HS7) Hc7) as (Ht & F8 & _ & _ & _).
    destruct (pim (a0 :: al) s7) as [title s8]. cbn [fst snd] in *.
    assert (F86 : s8 ~= s6) by (eapply eqf_trans; [exact F8|exact F7]).
    pose proof (Side_eqf _ _ _ _ _ F86 (proj1 HP6)) as HS8.
    set (e := mkLox (hcount (toc s8)) n nonum num ref (R "s") title id).
    assert (Hoke : entry_ok e).
    { split; cbn [lx_ref lx_title lx_num e].
      - exact Hrgt.
      - exact Ht.
      - apply header_num_textual. }
    set (sf := if str_eqb n (R "Pt") || str_eqb n (R "Ch") then s8 <| lox_toc ::= fun l => l ++ [e] |> <| lox_nav ::= fun l => l ++ [e] |> else s8 <| lox_toc ::= fun l => l ++ [e] |>).
    assert (Htf : toc sf = T3 /\ lox_toc sf = lox_toc s ++ [e] /\ sblock sf = sblock s8 /\ process sf = process s8 /\ Side (T3, lox_toc s ++ [e]) sf).
    { unfold sf. destruct (str_eqb n (R "Pt") || str_eqb n (R "Ch")); cbn; rewrite (sd_toc _ _ _ _ HS8), (sd_lox _ _ _ _ HS8); cbn [fst snd];
      (split; [reflexivity|split; [reflexivity|split; [reflexivity|split; [reflexivity|]]]]);
      (apply (Side_change_gen _ (T3, lox_toc s ++ [e]) BASE MD s8 _ HS8); try reflexivity; cbn;
       [exact (sd_toc _ _ _ _ HS8)|rewrite (sd_lox _ _ _ _ HS8); reflexivity|exact (sd_files _ _ _ _ HS8)|exact (sd_nav _ _ _ _ HS8)
       |first [exact (sd_lnav _ _ _ _ HS8) | apply Forall_app; split; [exact (sd_lnav _ _ _ _ HS8)|constructor; [exact Hrgt|constructor]]]]). }
    fold sf. destruct Htf as (Htf & Hlf & Hsbf & Hprf & HSf). clearbody sf.
    assert (Hcount_e : lx_count e = S (List.length (lox_toc s)) /\ ((MD <= 1)%nat -> lx_ref e = R "#s" ++ dec (lx_count e))).
    { cbn [lx_count lx_ref e]. rewrite (eqf_get toc _ _ (fun _ => eq_refl) F86). destruct (P_toc _ _ _ HP6) as [Ht6 _]. cbn [fst] in Ht6. rewrite Ht6, Hh3, Hlen.
      split; [reflexivity|]. intro Hmd. rewrite (Eref Hmd), Ht6, Hh3. reflexivity. }
    split; [|right; exists e; split; [exact Hlf|exact Hcount_e]].
    split; [|rewrite Hlf, Htf; split; [apply Forall_app; split; [exact Hok|constructor; [exact Hoke|constructor]]|]].
    + unfold KS. rewrite Htf, Hlf. split; [exact HSf|]. split; [rewrite Hsbf, (eqf_get sblock _ _ (fun _ => eq_refl) F86); apply HP6|].
      split; [rewrite Hprf, (eqf_get process _ _ (fun _ => eq_refl) F86); apply HP6|discriminate].
    + rewrite app_length, Hh3. cbn [List.length]. cbn [plus] in Hcnt. clear -Hcnt Hlen. lia.
Qed.

(* ---------- Tc: the table of contents (full, summary, unnumbered, titled; not -mini) ---------- *)
Lemma macro_tc_Q p N rest s a l : args s = a -> tc_no_mini a -> Q p N (BMacro (R "Tc") a l :: rest) s -> Q p N rest (macro_tc s) /\ lox_toc (macro_tc s) = lox_toc s.
Proof. intros Harg Hnm HQ. pose proof HQ as (HP & Hok & Hcnt). pose proof HP as (HS & Hsb & Hpr & HI).
  assert (Hcnt' : if p then (hcount (toc s) + hdr_count rest)%nat = List.length (lox_toc s)
                  else List.length (lox_toc s) = hcount (toc s) /\ (hcount (toc s) + hdr_count rest)%nat = N) by (rewrite hdr_count_cons in Hcnt; exact Hcnt).
  unfold macro_tc. rewrite Hpr. destruct p; cbn [negb]; [|split; [split; [exact HP|split; [exact Hok|exact Hcnt']]|reflexivity]].
  rewrite (sd_fmt _ _ _ _ HS).
  destruct (close_unclosed_inline_P _ _ _ _ HP) as [HP1 Hsi1].
  assert (Ha1 : args (close_unclosed_inline s) = a) by (unfold close_unclosed_inline; destruct (sinline s); exact Harg).
  set (s1 := close_unclosed_inline s) in *. clearbody s1.
  pose proof (parse_opts_eqd specOptTc (args s1) s1) as E2.
  assert (Hmini : flag "mini" (fst (parse_opts specOptTc (args s1) s1)) = false).
  { rewrite Ha1. rewrite (parse_opts_iv specOptTc a s1 init_st); [exact Hnm|rewrite (sd_iv _ _ _ _ (proj1 HP1)); reflexivity]. }
  destruct (parse_opts specOptTc (args s1) s1) as [o s2]. cbn [fst snd] in *.
  assert (E2' : useless o s2 ~~ s1) by (unfold useless; destruct (po_args o); [exact E2|eapply eqd_trans; [apply err_eqd|exact E2]]).
  pose proof (P_eqd _ _ _ _ _ _ E2' HP1) as HP2.
  assert (Hsi2 : sinline (useless o s2) = []) by (rewrite (eqd_get sinline _ _ (fun _ => eq_refl) E2'); exact Hsi1).
  destruct (end_par_P _ _ _ _ HP2 Hsi2) as (HP3 & Hp3 & Hsi3 & F3). cbv zeta in HP3, Hp3, Hsi3, F3.
  set (s3 := end_par PNormal (useless o s2)) in *. clearbody s3.
  pose proof HP3 as (HS3 & Hsb3 & Hpr3 & HI3). specialize (HI3 eq_refl).
  destruct (P_toc _ _ _ HP3) as [Ht3 Hl3]. cbn [fst snd KS] in Ht3, Hl3.
  set (n := List.length (filter (fun f => flag f o) ["toc"%string; "lof"%string; "lot"%string; "lop"%string])).
  set (o1 := if Nat.eqb n 0 then mkPo (po_opts o) (R "toc" :: po_flags o) (po_args o) else o).
  assert (Hmini1 : flag "mini" o1 = false) by (unfold o1; destruct (Nat.eqb n 0); [unfold flag in *; cbn [po_flags existsb]; rewrite Hmini; reflexivity|exact Hmini]).
  (* whatever is written is a balanced chunk, the rest of the state is kept up to diagnostics *)
  assert (Hres : exists c sx, table_of_contents o1 s3 = wl c sx /\ sx ~~ s3 /\ balanced_chunk (flat c)).
  { unfold table_of_contents. rewrite (sd_fmt _ _ _ _ HS3). unfold X.table_of_contents.
    destruct (flag "toc" o1).
    - unfold X.write_toc. pose proof (toc_string_nomini_eqd X.DXhtml o1 s3 Hmini1) as Ets.
      assert (Hoks : Forall entry_ok (lox_toc s3)) by (rewrite Hl3; exact Hok).
      assert (Hdt : textual (X.param "document-title" s3)) by (unfold X.param; rewrite (sd_pa _ _ _ _ HS3); apply textual_nil).
      pose proof (fun t sx => toc_string_balanced X.DXhtml o1 s3 t sx (sd_fmt _ _ _ _ HS3) Hoks Hdt) as Hbal.
      destruct (X.toc_string X.DXhtml o1 s3) as [[t|] sx]; cbn [snd] in Ets.
      + exists [t], sx. split; [reflexivity|]. split; [exact Ets|]. change (flat [t]) with (t ++ []). rewrite app_nil_r. apply (Hbal t sx eq_refl).
      + exists [], sx. split; [reflexivity|]. split; [exact Ets|intro; reflexivity].
    - unfold X.xhtml_lox. rewrite (sd_lot _ _ _ _ HS3), (sd_lof _ _ _ _ HS3), (sd_lop _ _ _ _ HS3).
      destruct (flag "lot" o1); [exists [], (err "warning:no LoX information found" s3); split; [reflexivity|split; [apply err_eqd|intro; reflexivity]]|].
      destruct (flag "lof" o1); [exists [], (err "warning:no LoX information found" s3); split; [reflexivity|split; [apply err_eqd|intro; reflexivity]]|].
      destruct (flag "lop" o1); [exists [], (err "warning:no LoX information found" s3); split; [reflexivity|split; [apply err_eqd|intro; reflexivity]]|].
      exists [], s3. split; [reflexivity|split; [reflexivity|intro; reflexivity]]. }
  assert (Hfin : exists c sx, (if Nat.ltb 1 n then err "only one of the -toc, -lof and -lot options should bet set" s3 else table_of_contents o1 s3) = wl c sx /\ sx ~~ s3 /\ balanced_chunk (flat c)).
  { destruct (Nat.ltb 1 n); [exists [], (err "only one of the -toc, -lof and -lot options should bet set" s3); split; [reflexivity|split; [apply err_eqd|intro; reflexivity]]|exact Hres]. }
  destruct Hfin as (c & sx & -> & Ex & Hbc).
  pose proof (P_eqd _ _ _ _ _ _ Ex HP3) as HPx. pose proof HPx as (HSx & Hsbx & Hprx & HIx). specialize (HIx eq_refl).
  assert (Ff : wl c sx ~= s3) by (eapply eqf_trans; [apply wl_eqf|apply eqd_eqf; exact Ex]).
  assert (Hk : KS (wl c sx) = KS s) by (unfold KS; rewrite (eqf_get toc _ _ (fun _ => eq_refl) Ff), (eqf_get lox_toc _ _ (fun _ => eq_refl) Ff), Ht3, Hl3; reflexivity).
  split; [|rewrite (eqf_get lox_toc _ _ (fun _ => eq_refl) Ff); exact Hl3].
  split; [rewrite Hk|rewrite (eqf_get lox_toc _ _ (fun _ => eq_refl) Ff), (eqf_get toc _ _ (fun _ => eq_refl) Ff), Hl3, Ht3; split; [exact Hok|exact Hcnt']].
  split; [apply (Side_eqf _ _ _ _ _ Ff HS3)|]. split; [rewrite (eqf_get sblock _ _ (fun _ => eq_refl) Ff); exact Hsb3|].
  split; [rewrite (eqf_get process _ _ (fun _ => eq_refl) Ff); exact Hpr3|]. intros _.
  assert (Hbx : par sx = false -> buf sx = []) by (apply HIx).
  apply (Inv_step sx _ (flat c) HIx).
  - apply out_wl. exact Hbx.
  - unfold elems. rewrite view_wl. apply Hbc.
  - apply bufc_wl. exact Hbx.
  - rewrite fmt_wl. exact (sd_fmt _ _ _ _ HSx).
Qed.

(* ---------- the dispatcher ---------- *)
Lemma in_frag_not_hdr b : in_frag b -> hdr_block b = false.
Proof. destruct b as [n a l|t l]; [|reflexivity]. cbn [in_frag hdr_block]. intros [-> | [-> | [-> | [-> | [-> | [-> | [-> | ->]]]]]]]; reflexivity. Qed.
Lemma Q_same p N rest s s' : KS s' = KS s -> P (KS s) p s' -> Q p N rest s -> Q p N rest s'.
Proof. intros Hk HP' (_ & Hok & Hcnt). unfold KS in Hk. injection Hk as Ht Hl. split; [unfold KS; rewrite Ht, Hl; exact HP'|]. rewrite Hl, Ht. split; assumption. Qed.

Definition grows (l l' : list lox) : Prop :=
  l' = l \/ exists e, l' = l ++ [e] /\ lx_count e = S (List.length l) /\ ((MD <= 1)%nat -> lx_ref e = R "#s" ++ dec (lx_count e)).
Lemma step_fragH pb p N b rest c s : in_fragH b -> Q p N (b :: rest) s ->
  Q p N rest (snd (step pb b (c, s))) /\ grows (lox_toc s) (lox_toc (snd (step pb b (c, s)))).
Proof. intros Hb HQ. destruct Hb as [Hb | [(n & a & l & -> & Hn) | (a & l & -> & Hnm)]].
  - (* not a header: counters and entries untouched *)
    pose proof HQ as (HP & Hok & Hcnt).
    pose proof (step_frag (KS s) BASE MD pb p b c s Hb HP) as HP'.
    destruct (P_toc _ _ _ HP') as [Ht Hl]. cbn [fst snd KS] in Ht, Hl.
    assert (Hk : KS (snd (step pb b (c, s))) = KS s) by (unfold KS; rewrite Ht, Hl; reflexivity).
    rewrite hdr_count_cons, (in_frag_not_hdr b Hb) in Hcnt. cbn [plus] in Hcnt.
    split; [|left; exact Hl].
    split; [rewrite Hk; exact HP'|]. rewrite Hl, Ht. split; assumption.
  - (* a header *)
    unfold step. cbv zeta.
    pose proof HQ as (HP & Hok & Hcnt).
    destruct (P_set_regs (KS s) BASE MD p (BMacro n a l) s HP) as [HP0 Hc0].
    assert (HQ0 : Q p N (BMacro n a l :: rest) (set_regs (BMacro n a l) s)) by (apply (Q_same p N _ s); [reflexivity|exact HP0|exact HQ]).
    set (s0 := set_regs (BMacro n a l) s) in *.
    pose proof HP0 as (HS0 & _).
    rewrite (sd_if _ _ _ _ HS0), (sd_udef _ _ _ _ HS0). cbn [Nat.ltb Nat.leb]. rewrite (sd_inl _ _ _ _ HS0), (sd_um _ _ _ _ HS0). cbn [assoc].
    assert (Ebf : bf_check n s0 = s0) by (unfold bf_check; rewrite (sd_bf _ _ _ _ HS0); reflexivity).
    assert (Ecb : control_builtin pb n = None /\ builtin n = Some (macro_header pim)).
    { unfold is_hdr in Hn. repeat (apply orb_true_iff in Hn as [Hn|Hn]); apply FuelProofs.str_eqb_eq in Hn; subst n; split; reflexivity. }
    destruct Ecb as [-> ->]. cbn [snd]. rewrite Ebf.
    assert (Hmac : macro s0 = n) by reflexivity. assert (Harg : args s0 = a) by reflexivity.
    assert (HQ1 : Q p N rest (macro_header pim s0) /\ grows (lox_toc s) (lox_toc (macro_header pim s0))).
    { destruct p; [destruct (macro_header_pass2 N rest s0 n a l Hn Hmac Harg Hc0 HQ0) as [H1 H2]; split; [exact H1|left; exact H2]|].
      destruct (macro_header_pass1 N rest s0 n a l Hn Hmac Harg Hc0 HQ0) as [H1 H2]. split; [exact H1|exact H2]. }
    destruct HQ1 as [HQ1 Hg].
    clearbody s0. set (s1 := macro_header pim s0) in *. clearbody s1.
    pose proof HQ1 as (HP1 & _).
    assert (Hk : KS (after_handler n s1) = KS s1) by (unfold KS, after_handler; destruct (elided s1); [reflexivity|]; destruct (is_control_name n); reflexivity).
    split; [apply (Q_same p N rest s1); [exact Hk|apply P_after_handler; exact HP1|exact HQ1]|].
    cbn [snd]. injection Hk as _ Hl1. rewrite Hl1. exact Hg.
  - (* a table of contents *)
    unfold step. cbv zeta.
    pose proof HQ as (HP & Hok & Hcnt).
    destruct (P_set_regs (KS s) BASE MD p (BMacro (R "Tc") a l) s HP) as [HP0 Hc0].
    assert (HQ0 : Q p N (BMacro (R "Tc") a l :: rest) (set_regs (BMacro (R "Tc") a l) s)) by (apply (Q_same p N _ s); [reflexivity|exact HP0|exact HQ]).
    set (s0 := set_regs (BMacro (R "Tc") a l) s) in *.
    pose proof HP0 as (HS0 & _).
    rewrite (sd_if _ _ _ _ HS0), (sd_udef _ _ _ _ HS0). cbn [Nat.ltb Nat.leb]. rewrite (sd_inl _ _ _ _ HS0), (sd_um _ _ _ _ HS0). cbn [assoc].
    assert (Ebf : bf_check (R "Tc") s0 = s0) by (unfold bf_check; rewrite (sd_bf _ _ _ _ HS0); reflexivity).
    change (control_builtin pb (R "Tc")) with (@None (cst -> cst)). change (builtin (R "Tc")) with (Some macro_tc). cbn [snd]. rewrite Ebf.
    assert (Harg : args s0 = a) by reflexivity.
    destruct (macro_tc_Q p N rest s0 a l Harg Hnm HQ0) as [HQ1 Hl01]. change (lox_toc s0) with (lox_toc s) in Hl01.
    clearbody s0. set (s1 := macro_tc s0) in *. clearbody s1.
    pose proof HQ1 as (HP1 & _).
    assert (Hk : KS (after_handler (R "Tc") s1) = KS s1) by (unfold KS, after_handler; destruct (elided s1); reflexivity).
    split; [apply (Q_same p N rest s1); [exact Hk|apply P_after_handler; exact HP1|exact HQ1]|].
    left. cbn [snd]. injection Hk as _ Hl1. exact (eq_trans Hl1 Hl01).
Qed.

(* the entries are numbered from 1 in the order of recording and refer to the anchor of their number *)
Definition refs_ok (l : list lox) : Prop := forall i e, nth_error l i = Some e -> lx_count e = S i /\ ((MD <= 1)%nat -> lx_ref e = R "#s" ++ dec (S i)).
Lemma refs_ok_grows l l' : refs_ok l -> grows l l' -> refs_ok l'.
Proof. intros Hr [-> | (e & -> & Hc & Hrf)]; [exact Hr|]. intros i x Hx.
  destruct (Nat.lt_ge_cases i (List.length l)) as [Hlt|Hge].
  - rewrite nth_error_app1 in Hx by exact Hlt. exact (Hr i x Hx).
  - rewrite nth_error_app2 in Hx by exact Hge. destruct (i - List.length l)%nat as [|k] eqn:Ek; [|destruct k; discriminate].
    cbn in Hx. injection Hx as <-. assert (i = List.length l) by lia. subst i. split; [exact Hc|]. intro Hmd. rewrite (Hrf Hmd), Hc. reflexivity. Qed.
Theorem fragH_invariant p N : forall fuel bs cs, Forall in_fragH bs -> Q p N bs (snd cs) -> refs_ok (lox_toc (snd cs)) ->
  Q p N [] (snd (run_blocks (S fuel) bs cs)) /\ refs_ok (lox_toc (snd (run_blocks (S fuel) bs cs))).
Proof. intros f bs cs Hbs. cbn [run_blocks]. revert cs. induction Hbs as [|b rest Hb Hrest IHb]; intros cs HQ Hr; [split; assumption|].
  cbn [walk]. destruct cs as [c s]. destruct (step_fragH (run_blocks f) p N b rest c s Hb HQ) as [H1 Hg].
  rewrite (sd_np _ _ _ _ (proj1 (proj1 H1))). apply IHb; [exact H1|]. cbn [snd] in *.
  apply (refs_ok_grows _ _ Hr Hg). Qed.

(* the table of contents written by Reset on the index page of a multi-file document *)
Lemma write_toc_Q o N rest s : flag "mini" o = false -> Q true N rest s -> Q true N rest (X.write_toc o s) /\ lox_toc (X.write_toc o s) = lox_toc s.
Proof. intros Hmini (HP & Hok & Hcnt). pose proof HP as (HS & Hsb & Hpr & HI). specialize (HI eq_refl).
  destruct (P_toc _ _ _ HP) as [Ht3 Hl3]. cbn [fst snd KS] in Ht3, Hl3.
  assert (Hres : exists c sx, X.write_toc o s = wl c sx /\ sx ~~ s /\ balanced_chunk (flat c)).
  { unfold X.write_toc. pose proof (toc_string_nomini_eqd X.DXhtml o s Hmini) as Ets.
    assert (Hdt : textual (X.param "document-title" s)) by (unfold X.param; rewrite (sd_pa _ _ _ _ HS); apply textual_nil).
    pose proof (fun t sx => toc_string_balanced X.DXhtml o s t sx (sd_fmt _ _ _ _ HS) Hok Hdt) as Hbal.
    destruct (X.toc_string X.DXhtml o s) as [[t|] sx]; cbn [snd] in Ets.
    + exists [t], sx. split; [reflexivity|]. split; [exact Ets|]. change (flat [t]) with (t ++ []). rewrite app_nil_r. apply (Hbal t sx eq_refl).
    + exists [], sx. split; [reflexivity|]. split; [exact Ets|intro; reflexivity]. }
  destruct Hres as (c & sx & -> & Ex & Hbc).
  pose proof (P_eqd _ _ _ _ _ _ Ex HP) as HPx. pose proof HPx as (HSx & Hsbx & Hprx & HIx). specialize (HIx eq_refl).
  assert (Ff : wl c sx ~= s) by (eapply eqf_trans; [apply wl_eqf|apply eqd_eqf; exact Ex]).
  assert (Hk : KS (wl c sx) = KS s) by (unfold KS; rewrite (eqf_get toc _ _ (fun _ => eq_refl) Ff), (eqf_get lox_toc _ _ (fun _ => eq_refl) Ff); reflexivity).
  split; [|exact (eqf_get lox_toc _ _ (fun _ => eq_refl) Ff)].
  split; [rewrite Hk|rewrite (eqf_get lox_toc _ _ (fun _ => eq_refl) Ff), (eqf_get toc _ _ (fun _ => eq_refl) Ff); split; [exact Hok|exact Hcnt]].
  split; [apply (Side_eqf _ _ _ _ _ Ff HS)|]. split; [rewrite (eqf_get sblock _ _ (fun _ => eq_refl) Ff); exact Hsb|].
  split; [rewrite (eqf_get process _ _ (fun _ => eq_refl) Ff); exact Hpr|]. intros _.
  assert (Hbx : par sx = false -> buf sx = []) by (apply HIx).
  apply (Inv_step sx _ (flat c) HIx).
  - apply out_wl. exact Hbx.
  - unfold elems. rewrite view_wl. apply Hbc.
  - apply bufc_wl. exact Hbx.
  - rewrite fmt_wl. exact (sd_fmt _ _ _ _ HSx).
Qed.

(* ---------- the two passes ---------- *)
(* fragment mode (0): nothing around the body; standalone mode (1): the document header leaves <html><body> open, the
   footer written by PostProcessing closes them; multi-file mode (2): the same for the index page and every part or chapter file *)
Definition mode_base : Prop := (MD = 0%nat /\ BASE = []) \/ ((MD = 1%nat \/ MD = 2%nat \/ MD = 3%nat) /\ BASE = [R "body"; R "html"]).
Lemma title_page_default s : params s = default_params -> X.title_page s = s.
Proof. intro Hp. unfold X.title_page. rewrite Hp. reflexivity. Qed.
Lemma run_footer : run X.doc_footer (Txt, [R "body"; R "html"]) = (Txt, []). Proof. vm_compute. reflexivity. Qed.

Definition xhtml_name (f : str) : Prop := f = R "xhtml" \/ f = R "epub".
Lemma Q_start f wd main bs : mode_base -> xhtml_name f -> Q false (hdr_count bs) bs (start_st f MD wd main).
Proof. intros Hmb [-> | ->];
  (split; [|split; [constructor|split; reflexivity]]);
  (split; [split; try reflexivity; [exact markup_ok_nil|split; [reflexivity|exact Hmb]|constructor|intro; reflexivity|constructor]|]);
  (split; [constructor|]); (split; [reflexivity|discriminate]). Qed.

(* the start of pass 2 from any state that has the shape Reset leaves *)
Lemma page_start r : Side (KS r) r -> BASE = [R "body"; R "html"] ->
  sblock r = [] -> process r = true -> wout r = [] -> buf r = [] -> par r = false ->
  P (KS r) true (wo (X.doc_header (X.param "document-title" r) r) r).
Proof. intros HSr Hb Hsb Hpr Hw Hbuf Hpar. set (dh := X.doc_header (X.param "document-title" r) r).
  assert (Hp : params r = default_params) by exact (sd_pa _ _ _ _ HSr).
  assert (Hel : elems r = []) by (unfold elems, view, elems_v; rewrite Hsb, Hpar; reflexivity).
  assert (Hdh : run dh (Txt, []) = (Txt, [R "body"; R "html"])).
  { apply doc_header_run; [exact Hp|]. unfold X.param. rewrite Hp. intro; reflexivity. }
  clearbody dh.
  split; [apply (Side_change _ _ r _ HSr); reflexivity|]. split; [change (sblock (wo dh r)) with (sblock r); rewrite Hsb; constructor|]. split; [exact Hpr|]. intros _.
  split; [|intros _; exact Hbuf|exact (sd_fmt _ _ _ _ HSr)].
  change (out (wo dh r)) with (flat (dh :: wout r) ++ flat (buf r)). change (elems (wo dh r)) with (elems r).
  rewrite Hw, Hbuf, Hel, flat_cons, flat_nil, !app_nil_r, Hb. exact Hdh.
Qed.

(* the index page of an EPUB, started from the state the generator leaves *)
Lemma epub_page bs r g : Side (KS r) r -> eqdf g r -> Forall file_ok (files g) -> BASE = [R "body"; R "html"] -> Forall entry_ok (lox_toc r) ->
  (hcount (toc r) + hdr_count bs)%nat = Datatypes.length (lox_toc r) ->
  sblock r = [] -> process r = true -> wout r = [] -> buf r = [] -> par r = false ->
  let s1 := wo (X.doc_header (X.param "document-title" g) g) (g <| curfile := R "EPUB/index.xhtml" |>) in
  Q true (hdr_count bs) bs s1 /\ lox_toc s1 = lox_toc r /\ params s1 = default_params.
Proof. intros HSr Eg Fg Hb Hok' Hcount Hsb Hpr Hw Hbuf Hpar.
  assert (HSg : Side (KS r) g).
  { apply (Side_change_gen (KS r) (KS r) BASE MD r g HSr); try (match goal with |- ?f g = ?f r => exact (eqdf_get f g r (fun _ => eq_refl) Eg) end);
    [exact (eqdf_get toc _ _ (fun _ => eq_refl) Eg)|exact (eqdf_get lox_toc _ _ (fun _ => eq_refl) Eg)|exact Fg
    |rewrite (eqdf_get navtext _ _ (fun _ => eq_refl) Eg); exact (sd_nav _ _ _ _ HSr)|rewrite (eqdf_get lox_nav _ _ (fun _ => eq_refl) Eg); exact (sd_lnav _ _ _ _ HSr)]. }
  assert (Hkg : KS g = KS r) by (unfold KS; rewrite (eqdf_get toc _ _ (fun _ => eq_refl) Eg), (eqdf_get lox_toc _ _ (fun _ => eq_refl) Eg); reflexivity).
  assert (HSgk : Side (KS g) g) by (rewrite Hkg; exact HSg).
  set (g' := g <| curfile := R "EPUB/index.xhtml" |>).
  assert (HSg' : Side (KS g') g') by (apply (Side_change _ _ g _ HSgk); reflexivity).
  assert (HP : P (KS g') true (wo (X.doc_header (X.param "document-title" g') g') g')).
  { apply (page_start g' HSg' Hb).
    - change (sblock g') with (sblock g). rewrite (eqdf_get sblock _ _ (fun _ => eq_refl) Eg). exact Hsb.
    - change (process g') with (process g). rewrite (eqdf_get process _ _ (fun _ => eq_refl) Eg). exact Hpr.
    - change (wout g') with (wout g). rewrite (eqdf_get wout _ _ (fun _ => eq_refl) Eg). exact Hw.
    - change (buf g') with (buf g). rewrite (eqdf_get buf _ _ (fun _ => eq_refl) Eg). exact Hbuf.
    - change (par g') with (par g). rewrite (eqdf_get par _ _ (fun _ => eq_refl) Eg). exact Hpar. }
  change (X.doc_header (X.param "document-title" g) g) with (X.doc_header (X.param "document-title" g') g').
  set (s1 := wo _ _) in *. clearbody s1. cbv zeta.
  destruct (P_toc _ _ _ HP) as [Ht1 Hl1]. cbn [fst snd KS] in Ht1, Hl1.
  assert (Ht1' : toc s1 = toc r) by (rewrite Ht1; exact (eqdf_get toc g r (fun _ => eq_refl) Eg)).
  assert (Hl1' : lox_toc s1 = lox_toc r) by (rewrite Hl1; exact (eqdf_get lox_toc g r (fun _ => eq_refl) Eg)).
  split; [|split; [exact Hl1'|exact (sd_pa _ _ _ _ (proj1 HP))]].
  split; [apply (P_K_eq _ _ _ _ HP); unfold KS; rewrite Ht1, Hl1; reflexivity|]. rewrite Hl1', Ht1'. split; [exact Hok'|exact Hcount].
Qed.

Lemma Q_reset_gen bs r : Side (KS r) r -> Forall entry_ok (lox_toc r) ->
  (hcount (toc r) + hdr_count bs)%nat = Datatypes.length (lox_toc r) ->
  sblock r = [] -> process r = true -> wout r = [] -> buf r = [] -> par r = false ->
  Q true (hdr_count bs) bs (exp_reset r) /\ lox_toc (exp_reset r) = lox_toc r.
Proof. intros HSr Hok' Hcount Hsb Hpr Hw Hbuf Hpar.
  pose proof (sd_fmt _ _ _ _ HSr) as Hf.
  assert (Hel : elems r = []) by (unfold elems, view, elems_v; rewrite Hsb, Hpar; reflexivity).
  assert (Hp : params r = default_params) by exact (sd_pa _ _ _ _ HSr).
  unfold exp_reset. rewrite Hf.
  destruct (sd_mode _ _ _ _ HSr) as [Hm Hmb]. rewrite Hm.
  destruct Hmb as [[Hmd Hb]|[[Hmd | [Hmd | Hmd]] Hb]]; rewrite Hmd.
  - split; [|reflexivity]. split; [|split; [exact Hok'|exact Hcount]].
    split; [exact HSr|]. split; [rewrite Hsb; constructor|]. split; [exact Hpr|]. intros _.
    split; [unfold out; rewrite Hw, Hbuf, Hel, Hb; reflexivity|intros _; exact Hbuf|exact Hf].
  - pose proof (page_start r HSr Hb Hsb Hpr Hw Hbuf Hpar) as HP.
    rewrite (title_page_default (wo _ r) Hp).
    split; [|reflexivity]. split; [exact HP|split; [exact Hok'|exact Hcount]].
  - set (r' := r <| curfile := R "index.html" |>).
    assert (HSr' : Side (KS r') r') by (apply (Side_change _ _ r _ HSr); reflexivity).
    pose proof (page_start r' HSr' Hb Hsb Hpr Hw Hbuf Hpar) as HP.
    change (X.param "document-title" r) with (X.param "document-title" r').
    rewrite (title_page_default (wo _ r') Hp).
    set (s1 := wo _ _) in *. clearbody s1.
    assert (Hidx : X.param "xhtml-index" s1 = R "full") by (unfold X.param; rewrite (sd_pa _ _ _ _ (proj1 HP)); reflexivity).
    rewrite Hidx. change (str_eqb (R "full") (R "full")) with true. cbv iota.
    destruct (P_toc _ _ _ HP) as [Ht1 Hl1]. cbn [fst snd KS] in Ht1, Hl1.
    assert (HQ1 : Q true (hdr_count bs) bs s1).
    { split; [unfold KS; rewrite Ht1, Hl1; exact HP|]. rewrite Hl1, Ht1. split; [exact Hok'|exact Hcount]. }
    destruct (write_toc_Q (mkPo [] [] []) _ bs s1 eq_refl HQ1) as [HQ2 Hl2]. split; [exact HQ2|]. rewrite Hl2. exact Hl1.
  - destruct (epub_gen_spec _ _ _ r HSr Hok') as [Eg Fg].
    destruct (epub_page bs r (X.epub_gen r) HSr Eg Fg Hb Hok' Hcount Hsb Hpr Hw Hbuf Hpar) as (A & B & C). cbv zeta in A, B, C.
    rewrite (title_page_default _ C). split; [exact A|exact B].
Qed.
Lemma Q_reset N bs s : Q false N [] s -> N = hdr_count bs ->
  Q true N bs (exp_reset (reset s)) /\ lox_toc (exp_reset (reset s)) = lox_toc s.
Proof. intros ((HS & _) & Hok & Hlen & Hcnt) HN.
  assert (Hf : fmt (reset s) = FX) by (unfold fmt; change (format (reset s)) with (format s); exact (sd_fmt _ _ _ _ HS)).
  assert (Hcount : (hcount (toc (reset s)) + hdr_count bs)%nat = Datatypes.length (lox_toc (reset s))).
  { change (lox_toc (reset s)) with (lox_toc s). change (hcount (toc (reset s))) with 0%nat. cbn [plus]. unfold hdr_count in *. cbn [filter List.length] in Hcnt. clear -Hlen Hcnt HN. lia. }
  assert (HSr : Side (KS (reset s)) (reset s)).
  { split; try reflexivity; [exact (sd_mk _ _ _ _ HS)|exact (sd_dt _ _ _ _ HS)|exact Hf|exact (sd_mode _ _ _ _ HS)|exact (sd_pa _ _ _ _ HS)|exact (sd_lof _ _ _ _ HS)|exact (sd_lot _ _ _ _ HS)|exact (sd_lop _ _ _ _ HS)
    |constructor|intro; reflexivity|exact (sd_lnav _ _ _ _ HS)|exact (sd_img _ _ _ _ HS)]. }
  subst N. apply (Q_reset_gen bs (reset s) HSr Hok Hcount); reflexivity.
Qed.

Lemma refs_ok_nil : refs_ok []. Proof. intros [|i] e H; discriminate. Qed.
Theorem C02_headers_balanced fuel f wd main bs : mode_base -> xhtml_name f -> Forall in_fragH bs ->
  let s := snd (compile (S fuel) f MD wd main bs) in
  panicked s = None /\
  run (flat (wout s)) (Txt, []) = (Txt, []) /\ In (curfile s, flat (wout s)) (files s) /\ Forall file_ok (files s) /\
  Forall entry_ok (lox_toc s) /\ refs_ok (lox_toc s).
Proof. intros Hmb Hfn Hbs. unfold compile.
  pose proof (fragH_invariant false (hdr_count bs) fuel bs (start_ctl wd main, start_st f MD wd main) Hbs (Q_start f wd main bs Hmb Hfn) refs_ok_nil) as [H1 R1].
  destruct (run_blocks (S fuel) bs (start_ctl wd main, start_st f MD wd main)) as [c1 s1]. cbn [snd] in H1, R1.
  rewrite (sd_np _ _ _ _ (proj1 (proj1 H1))).
  destruct (Q_reset _ bs s1 H1 eq_refl) as [HQ2 Elr].
  assert (R1' : refs_ok (lox_toc (snd (set_budget 0 false c1, exp_reset (reset s1))))) by (cbn [snd]; rewrite Elr; exact R1).
  destruct (fragH_invariant true (hdr_count bs) fuel bs (set_budget 0 false c1, exp_reset (reset s1)) Hbs HQ2 R1') as [H2' R2].
  clear R1' Elr HQ2.
  destruct (run_blocks (S fuel) bs (set_budget 0 false c1, exp_reset (reset s1))) as [c2 s2]. cbn [snd] in H2', R2.
  destruct H2' as (H2 & Hok2 & _).
  rewrite (sd_np _ _ _ _ (proj1 H2)).
  destruct (eof_sweep_P _ _ _ s2 H2) as (HS & HI & Hp & Hsb). cbv zeta in HS, HI, Hp, Hsb. set (s7 := eof_sweep s2) in *. clearbody s7.
  assert (El7 : lox_toc s7 = lox_toc s2) by exact (sd_lox _ _ _ _ HS).
  assert (A7 : run (flat (wout s7)) (Txt, []) = (Txt, BASE)).
  { destruct HI as [A B C]. unfold out in A. rewrite (B Hp), flat_nil, app_nil_r, (elems_closed _ Hsb Hp) in A. exact A. }
  (* what PostProcessing appends closes the page *)
  assert (Hpost : exists x, wout (exp_post s7) = x ++ wout s7 /\ run (flat x) (Txt, BASE) = (Txt, []) /\
                   files (exp_post s7) = files s7 /\ curfile (exp_post s7) = curfile s7 /\ lox_toc (exp_post s7) = lox_toc s7 /\ panicked (exp_post s7) = panicked s7).
  { unfold exp_post. rewrite (sd_fmt _ _ _ _ HS). destruct (sd_mode _ _ _ _ HS) as [Hm Hb]. rewrite Hm.
    destruct Hb as [[Hmd Hb]|[[Hmd | [Hmd | Hmd]] Hb]]; rewrite Hmd; [| |
      |exists [X.doc_footer]; rewrite Hb; repeat split; reflexivity].
    - exists []. rewrite Hb. repeat split; reflexivity.
    - exists [X.doc_footer]. rewrite Hb. repeat split; reflexivity.
    - pose proof (sd_nav _ _ _ _ HS) as Hnav. destruct (navtext s7) as [|c0 n0] eqn:En.
      + exists [X.doc_footer]. rewrite Hb. repeat split; reflexivity.
      + exists [X.doc_footer; c0 :: n0]. rewrite Hb. split; [reflexivity|]. split; [|repeat split; reflexivity].
        change (flat [X.doc_footer; c0 :: n0]) with ((c0 :: n0) ++ (X.doc_footer ++ [])). rewrite app_nil_r, run_app, Hnav. exact run_footer. }
  destruct Hpost as (x & Hw8 & Hx & Hf8 & Hc8 & Hl8 & Hp8). set (s8 := exp_post s7) in *. clearbody s8.
  cbn [snd]. change (wout (s8 <| files ::= fun l => l ++ [(curfile s8, flat (wout s8))] |>)) with (wout s8).
  change (lox_toc (s8 <| files ::= fun l => l ++ [(curfile s8, flat (wout s8))] |>)) with (lox_toc s8).
  change (panicked (s8 <| files ::= fun l => l ++ [(curfile s8, flat (wout s8))] |>)) with (panicked s8).
  change (files (s8 <| files ::= fun l => l ++ [(curfile s8, flat (wout s8))] |>)) with (files s8 ++ [(curfile s8, flat (wout s8))]).
  change (curfile (s8 <| files ::= fun l => l ++ [(curfile s8, flat (wout s8))] |>)) with (curfile s8).
  assert (A8 : run (flat (wout s8)) (Txt, []) = (Txt, [])) by (rewrite Hw8, flat_app, run_app, A7; exact Hx).
  rewrite Hp8, Hl8, El7.
  split; [exact (sd_np _ _ _ _ HS)|]. split; [exact A8|]. split; [apply in_or_app; right; left; reflexivity|].
  split; [|split; [exact Hok2|exact R2]].
  rewrite Hf8. apply Forall_app. split; [exact (sd_files _ _ _ _ HS)|]. constructor; [exact A8|constructor].
Qed.
End WithBase.

(* the output modes the theorem covers: every file written (the one current at the end included) is balanced *)
Theorem C02_headers_balanced_modes fuel f md wd main bs : xhtml_name f -> (md <= 3)%nat -> Forall in_fragH bs ->
  let s := snd (compile (S fuel) f md wd main bs) in
  panicked s = None /\ run (flat (wout s)) (Txt, []) = (Txt, []) /\ In (curfile s, flat (wout s)) (files s) /\ Forall file_ok (files s) /\
  Forall entry_ok (lox_toc s) /\ refs_ok md (lox_toc s).
Proof. intros Hf Hmd. destruct md as [|[|[|[|m]]]]; [| | | |exfalso; clear -Hmd; lia].
  - apply (C02_headers_balanced [] 0 fuel); [|exact Hf]. left. split; reflexivity.
  - apply (C02_headers_balanced [R "body"; R "html"] 1 fuel); [|exact Hf]. right. split; [left|]; reflexivity.
  - apply (C02_headers_balanced [R "body"; R "html"] 2 fuel); [|exact Hf]. right. split; [right; left|]; reflexivity.
  - apply (C02_headers_balanced [R "body"; R "html"] 3 fuel); [|exact Hf]. right. split; [right; right|]; reflexivity.
Qed.
Print Assumptions C02_headers_balanced_modes.

(* non-vacuity and agreement with computation on a concrete document *)
Definition ex_src := runes "a & b
.Ch First <chapter>
.Bd
.Bm
c <d>
.Sh -nonum A Bm section Em title
.Bd -id x
nested
.Em !
.P A <title> Bm with Em markup
new paragraph
.Sm strong <t> .
.Ed
said so, see
.Lk http://example.org/a?b=c&d ""the <site>"" .
.Lk http://example.org/x
.Ch
.Tc
.Tc -summary -title Contents -nonum
e
.Bm
left open
".
Definition ex_world := mkWorld [] [(R "m.frundis", ex_src)] [] false [].
Example headers_example :
  Forall in_fragH (fst (parse ex_src)) /\
  (let s := compile_source (R "xhtml") 0 ex_world (R "m.frundis") in
   panicked s = None /\ flat (wout s) = runes "<p>a &amp; b</p>
<h1 class=""Ch"" id=""s1"">1 First &lt;chapter&gt;</h1>
<div>
<p><em>c &lt;d&gt;</em></p>
</div>
<h2 class=""Sh"" id=""s2"">A <em>section</em>title</h2>
<div id=""x"">
<p>nested</p>
<p class=""paragraph""><strong class=""paragraph"">A &lt;title&gt; <em>with</em>markup</strong>
new paragraph
<em>strong &lt;t&gt;</em>.</p>
</div>
<p>said so, see
<a href=""http://example.org/a?b=c&amp;d"">the &lt;site&gt;</a>.
<a href=""http://example.org/x"">http://example.org/x</a></p>
<div class=""toc"">
  <ul>
    <li><a href=""#s1"">1. First &lt;chapter&gt;</a>
    <ul>
      <li><a href=""#s2"">A <em>section</em>title</a>
      </li>
    </ul></li>
  </ul>
</div>
<div class=""toc"">
  <h2 id=""toc-title"" class=""toc-title"">Contents</h2>
  <ul>
    <li><a href=""#s1"">First &lt;chapter&gt;</a>
    </li>
  </ul>
</div>
<p>e
<em>left open</em></p>
").
Proof. split; [|vm_compute; split; reflexivity].
  vm_compute.
  repeat (apply Forall_cons; [first [left; first [exact I | left; reflexivity | right; left; reflexivity | right; right; left; reflexivity | right; right; right; left; reflexivity
    | right; right; right; right; left; reflexivity | right; right; right; right; right; left; reflexivity | right; right; right; right; right; right; left; reflexivity | right; right; right; right; right; right; right; reflexivity] | right; left; eexists _, _, _; split; reflexivity | right; right; eexists _, _; split; reflexivity]|]). apply Forall_nil. Qed.

(* the same document as a complete page: the header opens html and body, the footer closes them *)
Example standalone_example :
  let s := compile_source (R "xhtml") 1 ex_world (R "m.frundis") in
  panicked s = None /\ run (flat (wout s)) (Txt, []) = (Txt, []) /\
  skipn (List.length (flat (wout s)) - List.length X.doc_footer) (flat (wout s)) = X.doc_footer.
Proof. vm_compute. repeat split; reflexivity. Qed.
(* and as one file per chapter *)
Example multifile_example :
  let s := compile_source (R "xhtml") 2 ex_world (R "m.frundis") in
  panicked s = None /\ map fst (files s) = [R "index.html"; R "body-0-01.html"] /\
  map (fun f => run (snd f) (Txt, [])) (files s) = [(Txt, []); (Txt, [])].
Proof. vm_compute. repeat split; reflexivity. Qed.
(* and as an EPUB: the generated package files, the index page and one page per chapter *)
Example epub_example :
  let s := compile_source (R "epub") 3 ex_world (R "m.frundis") in
  panicked s = None /\
  map fst (files s) = [R "mimetype"; R "META-INF/container.xml"; R "EPUB/content.opf"; R "EPUB/nav.xhtml"; R "EPUB/stylesheet.css"; R "EPUB/toc.ncx";
                       R "EPUB/index.xhtml"; R "EPUB/body-0-01.xhtml"] /\
  forallb (fun f => match run (snd f) (Txt, []) with (Txt, []) => true | _ => false end) (files s) = true.
Proof. vm_compute. repeat split; reflexivity. Qed.
