(* C08: argsSubstText against the manual's rules.  When every argument a body refers to exists, substitution is the
   inline-by-inline replacement [subst1] - \$N by the N-th argument, \$[name] by the named argument, \$?[flag] by 1 or
   nothing, \$@ by the remaining arguments joined by blanks, everything else unchanged - it reports nothing and leaves
   the state alone; in particular a text without argument escapes is unchanged. *)
From Coq Require Import List NArith Bool Lia Arith String.
Import ListNotations.
Require Import Xhtml Exp Proc1 Proc2 Proc3.
Open Scope N_scope.

Definition subst1 (argsc : nat) (a : list arg) (opts : list (str * arg)) (flags : list str) (i : inline) : list inline :=
  match i with
  | IArg n => nth (N.to_nat n - 1) a []
  | INamed v => match assoc v opts with Some x => x | None => [] end
  | IFlag v => [IText (if existsb (str_eqb v) flags then [49] else [])]
  | IEsc e => if str_eqb e [36; 64] then
                let rest := skipn (Nat.min (List.length a) argsc) a in
                List.concat (match rest with [] => [] | x :: r => x :: map (fun y => IText [32] :: y) r end)
              else [i]
  | _ => [i]
  end.
Definition arg_defined (a : list arg) (opts : list (str * arg)) (i : inline) : bool :=
  match i with
  | IArg n => let k := N.to_nat n in negb (Nat.ltb (List.length a) k || Nat.eqb k 0)
  | INamed v => match assoc v opts with Some _ => true | None => false end
  | _ => true
  end.

Lemma subst_fold argsc a opts flags t : forall res s, forallb (arg_defined a opts) t = true ->
  fold_left (fun '(res, s) i =>
    match i with
    | IArg n => let k := N.to_nat n in
                if Nat.ltb (List.length a) k || Nat.eqb k 0 then
                  (res ++ [IText (R "\$" ++ dec k)], if process s then err "missing argument" s else s)
                else (res ++ nth (k - 1) a [], s)
    | INamed v => match assoc v opts with
                  | Some x => (res ++ x, s)
                  | None => (res, if process s then err "missing named argument" s else s) end
    | IFlag v => (res ++ [IText (if existsb (str_eqb v) flags then [49] else [])], s)
    | IEsc e => if str_eqb e [36; 64] then
                  let rest := skipn (Nat.min (List.length a) argsc) a in
                  (res ++ List.concat (match rest with [] => [] | x :: r => x :: map (fun y => IText [32] :: y) r end), s)
                else (res ++ [i], s)
    | _ => (res ++ [i], s)
    end) t (res, s) = (res ++ flat_map (subst1 argsc a opts flags) t, s).
Proof. induction t as [|i r IH]; intros res s H; [cbn; rewrite app_nil_r; reflexivity|].
  cbn [forallb] in H. apply andb_true_iff in H as [Hi Hr]. cbn [fold_left flat_map].
  destruct i as [x|e|v|n|v|v]; cbn [arg_defined subst1] in *; try (rewrite (IH _ _ Hr), <- app_assoc; reflexivity).
  - destruct (str_eqb e [36; 64]); rewrite (IH _ _ Hr), <- app_assoc; reflexivity.
  - cbv zeta in Hi. destruct (Nat.ltb (List.length a) (N.to_nat n) || Nat.eqb (N.to_nat n) 0); [discriminate Hi|]. cbv zeta. rewrite (IH _ _ Hr), <- app_assoc. reflexivity.
  - destruct (assoc v opts); [|discriminate Hi]. rewrite (IH _ _ Hr), <- app_assoc. reflexivity.
Qed.
Theorem subst_text_spec argsc a opts flags t s : forallb (arg_defined a opts) t = true ->
  subst_text argsc a opts flags t s = (flat_map (subst1 argsc a opts flags) t, s).
Proof. intro H. unfold subst_text. exact (subst_fold argsc a opts flags t [] s H). Qed.

(* a text that refers to no argument is left as it is *)
Definition plain (i : inline) : bool := match i with IText _ | IVar _ => true | IEsc e => negb (str_eqb e [36; 64]) | _ => false end.
Theorem subst_text_plain argsc a opts flags t s : forallb plain t = true -> subst_text argsc a opts flags t s = (t, s).
Proof. intro H. rewrite subst_text_spec.
  - f_equal. induction t as [|i r IH]; [reflexivity|]. cbn [forallb] in H. apply andb_true_iff in H as [Hi Hr]. cbn [flat_map]. rewrite (IH Hr).
    destruct i; cbn [plain subst1] in *; try discriminate Hi; try reflexivity. destruct (str_eqb s0 [36; 64]); [discriminate Hi|reflexivity].
  - induction t as [|i r IH]; [reflexivity|]. cbn [forallb] in *. apply andb_true_iff in H as [Hi Hr]. rewrite (IH Hr), andb_true_r.
    destruct i; cbn [plain arg_defined] in *; try discriminate Hi; reflexivity.
Qed.
(* substitution distributes over concatenation *)
Theorem subst_text_app argsc a opts flags t1 t2 s : forallb (arg_defined a opts) (t1 ++ t2) = true ->
  fst (subst_text argsc a opts flags (t1 ++ t2) s) = fst (subst_text argsc a opts flags t1 s) ++ fst (subst_text argsc a opts flags t2 s).
Proof. intro H. rewrite forallb_app in H. apply andb_true_iff in H as [H1 H2].
  rewrite !subst_text_spec by (try rewrite forallb_app, H1, H2; auto). cbn [fst]. apply flat_map_app. Qed.
Print Assumptions subst_text_spec.
