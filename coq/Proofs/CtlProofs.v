(* Frame facts about the control state that hold by the typing of Model/Ctl.v and Model/Loop.v:
   who can start a process (C13), and that -x is never changed. *)
From Coq Require Import List NArith ZArith Bool Lia Arith String.
Import ListNotations.
Require Import Exp Proc1 Proc2 Proc3 Ctl Loop.

(* c' comes from c without starting a process when -x is off, and with -x unchanged *)
Definition quiet_ctl (c c' : ctl) : Prop :=
  unrestricted c' = unrestricted c /\ (unrestricted c = false -> execs c' = execs c).
Lemma quiet_refl c : quiet_ctl c c. Proof. split; auto. Qed.
Lemma quiet_trans a b c : quiet_ctl a b -> quiet_ctl b c -> quiet_ctl a c.
Proof. intros [H1 H2] [H3 H4]. split; [congruence|]. intros H. rewrite H4 by congruence. auto. Qed.
Lemma quiet_budget n x c : quiet_ctl c (set_budget n x c). Proof. split; reflexivity. Qed.
Lemma quiet_incstack l c : quiet_ctl c (set_incstack l c). Proof. split; reflexivity. Qed.
Lemma quiet_cdepth d c : quiet_ctl c (set_cdepth d c). Proof. split; reflexivity. Qed.

Lemma shell_filter_quiet cmd text c s : quiet_ctl c (fst (snd (shell_filter cmd text (c, s)))).
Proof.
  unfold shell_filter. destruct (unrestricted c) eqn:E; cbn [negb].
  - destruct (run_cmd cmd text); cbn; split; cbn; congruence.
  - cbn. apply quiet_refl.
Qed.
Lemma apply_filter_quiet tag text c s r : apply_filter tag text (c, s) = Some r -> quiet_ctl c (fst (snd r)).
Proof.
  unfold apply_filter. destruct (str_eqb tag _).
  - intros H. inversion H. cbn. apply quiet_refl.
  - cbn [snd]. destruct (assoc tag (filters s)) as [[pairs|cmd]|]; intros H; inversion H; cbn [fst snd].
    + apply quiet_refl.
    + apply shell_filter_quiet.
Qed.

Lemma macro_run_quiet c s : quiet_ctl c (fst (macro_run (c, s))).
Proof.
  unfold macro_run. destruct (process s); cbn [negb]; [|apply quiet_refl].
  destruct (unrestricted c) eqn:E; cbn [negb]; [|apply quiet_refl].
  destruct (parse_opts specOptRun (args s) s) as [o s1].
  match goal with |- context [fold_left ?f (po_args o) ([], s1)] => destruct (fold_left f (po_args o) ([], s1)) as [sargs s2] end.
  destruct sargs; [apply quiet_refl|].
  destruct (run_cmd _ _); cbn; split; cbn; congruence.
Qed.

Ltac dif := match goal with |- context [if ?x then _ else _] => destruct x end.
Lemma macro_ef_quiet c s : quiet_ctl c (fst (macro_ef (c, s))).
Proof.
  unfold macro_ef. destruct (process s); cbn [negb]; [|apply quiet_refl].
  destruct (parse_opts specOptEf (args s) s) as [o s1].
  destruct (bf (useless o s1)) as [b|]; [|apply quiet_refl].
  destruct (bf_ignore b); [apply quiet_refl|].
  destruct (bf_tag b) as [|t0 tr] eqn:Et.
  - cbn. repeat dif; apply quiet_refl.
  - destruct (apply_filter (t0 :: tr) (raw (useless o s1)) (c, useless o s1)) as [[t [c' s']]|] eqn:Ea.
    + apply apply_filter_quiet in Ea. cbn [fst snd] in *. repeat dif; exact Ea.
    + cbn. repeat dif; apply quiet_refl.
Qed.

Lemma macro_ft_quiet c s : quiet_ctl c (fst (macro_ft (c, s))).
Proof.
  unfold macro_ft. destruct (process s); cbn [negb]; [|apply quiet_refl].
  destruct (parse_opts specOptFt (args s) s) as [o s1].
  destruct (match opt "f" o with Some f => _ | None => (false, s1) end) as [skip s2].
  destruct skip; [apply quiet_refl|].
  destruct (opt "f" o) as [f|], (opt "t" o) as [tg|]; try apply quiet_refl.
  all: try (destruct (args_text (po_args o) _) as [x s']; apply quiet_refl).
  all: destruct (inlines_text tg _) as [tag s'];
       (destruct (has_filter tag s');
        [ destruct (args_text (po_args o) s') as [x s''];
          destruct (apply_filter tag x (c, s'')) as [[t [c' s3]]|] eqn:Ea; [apply apply_filter_quiet in Ea; exact Ea | apply quiet_refl]
        | destruct (render_args (po_args o) _) as [y s'']; apply quiet_refl ]).
Qed.

(* the loop: if the recursive entry is quiet, so is one step; hence every run *)
Definition quiet_pb (pb : list block -> cst -> cst) : Prop := forall bs c s, quiet_ctl c (fst (pb bs (c, s))).

Lemma macro_include_quiet pb c s : quiet_pb pb -> quiet_ctl c (fst (macro_include pb (c, s))).
Proof.
  intros Hpb. unfold macro_include.
  destruct (parse_opts specOptIncludeFile (args s) s) as [o s1].
  destruct (match opt "f" o with Some f => _ | None => (false, s1) end) as [skip s2].
  destruct skip; [apply quiet_refl|].
  destruct (po_args o) as [|a0 ar]; [apply quiet_refl|].
  destruct (inlines_text a0 s2) as [name s3].
  destruct (flag "as-is" o).
  - destruct (process s3); cbn [negb]; [|apply quiet_refl].
    destruct (fs_get name c); [|apply quiet_refl].
    destruct (opt "t" o) as [tg|]; [|apply quiet_refl].
    destruct (inlines_text tg _) as [tag s'].
    destruct (apply_filter tag s0 (c, s')) as [[t [c' s5]]|] eqn:Ea; [apply apply_filter_quiet in Ea; exact Ea | apply quiet_refl].
  - destruct (search_inc_file name c) as [path found].
    destruct found; cbn [negb]; [|apply quiet_refl].
    destruct (existsb _ (incstack c)); [apply quiet_refl|].
    destruct (fs_get path c); [|apply quiet_refl].
    destruct (parse s0) as [bs e]. destruct e; [apply quiet_refl|].
    match goal with |- context [pb bs (?c0, ?s0)] => pose proof (Hpb bs c0 s0) as H; destruct (pb bs (c0, s0)) as [c5 s5] end.
    cbn [fst] in *. eapply quiet_trans; [apply quiet_incstack|]. eapply quiet_trans; [exact H|]. apply quiet_incstack.
Qed.

Lemma user_macro_quiet pb m n l c s : quiet_pb pb -> quiet_ctl c (fst (user_macro pb m n l (c, s))).
Proof.
  intros Hpb. unfold user_macro.
  destruct (Nat.ltb 42 (cdepth c)); [apply quiet_refl|].
  destruct (Nat.leb max_macro_expansions (xcount c)); [apply quiet_budget|].
  destruct (Nat.ltb max_macro_args_size _); [apply quiet_budget|].
  destruct (parse_opts (um_opts m) _ _) as [o sa].
  destruct (if Nat.ltb 0 (um_argsc m) || um_list m || _ then _ else _) as [blocks sd].
  match goal with |- context [pb blocks (?c0, ?s0)] => pose proof (Hpb blocks c0 s0) as H; destruct (pb blocks (c0, s0)) as [cf sf] end.
  cbn [fst] in H.
  assert (Hg : quiet_ctl c (set_cdepth (Nat.pred (cdepth cf)) cf)).
  { eapply quiet_trans; [apply quiet_budget|]. eapply quiet_trans; [apply quiet_cdepth|]. eapply quiet_trans; [exact H|]. apply quiet_cdepth. }
  dif; cbn [fst]; [eapply quiet_trans; [exact Hg| apply quiet_budget] | exact Hg].
Qed.

Lemma step_quiet pb b c s : quiet_pb pb -> quiet_ctl c (fst (step pb b (c, s))).
Proof.
  intros Hpb. unfold step.
  destruct (Nat.ltb 0 (ifdepth (set_regs b s))); [apply quiet_refl|].
  destruct (udef (set_regs b s)); [apply quiet_refl|].
  destruct b as [n a l|t l]; [|apply quiet_refl].
  destruct (if inl _ then None else assoc n _) as [m|]; [apply user_macro_quiet; exact Hpb|].
  unfold control_builtin.
  destruct (is_name n "Ef").
  { pose proof (macro_ef_quiet c (bf_check n (set_regs (BMacro n a l) s))) as H. destruct (macro_ef _) as [c1 s1]. exact H. }
  destruct (is_name n "Ft").
  { pose proof (macro_ft_quiet c (bf_check n (set_regs (BMacro n a l) s))) as H. destruct (macro_ft _) as [c1 s1]. exact H. }
  destruct (is_name n "If").
  { pose proof (macro_include_quiet pb c (bf_check n (set_regs (BMacro n a l) s)) Hpb) as H. destruct (macro_include _ _) as [c1 s1]. exact H. }
  destruct (is_name n "#run").
  { pose proof (macro_run_quiet c (bf_check n (set_regs (BMacro n a l) s))) as H. destruct (macro_run _) as [c1 s1]. exact H. }
  destruct (builtin n); apply quiet_refl.
Qed.

Lemma walk_quiet pb : quiet_pb pb -> quiet_pb (walk pb).
Proof.
  intros Hpb bs. induction bs as [|b rest IH]; intros c s; [apply quiet_refl|].
  cbn [walk]. pose proof (step_quiet pb b c s Hpb) as H. destruct (step pb b (c, s)) as [c1 s1]. cbn [fst snd] in *.
  destruct (panicked s1); [exact H|]. eapply quiet_trans; [exact H| apply IH].
Qed.
Theorem run_blocks_quiet : forall d, quiet_pb (run_blocks d).
Proof. induction d as [|d IH]; [intros bs c s; apply quiet_refl | cbn [run_blocks]; apply walk_quiet; exact IH]. Qed.

Lemma compile_quiet fuel fmtname md wd main bs :
  quiet_ctl (start_ctl wd main) (fst (compile fuel fmtname md wd main bs)).
Proof.
  unfold compile.
  pose proof (run_blocks_quiet fuel bs (start_ctl wd main) (start_st fmtname md wd main)) as H1.
  destruct (run_blocks fuel bs (start_ctl wd main, start_st fmtname md wd main)) as [c1 s1]. cbn [fst] in H1.
  destruct (panicked s1); [exact H1|].
  pose proof (run_blocks_quiet fuel bs (set_budget 0 false c1) (exp_reset (reset s1))) as H2.
  destruct (run_blocks fuel bs (set_budget 0 false c1, exp_reset (reset s1))) as [c2 s2]. cbn [fst] in H2.
  assert (H : quiet_ctl (start_ctl wd main) c2).
  { eapply quiet_trans; [exact H1|]. eapply quiet_trans; [apply quiet_budget| exact H2]. }
  destruct (panicked s2); exact H.
Qed.

(* C13, dynamic part: without -x the log of commands started is empty at the end of every compilation *)
Theorem no_command_without_x : forall fmtname md wd main,
  w_unrestricted wd = false -> commands_started fmtname md wd main = [].
Proof.
  intros fmtname md wd main Hx. unfold commands_started, compile_source_c.
  destruct (assoc main (w_fs wd)) as [src|]; [|reflexivity].
  destruct (parse src) as [bs e]. destruct e; [reflexivity|].
  destruct (compile_quiet (nesting_fuel wd) fmtname md wd main bs) as [_ H].
  rewrite H by exact Hx. reflexivity.
Qed.
(* and -x itself is never changed by a document *)
Theorem unrestricted_constant : forall d bs c s, unrestricted (fst (run_blocks d bs (c, s))) = unrestricted c.
Proof. intros. apply run_blocks_quiet. Qed.
Print Assumptions no_command_without_x.
