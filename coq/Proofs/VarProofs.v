(* C10: variable interpolation. *)
From Coq Require Import List NArith Bool Lia Arith String.
Import ListNotations.
Require Import Exp Proc1 Proc2 Proc3 Eqd.
Require FuelProofs.
Open Scope N_scope.

(* a use yields exactly the stored value, as a string: no inline is ever created from a value, it is never re-scanned *)
Theorem use_is_value x v r s : assoc x (ivars s) = Some v ->
  inlines_text (IVar x :: r) s = (v ++ fst (inlines_text r s), snd (inlines_text r s)).
Proof. intro H. cbn [inlines_text inline_text]. rewrite H. destruct (inlines_text r s). reflexivity. Qed.
(* hence, wherever text is taken from inlines, a use behaves like the literal value *)
Theorem use_is_literal x v r s : assoc x (ivars s) = Some v -> inlines_text (IVar x :: r) s = inlines_text (IText v :: r) s.
Proof. intro H. cbn [inlines_text inline_text]. rewrite H. reflexivity. Qed.
(* rendered (outside automatic typography), the value is escaped like literal text *)
Theorem rendered_use_is_escaped_value x v s : assoc x (ivars s) = Some v ->
  str_eqb (lang s) (R "fr") = false -> str_eqb (lang s) (R "en") = false ->
  render_text [IVar x] s = (escape_fn s v, s).
Proof. intros H Hf He. unfold render_text. rewrite Hf, He. cbn [inlines_text inline_text]. rewrite H, app_nil_r. reflexivity. Qed.
Theorem rendered_use_is_rendered_literal x v r s : assoc x (ivars s) = Some v ->
  str_eqb (lang s) (R "fr") = false -> str_eqb (lang s) (R "en") = false ->
  render_text (IVar x :: r) s = render_text (IText v :: r) s.
Proof. intros H Hf He. unfold render_text. rewrite Hf, He. cbn [inlines_text inline_text]. rewrite H. reflexivity. Qed.

(* assignment: the value is the texts of the arguments joined by single spaces; the latest assignment wins *)
Fixpoint texts (l : list arg) (s : st) : list str :=
  match l with [] => [] | a :: r => fst (inlines_text a s) :: texts r (snd (inlines_text a s)) end.
Lemma args_text_join l : forall s, l <> [] -> fst (args_text l s) = join_with [32] (texts l s).
Proof.
  induction l as [|a r IH]; intros s Hne; [congruence|]. destruct r as [|b r'].
  - cbn. reflexivity.
  - change (args_text (a :: b :: r') s) with (let '(x, s1) := inlines_text a s in let '(y, s2) := args_text (b :: r') s1 in (x ++ [32] ++ y, s2)).
    cbn [texts]. destruct (inlines_text a s) as [x s1]. cbn [fst snd].
    specialize (IH s1 ltac:(discriminate)). destruct (args_text (b :: r') s1) as [y s2]. cbn [fst] in *. rewrite IH.
    cbn [texts join_with]. destruct (texts r' _); reflexivity.
Qed.
(* after an executed #dv (no -f restriction), a lookup of the name gives the joined value *)
Theorem assigned_value s o s1 n vals name s3 :
  parse_opts specOptDef (args s) s = (o, s1) -> po_args o = n :: vals -> opt "f" o = None ->
  inlines_text n s1 = (name, s3) ->
  assoc name (ivars (macro_def_var s)) = Some (fst (args_text vals s3)).
Proof.
  intros Ho Ha Hf Hn. unfold macro_def_var. rewrite Ho, Ha, Hf, Hn.
  destruct (args_text vals s3) as [v s4]. cbn [fst].
  change (ivars (s4 <| ivars ::= assoc_set name v |>)) with (assoc_set name v (ivars s4)).
  unfold assoc_set. cbn [assoc]. rewrite FuelProofs.str_eqb_refl. reflexivity.
Qed.
Print Assumptions use_is_value.
Print Assumptions assigned_value.
