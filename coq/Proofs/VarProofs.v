(* C10: variable interpolation. *)
From Coq Require Import List NArith Bool Lia Arith String.
Import ListNotations.
Require Import Exp Proc1 Proc2 Proc3 Eqd.
Require FuelProofs.
Open Scope N_scope.

(* a use yields exactly the stored value, as a string: no inline is ever created from a value, it is never re-scanned *)
Theorem use_is_value x v r s : assoc x (ivars s) = Some v ->
  inlines_text (IVar x :: r) s = (v ++ fst (inlines_text r s), snd (inlines_text r s)).
Proof. intro H. cbn [inlines_text inline_text]. rewrite H. destruct (inlines_text r s). reflexivity. Qed.
(* hence, wherever text is taken from inlines, a use behaves like the literal value *)
Theorem use_is_literal x v r s : assoc x (ivars s) = Some v -> inlines_text (IVar x :: r) s = inlines_text (IText v :: r) s.
Proof. intro H. cbn [inlines_text inline_text]. rewrite H. reflexivity. Qed.
(* rendered (outside automatic typography), the value is escaped like literal text *)
Theorem rendered_use_is_escaped_value x v s : assoc x (ivars s) = Some v ->
  str_eqb (lang s) (R "fr") = false -> str_eqb (lang s) (R "en") = false ->
  render_text [IVar x] s = (escape_fn s v, s).
Proof. intros H Hf He. unfold render_text. rewrite Hf, He. cbn [inlines_text inline_text]. rewrite H, app_nil_r. reflexivity. Qed.
Theorem rendered_use_is_rendered_literal x v r s : assoc x (ivars s) = Some v ->
  str_eqb (lang s) (R "fr") = false -> str_eqb (lang s) (R "en") = false ->
  render_text (IVar x :: r) s = render_text (IText v :: r) s.
Proof. intros H Hf He. unfold render_text. rewrite Hf, He. cbn [inlines_text inline_text]. rewrite H. reflexivity. Qed.

(* assignment: the value is the texts of the arguments joined by single spaces; the latest assignment wins *)
Fixpoint texts (l : list arg) (s : st) : list str :=
  match l with [] => [] | a :: r => fst (inlines_text a s) :: texts r (snd (inlines_text a s)) end.
Lemma args_text_join l : forall s, l <> [] -> fst (args_text l s) = join_with [32] (texts l s).
Proof.
  induction l as [|a r IH]; intros s Hne; [congruence|]. destruct r as [|b r'].
  - cbn. reflexivity.
  - change (args_text (a :: b :: r') s) with (let '(x, s1) := inlines_text a s in let '(y, s2) := args_text (b :: r') s1 in (x ++ [32] ++ y, s2)).
    cbn [texts]. destruct (inlines_text a s) as [x s1]. cbn [fst snd].
    specialize (IH s1 ltac:(discriminate)). destruct (args_text (b :: r') s1) as [y s2]. cbn [fst] in *. rewrite IH.
    cbn [texts join_with]. destruct (texts r' _); reflexivity.
Qed.
(* after an executed #dv (no -f restriction), a lookup of the name gives the joined value *)
Theorem assigned_value s o s1 n vals name s3 :
  parse_opts specOptDef (args s) s = (o, s1) -> po_args o = n :: vals -> opt "f" o = None ->
  inlines_text n s1 = (name, s3) ->
  assoc name (ivars (macro_def_var s)) = Some (fst (args_text vals s3)).
Proof.
  intros Ho Ha Hf Hn. unfold macro_def_var. rewrite Ho, Ha, Hf, Hn.
  destruct (args_text vals s3) as [v s4]. cbn [fst].
  change (ivars (s4 <| ivars ::= assoc_set name v |>)) with (assoc_set name v (ivars s4)).
  unfold assoc_set. cbn [assoc]. rewrite FuelProofs.str_eqb_refl. reflexivity.
Qed.
Print Assumptions use_is_value.
Print Assumptions assigned_value.

(* ---- the assignment line: whatever its arguments, it changes the variable table and the log, nothing else; a name
   other than the assigned one keeps its value; an assignment restricted to other formats changes nothing but the log ---- *)
Require Import Eqd.
Lemma eqd_set_ivars a b f : a ~~ b -> a <| ivars ::= f |> ~~ b <| ivars ::= f |>.
Proof. unfold eqd. intro H. transitivity (nd a <| ivars ::= f |>); [destruct a; reflexivity|]. rewrite H. destruct b; reflexivity. Qed.
Theorem def_var_changes_only_the_table s : exists f, macro_def_var s ~~ s <| ivars ::= f |>.
Proof.
  unfold macro_def_var.
  pose proof (parse_opts_eqd specOptDef (args s) s) as E1. destruct (parse_opts specOptDef (args s) s) as [o s1]. cbn [snd] in E1.
  assert (Hid : forall x, x ~~ s -> exists f, x ~~ s <| ivars ::= f |>).
  { intros x Hx. exists (fun v => v). eapply eqd_trans; [exact Hx|]. destruct s; reflexivity. }
  destruct (po_args o) as [|n vals].
  { apply Hid. destruct (process s1); [eapply eqd_trans; [apply err_eqd|exact E1]|exact E1]. }
  set (r := match opt "f" o with Some f => _ | None => (false, s1) end).
  assert (E2 : snd r ~~ s).
  { unfold r. destruct (opt "f" o) as [f|]; [|exact E1].
    pose proof (formats_of_eqd f s1) as H. destruct (formats_of f s1) as [fs s']. cbn [snd] in *.
    destruct (process s'); cbn [snd]; [eapply eqd_trans; [apply check_formats_eqd|]|]; eapply eqd_trans; eauto. }
  destruct r as [skip s2]. cbn [snd] in E2.
  destruct skip; [apply Hid; exact E2|].
  pose proof (inlines_text_eqd n s2) as E3. destruct (inlines_text n s2) as [name s3]. cbn [snd] in E3.
  pose proof (args_text_eqd vals s3) as E4. destruct (args_text vals s3) as [v s4]. cbn [snd] in E4.
  exists (assoc_set name v). apply eqd_set_ivars. eapply eqd_trans; [exact E4|]. eapply eqd_trans; [exact E3|exact E2].
Qed.
Theorem def_var_keeps_other_names s o s1 n vals name s3 other :
  parse_opts specOptDef (args s) s = (o, s1) -> po_args o = n :: vals -> opt "f" o = None ->
  inlines_text n s1 = (name, s3) -> str_eqb other name = false ->
  assoc other (ivars (macro_def_var s)) = assoc other (ivars s).
Proof.
  intros Ho Ha Hf Hn Hne. unfold macro_def_var. rewrite Ho, Ha, Hf, Hn.
  pose proof (args_text_eqd vals s3) as E4. destruct (args_text vals s3) as [v s4]. cbn [snd] in E4.
  change (ivars (s4 <| ivars ::= assoc_set name v |>)) with (assoc_set name v (ivars s4)).
  unfold assoc_set. cbn [assoc]. rewrite Hne.
  pose proof (inlines_text_eqd n s1) as E3. rewrite Hn in E3. cbn [snd] in E3.
  pose proof (parse_opts_eqd specOptDef (args s) s) as E1. rewrite Ho in E1. cbn [snd] in E1.
  assert (E : s4 ~~ s) by (eapply eqd_trans; [exact E4|]; eapply eqd_trans; eauto).
  apply (f_equal ivars) in E. cbn in E. rewrite E. reflexivity.
Qed.
Theorem def_var_for_other_formats_is_absent s o s1 n vals f fs s' :
  parse_opts specOptDef (args s) s = (o, s1) -> po_args o = n :: vals -> opt "f" o = Some f ->
  formats_of f s1 = (fs, s') -> existsb (str_eqb (format s)) fs = false ->
  macro_def_var s ~~ s.
Proof.
  intros Ho Ha Hf Hfs Hno. unfold macro_def_var. rewrite Ho, Ha, Hf, Hfs.
  pose proof (parse_opts_eqd specOptDef (args s) s) as E1. rewrite Ho in E1. cbn [snd] in E1.
  pose proof (formats_of_eqd f s1) as E2. rewrite Hfs in E2. cbn [snd] in E2.
  set (s'' := if process s' then check_formats fs s' else s').
  assert (E3 : s'' ~~ s) by (unfold s''; destruct (process s'); [eapply eqd_trans; [apply check_formats_eqd|]|]; eapply eqd_trans; eauto).
  assert (Hsk : not_export_format fs s'' = true).
  { unfold not_export_format. apply (f_equal format) in E3. cbn in E3. rewrite E3, Hno. reflexivity. }
  rewrite Hsk. exact E3.
Qed.
Print Assumptions def_var_changes_only_the_table.
Print Assumptions def_var_keeps_other_names.
Print Assumptions def_var_for_other_formats_is_absent.
