(* C06: the model's header counters are the source's.  Gen/TocGen.v is frundis/toc.go translated statement by statement on
   every run; TocProofs shows its updateHeadersCount is the hierarchical counter update [update].  Here the functions the
   model actually uses (Model/Common.update_headers, reset_counters, header_level, the navigation count) are shown to be
   those generated functions, through the evident conversion between the two record types. *)
From Coq Require Import List NArith ZArith Bool Lia Arith String.
Import ListNotations.
Require Import GoLite TocGen TocProofs.
Require Import St Common.
Open Scope Z_scope.

Definition to_twin (t : tocinfo) : TocProofs.toc :=
  {| HasPart := hasPart t; HasChapter := hasChapter t; HeaderCount := Z.of_nat (hcount t);
     PartCount := Z.of_nat (pcount t); ChapterCount := Z.of_nat (ccount t); SectionCount := Z.of_nat (scount t);
     SubsectionCount := Z.of_nat (sscount t); PartNum := Z.of_nat (pnum t); ChapterNum := Z.of_nat (cnum t);
     SectionNum := Z.of_nat (snum t); SubsectionNum := Z.of_nat (ssnum t) |}.

Lemma bump_nat (nonum : bool) (n : nat) : Z.of_nat (if nonum then n else S n) = bump nonum (Z.of_nat n).
Proof. unfold bump. destruct nonum; lia. Qed.

(* the model's update is the twin, hence (updateHeadersCount_gen_eq) the generated code *)
Theorem update_headers_twin t k nonum : to_twin (update_headers (runes (kname k)) nonum t) = update (to_twin t) k nonum.
Proof. destruct k; unfold update_headers, to_twin, update; cbn -[Z.of_nat Z.add]; rewrite ?bump_nat, ?Nat2Z.inj_succ; f_equal; lia. Qed.

Theorem update_headers_is_generated t k nonum :
  exists en, exec 50 updateHeadersCount_body (call_env (to_twin t) k nonum) = ONormal en /\
             fields en = fields_of (to_twin (update_headers (runes (kname k)) nonum t)).
Proof. destruct (updateHeadersCount_gen_eq (to_twin t) k nonum) as [en [H1 H2]]. exists en. split; [exact H1|]. rewrite update_headers_twin. exact H2. Qed.

(* resetCounters *)
Theorem reset_counters_is_generated t :
  exists en, exec 50 resetCounters_body {| locals := []; fields := fields_of (to_twin t) |} = ONormal en /\
             fields en = fields_of (to_twin (reset_counters t)).
Proof. eexists. split; [cbn; reflexivity|]. reflexivity. Qed.

(* HeaderLevel: the model keeps Go's level + 1 in nat *)
Theorem header_level_is_generated t k :
  exists z, level_of (to_twin t) k = Some z /\ header_level t (runes (kname k)) = Some (Z.to_nat (z + 1)).
Proof. destruct t as [hp hc ? ? ? ? ? ? ? ? ?]. destruct hp, hc, k; vm_compute; eexists; split; reflexivity. Qed.

(* NavCount *)
Theorem nav_count_is_generated t :
  exec 50 NavCount_body {| locals := []; fields := fields_of (to_twin t) |} =
  OReturn {| locals := []; fields := fields_of (to_twin t) |} [VInt (Z.of_nat (pcount t + ccount t))].
Proof. cbn. rewrite Nat2Z.inj_add. reflexivity. Qed.
Print Assumptions update_headers_is_generated.
