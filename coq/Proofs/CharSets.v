(* The character sets of the source's guards and the url escaping table, read from the source by the translator on
   every run (Gen/Facts.char_set_calls, replacer_vars), are the ones the model uses: a change of one of these literals
   in /repo breaks a theorem here, not only a correspondence stream. *)
From Coq Require Import List NArith Bool String.
Import ListNotations.
Require Facts.
Require Import MBase St Xhtml Latex Mom Exp Proc2 Proc3.
Open Scope N_scope.

Definition sets_of (f : string) : list str :=
  match find (fun p => String.eqb (fst p) f) Facts.char_set_calls with Some p => map runes (snd p) | None => [] end.
Definition replacer_of (f : string) : list str :=
  match find (fun p => String.eqb (fst p) f) Facts.replacer_vars with Some p => map runes (snd p) | None => [] end.

(* LaTeX: what an image path, a caption and a -c argument are checked against; mom likewise *)
Theorem tex_guards_are_the_source :
  sets_of "latex.InlineImage" = [tex_name_bad_chars] /\ sets_of "latex.FigureImage" = [tex_name_bad_chars; brace_chars] /\
  sets_of "latex.checkCmd" = [tex_name_bad_chars] /\ sets_of "mom.InlineImage" = [brace_chars].
Proof. vm_compute. repeat split; reflexivity. Qed.
(* XHTML: idIsSafe, checkPairs, reservedID *)
Theorem xhtml_guards_are_the_source :
  sets_of "xhtml.idIsSafe" = [id_unsafe_chars] /\ sets_of "frundis.checkPairs" = [key_bad_chars; key_bad_first] /\
  sets_of "frundis.reservedID" = [anchor_tail_chars].
Proof. vm_compute. repeat split; reflexivity. Qed.
Theorem id_safe_is_the_source x : X.id_safe x = negb (contains_any (hd [] (sets_of "xhtml.idIsSafe")) x).
Proof. reflexivity. Qed.

(* the url escaper of the LaTeX exporter: the model's per-character function is the source's replacer table *)
Fixpoint pairs_of (l : list str) : list (str * str) := match l with k :: v :: r => (k, v) :: pairs_of r | _ => [] end.
Theorem latex_url_table_is_the_source :
  pairs_of (replacer_of "latex.urlEscaper") = map (fun c => ([c], latex_url1 c)) [37; 123; 125; 92].
Proof. vm_compute. reflexivity. Qed.
Theorem latex_url_other_characters c : c <> 37 -> c <> 123 -> c <> 125 -> c <> 92 -> latex_url1 c = [c].
Proof. intros H1 H2 H3 H4. unfold latex_url1.
  destruct (N.eqb_spec c 37); [contradiction|]. destruct (N.eqb_spec c 123); [contradiction|].
  destruct (N.eqb_spec c 125); [contradiction|]. destruct (N.eqb_spec c 92); [contradiction|]. reflexivity. Qed.
