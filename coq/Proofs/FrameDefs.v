(* Observations of the rendering state whose frames are proved function by function (Proofs/Frame_*.v). *)
From Coq Require Import List NArith Bool String.
Require Import St.
(* the declarations and the control part of the rendering state: what only X, #de/#., #if/#; and #dv may write *)
Definition decl (s : st) :=
  (params s, dtags s, mtags s, filters s, ivars s, umacros s, udef s, ifdepth s, sif s, urls s, existing s, format s, mode s).
(* the files written so far and the name of the current one: what only the XHTML file switching may write *)
Definition outs (s : st) := (files s, curfile s).
