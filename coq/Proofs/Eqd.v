(* Equality up to the log (diagnostics, panic flag): the text and option helpers of Model/Text.v only log. *)
From Coq Require Import List NArith Bool Lia Arith String.
Import ListNotations.
Require Import Xhtml Exp Proc1 Proc2.
Open Scope N_scope.

Definition nd (s : st) : st := s <| diags := [] |>.
Definition eqd (a b : st) : Prop := nd a = nd b.
Infix "~~" := eqd (at level 70).
Lemma eqd_refl s : s ~~ s. Proof. reflexivity. Qed.
Lemma eqd_trans a b c : a ~~ b -> b ~~ c -> a ~~ c. Proof. unfold eqd; congruence. Qed.
Lemma eqd_sym a b : a ~~ b -> b ~~ a. Proof. unfold eqd; congruence. Qed.
Lemma err_eqd k s : err k s ~~ s.
Proof. unfold err. destruct (quiet s); [reflexivity|]. destruct (cloc s) as [[l n]|]; destruct s; reflexivity. Qed.
Ltac getd H g := apply (f_equal g) in H; cbn in H.

Lemma inline_text_eqd i s : snd (inline_text i s) ~~ s.
Proof. destruct i; cbn; try reflexivity. destruct (assoc _ _); cbn; [reflexivity|].
  match goal with |- context [match ?x with [] => _ | _ => _ end] => destruct x as [|c r] end; cbn; [apply err_eqd|].
  destruct c; try apply err_eqd.
  repeat (match goal with |- context [match ?x with _ => _ end] => destruct x end; cbn; try reflexivity; try apply err_eqd). Qed.
Lemma inlines_text_eqd l : forall s, snd (inlines_text l s) ~~ s.
Proof. induction l as [|i r IH]; intro s; cbn; [reflexivity|].
  pose proof (inline_text_eqd i s) as H1. destruct (inline_text i s) as [a s1]. cbn in H1.
  pose proof (IH s1) as H2. destruct (inlines_text r s1) as [b s2]. cbn in *. eapply eqd_trans; eauto. Qed.
Lemma errs_n_eqd n : forall s, errs_n n s ~~ s.
Proof. induction n as [|n IH]; intro s; cbn; [reflexivity|]. eapply eqd_trans; [apply IH|apply err_eqd]. Qed.
Lemma lang_eqd a b : a ~~ b -> lang a = lang b. Proof. intro H. unfold lang. getd H params. rewrite H. reflexivity. Qed.
Lemma escape_fn_eqd a b : a ~~ b -> escape_fn a = escape_fn b. Proof. intro H. unfold escape_fn. getd H format. rewrite H. reflexivity. Qed.
Lemma render_text_eqd l s : snd (render_text l s) ~~ s.
Proof. unfold render_text.
  destruct (str_eqb (lang s) _).
  - destruct (Typo.french _) as [o n]. pose proof (inlines_text_eqd (map of_typo o) (errs_n n s)) as H.
    destruct (inlines_text _ _) as [t s2]. cbn in *. eapply eqd_trans; [exact H|apply errs_n_eqd].
  - destruct (str_eqb (lang s) _).
    + pose proof (inlines_text_eqd (map of_typo (Typo.english (map to_typo l))) s) as H. destruct (inlines_text _ _) as [t s2]. exact H.
    + pose proof (inlines_text_eqd l s) as H. destruct (inlines_text _ _) as [t s2]. exact H.
Qed.
(* what render_text returns is escaped by the format's function *)
Lemma render_text_escaped l s : exists t, fst (render_text l s) = escape_fn s t.
Proof. unfold render_text.
  destruct (str_eqb (lang s) _).
  - destruct (Typo.french _) as [o n]. pose proof (inlines_text_eqd (map of_typo o) (errs_n n s)) as H.
    destruct (inlines_text _ _) as [t s2]. cbn in *. exists t. apply (f_equal (fun f => f t)). apply escape_fn_eqd.
    eapply eqd_trans; [exact H|apply errs_n_eqd].
  - destruct (str_eqb (lang s) _).
    + pose proof (inlines_text_eqd (map of_typo (Typo.english (map to_typo l))) s) as H. destruct (inlines_text _ _) as [t s2].
      exists t. cbn in *. apply (f_equal (fun f => f t)). apply escape_fn_eqd. exact H.
    + pose proof (inlines_text_eqd l s) as H. destruct (inlines_text _ _) as [t s2].
      exists t. cbn in *. apply (f_equal (fun f => f t)). apply escape_fn_eqd. exact H.
Qed.
Lemma render_args_eqd l : forall s, snd (render_args l s) ~~ s.
Proof. induction l as [|a r IH]; intro s; [reflexivity|]. destruct r as [|b r'].
  - apply render_text_eqd.
  - change (render_args (a :: b :: r') s) with (let '(x, s1) := render_text a s in let '(y, s2) := render_args (b :: r') s1 in (x ++ [32] ++ y, s2)).
    pose proof (render_text_eqd a s) as H1. destruct (render_text a s) as [x s1]. cbn [snd] in H1.
    pose proof (IH s1) as H2. destruct (render_args (b :: r') s1) as [y s2]. cbn [snd] in *. eapply eqd_trans; [exact H2|exact H1]. Qed.
Lemma parse_options_eqd f sp : forall l acc s, snd (parse_options f sp l acc s) ~~ s.
Proof. induction f as [|f IH]; intros l acc s; [reflexivity|]. cbn [parse_options].
  destruct l as [|a rest]; [reflexivity|].
  destruct a as [|i a']; [reflexivity|]. destruct i; try reflexivity.
  match goal with |- context [match ?x with [] => _ | _ => _ end] => destruct x as [|c t0] end; [reflexivity|].
  destruct c; try reflexivity.
  repeat (match goal with |- context [match ?p with xH => _ | _ => _ end] => destruct p; try reflexivity end).
  pose proof (inlines_text_eqd (IText (45 :: t0) :: a') s) as H. destruct (inlines_text _ s) as [full s1]. cbn [snd] in H.
  destruct (assoc _ sp) as [[|]|].
  - destruct rest as [|v rest2].
    + eapply eqd_trans; [apply IH|]. eapply eqd_trans; [apply err_eqd|exact H].
    + eapply eqd_trans; [apply IH|exact H].
  - eapply eqd_trans; [apply IH|exact H].
  - eapply eqd_trans; [apply IH|]. eapply eqd_trans; [apply err_eqd|exact H].
Qed.
Lemma parse_opts_eqd sp l s : snd (parse_opts sp l s) ~~ s.
Proof. apply parse_options_eqd. Qed.


Lemma is_punct_arg_eqd a s : snd (is_punct_arg a s) ~~ s.
Proof. unfold is_punct_arg. destruct (match a with IEsc e :: r => _ | _ => (a, false) end) as [a1 stop]. destruct stop; [reflexivity|].
  destruct a1; [reflexivity|]. pose proof (inlines_text_eqd (i :: a1) s) as H. destruct (inlines_text _ s). exact H. Qed.
Lemma get_close_punct_eqd l s : snd (get_close_punct l s) ~~ s.
Proof. unfold get_close_punct. destruct (rev l) as [|lastarg revrest]; [reflexivity|].
  pose proof (is_punct_arg_eqd lastarg s) as H1. destruct (is_punct_arg lastarg s) as [b s1]. cbn [snd] in H1.
  destruct b; [|exact H1]. pose proof (render_text_eqd lastarg s1) as H2. destruct (render_text lastarg s1) as [p s2]. cbn [snd] in *.
  eapply eqd_trans; eauto. Qed.
Lemma args_text_eqd l : forall s, snd (args_text l s) ~~ s.
Proof. induction l as [|a r IH]; intro s; [reflexivity|]. destruct r as [|b r'].
  - apply inlines_text_eqd.
  - change (args_text (a :: b :: r') s) with (let '(x, s1) := inlines_text a s in let '(y, s2) := args_text (b :: r') s1 in (x ++ [32] ++ y, s2)).
    pose proof (inlines_text_eqd a s) as H1. destruct (inlines_text a s) as [x s1]. cbn [snd] in H1.
    pose proof (IH s1) as H2. destruct (args_text (b :: r') s1) as [y s2]. cbn [snd] in *. eapply eqd_trans; [exact H2|exact H1]. Qed.
Lemma check_formats_eqd fs : forall s, check_formats fs s ~~ s.
Proof. unfold check_formats. induction fs as [|f r IH]; intro s; [reflexivity|]. cbn [fold_left].
  destruct (valid_format f); [apply IH|]. eapply eqd_trans; [apply IH|apply err_eqd]. Qed.
Lemma formats_of_eqd a s : snd (formats_of a s) ~~ s.
Proof. unfold formats_of. pose proof (inlines_text_eqd a s) as H. destruct (inlines_text a s). exact H. Qed.
(* any observation that does not look at the diagnostics is the same on both sides *)
Lemma eqd_get {A} (g : st -> A) a b : (forall s, g (nd s) = g s) -> a ~~ b -> g a = g b.
Proof. intros Hg H. rewrite <- (Hg a), <- (Hg b). unfold eqd in H. rewrite H. reflexivity. Qed.

(* more helpers that only log *)
Lemma check_attributes_eqd : forall pairs seen s, check_attributes seen pairs s ~~ s.
Proof.
  assert (H : forall n pairs, (List.length pairs <= n)%nat -> forall seen s, check_attributes seen pairs s ~~ s).
  { induction n as [|n IH]; intros [|k [|v r]] Hl seen s; cbn [check_attributes]; try reflexivity; cbn in Hl; try lia.
    eapply eqd_trans; [apply IH; lia|]. destruct (existsb _ seen); [apply err_eqd|reflexivity]. }
  intros pairs seen s. eapply H. apply le_n.
Qed.
Lemma fold_err_eqd {A} (f : st -> A -> st) (l : list A) : (forall a x, f a x ~~ a) -> forall s, fold_left f l s ~~ s.
Proof. intros Hf. induction l as [|x l IH]; intro s; [reflexivity|]. cbn [fold_left]. eapply eqd_trans; [apply IH|apply Hf]. Qed.
