(* A generic tactic for frame facts "the getter g is unchanged by the function f" on the rendering state:
   unfold f, rewrite with the frame facts already known (setters of other fields, callees), split on every
   scrutinee -- remembering, for a callee that returns a pair (result, state), what it did to the getter -- and
   conclude by congruence.  The rewriting step is passed as an argument (one rewrite database per getter). *)
From Coq Require Import List NArith Bool String.
Require Import St.

Ltac frame_note g e E :=
  lazymatch type of e with
  | (_ * st)%type => let H := fresh "Fr" in pose proof (f_equal (fun p => g (snd p)) E) as H; cbn beta in H; cbn [snd] in H
  | _ => idtac
  end.
Ltac frame_split g :=
  match goal with
  | |- context [match ?e with _ => _ end] =>
      lazymatch type of e with
      | (_ * st)%type => let E := fresh "E" in destruct e as [? ?] eqn:E; frame_note g e E; clear E
      | bool => destruct e
      | _ => let E := fresh "E" in destruct e eqn:E; clear E
      end
  end.
Ltac frame_core rw g := repeat (first [ progress rw | progress (cbn [fst snd] in * ) | frame_split g ]); try reflexivity; try congruence.
