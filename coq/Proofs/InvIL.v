(* C02: the open-element invariant inside inline processing (processInlineMacros): the title text being built in the fresh
   paragraph buffer is a balanced chunk up to the inline scopes opened since entry; nothing is written to the output writer.
   Result: [pim] hands back a balanced chunk of character data and elements, and restores the caller's state. *)
From Coq Require Import List NArith Bool Lia Arith String.
Import ListNotations.
Require Import Latex Exp Proc1 Proc2 Proc3 Ctl Loop Eqd Tok TokL Inv InvL EqFL.
Open Scope N_scope.
Arguments runL : simpl never.
Arguments rev : simpl never.
Arguments flat : simpl never.

Record InvI (W : list str) (s : st) : Prop := {
  ii_inl : inl s = true; ii_par : par s = true; ii_fmt : fmt s = FL; ii_asis : asis s = false; ii_wout : wout s = W; ii_hc : has_cur s = true;
  ii_run : forall d, runL (flat (buf s)) (LTxt, d) = (LTxt, (List.length (sinline s) + d)%nat)
}.

Lemma InvI_eqd W a b : a ~~ b -> InvI W b -> InvI W a.
Proof. intros H [H1 H2 H3 H4 H5 H7 H6].
  split; [rewrite (eqd_get inl _ _ (fun _ => eq_refl) H); exact H1|rewrite (eqd_get par _ _ (fun _ => eq_refl) H); exact H2|rewrite (Inv.fmt_eqd _ _ H); exact H3
         |rewrite (eqd_get asis _ _ (fun _ => eq_refl) H); exact H4|rewrite (eqd_get wout _ _ (fun _ => eq_refl) H); exact H5|rewrite (eqd_get has_cur _ _ (fun _ => eq_refl) H); exact H7|].
  rewrite (eqd_get buf _ _ (fun _ => eq_refl) H), (eqd_get sinline _ _ (fun _ => eq_refl) H). exact H6. Qed.

(* append a textual chunk to the buffer, other relevant fields unchanged *)
Lemma InvI_text W s s' t : InvI W s -> textualL t -> buf s' = t :: buf s -> inl s' = inl s -> par s' = par s -> format s' = format s ->
  asis s' = asis s -> wout s' = wout s -> has_cur s' = has_cur s -> mtags s' = mtags s -> sinline s' = sinline s -> InvI W s'.
Proof. intros [H1 H2 H3 H4 H5 H7 H6] Ht Eb E1 E2 E3 E4 E5 E8 E6 E7.
  split; [congruence|congruence|unfold fmt in *; rewrite E3; exact H3|congruence|congruence|congruence|].
  intro d. rewrite Eb, flat_cons, runL_app, H6, Ht, E7. reflexivity. Qed.
Lemma InvI_w W s t : InvI W s -> textualL t -> InvI W (w t s).
Proof. intros HI Ht. pose proof (ii_par _ _ HI) as Hp.
  apply (InvI_text W s _ t HI Ht); unfold w; rewrite Hp; first [reflexivity | exact Hp]. Qed.
Lemma InvI_regs W s s' : buf s' = buf s -> inl s' = inl s -> par s' = par s -> format s' = format s ->
  asis s' = asis s -> wout s' = wout s -> has_cur s' = has_cur s -> mtags s' = mtags s -> sinline s' = sinline s -> InvI W s -> InvI W s'.
Proof. intros Eb E1 E2 E3 E4 E5 E8 E6 E7 [H1 H2 H3 H4 H5 H7 H6].
  split; [congruence|congruence|unfold fmt in *; rewrite E3; exact H3|congruence|congruence|congruence|].
  intro d. rewrite Eb, E7. apply H6. Qed.

Theorem InvI_process_text W s : InvI W s -> process s = true -> InvI W (process_text s).
Proof. intros HI Hpr. unfold process_text. rewrite Hpr, (ii_asis _ _ HI), (ii_par _ _ HI). cbn [negb].
  set (s1 := if ws s then _ else s).
  assert (HI1 : InvI W s1).
  { unfold s1. destruct (ws s); [|exact HI]. apply (InvI_text W s _ [10] HI); try reflexivity. intro; reflexivity. }
  clearbody s1.
  pose proof (render_text_eqd (text s1) s1) as He. destruct (render_text_escaped (text s1) s1) as [t0 Et].
  destruct (render_text (text s1) s1) as [t s2]. cbn [fst snd] in *.
  rewrite (escape_fn_FL _ (ii_fmt _ _ HI1)) in Et. subst t.
  pose proof (InvI_eqd _ _ _ He HI1) as HI2.
  match goal with |- InvI W (?x <| buf ::= _ |> <| ws := _ |>) => set (s3 := x) end.
  assert (E3 : s3 ~~ s2). { unfold s3. destruct (latex_escape t0); [reflexivity|]. destruct (has_blank_line _); [apply err_eqd|reflexivity]. }
  pose proof (InvI_eqd _ _ _ E3 HI2) as HI3. clearbody s3.
  apply (InvI_text W s3 _ (latex_escape t0) HI3); try reflexivity. apply latex_escape_textual. Qed.

(* beginPhrasingMacro inside inline processing: at most a space *)
Lemma InvI_begin_phrasing W ns s : InvI W s -> InvI W (begin_phrasing ns s) /\ mtags (begin_phrasing ns s) = mtags s.
Proof. intro HI. unfold begin_phrasing. rewrite (ii_par _ _ HI), (ii_inl _ _ HI). destruct (ws s && negb ns).
  - split; [apply InvI_w; [exact HI|intro; reflexivity]|apply mtags_w].
  - split; [exact HI|reflexivity]. Qed.
Lemma InvI_ws W b s : InvI W s -> InvI W (s <| ws := b |>).
Proof. intros [A B C D E G F]. split; assumption. Qed.

Theorem InvI_macro_bm W s : InvI W s -> markup_okL (mtags s) -> process s = true -> InvI W (macro_bm s).
Proof. intros HI Hm Hpr. unfold macro_bm.
  pose proof (parse_opts_eqd specOptBm (args s) s) as E1. destruct (parse_opts specOptBm (args s) s) as [o s1]. cbn [snd] in E1.
  pose proof (opt_render_eqd "id" o s1) as E2.
  pose proof (opt_render_escapedL "id" o s1) as Hid. destruct (opt_render "id" o s1) as [id s2]. cbn [fst snd] in *.
  assert (E : s2 ~~ s) by (eapply eqd_trans; eauto). clear E2.
  specialize (Hid ltac:(rewrite (Inv.fmt_eqd _ _ E1); apply HI)).
  assert (Hpr2 : process s2 = true) by (rewrite (eqd_get process _ _ (fun _ => eq_refl) E); exact Hpr). rewrite Hpr2. cbn [negb].
  pose proof (InvI_eqd _ _ _ E HI) as HI2.
  assert (Hmt2 : mtags s2 = mtags s) by (apply (eqd_get mtags _ _ (fun _ => eq_refl) E)).
  destruct (InvI_begin_phrasing W (flag "ns" o) s2 HI2) as [HI3 Hmt3].
  set (s3 := begin_phrasing (flag "ns" o) s2 <| ws := false |>).
  assert (HI3' : InvI W s3) by (apply InvI_ws; exact HI3).
  assert (Hmt3' : mtags s3 = mtags s) by (change (mtags s3) with (mtags (begin_phrasing (flag "ns" o) s2)); congruence).
  clearbody s3.
  set (r4 := match opt "t" o with Some t => _ | None => _ end).
  assert (E4 : snd r4 ~~ s3).
  { unfold r4. destruct (opt "t" o) as [t|]; [|reflexivity].
    pose proof (inlines_text_eqd t s3) as H. destruct (inlines_text t s3) as [tg s']. cbn [snd] in *.
    destruct (has_key tg (mtags s')); [exact H|]. eapply eqd_trans; [apply err_eqd|exact H]. }
  destruct r4 as [tag s4]. cbn [snd] in E4.
  pose proof (InvI_eqd _ _ _ E4 HI3') as HI4.
  assert (Epi : exists sc, push_inline tag id (flag "r" o) s4 = s4 <| sinline ::= fun l => l ++ [sc] |> /\ sc_tag sc = tag).
  { unfold push_inline, mk_scope. destruct (cloc s4) as [[[l0 n0] f0]|]; [|rewrite (ii_hc _ _ HI4)]; eexists; split; reflexivity. }
  destruct Epi as (sc & Epi & Etag). rewrite Epi. set (s4' := s4).
  assert (Hmt4' : mtags s4' = mtags s) by (unfold s4'; rewrite (eqd_get mtags _ _ (fun _ => eq_refl) E4); exact Hmt3').
  assert (HI4' : InvI W s4') by exact HI4.
  unfold begin_markup_block. change (fmt (s4' <| sinline ::= fun l => l ++ [sc] |>)) with (fmt s4'). rewrite (ii_fmt _ _ HI4').
  destruct (Hm tag id Hid) as [[x [Ex Hx]] _]. rewrite !Ex by exact Hmt4'.
  set (s5 := w x (s4' <| sinline ::= fun l => l ++ [sc] |>)).
  assert (HI5 : InvI W s5).
  { destruct HI4' as [A B C D F K G]. unfold s5, w. change (par (s4' <| sinline ::= fun l => l ++ [sc] |>)) with (par s4'). rewrite B.
    split; try assumption. intro d.
    change (buf (s4' <| sinline ::= fun l => l ++ [sc] |> <| buf ::= cons x |>)) with (x :: buf s4').
    change (sinline (s4' <| sinline ::= fun l => l ++ [sc] |> <| buf ::= cons x |>)) with (sinline s4' ++ [sc]).
    rewrite flat_cons, runL_app, G, Hx, app_length. cbn [List.length]. f_equal. lia. }
  destruct (po_args o) as [|a0 al]; [exact HI5|]. rewrite (ii_inl _ _ HI5). cbn [negb].
  pose proof (render_args_eqd (a0 :: al) s5) as Er. pose proof (render_args_textualL (a0 :: al) s5 (ii_fmt _ _ HI5)) as Ht.
  destruct (render_args (a0 :: al) s5) as [t s']. cbn [fst snd] in *. apply InvI_w; [apply (InvI_eqd _ _ _ Er HI5)|exact Ht]. Qed.

Theorem InvI_macro_em W s : InvI W s -> markup_okL (mtags s) -> process s = true -> InvI W (macro_em s).
Proof. intros HI Hm Hpr. unfold macro_em. rewrite Hpr. cbn [negb].
  pose proof (parse_opts_eqd specOptEm (args s) s) as E1. destruct (parse_opts specOptEm (args s) s) as [o s1]. cbn [snd] in E1.
  pose proof (InvI_eqd _ _ _ E1 HI) as HI1.
  destruct (top (sinline s1)) as [sc|] eqn:Etop; [|apply (InvI_eqd _ _ _ (err_eqd _ _) HI1)].
  apply top_pop in Etop.
  set (s2 := s1 <| sinline ::= pop |>).
  set (s3 := match opt "t" o with Some t => _ | None => _ end).
  assert (E3 : s3 ~~ s2).
  { unfold s3. destruct (opt "t" o) as [t|].
    - pose proof (inlines_text_eqd t s2) as H. destruct (inlines_text t s2) as [tx s']. cbn [snd] in H.
      destruct (str_eqb tx (sc_tag sc)); [exact H|]. eapply eqd_trans; [apply err_eqd|exact H].
    - destruct (sc_req sc); [apply err_eqd|reflexivity]. }
  assert (Hf3 : fmt s3 = FL) by (rewrite (Inv.fmt_eqd _ _ E3); apply HI1).
  set (r4 := match po_args o with [] => _ | a :: r => _ end).
  assert (H4 : snd r4 ~~ s2 /\ textualL (fst (fst r4))).
  { unfold r4. destruct (po_args o) as [|a r]; [split; [exact E3|apply textualL_nil]|].
    set (u := if negb (inl s3) then (true, s3) else is_punct_arg a s3).
    assert (Eu : snd u ~~ s3) by (unfold u; destruct (negb (inl s3)); [reflexivity|apply is_punct_arg_eqd]).
    destruct u as [use s']. cbn [snd] in Eu. destruct use; [|split; [eapply eqd_trans; eauto|apply textualL_nil]].
    pose proof (render_text_eqd a s') as H. destruct (render_text_escaped a s') as [t Et]. destruct (render_text a s') as [p s'']. cbn [fst snd] in *.
    split; [eapply eqd_trans; [exact H|eapply eqd_trans; eauto]|].
    rewrite Et, (escape_fn_FL s'); [apply latex_escape_textual|]. rewrite (Inv.fmt_eqd _ _ Eu). exact Hf3. }
  destruct r4 as [[punct rest] s4]. cbn [fst snd] in H4. destruct H4 as (E4 & Hpunct).
  assert (Hmt1 : mtags s1 = mtags s) by (apply (eqd_get mtags _ _ (fun _ => eq_refl) E1)).
  assert (Hmt4 : mtags s4 = mtags s) by (rewrite (eqd_get mtags _ _ (fun _ => eq_refl) E4); exact Hmt1).
  assert (Hp4 : par s4 = true) by (rewrite (eqd_get par _ _ (fun _ => eq_refl) E4); apply HI1).
  assert (Hf4 : fmt s4 = FL) by (rewrite (Inv.fmt_eqd _ _ E4); apply HI1).
  rewrite Hp4. unfold end_markup_block. rewrite Hf4.
  destruct (Hm (sc_tag sc) [] (ex_intro _ [] eq_refl)) as [_ Hc]. destruct (Hc punct Hpunct) as [x [Ex Hx]]. rewrite !Ex by exact Hmt4.
  assert (HI5 : InvI W (w x s4)).
  { destruct HI1 as [A B C D F K G]. unfold w. rewrite Hp4.
    split; [rewrite <- A; apply (eqd_get inl _ _ (fun _ => eq_refl) E4)|exact Hp4|exact Hf4|rewrite <- D; apply (eqd_get asis _ _ (fun _ => eq_refl) E4)
           |rewrite <- F; apply (eqd_get wout _ _ (fun _ => eq_refl) E4)|rewrite <- K; apply (eqd_get has_cur _ _ (fun _ => eq_refl) E4)|]. intro d.
    change (buf (s4 <| buf ::= cons x |>)) with (x :: buf s4).
    change (sinline (s4 <| buf ::= cons x |>)) with (sinline s4).
    rewrite (eqd_get buf _ _ (fun _ => eq_refl) E4), (eqd_get sinline _ _ (fun _ => eq_refl) E4), flat_cons, runL_app. change (buf s2) with (buf s1). rewrite G.
    rewrite Etop at 1. rewrite app_length. cbn [List.length]. change (sinline s2) with (pop (sinline s1)).
    replace (List.length (pop (sinline s1)) + 1 + d)%nat with (S (List.length (pop (sinline s1)) + d)) by lia. apply Hx. }
  set (s5 := w x s4) in *. clearbody s5.
  assert (HI6 : InvI W (match rest with [] => s5 | _ => if negb (inl s5) then err "useless args in macro Em" s5
                                                        else let '(t, s') := render_args rest s5 in w t s' end)).
  { destruct rest as [|a0 al]; [exact HI5|]. rewrite (ii_inl _ _ HI5). cbn [negb].
    pose proof (render_args_eqd (a0 :: al) s5) as Er. pose proof (render_args_textualL (a0 :: al) s5 (ii_fmt _ _ HI5)) as Ht.
    destruct (render_args (a0 :: al) s5) as [t s']. cbn [fst snd] in *. apply InvI_w; [apply (InvI_eqd _ _ _ Er HI5)|exact Ht]. }
  apply InvI_ws. exact HI6. Qed.

Theorem InvI_macro_sm W s : InvI W s -> markup_okL (mtags s) -> process s = true -> InvI W (macro_sm s).
Proof. intros HI Hm Hpr. unfold macro_sm.
  pose proof (parse_opts_eqd specOptSm (args s) s) as E1. destruct (parse_opts specOptSm (args s) s) as [o s1]. cbn [snd] in E1.
  pose proof (opt_render_eqd "id" o s1) as E2.
  pose proof (opt_render_escapedL "id" o s1) as Hid. destruct (opt_render "id" o s1) as [id s2]. cbn [fst snd] in *.
  assert (E : s2 ~~ s) by (eapply eqd_trans; eauto). clear E2.
  specialize (Hid ltac:(rewrite (Inv.fmt_eqd _ _ E1); apply HI)).
  assert (Hpr2 : process s2 = true) by (rewrite (eqd_get process _ _ (fun _ => eq_refl) E); exact Hpr). rewrite Hpr2. cbn [negb].
  pose proof (InvI_eqd _ _ _ E HI) as HI2.
  destruct (po_args o) as [|a0 al] eqn:Epo; [apply (InvI_eqd _ _ _ (err_eqd _ _) HI2)|].
  set (r3 := if Nat.ltb 1 (List.length (a0 :: al)) then get_close_punct (a0 :: al) s2 else (a0 :: al, [], s2)).
  assert (H3 : snd r3 ~~ s2 /\ textualL (snd (fst r3))).
  { unfold r3. destruct (Nat.ltb 1 (List.length (a0 :: al))); [|split; [reflexivity|apply textualL_nil]].
    split; [apply get_close_punct_eqd|apply get_close_punct_textualL; apply HI2]. }
  destruct r3 as [[a punct] s3]. cbn [fst snd] in H3. destruct H3 as [E3 Hpunct].
  assert (E3' : s3 ~~ s) by (eapply eqd_trans; eauto).
  pose proof (InvI_eqd _ _ _ E3' HI) as HI3.
  assert (Hmt3 : mtags s3 = mtags s) by (apply (eqd_get mtags _ _ (fun _ => eq_refl) E3')).
  destruct (InvI_begin_phrasing W (flag "ns" o) s3 HI3) as [HI4 Hmt4].
  set (s4 := begin_phrasing (flag "ns" o) s3) in *. clearbody s4.
  set (r5 := match opt "t" o with Some t => _ | None => _ end).
  assert (E5 : snd r5 ~~ s4).
  { unfold r5. destruct (opt "t" o) as [t|]; [|reflexivity].
    pose proof (inlines_text_eqd t s4) as H. destruct (inlines_text t s4) as [tg s']. cbn [snd] in *.
    destruct (has_key tg (mtags s')); [exact H|]. eapply eqd_trans; [apply err_eqd|exact H]. }
  destruct r5 as [tag s5]. cbn [snd] in E5.
  pose proof (InvI_eqd _ _ _ E5 HI4) as HI5.
  assert (Hmt5 : mtags s5 = mtags s) by (rewrite (eqd_get mtags _ _ (fun _ => eq_refl) E5), Hmt4; exact Hmt3).
  unfold begin_markup_block. rewrite (ii_fmt _ _ HI5).
  destruct (Hm tag id Hid) as [[x [Ex Hx]] Hc]. rewrite (Ex s5 Hmt5).
  pose proof (render_args_eqd a (w x s5)) as E7. pose proof (render_args_textualL a (w x s5) ltac:(rewrite Inv.fmt_w; apply HI5)) as Ht.
  destruct (render_args a (w x s5)) as [t s7]. cbn [fst snd] in *.
  assert (Hf7 : fmt s7 = FL) by (rewrite (Inv.fmt_eqd _ _ E7), Inv.fmt_w; apply HI5).
  assert (Hmt7 : mtags s7 = mtags s) by (rewrite (eqd_get mtags _ _ (fun _ => eq_refl) E7), mtags_w; exact Hmt5).
  unfold end_markup_block. rewrite Inv.fmt_w, Hf7.
  destruct (Hc punct Hpunct) as [y [Ey Hy]]. rewrite (Ey (w t s7)) by (rewrite mtags_w; exact Hmt7).
  apply InvI_ws.
  (* the three chunks x, t, y in sequence keep the stack *)
  pose proof (ii_par _ _ HI5) as Hp5.
  assert (Hp7 : par s7 = true) by (rewrite (eqd_get par _ _ (fun _ => eq_refl) E7), par_w; exact Hp5).
  destruct HI5 as [A B C D F K G].
  split.
  - rewrite !inl_w, (eqd_get inl _ _ (fun _ => eq_refl) E7), inl_w. exact A.
  - rewrite !par_w. exact Hp7.
  - rewrite !Inv.fmt_w. exact Hf7.
  - unfold w. rewrite Hp7. cbn. rewrite Hp7. cbn. rewrite (eqd_get asis _ _ (fun _ => eq_refl) E7). unfold w. rewrite Hp5. exact D.
  - unfold w. rewrite Hp7. cbn. rewrite Hp7. cbn. rewrite (eqd_get wout _ _ (fun _ => eq_refl) E7). unfold w. rewrite Hp5. exact F.
  - unfold w. rewrite Hp7. cbn. rewrite Hp7. cbn. rewrite (eqd_get has_cur _ _ (fun _ => eq_refl) E7). unfold w. rewrite Hp5. exact K.
  - intro d. unfold w. rewrite Hp7. cbn. rewrite Hp7. cbn.
    rewrite !flat_cons, (eqd_get buf _ _ (fun _ => eq_refl) E7), (eqd_get sinline _ _ (fun _ => eq_refl) E7).
    unfold w. rewrite Hp5. cbn. rewrite flat_cons, !runL_app, G, Hx, Ht, Hy. reflexivity.
Qed.

(* ---------- the inline walk ---------- *)
Record PI (W : list str) (s : st) : Prop := {
  pi_inv : InvI W s; pi_mk : markup_okL (mtags s); pi_pr : process s = true; pi_bf : bf s = None
}.
Lemma PI_eqf W a b : a ~= b -> InvI W a -> PI W b -> PI W a.
Proof. intros F HI [_ B C D]. split; [exact HI|rewrite (mtags_eqf _ _ F); exact B|rewrite (eqf_get process _ _ (fun _ => eq_refl) F); exact C
  |rewrite (eqf_get bf _ _ (fun _ => eq_refl) F); exact D]. Qed.
Lemma InvI_after_handler W n s : InvI W s -> InvI W (after_handler n s).
Proof. intro HI. apply (InvI_regs W s); [..|exact HI]; unfold after_handler; destruct (elided s); try reflexivity; destruct (is_control_name n); reflexivity. Qed.

Lemma inline_step_PI W b s : PI W s -> PI W (inline_step b s).
Proof. intros [HI Hm Hpr Hbf]. unfold inline_step.
  set (s0 := set_regs b s).
  assert (HI0 : InvI W s0).
  { unfold s0, set_regs. destruct b; destruct HI as [A B C D F K G]; split; try assumption; reflexivity. }
  assert (Hm0 : markup_okL (mtags s0)) by (unfold s0, set_regs; destruct b; exact Hm).
  assert (Hpr0 : process s0 = true) by (unfold s0, set_regs; destruct b; exact Hpr).
  assert (Hbf0 : bf s0 = None) by (unfold s0, set_regs; destruct b; exact Hbf).
  assert (HP0 : PI W s0) by (split; assumption).
  clearbody s0. destruct b as [n a l|t l].
  - assert (Ebf : bf_check n s0 = s0) by (unfold bf_check; rewrite Hbf0; reflexivity).
    unfold inline_builtin. destruct (is_name n "Bm").
    { rewrite Ebf. pose proof (macro_bm_eqf s0 (ii_fmt _ _ HI0) Hm0 (ii_hc _ _ HI0)) as F.
      apply (PI_eqf W _ s0); [eapply eqf_trans; [apply after_handler_eqf|exact F]|apply InvI_after_handler, InvI_macro_bm; assumption|exact HP0]. }
    destruct (is_name n "Em").
    { rewrite Ebf. destruct (macro_em_eqf s0 (ii_fmt _ _ HI0) Hm0) as [F _].
      apply (PI_eqf W _ s0); [eapply eqf_trans; [apply after_handler_eqf|exact F]|apply InvI_after_handler, InvI_macro_em; assumption|exact HP0]. }
    destruct (is_name n "Sm").
    { rewrite Ebf. pose proof (macro_sm_eqf s0 (ii_fmt _ _ HI0) Hm0) as F.
      apply (PI_eqf W _ s0); [eapply eqf_trans; [apply after_handler_eqf|exact F]|apply InvI_after_handler, InvI_macro_sm; assumption|exact HP0]. }
    unfold unknown_macro. destruct n; [exact HP0|]. rewrite Hpr0.
    apply (PI_eqf W _ s0); [apply eqd_eqf, err_eqd|apply (InvI_eqd _ _ _ (err_eqd _ _) HI0)|exact HP0].
  - unfold text_block.
    pose proof (process_text_eqf s0 (ii_asis _ _ HI0) (ii_fmt _ _ HI0) Hm0) as F.
    pose proof (InvI_process_text W s0 HI0 Hpr0) as HI1.
    assert (Hbf1 : bf (process_text s0) = None) by (rewrite (eqf_get bf _ _ (fun _ => eq_refl) F); exact Hbf0). rewrite Hbf1.
    apply (PI_eqf W _ s0); [eapply eqf_trans; [apply set_prev_eqf|exact F]|apply (InvI_regs W (process_text s0)); try reflexivity; exact HI1|exact HP0].
Qed.
Lemma inline_walk_PI W : forall bs s, PI W s -> PI W (inline_walk bs s).
Proof. induction bs as [|b r IH]; intros s HP; [exact HP|]. cbn [inline_walk].
  pose proof (inline_step_PI W b s HP) as H1. destruct (panicked (inline_step b s)); [exact H1|apply IH; exact H1]. Qed.
Lemma inline_step_eqf W b s : PI W s -> inline_step b s ~= set_regs b s.
Proof. intros [HI Hm Hpr Hbf]. unfold inline_step.
  set (s0 := set_regs b s).
  assert (Hf0 : fmt s0 = FL) by (unfold s0, set_regs; destruct b; exact (ii_fmt _ _ HI)).
  assert (Hm0 : markup_okL (mtags s0)) by (unfold s0, set_regs; destruct b; exact Hm).
  assert (Hc0 : has_cur s0 = true) by (unfold s0, set_regs; destruct b; reflexivity).
  assert (Hbf0 : bf s0 = None) by (unfold s0, set_regs; destruct b; exact Hbf).
  assert (Has0 : asis s0 = false) by (unfold s0, set_regs; destruct b; exact (ii_asis _ _ HI)).
  clearbody s0. destruct b as [n a l|t l].
  - assert (Ebf : bf_check n s0 = s0) by (unfold bf_check; rewrite Hbf0; reflexivity).
    unfold inline_builtin. destruct (is_name n "Bm"); [rewrite Ebf; eapply eqf_trans; [apply after_handler_eqf|apply macro_bm_eqf; assumption]|].
    destruct (is_name n "Em"); [rewrite Ebf; eapply eqf_trans; [apply after_handler_eqf|apply macro_em_eqf; assumption]|].
    destruct (is_name n "Sm"); [rewrite Ebf; eapply eqf_trans; [apply after_handler_eqf|apply macro_sm_eqf; assumption]|].
    unfold unknown_macro. destruct n; [apply eqf_refl|]. destruct (process s0); [apply eqd_eqf, err_eqd|apply eqf_refl].
  - unfold text_block. pose proof (process_text_eqf s0 Has0 Hf0 Hm0) as F.
    destruct (bf (process_text s0)) as [bi|]; [destruct (bf_ignore bi); [exact F|]|]; (eapply eqf_trans; [apply set_prev_eqf|exact F]).
Qed.

Lemma set_regs_eqf b s : has_cur s = true -> set_regs b s ~= s.
Proof. intro H. unfold set_regs. destruct b; destruct s; cbn in *; subst; reflexivity. Qed.
Lemma inline_walk_eqf W : forall bs s, PI W s -> inline_walk bs s ~= s.
Proof. induction bs as [|b r IH]; intros s HP; [apply eqf_refl|]. cbn [inline_walk].
  pose proof (inline_step_PI W b s HP) as H1.
  assert (F1 : inline_step b s ~= s) by (eapply eqf_trans; [apply (inline_step_eqf W); exact HP|apply set_regs_eqf; exact (ii_hc _ _ (pi_inv _ _ HP))]).
  destruct (panicked (inline_step b s)); [exact F1|]. eapply eqf_trans; [apply IH; exact H1|exact F1]. Qed.

(* closeUnclosedScopes(scopeInline) at the end of inline processing *)
Lemma top_none' {A} (l : list A) : top l = None -> l = [].
Proof. unfold top. destruct l as [|a l]; [reflexivity|]. intro H. exfalso. revert a H. induction l as [|b l IH]; intros a H; [discriminate|]. exact (IH b H). Qed.
Lemma pop_length' {A} (l : list A) : List.length (pop l) = (List.length l - 1)%nat.
Proof. unfold pop. induction l as [|a [|b r] IH]; [reflexivity|reflexivity|]. change (removelast (a :: b :: r)) with (a :: removelast (b :: r)).
  cbn [List.length] in *. rewrite IH. lia. Qed.
Lemma close_inline_loop_PI W cur : forall f s, PI W s -> (List.length (sinline s) <= f)%nat ->
  PI W (close_inline_loop f cur s) /\ (List.length (sinline s) < f -> sinline (close_inline_loop f cur s) = [])%nat.
Proof. induction f as [|f IH]; intros s HP Hl; cbn [close_inline_loop]; [split; [exact HP|lia]|].
  destruct (top (sinline s)) as [sc|] eqn:Etop; [|split; [exact HP|intros _; apply top_none'; exact Etop]].
  destruct HP as [HI Hm Hpr Hbf].
  set (s2q := warn_unclosed sc (s <| macro := cur |>) <| macro := R "Em" |> <| args := tag_args (sc_tag sc) |> <| quiet := true |>).
  assert (F2 : s2q ~= s).
  { unfold s2q. eapply eqf_trans; [apply set_quiet_eqf|]. eapply eqf_trans; [apply set_args_eqf|]. eapply eqf_trans; [apply set_macro_eqf|].
    eapply eqf_trans; [apply eqd_eqf, err_eqd|apply set_macro_eqf]. }
  assert (HI2 : InvI W s2q).
  { unfold s2q. apply (InvI_regs W (warn_unclosed sc (s <| macro := cur |>))); try reflexivity.
    unfold warn_unclosed. apply (InvI_eqd _ _ _ (err_eqd _ _)). apply (InvI_regs W s); try reflexivity. exact HI. }
  assert (Hsi2 : sinline s2q = sinline s).
  { unfold s2q, warn_unclosed. cbn. rewrite (eqd_get sinline _ _ (fun _ => eq_refl) (err_eqd _ _)). reflexivity. }
  assert (Hm2 : markup_okL (mtags s2q)) by (rewrite (mtags_eqf _ _ F2); exact Hm).
  assert (Hpr2 : process s2q = true) by (rewrite (eqf_get process _ _ (fun _ => eq_refl) F2); exact Hpr).
  destruct (macro_em_eqf s2q (ii_fmt _ _ HI2) Hm2) as [Fem Hpop]. specialize (Hpop Hpr2).
  pose proof (InvI_macro_em W s2q HI2 Hm2 Hpr2) as HIem.
  match goal with |- context [close_inline_loop f cur ?x] => set (s3 := x) end.
  assert (F3 : s3 ~= s) by (unfold s3; eapply eqf_trans; [apply set_args_eqf|]; eapply eqf_trans; [apply set_quiet_eqf|]; eapply eqf_trans; [exact Fem|exact F2]).
  assert (HI3 : InvI W s3) by (unfold s3; apply (InvI_regs W (macro_em s2q)); try reflexivity; exact HIem).
  assert (Hsi3 : sinline s3 = pop (sinline s)) by (unfold s3; cbn; rewrite Hpop; exact (f_equal pop Hsi2)).
  assert (HP3 : PI W s3) by (apply (PI_eqf W _ s F3 HI3); split; assumption).
  assert (Hl3 : (List.length (sinline s3) <= f)%nat) by (rewrite Hsi3, pop_length'; lia).
  destruct (IH s3 HP3 Hl3) as [H1 H2]. split; [exact H1|]. intro Hlt. apply H2. rewrite Hsi3, pop_length'.
  assert (List.length (sinline s) <> 0)%nat by (destruct (sinline s); [discriminate|cbn; lia]). lia.
Qed.
Lemma close_unclosed_inline_PI W s : PI W s -> PI W (close_unclosed_inline s) /\ sinline (close_unclosed_inline s) = [].
Proof. intro HP. unfold close_unclosed_inline. destruct (sinline s) as [|sc l] eqn:E; [split; [exact HP|exact E]|].
  set (s0 := s <| args := [] |>).
  assert (HP0 : PI W s0).
  { destruct HP as [HI Hm Hpr Hbf]. split; [apply (InvI_regs W s); try reflexivity; exact HI|exact Hm|exact Hpr|exact Hbf]. }
  assert (Hl : (List.length (sinline s0) <= S (List.length (sc :: l)))%nat) by (change (sinline s0) with (sinline s); rewrite E; lia).
  destruct (close_inline_loop_PI W (macro s) (S (List.length (sc :: l))) s0 HP0 Hl) as [H1 H2].
  set (r := close_inline_loop (S (List.length (sc :: l))) (macro s) s0) in *.
  split.
  - destruct H1 as [HI Hm Hpr Hbf]. split; [apply (InvI_regs W r); try reflexivity; exact HI|exact Hm|exact Hpr|exact Hbf].
  - change (sinline (r <| macro := macro s |> <| args := args s |>)) with (sinline r). apply H2. change (sinline s0) with (sinline s). rewrite E. lia.
Qed.

(* ---------- processInlineMacros ---------- *)
Theorem pim_spec a s : fmt s = FL -> asis s = false -> inl s = false -> markup_okL (mtags s) -> bf s = None -> has_cur s = true ->
  (forall d, runL (fst (pim a s)) (LTxt, d) = (LTxt, d)) /\
  snd (pim a s) ~= s /\ out (snd (pim a s)) = out s /\ view (snd (pim a s)) = view s /\ buf (snd (pim a s)) = buf s.
Proof. intros Hf Has Hi Hm Hbf Hc. unfold pim. cbv zeta. cbn [fst snd].
  set (s1 := (if negb (process s) then s <| quiet := true |> else s) <| buf := [] |> <| ws := false |> <| inl := true |> <| par := true |>
               <| process := true |> <| has_cur := true |> <| sinline := [] |>).
  assert (Hsame : forall (A : Type) (g : st -> A), (forall x q, g (x <| quiet := q |>) = g x) -> g (if negb (process s) then s <| quiet := true |> else s) = g s).
  { intros A g Hg. destruct (negb (process s)); [apply Hg|reflexivity]. }
  assert (P1 : PI (wout s) s1).
  { split; [split; try reflexivity| | reflexivity|].
    - unfold fmt, s1. cbn. rewrite (Hsame _ format (fun _ _ => eq_refl)). exact Hf.
    - unfold s1. cbn. rewrite (Hsame _ asis (fun _ _ => eq_refl)). exact Has.
    - unfold s1. cbn. apply (Hsame _ wout (fun _ _ => eq_refl)).
    - unfold s1. cbn. rewrite (Hsame _ mtags (fun _ _ => eq_refl)). exact Hm.
    - unfold s1. cbn. rewrite (Hsame _ bf (fun _ _ => eq_refl)). exact Hbf. }
  pose proof (inline_walk_PI _ (inline_blocks a (line s)) s1 P1) as P2.
  pose proof (inline_walk_eqf _ (inline_blocks a (line s)) s1 P1) as F2.
  set (s2 := inline_walk (inline_blocks a (line s)) s1) in *. clearbody s2.
  destruct (close_unclosed_inline_PI _ s2 P2) as [P3 Hsi3].
  assert (F3 : close_unclosed_inline s2 ~= s1).
  { eapply eqf_trans; [apply close_unclosed_inline_eqf; [exact (ii_fmt _ _ (pi_inv _ _ P2))|exact (pi_mk _ _ P2)]|exact F2]. }
  set (s3 := close_unclosed_inline s2) in *. clearbody s3.
  destruct P3 as [[A B C D F K G] Hm3 Hpr3 Hbf3].
  split; [intro d; rewrite G, Hsi3; reflexivity|].
  assert (Hfield : forall (A : Type) (g : st -> A), (forall x, g (nf x) = g x) -> (forall x q, g (x <| quiet := q |>) = g x) ->
            (forall x, g (x <| buf := [] |> <| ws := false |> <| inl := true |> <| par := true |> <| process := true |> <| has_cur := true |> <| sinline := [] |>) = g x) -> g s3 = g s).
  { intros T g Hg Hq Hu. rewrite (eqf_get g _ _ Hg F3). unfold s1. rewrite Hu. apply (Hsame _ g Hq). }
  split.
  - (* everything outside buffers and registers is that of the caller *)
    match goal with |- ?x ~= s => set (s' := x) end.
    assert (E' : nf s' = (nf s3) <| inl := false |> <| process := process s |> <| has_cur := has_cur s |>) by (unfold s'; destruct s3; reflexivity).
    unfold eqf in *. rewrite E', F3. unfold s1. clear -Hi. destruct (negb (process s)); destruct s; cbn in *; subst; reflexivity.
  - split; [unfold out; cbn; rewrite F; reflexivity|]. split; [|reflexivity].
    unfold view. cbn.
    rewrite (eqf_get sblock _ _ (fun _ => eq_refl) F3), (eqf_get dtags _ _ (fun _ => eq_refl) F3), (eqf_get ttitscope _ _ (fun _ => eq_refl) F3),
            (eqf_get verse _ _ (fun _ => eq_refl) F3), (eqf_get mtags _ _ (fun _ => eq_refl) F3).
    unfold s1. cbn. rewrite (Hsame _ sblock (fun _ _ => eq_refl)), (Hsame _ dtags (fun _ _ => eq_refl)), (Hsame _ ttitscope (fun _ _ => eq_refl)),
            (Hsame _ verse (fun _ _ => eq_refl)), (Hsame _ mtags (fun _ _ => eq_refl)). reflexivity.
Qed.
