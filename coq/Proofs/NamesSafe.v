(* C17: the part of a generated file name that comes from the document - the chapter name - never contains a path
   separator, whatever the state: an id is used only if it has none (D13), the numbers otherwise. *)
From Coq Require Import List NArith Bool Lia Arith String.
Import ListNotations.
Require Import Xhtml Exp Tok Hdr.
Open Scope N_scope.

Lemma no_c_has_slash x : no_c 47 x = true -> X.has_slash x = false.
Proof. unfold X.has_slash. induction x as [|c r IH]; [reflexivity|]. cbn [no_c forallb existsb]. intro H. apply andb_true_iff in H as [H1 H2].
  rewrite (IH H2), orb_false_r. destruct (N.eqb_spec 47 c) as [<-|Hn]; [discriminate H1|reflexivity]. Qed.
Lemma dec2_digits n : forallb is_digit (X.dec2 n) = true.
Proof. unfold X.dec2. destruct (Nat.ltb n 10); [|apply dec_digit]. rewrite forallb_app, dec_digit. reflexivity. Qed.
Theorem chapname_has_no_separator s : X.has_slash (X.chapname s) = false.
Proof. unfold X.chapname. cbv zeta.
  destruct (X.custom_file_names s && negb (X.has_slash (cid s)) && X.id_safe (cid s)) eqn:E.
  - apply andb_true_iff in E as [E _]. apply andb_true_iff in E as [_ E]. apply negb_true_iff in E.
    destruct (cid s) as [|c r] eqn:Ec; [|exact E].
    apply no_c_has_slash. rewrite !no_c_app. rewrite (digits_no_c 47 _ eq_refl (dec_digit _)), (digits_no_c 47 _ eq_refl (dec2_digits _)). reflexivity.
  - apply no_c_has_slash. rewrite !no_c_app. rewrite (digits_no_c 47 _ eq_refl (dec_digit _)), (digits_no_c 47 _ eq_refl (dec2_digits _)). reflexivity.
Qed.
(* and the prefix the document may set is refused when it has one *)
Theorem chap_prefix_with_separator_is_refused v s : fmt s = FX -> X.has_slash v = true ->
  fst (check_param (R "xhtml-chap-prefix") v s) = false.
Proof. intros Hf H. unfold check_param. rewrite Hf.
  change (str_eqb (R "xhtml-chap-prefix") (R "xhtml-index")) with false. change (str_eqb (R "xhtml-chap-prefix") (R "epub-version")) with false.
  change (str_eqb (R "xhtml-chap-prefix") (R "xhtml-chap-prefix")) with true. cbv iota.
  unfold X.has_slash in H. rewrite H. reflexivity. Qed.
Print Assumptions chapname_has_no_separator.
