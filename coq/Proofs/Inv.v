(* C02: the open-element invariant of the XHTML exporter, stated on the bytes the model writes.
   [elems s] is the stack of elements the processor state says are open; [Inv s] says the tag machine of Tok.v, run over
   everything written so far, is in text mode with exactly that stack.  Handlers are shown to preserve it. *)
From Coq Require Import List NArith Bool Lia Arith String.
Import ListNotations.
Require Import Xhtml Exp Proc1 Proc2 Eqd Tok.
Open Scope N_scope.

Arguments flat : simpl never.
Definition view (s : st) := (sblock s, dtags s, ttitscope s, (par s, verse s, sinline s, mtags s)).
Definition dcmd_or_div (dt : list (str * dtag)) (tag : str) : str :=
  match assoc tag dt with Some d => (match dt_cmd d with [] => R "div" | c => c end) | None => R "div" end.
Definition ielem (mt : list (str * mtag)) (tag : str) : str := match assoc tag mt with Some m => mt_cmd m | None => R "em" end.
Fixpoint block_elems (dt : list (str * dtag)) (tts : bool) (l : list scope) (cur_list : str) : list str :=
  match l with
  | [] => []
  | sc :: r =>
    if str_eqb (sc_macro sc) (R "Bd") then dcmd_or_div dt (sc_tag sc) :: block_elems dt tts r cur_list
    else if str_eqb (sc_macro sc) (R "Bl") then
      let t := sc_tag sc in
      (if str_eqb t (R "item") then [R "ul"] else if str_eqb t (R "enum") then [R "ol"] else if str_eqb t (R "desc") then [R "dl"]
       else if str_eqb t (R "table") then (if tts then [R "div"; R "table"] else [R "table"])
       else [R "div"]) ++ block_elems dt tts r t
    else
      (if str_eqb cur_list (R "item") || str_eqb cur_list (R "enum") then [R "li"]
       else if str_eqb cur_list (R "desc") then [R "dd"]
       else if str_eqb cur_list (R "table") then [R "tr"; R "td"] else []) ++ block_elems dt tts r cur_list
  end.
Definition ielems (mt : list (str * mtag)) (l : list scope) : list str := map (fun sc => ielem mt (sc_tag sc)) l.
Definition elems_v (v : list scope * list (str * dtag) * bool * (bool * bool * list scope * list (str * mtag))) : list str :=
  let '(sb, dt, tts, (p, vs, si, mt)) := v in
  block_elems dt tts sb [] ++ (if p then [R "p"] ++ (if vs then [R "span"] else []) ++ ielems mt si else []).
Definition elems (s : st) : list str := elems_v (view s).
Definition out (s : st) : str := flat (wout s) ++ flat (buf s).

(* [BASE] is the stack of elements already open when the body starts: [] for a fragment, [body; html] inside a complete document *)
Section Base.
Context {BASE : list str}.
Record Inv (s : st) : Prop := {
  inv_run : run (out s) (Txt, []) = (Txt, rev (elems s) ++ BASE);
  inv_buf : par s = false -> buf s = [];
  inv_fmt : fmt s = FX;
}.

(* what the X mtag table must satisfy *)
Definition markup_ok (mt : list (str * mtag)) : Prop :=
  forall tag id, escaped id ->
    (exists x, (forall s, mtags s = mt -> X.begin_markup_block tag id s = w x s) /\ open_chunk (ielem mt tag) x) /\
    (forall punct, textual punct ->
       exists x, (forall s, mtags s = mt -> X.end_markup_block tag punct s = w x s) /\ close_chunk (ielem mt tag) x).

Lemma nd_view s : view (nd s) = view s. Proof. reflexivity. Qed.
Lemma view_eqd a b : a ~~ b -> view a = view b. Proof. apply eqd_get. intro; reflexivity. Qed.
Lemma out_eqd a b : a ~~ b -> out a = out b. Proof. apply eqd_get. intro; reflexivity. Qed.
Lemma fmt_eqd a b : a ~~ b -> fmt a = fmt b. Proof. apply eqd_get. intro; reflexivity. Qed.
Lemma Inv_eqd a b : a ~~ b -> Inv b -> Inv a.
Proof. intros H [H1 H2 H3]. split.
  - unfold elems. rewrite (out_eqd _ _ H), (view_eqd _ _ H). exact H1.
  - rewrite (eqd_get par _ _ (fun _ => eq_refl) H), (eqd_get buf _ _ (fun _ => eq_refl) H). exact H2.
  - rewrite (fmt_eqd _ _ H). exact H3. Qed.

(* one output step: bytes appended, abstraction updated *)
Lemma Inv_step s s' x : Inv s -> out s' = out s ++ x -> run x (Txt, rev (elems s)) = (Txt, rev (elems s')) ->
  (par s' = false -> buf s' = []) -> fmt s' = FX -> Inv s'.
Proof. intros [H1 H2 H3] Ho Hr Hb Hf. split; [|exact Hb|exact Hf]. rewrite Ho, run_app, H1. apply run_frame; [exact Hr|discriminate]. Qed.

(* ---------- output-only steps are [w x]; several of them are [wl l] (newest chunk first) ---------- *)
Fixpoint wl (l : list str) (s : st) : st := match l with [] => s | x :: r => w x (wl r s) end.
Lemma flat_app a b : flat (a ++ b) = flat b ++ flat a.
Proof. induction a as [|x r IH]; [cbn; rewrite app_nil_r; reflexivity|]. cbn [app]. rewrite !flat_cons, IH, app_assoc. reflexivity. Qed.
Lemma wl_app a b s : wl (a ++ b) s = wl a (wl b s).
Proof. induction a as [|x r IH]; [reflexivity|]. cbn. rewrite IH. reflexivity. Qed.
Lemma fmt_w x s : fmt (w x s) = fmt s. Proof. unfold w. destruct (par s); reflexivity. Qed.
Lemma par_w x s : par (w x s) = par s. Proof. unfold w. destruct (par s) eqn:E; exact E. Qed.
Lemma mtags_w x s : mtags (w x s) = mtags s. Proof. unfold w. destruct (par s); reflexivity. Qed.
Lemma inl_w x s : inl (w x s) = inl s. Proof. unfold w. destruct (par s); reflexivity. Qed.
Lemma view_w x s : view (w x s) = view s. Proof. unfold w. destruct (par s) eqn:E; unfold view; cbn; rewrite ?E; reflexivity. Qed.
Lemma out_w x s : (par s = false -> buf s = []) -> out (w x s) = out s ++ x.
Proof. intro H. unfold out, w. destruct (par s) eqn:E; cbn.
  - rewrite flat_cons, app_assoc. reflexivity.
  - rewrite flat_cons, (H eq_refl), !app_nil_r. reflexivity. Qed.
Lemma bufc_w x s : (par s = false -> buf s = []) -> (par (w x s) = false -> buf (w x s) = []).
Proof. intro H. unfold w. destruct (par s) eqn:E; cbn; [rewrite E; discriminate|]. rewrite E. intros _. exact (H eq_refl). Qed.
Lemma fmt_wl l s : fmt (wl l s) = fmt s. Proof. induction l as [|x r IH]; [reflexivity|]. cbn. rewrite fmt_w. exact IH. Qed.
Lemma par_wl l s : par (wl l s) = par s. Proof. induction l as [|x r IH]; [reflexivity|]. cbn. rewrite par_w. exact IH. Qed.
Lemma mtags_wl l s : mtags (wl l s) = mtags s. Proof. induction l as [|x r IH]; [reflexivity|]. cbn. rewrite mtags_w. exact IH. Qed.
Lemma inl_wl l s : inl (wl l s) = inl s. Proof. induction l as [|x r IH]; [reflexivity|]. cbn. rewrite inl_w. exact IH. Qed.
Lemma view_wl l s : view (wl l s) = view s. Proof. induction l as [|x r IH]; [reflexivity|]. cbn. rewrite view_w. exact IH. Qed.
Lemma bufc_wl l s : (par s = false -> buf s = []) -> (par (wl l s) = false -> buf (wl l s) = []).
Proof. intro H. induction l as [|x r IH]; [exact H|]. cbn. apply bufc_w. exact IH. Qed.
Lemma out_wl l s : (par s = false -> buf s = []) -> out (wl l s) = out s ++ flat l.
Proof. intro H. induction l as [|x r IH]; [cbn; rewrite app_nil_r; reflexivity|]. cbn [wl]. rewrite out_w by (apply bufc_wl; exact H).
  rewrite IH, flat_cons, app_assoc. reflexivity. Qed.

Lemma reopen_fold mt l : markup_ok mt -> forall s, fmt s = FX -> mtags s = mt ->
  exists c, fold_left (fun a sc => begin_markup_block (sc_tag sc) [] a) l s = wl c s /\
            forall stk, run (flat c) (Txt, stk) = (Txt, rev (ielems mt l) ++ stk).
Proof. intro Hm. induction l as [|sc r IH]; intros s Hf Ht.
  - exists []. split; reflexivity.
  - cbn [fold_left]. unfold begin_markup_block at 2. rewrite Hf.
    destruct (Hm (sc_tag sc) [] (ex_intro _ [] eq_refl)) as [[x [Ex Hx]] _]. rewrite (Ex s Ht).
    destruct (IH (w x s)) as [y [Ey Hy]]; [rewrite fmt_w; exact Hf|rewrite mtags_w; exact Ht|].
    exists (y ++ [x]). split; [rewrite Ey, wl_app; reflexivity|].
    intro stk. rewrite flat_app. change (flat [x]) with (x ++ []). rewrite app_nil_r, run_app, Hx, Hy. unfold ielems. cbn [map rev]. rewrite <- app_assoc. reflexivity. Qed.

Arguments run : simpl never.
Arguments rev : simpl never.
Lemma escape_fn_FX s : fmt s = FX -> escape_fn s = html_escape.
Proof. unfold fmt, escape_fn. destruct (str_eqb (format s) _); [discriminate|]. destruct (str_eqb (format s) _); [discriminate|].
  destruct (str_eqb (format s) _); [discriminate|]. reflexivity. Qed.
Lemma run_open_p stk : run [60;112;62] (Txt, stk) = (Txt, [112] :: stk). Proof. reflexivity. Qed.
Lemma rev_cons1 {A} (a : A) l : rev (a :: l) = rev l ++ [a]. Proof. reflexivity. Qed.

(* ---------- processText ---------- *)
Lemma Inv_text_open s : Inv s -> markup_ok (mtags s) -> (par s = false -> verse s = false) ->
  let s1 := if negb (par s) then reopen_spanning ((begin_paragraph s) <| par := true |>)
            else if ws s then s <| buf ::= cons [10] |> else s in
  Inv s1 /\ par s1 = true.
Proof. intros HI Hm Hv. destruct (par s) eqn:Ep; cbn [negb].
  - (* already in a paragraph: at most a newline is buffered *)
    destruct (ws s); [|split; [exact HI|exact Ep]]. split; [|exact Ep].
    apply (Inv_step s _ [10] HI).
    + change (out (s <| buf ::= cons [10] |>)) with (flat (wout s) ++ flat ([10] :: buf s)). unfold out. rewrite flat_cons. apply app_assoc.
    + reflexivity.
    + change (par (s <| buf ::= cons [10] |>)) with (par s). rewrite Ep. discriminate.
    + apply HI.
  - (* open <p>, then reopen the spanning inline markup *)
    pose proof (inv_fmt _ HI) as Hf. unfold begin_paragraph. rewrite Hf. unfold X.begin_paragraph, w. rewrite Ep.
    set (sa := s <| wout ::= cons (R "<p>") |> <| par := true |>). unfold reopen_spanning.
    destruct (reopen_fold (mtags s) (sinline sa) Hm sa Hf eq_refl) as [x [Ex Hx]]. rewrite Ex. split; [|rewrite par_wl; reflexivity].
    apply (Inv_step s _ (R "<p>" ++ flat x) HI).
    + rewrite out_wl by discriminate. change (out sa) with (flat (R "<p>" :: wout s) ++ flat (buf s)). unfold out.
      rewrite flat_cons, (inv_buf _ HI Ep), flat_nil, !app_nil_r, <- app_assoc. reflexivity.
    + unfold elems. rewrite view_wl. unfold view. cbn [sblock dtags ttitscope par verse sinline mtags sa]. cbn.
      rewrite Ep, (Hv eq_refl). cbn.
      rewrite app_nil_r. change (60 :: 112 :: 62 :: flat x) with ([60;112;62] ++ flat x). rewrite run_app, run_open_p, Hx, rev_app_distr.
      unfold ielems. change (sinline sa) with (sinline s). rewrite rev_cons1, <- app_assoc. reflexivity.
    + rewrite par_wl. discriminate.
    + rewrite fmt_wl. exact Hf.
Qed.

(* appending escaped data to the paragraph buffer *)
Lemma Inv_buf_text s t : Inv s -> par s = true -> textual t -> Inv (s <| buf ::= cons t |> <| ws := true |>).
Proof. intros HI Hp Ht. apply (Inv_step s _ t HI).
  - change (out (s <| buf ::= cons t |> <| ws := true |>)) with (flat (wout s) ++ flat (t :: buf s)). unfold out. rewrite flat_cons. apply app_assoc.
  - change (elems (s <| buf ::= cons t |> <| ws := true |>)) with (elems s). apply Ht.
  - change (par (s <| buf ::= cons t |> <| ws := true |>)) with (par s). rewrite Hp. discriminate.
  - apply HI. Qed.

Theorem Inv_process_text s : Inv s -> markup_ok (mtags s) -> process s = true -> asis s = false ->
  (par s = false -> verse s = false) -> Inv (process_text s).
Proof. intros HI Hm Hpr Has Hv. unfold process_text. rewrite Hpr, Has. cbn [negb].
  destruct (Inv_text_open s HI Hm Hv) as [HI1 Hp1]. cbv zeta in HI1, Hp1.
  set (s1 := if negb (par s) then _ else _) in *. clearbody s1.
  pose proof (render_text_eqd (text s1) s1) as He. destruct (render_text_escaped (text s1) s1) as [t0 Et].
  destruct (render_text (text s1) s1) as [t s2]. cbn [fst snd] in *.
  rewrite (escape_fn_FX _ (inv_fmt _ HI1)) in Et. subst t.
  assert (HI2 : Inv s2) by (apply (Inv_eqd _ _ He HI1)).
  assert (Hp2 : par s2 = true) by (rewrite (eqd_get par _ _ (fun _ => eq_refl) He); exact Hp1).
  set (s3 := match html_escape t0 with [] => s2 | _ => _ end).
  assert (E3 : s3 ~~ s2). { unfold s3. destruct (html_escape t0); [reflexivity|]. destruct (has_blank_line _); [apply err_eqd|reflexivity]. }
  apply Inv_buf_text; [apply (Inv_eqd _ _ E3 HI2)|rewrite (eqd_get par _ _ (fun _ => eq_refl) E3); exact Hp2|apply html_escape_textual]. Qed.

(* ---------- Bm ---------- *)
Lemma opt_render_eqd n o s : snd (opt_render n o s) ~~ s.
Proof. unfold opt_render. destruct (opt n o); [apply render_text_eqd|reflexivity]. Qed.
Lemma opt_render_escaped n o s : fmt s = FX -> escaped (fst (opt_render n o s)).
Proof. intro Hf. unfold opt_render. destruct (opt n o) as [l|].
  - destruct (render_text_escaped l s) as [t E]. exists t. rewrite E, (escape_fn_FX _ Hf). reflexivity.
  - exists []. reflexivity. Qed.
Lemma render_args_textual l : forall s, fmt s = FX -> textual (fst (render_args l s)).
Proof. induction l as [|a r IH]; intros s Hf; [apply textual_nil|]. destruct r as [|b r'].
  - cbn. destruct (render_text_escaped a s) as [t E]. rewrite E, (escape_fn_FX _ Hf). apply html_escape_textual.
  - change (render_args (a :: b :: r') s) with (let '(x, s1) := render_text a s in let '(y, s2) := render_args (b :: r') s1 in (x ++ [32] ++ y, s2)).
    pose proof (render_text_eqd a s) as H1. destruct (render_text_escaped a s) as [t E]. destruct (render_text a s) as [x s1]. cbn [fst snd] in *.
    pose proof (IH s1) as H2. destruct (render_args (b :: r') s1) as [y s2]. cbn [fst] in *.
    rewrite E, (escape_fn_FX _ Hf). apply textual_app; [apply html_escape_textual|]. apply textual_app; [intro; reflexivity|].
    apply H2. rewrite (fmt_eqd _ _ H1). exact Hf. Qed.

(* beginPhrasingMacro, outside inline processing and outside a verse without an open line *)
Lemma Inv_begin_phrasing ns s : Inv s -> markup_ok (mtags s) -> inl s = false -> (par s = false -> verse s = false /\ scope_verse s = false) ->
  Inv (begin_phrasing ns s) /\ par (begin_phrasing ns s) = true /\ mtags (begin_phrasing ns s) = mtags s /\ inl (begin_phrasing ns s) = false
  /\ sinline (begin_phrasing ns s) = sinline s /\ view (begin_phrasing ns s) = view (s <| par := true |>).
Proof. intros HI Hm Hi Hv. unfold begin_phrasing. destruct (par s) eqn:Ep.
  - assert (Hview : view s = view (s <| par := true |>)) by (unfold view; cbn; rewrite Ep; reflexivity).
    destruct (ws s && negb ns).
    + rewrite Hi. split; [|rewrite par_w, mtags_w, view_w; repeat split; try assumption; unfold w; rewrite Ep; first [reflexivity | exact Hi]].
      apply (Inv_step s _ [10] HI).
      * apply out_w. rewrite Ep. discriminate.
      * unfold elems. rewrite view_w. reflexivity.
      * rewrite par_w, Ep. discriminate.
      * rewrite fmt_w. apply HI.
    + split; [exact HI|]. repeat split; first [assumption | reflexivity | exact Ep].
  - destruct (Hv eq_refl) as [Hv1 Hv2]. rewrite Hi, Hv2. cbn [negb andb].
    pose proof (inv_fmt _ HI) as Hf. unfold begin_paragraph. rewrite Hf. unfold X.begin_paragraph.
    set (sa := s <| wout ::= cons (R "<p>") |>).
    assert (Ewp : w (R "<p>") s = sa) by (unfold w; rewrite Ep; reflexivity). rewrite !Ewp. unfold reopen_spanning.
    destruct (reopen_fold (mtags s) (sinline sa) Hm sa Hf eq_refl) as [x [Ex Hx]]. rewrite !Ex.
    assert (Epa : par sa = false) by exact Ep.
    assert (Hba : par sa = false -> buf sa = []) by (intros _; exact (inv_buf _ HI Ep)).
    assert (HI' : Inv (wl x sa <| par := true |>)).
    { apply (Inv_step s _ (R "<p>" ++ flat x) HI).
      * change (out (wl x sa <| par := true |>)) with (out (wl x sa)). rewrite out_wl by exact Hba.
        change (out sa) with (flat (R "<p>" :: wout s) ++ flat (buf s)). unfold out.
        rewrite flat_cons, (inv_buf _ HI Ep), flat_nil, !app_nil_r, <- app_assoc. reflexivity.
      * unfold elems. change (view (wl x sa <| par := true |>)) with (let '(a, b, c, (_, v, si, mt)) := view (wl x sa) in (a, b, c, (true, v, si, mt))).
        rewrite view_wl. unfold view. cbn [sblock dtags ttitscope par verse sinline mtags sa]. cbn.
        rewrite Hv1, Ep. cbn.
        rewrite app_nil_r. change (60 :: 112 :: 62 :: flat x) with ([60;112;62] ++ flat x). rewrite run_app, run_open_p, Hx, rev_app_distr.
        unfold ielems. change (sinline sa) with (sinline s). rewrite rev_cons1, <- app_assoc. reflexivity.
      * discriminate.
      * change (fmt (wl x sa <| par := true |>)) with (fmt (wl x sa)). rewrite fmt_wl. exact Hf. }
    split; [exact HI'|]. split; [reflexivity|].
    split; [change (mtags (wl x sa <| par := true |>)) with (mtags (wl x sa)); rewrite mtags_wl; reflexivity|].
    split; [change (inl (wl x sa <| par := true |>)) with (inl (wl x sa)); rewrite inl_wl; exact Hi|].
    split.
    + change (sinline (wl x sa <| par := true |>)) with (let '(_, _, _, (_, _, si, _)) := view (wl x sa) in si). rewrite view_wl. reflexivity.
    + change (view (wl x sa <| par := true |>)) with (let '(a, b, c, (_, v, si, mt)) := view (wl x sa) in (a, b, c, (true, v, si, mt))).
      rewrite view_wl. reflexivity.
Qed.

(* observations the invariant and the handlers below depend on; a panic record changes none of them *)
Definition obs (s : st) := (view s, out s, buf s, fmt s, inl s).
Lemma obs_eqd a b : a ~~ b -> obs a = obs b. Proof. apply eqd_get. intro; reflexivity. Qed.
Lemma obs_view a b : obs a = obs b -> view a = view b. Proof. intro H. exact (f_equal (fun t => fst (fst (fst (fst t)))) H). Qed.
Lemma obs_out a b : obs a = obs b -> out a = out b. Proof. intro H. exact (f_equal (fun t => snd (fst (fst (fst t)))) H). Qed.
Lemma obs_buf a b : obs a = obs b -> buf a = buf b. Proof. intro H. exact (f_equal (fun t => snd (fst (fst t))) H). Qed.
Lemma obs_fmt a b : obs a = obs b -> fmt a = fmt b. Proof. intro H. exact (f_equal (fun t => snd (fst t)) H). Qed.
Lemma obs_inl a b : obs a = obs b -> inl a = inl b. Proof. intro H. exact (f_equal snd H). Qed.
Lemma obs_par a b : obs a = obs b -> par a = par b. Proof. intro H. exact (f_equal (fun v => fst (fst (fst (snd v)))) (obs_view _ _ H)). Qed.
Lemma obs_mtags a b : obs a = obs b -> mtags a = mtags b. Proof. intro H. exact (f_equal (fun v => snd (snd v)) (obs_view _ _ H)). Qed.
Lemma Inv_obs a b : obs a = obs b -> Inv b -> Inv a.
Proof. intros H [H1 H2 H3]. split.
  - unfold elems. rewrite (obs_out _ _ H), (obs_view _ _ H). exact H1.
  - rewrite (obs_par _ _ H), (obs_buf _ _ H). exact H2.
  - rewrite (obs_fmt _ _ H). exact H3. Qed.
Lemma set_panic_obs m s : obs (set_panic m s) = obs s.
Proof. unfold set_panic. destruct (panicked s); reflexivity. Qed.
Lemma push_inline_spec tag id r s : exists sc s', push_inline tag id r s = s' <| sinline ::= fun l => l ++ [sc] |> /\ sc_tag sc = tag /\ obs s' = obs s.
Proof. unfold push_inline, mk_scope. destruct (cloc s) as [[[l n] f]|].
  - eexists _, s. repeat split.
  - destruct (has_cur s); eexists _, _; repeat split. apply set_panic_obs. Qed.
Lemma Inv_ws b s : Inv s -> Inv (s <| ws := b |>).
Proof. intros [H1 H2 H3]. split; assumption. Qed.
Lemma scope_verse_eqd a b : a ~~ b -> scope_verse a = scope_verse b.
Proof. apply eqd_get. intro; reflexivity. Qed.

Lemma push_elem (B P : list str) e x : open_chunk e x -> run x (Txt, rev (B ++ P)) = (Txt, rev (B ++ P ++ [e])).
Proof. intro H. rewrite H, app_assoc, (rev_app_distr (B ++ P) [e]). reflexivity. Qed.
Theorem Inv_macro_bm s : Inv s -> markup_ok (mtags s) -> process s = true -> inl s = false ->
  (par s = false -> verse s = false /\ scope_verse s = false) -> Inv (macro_bm s).
Proof. intros HI Hm Hpr Hi Hv. unfold macro_bm.
  pose proof (parse_opts_eqd specOptBm (args s) s) as E1. destruct (parse_opts specOptBm (args s) s) as [o s1]. cbn [snd] in E1.
  pose proof (opt_render_eqd "id" o s1) as E2.
  pose proof (opt_render_escaped "id" o s1) as Hid. destruct (opt_render "id" o s1) as [id s2]. cbn [fst snd] in *.
  assert (E : s2 ~~ s) by (eapply eqd_trans; eauto). clear E2.
  specialize (Hid ltac:(rewrite (fmt_eqd _ _ E1); apply HI)).
  assert (Hpr2 : process s2 = true) by (rewrite (eqd_get process _ _ (fun _ => eq_refl) E); exact Hpr). rewrite Hpr2. cbn [negb].
  assert (HI2 : Inv s2) by (apply (Inv_eqd _ _ E HI)).
  assert (Hmt2 : mtags s2 = mtags s) by (apply (eqd_get mtags _ _ (fun _ => eq_refl) E)).
  assert (Hi2 : inl s2 = false) by (rewrite (eqd_get inl _ _ (fun _ => eq_refl) E); exact Hi).
  assert (Hv2 : par s2 = false -> verse s2 = false /\ scope_verse s2 = false).
  { rewrite (scope_verse_eqd _ _ E), (eqd_get par _ _ (fun _ => eq_refl) E), (eqd_get verse _ _ (fun _ => eq_refl) E). exact Hv. }
  destruct (Inv_begin_phrasing (flag "ns" o) s2 HI2 ltac:(rewrite Hmt2; exact Hm) Hi2 Hv2) as (HI3 & Hp3 & Hmt3 & Hi3 & Hsi3 & Hview3).
  set (s3 := begin_phrasing (flag "ns" o) s2 <| ws := false |>).
  assert (HI3' : Inv s3) by (apply Inv_ws; exact HI3).
  set (r4 := match opt "t" o with Some t => _ | None => _ end).
  assert (E4 : snd r4 ~~ s3).
  { unfold r4. destruct (opt "t" o) as [t|]; [|reflexivity].
    pose proof (inlines_text_eqd t s3) as H. destruct (inlines_text t s3) as [tg s']. cbn [snd] in *.
    destruct (has_key tg (mtags s')); [exact H|]. eapply eqd_trans; [apply err_eqd|exact H]. }
  destruct r4 as [tag s4]. cbn [snd] in E4.
  assert (HI4 : Inv s4) by (apply (Inv_eqd _ _ E4 HI3')).
  assert (Hp4 : par s4 = true) by (rewrite (eqd_get par _ _ (fun _ => eq_refl) E4); exact Hp3).
  assert (Hmt4 : mtags s4 = mtags s) by (rewrite (eqd_get mtags _ _ (fun _ => eq_refl) E4), <- Hmt2; exact Hmt3).
  assert (Hi4 : inl s4 = false) by (rewrite (eqd_get inl _ _ (fun _ => eq_refl) E4); exact Hi3).
  destruct (push_inline_spec tag id (flag "r" o) s4) as (sc & s4' & Epi & Etag & E4'). rewrite Epi.
  assert (Hmt4' : mtags s4' = mtags s) by (rewrite (obs_mtags _ _ E4'); exact Hmt4).
  assert (Hp4' : par s4' = true) by (rewrite (obs_par _ _ E4'); exact Hp4).
  assert (Hi4' : inl s4' = false) by (rewrite (obs_inl _ _ E4'); exact Hi4).
  pose proof (Inv_obs _ _ E4' HI4) as HI4'.
  unfold begin_markup_block. change (fmt (s4' <| sinline ::= fun l => l ++ [sc] |>)) with (fmt s4'). rewrite (inv_fmt _ HI4').
  destruct (Hm tag id Hid) as [[x [Ex Hx]] _]. rewrite !Ex by exact Hmt4'.
  set (s5 := w x (s4' <| sinline ::= fun l => l ++ [sc] |>)).
  assert (HI5 : Inv s5).
  { apply (Inv_step s4' _ x HI4').
    - unfold s5. rewrite out_w; [reflexivity|]. change (par (s4' <| sinline ::= fun l => l ++ [sc] |>)) with (par s4'). rewrite Hp4'. discriminate.
    - unfold s5, elems. rewrite view_w. unfold view. cbn [sblock dtags ttitscope par verse sinline mtags]. cbn. rewrite Hp4'. cbn.
      unfold ielems. rewrite map_app. cbn [map]. rewrite Hmt4', Etag, app_assoc.
      exact (push_elem _ ([112] :: _ ++ _) _ x Hx).
    - unfold s5. rewrite par_w. change (par (s4' <| sinline ::= fun l => l ++ [sc] |>)) with (par s4'). rewrite Hp4'. discriminate.
    - unfold s5. rewrite fmt_w. apply HI4'. }
  assert (Hi5 : inl s5 = false) by (unfold s5; rewrite inl_w; exact Hi4').
  destruct (po_args o); [exact HI5|]. rewrite Hi5. cbn [negb]. apply (Inv_eqd _ _ (err_eqd _ _) HI5). Qed.

(* ---------- Em ---------- *)
Lemma top_pop {A} (l : list A) x : top l = Some x -> l = pop l ++ [x].
Proof. unfold top, pop. induction l as [|a r IH]; [discriminate|]. destruct r as [|b r'].
  - cbn. intro H. injection H as ->. reflexivity.
  - intro H. change (a :: b :: r' = a :: (removelast (b :: r') ++ [x])). f_equal. apply IH. exact H. Qed.
Lemma pop_elem (B P : list str) e x : close_chunk e x -> run x (Txt, rev (B ++ P ++ [e])) = (Txt, rev (B ++ P)).
Proof. intro H. rewrite app_assoc, (rev_app_distr (B ++ P) [e]). apply H. Qed.

Theorem Inv_macro_em s : Inv s -> markup_ok (mtags s) -> process s = true -> inl s = false -> Inv (macro_em s).
Proof. intros HI Hm Hpr Hi. unfold macro_em. rewrite Hpr. cbn [negb].
  pose proof (parse_opts_eqd specOptEm (args s) s) as E1. destruct (parse_opts specOptEm (args s) s) as [o s1]. cbn [snd] in E1.
  pose proof (Inv_eqd _ _ E1 HI) as HI1.
  destruct (top (sinline s1)) as [sc|] eqn:Etop; [|apply (Inv_eqd _ _ (err_eqd _ _) HI1)].
  apply top_pop in Etop.
  (* everything between the pop and the closing tag only logs *)
  set (s2 := s1 <| sinline ::= pop |>).
  set (s3 := match opt "t" o with Some t => _ | None => _ end).
  assert (E3 : s3 ~~ s2).
  { unfold s3. destruct (opt "t" o) as [t|].
    - pose proof (inlines_text_eqd t s2) as H. destruct (inlines_text t s2) as [tx s']. cbn [snd] in H.
      destruct (str_eqb tx (sc_tag sc)); [exact H|]. eapply eqd_trans; [apply err_eqd|exact H].
    - destruct (sc_req sc); [apply err_eqd|reflexivity]. }
  assert (Hi3 : inl s3 = false) by (rewrite (eqd_get inl _ _ (fun _ => eq_refl) E3); change (inl s2) with (inl s1); rewrite (eqd_get inl _ _ (fun _ => eq_refl) E1); exact Hi).
  set (r4 := match po_args o with [] => _ | a :: r => _ end).
  assert (H4 : snd r4 ~~ s2 /\ textual (fst (fst r4))).
  { unfold r4. destruct (po_args o) as [|a r]; [split; [exact E3|apply textual_nil]|].
    rewrite Hi3. cbn [negb].
    pose proof (render_text_eqd a s3) as H. destruct (render_text_escaped a s3) as [t Et]. destruct (render_text a s3) as [p s'']. cbn [fst snd] in *.
    split; [eapply eqd_trans; eauto|].
    rewrite Et, (escape_fn_FX s3); [apply html_escape_textual|]. rewrite (fmt_eqd _ _ E3). apply HI1. }
  destruct r4 as [[punct rest] s4]. cbn [fst snd] in H4. destruct H4 as (E4 & Hpunct).
  assert (Hmt1 : mtags s1 = mtags s) by (apply (eqd_get mtags _ _ (fun _ => eq_refl) E1)).
  assert (Hmt4 : mtags s4 = mtags s) by (rewrite (eqd_get mtags _ _ (fun _ => eq_refl) E4); exact Hmt1).
  assert (Hp4 : par s4 = par s1) by (apply (eqd_get par _ _ (fun _ => eq_refl) E4)).
  assert (Hf4 : fmt s4 = FX) by (rewrite (fmt_eqd _ _ E4); apply HI1).
  assert (Hi4 : inl s4 = false) by (rewrite (eqd_get inl _ _ (fun _ => eq_refl) E4); change (inl s2) with (inl s1); rewrite (eqd_get inl _ _ (fun _ => eq_refl) E1); exact Hi).
  (* the state after the closing tag *)
  set (s5 := if par s4 then end_markup_block (sc_tag sc) punct s4 else w punct s4).
  assert (HI5 : Inv s5 /\ inl s5 = false).
  { assert (Ho4 : out s4 = out s1) by (rewrite (out_eqd _ _ E4); reflexivity).
    assert (Hv4 : view s4 = view s2) by (apply view_eqd; exact E4).
    assert (Hb4 : par s4 = false -> buf s4 = []) by (rewrite (eqd_get buf _ _ (fun _ => eq_refl) E4), Hp4; apply HI1).
    unfold s5. destruct (par s4) eqn:Ep4.
    - unfold end_markup_block. rewrite Hf4. destruct (Hm (sc_tag sc) [] (ex_intro _ [] eq_refl)) as [_ Hc].
      destruct (Hc punct Hpunct) as [x [Ex Hx]]. rewrite (Ex s4 Hmt4). split; [|rewrite inl_w; exact Hi4].
      apply (Inv_step s1 _ x HI1).
      + rewrite out_w by (rewrite Ep4; discriminate). rewrite Ho4. reflexivity.
      + unfold elems. rewrite view_w, Hv4. unfold view. cbn [sblock dtags ttitscope par verse sinline mtags s2]. cbn.
        rewrite <- Hp4. cbn. rewrite Etop at 1. unfold ielems. rewrite map_app. cbn [map]. rewrite Hmt1, app_assoc.
        exact (pop_elem _ ([112] :: _ ++ _) _ x Hx).
      + rewrite par_w, Ep4. discriminate.
      + rewrite fmt_w. exact Hf4.
    - split; [|rewrite inl_w; exact Hi4]. apply (Inv_step s1 _ punct HI1).
      + rewrite out_w by (intros _; exact (Hb4 eq_refl)). rewrite Ho4. reflexivity.
      + unfold elems. rewrite view_w, Hv4. unfold view. cbn [sblock dtags ttitscope par verse sinline mtags s2]. cbn.
        rewrite <- Hp4. cbn. apply Hpunct.
      + apply bufc_w. rewrite Ep4. exact Hb4.
      + rewrite fmt_w. exact Hf4. }
  destruct HI5 as [HI5 Hi5]. clearbody s5. apply Inv_ws.
  destruct rest; [exact HI5|]. rewrite Hi5. cbn [negb]. apply (Inv_eqd _ _ (err_eqd _ _) HI5). Qed.

(* ---------- Sm ---------- *)
Lemma get_close_punct_textual l s : fmt s = FX -> textual (snd (fst (get_close_punct l s))).
Proof. intro Hf. unfold get_close_punct. destruct (rev l) as [|la rr]; [apply textual_nil|].
  pose proof (is_punct_arg_eqd la s) as E. destruct (is_punct_arg la s) as [b s1]. cbn [snd] in E. destruct b; [|apply textual_nil].
  destruct (render_text_escaped la s1) as [t Et]. destruct (render_text la s1) as [p s2]. cbn [fst snd] in *.
  rewrite Et, (escape_fn_FX s1); [apply html_escape_textual|]. rewrite (fmt_eqd _ _ E). exact Hf. Qed.

Theorem Inv_macro_sm s : Inv s -> markup_ok (mtags s) -> process s = true -> inl s = false ->
  (par s = false -> verse s = false /\ scope_verse s = false) -> Inv (macro_sm s).
Proof. intros HI Hm Hpr Hi Hv. unfold macro_sm.
  pose proof (parse_opts_eqd specOptSm (args s) s) as E1. destruct (parse_opts specOptSm (args s) s) as [o s1]. cbn [snd] in E1.
  pose proof (opt_render_eqd "id" o s1) as E2.
  pose proof (opt_render_escaped "id" o s1) as Hid. destruct (opt_render "id" o s1) as [id s2]. cbn [fst snd] in *.
  assert (E : s2 ~~ s) by (eapply eqd_trans; eauto). clear E2.
  specialize (Hid ltac:(rewrite (fmt_eqd _ _ E1); apply HI)).
  assert (Hpr2 : process s2 = true) by (rewrite (eqd_get process _ _ (fun _ => eq_refl) E); exact Hpr). rewrite Hpr2. cbn [negb].
  assert (HI2 : Inv s2) by (apply (Inv_eqd _ _ E HI)).
  destruct (po_args o) as [|a0 al] eqn:Epo; [apply (Inv_eqd _ _ (err_eqd _ _) HI2)|].
  set (r3 := if Nat.ltb 1 (List.length (a0 :: al)) then get_close_punct (a0 :: al) s2 else (a0 :: al, [], s2)).
  assert (H3 : snd r3 ~~ s2 /\ textual (snd (fst r3))).
  { unfold r3. destruct (Nat.ltb 1 (List.length (a0 :: al))); [|split; [reflexivity|apply textual_nil]].
    split; [apply get_close_punct_eqd|apply get_close_punct_textual; apply HI2]. }
  destruct r3 as [[a punct] s3]. cbn [fst snd] in H3. destruct H3 as [E3 Hpunct].
  assert (E3' : s3 ~~ s) by (eapply eqd_trans; eauto).
  assert (HI3 : Inv s3) by (apply (Inv_eqd _ _ E3' HI)).
  assert (Hmt3 : mtags s3 = mtags s) by (apply (eqd_get mtags _ _ (fun _ => eq_refl) E3')).
  assert (Hi3 : inl s3 = false) by (rewrite (eqd_get inl _ _ (fun _ => eq_refl) E3'); exact Hi).
  assert (Hv3 : par s3 = false -> verse s3 = false /\ scope_verse s3 = false).
  { rewrite (scope_verse_eqd _ _ E3'), (eqd_get par _ _ (fun _ => eq_refl) E3'), (eqd_get verse _ _ (fun _ => eq_refl) E3'). exact Hv. }
  destruct (Inv_begin_phrasing (flag "ns" o) s3 HI3 ltac:(rewrite Hmt3; exact Hm) Hi3 Hv3) as (HI4 & Hp4 & Hmt4 & Hi4 & Hsi4 & Hview4).
  set (s4 := begin_phrasing (flag "ns" o) s3) in *. clearbody s4.
  set (r5 := match opt "t" o with Some t => _ | None => _ end).
  assert (E5 : snd r5 ~~ s4).
  { unfold r5. destruct (opt "t" o) as [t|]; [|reflexivity].
    pose proof (inlines_text_eqd t s4) as H. destruct (inlines_text t s4) as [tg s']. cbn [snd] in *.
    destruct (has_key tg (mtags s')); [exact H|]. eapply eqd_trans; [apply err_eqd|exact H]. }
  destruct r5 as [tag s5]. cbn [snd] in E5.
  assert (HI5 : Inv s5) by (apply (Inv_eqd _ _ E5 HI4)).
  assert (Hp5 : par s5 = true) by (rewrite (eqd_get par _ _ (fun _ => eq_refl) E5); exact Hp4).
  assert (Hmt5 : mtags s5 = mtags s) by (rewrite (eqd_get mtags _ _ (fun _ => eq_refl) E5), Hmt4; exact Hmt3).
  unfold begin_markup_block. rewrite (inv_fmt _ HI5).
  destruct (Hm tag id Hid) as [[x [Ex Hx]] Hc]. rewrite (Ex s5 Hmt5).
  pose proof (render_args_eqd a (w x s5)) as E7. pose proof (render_args_textual a (w x s5) ltac:(rewrite fmt_w; apply HI5)) as Ht.
  destruct (render_args a (w x s5)) as [t s7]. cbn [fst snd] in *.
  assert (Hf7 : fmt s7 = FX) by (rewrite (fmt_eqd _ _ E7), fmt_w; apply HI5).
  assert (Hmt7 : mtags s7 = mtags s) by (rewrite (eqd_get mtags _ _ (fun _ => eq_refl) E7), mtags_w; exact Hmt5).
  assert (Hp7 : par s7 = true) by (rewrite (eqd_get par _ _ (fun _ => eq_refl) E7), par_w; exact Hp5).
  unfold end_markup_block. rewrite fmt_w, Hf7.
  destruct (Hc punct Hpunct) as [y [Ey Hy]]. rewrite (Ey (w t s7)) by (rewrite mtags_w; exact Hmt7).
  apply Inv_ws. apply (Inv_step s5 _ (x ++ t ++ y) HI5).
  - rewrite out_w by (rewrite par_w, Hp7; discriminate). rewrite out_w by (rewrite Hp7; discriminate).
    rewrite (out_eqd _ _ E7), out_w by (rewrite Hp5; discriminate). rewrite <- !app_assoc. reflexivity.
  - unfold elems. rewrite !view_w, (view_eqd _ _ E7), view_w.
    rewrite !run_app, Hx, Ht, Hy. reflexivity.
  - rewrite !par_w, Hp7. discriminate.
  - rewrite !fmt_w. exact Hf7.
Qed.

(* ---------- P without a title ---------- *)
Lemma close_fold mt l : markup_ok mt -> forall s, fmt s = FX -> mtags s = mt ->
  exists c, fold_left (fun a sc => end_markup_block (sc_tag sc) [] a) l s = wl c s /\
            forall stk, run (flat c) (Txt, ielems mt l ++ stk) = (Txt, stk).
Proof. intro Hm. induction l as [|sc r IH]; intros s Hf Ht.
  - exists []. split; reflexivity.
  - cbn [fold_left]. unfold end_markup_block at 2. rewrite Hf.
    destruct (Hm (sc_tag sc) [] (ex_intro _ [] eq_refl)) as [_ Hc]. destruct (Hc [] textual_nil) as [x [Ex Hx]]. rewrite (Ex s Ht).
    destruct (IH (w x s)) as [y [Ey Hy]]; [rewrite fmt_w; exact Hf|rewrite mtags_w; exact Ht|].
    exists (y ++ [x]). split; [rewrite Ey, wl_app; reflexivity|].
    intro stk. rewrite flat_app. change (flat [x]) with (x ++ []). rewrite app_nil_r, run_app. unfold ielems. cbn [map app]. rewrite Hx. apply Hy. Qed.

Lemma parse_opts_nil sp s : parse_opts sp [] s = (mkPo [] [] [], s). Proof. reflexivity. Qed.

Lemma Inv_regs0 s s' : out s' = out s -> view s' = view s -> buf s' = buf s -> format s' = format s -> Inv s -> Inv s'.
Proof. intros Ho Hv Hb Hf [A B C]. split.
  - unfold elems. rewrite Ho, Hv. exact A.
  - assert (Hp : par s' = par s) by (exact (f_equal (fun v => fst (fst (fst (snd v)))) Hv)). rewrite Hp, Hb. exact B.
  - unfold fmt in *. rewrite Hf. exact C. Qed.
Section P.
Variable pim : PIM.
Theorem Inv_macro_p_plain s : Inv s -> markup_ok (mtags s) -> process s = true -> args s = [] ->
  verse s = false -> scope_verse s = false -> Inv (macro_p pim s).
Proof. intros HI Hm Hpr Ha Hvs Hsv. unfold macro_p. rewrite Hpr, Ha, parse_opts_nil. cbn [negb po_args].
  pose proof (inv_fmt _ HI) as Hf.
  destruct (par s) eqn:Ep.
  - unfold close_spanning.
    destruct (close_fold (mtags s) (rev (sinline s)) Hm s Hf eq_refl) as [c [Ec Hc]]. rewrite Ec.
    assert (Hpc : par (wl c s) = true) by (rewrite par_wl; exact Ep).
    set (s1 := process_paragraph (wl c s)).
    assert (Hsv1 : scope_verse s1 = false).
    { unfold scope_verse. change (sblock s1) with (let '(sb, _, _, _) := view (wl c s) in sb). rewrite view_wl. exact Hsv. }
    rewrite Hsv1. cbn [andb]. unfold end_paragraph.
    assert (Hf1 : fmt s1 = FX) by (change (fmt s1) with (fmt (wl c s)); rewrite fmt_wl; exact Hf). rewrite Hf1. unfold X.end_paragraph.
    assert (Hp1 : par s1 = false) by reflexivity.
    assert (Hw : w (R "</p>" ++ NLs) s1 = s1 <| wout ::= cons (R "</p>" ++ NLs) |>) by (unfold w; rewrite Hp1; reflexivity). rewrite Hw.
    apply (Inv_step s _ (flat c ++ R "</p>" ++ NLs) HI).
    + unfold out. cbn [wout buf]. unfold s1, process_paragraph, format_paragraph. rewrite fmt_wl, Hf. unfold X.format_paragraph, wo. cbn.
      rewrite !flat_cons, flat_nil, app_nil_r. change (flat (wout (wl c s)) ++ flat (buf (wl c s))) with (out (wl c s)).
      rewrite out_wl by (rewrite Ep; discriminate). unfold out. rewrite <- !app_assoc. reflexivity.
    + unfold elems at 2. set (v2 := view _).
      assert (Ev2 : v2 = (sblock s, dtags s, ttitscope s, (false, false, sinline s, mtags s))).
      { unfold v2, view. cbn. unfold s1, process_paragraph, wo. cbn.
        change (sblock (wl c s)) with (let '(sb, _, _, _) := view (wl c s) in sb).
        change (dtags (wl c s)) with (let '(_, dt, _, _) := view (wl c s) in dt).
        change (ttitscope (wl c s)) with (let '(_, _, t3, _) := view (wl c s) in t3).
        change (sinline (wl c s)) with (let '(_, _, _, (_, _, si, _)) := view (wl c s) in si).
        change (mtags (wl c s)) with (let '(_, _, _, (_, _, _, mt)) := view (wl c s) in mt).
        rewrite view_wl. reflexivity. }
      rewrite Ev2. unfold elems, view, elems_v. rewrite Ep, Hvs. cbn [app]. rewrite app_nil_r.
      rewrite run_app. rewrite rev_app_distr, rev_cons1, <- app_assoc. unfold ielems at 1. rewrite <- map_rev. fold (ielems (mtags s) (rev (sinline s))).
      rewrite Hc. reflexivity.
    + reflexivity.
    + exact Hf1.
  - unfold end_paragraph. rewrite Hf. unfold X.end_paragraph.
    apply (Inv_regs0 s); try reflexivity; [|exact HI].
    unfold view. cbn. rewrite Ep, Hvs. reflexivity.
Qed.
End P.

(* the paragraph break at the start of macroP, for any arguments *)
Definition p_break (s1 : st) : st :=
  if par s1 then
    let s' := process_paragraph (close_spanning s1) in
    if scope_verse s' && verse s' then end_stanza s' else end_paragraph PNormal s'
  else (end_paragraph PForced s1) <| par := false |>.
Lemma Inv_p_break s : Inv s -> markup_ok (mtags s) -> verse s = false -> scope_verse s = false ->
  Inv (p_break s) /\ view (p_break s) = (sblock s, dtags s, ttitscope s, (false, false, sinline s, mtags s)).
Proof. intros HI Hm Hvs Hsv. unfold p_break.
  pose proof (inv_fmt _ HI) as Hf.
  destruct (par s) eqn:Ep.
  - unfold close_spanning.
    destruct (close_fold (mtags s) (rev (sinline s)) Hm s Hf eq_refl) as [c [Ec Hc]]. rewrite Ec.
    assert (Hpc : par (wl c s) = true) by (rewrite par_wl; exact Ep).
    set (s1 := process_paragraph (wl c s)).
    assert (Hsv1 : scope_verse s1 = false).
    { unfold scope_verse. change (sblock s1) with (let '(sb, _, _, _) := view (wl c s) in sb). rewrite view_wl. exact Hsv. }
    cbv zeta. rewrite Hsv1. cbn [andb]. unfold end_paragraph.
    assert (Hf1 : fmt s1 = FX) by (change (fmt s1) with (fmt (wl c s)); rewrite fmt_wl; exact Hf). rewrite Hf1. unfold X.end_paragraph.
    assert (Hp1 : par s1 = false) by reflexivity.
    assert (Hw : w (R "</p>" ++ NLs) s1 = s1 <| wout ::= cons (R "</p>" ++ NLs) |>) by (unfold w; rewrite Hp1; reflexivity). rewrite Hw.
    assert (Ev2 : view (s1 <| wout ::= cons (R "</p>" ++ NLs) |>) = (sblock s, dtags s, ttitscope s, (false, false, sinline s, mtags s))).
    { unfold view. cbn. unfold s1, process_paragraph, wo. cbn.
      change (sblock (wl c s)) with (let '(sb, _, _, _) := view (wl c s) in sb).
      change (dtags (wl c s)) with (let '(_, dt, _, _) := view (wl c s) in dt).
      change (ttitscope (wl c s)) with (let '(_, _, t3, _) := view (wl c s) in t3).
      change (verse (wl c s)) with (let '(_, _, _, (_, v, _, _)) := view (wl c s) in v).
      change (sinline (wl c s)) with (let '(_, _, _, (_, _, si, _)) := view (wl c s) in si).
      change (mtags (wl c s)) with (let '(_, _, _, (_, _, _, mt)) := view (wl c s) in mt).
      rewrite view_wl. unfold view. rewrite Hvs. reflexivity. }
    split; [|exact Ev2].
    apply (Inv_step s _ (flat c ++ R "</p>" ++ NLs) HI).
    + unfold out. cbn [wout buf]. unfold s1, process_paragraph, format_paragraph. rewrite fmt_wl, Hf. unfold X.format_paragraph, wo. cbn.
      rewrite !flat_cons, flat_nil, app_nil_r. change (flat (wout (wl c s)) ++ flat (buf (wl c s))) with (out (wl c s)).
      rewrite out_wl by (rewrite Ep; discriminate). unfold out. rewrite <- !app_assoc. reflexivity.
    + unfold elems at 2. rewrite Ev2. unfold elems, view, elems_v. rewrite Ep, Hvs. cbn [app]. rewrite app_nil_r.
      rewrite run_app. rewrite rev_app_distr, rev_cons1, <- app_assoc. unfold ielems at 1. rewrite <- map_rev. fold (ielems (mtags s) (rev (sinline s))).
      rewrite Hc. reflexivity.
    + reflexivity.
    + exact Hf1.
  - unfold end_paragraph. rewrite Hf. unfold X.end_paragraph.
    assert (Ev : view (s <| par := false |>) = (sblock s, dtags s, ttitscope s, (false, false, sinline s, mtags s))) by (unfold view; cbn; rewrite Hvs; reflexivity).
    split; [|exact Ev].
    apply (Inv_regs0 s); try reflexivity; [|exact HI].
    rewrite Ev. unfold view. rewrite Ep, Hvs. reflexivity.
Qed.
Lemma run_ptitle t : (forall stk, run t (Txt, stk) = (Txt, stk)) ->
  forall stk, run (R "<p class=""paragraph""><strong class=""paragraph"">" ++ t ++ R "</strong>" ++ NLs) (Txt, stk) = (Txt, R "p" :: stk).
Proof. intros Ht stk. rewrite run_app. change (run (R "<p class=""paragraph""><strong class=""paragraph"">") (Txt, stk)) with (Txt, R "strong" :: R "p" :: stk).
  rewrite run_app, Ht. reflexivity. Qed.
End Base.
