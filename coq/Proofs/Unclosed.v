(* C07, local steps of the end-of-file sweep: one diagnostic per conditional left open, in order of opening; nothing
   when nothing is open. *)
From Coq Require Import List NArith Bool Lia Arith String.
Import ListNotations.
Require Import Xhtml Exp Proc1 Proc2 Proc3 Ctl Loop Eqd Tok Inv EqF InvI TocStr FragB.
Open Scope N_scope.

Lemma err_not_quiet k s : quiet s = false -> exists d, err k s = s <| diags ::= cons d |> /\ d_kind d = runes k.
Proof. intro Hq. unfold err. rewrite Hq. destruct (cloc s) as [[[l n] f]|]; eexists; split; reflexivity. Qed.
Lemma quiet_err k s : quiet (err k s) = quiet s.
Proof. unfold err. destruct (quiet s) eqn:E; [exact E|]. destruct (cloc s) as [[[l n] f]|]; exact E. Qed.

(* the loop over the open conditionals *)
Lemma warn_fold l : forall s, quiet s = false ->
  let s' := fold_left (fun a sc => warn_unclosed sc a) l s in
  exists ds, diags s' = ds ++ diags s /\ List.length ds = List.length l /\ Forall (fun d => d_kind d = R "unclosed scope") ds /\ quiet s' = false.
Proof. induction l as [|sc r IH]; intros s Hq.
  - exists []. cbn. repeat split; [constructor|exact Hq].
  - cbn [fold_left]. unfold warn_unclosed at 2. destruct (err_not_quiet "unclosed scope" s Hq) as (d & E & Hk).
    assert (Hq1 : quiet (err "unclosed scope" s) = false) by (rewrite quiet_err; exact Hq).
    destruct (IH (err "unclosed scope" s) Hq1) as (ds & Hd & Hl & Hf & Hq2). cbv zeta in *.
    exists (ds ++ [d]). rewrite Hd, E. cbn [diags]. change (diags (s <| diags ::= cons d |>)) with (d :: diags s).
    rewrite <- app_assoc. split; [reflexivity|]. split; [rewrite app_length, Hl; cbn; lia|]. split; [|exact Hq2].
    apply Forall_app. split; [exact Hf|constructor; [exact Hk|constructor]].
Qed.
Theorem open_conditionals_are_reported l s : quiet s = false ->
  let s' := fold_left (fun a sc => warn_unclosed sc a) l s in
  exists ds, diags s' = ds ++ diags s /\ List.length ds = List.length l /\ Forall (fun d => d_kind d = R "unclosed scope") ds.
Proof. intro Hq. destruct (warn_fold l s Hq) as (ds & A & B & C & _). exists ds. auto. Qed.
Theorem nothing_open_nothing_reported s : fold_left (fun a sc => warn_unclosed sc a) [] s = s.
Proof. reflexivity. Qed.
(* a filter region or a definition left open at the end of file is reported as well *)
Theorem open_filter_or_definition_is_reported s : quiet s = false -> (bf s <> None \/ udef s <> None) ->
  let s6 := match bf s with Some _ => err "found End Of File while Bf isn't closed" s | None => s end in
  let s7 := match udef s6 with Some _ => err "found End Of File while #de isn't closed" s6 | None => s6 end in
  exists d r, diags s7 = d :: r.
Proof. intros Hq H. cbv zeta. destruct (bf s) as [b|] eqn:Eb.
  - destruct (err_not_quiet "found End Of File while Bf isn't closed" s Hq) as (d & E & _).
    destruct (udef (err _ s)) eqn:Eu.
    + destruct (err_not_quiet "found End Of File while #de isn't closed" (err "found End Of File while Bf isn't closed" s) ltac:(rewrite quiet_err; exact Hq)) as (d2 & E2 & _).
      rewrite E2. eexists _, _. reflexivity.
    + rewrite E. eexists _, _. reflexivity.
  - destruct H as [H|H]; [congruence|]. destruct (udef s) as [u|] eqn:Eu; [|congruence].
    destruct (err_not_quiet "found End Of File while #de isn't closed" s Hq) as (d & E & _). rewrite E. eexists _, _. reflexivity.
Qed.

(* ---------- under [quiet] nothing is logged: the helpers of macroEm ---------- *)
Definition QS (s s' : st) : Prop := quiet s' = true /\ diags s' = diags s.
Lemma QS_refl s : quiet s = true -> QS s s. Proof. intro H. split; [exact H|reflexivity]. Qed.
Lemma QS_trans a b c : QS a b -> QS b c -> QS a c. Proof. intros [A1 A2] [B1 B2]. split; [exact B1|rewrite B2; exact A2]. Qed.
Lemma err_quiet k s : quiet s = true -> err k s = s. Proof. intro H. unfold err. rewrite H. reflexivity. Qed.
Lemma QS_err k s : quiet s = true -> QS s (err k s). Proof. intro H. rewrite (err_quiet k s H). apply QS_refl, H. Qed.
Lemma QS_w x s : quiet s = true -> QS s (w x s). Proof. intro H. unfold w. destruct (par s); split; assumption || reflexivity. Qed.
Lemma QS_inline_text i s : quiet s = true -> QS s (snd (inline_text i s)).
Proof. intro H. destruct i; cbn; try (apply QS_refl, H). destruct (assoc _ _); cbn; [apply QS_refl, H|].
  match goal with |- context [match ?x with [] => _ | _ => _ end] => destruct x as [|c r] end; cbn; [apply QS_err, H|].
  destruct (c =? 36) eqn:E; [|]. 
  - apply N.eqb_eq in E. subst c. apply QS_refl, H.
  - destruct c; try (apply QS_err, H). repeat (match goal with |- context [match ?x with _ => _ end] => destruct x end; cbn; try (apply QS_refl, H); try (apply QS_err, H)). Qed.
Lemma QS_inlines_text l : forall s, quiet s = true -> QS s (snd (inlines_text l s)).
Proof. induction l as [|i r IH]; intros s H; cbn; [apply QS_refl, H|].
  pose proof (QS_inline_text i s H) as H1. destruct (inline_text i s) as [a s1]. cbn in H1.
  pose proof (IH s1 (proj1 H1)) as H2. destruct (inlines_text r s1) as [b s2]. cbn in *. eapply QS_trans; eauto. Qed.
Lemma QS_errs_n n : forall s, quiet s = true -> QS s (errs_n n s).
Proof. induction n as [|n IH]; intros s H; cbn; [apply QS_refl, H|]. rewrite (err_quiet _ s H). apply IH, H. Qed.
Lemma QS_render_text l s : quiet s = true -> QS s (snd (render_text l s)).
Proof. intro H. unfold render_text.
  destruct (str_eqb (lang s) _).
  - destruct (Typo.french _) as [o n]. pose proof (QS_errs_n n s H) as H0. pose proof (QS_inlines_text (map of_typo o) (errs_n n s) (proj1 H0)) as H1.
    destruct (inlines_text _ _) as [t s2]. cbn in *. eapply QS_trans; eauto.
  - destruct (str_eqb (lang s) _).
    + pose proof (QS_inlines_text (map of_typo (Typo.english (map to_typo l))) s H) as H1. destruct (inlines_text _ _) as [t s2]. exact H1.
    + pose proof (QS_inlines_text l s H) as H1. destruct (inlines_text _ _) as [t s2]. exact H1.
Qed.
Lemma QS_render_args l : forall s, quiet s = true -> QS s (snd (render_args l s)).
Proof. induction l as [|a r IH]; intros s H; [apply QS_refl, H|]. destruct r as [|b r'].
  - apply QS_render_text, H.
  - change (render_args (a :: b :: r') s) with (let '(x, s1) := render_text a s in let '(y, s2) := render_args (b :: r') s1 in (x ++ [32] ++ y, s2)).
    pose proof (QS_render_text a s H) as H1. destruct (render_text a s) as [x s1]. cbn [snd] in H1.
    pose proof (IH s1 (proj1 H1)) as H2. destruct (render_args (b :: r') s1) as [y s2]. cbn [snd] in *. eapply QS_trans; eauto. Qed.
Lemma QS_parse_options f sp : forall l acc s, quiet s = true -> QS s (snd (parse_options f sp l acc s)).
Proof. induction f as [|f IH]; intros l acc s H; [apply QS_refl, H|]. cbn [parse_options].
  destruct l as [|a rest]; [apply QS_refl, H|].
  destruct a as [|i a']; [apply QS_refl, H|]. destruct i; try (apply QS_refl, H). destruct s0 as [|c t0]; [apply QS_refl, H|].
  destruct (c =? 45) eqn:Ec; [apply N.eqb_eq in Ec; subst c|].
  2:{ destruct c; try (apply QS_refl, H). repeat (match goal with |- context [match ?p with _ => _ end] => destruct p end; try (apply QS_refl, H)); cbn in Ec; try discriminate. }
  match goal with |- context [inlines_text ?x s] => pose proof (QS_inlines_text x s H) as H1; destruct (inlines_text x s) as [full s1] end. cbn [snd] in H1.
  assert (He : forall k, QS s (err k s1) /\ quiet (err k s1) = true).
  { intro k. pose proof (QS_err k s1 (proj1 H1)) as H2. split; [eapply QS_trans; eauto|exact (proj1 H2)]. }
  destruct (assoc (tl full) sp) as [[|]|].
  - destruct rest as [|v rest2].
    + eapply QS_trans; [exact (proj1 (He "option requires an argument"%string))|apply IH, He].
    + eapply QS_trans; [exact H1|apply IH, H1].
  - eapply QS_trans; [exact H1|apply IH, H1].
  - eapply QS_trans; [exact (proj1 (He "unrecognized option"%string))|apply IH, He].
Qed.
Lemma QS_parse_opts sp l s : quiet s = true -> QS s (snd (parse_opts sp l s)).
Proof. apply QS_parse_options. Qed.

Lemma QS_is_punct_arg a s : quiet s = true -> QS s (snd (is_punct_arg a s)).
Proof. intro H. unfold is_punct_arg.
  destruct (match a with IEsc e :: r => _ | _ => (a, false) end) as [a1 stop]. destruct stop; [apply QS_refl, H|].
  destruct a1 as [|i r]; [apply QS_refl, H|]. pose proof (QS_inlines_text (i :: r) s H) as H1. destruct (inlines_text (i :: r) s) as [t s1]. exact H1. Qed.
Lemma QS_setter s s' : quiet s' = quiet s -> diags s' = diags s -> quiet s = true -> QS s s'.
Proof. intros A B H. split; [rewrite A; exact H|exact B]. Qed.

(* macroEm under quiet: the scope is closed, nothing is reported *)
Lemma QS_macro_em s : fmt s = FX -> quiet s = true -> QS s (macro_em s).
Proof. intros Hf H. unfold macro_em. destruct (negb (process s)); [apply QS_refl, H|].
  pose proof (QS_parse_opts specOptEm (args s) s H) as H1. pose proof (parse_opts_eqd specOptEm (args s) s) as E1.
  destruct (parse_opts specOptEm (args s) s) as [o s1]. cbn [snd] in H1, E1.
  destruct (top (sinline s1)) as [sc|]; [|eapply QS_trans; [exact H1|apply QS_err, H1]].
  set (s2 := s1 <| sinline ::= pop |>).
  assert (H2 : QS s s2) by (eapply QS_trans; [exact H1|apply QS_setter; [reflexivity|reflexivity|exact (proj1 H1)]]).
  assert (Hf2 : fmt s2 = FX) by (unfold fmt; change (format s2) with (format s1); rewrite (eqd_get format _ _ (fun _ => eq_refl) E1); exact Hf).
  set (s3 := match opt "t" o with
             | Some t => let '(tx, s') := inlines_text t s2 in if str_eqb tx (sc_tag sc) then s' else err "tag mismatch" s'
             | None => if sc_req sc then err "missing required tag" s2 else s2
             end).
  set (r4 := match po_args o with
             | [] => ([], [], s3)
             | a :: r =>
                 let '(use, s') := if negb (inl s3) then (true, s3) else is_punct_arg a s3 in
                 if use then let '(p, s'') := render_text a s' in (p, r, s'') else ([], a :: r, s')
             end).
  assert (H3 : QS s s3 /\ fmt s3 = FX).
  { unfold s3. destruct (opt "t" o) as [t|].
    - pose proof (QS_inlines_text t s2 (proj1 H2)) as Ht. pose proof (inlines_text_eqd t s2) as Et. destruct (inlines_text t s2) as [tx s']. cbn [snd] in Ht, Et.
      assert (Hf' : fmt s' = FX) by (rewrite (Inv.fmt_eqd _ _ Et); exact Hf2).
      destruct (str_eqb tx (sc_tag sc)); [split; [eapply QS_trans; eauto|exact Hf']|].
      rewrite (err_quiet _ s' (proj1 Ht)). split; [eapply QS_trans; eauto|exact Hf'].
    - destruct (sc_req sc); [rewrite (err_quiet _ s2 (proj1 H2))|]; split; assumption. }
  destruct H3 as [H3 Hf3]. clearbody s3.
  assert (H4 : QS s (snd r4) /\ fmt (snd r4) = FX).
  { unfold r4. destruct (po_args o) as [|a r]; [split; assumption|].
    set (u := if negb (inl s3) then (true, s3) else is_punct_arg a s3).
    assert (Hu : QS s (snd u) /\ fmt (snd u) = FX).
    { unfold u. destruct (negb (inl s3)); [split; assumption|]. pose proof (QS_is_punct_arg a s3 (proj1 H3)) as Hp.
      assert (Ep : snd (is_punct_arg a s3) ~~ s3).
      { unfold is_punct_arg. destruct (match a with IEsc e :: r0 => _ | _ => (a, false) end) as [a1 stop]. destruct stop; [reflexivity|].
        destruct a1 as [|i0 r0]; [reflexivity|]. pose proof (inlines_text_eqd (i0 :: r0) s3) as Ei. destruct (inlines_text (i0 :: r0) s3) as [tt ss]. exact Ei. }
      split; [eapply QS_trans; eauto|rewrite (Inv.fmt_eqd _ _ Ep); exact Hf3]. }
    destruct u as [use s']. cbn [snd] in Hu. destruct Hu as [Hu Hfu]. destruct use; [|split; assumption].
    pose proof (QS_render_text a s' (proj1 Hu)) as Hr. pose proof (render_text_eqd a s') as Er. destruct (render_text a s') as [pp s'']. cbn [snd] in *.
    split; [eapply QS_trans; eauto|rewrite (Inv.fmt_eqd _ _ Er); exact Hfu]. }
  destruct r4 as [[punct rest] s4]. cbn [snd] in H4. destruct H4 as [H4 Hf4].
  set (s5 := if par s4 then end_markup_block (sc_tag sc) punct s4 else w punct s4).
  assert (H5 : QS s s5 /\ fmt s5 = FX).
  { unfold s5. destruct (par s4).
    - unfold end_markup_block. rewrite Hf4. unfold X.end_markup_block. destruct (assoc _ _); (split; [eapply QS_trans; [exact H4|apply QS_w, H4]|rewrite Inv.fmt_w; exact Hf4]).
    - split; [eapply QS_trans; [exact H4|apply QS_w, H4]|rewrite Inv.fmt_w; exact Hf4]. }
  destruct H5 as [H5 Hf5]. clearbody s5.
  assert (H6 : QS s (match rest with [] => s5 | _ => if negb (inl s5) then err "useless args in macro Em" s5 else let '(t, s') := render_args rest s5 in w t s' end)).
  { destruct rest as [|r0 rr]; [exact H5|]. destruct (negb (inl s5)); [rewrite (err_quiet _ s5 (proj1 H5)); exact H5|].
    pose proof (QS_render_args (r0 :: rr) s5 (proj1 H5)) as Hr. destruct (render_args (r0 :: rr) s5) as [t s']. cbn [snd] in Hr.
    eapply QS_trans; [exact H5|]. eapply QS_trans; [exact Hr|apply QS_w, Hr]. }
  eapply QS_trans; [exact H6|]. apply QS_setter; [reflexivity|reflexivity|exact (proj1 H6)].
Qed.

(* closeUnclosedScopes(scopeInline): one "unclosed scope" diagnostic per open inline scope, and all of them are closed *)
Lemma pop_length' {A} (l : list A) : List.length (pop l) = (List.length l - 1)%nat.
Proof. unfold pop. induction l as [|x r IH]; [reflexivity|]. destruct r as [|y r']; [reflexivity|]. cbn [removelast List.length] in *. rewrite IH. lia. Qed.
Lemma top_none' {A} (l : list A) : top l = None -> l = [].
Proof. unfold top. destruct l as [|x r]; [reflexivity|]. cbn [map]. intro H. exfalso. revert x H. induction r as [|y r IH]; intros x H; [discriminate|]. exact (IH y H). Qed.
Theorem open_inline_scopes_are_reported cur : forall f s, fmt s = FX -> markup_ok (mtags s) -> process s = true -> quiet s = false ->
  (List.length (sinline s) <= f)%nat ->
  let s' := close_inline_loop f cur s in
  exists ds, diags s' = ds ++ diags s /\ List.length ds = List.length (sinline s) /\
             Forall (fun d => d_kind d = R "unclosed scope") ds /\ sinline s' = [] /\ quiet s' = false.
Proof. induction f as [|f IH]; intros s Hf Hm Hp Hq Hl.
  - cbn. assert (E : sinline s = []) by (destruct (sinline s); [reflexivity|cbn in Hl; lia]). exists []. rewrite E. repeat split; [constructor|exact Hq].
  - cbn [close_inline_loop]. destruct (top (sinline s)) as [sc|] eqn:Et.
    2:{ pose proof (top_none' _ Et) as E. exists []. rewrite E. cbn. repeat split; [constructor|exact Hq]. }
    set (sm := s <| macro := cur |>).
    destruct (err_not_quiet "unclosed scope" sm Hq) as (d & Ed & Hk). unfold warn_unclosed. rewrite Ed.
    set (s2 := sm <| diags ::= cons d |> <| macro := R "Em" |> <| args := tag_args (sc_tag sc) |>).
    change (quiet s2) with (quiet s). rewrite Hq.
    set (s2q := s2 <| quiet := true |>).
    assert (Hf2 : fmt s2q = FX) by exact Hf. assert (Hm2 : markup_ok (mtags s2q)) by exact Hm.
    destruct (macro_em_eqf s2q Hf2 Hm2) as [F Hpop]. specialize (Hpop Hp).
    pose proof (QS_macro_em s2q Hf2 eq_refl) as [_ Hd].
    set (s3 := macro_em s2q <| quiet := false |> <| args := [] |>).
    assert (Hsi3 : sinline s3 = pop (sinline s)) by exact Hpop.
    destruct (IH s3) as (ds & A & B & C & D & Q).
    + unfold fmt. change (format s3) with (format (macro_em s2q)). rewrite (eqf_get format _ _ (fun _ => eq_refl) F). exact Hf.
    + change (mtags s3) with (mtags (macro_em s2q)). rewrite (mtags_eqf _ _ F). exact Hm.
    + change (process s3) with (process (macro_em s2q)). rewrite (eqf_get process _ _ (fun _ => eq_refl) F). exact Hp.
    + reflexivity.
    + rewrite Hsi3, pop_length'. lia.
    + cbv zeta in A, B, C, D, Q. exists (ds ++ [d]). rewrite A. change (diags s3) with (diags (macro_em s2q)). rewrite Hd.
      change (diags s2q) with (d :: diags s). rewrite <- app_assoc. split; [reflexivity|].
      split; [rewrite app_length, B, Hsi3, pop_length'; cbn [List.length]; destruct (sinline s) as [|x r]; [discriminate Et|cbn [List.length]; lia]|].
      split; [apply Forall_app; split; [exact C|constructor; [exact Hk|constructor]]|split; [exact D|exact Q]].
Qed.

(* ---------- blocks (display blocks, as in the sub-language of FragB.v): macroEd logs nothing under quiet ---------- *)
Lemma QS_close_inline_loop cur : forall f s, fmt s = FX -> markup_ok (mtags s) -> quiet s = true -> QS s (close_inline_loop f cur s).
Proof. induction f as [|f IH]; intros s Hf Hm H; [apply QS_refl, H|]. cbn [close_inline_loop].
  destruct (top (sinline s)) as [sc|]; [|apply QS_refl, H].
  set (sm := s <| macro := cur |>).
  assert (Esm : err "unclosed scope" sm = sm) by (apply err_quiet; exact H). unfold warn_unclosed. rewrite Esm.
  set (s2 := sm <| macro := R "Em" |> <| args := tag_args (sc_tag sc) |>).
  change (quiet s2) with (quiet s). rewrite H.
  set (s2q := s2 <| quiet := true |>).
  assert (Hf2 : fmt s2q = FX) by exact Hf. assert (Hm2 : markup_ok (mtags s2q)) by exact Hm.
  pose proof (QS_macro_em s2q Hf2 eq_refl) as H3. destruct (macro_em_eqf s2q Hf2 Hm2) as [F _].
  set (s3 := macro_em s2q <| quiet := true |> <| args := [] |>).
  assert (H3' : QS s s3) by (split; [reflexivity|exact (proj2 H3)]).
  eapply QS_trans; [exact H3'|]. apply IH; [|change (mtags s3) with (mtags (macro_em s2q)); rewrite (mtags_eqf _ _ F); exact Hm|reflexivity].
  unfold fmt. change (format s3) with (format (macro_em s2q)). rewrite (eqf_get format _ _ (fun _ => eq_refl) F). exact Hf. Qed.
Lemma quiet_regs r m a : quiet (r <| macro := m |> <| args := a |>) = quiet r. Proof. destruct r; reflexivity. Qed.
Lemma diags_regs r m a : diags (r <| macro := m |> <| args := a |>) = diags r. Proof. destruct r; reflexivity. Qed.
Lemma QS_close_unclosed_inline s : fmt s = FX -> markup_ok (mtags s) -> quiet s = true -> QS s (close_unclosed_inline s).
Proof. intros Hf Hm H. unfold close_unclosed_inline. destruct (sinline s) as [|x l]; [apply QS_refl, H|].
  cbv zeta.
  match goal with |- context [close_inline_loop ?f ?c ?y] =>
    assert (Hfy : fmt y = FX) by exact Hf; assert (Hmy : markup_ok (mtags y)) by exact Hm; assert (Hqy : quiet y = true) by exact H;
    pose proof (QS_close_inline_loop c f y Hfy Hmy Hqy) as [A B]; assert (Hdy : diags y = diags s) by reflexivity end.
  split; [rewrite quiet_regs; exact A|rewrite diags_regs, B; exact Hdy]. Qed.
Lemma QS_end_par b s : fmt s = FX -> quiet s = true -> QS s (end_par b s).
Proof. intros Hf H. unfold end_par. destruct (par s); [|apply QS_refl, H]. cbv zeta.
  set (s' := process_paragraph s).
  assert (H1 : QS s s') by (split; [exact H|reflexivity]).
  assert (Hf1 : fmt s' = FX) by exact Hf.
  destruct (scope_verse s' && verse s').
  - unfold end_stanza. rewrite Hf1. unfold X.end_stanza, X.end_paragraph.
    set (a := w (R "</span>" ++ NLs) s'). set (a2 := w (R "</p>" ++ NLs) a).
    assert (Ha : QS s a) by (eapply QS_trans; [exact H1|apply QS_w; exact (proj1 H1)]).
    assert (Hb : QS s a2) by (eapply QS_trans; [exact Ha|apply QS_w; exact (proj1 Ha)]).
    eapply QS_trans; [exact Hb|]. apply QS_setter; [reflexivity|reflexivity|exact (proj1 Hb)].
  - unfold end_paragraph. rewrite Hf1. unfold X.end_paragraph.
    destruct b; try exact H1; (eapply QS_trans; [exact H1|apply QS_w; exact (proj1 H1)]).
Qed.

Section Blocks.
Variable K : tocinfo * list lox.
Variable BASE : list str.
Variable MD : nat.
Local Notation P := (FragB.P K BASE MD).

Lemma QS_macro_ed s : P true s -> quiet s = true -> QS s (macro_ed s).
Proof. intros HP H. pose proof HP as (HS & Hsb & Hpr & _). unfold macro_ed. destruct (closer_fuel_S s) as [f ->]. rewrite closers_ed, closers_cub.
  unfold ed_body. rewrite (scope_verse_bd _ Hsb), Hpr. cbn [negb].
  pose proof (QS_parse_opts specOptEd (args s) s H) as H1. pose proof (parse_opts_eqd specOptEd (args s) s) as E1.
  destruct (parse_opts specOptEd (args s) s) as [o s1]. cbn [snd] in H1, E1.
  set (s2 := match po_args o with [] => s1 | _ => err "useless arguments" s1 end).
  assert (H2 : QS s s2 /\ s2 ~~ s).
  { unfold s2. destruct (po_args o); [split; assumption|]. rewrite (err_quiet _ s1 (proj1 H1)). split; assumption. }
  destruct H2 as [H2 E2]. clearbody s2.
  destruct (last_scope "Bd" (sblock s2)) as [sc|]; [|eapply QS_trans; [exact H2|apply QS_err, H2]].
  set (s3 := match opt "t" o with
             | Some t => let '(tx, s') := inlines_text t s2 in if str_eqb tx (sc_tag sc) then s' else err "tag mismatch" s'
             | None => if sc_req sc then err "missing required tag" s2 else s2
             end).
  assert (H3 : QS s s3 /\ s3 ~~ s).
  { unfold s3. destruct (opt "t" o) as [t|].
    - pose proof (QS_inlines_text t s2 (proj1 H2)) as Ht. pose proof (inlines_text_eqd t s2) as Et. destruct (inlines_text t s2) as [tx s']. cbn [snd] in Ht, Et.
      assert (Es' : s' ~~ s) by (eapply eqd_trans; eauto).
      destruct (str_eqb tx (sc_tag sc)); [split; [eapply QS_trans; eauto|exact Es']|].
      rewrite (err_quiet _ s' (proj1 Ht)). split; [eapply QS_trans; eauto|exact Es'].
    - destruct (sc_req sc); [rewrite (err_quiet _ s2 (proj1 H2))|]; split; assumption. }
  destruct H3 as [H3 E3]. clearbody s3.
  assert (Hf3 : fmt s3 = FX) by (rewrite (Inv.fmt_eqd _ _ E3); exact (sd_fmt _ _ _ _ HS)).
  assert (Hm3 : markup_ok (mtags s3)) by (rewrite (eqd_get mtags _ _ (fun _ => eq_refl) E3); exact (sd_mk _ _ _ _ HS)).
  pose proof (QS_close_unclosed_inline s3 Hf3 Hm3 (proj1 H3)) as H4.
  pose proof (close_unclosed_inline_eqf s3 Hf3 Hm3) as F4.
  set (s4 := close_unclosed_inline s3) in *. clearbody s4.
  assert (Hsb4 : Forall is_bd (sblock s4)) by (rewrite (eqf_get sblock _ _ (fun _ => eq_refl) F4), (eqd_get sblock _ _ (fun _ => eq_refl) E3); exact Hsb).
  rewrite (cub_bd _ _ s4 Hsb4).
  set (s4p := s4 <| sblock ::= pop |>).
  assert (H4p : QS s s4p) by (eapply QS_trans; [exact H3|]; eapply QS_trans; [exact H4|]; apply QS_setter; [reflexivity|reflexivity|exact (proj1 H4)]).
  assert (Hf4 : fmt s4p = FX) by (unfold fmt; change (format s4p) with (format s4); rewrite (eqf_get format _ _ (fun _ => eq_refl) F4); exact Hf3).
  set (pb := match dtag_cmd (sc_tag sc) s3 with [] => PNormal | _ => PBlock end).
  pose proof (QS_end_par pb s4p Hf4 (proj1 H4p)) as H5.
  assert (Hf5 : fmt (end_par pb s4p) = FX).
  { unfold end_par. destruct (par s4p); [|exact Hf4]. cbv zeta. destruct (_ && _).
    - unfold end_stanza. change (fmt (process_paragraph s4p)) with (fmt s4p). rewrite Hf4. unfold X.end_stanza, X.end_paragraph.
      change (fmt (w (R "</p>" ++ NLs) (w (R "</span>" ++ NLs) (process_paragraph s4p)) <| verse := false |>)) with (fmt (w (R "</p>" ++ NLs) (w (R "</span>" ++ NLs) (process_paragraph s4p)))).
      rewrite !Inv.fmt_w. exact Hf4.
    - unfold end_paragraph. change (fmt (process_paragraph s4p)) with (fmt s4p). rewrite Hf4. unfold X.end_paragraph. destruct pb; rewrite ?Inv.fmt_w; exact Hf4. }
  set (s5 := end_par pb s4p) in *. clearbody s5.
  unfold end_display_block. rewrite Hf5. unfold X.end_display_block.
  eapply QS_trans; [exact H4p|]. eapply QS_trans; [exact H5|].
  destruct (sc_tag sc); (eapply QS_trans; [apply QS_w, H5|apply QS_setter; [reflexivity|reflexivity|apply QS_w, H5]]).
Qed.

(* closeUnclosedScopes(scopeBlock) on display blocks: one diagnostic each, all closed *)
Theorem open_blocks_are_reported cur : forall f s, P true s -> quiet s = false -> (List.length (sblock s) <= f)%nat ->
  let s' := close_block_loop f cur s in
  exists ds, diags s' = ds ++ diags s /\ List.length ds = List.length (sblock s) /\
             Forall (fun d => d_kind d = R "unclosed scope") ds /\ sblock s' = [].
Proof. induction f as [|f IH]; intros s HP Hq Hl.
  - cbn. assert (E : sblock s = []) by (destruct (sblock s); [reflexivity|cbn in Hl; lia]). exists []. rewrite E. repeat split; constructor.
  - cbn [close_block_loop]. destruct (top (sblock s)) as [sc|] eqn:Etop.
    2:{ pose proof (top_none _ Etop) as E. exists []. rewrite E. cbn. repeat split; constructor. }
    assert (Hbd : is_bd sc) by (destruct HP as (_ & Hsb & _); rewrite Forall_forall in Hsb; apply Hsb, (top_in _ _ Etop)).
    unfold is_bd in Hbd. rewrite Hbd. change (str_eqb (R "Bd") (R "Bl") || str_eqb (R "Bd") (R "It")) with false. cbv iota.
    set (sm := s <| macro := cur |>).
    destruct (err_not_quiet "unclosed scope" sm Hq) as (d & Ed & Hk). unfold warn_unclosed. rewrite Ed.
    set (s2 := sm <| diags ::= cons d |> <| macro := R "Ed" |> <| args := tag_args (sc_tag sc) |>).
    change (quiet s2) with (quiet s). rewrite Hq.
    set (s2q := s2 <| quiet := true |>).
    assert (HP2q : P true s2q) by (apply (P_same K BASE MD true _ s); [destruct s; reflexivity|reflexivity|reflexivity|reflexivity|exact HP]).
    destruct (macro_ed_P K BASE MD true s2q HP2q) as [HPe He]. destruct (He eq_refl) as (Hpop & _).
    pose proof (QS_macro_ed s2q HP2q eq_refl) as [_ Hd].
    set (s3 := macro_ed s2q <| quiet := false |> <| args := [] |>).
    assert (HP3 : P true s3) by (apply (P_same K BASE MD true _ (macro_ed s2q)); [unfold s3; destruct (macro_ed s2q); reflexivity|reflexivity|reflexivity|reflexivity|exact HPe]).
    assert (Hsb3 : sblock s3 = pop (sblock s)) by exact Hpop.
    destruct (IH s3 HP3 eq_refl) as (ds & A & B & C & D); [rewrite Hsb3, pop_length; lia|].
    cbv zeta in A, B, C, D. exists (ds ++ [d]). rewrite A. change (diags s3) with (diags (macro_ed s2q)). rewrite Hd.
    change (diags s2q) with (d :: diags s). rewrite <- app_assoc. split; [reflexivity|].
    split; [rewrite app_length, B, Hsb3, pop_length; cbn [List.length]; destruct (sblock s) as [|x r]; [discriminate Etop|cbn [List.length]; lia]|].
    split; [apply Forall_app; split; [exact C|constructor; [exact Hk|constructor]]|exact D].
Qed.

(* the scope-closing part of the end-of-file sweep, composed: inline scopes, the open paragraph, display blocks *)
Lemma diags_end_par b s : fmt s = FX -> diags (end_par b s) = diags s /\ quiet (end_par b s) = quiet s.
Proof. intro Hf. unfold end_par. destruct (par s); [|split; reflexivity]. cbv zeta.
  assert (Hw : forall x y, diags (w x y) = diags y /\ quiet (w x y) = quiet y) by (intros x y; unfold w; destruct (par y); split; reflexivity).
  destruct (_ && _).
  - unfold end_stanza. change (fmt (process_paragraph s)) with (fmt s). rewrite Hf. unfold X.end_stanza, X.end_paragraph.
    set (a := w (R "</span>" ++ NLs) (process_paragraph s)). set (a2 := w (R "</p>" ++ NLs) a).
    change (diags (a2 <| verse := false |>)) with (diags a2). change (quiet (a2 <| verse := false |>)) with (quiet a2).
    unfold a2. rewrite (proj1 (Hw _ a)), (proj2 (Hw _ a)). unfold a. rewrite (proj1 (Hw _ _)), (proj2 (Hw _ _)). split; reflexivity.
  - unfold end_paragraph. change (fmt (process_paragraph s)) with (fmt s). rewrite Hf. unfold X.end_paragraph.
    destruct b; try (split; reflexivity); rewrite (proj1 (Hw _ _)), (proj2 (Hw _ _)); split; reflexivity.
Qed.

Theorem sweep_reports_every_open_scope s : P true s -> quiet s = false ->
  let s' := close_unclosed_block (end_par PNormal (close_unclosed_inline s)) in
  exists ds, diags s' = ds ++ diags s /\ List.length ds = (List.length (sinline s) + List.length (sblock s))%nat /\
             Forall (fun d => d_kind d = R "unclosed scope") ds /\ sblock s' = [].
Proof. intros HP Hq. pose proof HP as (HS & Hsb & Hpr & _).
  pose proof (sd_fmt _ _ _ _ HS) as Hf. pose proof (sd_mk _ _ _ _ HS) as Hm.
  (* inline scopes *)
  assert (H1 : exists d1, diags (close_unclosed_inline s) = d1 ++ diags s /\ List.length d1 = List.length (sinline s) /\
                 Forall (fun d => d_kind d = R "unclosed scope") d1 /\ quiet (close_unclosed_inline s) = false).
  { unfold close_unclosed_inline. destruct (sinline s) as [|x l] eqn:Esi; [exists []; repeat split; [constructor|exact Hq]|]. cbv zeta.
    match goal with |- context [close_inline_loop ?f ?c ?y] =>
      assert (Hfy : fmt y = FX) by exact Hf; assert (Hmy : markup_ok (mtags y)) by exact Hm; assert (Hpy : process y = true) by exact Hpr;
      assert (Hqy : quiet y = false) by exact Hq; assert (Hly : (List.length (sinline y) <= f)%nat) by (change (sinline y) with (sinline s); rewrite Esi; cbn; lia);
      destruct (open_inline_scopes_are_reported c f y Hfy Hmy Hpy Hqy Hly) as (d1 & A & B & C & _ & Qy);
      assert (Hdy : diags y = diags s) by reflexivity; assert (Hsy : sinline y = x :: l) by exact Esi end.
    cbv zeta in A, B, Qy. exists d1. rewrite diags_regs, quiet_regs, A, Hdy. split; [reflexivity|]. split; [rewrite B, Hsy; reflexivity|]. split; [exact C|exact Qy]. }
  destruct H1 as (d1 & A1 & B1 & C1 & Hq1).
  destruct (close_unclosed_inline_P K BASE MD s HP) as [HP1 Hsi1].
  pose proof (close_unclosed_inline_eqf s Hf Hm) as F1.
  set (s1 := close_unclosed_inline s) in *. clearbody s1.
  (* the paragraph *)
  destruct (end_par_P K BASE MD s1 HP1 Hsi1) as (HP2 & _ & _ & F2). cbv zeta in HP2, F2.
  assert (Hf1 : fmt s1 = FX) by exact (sd_fmt _ _ _ _ (proj1 HP1)).
  destruct (diags_end_par PNormal s1 Hf1) as [D2 Q2].
  set (s2 := end_par PNormal s1) in *. clearbody s2.
  (* display blocks *)
  assert (Hsb2 : sblock s2 = sblock s) by (rewrite (eqf_get sblock _ _ (fun _ => eq_refl) F2), (eqf_get sblock _ _ (fun _ => eq_refl) F1); reflexivity).
  assert (Hq2 : quiet s2 = false) by (rewrite Q2; exact Hq1).
  unfold close_unclosed_block. destruct (sblock s2) as [|x l] eqn:Esb.
  - exists d1. rewrite D2, A1. split; [reflexivity|]. split; [rewrite B1, <- Hsb2; cbn; lia|]. split; [exact C1|exact Esb].
  - cbv zeta.
    match goal with |- context [close_block_loop ?f ?c ?y] =>
      assert (HPy : P true y) by (apply (P_same K BASE MD true _ s2); [destruct s2; reflexivity|reflexivity|reflexivity|reflexivity|exact HP2]);
      assert (Hqy : quiet y = false) by exact Hq2; assert (Hly : (List.length (sblock y) <= f)%nat) by (change (sblock y) with (sblock s2); rewrite Esb; cbn; lia);
      destruct (open_blocks_are_reported c f y HPy Hqy Hly) as (d2 & A & B & C & D);
      assert (Hdy : diags y = diags s2) by reflexivity; assert (Hsy : sblock y = x :: l) by exact Esb end.
    cbv zeta in A, B, D. exists (d2 ++ d1). rewrite diags_regs, A, Hdy, D2, A1, app_assoc. split; [reflexivity|].
    split; [rewrite app_length, B, B1, Hsy, <- Hsb2; lia|]. split; [apply Forall_app; split; assumption|].
    change (sblock (_ <| macro := _ |> <| args := _ |>)) with (sblock (close_block_loop (S (S (List.length (x :: l)))) (macro s2) (s2 <| args := [] |>))). exact D.
Qed.
End Blocks.
Print Assumptions open_conditionals_are_reported.
