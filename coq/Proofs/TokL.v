(* The LaTeX instance of the character-level balance machine (C04): mode and depth of open brace groups.
   A backslash consumes the next character, so escaped braces do not count. *)
From Coq Require Import List NArith Bool Lia Arith String.
Import ListNotations.
Require Import Repl Tables MBase St.
Open Scope N_scope.

Inductive lmode := LTxt | LEsc | LBad.
Definition lstate := (lmode * nat)%type.
Definition lstep (st : lstate) (c : rune) : lstate :=
  let '(m, d) := st in
  match m with
  | LTxt => if c =? 92 then (LEsc, d) else if c =? 123 then (LTxt, S d)
            else if c =? 125 then (match d with O => (LBad, O) | S d' => (LTxt, d') end) else (LTxt, d)
  | LEsc => (LTxt, d)
  | LBad => (LBad, d)
  end.
Definition runL (x : str) (st : lstate) : lstate := fold_left lstep x st.
Lemma runL_app a b st : runL (a ++ b) st = runL b (runL a st). Proof. apply fold_left_app. Qed.
Definition textualL (x : str) : Prop := forall d, runL x (LTxt, d) = (LTxt, d).
Definition open_group (x : str) : Prop := forall d, runL x (LTxt, d) = (LTxt, S d).
Definition close_group (x : str) : Prop := forall d, runL x (LTxt, S d) = (LTxt, d).
Lemma textualL_nil : textualL []. Proof. intro; reflexivity. Qed.
Lemma textualL_app a b : textualL a -> textualL b -> textualL (a ++ b).
Proof. intros Ha Hb d. rewrite runL_app, Ha, Hb. reflexivity. Qed.

(* every image of the LaTeX escape table, and every character it leaves alone, is neutral *)
Lemma latex_escape_textual t : textualL (latex_escape t).
Proof. intro d. unfold latex_escape.
  apply (enc_rests lstate lstep (fun q => q = (LTxt, d)) latex_table); [| |reflexivity].
  - intros k im q Hin ->. unfold latex_table in Hin. cbn [In] in Hin.
    repeat (destruct Hin as [Hin|Hin]; [injection Hin as <- <-; reflexivity|]). destruct Hin.
  - intros c q Hk ->. cbn [lstep].
    destruct (c =? 92) eqn:E1; [apply N.eqb_eq in E1; subst c; discriminate|].
    destruct (c =? 123) eqn:E2; [apply N.eqb_eq in E2; subst c; discriminate|].
    destruct (c =? 125) eqn:E3; [apply N.eqb_eq in E3; subst c; discriminate|]. reflexivity.
Qed.
(* the default inline markup *)
Lemma emph_open : open_group (R "\emph{"). Proof. intro d. reflexivity. Qed.
Lemma brace_close punct : textualL punct -> close_group (R "}" ++ punct).
Proof. intros H d. rewrite runL_app. change (runL (R "}") (LTxt, S d)) with (LTxt, d). apply H. Qed.
