(* A character-level tag machine, compositional by construction (fold_left), used to state the open-element invariant
   directly on the bytes the model writes (C02).  The state is a mode and the stack of open element names. *)
From Coq Require Import List NArith Bool Lia Arith String.
Import ListNotations.
Require Import Repl Tables MBase St.
Open Scope N_scope.

Inductive tmode := Txt | Lt | OName (acc : str) | ORest (name : str) (slash : bool) | CName (acc : str) | CRest (name : str) | Decl | Bad.
Definition is_name_char (c : rune) : bool := ((97 <=? c) && (c <=? 122)) || ((65 <=? c) && (c <=? 90)) || ((48 <=? c) && (c <=? 57)).
Definition tstate := (tmode * list str)%type.      (* stack: innermost first *)
Definition close (n : str) (stk : list str) : tstate :=
  match stk with t :: r => if str_eqb t n then (Txt, r) else (Bad, stk) | [] => (Bad, stk) end.
Definition tstep (st : tstate) (c : rune) : tstate :=
  let '(m, stk) := st in
  match m with
  | Txt => if c =? 60 then (Lt, stk) else (Txt, stk)
  | Lt => if c =? 47 then (CName [], stk) else if is_name_char c then (OName [c], stk)
          else if (c =? 63) || (c =? 33) then (Decl, stk) else (Bad, stk)      (* <?xml ... ?> and <!DOCTYPE ...>: skipped up to > *)
  | OName acc => if is_name_char c then (OName (c :: acc), stk)
                 else if c =? 62 then (Txt, rev acc :: stk)
                 else if c =? 47 then (ORest (rev acc) true, stk) else (ORest (rev acc) false, stk)
  | ORest n sl => if c =? 62 then (Txt, if sl then stk else n :: stk)
                  else if c =? 47 then (ORest n true, stk) else (ORest n false, stk)
  | CName acc => if is_name_char c then (CName (c :: acc), stk)
                 else if c =? 62 then close (rev acc) stk else (CRest (rev acc), stk)
  | CRest n => if c =? 62 then close n stk else (CRest n, stk)
  | Decl => if c =? 62 then (Txt, stk) else (Decl, stk)
  | Bad => (Bad, stk)
  end.
Definition run (x : str) (st : tstate) : tstate := fold_left tstep x st.

Lemma run_app a b st : run (a ++ b) st = run b (run a st).
Proof. apply fold_left_app. Qed.
Lemma run_nil st : run [] st = st. Proof. reflexivity. Qed.

(* a chunk of character data: stays in text mode *)
Definition textual (x : str) : Prop := forall stk, run x (Txt, stk) = (Txt, stk).
Lemma textual_nil : textual []. Proof. intro; reflexivity. Qed.
Lemma textual_app a b : textual a -> textual b -> textual (a ++ b).
Proof. intros Ha Hb stk. rewrite run_app, Ha, Hb. reflexivity. Qed.
Lemma textual_no_lt x : forallb (fun c => negb (c =? 60)) x = true -> textual x.
Proof. induction x as [|c r IH]; intros H stk; [reflexivity|]. cbn in H. apply andb_true_iff in H as [Hc Hr].
  unfold run; cbn [fold_left tstep]. destruct (c =? 60); [discriminate|]. apply (IH Hr). Qed.

Definition no_c (k : N) (x : str) : bool := forallb (fun c => negb (c =? k)) x.
Lemma no_c_app k a b : no_c k (a ++ b) = no_c k a && no_c k b. Proof. apply forallb_app. Qed.
(* an escaped string contains a given character only if some image or some pass-through character does *)
Lemma enc_no_c tbl k : forallb (fun r => no_c k (snd r)) tbl = true -> is_key tbl k = true -> forall t, no_c k (enc tbl t) = true.
Proof.
  intros Him Hk t. induction t as [|c r IH]; [reflexivity|]. unfold enc in *; cbn [flat_map]. rewrite no_c_app, IH, andb_true_r.
  unfold enc1. destruct (lookup tbl c) as [im|] eqn:E.
  - clear -Him E. induction tbl as [|[k0 im0] tb IHt]; [discriminate|]. cbn in Him, E. apply andb_true_iff in Him as [H1 H2].
    destruct (k0 =? c); [injection E as <-; exact H1 | exact (IHt H2 E)].
  - cbn. rewrite andb_true_r. destruct (c =? k) eqn:Ec; [|reflexivity]. apply N.eqb_eq in Ec; subst c.
    unfold is_key in Hk. rewrite E in Hk. discriminate.
Qed.
Lemma html_escape_no_lt t : no_c 60 (html_escape t) = true.
Proof. apply enc_no_c; vm_compute; reflexivity. Qed.
Lemma html_escape_no_gt t : no_c 62 (html_escape t) = true.
Proof. apply enc_no_c; vm_compute; reflexivity. Qed.
Lemma html_escape_no_quot t : no_c 34 (html_escape t) = true.
Proof. apply enc_no_c; vm_compute; reflexivity. Qed.
Lemma html_escape_textual t : textual (html_escape t).
Proof. apply textual_no_lt, html_escape_no_lt. Qed.

(* chunks that open / close one element *)
Definition open_chunk (n x : str) := forall stk, run x (Txt, stk) = (Txt, n :: stk).
Definition close_chunk (n x : str) := forall stk, run x (Txt, n :: stk) = (Txt, stk).
Definition escaped (x : str) := exists t, x = html_escape t.

Fixpoint rest_slash (x : str) (sl : bool) : bool := match x with [] => sl | c :: r => rest_slash r (c =? 47) end.
Lemma run_rest x : no_c 62 x = true -> forall n sl stk, run x (ORest n sl, stk) = (ORest n (rest_slash x sl), stk).
Proof. induction x as [|c r IH]; intros H n sl stk; [reflexivity|]. cbn in H. apply andb_true_iff in H as [Hc Hr].
  unfold run; cbn [fold_left tstep rest_slash]. destruct (c =? 62); [discriminate|]. destruct (c =? 47); apply (IH Hr). Qed.
Lemma rest_slash_app x y sl : rest_slash (x ++ y) sl = rest_slash y (rest_slash x sl).
Proof. revert sl; induction x as [|c r IH]; intro sl; [reflexivity|]. cbn. apply IH. Qed.

(* flat: the written text, oldest chunk first *)
Lemma flat_acc l : forall acc, fold_left (fun acc x => x ++ acc) l acc = flat l ++ acc.
Proof. unfold flat. induction l as [|x r IH]; intro acc; [reflexivity|]. cbn [fold_left]. rewrite IH, (IH (x ++ [])), app_nil_r, app_assoc. reflexivity. Qed.
Lemma flat_cons x l : flat (x :: l) = flat l ++ x.
Proof. unfold flat at 1. cbn [fold_left]. rewrite flat_acc, app_nil_r. reflexivity. Qed.
Lemma flat_nil : flat [] = []. Proof. reflexivity. Qed.

(* framing: a run that does not fail never looks below the stack it started from *)
Lemma close_frame n S0 m S stk : close n S0 = (m, S) -> m <> Bad -> close n (S0 ++ stk) = (m, S ++ stk).
Proof. unfold close. destruct S0 as [|t r]; [intros H; injection H as <- _; intro N; contradiction N; reflexivity|].
  cbn [app]. destruct (str_eqb t n); intros H; injection H as <- <-; intro N; [reflexivity|contradiction N; reflexivity]. Qed.
Lemma tstep_bad c stk : tstep (Bad, stk) c = (Bad, stk). Proof. reflexivity. Qed.
Lemma run_bad x stk : run x (Bad, stk) = (Bad, stk).
Proof. induction x as [|c r IH]; [reflexivity|]. unfold run in *; cbn [fold_left]. rewrite tstep_bad. exact IH. Qed.
Lemma tstep_frame c m0 S0 m S stk : tstep (m0, S0) c = (m, S) -> m <> Bad -> tstep (m0, S0 ++ stk) c = (m, S ++ stk).
Proof. unfold tstep. destruct m0 as [| |acc|n sl|acc|n| |].
  - destruct (c =? 60); intros H; injection H as <- <-; reflexivity.
  - destruct (c =? 47); [intros H; injection H as <- <-; reflexivity|]. destruct (is_name_char c); [intros H; injection H as <- <-; reflexivity|].
    destruct ((c =? 63) || (c =? 33)); intros H; injection H as <- <-; reflexivity.
  - destruct (is_name_char c); [intros H; injection H as <- <-; reflexivity|]. destruct (c =? 62); [intros H; injection H as <- <-; reflexivity|].
    destruct (c =? 47); intros H; injection H as <- <-; reflexivity.
  - destruct (c =? 62); [destruct sl; intros H; injection H as <- <-; reflexivity|]. destruct (c =? 47); intros H; injection H as <- <-; reflexivity.
  - destruct (is_name_char c); [intros H; injection H as <- <-; reflexivity|]. destruct (c =? 62); [apply close_frame|intros H; injection H as <- <-; reflexivity].
  - destruct (c =? 62); [apply close_frame|intros H; injection H as <- <-; reflexivity].
  - destruct (c =? 62); intros H; injection H as <- <-; reflexivity.
  - intros H; injection H as <- <-; reflexivity.
Qed.
Lemma run_frame x : forall m0 S0 m S stk, run x (m0, S0) = (m, S) -> m <> Bad -> run x (m0, S0 ++ stk) = (m, S ++ stk).
Proof. induction x as [|c r IH]; intros m0 S0 m S stk H N.
  - cbn in H. injection H as <- <-. reflexivity.
  - unfold run in *; cbn [fold_left] in *. destruct (tstep (m0, S0) c) as [m1 S1] eqn:E.
    destruct m1; try (rewrite (tstep_frame _ _ _ _ _ stk E) by discriminate; apply (IH _ _ _ _ stk H N)).
    fold (run r (Bad, S1)) in H. rewrite run_bad in H. injection H as <- _. contradiction N; reflexivity.
Qed.
