(* C09, true branch, the two delimiter lines on the real dispatcher (Model/Loop.step): the #if line of a conditional
   whose condition holds only pushes one scope (and may log); the matching #; met while not ignoring only pops it. *)
From Coq Require Import List NArith Bool Lia Arith String.
Import ListNotations.
Require Import Exp Proc1 Proc2 Proc3 Ctl Loop Eqd IfProofs.
Open Scope N_scope.

Theorem true_if_line pb a l c s :
  let b := BMacro (R "#if") a l in
  ifdepth s = 0%nat -> udef s = None -> elided s = false ->
  (inl s = true \/ assoc (R "#if") (umacros s) = None) ->
  ifdepth (macro_if_start (set_regs b s)) = 0%nat ->            (* the condition holds *)
  exists sc s1, step pb b (c, s) = (c, s1) /\ s1 =c= s <| sif ::= fun x => x ++ [sc] |> /\ panicked s1 = panicked s.
Proof.
  intros b Hd Hu He Hum Htrue.
  set (s0 := set_regs b s).
  destruct (macro_if_start_spec s0) as (sc & d & Hdd & Hs); [reflexivity | exact Hd|].
  assert (Hd1 : ifdepth (macro_if_start s0) = d) by (rewrite (eqd_get ifdepth _ _ (fun x => eq_refl) Hs); reflexivity).
  fold s0 in Htrue. rewrite Hd1 in Htrue. subst d.
  exists sc, (macro_if_start s0). split; [|split].
  - unfold step. fold s0. change (ifdepth s0) with (ifdepth s). rewrite Hd. cbn [Nat.ltb Nat.leb].
    change (udef s0) with (udef s). rewrite Hu.
    assert (Hl : (if inl s0 then None else assoc (R "#if") (umacros s0)) = None).
    { change (inl s0) with (inl s). change (umacros s0) with (umacros s). destruct Hum as [->| ->]; [reflexivity| destruct (inl s); reflexivity]. }
    unfold b at 1. rewrite Hl.
    change (control_builtin pb (R "#if")) with (@None (cst -> cst)).
    change (builtin (R "#if")) with (Some macro_if_start). cbv iota.
    assert (Hbf : bf_check (R "#if") s0 = s0) by (unfold bf_check; destruct (bf s0); reflexivity). rewrite Hbf.
    unfold after_handler.
    assert (Hel : elided (macro_if_start s0) = false) by (rewrite (eqd_get elided _ _ (fun x => eq_refl) Hs); exact He).
    rewrite Hel. reflexivity.
  - apply eqd_eqc in Hs. eapply eqc_trans; [exact Hs|]. unfold eqc, s0. rewrite <- Hd. destruct s; destruct b; vm_compute; reflexivity.
  - rewrite (eqd_get panicked _ _ (fun x => eq_refl) Hs). reflexivity.
Qed.
Print Assumptions true_if_line.

Theorem active_end_line pb a l c s sc r :
  let e := BMacro (R "#;") a l in
  ifdepth s = 0%nat -> udef s = None -> elided s = false ->
  (inl s = true \/ assoc (R "#;") (umacros s) = None) ->
  sif s = r ++ [sc] ->
  exists s1, step pb e (c, s) = (c, s1) /\ s1 =c= s <| sif := r |> /\ panicked s1 = panicked s.
Proof.
  intros e Hd Hu He Hum Hs.
  set (s0 := set_regs e s).
  assert (Hstep : step pb e (c, s) = (c, macro_if_end s0)).
  { unfold step. fold s0. change (ifdepth s0) with (ifdepth s). rewrite Hd. cbn [Nat.ltb Nat.leb].
    change (udef s0) with (udef s). rewrite Hu.
    assert (Hl : (if inl s0 then None else assoc (R "#;") (umacros s0)) = None).
    { change (inl s0) with (inl s). change (umacros s0) with (umacros s). destruct Hum as [->| ->]; [reflexivity| destruct (inl s); reflexivity]. }
    unfold e at 1. rewrite Hl.
    change (control_builtin pb (R "#;")) with (@None (cst -> cst)).
    change (builtin (R "#;")) with (Some macro_if_end). cbv iota.
    assert (Hbf : bf_check (R "#;") s0 = s0) by (unfold bf_check; destruct (bf s0); reflexivity). rewrite Hbf.
    unfold after_handler.
    assert (Hel : elided (macro_if_end s0) = false).
    { unfold macro_if_end.
      set (s1 := if negb (Nat.eqb (List.length (args s0)) 0) && process s0 then err "useless arguments" s0 else s0).
      assert (E1 : elided s1 = false).
      { unfold s1. destruct (_ && _); [|exact He]. unfold err. destruct (quiet s0); [exact He|]. destruct (cloc s0) as [[[? ?] ?]|]; exact He. }
      change (sif (s1 <| ifdepth ::= Nat.pred |>)) with (sif s1).
      destruct (sif s1); [|exact E1].
      change (process (s1 <| ifdepth ::= Nat.pred |>)) with (process s1).
      destruct (process s1); [|exact E1].
      unfold err. change (quiet (s1 <| ifdepth ::= Nat.pred |>)) with (quiet s1). destruct (quiet s1); [exact E1|].
      change (cloc (s1 <| ifdepth ::= Nat.pred |>)) with (cloc s1). destruct (cloc s1) as [[[? ?] ?]|]; exact E1. }
    rewrite Hel. reflexivity. }
  exists (macro_if_end s0). split; [exact Hstep|].
  unfold macro_if_end.
  set (s1 := if negb (Nat.eqb (List.length (args s0)) 0) && process s0 then err "useless arguments" s0 else s0).
  assert (E1 : s1 =c= s) by (unfold s1; destruct (_ && _); [eapply eqc_trans; [apply err_eqc|]|]; unfold s0; destruct s; vm_compute; reflexivity).
  assert (P1 : panicked s1 = panicked s).
  { unfold s1. destruct (_ && _); [|reflexivity]. unfold err. destruct (quiet s0); [reflexivity|]. destruct (cloc s0) as [[[? ?] ?]|]; reflexivity. }
  assert (S1 : sif s1 = r ++ [sc]) by (pose proof E1 as H; getc H sif; rewrite H; exact Hs).
  change (sif (s1 <| ifdepth ::= Nat.pred |>)) with (sif s1). rewrite S1.
  assert (Hne : exists h t, r ++ [sc] = h :: t) by (destruct r; cbn; eauto). destruct Hne as (h & t & Hht). rewrite Hht. cbv beta iota.
  split; [|exact P1].
  unfold eqc in *.
  assert (Hpop : forall x : st, sif x = r ++ [sc] -> x <| sif ::= pop |> = x <| sif := r |>).
  { intros x Hx. transitivity (x <| sif := pop (sif x) |>); [destruct x; reflexivity|]. rewrite Hx. unfold pop. rewrite removelast_last. reflexivity. }
  rewrite Hpop by exact S1.
  transitivity (nfc s1 <| ifdepth ::= Nat.pred |> <| sif := r |>); [destruct s1; vm_compute; reflexivity|]. rewrite E1.
  clear - Hd. destruct s; simpl in Hd; subst; vm_compute; reflexivity.
Qed.
Print Assumptions active_end_line.

(* the whole block: the #if line hands the body a state that differs from s by one scope pushed (and the registers,
   which the body's first line overwrites, and the log); if the body ends not ignoring, outside a definition, with
   that scope on top, the #; line only pops it *)
Theorem true_conditional_delimiters pb a l body a2 l2 c s :
  let b := BMacro (R "#if") a l in let e := BMacro (R "#;") a2 l2 in
  ifdepth s = 0%nat -> udef s = None -> elided s = false -> panicked s = None ->
  (inl s = true \/ assoc (R "#if") (umacros s) = None) ->
  ifdepth (macro_if_start (set_regs b s)) = 0%nat ->
  exists sc s1, s1 =c= s <| sif ::= fun x => x ++ [sc] |> /\ panicked s1 = None /\
    walk pb (b :: body ++ [e]) (c, s) = walk pb (body ++ [e]) (c, s1) /\
    forall c2 s2, walk pb body (c, s1) = (c2, s2) -> panicked s2 = None ->
      ifdepth s2 = 0%nat -> udef s2 = None -> elided s2 = false -> (inl s2 = true \/ assoc (R "#;") (umacros s2) = None) ->
      sif s2 = sif s ++ [sc] ->
      exists s3, walk pb (b :: body ++ [e]) (c, s) = (c2, s3) /\ s3 =c= s2 <| sif := sif s |> /\ panicked s3 = None.
Proof.
  intros b e Hd Hu He Hp Hum Htrue.
  destruct (true_if_line pb a l c s Hd Hu He Hum Htrue) as (sc & s1 & Est & Eq & Ep).
  exists sc, s1. split; [exact Eq|]. split; [congruence|].
  assert (Hw : walk pb (b :: body ++ [e]) (c, s) = walk pb (body ++ [e]) (c, s1)).
  { change (b :: body ++ [e]) with ([b] ++ (body ++ [e])). rewrite (walk_app pb [b] _ (c, s) Hp), walk_one. unfold b. rewrite Est. cbn [snd].
    rewrite Ep, Hp. reflexivity. }
  split; [exact Hw|].
  intros c2 s2 Hb Hp2 Hd2 Hu2 He2 Hum2 Hs2.
  rewrite Hw, (walk_app pb body _ (c, s1)) by (cbn [snd]; congruence). rewrite Hb. cbn [snd]. rewrite Hp2, walk_one.
  destruct (active_end_line pb a2 l2 c2 s2 sc (sif s) Hd2 Hu2 He2 Hum2 Hs2) as (s3 & E3 & Q3 & P3).
  exists s3. split; [exact E3|]. split; [exact Q3|congruence].
Qed.
Print Assumptions true_conditional_delimiters.
