(* C11 and C08 at the level of the dispatcher: an include line, and a user macro invocation, run the blocks of the
   file (of the substituted body) through the very same loop, in the same state, and then restore the location. *)
From Coq Require Import List NArith Bool Lia Arith String.
Import ListNotations.
Require Import Exp Proc1 Proc2 Proc3 Ctl Loop Eqd IfProofs FuelProofs.
Require PathClean.
Open Scope N_scope.

(* what the include line does around the file's blocks *)
Definition enter_file (path : str) (bs : list block) (cs : cst) : cst :=
  (set_incstack (incstack (fst cs) ++ [PathClean.clean path]) (fst cs),
   (snd cs) <| cfile := path |> <| has_cur := (match bs with [] => false | _ => true end) |>).
Definition leave_file (c0 : ctl) (s0 : st) (cs : cst) : cst :=
  (set_incstack (incstack c0) (fst cs), (snd cs) <| cfile := cfile s0 |> <| has_cur := has_cur s0 |>).

(* An executed include line of a frundis source that is found, not being processed already and parses: *)
Theorem include_runs_the_file pb c s name path src bs a0 o s1 s3 :
  parse_opts specOptIncludeFile (args s) s = (o, s1) ->
  opt "f" o = None -> po_args o = a0 :: nil -> flag "as-is" o = false ->
  inlines_text a0 s1 = (name, s3) ->
  search_inc_file name c = (path, true) ->
  existsb (str_eqb (PathClean.clean path)) (incstack c) = false ->
  fs_get path c = Some src -> parse src = (bs, None) ->
  macro_include pb (c, s) = leave_file c s3 (pb bs (enter_file path bs (c, s3))).
Proof.
  intros Ho Hf Ha Has Hn Hs He Hg Hp. unfold macro_include. rewrite Ho, Hf, Ha, Hn, Has, Hs. cbn [negb]. rewrite He, Hg, Hp.
  unfold enter_file, leave_file. cbn [fst snd]. destruct (pb bs _) as [c5 s5]. reflexivity.
Qed.

(* and with the loop itself as recursive entry, whatever the fuel (above the room left): the file's blocks are walked
   by the same dispatcher as the blocks around the include line *)
Theorem include_is_walk d c s name path src bs a0 o s1 s3 :
  CInv c -> (avail c < d)%nat ->
  parse_opts specOptIncludeFile (args s) s = (o, s1) ->
  opt "f" o = None -> po_args o = a0 :: nil -> flag "as-is" o = false ->
  inlines_text a0 s1 = (name, s3) ->
  search_inc_file name c = (path, true) ->
  existsb (str_eqb (PathClean.clean path)) (incstack c) = false ->
  fs_get path c = Some src -> parse src = (bs, None) ->
  macro_include (run_blocks d) (c, s) = leave_file c s3 (walk (run_blocks d) bs (enter_file path bs (c, s3))).
Proof.
  intros Hinv Hav Ho Hf Ha Has Hn Hs He Hg Hp.
  rewrite (include_runs_the_file _ c s name path src bs a0 o s1 s3) by assumption.
  f_equal. change (walk (run_blocks d) bs) with (run_blocks (S d) bs).
  symmetry. unfold enter_file. cbn [fst snd].
  apply fuel_enough; [| |lia].
  - destruct Hinv as (Hn' & Hi & Hd). unfold CInv. cbn.
    apply existsb_false_notin in He. unfold fs_get in Hg. apply assoc_in in Hg.
    split; [apply NoDup_snoc; assumption|]. split; [|exact Hd].
    intros x Hx. apply in_app_or in Hx as [Hx|[<-|[]]]; [apply Hi; exact Hx | exact Hg].
  - apply existsb_false_notin in He. unfold fs_get in Hg. apply assoc_in in Hg.
    assert (Hlt : (List.length (incstack c) < List.length (fs c))%nat).
    { destruct Hinv as (Hn' & Hi & _). rewrite <- (map_length fst (fs c)).
      assert (Hn2 : NoDup (PathClean.clean path :: incstack c)) by (constructor; assumption).
      assert (Hi2 : incl (PathClean.clean path :: incstack c) (map fst (fs c))) by (intros x [<-|Hx]; [exact Hg | apply Hi; exact Hx]).
      pose proof (NoDup_incl_length Hn2 Hi2) as H. unfold lt. exact H. }
    pose proof (avail_push c (PathClean.clean path) Hlt) as Hp'.
    apply Nat.lt_le_trans with (avail c); [|lia]. rewrite <- Hp'. apply Nat.lt_succ_diag_r.
Qed.
Print Assumptions include_is_walk.

(* pasting: walking a list is walking its parts in turn (so the blocks of an included file, walked in place of the
   include line, continue in the state the preceding blocks left and hand their state to the following ones) *)
Theorem walk_concat pb pre mid post cs : panicked (snd cs) = None ->
  panicked (snd (walk pb pre cs)) = None -> panicked (snd (walk pb mid (walk pb pre cs))) = None ->
  walk pb (pre ++ mid ++ post) cs = walk pb post (walk pb mid (walk pb pre cs)).
Proof.
  intros H0 H1 H2. rewrite (walk_app pb pre (mid ++ post) cs H0), H1.
  rewrite (walk_app pb mid post _ H1), H2. reflexivity.
Qed.

(* ---- user macro invocation ---- *)
Definition substituted (m : umdef) (o : popts) (s : st) : list block * st :=
  if Nat.ltb 0 (um_argsc m) || um_list m || negb (Nat.eqb (List.length (um_opts m)) 0) then
    fold_left (fun '(acc, s) b0 => let '(b1, s') := subst_block (um_argsc m) (po_args o) (po_opts o) (po_flags o) b0 s in (acc ++ [b1], s'))
              (um_blocks m) ([], s)
  else (um_blocks m, s).

(* An executed invocation (in the output pass, within the depth, expansion and size limits) runs the body with the
   arguments substituted through the same loop, one level deeper, located at the outermost call site *)
Theorem call_runs_the_body pb m n l c s o sa blocks sd :
  process s = true ->
  Nat.ltb 42 (cdepth c) = false -> Nat.leb max_macro_expansions (xcount c) = false ->
  Nat.ltb max_macro_args_size (args_size (args s)) = false ->
  parse_opts (um_opts m) (args s) s = (o, sa) ->
  negb (um_list m) && Nat.ltb (um_argsc m) (List.length (po_args o)) = false ->
  substituted m o sa = (blocks, sd) ->
  user_macro pb m n l (c, s) =
    let c1 := set_budget (S (xcount c)) (xexh c) c in
    let se := if Nat.eqb (cdepth c1) 0 then sd <| cloc := Some (l, n, cfile sd) |> else sd in
    let '(cf, sf) := pb blocks (set_cdepth (S (cdepth c1)) c1, se <| has_cur := true |> <| cfile := um_file m |>) in
    let cg := set_cdepth (Nat.pred (cdepth cf)) cf in
    let sg := sf <| has_cur := has_cur s |> <| cfile := cfile s |> in
    if Nat.eqb (cdepth cg) 0 then (set_budget 0 false cg, sg <| cloc := None |>) else (cg, sg).
Proof.
  intros Hpr Hd Hx Hz Ho Hmany Hsub. unfold user_macro. rewrite Hd, Hx. cbn [args]. rewrite Hz, Hpr. cbn [negb].
  rewrite Ho. assert (Hp2 : process sa = true).
  { pose proof (Eqd.parse_opts_eqd (um_opts m) (args s) s) as H. rewrite Ho in H. cbn [snd] in H.
    rewrite (eqd_get process _ _ (fun x => eq_refl) H). exact Hpr. }
  rewrite Hp2. cbn [negb]. rewrite Hmany. cbn [andb]. unfold substituted in Hsub. rewrite Hsub. reflexivity.
Qed.
Print Assumptions call_runs_the_body.

(* ---- SearchIncFile: the current directory first, then the library directories in order ---- *)
Theorem search_finds_cwd_first name c : is_file name c = true -> search_inc_file name c = (name, true).
Proof. intro H. unfold search_inc_file. rewrite H. reflexivity. Qed.
Theorem search_finds_first_library name c pre d post :
  is_file name c = false -> libdirs c = pre ++ d :: post ->
  (forall d', In d' pre -> is_file (PathClean.join [d'; name]) c = false) ->
  is_file (PathClean.join [d; name]) c = true ->
  search_inc_file name c = (PathClean.join [d; name], true).
Proof.
  intros H0 Hl Hpre Hd. unfold search_inc_file. rewrite H0, Hl.
  assert (F : find (fun d0 => is_file (PathClean.join [d0; name]) c) (pre ++ d :: post) = Some d).
  { clear Hl. induction pre as [|x pre IH]; cbn [app find].
    - rewrite Hd. reflexivity.
    - rewrite (Hpre x (or_introl eq_refl)). apply IH. intros d' Hin. apply Hpre. right. exact Hin. }
  rewrite F. reflexivity.
Qed.
Theorem search_reports_absence name c :
  is_file name c = false -> (forall d, In d (libdirs c) -> is_file (PathClean.join [d; name]) c = false) ->
  search_inc_file name c = (name, false).
Proof.
  intros H0 Hall. unfold search_inc_file. rewrite H0.
  destruct (find _ (libdirs c)) as [d|] eqn:F; [|reflexivity].
  apply find_some in F. destruct F as [Hin Hd]. rewrite (Hall d Hin) in Hd. discriminate.
Qed.
Print Assumptions search_finds_first_library.
