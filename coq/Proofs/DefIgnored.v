(* C09, format-restricted macro definition, on the real dispatcher (Model/Loop.step): while a definition restricted
   to other formats is being skipped (udef = Some d, um_ignore d), no block is recorded or interpreted, and the
   closing line only leaves the definition. *)
From Coq Require Import List NArith Bool Lia Arith String.
Import ListNotations.
Require Import Exp Proc1 Proc2 Proc3 Ctl Loop Eqd IfProofs.
Open Scope N_scope.

Definition is_defend (b : block) : bool := match b with BMacro n _ _ => is_name n "#." | _ => false end.
Lemma eqc_udef a b : a =c= b -> udef a = udef b. Proof. intro H. getc H udef. exact H. Qed.
Lemma err_panicked k s : panicked (err k s) = panicked s.
Proof. unfold err. destruct (quiet s); [reflexivity|]. destruct (cloc s) as [[[? ?] ?]|]; reflexivity. Qed.

Lemma step_skipped_def pb b c s d : ifdepth s = 0%nat -> udef s = Some d -> um_ignore d = true -> is_defend b = false ->
  exists s1, step pb b (c, s) = (c, s1) /\ s1 =c= s /\ panicked s1 = panicked s.
Proof.
  intros Hd Hu Hi Hb. unfold step. rewrite regs_ifdepth, Hd. cbn [Nat.ltb Nat.leb].
  assert (Hu0 : udef (set_regs b s) = Some d) by (destruct b; exact Hu). rewrite Hu0, Hi.
  destruct b as [n a l|t l].
  - cbn in Hb. rewrite Hb. destruct (is_name n "#de").
    + unfold macro_def_start. rewrite Hu0. destruct (process _).
      * eexists. split; [reflexivity|]. split; [eapply eqc_trans; [apply err_eqc|apply regs_eqc]|]. rewrite err_panicked. apply regs_panicked.
      * eexists. split; [reflexivity|]. split; [apply regs_eqc|apply regs_panicked].
    + eexists. split; [reflexivity|]. split; [apply regs_eqc|apply regs_panicked].
  - eexists. split; [reflexivity|]. split; [apply regs_eqc|apply regs_panicked].
Qed.

Theorem skipped_definition_body pb body : Forall (fun b => is_defend b = false) body ->
  forall c s d, ifdepth s = 0%nat -> udef s = Some d -> um_ignore d = true -> panicked s = None ->
  exists s', walk pb body (c, s) = (c, s') /\ s' =c= s /\ panicked s' = None.
Proof.
  induction 1 as [|b body Hb _ IH]; intros c s d Hd Hu Hi Hp.
  - exists s. cbn [walk]. split; [reflexivity|]. split; [apply eqc_refl|exact Hp].
  - destruct (step_skipped_def pb b c s d Hd Hu Hi Hb) as (s1 & E1 & Q1 & P1).
    cbn [walk]. rewrite E1. cbn [snd]. rewrite P1, Hp.
    destruct (IH c s1 d) as (s' & E' & Q' & P').
    + rewrite (eqc_ifdepth _ _ Q1). exact Hd.
    + rewrite (eqc_udef _ _ Q1). exact Hu.
    + exact Hi.
    + congruence.
    + exists s'. split; [exact E'|]. split; [eapply eqc_trans; eauto|exact P'].
Qed.

Lemma step_skipped_def_end pb a l c s d : ifdepth s = 0%nat -> udef s = Some d -> um_ignore d = true ->
  exists s1, step pb (BMacro (R "#.") a l) (c, s) = (c, s1) /\ s1 =c= s <| udef := None |> /\ panicked s1 = panicked s.
Proof.
  intros Hd Hu Hi. unfold step. rewrite regs_ifdepth, Hd. cbn [Nat.ltb Nat.leb].
  set (s0 := set_regs (BMacro (R "#.") a l) s).
  assert (Hu0 : udef s0 = Some d) by exact Hu. rewrite Hu0.
  change (is_name (R "#.") "#.") with true. cbv iota.
  unfold macro_def_end.
  set (s1 := if negb (Nat.eqb (List.length (args s0)) 0) && process s0 then err "useless arguments" s0 else s0).
  assert (E1 : s1 =c= s) by (unfold s1; destruct (_ && _); [eapply eqc_trans; [apply err_eqc|]|]; apply regs_eqc).
  assert (P1 : panicked s1 = panicked s) by (unfold s1; destruct (_ && _); [rewrite err_panicked|]; apply regs_panicked).
  rewrite (eqc_udef _ _ E1), Hu, Hi.
  eexists. split; [reflexivity|]. split; [|exact P1].
  unfold eqc in *. transitivity (nfc s1 <| udef := None |>); [destruct s1; reflexivity|]. rewrite E1. destruct s; reflexivity.
Qed.

(* the region between a restricted #de line and its #. : nothing of it reaches the state *)
Theorem skipped_definition_is_absent pb body a l c s d :
  Forall (fun b => is_defend b = false) body ->
  ifdepth s = 0%nat -> udef s = Some d -> um_ignore d = true -> panicked s = None ->
  exists s', walk pb (body ++ [BMacro (R "#.") a l]) (c, s) = (c, s') /\ s' =c= s <| udef := None |> /\ panicked s' = None.
Proof.
  intros Hb Hd Hu Hi Hp.
  destruct (skipped_definition_body pb body Hb c s d Hd Hu Hi Hp) as (s1 & E1 & Q1 & P1).
  rewrite (walk_app pb body _ (c, s) Hp), E1. cbn [snd]. rewrite P1, walk_one.
  destruct (step_skipped_def_end pb a l c s1 d) as (s2 & E2 & Q2 & P2).
  - rewrite (eqc_ifdepth _ _ Q1). exact Hd.
  - rewrite (eqc_udef _ _ Q1). exact Hu.
  - exact Hi.
  - exists s2. split; [exact E2|]. split; [|congruence].
    eapply eqc_trans; [exact Q2|]. unfold eqc in *.
    transitivity (nfc s1 <| udef := None |>); [destruct s1; reflexivity|]. rewrite Q1. destruct s; reflexivity.
Qed.
Print Assumptions skipped_definition_is_absent.

(* ---- the #de line itself: whatever its arguments, it only sets the definition being recorded, and may log ---- *)
Lemma eqd_set_udef a b u : a ~~ b -> a <| udef := u |> ~~ b <| udef := u |>.
Proof. unfold eqd. intro H. transitivity (nd a <| udef := u |>); [destruct a; reflexivity|]. rewrite H. destruct b; reflexivity. Qed.
Lemma macro_def_start_spec s : udef s = None -> exists u, macro_def_start s ~~ s <| udef := u |>.
Proof.
  intro Hu. unfold macro_def_start. rewrite Hu.
  assert (Hid : forall x, x ~~ s -> exists u, x ~~ s <| udef := u |>).
  { intros x Hx. exists None. eapply eqd_trans; [exact Hx|]. unfold eqd. rewrite <- Hu. destruct s; reflexivity. }
  pose proof (parse_opts_eqd specOptDef (args s) s) as E1. destruct (parse_opts specOptDef (args s) s) as [o s1]. cbn [snd] in E1.
  destruct (po_args o) as [|n vals].
  { apply Hid. destruct (process s1); [eapply eqd_trans; [apply err_eqd|exact E1]|exact E1]. }
  set (r := match opt "f" o with Some f => _ | None => (false, s1) end).
  assert (E2 : snd r ~~ s).
  { unfold r. destruct (opt "f" o) as [f|]; [|exact E1].
    pose proof (formats_of_eqd f s1) as H. destruct (formats_of f s1) as [fs s']. cbn [snd] in *.
    eapply eqd_trans; [apply check_formats_eqd|]. eapply eqd_trans; eauto. }
  destruct r as [ign s2]. cbn [snd] in E2.
  pose proof (inlines_text_eqd n s2) as E3. destruct (inlines_text n s2) as [name s3]. cbn [snd] in E3.
  eexists. apply eqd_set_udef. eapply eqd_trans; [exact E3|exact E2].
Qed.

Theorem restricted_definition_is_absent pb a l body a2 l2 c s d :
  let b := BMacro (R "#de") a l in
  ifdepth s = 0%nat -> udef s = None -> elided s = false -> bf s = None -> panicked s = None ->
  (inl s = true \/ assoc (R "#de") (umacros s) = None) ->
  udef (macro_def_start (set_regs b s)) = Some d -> um_ignore d = true ->      (* the restriction excludes the current format *)
  Forall (fun b => is_defend b = false) body ->
  exists s', walk pb (b :: body ++ [BMacro (R "#.") a2 l2]) (c, s) = (c, s') /\ s' =c= s /\ panicked s' = None.
Proof.
  intros b Hd Hu He Hbf Hp Hum Hdef Hign Hbody.
  set (s0 := set_regs b s).
  destruct (macro_def_start_spec s0) as (u & Hs); [exact Hu|].
  assert (Hu1 : udef (macro_def_start s0) = u) by (rewrite (eqd_get udef _ _ (fun x => eq_refl) Hs); reflexivity).
  fold s0 in Hdef. rewrite Hu1 in Hdef. subst u.
  assert (Hstep : step pb b (c, s) = (c, macro_def_start s0)).
  { unfold step. fold s0. change (ifdepth s0) with (ifdepth s). rewrite Hd. cbn [Nat.ltb Nat.leb].
    change (udef s0) with (udef s). rewrite Hu.
    assert (Hl : (if inl s0 then None else assoc (R "#de") (umacros s0)) = None).
    { change (inl s0) with (inl s). change (umacros s0) with (umacros s). destruct Hum as [->| ->]; [reflexivity| destruct (inl s); reflexivity]. }
    unfold b at 1. rewrite Hl.
    change (control_builtin pb (R "#de")) with (@None (cst -> cst)).
    change (builtin (R "#de")) with (Some macro_def_start). cbv iota.
    assert (Hbc : bf_check (R "#de") s0 = s0) by (unfold bf_check; change (bf s0) with (bf s); rewrite Hbf; reflexivity). rewrite Hbc.
    unfold after_handler.
    assert (Hel : elided (macro_def_start s0) = false) by (rewrite (eqd_get elided _ _ (fun x => eq_refl) Hs); exact He).
    rewrite Hel. reflexivity. }
  set (s1 := macro_def_start s0) in *.
  assert (Hp1 : panicked s1 = None) by (rewrite (eqd_get panicked _ _ (fun x => eq_refl) Hs); exact Hp).
  assert (Hd1 : ifdepth s1 = 0%nat) by (rewrite (eqd_get ifdepth _ _ (fun x => eq_refl) Hs); exact Hd).
  assert (Hud1 : udef s1 = Some d) by (rewrite (eqd_get udef _ _ (fun x => eq_refl) Hs); reflexivity).
  change (b :: body ++ [BMacro (R "#.") a2 l2]) with ([b] ++ (body ++ [BMacro (R "#.") a2 l2])).
  rewrite (walk_app pb [b] _ (c, s) Hp), walk_one, Hstep. cbn [snd]. rewrite Hp1.
  destruct (skipped_definition_is_absent pb body a2 l2 c s1 d Hbody Hd1 Hud1 Hign Hp1) as (s' & Ew & Es & Ep).
  exists s'. split; [exact Ew|]. split; [|exact Ep].
  eapply eqc_trans; [exact Es|]. apply eqd_eqc in Hs. unfold eqc in *.
  transitivity (nfc s1 <| udef := None |>); [destruct s1; reflexivity|]. rewrite Hs.
  unfold s0. rewrite <- Hu. destruct s; destruct b; vm_compute; reflexivity.
Qed.
Print Assumptions restricted_definition_is_absent.

(* ---- an include line restricted to other formats: nothing is searched, read or processed ---- *)
Theorem restricted_include_is_absent pb a l c s o s1 f fs s' :
  let b := BMacro (R "If") a l in
  ifdepth s = 0%nat -> udef s = None -> elided s = false -> bf s = None ->
  (inl s = true \/ assoc (R "If") (umacros s) = None) ->
  parse_opts specOptIncludeFile a (set_regs b s) = (o, s1) -> opt "f" o = Some f ->
  formats_of f s1 = (fs, s') -> existsb (str_eqb (format s)) fs = false ->      (* the restriction excludes the current format *)
  exists s2, step pb b (c, s) = (c, s2) /\ s2 =c= s /\ panicked s2 = panicked s.
Proof.
  intros b Hd Hu He Hbf Hum Ho Hf Hfs Hno.
  set (s0 := set_regs b s).
  pose proof (parse_opts_eqd specOptIncludeFile a s0) as E1. fold s0 in Ho. rewrite Ho in E1. cbn [snd] in E1.
  pose proof (formats_of_eqd f s1) as E2. rewrite Hfs in E2. cbn [snd] in E2.
  set (s'' := if process s' then check_formats fs s' else s').
  assert (E3 : s'' ~~ s0) by (unfold s''; destruct (process s'); [eapply eqd_trans; [apply check_formats_eqd|]|]; eapply eqd_trans; eauto).
  assert (Hsk : not_export_format fs s'' = true).
  { unfold not_export_format. rewrite (eqd_get format _ _ (fun x => eq_refl) E3). change (format s0) with (format s). rewrite Hno. reflexivity. }
  exists (s'' <| elided := true |> <| elided := false |>). split; [|split].
  - unfold step. fold s0. change (ifdepth s0) with (ifdepth s). rewrite Hd. cbn [Nat.ltb Nat.leb].
    change (udef s0) with (udef s). rewrite Hu.
    assert (Hl : (if inl s0 then None else assoc (R "If") (umacros s0)) = None).
    { change (inl s0) with (inl s). change (umacros s0) with (umacros s). destruct Hum as [->| ->]; [reflexivity| destruct (inl s); reflexivity]. }
    unfold b at 1. rewrite Hl.
    change (control_builtin pb (R "If")) with (Some (macro_include pb)). cbv iota.
    assert (Hbc : bf_check (R "If") s0 = s0) by (unfold bf_check; change (bf s0) with (bf s); rewrite Hbf; reflexivity). rewrite Hbc.
    unfold macro_include. change (args s0) with a. rewrite Ho, Hf, Hfs. fold s''. rewrite Hsk.
    unfold after_handler. change (elided (s'' <| elided := true |>)) with true. reflexivity.
  - apply eqd_eqc in E3. unfold eqc in *.
    transitivity (nfc s'' <| elided := false |>); [destruct s''; reflexivity|]. rewrite E3.
    unfold s0. rewrite <- He. destruct s; destruct b; vm_compute; reflexivity.
  - change (panicked (s'' <| elided := true |> <| elided := false |>)) with (panicked s'').
    rewrite (eqd_get panicked _ _ (fun x => eq_refl) E3). reflexivity.
Qed.
Print Assumptions restricted_include_is_absent.

(* ---- a filter line restricted to other formats, in the rendering pass: nothing is rendered, no filter is run ---- *)
Theorem restricted_filter_line_is_absent pb a l c s o s1 f fs s' :
  let b := BMacro (R "Ft") a l in
  ifdepth s = 0%nat -> udef s = None -> elided s = false -> bf s = None -> process s = true ->
  (inl s = true \/ assoc (R "Ft") (umacros s) = None) ->
  parse_opts specOptFt a (set_regs b s) = (o, s1) -> opt "f" o = Some f ->
  formats_of f s1 = (fs, s') -> existsb (str_eqb (format s)) fs = false ->
  exists s2, step pb b (c, s) = (c, s2) /\ s2 =c= s /\ panicked s2 = panicked s.
Proof.
  intros b Hd Hu He Hbf Hpr Hum Ho Hf Hfs Hno.
  set (s0 := set_regs b s).
  pose proof (parse_opts_eqd specOptFt a s0) as E1. fold s0 in Ho. rewrite Ho in E1. cbn [snd] in E1.
  pose proof (formats_of_eqd f s1) as E2. rewrite Hfs in E2. cbn [snd] in E2.
  set (s'' := check_formats fs s').
  assert (E3 : s'' ~~ s0) by (unfold s''; eapply eqd_trans; [apply check_formats_eqd|]; eapply eqd_trans; eauto).
  assert (Hsk : not_export_format fs s'' = true).
  { unfold not_export_format. rewrite (eqd_get format _ _ (fun x => eq_refl) E3). change (format s0) with (format s). rewrite Hno. reflexivity. }
  exists (s'' <| elided := true |> <| elided := false |>). split; [|split].
  - unfold step. fold s0. change (ifdepth s0) with (ifdepth s). rewrite Hd. cbn [Nat.ltb Nat.leb].
    change (udef s0) with (udef s). rewrite Hu.
    assert (Hl : (if inl s0 then None else assoc (R "Ft") (umacros s0)) = None).
    { change (inl s0) with (inl s). change (umacros s0) with (umacros s). destruct Hum as [->| ->]; [reflexivity| destruct (inl s); reflexivity]. }
    unfold b at 1. rewrite Hl.
    change (control_builtin pb (R "Ft")) with (Some macro_ft). cbv iota.
    assert (Hbc : bf_check (R "Ft") s0 = s0) by (unfold bf_check; change (bf s0) with (bf s); rewrite Hbf; reflexivity). rewrite Hbc.
    unfold macro_ft. change (process s0) with (process s). rewrite Hpr. cbn [negb]. change (args s0) with a. rewrite Ho, Hf, Hfs. fold s''. rewrite Hsk.
    unfold after_handler. change (elided (s'' <| elided := true |>)) with true. reflexivity.
  - apply eqd_eqc in E3. unfold eqc in *.
    transitivity (nfc s'' <| elided := false |>); [destruct s''; reflexivity|]. rewrite E3.
    unfold s0. rewrite <- He. destruct s; destruct b; vm_compute; reflexivity.
  - change (panicked (s'' <| elided := true |> <| elided := false |>)) with (panicked s'').
    rewrite (eqd_get panicked _ _ (fun x => eq_refl) E3). reflexivity.
Qed.
Print Assumptions restricted_filter_line_is_absent.
