(* C19, shape clause: the reflowed paragraph is the words of the input, in order, each written whole, and between two
   consecutive words exactly one separator: a single blank, or a newline followed by the indentation. *)
Require Import Reflow.
From Coq Require Import List NArith Bool Lia.
Import ListNotations.
Open Scope N_scope.

Section Shape.
Variable is_space : rune -> bool.
Hypothesis sp_space : is_space SP = true.
Hypothesis nl_space : is_space NL = true.
Variable indent : nat.
Local Notation step := (step is_space indent).
Local Notation wstep := (wstep is_space).
Local Notation sepstr := (sepstr indent).
Local Notation ind := (ind indent).

Inductive Shaped : list str -> str -> Prop :=
| sh_nil : Shaped [] []
| sh_one w : Shaped [w] w
| sh_snoc ws out s w : Shaped ws out -> ws <> [] -> (s = [SP] \/ s = [NL] ++ ind) -> Shaped (ws ++ [w]) (out ++ s ++ w).

Definition isnil {A} (l : list A) : bool := match l with [] => true | _ => false end.
Definition InvS (s : rst) (w : wst) : Prop :=
  exists fl, Shaped fl (pbuf s) /\ want s = negb (isnil fl) /\
    ((spaces s = false /\ w = (fl, wbuf s)) \/ (spaces s = true /\ wbuf s <> [] /\ w = (fl ++ [wbuf s], []))).

Lemma Shaped_nil_out out : Shaped [] out -> out = [].
Proof. intro H. inversion H as [| |ws o s w H1 H2 H3 E]; [reflexivity|]. destruct ws; discriminate. Qed.
Lemma sepstr_choice s f : want s = true -> sepstr s f = [SP] \/ sepstr s f = [NL] ++ ind.
Proof. intro Hw. unfold Reflow.sepstr. rewrite Hw. destruct f; match goal with |- context [if ?c then _ else _] => destruct c end; auto. Qed.
Lemma sepstr_none s f : want s = false -> sepstr s f = [].
Proof. intro Hw. unfold Reflow.sepstr. rewrite Hw. reflexivity. Qed.
(* a word is appended to what is written *)
Lemma Shaped_flush s fl f : Shaped fl (pbuf s) -> want s = negb (isnil fl) -> Shaped (fl ++ [wbuf s]) (pbuf s ++ sepstr s f ++ wbuf s).
Proof. intros Hs Hw. destruct fl as [|w0 fl'].
  - cbn in Hw. rewrite (sepstr_none s f Hw), (Shaped_nil_out _ Hs). cbn. apply sh_one.
  - cbn in Hw. apply sh_snoc; [exact Hs|discriminate|apply sepstr_choice; exact Hw]. Qed.

Lemma InvS_step s w c : InvS s w -> InvS (step s c) (wstep w c).
Proof. intros (fl & Hs & Hw & Hc). unfold Reflow.step, Reflow.wstep. destruct (sep is_space c) eqn:Ec.
  - destruct (wbuf s) as [|d wb] eqn:Ewb.
    + destruct Hc as [[Hsp ->]|[_ [Hne _]]]; [|congruence]. cbn [fst snd]. exists fl. rewrite Ewb. split; [exact Hs|]. split; [exact Hw|]. left. split; [exact Hsp|reflexivity].
    + destruct Hc as [[Hsp ->]|[Hsp [_ ->]]]; rewrite Hsp; cbn [fst snd].
      * exists fl. cbn [pbuf wbuf spaces want]. split; [exact Hs|]. split; [exact Hw|]. right. split; [reflexivity|]. split; [discriminate|reflexivity].
      * exists fl. rewrite Ewb. split; [exact Hs|]. split; [exact Hw|]. right. split; [exact Hsp|]. split; [discriminate|reflexivity].
  - destruct (wbuf s) as [|d wb] eqn:Ewb.
    + destruct Hc as [[Hsp ->]|[_ [Hne _]]]; [|congruence]. cbn [fst snd]. exists fl. cbn [pbuf wbuf spaces want]. rewrite Ewb.
      split; [exact Hs|]. split; [exact Hw|]. left. split; [exact Hsp|reflexivity].
    + destruct Hc as [[Hsp ->]|[Hsp [_ ->]]]; rewrite Hsp; cbn [fst snd].
      * exists fl. cbn [pbuf wbuf spaces want]. rewrite Ewb. split; [exact Hs|]. split; [exact Hw|]. left. split; [exact Hsp|reflexivity].
      * assert (Hwb : wbuf s = d :: wb) by assumption. rewrite <- Hwb in *.
        exists (fl ++ [wbuf s]). unfold flush_word. cbn [pbuf wbuf spaces want].
        split; [apply Shaped_flush; assumption|]. split; [destruct fl; reflexivity|]. left. split; reflexivity.
Qed.
Lemma InvS_init : InvS (init) ([], []).
Proof. exists []. cbn. split; [constructor|]. split; [reflexivity|]. left. split; reflexivity. Qed.
Lemma InvS_fold t : forall s w, InvS s w -> InvS (fold_left step t s) (fold_left wstep t w).
Proof. induction t as [|c t IH]; intros s w H; [exact H|]. cbn [fold_left]. apply IH, InvS_step, H. Qed.

Theorem C19_shape t : Shaped (words is_space t) (reflow is_space indent t).
Proof. unfold reflow, words. destruct (InvS_fold t _ _ InvS_init) as (fl & Hs & Hw & Hc).
  set (s := fold_left step t init) in *. unfold finish, wfin.
  destruct (wbuf s) as [|d wb] eqn:Ewb.
  - destruct Hc as [[Hsp ->]|[_ [Hne _]]]; [|congruence]. cbn [fst snd]. exact Hs.
  - assert (Hfl : Shaped (fl ++ [d :: wb]) (pbuf s ++ sepstr s true ++ d :: wb)) by (rewrite <- Ewb; apply Shaped_flush; assumption).
    destruct Hc as [[Hsp ->]|[Hsp [_ ->]]]; cbn [fst snd]; exact Hfl.
Qed.
End Shape.
Print Assumptions C19_shape.
