(* Framing for the XHTML handlers of the proved fragment: [a ~= b] is equality on everything the handlers and the
   dispatcher never change (all fields but buffers, registers, inline scopes, diagnostics, ids).  Each handler is shown
   to be the identity up to [~=]; Side conditions of the invariants are transported along it. *)
From Coq Require Import List NArith ZArith Bool Lia Arith String.
Import ListNotations.
Require Import Latex Exp Proc1 Proc2 Proc3 Ctl Loop Eqd Tok TokL Inv InvL.
Open Scope N_scope.
Arguments runL : simpl never.
Arguments rev : simpl never.
Arguments flat : simpl never.

(* equality on everything the three handlers and the dispatcher never change *)
Definition nf (s : st) : st :=
  s <| buf := [] |> <| wout := [] |> <| ws := false |> <| sinline := [] |> <| par := false |> <| diags := [] |>
    <| macro := [] |> <| args := [] |> <| line := 0%nat |> <| text := [] |> <| prev := [] |> <| ids := [] |>
    <| elided := false |> <| quiet := false |>.
Definition eqf (a b : st) : Prop := nf a = nf b.
Infix "~=" := eqf (at level 70).
Lemma eqf_refl s : s ~= s. Proof. reflexivity. Qed.
Lemma eqf_trans a b c : a ~= b -> b ~= c -> a ~= c. Proof. unfold eqf; congruence. Qed.
Lemma nf_nd s : nf (nd s) = nf s. Proof. destruct s; reflexivity. Qed.
Lemma eqd_eqf a b : a ~~ b -> a ~= b.
Proof. intro H. unfold eqf. rewrite <- (nf_nd a), <- (nf_nd b). unfold eqd in H. rewrite H. reflexivity. Qed.
Lemma w_eqf x s : w x s ~= s. Proof. unfold w. destruct (par s); destruct s; reflexivity. Qed.
Lemma wl_eqf l s : wl l s ~= s. Proof. induction l as [|x r IH]; [reflexivity|]. cbn. eapply eqf_trans; [apply w_eqf|exact IH]. Qed.
Lemma eqf_get {A} (g : st -> A) a b : (forall s, g (nf s) = g s) -> a ~= b -> g a = g b.
Proof. intros Hg H. rewrite <- (Hg a), <- (Hg b). unfold eqf in H. rewrite H. reflexivity. Qed.

Lemma set_par_eqf b s : s <| par := b |> ~= s. Proof. destruct s; reflexivity. Qed.
Lemma set_ws_eqf b s : s <| ws := b |> ~= s. Proof. destruct s; reflexivity. Qed.
Lemma upd_buf_eqf f s : s <| buf ::= f |> ~= s. Proof. destruct s; reflexivity. Qed.
Lemma upd_sinline_eqf f s : s <| sinline ::= f |> ~= s. Proof. destruct s; reflexivity. Qed.
Lemma set_prev_eqf b s : s <| prev := b |> ~= s. Proof. destruct s; reflexivity. Qed.
Lemma fmt_eqf a b : a ~= b -> fmt a = fmt b. Proof. apply eqf_get. intro; reflexivity. Qed.
Lemma mtags_eqf a b : a ~= b -> mtags a = mtags b. Proof. apply eqf_get. intro; reflexivity. Qed.
Lemma after_handler_eqf n s : after_handler n s ~= s.
Proof. unfold after_handler. destruct (elided s); [destruct s; reflexivity|]. destruct (is_control_name n); [reflexivity|apply set_prev_eqf]. Qed.
Lemma push_inline_eqf tag id r s : has_cur s = true -> push_inline tag id r s ~= s.
Proof. intro Hc. unfold push_inline, mk_scope. destruct (cloc s) as [[[l n] f]|]; [apply upd_sinline_eqf|].
  rewrite Hc. apply upd_sinline_eqf. Qed.

Lemma begin_paragraph_eqf s : fmt s = FL -> begin_paragraph s ~= s.
Proof. intro Hf. unfold begin_paragraph. rewrite Hf. apply eqf_refl. Qed.
Lemma reopen_spanning_eqf s : fmt s = FL -> markup_okL (mtags s) -> reopen_spanning s ~= s.
Proof. intros Hf Hm. unfold reopen_spanning. destruct (reopen_foldL (mtags s) (sinline s) Hm s Hf eq_refl) as [x [Ex _]]. rewrite Ex. apply wl_eqf. Qed.
Lemma begin_phrasing_eqf ns s : fmt s = FL -> markup_okL (mtags s) -> begin_phrasing ns s ~= s.
Proof. intros Hf Hm. unfold begin_phrasing. destruct (par s).
  - destruct (ws s && negb ns); [apply w_eqf|apply eqf_refl].
  - eapply eqf_trans; [apply set_par_eqf|]. destruct (negb (inl s) && negb (scope_verse s)).
    + pose proof (begin_paragraph_eqf s Hf) as H. eapply eqf_trans; [|exact H].
      apply reopen_spanning_eqf; [rewrite (fmt_eqf _ _ H); exact Hf|rewrite (mtags_eqf _ _ H); exact Hm].
    + destruct (negb (inl s)); [apply eqd_eqf, err_eqd|apply eqf_refl]. Qed.

Lemma process_text_eqf s : asis s = false -> fmt s = FL -> markup_okL (mtags s) -> process_text s ~= s.
Proof. intros Has Hf Hm. unfold process_text. destruct (process s); [|apply eqf_refl]. rewrite Has. cbn [negb].
  set (s1 := if negb (par s) then _ else _).
  assert (E1 : s1 ~= s).
  { unfold s1. destruct (negb (par s)).
    - pose proof (eqf_trans _ _ _ (set_par_eqf true (begin_paragraph s)) (begin_paragraph_eqf s Hf)) as H.
      eapply eqf_trans; [|exact H]. apply reopen_spanning_eqf; [rewrite (fmt_eqf _ _ H); exact Hf|rewrite (mtags_eqf _ _ H); exact Hm].
    - destruct (ws s); [apply upd_buf_eqf|apply eqf_refl]. }
  clearbody s1. pose proof (render_text_eqd (text s1) s1) as He. destruct (render_text (text s1) s1) as [t s2]. cbn [snd] in He.
  set (s3 := match t with [] => s2 | _ => _ end).
  assert (E3 : s3 ~~ s2). { unfold s3. destruct t; [reflexivity|]. destruct (has_blank_line _); [apply err_eqd|reflexivity]. }
  eapply eqf_trans; [apply set_ws_eqf|]. eapply eqf_trans; [apply upd_buf_eqf|].
  eapply eqf_trans; [apply eqd_eqf; exact E3|]. eapply eqf_trans; [apply eqd_eqf; exact He|exact E1]. Qed.

Lemma store_id_eqf id i s : store_id id i s ~= s.
Proof. unfold store_id. set (s1 := if has_key id (ids s) then _ else _).
  assert (Herr : forall k, (err k (s <| quiet := false |>)) <| quiet := quiet s |> ~= s) by (intro k; unfold err; cbn; destruct s; reflexivity).
  assert (E : s1 ~= s).
  { unfold s1. destruct (has_key id (ids s)); [apply Herr|]. destruct (_ && _); [apply Herr|apply eqf_refl]. }
  eapply eqf_trans; [|exact E]. destruct s1; reflexivity. Qed.

Lemma macro_bm_eqf s : fmt s = FL -> markup_okL (mtags s) -> has_cur s = true -> macro_bm s ~= s.
Proof. intros Hf Hm Hc. unfold macro_bm.
  pose proof (parse_opts_eqd specOptBm (args s) s) as E1. destruct (parse_opts specOptBm (args s) s) as [o s1]. cbn [snd] in E1.
  pose proof (opt_render_eqd "id" o s1) as E2. pose proof (opt_render_escapedL "id" o s1) as Hid.
  destruct (opt_render "id" o s1) as [id s2]. cbn [fst snd] in *.
  assert (E : s2 ~~ s) by (eapply eqd_trans; eauto). specialize (Hid ltac:(rewrite (Inv.fmt_eqd _ _ E1); exact Hf)).
  assert (F2 : s2 ~= s) by (apply eqd_eqf; exact E).
  destruct (process s2); cbn [negb]; [|destruct id; [exact F2|eapply eqf_trans; [apply store_id_eqf|exact F2]]].
  set (s3 := begin_phrasing (flag "ns" o) s2 <| ws := false |>).
  assert (F3 : s3 ~= s).
  { eapply eqf_trans; [apply set_ws_eqf|]. eapply eqf_trans; [|exact F2].
    apply begin_phrasing_eqf; [rewrite (fmt_eqf _ _ F2); exact Hf|rewrite (mtags_eqf _ _ F2); exact Hm]. }
  clearbody s3.
  set (r4 := match opt "t" o with Some t => _ | None => _ end).
  assert (E4 : snd r4 ~~ s3).
  { unfold r4. destruct (opt "t" o) as [t|]; [|reflexivity].
    pose proof (inlines_text_eqd t s3) as H. destruct (inlines_text t s3) as [tg s']. cbn [snd] in *.
    destruct (has_key tg (mtags s')); [exact H|]. eapply eqd_trans; [apply err_eqd|exact H]. }
  destruct r4 as [tag s4]. cbn [snd] in E4.
  assert (F4 : s4 ~= s) by (eapply eqf_trans; [apply eqd_eqf; exact E4|exact F3]).
  assert (F4' : push_inline tag id (flag "r" o) s4 ~= s) by (eapply eqf_trans; [apply push_inline_eqf; rewrite (eqf_get has_cur _ _ (fun _ => eq_refl) F4); exact Hc|exact F4]).
  set (s4' := push_inline tag id (flag "r" o) s4) in *. clearbody s4'.
  unfold begin_markup_block. rewrite (fmt_eqf _ _ F4'), Hf.
  destruct (Hm tag id Hid) as [[x [Ex Hx]] _]. rewrite !Ex by (apply (mtags_eqf _ _ F4')).
  set (s5 := w x s4').
  assert (F5 : s5 ~= s) by (eapply eqf_trans; [apply w_eqf|exact F4']).
  clearbody s5. destruct (po_args o) as [|a0 al]; [exact F5|]. destruct (negb (inl s5)); [eapply eqf_trans; [apply eqd_eqf, err_eqd|exact F5]|].
  pose proof (render_args_eqd (a0 :: al) s5) as Er. destruct (render_args (a0 :: al) s5) as [t s']. cbn [snd] in Er.
  eapply eqf_trans; [apply w_eqf|]. eapply eqf_trans; [apply eqd_eqf; exact Er|exact F5]. Qed.

(* macroEm: besides what ~= ignores, it pops the innermost inline scope when there is one *)
Lemma macro_em_eqf s : fmt s = FL -> markup_okL (mtags s) ->
  macro_em s ~= s /\ (process s = true -> sinline (macro_em s) = pop (sinline s)).
Proof. intros Hf Hm. unfold macro_em. destruct (process s); cbn [negb]; [|split; [apply eqf_refl|discriminate]].
  pose proof (parse_opts_eqd specOptEm (args s) s) as E1. destruct (parse_opts specOptEm (args s) s) as [o s1]. cbn [snd] in E1.
  assert (F1 : s1 ~= s) by (apply eqd_eqf; exact E1).
  assert (Hsi1 : sinline s1 = sinline s) by (apply (eqd_get sinline _ _ (fun _ => eq_refl) E1)).
  destruct (top (sinline s1)) as [sc|] eqn:Etop.
  2:{ split; [eapply eqf_trans; [apply eqd_eqf, err_eqd|exact F1]|]. intros _.
      rewrite (eqd_get sinline _ _ (fun _ => eq_refl) (err_eqd _ s1)), Hsi1. rewrite Hsi1 in Etop.
      unfold top in Etop. destruct (sinline s) as [|a l]; [reflexivity|]. exfalso. clear -Etop.
      revert a Etop. induction l as [|b l IH]; intros a H; [discriminate|]. exact (IH b H). }
  set (s2 := s1 <| sinline ::= pop |>). assert (F2 : s2 ~= s) by (eapply eqf_trans; [apply upd_sinline_eqf|exact F1]).
  set (s3 := match opt "t" o with Some t => _ | None => _ end).
  assert (E3 : s3 ~~ s2).
  { unfold s3. destruct (opt "t" o) as [t|].
    - pose proof (inlines_text_eqd t s2) as H. destruct (inlines_text t s2) as [tx s']. cbn [snd] in H.
      destruct (str_eqb tx (sc_tag sc)); [exact H|]. eapply eqd_trans; [apply err_eqd|exact H].
    - destruct (sc_req sc); [apply err_eqd|reflexivity]. }
  set (r4 := match po_args o with [] => _ | a :: r => _ end).
  assert (E4 : snd r4 ~~ s2 /\ textualL (fst (fst r4))).
  { unfold r4. destruct (po_args o) as [|a r]; [split; [exact E3|apply textualL_nil]|].
    set (u := if negb (inl s3) then (true, s3) else is_punct_arg a s3).
    assert (Eu : snd u ~~ s3) by (unfold u; destruct (negb (inl s3)); [reflexivity|apply is_punct_arg_eqd]).
    destruct u as [use s']. cbn [snd] in Eu. destruct use; [|split; [eapply eqd_trans; eauto|apply textualL_nil]].
    pose proof (render_text_eqd a s') as H. destruct (render_text_escaped a s') as [t Et]. destruct (render_text a s') as [p s'']. cbn [fst snd] in *.
    split; [eapply eqd_trans; [exact H|eapply eqd_trans; eauto]|].
    rewrite Et, (escape_fn_FL s'); [apply latex_escape_textual|]. rewrite (Inv.fmt_eqd _ _ Eu), (Inv.fmt_eqd _ _ E3), (fmt_eqf _ _ F2). exact Hf. }
  destruct r4 as [[punct rest] s4]. cbn [fst snd] in E4. destruct E4 as [E4 Hpunct].
  assert (F4 : s4 ~= s) by (eapply eqf_trans; [apply eqd_eqf; exact E4|exact F2]).
  assert (Hsi4 : sinline s4 = pop (sinline s)) by (rewrite (eqd_get sinline _ _ (fun _ => eq_refl) E4); unfold s2; cbn; rewrite Hsi1; reflexivity).
  set (s5 := if par s4 then end_markup_block (sc_tag sc) punct s4 else w punct s4).
  assert (F5 : exists c, s5 = wl c s4).
  { unfold s5. destruct (par s4); [|exists [punct]; reflexivity]. unfold end_markup_block. rewrite (fmt_eqf _ _ F4), Hf.
    destruct (Hm (sc_tag sc) [] (ex_intro _ [] eq_refl)) as [_ Hc]. destruct (Hc punct Hpunct) as [x [Ex _]].
    rewrite Ex by apply (mtags_eqf _ _ F4). exists [x]; reflexivity. }
  destruct F5 as [c5 F5]. clearbody s5. subst s5.
  assert (Hsw : forall c s, sinline (wl c s) = sinline s).
  { intros c s'. change (sinline (wl c s')) with (let '(_, _, _, (_, _, si, _)) := view (wl c s') in si). rewrite view_wl. reflexivity. }
  destruct rest as [|a0 al].
  - split; [eapply eqf_trans; [apply set_ws_eqf|]; eapply eqf_trans; [apply wl_eqf|exact F4]|].
    intros _. change (sinline (wl c5 s4 <| ws := negb (flag "ns" o) |>)) with (sinline (wl c5 s4)). rewrite Hsw. exact Hsi4.
  - destruct (negb (inl (wl c5 s4))).
    + split; [eapply eqf_trans; [apply set_ws_eqf|]; eapply eqf_trans; [apply eqd_eqf, err_eqd|]; eapply eqf_trans; [apply wl_eqf|exact F4]|].
      intros _. change (sinline (err "useless args in macro Em" (wl c5 s4) <| ws := negb (flag "ns" o) |>)) with (sinline (err "useless args in macro Em" (wl c5 s4))).
      rewrite (eqd_get sinline _ _ (fun _ => eq_refl) (err_eqd _ _)), Hsw. exact Hsi4.
    + pose proof (render_args_eqd (a0 :: al) (wl c5 s4)) as Er. destruct (render_args (a0 :: al) (wl c5 s4)) as [t s']. cbn [snd] in Er.
      split; [eapply eqf_trans; [apply set_ws_eqf|]; eapply eqf_trans; [apply w_eqf|]; eapply eqf_trans; [apply eqd_eqf; exact Er|]; eapply eqf_trans; [apply wl_eqf|exact F4]|].
      intros _. change (sinline (w t s' <| ws := negb (flag "ns" o) |>)) with (sinline (wl [t] s')). rewrite Hsw.
      rewrite (eqd_get sinline _ _ (fun _ => eq_refl) Er), Hsw. exact Hsi4.
Qed.

Lemma macro_sm_eqf s : fmt s = FL -> markup_okL (mtags s) -> macro_sm s ~= s.
Proof. intros Hf Hm. unfold macro_sm.
  pose proof (parse_opts_eqd specOptSm (args s) s) as E1. destruct (parse_opts specOptSm (args s) s) as [o s1]. cbn [snd] in E1.
  pose proof (opt_render_eqd "id" o s1) as E2. pose proof (opt_render_escapedL "id" o s1) as Hid.
  destruct (opt_render "id" o s1) as [id s2]. cbn [fst snd] in *.
  assert (E : s2 ~~ s) by (eapply eqd_trans; eauto). specialize (Hid ltac:(rewrite (Inv.fmt_eqd _ _ E1); exact Hf)).
  assert (F2 : s2 ~= s) by (apply eqd_eqf; exact E).
  destruct (process s2); cbn [negb]; [|destruct id; [exact F2|eapply eqf_trans; [apply store_id_eqf|exact F2]]].
  destruct (po_args o) as [|a0 al]; [eapply eqf_trans; [apply eqd_eqf, err_eqd|exact F2]|].
  set (r3 := if Nat.ltb 1 (List.length (a0 :: al)) then get_close_punct (a0 :: al) s2 else (a0 :: al, [], s2)).
  assert (H3 : snd r3 ~~ s2 /\ textualL (snd (fst r3))).
  { unfold r3. destruct (Nat.ltb 1 (List.length (a0 :: al))); [|split; [reflexivity|apply textualL_nil]].
    split; [apply get_close_punct_eqd|apply get_close_punct_textualL; rewrite (fmt_eqf _ _ F2); exact Hf]. }
  destruct r3 as [[a punct] s3]. cbn [fst snd] in H3. destruct H3 as [E3 Hpunct].
  assert (F3 : s3 ~= s) by (eapply eqf_trans; [apply eqd_eqf; exact E3|exact F2]).
  set (s4 := begin_phrasing (flag "ns" o) s3).
  assert (F4 : s4 ~= s) by (eapply eqf_trans; [|exact F3]; apply begin_phrasing_eqf; [rewrite (fmt_eqf _ _ F3); exact Hf|rewrite (mtags_eqf _ _ F3); exact Hm]).
  clearbody s4.
  set (r5 := match opt "t" o with Some t => _ | None => _ end).
  assert (E5 : snd r5 ~~ s4).
  { unfold r5. destruct (opt "t" o) as [t|]; [|reflexivity].
    pose proof (inlines_text_eqd t s4) as H. destruct (inlines_text t s4) as [tg s']. cbn [snd] in *.
    destruct (has_key tg (mtags s')); [exact H|]. eapply eqd_trans; [apply err_eqd|exact H]. }
  destruct r5 as [tag s5]. cbn [snd] in E5.
  assert (F5 : s5 ~= s) by (eapply eqf_trans; [apply eqd_eqf; exact E5|exact F4]).
  unfold begin_markup_block. rewrite (fmt_eqf _ _ F5), Hf.
  destruct (Hm tag id Hid) as [[x [Ex Hx]] Hc]. rewrite (Ex s5 (mtags_eqf _ _ F5)).
  pose proof (render_args_eqd a (w x s5)) as E7. destruct (render_args a (w x s5)) as [t s7]. cbn [snd] in E7.
  assert (F7 : s7 ~= s) by (eapply eqf_trans; [apply eqd_eqf; exact E7|]; eapply eqf_trans; [apply w_eqf|exact F5]).
  unfold end_markup_block. rewrite Inv.fmt_w, (fmt_eqf _ _ F7), Hf.
  destruct (Hc punct Hpunct) as [y [Ey Hy]]. rewrite (Ey (w t s7)) by (rewrite mtags_w; apply (mtags_eqf _ _ F7)).
  eapply eqf_trans; [apply set_ws_eqf|]. eapply eqf_trans; [apply w_eqf|]. eapply eqf_trans; [apply w_eqf|exact F7]. Qed.

Lemma set_verse_eqf s : verse s = false -> s <| verse := false |> ~= s.
Proof. intro H. destruct s; cbn in *; subst; reflexivity. Qed.
Lemma macro_p_plain_eqf pim s : fmt s = FL -> markup_okL (mtags s) -> args s = [] -> verse s = false -> macro_p pim s ~= s.
Proof. intros Hf Hm Ha Hv. unfold macro_p. destruct (process s); cbn [negb]; [|apply eqf_refl].
  rewrite Ha, parse_opts_nil. cbn [po_args].
  set (s2 := if par s then _ else _).
  assert (F2 : s2 ~= s).
  { unfold s2. destruct (par s).
    - unfold close_spanning. destruct (close_foldL (mtags s) (rev (sinline s)) Hm s Hf eq_refl) as [c [Ec _]]. rewrite Ec.
      set (s1 := process_paragraph (wl c s)).
      assert (F1 : s1 ~= s) by (eapply eqf_trans; [|apply (wl_eqf c s)]; unfold s1, process_paragraph, wo; destruct (wl c s); reflexivity).
      clearbody s1. destruct (scope_verse s1 && verse s1).
      + unfold end_stanza, end_paragraph. rewrite (fmt_eqf _ _ F1), Hf. unfold L.end_stanza, L.end_paragraph.
        eapply eqf_trans; [apply w_eqf|exact F1].
      + unfold end_paragraph. rewrite (fmt_eqf _ _ F1), Hf. unfold L.end_paragraph. eapply eqf_trans; [apply w_eqf|exact F1].
    - unfold end_paragraph. rewrite Hf. unfold L.end_paragraph. eapply eqf_trans; [apply set_par_eqf|apply w_eqf]. }
  clearbody s2. eapply eqf_trans; [|exact F2]. eapply eqf_trans; [|apply (set_ws_eqf false s2)].
  apply set_verse_eqf. change (verse (s2 <| ws := false |>)) with (verse s2). rewrite (eqf_get verse _ _ (fun _ => eq_refl) F2). exact Hv. Qed.


Lemma set_quiet_eqf q s : s <| quiet := q |> ~= s. Proof. destruct s; reflexivity. Qed.
Lemma set_macro_eqf q s : s <| macro := q |> ~= s. Proof. destruct s; reflexivity. Qed.
Lemma set_args_eqf q s : s <| args := q |> ~= s. Proof. destruct s; reflexivity. Qed.
Lemma close_inline_loop_eqf cur : forall n s, fmt s = FL -> markup_okL (mtags s) -> close_inline_loop n cur s ~= s.
Proof. induction n as [|n IH]; intros s Hf Hm; [apply eqf_refl|]. cbn [close_inline_loop]. destruct (top (sinline s)) as [sc|]; [|apply eqf_refl].
  set (s2 := warn_unclosed sc (s <| macro := cur |>) <| macro := R "Em" |> <| args := tag_args (sc_tag sc) |>).
  assert (F2 : s2 <| quiet := true |> ~= s).
  { eapply eqf_trans; [apply set_quiet_eqf|]. unfold s2. eapply eqf_trans; [apply set_args_eqf|]. eapply eqf_trans; [apply set_macro_eqf|].
    eapply eqf_trans; [apply eqd_eqf, err_eqd|apply set_macro_eqf]. }
  destruct (macro_em_eqf (s2 <| quiet := true |>) ltac:(rewrite (fmt_eqf _ _ F2); exact Hf) ltac:(rewrite (mtags_eqf _ _ F2); exact Hm)) as [Fem _].
  set (s3' := macro_em (s2 <| quiet := true |>) <| quiet := quiet s2 |> <| args := [] |>).
  assert (F3 : s3' ~= s) by (unfold s3'; eapply eqf_trans; [apply set_args_eqf|]; eapply eqf_trans; [apply set_quiet_eqf|]; eapply eqf_trans; [exact Fem|exact F2]).
  eapply eqf_trans; [apply IH; [rewrite (fmt_eqf _ _ F3); exact Hf|rewrite (mtags_eqf _ _ F3); exact Hm]|exact F3]. Qed.
Lemma close_unclosed_inline_eqf s : fmt s = FL -> markup_okL (mtags s) -> close_unclosed_inline s ~= s.
Proof. intros Hf Hm. unfold close_unclosed_inline. destruct (sinline s) as [|x l]; [apply eqf_refl|].
  eapply eqf_trans; [apply set_args_eqf|]. eapply eqf_trans; [apply set_macro_eqf|].
  eapply eqf_trans; [apply close_inline_loop_eqf; [exact Hf|exact Hm]|apply set_args_eqf]. Qed.

Lemma p_break_eqf s : fmt s = FL -> markup_okL (mtags s) -> p_break s ~= s.
Proof. intros Hf Hm. unfold p_break. destruct (par s).
  - unfold close_spanning. destruct (close_foldL (mtags s) (rev (sinline s)) Hm s Hf eq_refl) as [c [Ec _]]. rewrite Ec.
    set (s1 := process_paragraph (wl c s)).
    assert (F1 : s1 ~= s) by (eapply eqf_trans; [|apply (wl_eqf c s)]; unfold s1, process_paragraph, wo; destruct (wl c s); reflexivity).
    clearbody s1. cbv zeta. destruct (scope_verse s1 && verse s1).
    + unfold end_stanza, end_paragraph. rewrite (fmt_eqf _ _ F1), Hf. unfold L.end_stanza, L.end_paragraph.
      eapply eqf_trans; [apply w_eqf|exact F1].
    + unfold end_paragraph. rewrite (fmt_eqf _ _ F1), Hf. unfold L.end_paragraph. eapply eqf_trans; [apply w_eqf|exact F1].
  - unfold end_paragraph. rewrite Hf. unfold L.end_paragraph. eapply eqf_trans; [apply set_par_eqf|apply w_eqf]. Qed.
