(* C19 — markdown paragraph reflow keeps every word, in order.
   Model: Model/Reflow.v (exporter/markdown/utils.go processText), instantiated with the
   toolchain's White_Space table regenerated into Gen/Tables.v. *)
Require Import Reflow Unicode.
From Coq Require Import List NArith.

Theorem C19_words_preserved : forall (indent : nat) (t : str),
  words is_space (reflow is_space indent t) = words is_space t.
Proof. exact (C19_words is_space is_space_SP is_space_NL). Qed.
Print Assumptions C19_words_preserved.

(* shape: the output is the words of the input, each written whole and in order, with exactly one separator between two
   consecutive words - a single blank, or a newline followed by the indentation (Proofs/ReflowShape.v) *)
Require ReflowShape.
Theorem C19_shape : forall (indent : nat) (t : str),
  ReflowShape.Shaped indent (words is_space t) (reflow is_space indent t).
Proof. exact (ReflowShape.C19_shape is_space). Qed.
Print Assumptions C19_shape.
