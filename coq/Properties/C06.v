(* C06 — header numbers, levels and tables of contents mirror the header sequence.
   toc.go is translated statement by statement into GoLite terms (Gen/TocGen.v) on every run;
   the theorems below are about those generated terms, run by the GoLite interpreter (Base/GoLite.v). *)
Require Import GoLite TocGen TocProofs.
Require TocW.
From Coq Require Import String List ZArith Bool.
Import ListNotations.
Open Scope Z_scope.

(* updateHeadersCount, as written in the source now, is the hierarchical counter update:
   a child counter restarts when its parent advances; -nonum consumes no number *)
Theorem C06_counters : forall t k nonum,
  exists en, exec 50 updateHeadersCount_body (call_env t k nonum) = ONormal en /\ fields en = fields_of (update t k nonum).
Proof. exact updateHeadersCount_gen_eq. Qed.
(* heading levels preserve part > chapter > section > subsection under every (HasPart, HasChapter) *)
Theorem C06_levels_ordered : forall t, exists a b c d,
  level_of t Pt = Some a /\ level_of t Ch = Some b /\ level_of t Sh = Some c /\ level_of t Ss = Some d /\ a < b < c /\ c < d.
Proof. exact C06_levels. Qed.
(* the list-nesting loop of writeTOC is balanced for every sequence of title levels *)
Theorem C06_toc_nested : forall levels, TocW.balanced (TocW.write_toc_fixed levels).
Proof. exact TocW.write_toc_fixed_balanced. Qed.
Print Assumptions C06_counters.
Print Assumptions C06_levels_ordered.
Print Assumptions C06_toc_nested.
