(* C06 — header numbers, levels and tables of contents mirror the header sequence.
   toc.go is translated statement by statement into GoLite terms (Gen/TocGen.v) on every run;
   the theorems below are about those generated terms, run by the GoLite interpreter (Base/GoLite.v). *)
Require Import GoLite TocGen TocProofs.
Require TocW.
From Coq Require Import String List ZArith Bool.
Import ListNotations.
Open Scope Z_scope.

(* updateHeadersCount, as written in the source now, is the hierarchical counter update:
   a child counter restarts when its parent advances; -nonum consumes no number *)
Theorem C06_counters : forall t k nonum,
  exists en, exec 50 updateHeadersCount_body (call_env t k nonum) = ONormal en /\ fields en = fields_of (update t k nonum).
Proof. exact updateHeadersCount_gen_eq. Qed.
(* heading levels preserve part > chapter > section > subsection under every (HasPart, HasChapter) *)
Theorem C06_levels_ordered : forall t, exists a b c d,
  level_of t Pt = Some a /\ level_of t Ch = Some b /\ level_of t Sh = Some c /\ level_of t Ss = Some d /\ a < b < c /\ c < d.
Proof. exact C06_levels. Qed.
(* the list-nesting loop of writeTOC is balanced for every sequence of title levels *)
Theorem C06_toc_nested : forall levels, TocW.balanced (TocW.write_toc_fixed levels).
Proof. exact TocW.write_toc_fixed_balanced. Qed.
Print Assumptions C06_counters.
Print Assumptions C06_levels_ordered.
Print Assumptions C06_toc_nested.

(* the table-of-contents writer on the real strings (Model/Xhtml.toc_string: the XHTML TOC, the EPUB navigation document and
   the NCX, i.e. writeTOC after the repair of D4): for every header list, every combination of options (mini, summary,
   nonum, title) and every counter state, what it writes opens and closes exactly its own elements, nested lists included.
   Entries are assumed to carry a reference without '>' and a balanced title (what processInlineMacros returns). *)
Require TocStr St Exp Xhtml Tok.
Theorem C06_toc_writer_balanced : forall d opts s t s1, Exp.fmt s = Exp.FX -> Forall TocStr.entry_ok (St.lox_toc s) ->
  Tok.textual (Xhtml.X.param "document-title" s) ->
  Xhtml.X.toc_string d opts s = (Some t, s1) -> forall stk, Tok.run t (Tok.Txt, stk) = (Tok.Txt, stk).
Proof. exact TocStr.toc_string_balanced. Qed.
Print Assumptions C06_toc_writer_balanced.

(* the functions the model uses for header counters are the generated (source) ones: update, reset, level, nav count *)
Require TocTie.
Theorem C06_model_counters_are_the_source : forall t k nonum,
  exists en, exec 50 updateHeadersCount_body (call_env (TocTie.to_twin t) k nonum) = ONormal en /\
             fields en = fields_of (TocTie.to_twin (Common.update_headers (St.runes (kname k)) nonum t)).
Proof. exact TocTie.update_headers_is_generated. Qed.
Theorem C06_model_levels_are_the_source : forall t k,
  exists z, level_of (TocTie.to_twin t) k = Some z /\ Common.header_level t (St.runes (kname k)) = Some (Z.to_nat (z + 1)).
Proof. exact TocTie.header_level_is_generated. Qed.
Theorem C06_model_reset_is_the_source : forall t,
  exists en, exec 50 resetCounters_body {| locals := []; fields := fields_of (TocTie.to_twin t) |} = ONormal en /\
             fields en = fields_of (TocTie.to_twin (Common.reset_counters t)).
Proof. exact TocTie.reset_counters_is_generated. Qed.
