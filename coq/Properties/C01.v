(* C01 — compilation never crashes: output or an error, never a panic.
   Model: Model/Loop.compile_source; every Go operation that can panic is a partial primitive of the model
   (set_panic at that site), so "the model does not reach a panic site" is the statement.  Tied by S-e2e
   (exit class is compared: the model panics exactly where the implementation does). *)
From Coq Require Import List NArith Bool String.
Import ListNotations.
Require Import St Loop Doc.
Open Scope string_scope.

Definition C01_full : Prop := forall fmt md wd main, no_panic (compile_source fmt md wd main) = true.

(* regression witnesses of the repaired defects, evaluated on the model (D1, D2, D3, D21) *)
Example D1_unclosed_table : forallb (fun f => no_panic (run_doc f 0 ".Bl -t table
.It a
")) ["xhtml"; "latex"; "mom"; "markdown"] = true.
Proof. vm_compute. reflexivity. Qed.
Example D2_mom_fontstack : no_panic (run_doc "mom" 0 ".Bm
.P
") = true /\ no_panic (run_doc "mom" 0 ".Bm
.P a Em b
") = true.
Proof. vm_compute. split; reflexivity. Qed.
Example D3_user_macro_named_Sm : no_panic (run_doc "xhtml" 0 ".#de Sm
.Ch inner
.#.
.Ch Sm
") = true.
Proof. vm_compute. reflexivity. Qed.

(* proved for every document of a sub-language, every world and every positive nesting fuel (text lines, .Bm/.Em/.Sm,
   .P with or without title, display blocks .Bd/.Ed nested to any depth, headers .Ch/.Pt/.Sh/.Ss; XHTML fragment mode 0, standalone mode 1, multi-file mode 2 and EPUB mode 3): the model
   never records a panic - neither the scope stack's "no current block", nor BeginHeader's index out of range (the passes
   agree), nor running out of fuel.  Proofs/FragB.v, Proofs/FragH.v. *)
Require FragH.
Theorem C01_blocks_no_panic_partial : forall fuel f md wd main bs, f = R "xhtml" \/ f = R "epub" -> (md <= 3)%nat -> Forall FragH.in_fragH bs ->
  panicked (snd (compile (S fuel) f md wd main bs)) = None.
Proof. intros fuel f md wd main bs Hf Hm H. exact (proj1 (FragH.C02_headers_balanced_modes fuel f md wd main bs Hf Hm H)). Qed.
Theorem C01_source_no_panic_partial : forall f md wd main src bs, f = R "xhtml" \/ f = R "epub" -> (md <= 3)%nat -> assoc main (w_fs wd) = Some src -> parse src = (bs, None) ->
  Forall FragH.in_fragH bs -> no_panic (compile_source f md wd main) = true.
Proof. intros f md wd main src bs Hf Hm Hs Hp H. unfold no_panic, compile_source, compile_source_c. rewrite Hs, Hp.
  change (nesting_fuel wd) with (S (63 + List.length (w_fs wd))).
  rewrite (proj1 (FragH.C02_headers_balanced_modes _ f md wd main bs Hf Hm H)). reflexivity. Qed.
Print Assumptions C01_source_no_panic_partial.

(* tie of the dispatcher to the source: the model dispatches exactly the names of frundis.DefaultExporterMacros
   (Gen/Facts.dispatch_table, regenerated from /repo on every run), each to the model of the handler named there *)
Require DispatchProofs Facts.
Theorem C01_dispatch_table_agrees : forall pb,
  Forall (fun p => DispatchProofs.model_dispatch pb (runes (fst p)) = DispatchProofs.handler_of pb (snd p) /\ DispatchProofs.handler_of pb (snd p) <> None) Facts.dispatch_table.
Proof. exact DispatchProofs.dispatch_agrees. Qed.
Theorem C01_dispatch_domain : forall pb n, DispatchProofs.model_dispatch pb n <> None -> In n (map (fun p => runes (fst p)) Facts.dispatch_table).
Proof. exact DispatchProofs.dispatch_domain. Qed.
(* the option tables of options.go (which options each macro accepts, and which take an argument) are the model's *)
Theorem C01_option_tables_agree :
  forallb (fun p => match DispatchProofs.model_spec (fst p) with Some m => DispatchProofs.spec_agrees (snd p) m | None => false end) Facts.opt_specs = true.
Proof. exact DispatchProofs.option_tables_agree. Qed.
(* parameter names, XHTML element tables, export formats and expansion limits are those of the source *)
Theorem C01_source_constants_agree :
  (nth_error (DispatchProofs.switch_of "frundis.macroXset") 0 = Some Proc3.known_params /\ nth_error (DispatchProofs.switch_of "frundis.macroXset") 1 = Some Proc3.rendered_params) /\
  (DispatchProofs.switch_of "xhtml.Xdtag" = [Exp.flow_elems] /\ DispatchProofs.switch_of "xhtml.Xmtag" = [Exp.phrasing_elems]) /\
  Facts.valid_formats = Proc2.valid_formats /\
  (N.of_nat max_macro_expansions = Facts.max_macro_expansions /\ N.of_nat max_macro_args_size = Facts.max_macro_args_size).
Proof. exact (conj DispatchProofs.known_params_agree (conj DispatchProofs.element_tables_agree (conj DispatchProofs.valid_formats_agree DispatchProofs.expansion_limits_agree))). Qed.
