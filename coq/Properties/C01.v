(* C01 — compilation never crashes: output or an error, never a panic.
   Model: Model/Loop.compile_source; every Go operation that can panic is a partial primitive of the model
   (set_panic at that site), so "the model does not reach a panic site" is the statement.  Tied by S-e2e
   (exit class is compared: the model panics exactly where the implementation does). *)
From Coq Require Import List NArith Bool String.
Import ListNotations.
Require Import St Loop Doc.
Open Scope string_scope.

Definition C01_full : Prop := forall fmt md wd main, no_panic (compile_source fmt md wd main) = true.

(* regression witnesses of the repaired defects, evaluated on the model (D1, D2, D3, D21) *)
Example D1_unclosed_table : forallb (fun f => no_panic (run_doc f 0 ".Bl -t table
.It a
")) ["xhtml"; "latex"; "mom"; "markdown"] = true.
Proof. vm_compute. reflexivity. Qed.
Example D2_mom_fontstack : no_panic (run_doc "mom" 0 ".Bm
.P
") = true /\ no_panic (run_doc "mom" 0 ".Bm
.P a Em b
") = true.
Proof. vm_compute. split; reflexivity. Qed.
Example D3_user_macro_named_Sm : no_panic (run_doc "xhtml" 0 ".#de Sm
.Ch inner
.#.
.Ch Sm
") = true.
Proof. vm_compute. reflexivity. Qed.
