(* C09 — conditionals and format selectors include or elide exactly their scope. *)
From Coq Require Import List NArith Bool String.
Import ListNotations.
Require Import St Exp Proc1 Proc2 Proc3 Ctl Loop Doc Eqd IfProofs IfTrue DefIgnored.
Require VarProofs.
Open Scope string_scope.

(* False branch, for every conditional block, every nesting, every body, every recursive entry pb, every format:
   when the condition of a top-level #if evaluates to false (the ignore depth becomes 1), processing the #if line,
   a body in which #if / #; are balanced, and the matching #; leaves the control state unchanged (no process started,
   no file included) and the rendering state equal to what it was before the #if line -- output written, paragraph buffer,
   scopes, counters, variables, definitions, the previous-macro register included -- except for the dispatch registers
   (overwritten when the next block is dispatched) and the diagnostics.  Hypotheses: we are not already ignoring or
   recording a definition, and #if has not been redefined as a user macro. *)
Theorem C09_false_branch : forall pb a l body n2 a2 l2 c s,
  let b := BMacro (R "#if") a l in
  ifdepth s = 0%nat -> udef s = None -> elided s = false -> panicked s = None ->
  (inl s = true \/ assoc (R "#if") (umacros s) = None) ->
  ifdepth (macro_if_start (set_regs b s)) = 1%nat ->
  bal body -> is_name n2 "#;" = true ->
  exists s', walk pb (b :: body ++ [BMacro n2 a2 l2]) (c, s) = (c, s') /\ s' =c= s /\ panicked s' = None.
Proof. exact false_conditional_is_absent. Qed.
(* inside an ignored region nothing but #if / #; is looked at, whatever the blocks are *)
Theorem C09_ignored_region : forall pb body, bal body -> forall c s, (0 < ifdepth s)%nat -> panicked s = None ->
  exists s', walk pb body (c, s) = (c, s') /\ s' =c= s /\ panicked s' = None.
Proof. exact ignored_region. Qed.
(* True branch, the two delimiter lines, for every body, every arguments, every format: the #if line of a conditional
   whose condition holds (the ignore depth stays 0) changes nothing in the control state and, in the rendering state,
   only pushes one scope on the conditional stack (registers and log apart); the body then runs from that state; and if
   the body ends not ignoring, outside a definition and with that scope on top (its own conditionals and definitions
   are closed), the #; line only pops the scope.  So the whole block leaves what the body leaves.
   PARTIAL: that the body's processing does not depend on the extra scope -- so that the state it leaves is the one
   it leaves in the document without the two lines -- is not proved here (the conditional stack is read only by
   #if, #; and the end-of-file sweep); the correspondence stream S-e2e-if compares the outputs of both documents. *)
Theorem C09_true_branch_delimiters_partial : forall pb a l body a2 l2 c s,
  let b := BMacro (R "#if") a l in let e := BMacro (R "#;") a2 l2 in
  ifdepth s = 0%nat -> udef s = None -> elided s = false -> panicked s = None ->
  (inl s = true \/ assoc (R "#if") (umacros s) = None) ->
  ifdepth (macro_if_start (set_regs b s)) = 0%nat ->
  exists sc s1, s1 =c= s <| sif ::= fun x => (x ++ [sc])%list |> /\ panicked s1 = None /\
    walk pb (b :: body ++ [e])%list (c, s) = walk pb (body ++ [e])%list (c, s1) /\
    forall c2 s2, walk pb body (c, s1) = (c2, s2) -> panicked s2 = None ->
      ifdepth s2 = 0%nat -> udef s2 = None -> elided s2 = false -> (inl s2 = true \/ assoc (R "#;") (umacros s2) = None) ->
      sif s2 = (sif s ++ [sc])%list ->
      exists s3, walk pb (b :: body ++ [e])%list (c, s) = (c2, s3) /\ s3 =c= s2 <| sif := sif s |> /\ panicked s3 = None.
Proof. exact true_conditional_delimiters. Qed.
(* the closing line alone, met while not ignoring: it pops the innermost conditional scope and nothing else *)
Theorem C09_end_line_only_pops : forall pb a l c s sc r,
  ifdepth s = 0%nat -> udef s = None -> elided s = false ->
  (inl s = true \/ assoc (R "#;") (umacros s) = None) -> sif s = (r ++ [sc])%list ->
  exists s1, step pb (BMacro (R "#;") a l) (c, s) = (c, s1) /\ s1 =c= s <| sif := r |> /\ panicked s1 = panicked s.
Proof. exact active_end_line. Qed.
(* a format-restricted construct, the variable definition: restricted to formats that do not name the current one, the
   line leaves the rendering state as it was, the log apart (PARTIAL: the other restricted constructs -- filter lines and
   blocks, includes, macro definitions, parameter and tag declarations -- are tied by the pairs, not proved) *)
Theorem C09_restricted_variable_definition_is_absent_partial : forall s o s1 n vals f fs s',
  parse_opts specOptDef (args s) s = (o, s1) -> po_args o = n :: vals -> opt "f" o = Some f ->
  formats_of f s1 = (fs, s') -> existsb (str_eqb (format s)) fs = false ->
  macro_def_var s ~~ s.
Proof. exact VarProofs.def_var_for_other_formats_is_absent. Qed.
(* a format-restricted construct, the macro definition: when the #de line is restricted to formats that do not name the
   current one (the definition it opens is marked to be skipped), the line, any body without a #. line, and the closing
   #. line leave the control state unchanged and the rendering state as it was (registers and log apart): nothing is
   recorded, nothing is defined, a nested #de only logs *)
Theorem C09_restricted_macro_definition_is_absent : forall pb a l body a2 l2 c s d,
  let b := BMacro (R "#de") a l in
  ifdepth s = 0%nat -> udef s = None -> elided s = false -> bf s = None -> panicked s = None ->
  (inl s = true \/ assoc (R "#de") (umacros s) = None) ->
  udef (macro_def_start (set_regs b s)) = Some d -> um_ignore d = true ->
  Forall (fun b => is_defend b = false) body ->
  exists s', walk pb (b :: body ++ [BMacro (R "#.") a2 l2])%list (c, s) = (c, s') /\ s' =c= s /\ panicked s' = None.
Proof. exact restricted_definition_is_absent. Qed.
(* format-restricted include line and (in the rendering pass) filter line: when the format list does not name the current
   format, the line searches, reads, renders and runs nothing: control state unchanged, rendering state as it was *)
Theorem C09_restricted_include_is_absent : forall pb a l c s o s1 f fs s',
  let b := BMacro (R "If") a l in
  ifdepth s = 0%nat -> udef s = None -> elided s = false -> bf s = None ->
  (inl s = true \/ assoc (R "If") (umacros s) = None) ->
  parse_opts specOptIncludeFile a (set_regs b s) = (o, s1) -> opt "f" o = Some f ->
  formats_of f s1 = (fs, s') -> existsb (str_eqb (format s)) fs = false ->
  exists s2, step pb b (c, s) = (c, s2) /\ s2 =c= s /\ panicked s2 = panicked s.
Proof. exact restricted_include_is_absent. Qed.
Theorem C09_restricted_filter_line_is_absent : forall pb a l c s o s1 f fs s',
  let b := BMacro (R "Ft") a l in
  ifdepth s = 0%nat -> udef s = None -> elided s = false -> bf s = None -> process s = true ->
  (inl s = true \/ assoc (R "Ft") (umacros s) = None) ->
  parse_opts specOptFt a (set_regs b s) = (o, s1) -> opt "f" o = Some f ->
  formats_of f s1 = (fs, s') -> existsb (str_eqb (format s)) fs = false ->
  exists s2, step pb b (c, s) = (c, s2) /\ s2 =c= s /\ panicked s2 = panicked s.
Proof. exact restricted_filter_line_is_absent. Qed.
Print Assumptions C09_false_branch.
Print Assumptions C09_restricted_include_is_absent.
Print Assumptions C09_restricted_filter_line_is_absent.
Print Assumptions C09_restricted_macro_definition_is_absent.
Print Assumptions C09_restricted_variable_definition_is_absent_partial.
Print Assumptions C09_true_branch_delimiters_partial.
Print Assumptions C09_end_line_only_pops.
Print Assumptions C09_ignored_region.
Definition same_output (f a b : string) : bool := str_eqb (out_of (run_doc f 0 a)) (out_of (run_doc f 0 b)).
(* a false conditional with a nested one, between a link and the end of markup (the mom PrevMacro case, D10) *)
Example C09_examples : forallb (fun f => same_output f ".Bm
.Lk u
.#if 0
.#if 1
x
.#;
.Ch C
.#;
.Em
" ".Bm
.Lk u
.Em
" && same_output f ".Bm
.Lk u
.#if -not -f nosuch
.#dv v 1
.#;
.Em
" ".Bm
.Lk u
.#dv v 1
.Em
") ["xhtml"; "latex"; "mom"; "markdown"] = true.
Proof. vm_compute. reflexivity. Qed.
(* D10b (repaired): filter lines, filter blocks and includes restricted to another format leave no trace either *)
Example D10b_format_restricted : forallb (fun f => same_output f ".Bm
.Lk u
.Ft -f nosuch x
.Bf -f nosuch
raw
.Ef
.Em
" ".Bm
.Lk u
.Em
") ["xhtml"; "latex"; "mom"; "markdown"] = true.
Proof. vm_compute. reflexivity. Qed.

(* the hypotheses of C09_restricted_macro_definition_is_absent are met by a #de -f latex line in an xhtml compilation,
   and the document equals the one without the definition; the same name defined for this format is in effect *)
Example C09_restricted_definition_example :
  same_output "xhtml" ".#de -f latex m
never
.#de n
.#.
a
.#de -f xhtml m
here
.#.
.m
" "a
here
" = true.
Proof. vm_compute. reflexivity. Qed.
