(* C09 — conditionals and format selectors include or elide exactly their scope. *)
From Coq Require Import List NArith Bool String.
Import ListNotations.
Require Import St Exp Proc1 Proc2 Proc3 Ctl Loop Doc IfProofs.
Open Scope string_scope.

(* False branch, for every conditional block, every nesting, every body, every recursive entry pb, every format:
   when the condition of a top-level #if evaluates to false (the ignore depth becomes 1), processing the #if line,
   a body in which #if / #; are balanced, and the matching #; leaves the control state unchanged (no process started,
   no file included) and the rendering state equal to what it was before the #if line -- output written, paragraph buffer,
   scopes, counters, variables, definitions, the previous-macro register included -- except for the dispatch registers
   (overwritten when the next block is dispatched) and the diagnostics.  Hypotheses: we are not already ignoring or
   recording a definition, and #if has not been redefined as a user macro. *)
Theorem C09_false_branch : forall pb a l body n2 a2 l2 c s,
  let b := BMacro (R "#if") a l in
  ifdepth s = 0%nat -> udef s = None -> elided s = false -> panicked s = None ->
  (inl s = true \/ assoc (R "#if") (umacros s) = None) ->
  ifdepth (macro_if_start (set_regs b s)) = 1%nat ->
  bal body -> is_name n2 "#;" = true ->
  exists s', walk pb (b :: body ++ [BMacro n2 a2 l2]) (c, s) = (c, s') /\ s' =c= s /\ panicked s' = None.
Proof. exact false_conditional_is_absent. Qed.
(* inside an ignored region nothing but #if / #; is looked at, whatever the blocks are *)
Theorem C09_ignored_region : forall pb body, bal body -> forall c s, (0 < ifdepth s)%nat -> panicked s = None ->
  exists s', walk pb body (c, s) = (c, s') /\ s' =c= s /\ panicked s' = None.
Proof. exact ignored_region. Qed.
Print Assumptions C09_false_branch.
Print Assumptions C09_ignored_region.
Definition same_output (f a b : string) : bool := str_eqb (out_of (run_doc f 0 a)) (out_of (run_doc f 0 b)).
(* a false conditional with a nested one, between a link and the end of markup (the mom PrevMacro case, D10) *)
Example C09_examples : forallb (fun f => same_output f ".Bm
.Lk u
.#if 0
.#if 1
x
.#;
.Ch C
.#;
.Em
" ".Bm
.Lk u
.Em
" && same_output f ".Bm
.Lk u
.#if -not -f nosuch
.#dv v 1
.#;
.Em
" ".Bm
.Lk u
.#dv v 1
.Em
") ["xhtml"; "latex"; "mom"; "markdown"] = true.
Proof. vm_compute. reflexivity. Qed.
(* D10b (repaired): filter lines, filter blocks and includes restricted to another format leave no trace either *)
Example D10b_format_restricted : forallb (fun f => same_output f ".Bm
.Lk u
.Ft -f nosuch x
.Bf -f nosuch
raw
.Ef
.Em
" ".Bm
.Lk u
.Em
") ["xhtml"; "latex"; "mom"; "markdown"] = true.
Proof. vm_compute. reflexivity. Qed.
