(* C09 — conditionals and format selectors include or elide exactly their scope. *)
From Coq Require Import List NArith Bool String.
Import ListNotations.
Require Import St Loop Doc.
Open Scope string_scope.
Definition same_output (f a b : string) : bool := str_eqb (out_of (run_doc f 0 a)) (out_of (run_doc f 0 b)).
(* a false conditional with a nested one, between a link and the end of markup (the mom PrevMacro case, D10) *)
Example C09_examples : forallb (fun f => same_output f ".Bm
.Lk u
.#if 0
.#if 1
x
.#;
.Ch C
.#;
.Em
" ".Bm
.Lk u
.Em
" && same_output f ".Bm
.Lk u
.#if -not -f nosuch
.#dv v 1
.#;
.Em
" ".Bm
.Lk u
.#dv v 1
.Em
") ["xhtml"; "latex"; "mom"; "markdown"] = true.
Proof. vm_compute. reflexivity. Qed.
(* D10b (repaired): filter lines, filter blocks and includes restricted to another format leave no trace either *)
Example D10b_format_restricted : forallb (fun f => same_output f ".Bm
.Lk u
.Ft -f nosuch x
.Bf -f nosuch
raw
.Ef
.Em
" ".Bm
.Lk u
.Em
") ["xhtml"; "latex"; "mom"; "markdown"] = true.
Proof. vm_compute. reflexivity. Qed.
