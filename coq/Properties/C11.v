(* C11 — including a file is the same as pasting its lines at that point. *)
From Coq Require Import List NArith Bool String.
Import ListNotations.
Require Import St Loop Doc.
Open Scope string_scope.
Definition run_with (f : string) (src : string) (extra : list (string * string)) (libs : list string) : st :=
  compile_source (runes f) 0 (world_of (runes src) (map (fun p => (runes (fst p), runes (snd p))) extra) (map runes libs) false) main_path.
Definition same (a b : st) : bool := str_eqb (out_of a) (out_of b) && Nat.eqb (List.length (diags a)) (List.length (diags b)).
(* a run of blocks that opens markup and defines a variable, moved to a file found through the second library
   directory, which itself includes an inner file from the current directory *)
Example C11_examples : forallb (fun f => same
  (run_with f ".Ch A
.Bm
.#dv v x
two
.Em
\*[v]
" [] [])
  (run_with f ".Ch A
.If part.frundis
.Em
\*[v]
" [("lib2/part.frundis", ".Bm
.If inner.frundis
"); ("inner.frundis", ".#dv v x
two
")] ["lib1"; "lib2"])) ["xhtml"; "latex"; "mom"; "markdown"] = true.
Proof. vm_compute. reflexivity. Qed.
