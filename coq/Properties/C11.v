(* C11 — including a file is the same as pasting its lines at that point. *)
From Coq Require Import List NArith Bool String.
Import ListNotations.
Require Import St Exp Proc1 Proc2 Proc3 Ctl Loop Doc IfProofs FuelProofs IncludeProofs.
Require PathClean.
Open Scope string_scope.
Definition run_with (f : string) (src : string) (extra : list (string * string)) (libs : list string) : st :=
  compile_source (runes f) 0 (world_of (runes src) (map (fun p => (runes (fst p), runes (snd p))) extra) (map runes libs) false) main_path.
Definition same (a b : st) : bool := str_eqb (out_of a) (out_of b) && Nat.eqb (List.length (diags a)) (List.length (diags b)).
(* a run of blocks that opens markup and defines a variable, moved to a file found through the second library
   directory, which itself includes an inner file from the current directory *)
Example C11_examples : forallb (fun f => same
  (run_with f ".Ch A
.Bm
.#dv v x
two
.Em
\*[v]
" [] [])
  (run_with f ".Ch A
.If part.frundis
.Em
\*[v]
" [("lib2/part.frundis", ".Bm
.If inner.frundis
"); ("inner.frundis", ".#dv v x
two
")] ["lib1"; "lib2"])) ["xhtml"; "latex"; "mom"; "markdown"] = true.
Proof. vm_compute. reflexivity. Qed.

(* An executed include line of a frundis source (found, not already being processed, parsing) walks the blocks of the
   file with the very dispatcher that walks the blocks around it, in the state the preceding blocks left -- scopes,
   definitions, variables and counters are simply components of that state -- and afterwards only restores the current
   file name, the include stack and the current-block flag.  Any fuel above the room left gives the same result. *)
Theorem C11_include_is_walk : forall d c s name path src bs a0 o s1 s3,
  CInv c -> (avail c < d)%nat ->
  parse_opts specOptIncludeFile (args s) s = (o, s1) ->
  opt "f" o = None -> po_args o = a0 :: nil -> flag "as-is" o = false ->
  inlines_text a0 s1 = (name, s3) ->
  search_inc_file name c = (path, true) ->
  existsb (str_eqb (PathClean.clean path)) (incstack c) = false ->
  fs_get path c = Some src -> parse src = (bs, None) ->
  macro_include (run_blocks d) (c, s) = leave_file c s3 (walk (run_blocks d) bs (enter_file path bs (c, s3))).
Proof. exact include_is_walk. Qed.
(* pasting: a list of blocks is processed as its parts in turn *)
Theorem C11_paste_is_sequencing : forall pb pre mid post cs, panicked (snd cs) = None ->
  panicked (snd (walk pb pre cs)) = None -> panicked (snd (walk pb mid (walk pb pre cs))) = None ->
  walk pb (pre ++ mid ++ post) cs = walk pb post (walk pb mid (walk pb pre cs)).
Proof. exact walk_concat. Qed.
(* The search path: a name that exists as given is taken as given; otherwise the first library directory (in the order of
   FRUNDISLIB) that has it; otherwise the include is reported as not found.  C11_include_is_walk holds for whatever path
   the search returns: a file found through the library path is walked exactly like one found in the current directory. *)
Theorem C11_search_current_directory_first : forall name c, is_file name c = true -> search_inc_file name c = (name, true).
Proof. exact search_finds_cwd_first. Qed.
Theorem C11_search_first_library_directory : forall name c pre d post,
  is_file name c = false -> libdirs c = (pre ++ d :: post)%list ->
  (forall d', In d' pre -> is_file (PathClean.join [d'; name]) c = false) ->
  is_file (PathClean.join [d; name]) c = true ->
  search_inc_file name c = (PathClean.join [d; name], true).
Proof. exact search_finds_first_library. Qed.
Theorem C11_search_reports_absence : forall name c,
  is_file name c = false -> (forall d, In d (libdirs c) -> is_file (PathClean.join [d; name]) c = false) ->
  search_inc_file name c = (name, false).
Proof. exact search_reports_absence. Qed.
Print Assumptions C11_include_is_walk.
Print Assumptions C11_search_first_library_directory.
Print Assumptions C11_paste_is_sequencing.
