(* C04 — LaTeX output: text stays inert, groups and environments balance.
   Escaping half: about the table regenerated from /repo/escape/escape.go (Gen/Tables.latex_table);
   escape.LaTeX is strings.Replacer over that table = Repl.enc (tied by stream S-esc). *)
Require Import Repl Tables EscapeProofs.
Require MomText St Text.
From Coq Require Import List NArith.
Import ListNotations.
Open Scope N_scope.

(* the original text is uniquely recoverable from its escaped form *)
Theorem C04_escape_decodable : forall s, dec latex_table (length (enc latex_table s)) (enc latex_table s) = Some s.
Proof. exact latex_roundtrip. Qed.
Theorem C04_escape_injective : forall a b, enc latex_table a = enc latex_table b -> a = b.
Proof. exact (enc_injective latex_table latex_table_ok). Qed.
(* every TeX-special character of the text leaves the escaper only inside the image of its table row:
   the escaped text is the concatenation, rune by rune, of row images and of non-special runes *)
Theorem C04_specials_only_in_escape_forms : forall c, In c tex_specials ->
  exists im, lookup latex_table c = Some im /\ enc1 latex_table c = im.
Proof. intros c H. exact (special_not_passthrough latex_table tex_specials c latex_specials_keys H). Qed.
Theorem C04_escape_is_rune_by_rune : forall s, enc latex_table s = concat (map (enc1 latex_table) s).
Proof. exact (enc_tokens latex_table). Qed.
Theorem C04_escape_compositional : forall a b, enc latex_table (a ++ b) = enc latex_table a ++ enc latex_table b.
Proof. exact (enc_app latex_table). Qed.
Print Assumptions C04_escape_decodable.
Print Assumptions C04_escape_injective.
Print Assumptions C04_specials_only_in_escape_forms.

(* balance half.  Escaped text is inert for the brace machine of Proofs/TokL.v (a backslash consumes the next
   character; braces open and close groups): it never changes the group depth, from any depth. *)
Require TokL InvL St Loop.
Theorem C04_escaped_text_is_brace_neutral : forall t d, TokL.runL (enc latex_table t) (TokL.LTxt, d) = (TokL.LTxt, d).
Proof. exact TokL.latex_escape_textual. Qed.
(* proved for every document of a sub-language, every world and every positive nesting fuel: text lines, .Bm, .Em, .Sm
   (any arguments), .P with or without a title, .D, links .Lk with or without a label (whatever the url: the braces and
   backslashes url.URL.String leaves in a query are percent-encoded since the repair of D28, Proofs/FragBL.latex_url_textual),
   display blocks .Bd/.Ed nested to any depth, headers .Ch/.Pt/.Sh/.Ss and
   .Tc with any arguments, LaTeX fragment mode: all brace groups of the output balance, none is closed before it is
   opened, and the compilation is panic-free (Proofs/FragBL.v, Proofs/FragHL.v) *)
Require FragHL.
Theorem C04_headers_balanced_partial : forall fuel wd main bs, Forall FragHL.in_fragHL bs ->
  let s := snd (Loop.compile (S fuel) [108; 97; 116; 101; 120] (* the format name: latex *) 0 wd main bs) in
  St.panicked s = None /\
  TokL.runL (St.flat (St.wout s)) (TokL.LTxt, 0%nat) = (TokL.LTxt, 0%nat) /\ In (St.curfile s, St.flat (St.wout s)) (St.files s).
Proof. exact FragHL.C04_headers_balanced. Qed.
Print Assumptions C04_headers_balanced_partial.
(* an url written into \url{...} or \href{...}{...} never opens or closes a group and never escapes the closing brace *)
Require FragBL.
Theorem C04_url_is_brace_neutral : forall u d, TokL.runL (MBase.latex_url u) (TokL.LTxt, d) = (TokL.LTxt, d).
Proof. exact FragBL.latex_url_textual. Qed.
(* inside processInlineMacros the same holds: the title handed back is brace-balanced *)
Require InvIL.
Theorem C04_inline_titles_balanced : forall a s, Exp.fmt s = Exp.FL -> St.asis s = false -> St.inl s = false -> InvL.markup_okL (St.mtags s) -> St.bf s = None -> St.has_cur s = true ->
  forall d, TokL.runL (fst (Loop.pim a s)) (TokL.LTxt, d) = (TokL.LTxt, d).
Proof. intros a s H1 H2 H3 H4 H5 H6. exact (proj1 (InvIL.pim_spec a s H1 H2 H3 H4 H5 H6)). Qed.

(* tie to the source: the url escaping table and the character sets of the guards on image paths and -c arguments are
   read from latex.go / mom.go by the translator on every run (Gen/Facts.replacer_vars, char_set_calls) *)
Require CharSets.
From Coq Require Import String.
Open Scope string_scope.
Theorem C04_url_table_is_the_source :
  CharSets.pairs_of (CharSets.replacer_of "latex.urlEscaper") = map (fun c => ([c], MBase.latex_url1 c)) (37 :: 123 :: 125 :: 92 :: nil)%N.
Proof. exact CharSets.latex_url_table_is_the_source. Qed.
Theorem C04_tex_guards_are_the_source :
  CharSets.sets_of "latex.InlineImage" = [MBase.tex_name_bad_chars] /\ CharSets.sets_of "latex.FigureImage" = [MBase.tex_name_bad_chars; MBase.brace_chars] /\
  CharSets.sets_of "latex.checkCmd" = [MBase.tex_name_bad_chars] /\ CharSets.sets_of "mom.InlineImage" = [MBase.brace_chars].
Proof. exact CharSets.tex_guards_are_the_source. Qed.

From Coq Require Import String.
(* On the text renderer of the model: in a LaTeX compilation, outside automatic typography, unescaping what is rendered
   for a list of inlines gives back exactly their text (text stays inert: it is the escape of what was written) *)
Theorem C04_model_rendered_text_decodes : forall l s, St.format s = St.runes "latex" ->
  MBase.str_eqb (Text.lang s) (St.runes "fr") = false -> MBase.str_eqb (Text.lang s) (St.runes "en") = false ->
  let r := fst (Text.render_text l s) in Repl.dec latex_table (List.length r) r = Some (fst (Text.inlines_text l s)).
Proof. exact MomText.latex_rendered_text_decodes. Qed.
Print Assumptions C04_model_rendered_text_decodes.
