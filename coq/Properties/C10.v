(* C10 — variable interpolation equals substituting the latest assigned value. *)
From Coq Require Import List NArith Bool String.
Import ListNotations.
Require Import St Loop Doc.
Open Scope string_scope.
Definition same_output (f a b : string) : bool := str_eqb (out_of (run_doc f 0 a)) (out_of (run_doc f 0 b)).
Example C10_examples : forallb (fun f => same_output f ".#dv v old
.#dv v ""a <b>""  Sm
.#dv -f nosuch v wrong
.Ch T \*[v]
u \*[v] w
.Tc
" ".Ch T ""a <b> \&Sm""
u a <b> Sm w
.Tc
") ["xhtml"; "latex"; "mom"; "markdown"] = true.
Proof. vm_compute. reflexivity. Qed.
