(* C10 — variable interpolation equals substituting the latest assigned value. *)
From Coq Require Import List NArith Bool String.
Import ListNotations.
Require Import St Exp Proc1 Proc2 Proc3 Loop Doc Eqd VarProofs.
Open Scope string_scope.
Definition same_output (f a b : string) : bool := str_eqb (out_of (run_doc f 0 a)) (out_of (run_doc f 0 b)).
Example C10_examples : forallb (fun f => same_output f ".#dv v old
.#dv v ""a <b>""  Sm
.#dv -f nosuch v wrong
.Ch T \*[v]
u \*[v] w
.Tc
" ".Ch T ""a <b> \&Sm""
u a <b> Sm w
.Tc
") ["xhtml"; "latex"; "mom"; "markdown"] = true.
Proof. vm_compute. reflexivity. Qed.

(* a use yields exactly the value stored, as a string (never re-read as escapes, options or macro names) *)
Theorem C10_use_is_value : forall x v r s, assoc x (ivars s) = Some v ->
  inlines_text (IVar x :: r) s = ((v ++ fst (inlines_text r s))%list, snd (inlines_text r s)).
Proof. exact use_is_value. Qed.
Theorem C10_use_is_literal : forall x v r s, assoc x (ivars s) = Some v -> inlines_text (IVar x :: r) s = inlines_text (IText v :: r) s.
Proof. exact use_is_literal. Qed.
(* rendered outside automatic typography, the value is escaped like literal text *)
Theorem C10_rendered_like_literal : forall x v r s, assoc x (ivars s) = Some v ->
  str_eqb (lang s) (R "fr") = false -> str_eqb (lang s) (R "en") = false ->
  render_text (IVar x :: r) s = render_text (IText v :: r) s.
Proof. exact rendered_use_is_rendered_literal. Qed.
(* assignment joins the texts of its arguments with single spaces, and the latest assignment is what a lookup finds *)
Theorem C10_assigned_value : forall s o s1 n vals name s3,
  parse_opts specOptDef (args s) s = (o, s1) -> po_args o = n :: vals -> opt "f" o = None ->
  inlines_text n s1 = (name, s3) ->
  assoc name (ivars (macro_def_var s)) = Some (fst (args_text vals s3)).
Proof. exact assigned_value. Qed.
Theorem C10_join : forall l s, l <> nil -> fst (args_text l s) = join_with [32%N] (texts l s).
Proof. exact args_text_join. Qed.
(* Later assignments affect only later uses: whatever its arguments, the assignment line changes the variable table and
   the log and nothing else (nothing already written, no counter, no scope); a name other than the assigned one keeps
   its value; an assignment restricted with -f to formats that do not name the current one changes nothing but the log *)
Theorem C10_assignment_changes_only_the_table : forall s, exists f, macro_def_var s ~~ s <| ivars ::= f |>.
Proof. exact def_var_changes_only_the_table. Qed.
Theorem C10_assignment_keeps_other_names : forall s o s1 n vals name s3 other,
  parse_opts specOptDef (args s) s = (o, s1) -> po_args o = n :: vals -> opt "f" o = None ->
  inlines_text n s1 = (name, s3) -> str_eqb other name = false ->
  assoc other (ivars (macro_def_var s)) = assoc other (ivars s).
Proof. exact def_var_keeps_other_names. Qed.
Theorem C10_assignment_for_other_formats_is_absent : forall s o s1 n vals f fs s',
  parse_opts specOptDef (args s) s = (o, s1) -> po_args o = n :: vals -> opt "f" o = Some f ->
  formats_of f s1 = (fs, s') -> existsb (str_eqb (format s)) fs = false ->
  macro_def_var s ~~ s.
Proof. exact def_var_for_other_formats_is_absent. Qed.
Print Assumptions C10_use_is_value.
Print Assumptions C10_assignment_changes_only_the_table.
Print Assumptions C10_assignment_keeps_other_names.
Print Assumptions C10_assignment_for_other_formats_is_absent.
Print Assumptions C10_assigned_value.
