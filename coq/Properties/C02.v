(* C02 — no silent malformed XHTML/EPUB: a quiet compilation yields well-formed XML.
   Model: Model/Loop.compile_source with the XHTML exporter (Model/Xhtml.v); specification checker Spec/Xml.wf_xml. *)
From Coq Require Import List NArith Bool String.
Import ListNotations.
Require Import St Loop Doc.
Require Xml.
Open Scope string_scope.

Definition xhtml_like (fmt : str) : bool := str_eqb fmt (R "xhtml") || str_eqb fmt (R "epub").
(* raw_free / plain_params delimit the documents the property quantifies over; they are given as hypotheses *)
Definition C02_full (raw_free : world -> Prop) : Prop := forall fmt md wd main,
  xhtml_like fmt = true -> raw_free wd ->
  let s := compile_source fmt md wd main in
  quiet s = true ->
  forall p c, In (p, c) (files s) ->
    (md = 0%nat -> wf_fragment c = true) /\ (md <> 0%nat -> markup_path p = true -> Xml.wf_xml c = true).

(* regression witnesses of the repaired defects on the model: quiet and well formed, or no longer quiet *)
Definition ok_fragment (src : string) : bool :=
  let s := run_doc "xhtml" 0 src in negb (quiet s) || wf_fragment (out_of s).
Example D4_D5_D6_D16_D17_D18_D19_D21_D22 : forallb ok_fragment
  [".Pt P
.Sh S
.Ch C
.Tc
"; ".Bl -t verse
.El
"; ".Bm
.P
.Em
"; ".Bl
.Bd
.It a
.El
"; ".P Bm t
.Em
"; ".Bl -t verse
.It
.D
.El
"; ".Bl -t verse
.Bm
.P
.Em
.El
"; ".Bm
.P a Em b
"; ".Bl -t verse
.It a
.Bm
b
.It c
.Em
.El
"] = true.
Proof. vm_compute. reflexivity. Qed.
(* the known finding D7 (pinned by the repository's golden files): list-of-X entries never close their li *)
Example D7_known_refuted : let s := run_doc "xhtml" 0 ".Im i.png cap
.Tc -lof
" in quiet s = true /\ wf_fragment (out_of s) = false.
Proof. vm_compute. split; reflexivity. Qed.
