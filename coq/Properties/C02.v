(* C02 — no silent malformed XHTML/EPUB: a quiet compilation yields well-formed XML.
   Model: Model/Loop.compile_source with the XHTML exporter (Model/Xhtml.v); specification checker Spec/Xml.wf_xml. *)
From Coq Require Import List NArith Bool String.
Import ListNotations.
Require Import St Loop Doc.
Require Xml.
Open Scope string_scope.

Definition xhtml_like (fmt : str) : bool := str_eqb fmt (R "xhtml") || str_eqb fmt (R "epub").
(* raw_free / plain_params delimit the documents the property quantifies over; they are given as hypotheses *)
Definition C02_full (raw_free : world -> Prop) : Prop := forall fmt md wd main,
  xhtml_like fmt = true -> raw_free wd ->
  let s := compile_source fmt md wd main in
  quiet s = true ->
  forall p c, In (p, c) (files s) ->
    (md = 0%nat -> wf_fragment c = true) /\ (md <> 0%nat -> markup_path p = true -> Xml.wf_xml c = true).

(* regression witnesses of the repaired defects on the model: quiet and well formed, or no longer quiet *)
Definition ok_fragment (src : string) : bool :=
  let s := run_doc "xhtml" 0 src in negb (quiet s) || wf_fragment (out_of s).
Example D4_D5_D6_D16_D17_D18_D19_D21_D22 : forallb ok_fragment
  [".Pt P
.Sh S
.Ch C
.Tc
"; ".Bl -t verse
.El
"; ".Bm
.P
.Em
"; ".Bl
.Bd
.It a
.El
"; ".P Bm t
.Em
"; ".Bl -t verse
.It
.D
.El
"; ".Bl -t verse
.Bm
.P
.Em
.El
"; ".Bm
.P a Em b
"; ".Bl -t verse
.It a
.Bm
b
.It c
.Em
.El
"] = true.
Proof. vm_compute. reflexivity. Qed.
(* the known finding D7 (pinned by the repository's golden files): list-of-X entries never close their li *)
Example D7_known_refuted : let s := run_doc "xhtml" 0 ".Im i.png cap
.Tc -lof
" in quiet s = true /\ wf_fragment (out_of s) = false.
Proof. vm_compute. split; reflexivity. Qed.

(* proved for every document of a sub-language, every world and every positive nesting fuel: text lines, .Bm, .Em and .Sm
   (any arguments), .P with or without a title (inline macros in the title included), dialogue paragraphs .D, links
   .Lk with or without a label (any url: the normalisation oracle may reject it), display blocks .Bd/.Ed nested
   to any depth, headers .Ch/.Pt/.Sh/.Ss with any arguments (numbered or not, with inline macros in the title), and
   tables of contents .Tc with any options but -mini (full or summary, numbered or not, titled; -lof/-lot/-lop find no
   entries in this sub-language), XHTML fragment mode (0), standalone mode (1: the complete page, whose header leaves
   html and body open and whose footer closes them) and multi-file mode (2: the index page with its table of contents and
   one file per part and chapter, each with header, navigation bars and footer; 3: EPUB, with the generated package,
   navigation and NCX files; every file written is balanced).  The output is read by the tag machine of Proofs/Tok.v: it ends in character data with no
   element left open, and no closing tag ever mismatched (the machine would be stuck in Bad); the block stack and the
   inline scopes are closed at end of file and before each header; unclosed, mismatched or stray .Ed/.Em lines are
   reported by the model and the output still balances.  The two passes agree: the k-th header of pass 2 finds the
   entry pass 1 recorded for it (Proofs/FragH.v). *)
Require Tok Inv FragB FragH.

Theorem C02_headers_balanced_partial : forall fuel f md wd main bs, f = R "xhtml" \/ f = R "epub" -> (md <= 3)%nat -> Forall FragH.in_fragH bs ->
  let s := snd (compile (S fuel) f md wd main bs) in
  panicked s = None /\
  Tok.run (flat (wout s)) (Tok.Txt, []) = (Tok.Txt, []) /\ In (curfile s, flat (wout s)) (files s) /\
  Forall (fun f => Tok.run (snd f) (Tok.Txt, []) = (Tok.Txt, [])) (files s).
Proof. intros fuel f md wd main bs Hf Hm H. destruct (FragH.C02_headers_balanced_modes fuel f md wd main bs Hf Hm H) as (A & B & C & D & _). exact (conj A (conj B (conj C D))). Qed.
Print Assumptions C02_headers_balanced_partial.
(* the per-handler steps of the open-element invariant that the lifting uses, for any state (also inside lists etc.) *)
Theorem C02_text_keeps_invariant : forall base s, @Inv.Inv base s -> Inv.markup_ok (mtags s) -> process s = true -> asis s = false ->
  (par s = false -> verse s = false) -> @Inv.Inv base (Proc2.process_text s).
Proof. exact (@Inv.Inv_process_text). Qed.
Theorem C02_Bm_keeps_invariant : forall base s, @Inv.Inv base s -> Inv.markup_ok (mtags s) -> process s = true -> inl s = false ->
  (par s = false -> verse s = false /\ Proc1.scope_verse s = false) -> @Inv.Inv base (Proc2.macro_bm s).
Proof. exact (@Inv.Inv_macro_bm). Qed.
Theorem C02_Em_keeps_invariant : forall base s, @Inv.Inv base s -> Inv.markup_ok (mtags s) -> process s = true -> inl s = false -> @Inv.Inv base (Proc1.macro_em s).
Proof. exact (@Inv.Inv_macro_em). Qed.
Theorem C02_Sm_keeps_invariant : forall base s, @Inv.Inv base s -> Inv.markup_ok (mtags s) -> process s = true -> inl s = false ->
  (par s = false -> verse s = false /\ Proc1.scope_verse s = false) -> @Inv.Inv base (Proc2.macro_sm s).
Proof. exact (@Inv.Inv_macro_sm). Qed.
Theorem C02_P_keeps_invariant : forall base pim s, @Inv.Inv base s -> Inv.markup_ok (mtags s) -> process s = true -> args s = [] ->
  verse s = false -> Proc1.scope_verse s = false -> @Inv.Inv base (Proc2.macro_p pim s).
Proof. exact (@Inv.Inv_macro_p_plain). Qed.
(* processInlineMacros (titles of .P, and of headers, items, links): the text it hands back is a balanced chunk, and the
   caller's state is restored up to diagnostics and registers *)
Require InvI EqF.
Theorem C02_inline_titles_balanced : forall a s, Exp.fmt s = Exp.FX -> asis s = false -> inl s = false -> Inv.markup_ok (mtags s) -> bf s = None -> has_cur s = true ->
  (forall stk, Tok.run (fst (pim a s)) (Tok.Txt, stk) = (Tok.Txt, stk)) /\
  EqF.eqf (snd (pim a s)) s /\ Inv.out (snd (pim a s)) = Inv.out s /\ Inv.view (snd (pim a s)) = Inv.view s /\ buf (snd (pim a s)) = buf s.
Proof. exact InvI.pim_spec. Qed.

(* the table-of-contents writer on the real strings (Model/Xhtml.toc_string: the XHTML TOC, the EPUB navigation document and
   the NCX, i.e. writeTOC after the repair of D4): for every header list, every combination of options (mini, summary,
   nonum, title) and every counter state, what it writes opens and closes exactly its own elements, nested lists included.
   Entries are assumed to carry a reference without '>' and a balanced title (what processInlineMacros returns). *)
Require TocStr.
Theorem C02_toc_writer_balanced : forall d opts s t s1, Exp.fmt s = Exp.FX -> Forall TocStr.entry_ok (lox_toc s) ->
  Tok.textual (Xhtml.X.param "document-title" s) ->
  Xhtml.X.toc_string d opts s = (Some t, s1) -> forall stk, Tok.run t (Tok.Txt, stk) = (Tok.Txt, stk).
Proof. exact TocStr.toc_string_balanced. Qed.
Print Assumptions C02_toc_writer_balanced.

(* tie to the source: the characters a header id, an attribute key and a user id are checked against (D33, D34, D37)
   are read from the source by the translator on every run *)
Require CharSets.
From Coq Require Import String.
Open Scope string_scope.
Theorem C02_guards_are_the_source :
  CharSets.sets_of "xhtml.idIsSafe" = [MBase.id_unsafe_chars] /\ CharSets.sets_of "frundis.checkPairs" = [MBase.key_bad_chars; MBase.key_bad_first] /\
  CharSets.sets_of "frundis.reservedID" = [MBase.anchor_tail_chars].
Proof. exact CharSets.xhtml_guards_are_the_source. Qed.
