(* C07 — unbalanced blocks are always reported, with the right line; balanced ones never. *)
From Coq Require Import List NArith Bool String.
Import ListNotations.
Require Import St Loop Doc Scan.
Open Scope string_scope.

Definition diag_lines (s : st) : list (option nat) := map d_line (diagnostics s).
(* an unclosed display block opened on line 3 (after a comment line and an empty control line) is reported, at end
   of file; a stray closer is reported on its own line; a balanced document is quiet; every unclosed #if is reported *)
Example C07_examples :
  diag_lines (run_doc "xhtml" 0 ".\"" c
.
.Bd
t
") = [None] /\
  diag_lines (run_doc "xhtml" 0 "a
.Ed
") = [Some 2%nat] /\
  quiet (run_doc "xhtml" 0 ".Bd
.Bl
.It a
.El
.Ed
") = true /\
  List.length (diagnostics (run_doc "xhtml" 0 ".#if 1
.#if 1
a
")) = 2%nat.
Proof. vm_compute. repeat split; reflexivity. Qed.
(* the line of a text block that starts with an empty line is the line of that empty line (D14) *)
Example C07_text_block_line : fst (parse (runes ".Sm a

foo
")) = [BMacro (runes "Sm") [[IText (runes "a")]] 1; BText [IText (runes "
foo")] 2].
Proof. vm_compute. reflexivity. Qed.

Print Assumptions C07_examples.
Print Assumptions C07_text_block_line.
