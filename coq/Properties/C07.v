(* C07 — unbalanced blocks are always reported, with the right line; balanced ones never. *)
From Coq Require Import List NArith Bool String.
Import ListNotations.
Require Import St Loop Doc Scan.
Open Scope string_scope.

Definition diag_lines (s : st) : list (option nat) := map d_line (diagnostics s).
(* an unclosed display block opened on line 3 (after a comment line and an empty control line) is reported, at end
   of file; a stray closer is reported on its own line; a balanced document is quiet; every unclosed #if is reported *)
Example C07_examples :
  diag_lines (run_doc "xhtml" 0 ".\"" c
.
.Bd
t
") = [None] /\
  diag_lines (run_doc "xhtml" 0 "a
.Ed
") = [Some 2%nat] /\
  quiet (run_doc "xhtml" 0 ".Bd
.Bl
.It a
.El
.Ed
") = true /\
  List.length (diagnostics (run_doc "xhtml" 0 ".#if 1
.#if 1
a
")) = 2%nat.
Proof. vm_compute. repeat split; reflexivity. Qed.
(* the line of a text block that starts with an empty line is the line of that empty line (D14) *)
Example C07_text_block_line : fst (parse (runes ".Sm a

foo
")) = [BMacro (runes "Sm") [[IText (runes "a")]] 1; BText [IText (runes "
foo")] 2].
Proof. vm_compute. reflexivity. Qed.

Print Assumptions C07_examples.
Print Assumptions C07_text_block_line.

(* the end-of-file sweep, step by step (Proofs/Unclosed.v): every conditional left open is reported, one diagnostic
   each and nothing else; every inline scope left open is reported, one diagnostic each, and closed (macroEm runs under
   "quiet" and is shown to log nothing there); an open filter region or definition is reported.  For any state, any
   number of scopes.  Display blocks likewise (below). What is not proved: lists, and that balanced documents are never reported. *)
Require Unclosed.
Theorem C07_open_conditionals_are_reported : forall l s, St.quiet s = false ->
  let s' := fold_left (fun a sc => Proc1.warn_unclosed sc a) l s in
  exists ds, St.diags s' = (ds ++ St.diags s)%list /\ List.length ds = List.length l /\ Forall (fun d => St.d_kind d = St.runes "unclosed scope") ds.
Proof. exact Unclosed.open_conditionals_are_reported. Qed.
Theorem C07_open_inline_scopes_are_reported : forall cur f s, Exp.fmt s = Exp.FX -> Inv.markup_ok (St.mtags s) -> St.process s = true -> St.quiet s = false ->
  (List.length (St.sinline s) <= f)%nat ->
  let s' := Proc1.close_inline_loop f cur s in
  exists ds, St.diags s' = (ds ++ St.diags s)%list /\ List.length ds = List.length (St.sinline s) /\
             Forall (fun d => St.d_kind d = St.runes "unclosed scope") ds /\ St.sinline s' = [] /\ St.quiet s' = false.
Proof. exact Unclosed.open_inline_scopes_are_reported. Qed.
Theorem C07_closing_logs_nothing_under_quiet : forall s, Exp.fmt s = Exp.FX -> St.quiet s = true ->
  St.quiet (Proc1.macro_em s) = true /\ St.diags (Proc1.macro_em s) = St.diags s.
Proof. exact Unclosed.QS_macro_em. Qed.
(* display blocks left open, in any state of the sub-language of Proofs/FragB.v (display blocks nested to any depth, any
   open paragraph and inline markup): one diagnostic each, all of them closed; macroEd, run under "quiet" by the sweep, logs
   nothing there *)
Require FragB.
Theorem C07_open_blocks_are_reported : forall K BASE MD cur f s, FragB.P K BASE MD true s -> St.quiet s = false -> (List.length (St.sblock s) <= f)%nat ->
  let s' := Proc1.close_block_loop f cur s in
  exists ds, St.diags s' = (ds ++ St.diags s)%list /\ List.length ds = List.length (St.sblock s) /\
             Forall (fun d => St.d_kind d = St.runes "unclosed scope") ds /\ St.sblock s' = nil.
Proof. exact Unclosed.open_blocks_are_reported. Qed.
(* the scope-closing part of the sweep as a whole, from any state of that sub-language: exactly one "unclosed scope"
   diagnostic per open inline scope and per open display block, nothing else, and nothing is left open - in particular
   nothing at all is reported when nothing is open *)
Theorem C07_sweep_reports_every_open_scope : forall K BASE MD s, FragB.P K BASE MD true s -> St.quiet s = false ->
  let s' := Proc1.close_unclosed_block (Proc1.end_par Common.PNormal (Proc1.close_unclosed_inline s)) in
  exists ds, St.diags s' = (ds ++ St.diags s)%list /\ List.length ds = (List.length (St.sinline s) + List.length (St.sblock s))%nat /\
             Forall (fun d => St.d_kind d = St.runes "unclosed scope") ds /\ St.sblock s' = nil.
Proof. exact Unclosed.sweep_reports_every_open_scope. Qed.
Print Assumptions C07_sweep_reports_every_open_scope.
Print Assumptions C07_open_blocks_are_reported.
Print Assumptions C07_open_conditionals_are_reported.
Print Assumptions C07_open_inline_scopes_are_reported.
