(* C08 — invoking a user macro is the same as writing its body with arguments substituted. *)
From Coq Require Import List NArith Bool String.
Import ListNotations.
Require Import St Loop Doc.
Open Scope string_scope.
Definition same_output (f a b : string) : bool := str_eqb (out_of (run_doc f 0 a)) (out_of (run_doc f 0 b)) && quiet (run_doc f 0 a) && quiet (run_doc f 0 b).
Example C08_examples : forallb (fun f => same_output f ".#de m
.Sm \$1: \$1=\$2
The key \$1 is set \$@.
.#.
.m C:\edir ""3 4"" x y
" ".Sm C:\edir: ""C:\edir=3 4""
The key C:\edir is set x y.
") ["xhtml"; "latex"; "mom"; "markdown"] = true.
Proof. vm_compute. reflexivity. Qed.
