(* C08 — invoking a user macro is the same as writing its body with arguments substituted. *)
From Coq Require Import List NArith Bool String.
Import ListNotations.
Require Import St Exp Proc1 Proc2 Proc3 Ctl Loop Doc IncludeProofs.
Open Scope string_scope.
Definition same_output (f a b : string) : bool := str_eqb (out_of (run_doc f 0 a)) (out_of (run_doc f 0 b)) && quiet (run_doc f 0 a) && quiet (run_doc f 0 b).
Example C08_examples : forallb (fun f => same_output f ".#de m
.Sm \$1: \$1=\$2
The key \$1 is set \$@.
.#.
.m C:\edir ""3 4"" x y
" ".Sm C:\edir: ""C:\edir=3 4""
The key C:\edir is set x y.
") ["xhtml"; "latex"; "mom"; "markdown"] = true.
Proof. vm_compute. reflexivity. Qed.

(* An executed invocation (within the depth, expansion and argument-size limits, not supplying too many arguments)
   runs the body with the arguments substituted (Model/Proc3.subst_block, the model of argsSubstBlock) through the same
   dispatcher, one level deeper, with diagnostics located at the outermost call site; afterwards it only restores the
   current file name, the call depth and the current-block flag. *)
Theorem C08_call_runs_the_substituted_body : forall pb m n l c s o sa blocks sd,
  process s = true ->
  Nat.ltb 42 (cdepth c) = false -> Nat.leb max_macro_expansions (xcount c) = false ->
  Nat.ltb max_macro_args_size (args_size (args s)) = false ->
  parse_opts (um_opts m) (args s) s = (o, sa) ->
  negb (um_list m) && Nat.ltb (um_argsc m) (List.length (po_args o)) = false ->
  substituted m o sa = (blocks, sd) ->
  user_macro pb m n l (c, s) =
    let c1 := set_budget (S (xcount c)) (xexh c) c in
    let se := if Nat.eqb (cdepth c1) 0 then sd <| cloc := Some (l, n, cfile sd) |> else sd in
    let '(cf, sf) := pb blocks (set_cdepth (S (cdepth c1)) c1, se <| has_cur := true |> <| cfile := um_file m |>) in
    let cg := set_cdepth (Nat.pred (cdepth cf)) cf in
    let sg := sf <| has_cur := has_cur s |> <| cfile := cfile s |> in
    if Nat.eqb (cdepth cg) 0 then (set_budget 0 false cg, sg <| cloc := None |>) else (cg, sg).
Proof. exact call_runs_the_body. Qed.
Print Assumptions C08_call_runs_the_substituted_body.

(* the substitution itself against the manual's rules (Proofs/SubstSpec.v): when every argument the body refers to
   exists, argsSubstText is the inline-by-inline replacement - \$N by the N-th argument, \$[name] by the named one,
   \$?[flag] by 1 or nothing, \$@ by the remaining arguments joined by blanks, everything else kept - reports nothing and
   leaves the state alone; text that refers to no argument is unchanged; substitution distributes over concatenation *)
Require SubstSpec.
Theorem C08_substitution_rules : forall argsc a opts flags t s, forallb (SubstSpec.arg_defined a opts) t = true ->
  Proc3.subst_text argsc a opts flags t s = (flat_map (SubstSpec.subst1 argsc a opts flags) t, s).
Proof. exact SubstSpec.subst_text_spec. Qed.
Theorem C08_text_without_arguments_is_unchanged : forall argsc a opts flags t s, forallb SubstSpec.plain t = true ->
  Proc3.subst_text argsc a opts flags t s = (t, s).
Proof. exact SubstSpec.subst_text_plain. Qed.
Print Assumptions C08_substitution_rules.
