(* C15 — groff mom output: document text is never read as a roff request or escape.
   Escaping half: about Gen/Tables.roff_table (regenerated from escape.go); escape.Roff = Repl.enc roff_table. *)
Require Import Repl Tables EscapeProofs MomText.
Require Import St Text.
From Coq Require Import List NArith String.
Import ListNotations.
Open Scope N_scope.

(* Reading any escaped text from the beginning of a line or from inside one, the control-line machine never
   reaches Bad and ends in a resting state: no line of it begins with a dot or a quote, no double quote
   occurs (it cannot end a quoted request argument), every backslash starts one of \e \& \~ \(dq \(cq --
   wherever the text itself breaks lines. *)
Theorem C15_escaped_text_is_never_control : forall s q, rresting q -> rresting (mrun rstate rstep q (enc roff_table s)).
Proof. exact roff_escape_safe. Qed.
Theorem C15_specials_are_escaped : forall c, In c roff_specials ->
  exists im, lookup roff_table c = Some im /\ enc1 roff_table c = im.
Proof. intros c H. exact (special_not_passthrough roff_table roff_specials c roff_specials_keys H). Qed.
(* On the model of the processor (Model/Text.v, which the correspondence ties to frundis/utils.go renderText /
   inlinesToText): in mom format the text rendered for a text block, and the arguments rendered for an exporter
   (joined with spaces), are escaped text whatever the language's typography did first -- for every list of inlines
   (text, escapes, interpolated variables), every state. *)
Theorem C15_model_text_is_escaped : forall l s q, St.format s = R "mom" -> rresting q ->
  rresting (mrun rstate rstep q (fst (Text.render_text l s))).
Proof. exact mom_rendered_text_rests. Qed.
Theorem C15_model_arguments_are_escaped : forall l s q, St.format s = R "mom" -> rresting q ->
  rresting (mrun rstate rstep q (fst (Text.render_args l s))).
Proof. exact mom_rendered_args_rests. Qed.
Example C15_nonvacuous : rresting Bol /\ mrun rstate rstep Bol [46; 120] = Bad /\ enc roff_table [46; 120] = [92; 38; 46; 120].
Proof. repeat split; vm_compute; auto. Qed.
Print Assumptions C15_escaped_text_is_never_control.
Print Assumptions C15_specials_are_escaped.
Print Assumptions C15_model_text_is_escaped.
Print Assumptions C15_model_arguments_are_escaped.
