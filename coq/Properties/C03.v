(* C03 — text fidelity in XHTML.  Escaping step: html.EscapeString as probed from the toolchain over every
   code point (Gen/Tables.html_table) = Repl.enc html_table (stream S-esc); typography only inserts (C20). *)
Require Import Repl Tables EscapeProofs Typo TypoProofs.
From Coq Require Import List NArith.
Import ListNotations.
Open Scope N_scope.

(* unescaping the escaped text gives the text back: no character dropped, duplicated, reordered *)
Theorem C03_escape_decodable : forall s, dec html_table (length (enc html_table s)) (enc html_table s) = Some s.
Proof. exact html_roundtrip. Qed.
(* the markup-significant characters (less-than, greater-than, ampersand, both quotes) never pass through:
   they are never read as markup *)
Theorem C03_markup_characters_escaped : forall c, In c xml_specials ->
  exists im, lookup html_table c = Some im /\ enc1 html_table c = im.
Proof. intros c H. exact (special_not_passthrough html_table xml_specials c html_specials_keys H). Qed.
Theorem C03_typography_only_inserts_fr : forall l, Embed (atoms l) (atoms (fst (french l))).
Proof. exact C20_french. Qed.
Theorem C03_typography_only_inserts_en : forall l, Embed (atoms l) (atoms (english l)).
Proof. exact C20_english. Qed.
Print Assumptions C03_escape_decodable.
Print Assumptions C03_markup_characters_escaped.
