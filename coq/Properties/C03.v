(* C03 — text fidelity in XHTML.  Escaping step: html.EscapeString as probed from the toolchain over every
   code point (Gen/Tables.html_table) = Repl.enc html_table (stream S-esc); typography only inserts (C20). *)
Require Import Repl Tables EscapeProofs Typo TypoProofs MomText.
Require Import St Text.
From Coq Require Import List NArith String.
Import ListNotations.
Open Scope N_scope.

(* unescaping the escaped text gives the text back: no character dropped, duplicated, reordered *)
Theorem C03_escape_decodable : forall s, Repl.dec html_table (List.length (enc html_table s)) (enc html_table s) = Some s.
Proof. exact html_roundtrip. Qed.
(* the markup-significant characters (less-than, greater-than, ampersand, both quotes) never pass through:
   they are never read as markup *)
Theorem C03_markup_characters_escaped : forall c, In c xml_specials ->
  exists im, lookup html_table c = Some im /\ enc1 html_table c = im.
Proof. intros c H. exact (special_not_passthrough html_table xml_specials c html_specials_keys H). Qed.
Theorem C03_typography_only_inserts_fr : forall l, Embed (atoms l) (atoms (fst (french l))).
Proof. exact C20_french. Qed.
Theorem C03_typography_only_inserts_en : forall l, Embed (atoms l) (atoms (english l)).
Proof. exact C20_english. Qed.
(* On the text renderer of the model (Model/Text.v = renderText / inlinesToText of frundis/utils.go): in an XHTML
   compilation, outside automatic typography, unescaping what is rendered for a list of inlines (text, escapes,
   interpolated variables) gives back exactly their text -- for every list of inlines and every state.  (With
   typography the rendered text is that of the typographed inlines, which only inserts: the two theorems above.) *)
Theorem C03_model_rendered_text_decodes : forall l s, Exp.fmt s = Exp.FX ->
  MBase.str_eqb (lang s) (R "fr") = false -> MBase.str_eqb (lang s) (R "en") = false ->
  let r := fst (render_text l s) in Repl.dec html_table (List.length r) r = Some (fst (inlines_text l s)).
Proof. exact xhtml_rendered_text_decodes. Qed.
Print Assumptions C03_escape_decodable.
Print Assumptions C03_model_rendered_text_decodes.
Print Assumptions C03_markup_characters_escaped.
