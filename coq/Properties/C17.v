(* C17 — a compilation writes only under the requested output path.
   Path arithmetic: Base/PathClean.v models path.Clean/Join/Base (stream S-path). *)
Require Import PathClean PathProofs.
From Coq Require Import List NArith.
Import ListNotations.

(* Joining a safe component (non-empty, no slash, neither . nor ..) to a non-empty directory only extends
   the cleaned directory by that component: the result lies directly inside it. *)
Theorem C17_safe_component_stays_inside : forall o c, o <> [] -> safe c ->
  elems (o ++ SL :: c) = (fst (elems o), snd (elems o) ++ [c]).
Proof. exact join_safe_elems. Qed.
Print Assumptions C17_safe_component_stays_inside.
