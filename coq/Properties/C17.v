(* C17 — a compilation writes only under the requested output path.
   Path arithmetic: Base/PathClean.v models path.Clean/Join/Base (stream S-path). *)
Require Import PathClean PathProofs.
From Coq Require Import List NArith.
Import ListNotations.

(* Joining a safe component (non-empty, no slash, neither . nor ..) to a non-empty directory only extends
   the cleaned directory by that component: the result lies directly inside it. *)
Theorem C17_safe_component_stays_inside : forall o c, o <> [] -> safe c ->
  elems (o ++ SL :: c) = (fst (elems o), snd (elems o) ++ [c]).
Proof. exact join_safe_elems. Qed.
Print Assumptions C17_safe_component_stays_inside.

(* the parts of a generated file name that come from the document (Proofs/NamesSafe.v): the chapter name never holds a
   path separator, in any state - an id is used only when it has none, the part and chapter numbers otherwise - and a
   chapter prefix that holds one is refused by X set *)
Require NamesSafe.
From Coq Require Import String.
Theorem C17_chapter_name_has_no_separator : forall s, Xhtml.X.has_slash (Xhtml.X.chapname s) = false.
Proof. exact NamesSafe.chapname_has_no_separator. Qed.
Theorem C17_prefix_with_separator_is_refused : forall v s, Exp.fmt s = Exp.FX -> Xhtml.X.has_slash v = true ->
  fst (Exp.check_param (St.runes "xhtml-chap-prefix"%string) v s) = false.
Proof. exact NamesSafe.chap_prefix_with_separator_is_refused. Qed.
Print Assumptions C17_chapter_name_has_no_separator.
