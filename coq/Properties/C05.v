(* C05 — every generated link and cross-reference resolves to exactly one anchor.
   Model: Model/Loop.compile_source (XHTML single/multi-file, EPUB, LaTeX); links and anchors are read from the
   printed bytes.  The statement is kept here; the machine-checked part so far is the evaluation of the model
   on witnesses (the tie to the code is S-e2e; the search oracle follows every link of the implementation's output). *)
From Coq Require Import List NArith Bool String.
Import ListNotations.
Require Import St Loop Doc.
Open Scope string_scope.

(* occurrences of a substring *)
Fixpoint count_sub (fuel : nat) (p l : str) : nat :=
  match fuel with O => O | S f =>
    match l with
    | [] => O
    | _ :: r => (if str_eqb (firstn (List.length p) l) p then 1 else 0) + count_sub f p r
    end end.
Definition occurs (p : string) (l : str) : nat := count_sub (List.length l) (runes p) l.

(* a labelled section referenced twice: one anchor, two links to it (single file) *)
Example C05_examples : let s := run_doc "xhtml" 0 ".Ch C
.Sh -id lab L
.Sx lab
.Sx lab
" in quiet s = true /\ occurs "id=""s2""" (out_of s) = 1%nat /\ occurs "href=""#s2""" (out_of s) = 2%nat.
Proof. vm_compute. repeat split; reflexivity. Qed.

(* in the sub-language of Proofs/FragH.v (text, inline markup, .P, display blocks, headers, .Tc): the entries the tables of
   contents are written from are numbered 1, 2, ... in document order and the i-th refers to "#s<i>" - the anchor the
   i-th header element gets in pass 2 (id="s<i>", Proofs/FragH.macro_header_pass2) - so every table-of-contents link
   has exactly one target and different entries have different targets *)
Require FragH TocStr.
Theorem C05_toc_entries_refer_to_their_header_partial : forall fuel md wd main bs, md = 0%nat \/ md = 1%nat -> Forall FragH.in_fragH bs ->
  let s := snd (compile (S fuel) (R "xhtml") md wd main bs) in
  Forall TocStr.entry_ok (lox_toc s) /\
  (forall i e, nth_error (lox_toc s) i = Some e -> lx_count e = S i /\ lx_ref e = (R "#s" ++ dec (S i))%list).
Proof. intros fuel md wd main bs Hm H.
  assert (Hm3 : (md <= 3)%nat) by (destruct Hm as [-> | ->]; repeat constructor).
  destruct (FragH.C02_headers_balanced_modes fuel (R "xhtml") md wd main bs (or_introl eq_refl) Hm3 H) as (_ & _ & _ & _ & A & B). split; [exact A|].
  intros i e E. destruct (B i e E) as [B1 B2]. split; [exact B1|]. apply B2. destruct Hm as [-> | ->]; repeat constructor. Qed.

Print Assumptions C05_toc_entries_refer_to_their_header_partial.
Print Assumptions C05_examples.
