(* C05 — every generated link and cross-reference resolves to exactly one anchor.
   Model: Model/Loop.compile_source (XHTML single/multi-file, EPUB, LaTeX); links and anchors are read from the
   printed bytes.  The statement is kept here; the machine-checked part so far is the evaluation of the model
   on witnesses (the tie to the code is S-e2e; the search oracle follows every link of the implementation's output). *)
From Coq Require Import List NArith Bool String.
Import ListNotations.
Require Import St Loop Doc.
Open Scope string_scope.

(* occurrences of a substring *)
Fixpoint count_sub (fuel : nat) (p l : str) : nat :=
  match fuel with O => O | S f =>
    match l with
    | [] => O
    | _ :: r => (if str_eqb (firstn (List.length p) l) p then 1 else 0) + count_sub f p r
    end end.
Definition occurs (p : string) (l : str) : nat := count_sub (List.length l) (runes p) l.

(* a labelled section referenced twice: one anchor, two links to it (single file) *)
Example C05_examples : let s := run_doc "xhtml" 0 ".Ch C
.Sh -id lab L
.Sx lab
.Sx lab
" in quiet s = true /\ occurs "id=""s2""" (out_of s) = 1%nat /\ occurs "href=""#s2""" (out_of s) = 2%nat.
Proof. vm_compute. repeat split; reflexivity. Qed.
