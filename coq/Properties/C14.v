(* C14 — an EPUB is internally consistent and its archive is spec-ordered. *)
From Coq Require Import List NArith Bool String.
Import ListNotations.
Require Import St Loop Doc.
Open Scope string_scope.
Definition file (s : st) (p : string) : option str := assoc (runes p) (files s).
Definition has_file (s : st) (p : string) : bool := match file s p with Some _ => true | None => false end.
Example C14_examples : let s := run_doc "epub" 3 ".X set document-title T
.X set epub-uuid u
.Pt P
.Ch A
x
.Ch B
y
" in quiet s = true /\ file s "mimetype" = Some (runes "application/epub+zip") /\
     forallb (has_file s) ["META-INF/container.xml"; "EPUB/content.opf"; "EPUB/nav.xhtml"; "EPUB/toc.ncx"; "EPUB/index.xhtml";
                           "EPUB/body-1-00.xhtml"; "EPUB/body-1-01.xhtml"; "EPUB/body-1-02.xhtml"] = true.
Proof. vm_compute. repeat split; reflexivity. Qed.

(* the generated EPUB files are balanced for every book (tag machine of Proofs/Tok.v, which skips <?xml ...?> and
   <!DOCTYPE ...>): container.xml, the navigation document, the NCX and the package file *)
Require Epub TocStr Tok Exp Xhtml.
Theorem C14_container_balanced : Tok.run Xhtml.X.container_xml (Tok.Txt, []) = (Tok.Txt, []).
Proof. exact Epub.container_xml_balanced. Qed.
Theorem C14_nav_balanced : forall title s, Exp.fmt s = Exp.FX -> Forall TocStr.entry_ok (lox_toc s) -> Tok.textual (Xhtml.X.param "document-title" s) ->
  Tok.textual title -> TocStr.balanced_chunk (fst (Xhtml.X.nav_xhtml title s)).
Proof. exact Epub.nav_xhtml_balanced. Qed.
Theorem C14_ncx_balanced : forall title s, Exp.fmt s = Exp.FX -> Forall TocStr.entry_ok (lox_toc s) -> Tok.textual (Xhtml.X.param "document-title" s) ->
  Tok.no_c 62 (Xhtml.X.param "epub-uuid" s) = true -> Tok.textual title -> TocStr.balanced_chunk (fst (Xhtml.X.toc_ncx title s)).
Proof. exact Epub.toc_ncx_balanced. Qed.
Theorem C14_package_balanced : forall title s, Tok.textual title -> Tok.textual (Xhtml.X.param "epub-uuid" s) ->
  Tok.textual (Xhtml.X.param "document-author" s) -> Tok.textual (Xhtml.X.param "epub-subject" s) -> Forall (Epub.ref_ok s) (Xhtml.X.chap_entries s) ->
  TocStr.balanced_chunk (fst (Xhtml.X.content_opf title s)).
Proof. exact Epub.content_opf_balanced. Qed.
Print Assumptions C14_package_balanced.

(* whole pipeline, for every document of the sub-language of Proofs/FragH.v compiled as an EPUB: no panic, and every file
   of the book - mimetype, container, package, navigation document, stylesheet, NCX, index page and one page per part
   and chapter - is balanced (the hypotheses of the four theorems above are discharged for the states epubGen sees) *)
Require FragH FragB.
Theorem C14_epub_files_balanced_partial : forall fuel wd main bs, Forall FragH.in_fragH bs ->
  let s := snd (compile (S fuel) (R "epub") 3 wd main bs) in
  panicked s = None /\ Forall (fun f => Tok.run (snd f) (Tok.Txt, []) = (Tok.Txt, [])) (files s).
Proof. intros fuel wd main bs H.
  destruct (FragH.C02_headers_balanced_modes fuel (R "epub") 3 wd main bs (or_intror eq_refl) (le_n 3) H) as (A & _ & _ & D & _). exact (conj A D). Qed.
Print Assumptions C14_epub_files_balanced_partial.
