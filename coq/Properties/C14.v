(* C14 — an EPUB is internally consistent and its archive is spec-ordered. *)
From Coq Require Import List NArith Bool String.
Import ListNotations.
Require Import St Loop Doc.
Open Scope string_scope.
Definition file (s : st) (p : string) : option str := assoc (runes p) (files s).
Definition has_file (s : st) (p : string) : bool := match file s p with Some _ => true | None => false end.
Example C14_examples : let s := run_doc "epub" 3 ".X set document-title T
.X set epub-uuid u
.Pt P
.Ch A
x
.Ch B
y
" in quiet s = true /\ file s "mimetype" = Some (runes "application/epub+zip") /\
     forallb (has_file s) ["META-INF/container.xml"; "EPUB/content.opf"; "EPUB/nav.xhtml"; "EPUB/toc.ncx"; "EPUB/index.xhtml";
                           "EPUB/body-1-00.xhtml"; "EPUB/body-1-01.xhtml"; "EPUB/body-1-02.xhtml"] = true.
Proof. vm_compute. repeat split; reflexivity. Qed.
