(* C12 — macro-line syntax is a faithful encoding of name and argument strings.
   Model: Model/Scan.v (scanner/scanner.go, parser/parser.go), tied by streams S-parse. *)
Require Import Scan ScanProofs.
From Coq Require Import List NArith.
Import ListNotations.

(* A name and arguments printed by the manual's rules (single blanks between arguments), followed by
   further input, are read back as one macro block on line 1 carrying exactly those arguments;
   parsing then continues at the next block start.  _partial: the other layouts (several blanks,
   continuation lines, trailing comments) and the line numbers of later blocks are tied by the
   exhaustive S-parse stream and the implementation-side oracle, not yet proved. *)
Theorem C12_first_block_partial : forall n args y rest, wf_name n -> Forall wf_arg args ->
  exists k, forall f,
    parse_blocks (count_nl (print_line n args (y :: rest))) (S (k + f)) (p_scan (init_sc (print_line n args (y :: rest)))) [] =
    parse_blocks (count_nl (print_line n args (y :: rest))) (k + f) (p_scan (BlockStart, y :: rest))
                 [BMacro n (map (fun a => arg_inl a []) args) 1].
Proof. exact C12_first_block. Qed.
Theorem C12_arguments_read_back : forall args, map inls_text (map (fun a => arg_inl a []) args) = args.
Proof. exact C12_args_text. Qed.
Print Assumptions C12_first_block_partial.
Print Assumptions C12_arguments_read_back.

(* whole documents: macro lines (name and arguments printed by the manual's rules, one line each) one after the other
   are read back block for block, each with its arguments and its line number, and nothing else - for every fuel large
   enough (the example shows the fuel [parse] takes is).  Proofs/ScanDoc.v. *)
Require ScanDoc.
Theorem C12_document_read_back : forall ls, Forall ScanDoc.wf_line ls -> ls <> [] ->
  exists k, forall f,
    parse_blocks (count_nl (ScanDoc.print_doc ls)) (k + f) (p_scan (init_sc (ScanDoc.print_doc ls))) [] = (ScanDoc.blocks_from 1 ls, None).
Proof. exact ScanDoc.C12_document. Qed.
Print Assumptions C12_document_read_back.
