(* C20 — automatic typography only inserts no-break spaces and curls apostrophes.
   Model: Model/Typo.v (frundis/utils.go FrenchTypography, EnglishTypography), tied by stream S-typo. *)
Require Import Typo TypoProofs.
From Coq Require Import List NArith.

(* Embed src out: out is src with \~ escapes inserted and ' replaced by U+2019, nothing else
   (text fragments may be split; every other inline is kept as it is, in order). *)
Theorem C20_french_only_inserts : forall l, Embed (atoms l) (atoms (fst (french l))).
Proof. exact C20_french. Qed.
Theorem C20_english_only_inserts : forall l, Embed (atoms l) (atoms (english l)).
Proof. exact C20_english. Qed.
Print Assumptions C20_french_only_inserts.
Print Assumptions C20_english_only_inserts.
