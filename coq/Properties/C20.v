(* C20 — automatic typography only inserts no-break spaces and curls apostrophes.
   Model: Model/Typo.v (frundis/utils.go FrenchTypography, EnglishTypography), tied by stream S-typo. *)
Require Import Typo TypoProofs.
From Coq Require Import List NArith.

(* Embed src out: out is src with \~ escapes inserted and ' replaced by U+2019, nothing else
   (text fragments may be split; every other inline is kept as it is, in order). *)
Theorem C20_french_only_inserts : forall l, Embed (atoms l) (atoms (fst (french l))).
Proof. exact C20_french. Qed.
Theorem C20_english_only_inserts : forall l, Embed (atoms l) (atoms (english l)).
Proof. exact C20_english. Qed.
Print Assumptions C20_french_only_inserts.
Print Assumptions C20_english_only_inserts.

(* the second half: every mark ( ! : ; ? and the closing guillemet ) of the French output is protected - before it,
   skipping variable and argument interpolations, stands a no-break space or a protecting escape (\& or \~): the
   author's own, or the \~ the function inserted; and right after every opening guillemet stands one.  With
   C20_french_only_inserts (nothing else is ever added) this is "a mark the author left bare gets exactly its no-break
   space; one the author protected gets nothing more".  Proofs/TypoSpaced.v. *)
Require TypoSpaced.
Import ListNotations.
Open Scope N_scope.
Theorem C20_french_marks_protected : forall l pre c post, atoms (fst (french l)) = pre ++ AChar c :: post -> is_mark c = true ->
  exists q a mid, pre = q ++ a :: mid /\ TypoSpaced.protector a = true /\ forallb TypoSpaced.interp mid = true.
Proof. exact TypoSpaced.C20_french_marks_protected_spec. Qed.
Theorem C20_french_guillemet_protected : forall l pre post, atoms (fst (french l)) = pre ++ AChar LGUIL :: post ->
  exists a rest, post = a :: rest /\ TypoSpaced.protector a = true.
Proof. exact TypoSpaced.C20_french_guillemet_protected_spec. Qed.
Print Assumptions C20_french_marks_protected.
Print Assumptions C20_french_guillemet_protected.
(* English: every straight apostrophe left in the output is one the author protected (everything else was curled) *)
Theorem C20_english_apostrophes_protected : forall l pre post, atoms (english l) = pre ++ AChar APOS :: post ->
  exists q a mid, pre = q ++ a :: mid /\ TypoSpaced.protector a = true /\ forallb TypoSpaced.interp mid = true.
Proof. exact TypoSpaced.C20_english_apostrophes_spec. Qed.
Print Assumptions C20_english_apostrophes_protected.
(* non-vacuity: "a!" gets its space, "a<nbsp>!" and "a\~!" get nothing, "«a" gets one after the guillemet *)
Example C20_spacing_examples :
  fst (french [IText [97; 33]]) = [IText [97]; IEsc TILDE; IText [33]] /\
  fst (french [IText [97; 160; 33]]) = [IText [97; 160; 33]] /\
  fst (french [IText [97]; IEsc TILDE; IText [33]]) = [IText [97]; IEsc TILDE; IText [33]] /\
  fst (french [IText [171; 97]]) = [IText [171]; IEsc TILDE; IText [97]].
Proof. vm_compute. repeat split; reflexivity. Qed.
