(* C18 — compilation is a deterministic function of its inputs, with no carry-over.
   The model (Model/Loop.compile_source) is a function, so determinism holds of it by construction; what must be
   re-established from the source on every run is that the code has no other inputs: process-wide mutable state,
   map iteration, time and randomness.  Facts regenerated from /repo (Gen/Facts.v). *)
Require Import Facts.
From Coq Require Import String List Bool.
Import ListNotations.
Open Scope string_scope.

Fixpoint subset (a b : list string) : bool :=
  match a with [] => true | x :: r => existsb (String.eqb x) b && subset r b end.

(* package-level variables written after initialisation: only markdown's two scratch buffers, which
   processText resets before use (Reflow.reflow starts from [init], stream S-hist);
   a map is ranged over only in latex's init (filling another map);
   time and randomness are read only in the two EPUB functions used when epub-uuid is unset *)
Theorem C18_static :
  subset mutated_package_vars ["exporter/markdown/utils.go:pbuf"; "exporter/markdown/utils.go:wordbuf"] = true /\
  subset map_range_sites ["exporter/latex/utils.go:init"] = true /\
  subset time_rand_sites ["exporter/xhtml/epub.go:epubGenContentOpf time.Now"; "exporter/xhtml/epub.go:genuuid crypto/rand.Read"] = true.
Proof. repeat split; vm_compute; reflexivity. Qed.
Print Assumptions C18_static.
