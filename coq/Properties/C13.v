(* C13 — without -x no external command is ever started.
   Static part: facts regenerated from /repo's SSA on every run (Gen/Facts.v). *)
Require Import Facts.
Require Import St Ctl Loop CtlProofs Doc.
From Coq Require Import String List Bool.
Import ListNotations.
Open Scope string_scope.

Definition all_guarded (l : list (string * string * bool)) : bool := forallb (fun e => snd e) l.
Definition creators (l : list string) : list string := l.
Fixpoint subset (a b : list string) : bool :=
  match a with [] => true | x :: r => existsb (String.eqb x) b && subset r b end.

(* the only place of the module that constructs a command is frundis.getCommand; every call of it is dominated
   by the false edge of a test of Context.Unrestricted (computed on SSA by the translator); the function is never
   used as a value; the flag is written only when the compilation starts and when the context is reset (a copy) *)
Theorem C13_static :
  forallb (fun s => String.eqb s "frundis.getCommand -> os/exec.Command") exec_sites = true /\
  exec_sites <> [] /\
  all_guarded exec_callers = true /\
  exec_creator_refs = [] /\
  subset unrestricted_writers ["(*frundis.Context).Reset"; "frundis.ProcessFrundisSource"] = true.
Proof. repeat split; try (vm_compute; reflexivity). vm_compute. discriminate. Qed.
Print Assumptions C13_static.

(* Dynamic part, about the model (Model/Ctl.v, Model/Loop.v): whatever the document, its included files, the format and
   the mode, a compilation without -x starts no command -- the log of commands started is empty -- by every route:
   #run and shell filters reached directly, through user macros, variables, includes, filter lines and blocks,
   as-is includes, inline arguments.  The rendering macros cannot even see the flag or the log: they are functions of
   the rendering state alone (Model/Ctl.lift); the four macros typed on both sides are guarded (Proofs/CtlProofs.v). *)
Theorem C13_no_command_without_x : forall fmtname md wd main,
  w_unrestricted wd = false -> commands_started fmtname md wd main = [].
Proof. exact no_command_without_x. Qed.
Print Assumptions C13_no_command_without_x.
(* non-vacuity: with -x the same document does start its commands, in order *)
Example C13_with_x : commands_started (runes "xhtml") 0
    (mkWorld [] [(main_path, runes ".#run echo a
.X ftag -t c -shell cat
.Ft -t c text
")] [] true []) main_path = [[runes "echo"; runes "a"]; [runes "cat"]].
Proof. vm_compute. reflexivity. Qed.
