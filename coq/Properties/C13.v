(* C13 — without -x no external command is ever started.
   Static part: facts regenerated from /repo's SSA on every run (Gen/Facts.v). *)
Require Import Facts.
From Coq Require Import String List Bool.
Import ListNotations.
Open Scope string_scope.

Definition all_guarded (l : list (string * string * bool)) : bool := forallb (fun e => snd e) l.
Definition creators (l : list string) : list string := l.
Fixpoint subset (a b : list string) : bool :=
  match a with [] => true | x :: r => existsb (String.eqb x) b && subset r b end.

(* the only place of the module that constructs a command is frundis.getCommand; every call of it is dominated
   by the false edge of a test of Context.Unrestricted (computed on SSA by the translator); the function is never
   used as a value; the flag is written only when the compilation starts and when the context is reset (a copy) *)
Theorem C13_static :
  forallb (fun s => String.eqb s "frundis.getCommand -> os/exec.Command") exec_sites = true /\
  exec_sites <> [] /\
  all_guarded exec_callers = true /\
  exec_creator_refs = [] /\
  subset unrestricted_writers ["(*frundis.Context).Reset"; "frundis.ProcessFrundisSource"] = true.
Proof. repeat split; try (vm_compute; reflexivity). vm_compute. discriminate. Qed.
Print Assumptions C13_static.
