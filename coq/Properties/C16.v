(* C16 — recursive macros and includes are cut off with a diagnostic in bounded time. *)
From Coq Require Import List NArith Bool String.
Import ListNotations.
Require Import St Loop Doc.
Open Scope string_scope.
Definition run_with (f : string) (src : string) (extra : list (string * string)) : st :=
  compile_source (runes f) 0 (world_of (runes src) (map (fun p => (runes (fst p), runes (snd p))) extra) [] false) main_path.
Definition ends_with_after (s : st) : bool := (* the rest of the document is still processed *)
  let o := out_of s in str_eqb (skipn (List.length o - 10) o) (runes "after</p>
").
(* a file including itself twice; a macro including a file that calls it: cut off, diagnosed, the rest is processed *)
Example C16_examples :
  let a := run_with "xhtml" "x
.If f.frundis
after
" [("f.frundis", "y
.If f.frundis
.If f.frundis
")] in
  let b := run_with "xhtml" ".#de m
.If f.frundis
.#.
.m
after
" [("f.frundis", "z
.m
")] in
  no_panic a = true /\ negb (quiet a) = true /\ ends_with_after a = true /\ no_panic b = true /\ negb (quiet b) = true /\ ends_with_after b = true.
Proof. vm_compute. repeat split; reflexivity. Qed.
