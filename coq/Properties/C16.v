(* C16 — recursive macros and includes are cut off with a diagnostic in bounded time. *)
From Coq Require Import List NArith Bool String.
Import ListNotations.
Require Import St Exp Proc1 Proc2 Proc3 Ctl Loop Doc FuelProofs.
Require PathClean.
Open Scope string_scope.

(* The recursion of user macros and includes is always cut off by the code's own limits and diagnostics, never by
   the model's fuel: re-entrant calls nest at most 43 + (number of files) deep -- a user macro call is refused beyond
   depth 42, a file already being processed is not included again (whatever the spelling of its path) -- so the
   fuel chosen by compile_source suffices for EVERY document and world, and any larger fuel gives the same result.
   (The work inside these bounds is limited by the expansion budget and the bound on argument size, which the
   correspondence stream exercises under a watchdog; a step-count bound is not proved.) *)
Theorem C16_nesting_bounded : forall d d' bs c s,
  CInv c -> (avail c < d)%nat -> (d <= d')%nat -> run_blocks d' bs (c, s) = run_blocks d bs (c, s).
Proof. exact fuel_enough. Qed.
Theorem C16_fuel_never_decides : forall fmtname md wd main src bs d,
  assoc main (w_fs wd) = Some src -> PathClean.clean main = main -> (nesting_fuel wd <= d)%nat ->
  compile d fmtname md wd main bs = compile (nesting_fuel wd) fmtname md wd main bs.
Proof. exact compile_fuel_independent. Qed.
(* The expansion budget: at every moment of every run -- any document, any nesting of calls and includes -- the
   number of user-macro expansions counted since the top-level invocation is at most 10000; and a call made when
   the budget is used up does not run the body at all: it only sets the exhausted flag and logs (once) the diagnostic.
   Together with the nesting bound: the bodies run for one top-level line are at most 10000, whatever the fan-out. *)
Theorem C16_expansions_within_budget : forall d bs c s,
  (xcount c <= max_macro_expansions)%nat -> (xcount (fst (run_blocks d bs (c, s))) <= max_macro_expansions)%nat.
Proof. exact run_blocks_budget. Qed.
Theorem C16_call_beyond_budget_is_refused : forall pb m n l c s, (cdepth c <= 42)%nat -> (max_macro_expansions <= xcount c)%nat ->
  user_macro pb m n l (c, s) =
  (set_budget (xcount c) true c, if process s && negb (xexh c) then err "recursive macro: too many expansions" s else s).
Proof. exact user_macro_refused. Qed.
(* files that include themselves or each other: an include line naming a file that is being processed, under any
   spelling of its path, does not re-enter the loop -- the result is the same for every recursive entry, a diagnostic *)
Theorem C16_include_cycle_is_refused : forall pb c s o s1 a0 ar name s3 path,
  parse_opts specOptIncludeFile (args s) s = (o, s1) -> opt "f" o = None -> po_args o = (a0 :: ar)%list ->
  inlines_text a0 s1 = (name, s3) -> flag "as-is" o = false ->
  search_inc_file name c = (path, true) ->
  existsb (str_eqb (PathClean.clean path)) (incstack c) = true ->
  macro_include pb (c, s) = (c, if process s3 then err "recursive inclusion" s3 else s3).
Proof. exact include_cycle_is_refused. Qed.
Print Assumptions C16_nesting_bounded.
Print Assumptions C16_include_cycle_is_refused.
Print Assumptions C16_expansions_within_budget.
Print Assumptions C16_call_beyond_budget_is_refused.
Print Assumptions C16_fuel_never_decides.
Definition run_with (f : string) (src : string) (extra : list (string * string)) : st :=
  compile_source (runes f) 0 (world_of (runes src) (map (fun p => (runes (fst p), runes (snd p))) extra) [] false) main_path.
Definition ends_with_after (s : st) : bool := (* the rest of the document is still processed *)
  let o := out_of s in str_eqb (skipn (List.length o - 10) o) (runes "after</p>
").
(* a file including itself twice; a macro including a file that calls it: cut off, diagnosed, the rest is processed *)
Example C16_examples :
  let a := run_with "xhtml" "x
.If f.frundis
after
" [("f.frundis", "y
.If f.frundis
.If f.frundis
")] in
  let b := run_with "xhtml" ".#de m
.If f.frundis
.#.
.m
after
" [("f.frundis", "z
.m
")] in
  no_panic a = true /\ negb (quiet a) = true /\ ends_with_after a = true /\ no_panic b = true /\ negb (quiet b) = true /\ ends_with_after b = true.
Proof. vm_compute. repeat split; reflexivity. Qed.
