(* Scratch prototype: executable well-formedness checker for the XML subset the exporters emit (specification side of C02) *)
From Coq Require Import List NArith Bool Lia.
Import ListNotations.
Open Scope N_scope.

Definition rune := N.
Definition str := list rune.

Definition is_ws (c : rune) : bool := (c =? 32) || (c =? 9) || (c =? 10) || (c =? 13).
Definition is_letter (c : rune) : bool := ((65 <=? c) && (c <=? 90)) || ((97 <=? c) && (c <=? 122)) || (128 <=? c).
Definition is_digit (c : rune) : bool := (48 <=? c) && (c <=? 57).
Definition name_start (c : rune) : bool := is_letter c || (c =? 95) || (c =? 58).
Definition name_char (c : rune) : bool := name_start c || is_digit c || (c =? 45) || (c =? 46).
(* XML 1.0 Char, minus surrogates (not representable as runes here) *)
Definition xml_char (c : rune) : bool :=
  (c =? 9) || (c =? 10) || (c =? 13) || ((32 <=? c) && (c <=? 55295)) || ((57344 <=? c) && (c <=? 65533)) || ((65536 <=? c) && (c <=? 1114111)).

Fixpoint str_eqb (a b : str) : bool :=
  match a, b with [], [] => true | x :: a', y :: b' => (x =? y) && str_eqb a' b' | _, _ => false end.

Fixpoint take_name (l : str) (acc : str) : str * str :=
  match l with
  | c :: r => if name_char c then take_name r (c :: acc) else (rev acc, l)
  | [] => (rev acc, [])
  end.
Definition read_name (l : str) : option (str * str) :=
  match l with
  | c :: r => if name_start c then Some (take_name r [c]) else None
  | [] => None
  end.
Fixpoint skip_ws (l : str) : str := match l with c :: r => if is_ws c then skip_ws r else l | [] => [] end.

Fixpoint prefix (p l : str) : option str :=
  match p, l with
  | [], _ => Some l
  | a :: p', b :: l' => if a =? b then prefix p' l' else None
  | _, [] => None
  end.

(* &name; | &#ddd; | &#xhh;  -- returns the rest after ';' *)
Definition predefined (n : str) : bool :=
  existsb (str_eqb n) [[97;109;112]; [108;116]; [103;116]; [113;117;111;116]; [97;112;111;115]].
Fixpoint take_while (f : rune -> bool) (l : str) (acc : str) : str * str :=
  match l with c :: r => if f c then take_while f r (c :: acc) else (rev acc, l) | [] => (rev acc, []) end.
Definition is_hex (c : rune) : bool := is_digit c || ((65 <=? c) && (c <=? 70)) || ((97 <=? c) && (c <=? 102)).
Definition hexval (c : rune) : N := if is_digit c then c - 48 else if (97 <=? c) then c - 87 else c - 55.
Definition read_ref (l : str) : option str :=      (* l starts after the ampersand *)
  match l with
  | 35 :: 120 :: r => match take_while is_hex r [] with
                      | (d, 59 :: r') => match d with [] => None | _ => if xml_char (fold_left (fun a c => a * 16 + hexval c) d 0) then Some r' else None end
                      | _ => None end
  | 35 :: r => match take_while is_digit r [] with
               | (d, 59 :: r') => match d with [] => None | _ => if xml_char (fold_left (fun a c => a * 10 + (c - 48)) d 0) then Some r' else None end
               | _ => None end
  | _ => match read_name l with
         | Some (n, 59 :: r') => if predefined n then Some r' else None
         | _ => None
         end
  end.

(* attribute value up to the closing quote q *)
Fixpoint attr_value (fuel : nat) (q : rune) (l : str) : option str :=
  match fuel with O => None | S f =>
    match l with
    | [] => None
    | c :: r => if c =? q then Some r
                else if c =? 60 then None
                else if c =? 38 then match read_ref r with Some r' => attr_value f q r' | None => None end
                else if xml_char c then attr_value f q r else None
    end end.

(* attributes of a start tag; returns whether the tag is self-closing and the rest after '>' *)
Fixpoint attrs (fuel : nat) (seen : list str) (l : str) : option (bool * str) :=
  match fuel with O => None | S f =>
    let l1 := skip_ws l in
    match l1 with
    | 62 :: r => Some (false, r)
    | 47 :: 62 :: r => Some (true, r)
    | _ =>
      (* an attribute must be preceded by white space *)
      match l with
      | c :: _ =>
        if is_ws c then
          match read_name l1 with
          | Some (n, r) =>
            if existsb (str_eqb n) seen then None else
            match skip_ws r with
            | 61 :: r2 =>
              match skip_ws r2 with
              | q :: r3 => if (q =? 34) || (q =? 39) then
                             match attr_value (S (length r3)) q r3 with Some r4 => attrs f (n :: seen) r4 | None => None end
                           else None
              | [] => None
              end
            | _ => None
            end
          | None => None
          end
        else None
      | [] => None
      end
    end end.

Fixpoint until (fuel : nat) (p : str) (l : str) : option str :=     (* skip to just after the first occurrence of p *)
  match fuel with O => None | S f =>
    match prefix p l with
    | Some r => Some r
    | None => match l with _ :: r => until f p r | [] => None end
    end end.

(* main loop: stack of open element names; seen_root: a root element has been closed *)
Fixpoint wf (fuel : nat) (stack : list str) (seen_root : bool) (l : str) : bool :=
  match fuel with O => false | S f =>
    match l with
    | [] => match stack with [] => seen_root | _ => false end
    | 60 :: r =>                                                  (* '<' *)
      match r with
      | 33 :: 45 :: 45 :: r1 =>                                   (* comment *)
          match until (S (length r1)) [45; 45] r1 with
          | Some (62 :: r2) => wf f stack seen_root r2
          | _ => false
          end
      | 33 :: r1 =>                                               (* <!DOCTYPE ...> : only in the prolog, no internal subset *)
          match stack, seen_root with
          | [], false => match take_while (fun c => negb ((c =? 62) || (c =? 91) || (c =? 60))) r1 [] with
                         | (_, 62 :: r2) => wf f stack seen_root r2
                         | _ => false end
          | _, _ => false
          end
      | 63 :: r1 =>                                               (* processing instruction / xml declaration *)
          match until (S (length r1)) [63; 62] r1 with Some r2 => wf f stack seen_root r2 | None => false end
      | 47 :: r1 =>                                               (* end tag *)
          match read_name r1 with
          | Some (n, r2) =>
            match skip_ws r2, stack with
            | 62 :: r3, top :: rest => if str_eqb n top then wf f rest (match rest with [] => true | _ => seen_root end) r3 else false
            | _, _ => false
            end
          | None => false
          end
      | _ =>                                                      (* start tag *)
          match stack, seen_root with
          | [], true => false                                     (* second root *)
          | _, _ =>
            match read_name r with
            | Some (n, r2) =>
              match attrs (S (length r2)) [] r2 with
              | Some (true, r3) => wf f stack (match stack with [] => true | _ => seen_root end) r3
              | Some (false, r3) => wf f (n :: stack) seen_root r3
              | None => false
              end
            | None => false
            end
          end
      end
    | 38 :: r =>                                                  (* '&' in character data *)
      match stack with
      | [] => false
      | _ => match read_ref r with Some r' => wf f stack seen_root r' | None => false end
      end
    | c :: r =>
      match stack with
      | [] => if is_ws c then wf f stack seen_root r else false   (* only white space outside the root *)
      | _ => if xml_char c then wf f stack seen_root r else false
      end
    end end.

Definition wf_xml (l : str) : bool := wf (S (length l)) [] false l.
