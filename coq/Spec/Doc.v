(* Helpers to state properties of whole compilations of the model (Model/Loop.compile_source). *)
From Coq Require Import List NArith Bool String.
Import ListNotations.
Require Import St Loop.
Require Xml.
Open Scope N_scope.

Definition main_path : str := R "w/d.frundis".
Definition world_of (src : str) (extra : list (str * str)) (libs : list str) (x : bool) : world :=
  mkWorld (map runes ["i.png"; "i.pdf"; "i.eps"; "img.png"; "."; ".."]%string) ((main_path, src) :: extra) libs x [].
(* one source file, restricted mode *)
Definition run_doc (fmt : string) (md : nat) (src : string) : st :=
  compile_source (runes fmt) md (world_of (runes src) [] [] false) main_path.
Definition quiet (s : st) : bool := match panicked s, diags s with None, [] => true | _, _ => false end.
Definition out_of (s : st) : str := match files s with (_, c) :: _ => c | [] => [] end.
Definition no_panic (s : st) : bool :=
  match panicked s with
  | None => true
  | Some m => str_eqb m (R "parse error") || str_eqb m (R "no such file")
  end.
(* fragment output is wrapped in a root element for the XML checker *)
Definition wf_fragment (c : str) : bool := Xml.wf_xml (R "<r>" ++ c ++ R "</r>").
Definition markup_path (p : str) : bool :=
  let ends (suf : string) := str_eqb (skipn (List.length p - List.length (runes suf)) p) (runes suf) in
  ends ".html"%string || ends ".xhtml"%string || ends ".opf"%string || ends ".ncx"%string || ends ".xml"%string.
