(* Scratch prototype, Tier 3 slice: exporter/latex (fragment mode) *)
From Coq Require Import List NArith ZArith Bool Lia Arith String.
Import ListNotations.
Require Import St Text Common.
Open Scope N_scope.

Module L.
Definition target (id : str) : str := match id with [] => [] | _ => R "\hypertarget{" ++ id ++ R "}{}" end.
Fixpoint pairs_opts (p : list str) (first : bool) : str :=
  match p with
  | k :: v :: r => (if first then [] else R ",") ++ latex_escape k ++ R "=" ++ latex_escape v ++ pairs_opts r false
  | _ => []
  end.
Definition opts_of (p : list str) : str := match p with [] => [] | _ => R "[" ++ pairs_opts p true ++ R "]" end.
Definition hname (m : str) : str :=
  if str_eqb m (R "Pt") then R "part" else if str_eqb m (R "Ch") then R "chapter"
  else if str_eqb m (R "Sh") then R "section" else if str_eqb m (R "Ss") then R "subsection" else [].
Definition dcmd (tag : str) (s : st) : str := match assoc tag (dtags s) with Some d => dt_cmd d | None => [] end.

Definition gen_ref (prefix id : str) : str := match prefix with [] => id | _ => prefix ++ R ":" ++ id end.
Definition header_reference (s : st) : str := gen_ref (R "s") (dec (hcount (toc s))).

Definition begin_desc_list (id : str) := w (target id ++ R "\begin{description}" ++ NLs).
Definition begin_desc_value (s : st) := s.
Definition begin_dialogue (s : st) := w (match assoc (R "dmark") (params s) with Some d => latex_escape d | None => R "---" end) s.
Definition begin_display_block (tag id : str) (s : st) : st :=
  let s1 := match dcmd tag s with
            | [] => s
            | c => w (R "\begin{" ++ c ++ R "}" ++ opts_of (match assoc tag (dtags s) with Some d => dt_pairs d | None => [] end) ++ NLs) s
            end in
  match id with [] => s1 | _ => w (target id ++ NLs) s1 end.
Definition begin_enum_list (id : str) := w (target id ++ R "\begin{enumerate}" ++ NLs).
Definition begin_item_list (id : str) := w (target id ++ R "\begin{itemize}" ++ NLs).
Definition begin_item := w (R "\item ").
Definition begin_enum_item := w (R "\item ").
Definition begin_header (m : str) (numbered : bool) (s : st) : st := w (R "\" ++ hname m ++ (if numbered then [] else R "*") ++ R "{") s.
Definition begin_markup_block (tag id : str) (s : st) : st :=
  match assoc tag (mtags s) with
  | None => w (target id ++ R "\emph{") s
  | Some m => w (target id ++ R "\" ++ mt_cmd m ++ opts_of (mt_pairs m) ++ R "{" ++ mt_begin m) s
  end.
Definition begin_paragraph (s : st) := s.
Definition begin_table (t : tdata) (s : st) : st :=
  w ((match td_title t with [] => [] | _ => R "\begin{table}[htbp]" ++ NLs end) ++
     R "\begin{tabular}{" ++ List.concat (List.repeat (R "l") (td_cols t)) ++ R "}" ++ NLs) s.
Definition begin_table_cell (s : st) := if Nat.ltb 1 (tcell s) then w (R " & ") s else s.
Definition begin_table_row (s : st) := s.
Definition begin_verse (title id : str) : st -> st :=
  match title with
  | [] => w (target id ++ R "\begin{verse}" ++ NLs)
  | _ => w (R "\poemtitle{" ++ title ++ R "}" ++ NLs ++ R "\label{poem:" ++ id ++ R "}" ++ NLs ++ R "\begin{verse}" ++ NLs)
  end.
Definition begin_verse_line (s : st) := s.
Definition cross_reference (i : idinfo) (punct : str) : st -> st :=
  let t := id_type i in
  if Nat.eqb t 5 || Nat.eqb t 4 || Nat.eqb t 7 || Nat.eqb t 6 then w (R "\hyperref[" ++ id_ref i ++ R "]{" ++ id_name i ++ R "}" ++ punct)
  else if Nat.eqb t 0 then w (id_name i ++ punct)
  else w (R "\hyperlink{" ++ id_ref i ++ R "}{" ++ id_name i ++ R "}" ++ punct).
Definition desc_name (n : str) := w (R "\item[" ++ n ++ R "] ").
Definition end_desc_list := wo (R "\end{description}" ++ NLs).
Definition end_desc_value := w NLs.
Definition end_display_block (tag : str) (s : st) : st :=
  match tag with [] => s | _ => match dcmd tag s with [] => s | c => w (R "\end{" ++ c ++ R "}" ++ NLs) s end end.
Definition end_enum_list := wo (R "\end{enumerate}" ++ NLs).
Definition end_item := w NLs.
Definition end_header (m : str) (numbered : bool) (title : str) (s : st) : st :=
  w (R "}" ++ NLs ++ (if numbered then [] else R "\addcontentsline{toc}{" ++ hname m ++ R "}{" ++ title ++ R "}" ++ NLs) ++
     R "\label{s:" ++ dec (hcount (toc s)) ++ R "}" ++ NLs) s.
Definition end_item_list := wo (R "\end{itemize}" ++ NLs).
Definition end_markup_block (tag punct : str) (s : st) : st :=
  w ((match assoc tag (mtags s) with Some m => mt_end m | None => [] end) ++ R "}" ++ punct) s.
Definition end_paragraph (b : pbreak) : st -> st :=
  match b with PForced => w NLs | PItem => fun s => s | PBlock => w NLs | PNormal => w (NLs ++ NLs) end.
Definition end_stanza := end_paragraph PNormal.
Definition end_table (t : tdata) (s : st) : st :=
  w (R "\end{tabular}" ++ NLs ++
     (match td_title t with
      | [] => target (td_id t)
      | ti => R "\caption{" ++ ti ++ R "}" ++ NLs ++ R "\label{tbl:" ++ dec (ttit s) ++ R "}" ++ NLs ++ R "\end{table}" ++ NLs end)) s.
Definition end_table_cell (s : st) := s.
Definition end_table_row := w (R " \\" ++ NLs).
Definition end_verse := w (R "\end{verse}" ++ NLs).
Definition end_verse_line := w (R " \\" ++ NLs).
Definition format_paragraph (s : st) (t : str) : str := t.
(* os.Stat(image) succeeds: the harness creates the image files the documents name *)
Definition figure_image (image caption link alt : str) (s : st) : st :=
  if contains_any tex_name_bad_chars image || contains_any brace_chars caption then err "path argument and caption should not contain braces" s else
  if negb (existsb (str_eqb image) (existing s)) then err "image not found" s else
  w (R "\begin{center}" ++ NLs ++ R "\begin{figure}[htbp]" ++ NLs ++ R "\includegraphics{" ++ latex_percent image ++ R "}" ++ NLs ++
     R "\caption{" ++ caption ++ R "}" ++ NLs ++ R "\label{fig:" ++ dec (fig s) ++ R "}" ++ NLs ++ R "\end{figure}" ++ NLs ++ R "\end{center}" ++ NLs) s.
Definition inline_image (image link id punct alt : str) (s : st) : st :=
  if contains_any tex_name_bad_chars image then err "path argument should not contain braces" s else
  if negb (existsb (str_eqb image) (existing s)) then err "image not found" s else
  w (R "\includegraphics{" ++ latex_percent image ++ R "}" ++ punct ++ target id) s.
Definition lk_with_label (uri label punct : str) : st -> st :=
  with_url uri (fun u => w (R "\href{" ++ latex_url u ++ R "}{" ++ latex_escape label ++ R "}" ++ punct)).
Definition lk_without_label (uri punct : str) : st -> st := with_url uri (fun u => w (R "\url{" ++ latex_url u ++ R "}" ++ punct)).
Definition paragraph_title (t : str) := w (R "\paragraph{" ++ t ++ R "}" ++ NLs).
Definition table_of_contents (o : popts) (s : st) : st :=
  let s1 := w (R "\setcounter{tocdepth}{" ++ (if flag "summary" o then R "0" else R "3") ++ R "}" ++ NLs) s in
  if flag "mini" o then w (if flag "lof" o then R "\minilof" ++ NLs else if flag "lot" o then R "\minilot" ++ NLs else R "\minitoc" ++ NLs) s1
  else if flag "lof" o then w (R "\listoffigures" ++ NLs) s1
  else if flag "lot" o then w (R "\listoftables" ++ NLs) s1
  else if flag "lop" o then err "list of poems not available for LaTeX" s1
  else w (R "\tableofcontents" ++ NLs) s1.
End L.
