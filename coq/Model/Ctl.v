(* The control side of the state, and the handlers that can start a process or read a file.
   [ctl] holds what only the control layer touches: the -x flag, the log of commands started, the expansion
   budget of user macros, the stack of files being processed, the file system.  Rendering handlers are
   functions [st -> st]: they cannot read or change any of it, by typing.  The four handlers of this file
   (#run, Ft, Ef, If) are the only ones typed on both sides. *)
From Coq Require Import List NArith ZArith Bool Lia Arith String.
Import ListNotations.
Require Import Exp Proc1 Proc2 Proc3.
Require PathClean.
Open Scope N_scope.

Record ctl := mkCtl {
  unrestricted : bool;                  (* -x *)
  execs : list (list str);              (* commands started, newest first *)
  cdepth : nat;                         (* depth of user macro calls *)
  xcount : nat; xexh : bool;            (* user macro expansions since the top-level invocation; budget reported as exhausted *)
  incstack : list str;                  (* clean paths of the files being processed, innermost last *)
  fs : list (str * str);                (* the files of the world, by clean path *)
  libdirs : list str                    (* FRUNDISLIB *)
}.
Definition cst := (ctl * st)%type.
Definition lift (h : st -> st) (cs : cst) : cst := (fst cs, h (snd cs)).
Definition set_execs (e : list (list str)) (c : ctl) : ctl := mkCtl (unrestricted c) e (cdepth c) (xcount c) (xexh c) (incstack c) (fs c) (libdirs c).
Definition set_budget (n : nat) (x : bool) (c : ctl) : ctl := mkCtl (unrestricted c) (execs c) (cdepth c) n x (incstack c) (fs c) (libdirs c).
Definition set_cdepth (d : nat) (c : ctl) : ctl := mkCtl (unrestricted c) (execs c) d (xcount c) (xexh c) (incstack c) (fs c) (libdirs c).
Definition set_incstack (l : list str) (c : ctl) : ctl := mkCtl (unrestricted c) (execs c) (cdepth c) (xcount c) (xexh c) l (fs c) (libdirs c).

(* the files of the world are keyed by clean paths; os.Stat / os.ReadFile resolve . and .. segments *)
Definition fs_get (p : str) (c : ctl) : option str := assoc (PathClean.clean p) (fs c).
Definition is_file (p : str) (c : ctl) : bool := match fs_get p c with Some _ => true | None => false end.

(* What a started command prints is an oracle.  The correspondence streams use three commands whose output is
   known: echo (its arguments joined by blanks, newline), cat (its input), true (nothing); anything else is
   taken to fail to start or to exit with an error (a diagnostic, no output). *)
Definition sh_words (a : str) : list str := filter (fun w => negb (str_eqb w [])) (split_on 32 a []).
Definition run_cmd (args : list str) (stdin : str) : option str :=
  let argv := match args with [one] => if contains_space one then sh_words one else args | _ => args end in
  match argv with
  | c :: r => if str_eqb c (R "echo") then Some (join_with [32] r ++ [10])
              else if str_eqb c (R "cat") && Nat.eqb (List.length r) 0 then Some stdin
              else if str_eqb c (R "true") then Some []
              else None
  | [] => None
  end.

(* strings.NewReplacer with arbitrary (non-empty) keys: at each position the first pair, in argument order, whose key matches *)
Fixpoint strip_prefix (p l : str) : option str :=
  match p, l with
  | [], _ => Some l
  | a :: p', b :: l' => if a =? b then strip_prefix p' l' else None
  | _ :: _, [] => None
  end.
Fixpoint gsub_at (pairs : list (str * str)) (l : str) : option (str * str) :=
  match pairs with
  | [] => None
  | (k, v) :: r => match k with
                   | [] => gsub_at r l
                   | _ => match strip_prefix k l with Some rest => Some (v, rest) | None => gsub_at r l end
                   end
  end.
Fixpoint gsub (fuel : nat) (pairs : list (str * str)) (l : str) : str :=
  match fuel with O => l | S f =>
    match l with
    | [] => []
    | c :: r => match gsub_at pairs l with
                | Some (v, rest) => v ++ gsub f pairs rest
                | None => c :: gsub f pairs r
                end
    end end.

(* shellFilter *)
Definition shell_filter (cmd : list str) (text : str) (cs : cst) : str * cst :=
  let '(c, s) := cs in
  if negb (unrestricted c) then ([], (c, err "skipping disallowed external command" s)) else
  let c1 := set_execs (cmd :: execs c) c in
  match run_cmd cmd text with
  | Some out => (out, (c1, s))
  | None => ([], (c1, err "shell command failed" s))
  end.
(* ctx.Filters[tag](text): None when the tag is not a filter *)
Definition apply_filter (tag : str) (text : str) (cs : cst) : option (str * cst) :=
  if str_eqb tag (R "escape") then Some (escape_fn (snd cs) text, cs) else
  match assoc tag (filters (snd cs)) with
  | Some (FGsub pairs) => Some (gsub (S (List.length text)) pairs text, cs)
  | Some (FShell cmd) => Some (shell_filter cmd text cs)
  | None => None
  end.

(* macroEf *)
Definition macro_ef (cs : cst) : cst :=
  let '(c, s) := cs in
  if negb (process s) then cs else
  let '(o, s1) := parse_opts specOptEf (args s) s in
  let s2 := useless o s1 in
  match bf s2 with
  | None => (c, err "no corresponding Bf" s2)
  | Some b =>
    let '(c3, s3) :=
      if bf_ignore b then (c, s2 <| elided := true |>) else
      let '(t, (c', s')) :=
        match bf_tag b with
        | [] => (raw s2, (c, s2))
        | tag => match apply_filter tag (raw s2) (c, s2) with
                 | Some r => r
                 | None => (raw s2, (c, err "invalid filter tag" s2))
                 end
        end in
      let s'' := w t s' in
      (c', if par s'' && negb (flag "ns" o) then s'' <| ws := true |>
           else if negb (flag "ns" o) then w [10] s'' else s'') in
    (c3, s3 <| raw := [] |> <| asis := false |> <| bf := None |>)
  end.

(* macroFt *)
Definition macro_ft (cs : cst) : cst :=
  let '(c, s) := cs in
  if negb (process s) then cs else
  let '(o, s1) := parse_opts specOptFt (args s) s in
  let '(skip, s2) := match opt "f" o with
                     | Some f => let '(fs, s') := formats_of f s1 in let s'' := check_formats fs s' in (not_export_format fs s'', s'')
                     | None => (false, s1) end in
  if skip then (c, s2 <| elided := true |>) else
  match opt "f" o, opt "t" o with
  | None, None => (c, err "one of -f option or -t option at least required" s2)
  | _, ot =>
    let s3 := if par s2 then (begin_phrasing (flag "ns" o) s2) <| ws := false |> else s2 in
    let '(t, (c4, s4)) :=
      match ot with
      | Some tg => let '(tag, s') := inlines_text tg s3 in
                   if has_filter tag s' then
                     let '(x, s'') := args_text (po_args o) s' in
                     match apply_filter tag x (c, s'') with Some r => r | None => (x, (c, s'')) end
                   else let '(y, s'') := render_args (po_args o) (err "undefined filter tag" s') in (y, (c, s''))
      | None => let '(x, s') := args_text (po_args o) s3 in (x, (c, s'))
      end in
    (c4, w t s4)
  end.

(* macroRun *)
Definition macro_run (cs : cst) : cst :=
  let '(c, s) := cs in
  if negb (process s) then cs else
  if negb (unrestricted c) then (c, err "skipping disallowed external command" s) else
  let '(o, s1) := parse_opts specOptRun (args s) s in
  let '(sargs, s2) := fold_left (fun '(acc, s) x => let '(t, s') := inlines_text x s in (acc ++ [t], s')) (po_args o) ([], s1) in
  match sargs with
  | [] => (c, err "not enough arguments" s2)
  | _ => let c1 := set_execs (sargs :: execs c) c in
         match run_cmd sargs [] with
         | Some out => (c1, w out s2)
         | None => (c1, err "shell command failed" s2)
         end
  end.
