(* Scratch prototype: exporter/markdown/utils.go processText and property C19 (word preservation) *)
From Coq Require Import List NArith Bool Lia.
Import ListNotations.
Open Scope N_scope.

Definition rune := N.
Definition str := list rune.
Definition NL : rune := 10. Definition SP : rune := 32.

Section Reflow.
Variable is_space : rune -> bool.          (* unicode.IsSpace; generated table in the real development *)
Hypothesis sp_space : is_space SP = true.
Hypothesis nl_space : is_space NL = true.

Definition sep (c : rune) : bool := is_space c && negb (c =? 160).

Record rst := { pbuf : str; wbuf : str; spaces : bool; col : nat; want : bool }.

Variable indent : nat.
Definition ind : str := repeat SP indent.

(* the separator written before a flushed word *)
Definition sepstr (s : rst) (final : bool) : str :=
  if want s then
    (if (if final then Nat.ltb 55 (length (wbuf s) + col s) else Nat.ltb 55 (col s + length (wbuf s)))
     then [NL] ++ ind else [SP])
  else [].

Definition flush_word (s : rst) : rst :=
  let wlen := length (wbuf s) in
  let wrap := Nat.ltb 55 (col s + wlen) in
  {| pbuf := pbuf s ++ sepstr s false ++ wbuf s; wbuf := []; spaces := false;
     col := (if wrap then (if want s then 0 else col s) else (if want s then S (col s) else col s)) + wlen;
     want := true |}.

Definition step (s : rst) (c : rune) : rst :=
  if sep c then
    match wbuf s with
    | [] => s
    | _ => if spaces s then s else {| pbuf := pbuf s; wbuf := wbuf s; spaces := true; col := col s; want := want s |}
    end
  else
    let s1 := match wbuf s with
              | [] => s
              | _ => if spaces s then flush_word s else s
              end in
    {| pbuf := pbuf s1; wbuf := wbuf s1 ++ [c]; spaces := spaces s1; col := col s1; want := want s1 |}.

Definition finish (s : rst) : str :=
  match wbuf s with
  | [] => pbuf s
  | _ => pbuf s ++ sepstr s true ++ wbuf s
  end.

Definition init := {| pbuf := []; wbuf := []; spaces := false; col := 0; want := false |}.
Definition reflow (t : str) : str := finish (fold_left step t init).

(* ---- specification: the words of a text ---- *)
Definition wst := (list str * str)%type.
Definition wstep (w : wst) (c : rune) : wst :=
  if sep c then (match snd w with [] => fst w | _ => fst w ++ [snd w] end, [])
  else (fst w, snd w ++ [c]).
Definition wfin (w : wst) : list str := match snd w with [] => fst w | _ => fst w ++ [snd w] end.
Definition words (t : str) : list str := wfin (fold_left wstep t ([], [])).

Definition nosep (w : str) : Prop := Forall (fun c => sep c = false) w.
Definition allsep (w : str) : Prop := Forall (fun c => sep c = true) w.
Definition good (w : str) : Prop := w <> [] /\ nosep w.

Lemma fold_nosep w : nosep w -> forall ws cur, fold_left wstep w (ws, cur) = (ws, cur ++ w).
Proof.
  induction 1 as [|c w Hc _ IH]; intros ws cur; cbn [fold_left]; [rewrite app_nil_r; reflexivity|].
  unfold wstep at 2. cbn [fst snd]. rewrite Hc, IH, <- app_assoc. reflexivity.
Qed.

Lemma fold_allsep w : allsep w -> w <> [] -> forall ws cur,
  fold_left wstep w (ws, cur) = (match cur with [] => ws | _ => ws ++ [cur] end, []).
Proof.
  induction 1 as [|c w Hc Hw IH]; intros Hne ws cur; [congruence|].
  cbn [fold_left]. unfold wstep at 2. cbn [fst snd]. rewrite Hc.
  destruct w as [|d w]; [reflexivity|]. rewrite IH by discriminate. reflexivity.
Qed.

Lemma sep_SP : sep SP = true. Proof. unfold sep. rewrite sp_space. reflexivity. Qed.
Lemma sep_NL : sep NL = true. Proof. unfold sep. rewrite nl_space. reflexivity. Qed.
Lemma allsep_ind : allsep ind.
Proof. unfold ind. induction indent; cbn; constructor; auto using sep_SP. Qed.

Lemma sepstr_spec s f : (want s = true -> allsep (sepstr s f) /\ sepstr s f <> []) /\ (want s = false -> sepstr s f = []).
Proof.
  unfold sepstr. destruct (want s); split; try discriminate; try reflexivity. intros _.
  destruct (if f then _ else _).
  - split; [constructor; [apply sep_NL| apply allsep_ind] | discriminate].
  - split; [constructor; [apply sep_SP| constructor] | discriminate].
Qed.

(* pbuf is the flushed words [fl] joined by separators *)
Definition pstate (p : str) (fl : list str) : Prop :=
  fold_left wstep p ([], []) = (removelast fl, last fl []) /\ (fl = [] -> p = []).

Definition Inv (s : rst) (w : wst) : Prop :=
  exists fl, Forall good fl /\ pstate (pbuf s) fl /\ want s = negb (match fl with [] => true | _ => false end) /\ nosep (wbuf s) /\
    ((spaces s = false /\ w = (fl, wbuf s)) \/
     (spaces s = true /\ wbuf s <> [] /\ w = (fl ++ [wbuf s], []))).

Lemma removelast_snoc (A : Type) (l : list A) x : removelast (l ++ [x]) = l.
Proof. apply removelast_last. Qed.
Lemma last_snoc (A : Type) (l : list A) x d : last (l ++ [x]) d = x.
Proof. apply last_last. Qed.

Lemma good_last fl : Forall good fl -> fl <> [] -> last fl [] <> [].
Proof.
  intros H Hne. destruct (exists_last Hne) as (l & x & ->). rewrite last_snoc.
  apply Forall_app in H as [_ H]. inversion H as [|? ? [Hx _] _]; subst. exact Hx.
Qed.

Lemma pstate_flush s fl :
  Forall good fl -> pstate (pbuf s) fl -> want s = negb (match fl with [] => true | _ => false end) ->
  nosep (wbuf s) -> forall f, pstate (pbuf s ++ sepstr s f ++ wbuf s) (fl ++ [wbuf s]).
Proof.
  intros Hg [Hp Hnil] Hw Hn f. split.
  - rewrite removelast_snoc, last_snoc, !fold_left_app, Hp.
    destruct (sepstr_spec s f) as [Ht Hf]. destruct fl as [|w0 fl].
    + cbn in Hw. rewrite (Hf Hw). cbn [fold_left removelast last]. rewrite fold_nosep by assumption. reflexivity.
    + cbn in Hw. destruct (Ht Hw) as [Ha Hne]. rewrite (fold_allsep _ Ha Hne).
      assert (Hl : last (w0 :: fl) [] <> []) by (apply good_last; [assumption|discriminate]).
      destruct (last (w0 :: fl) []) as [|c l] eqn:El; [congruence|].
      rewrite fold_nosep by assumption. cbn [app]. f_equal.
      rewrite <- El. symmetry. apply app_removelast_last. discriminate.
  - intros H. destruct fl; discriminate.
Qed.

Lemma Inv_intro s w fl :
  Forall good fl -> pstate (pbuf s) fl -> want s = negb (match fl with [] => true | _ => false end) -> nosep (wbuf s) ->
  ((spaces s = false /\ w = (fl, wbuf s)) \/ (spaces s = true /\ wbuf s <> [] /\ w = (fl ++ [wbuf s], []))) -> Inv s w.
Proof. intros. exists fl. auto. Qed.

Lemma nosep_snoc w c : nosep w -> sep c = false -> nosep (w ++ [c]).
Proof. intros H Hc. apply Forall_app; split; [assumption| constructor; [assumption|constructor]]. Qed.

Lemma Inv_step s w c : Inv s w -> Inv (step s c) (wstep w c).
Proof.
  intros (fl & Hg & Hp & Hw & Hn & Hc). unfold step, wstep. destruct (sep c) eqn:Ec.
  - (* separator *)
    destruct (wbuf s) as [|d wb] eqn:Ewb.
    + destruct Hc as [[Hs ->]|[_ [Hne _]]]; [|congruence]. cbn [fst snd].
      apply Inv_intro with (fl := fl); try assumption; [rewrite Ewb; assumption|].
      left. rewrite Ewb. auto.
    + destruct Hc as [[Hs ->]|[Hs [_ ->]]]; rewrite Hs; cbn [fst snd].
      * apply Inv_intro with (fl := fl); cbn [pbuf wbuf spaces want]; try assumption.
        right. split; [reflexivity|]. split; [discriminate|reflexivity].
      * apply Inv_intro with (fl := fl); try assumption; [rewrite Ewb; assumption|].
        right. rewrite Ewb. split; [assumption|]. split; [discriminate|reflexivity].
  - (* ordinary rune *)
    destruct (wbuf s) as [|d wb] eqn:Ewb.
    + destruct Hc as [[Hs ->]|[_ [Hne _]]]; [|congruence]. cbn [fst snd].
      apply Inv_intro with (fl := fl); cbn [pbuf wbuf spaces want]; try assumption.
      * rewrite Ewb. apply nosep_snoc; [constructor|assumption].
      * left. rewrite Ewb. split; [assumption|reflexivity].
    + destruct Hc as [[Hs ->]|[Hs [_ ->]]]; rewrite Hs; cbn [fst snd].
      * apply Inv_intro with (fl := fl); cbn [pbuf wbuf spaces want]; try assumption.
        { rewrite Ewb. apply nosep_snoc; assumption. }
        left. rewrite Ewb. split; [assumption|reflexivity].
      * assert (Hwb : wbuf s = d :: wb) by assumption. rewrite <- Hwb in *.
        apply Inv_intro with (fl := fl ++ [wbuf s]); unfold flush_word; cbn [pbuf wbuf spaces want].
        { apply Forall_app; split; [assumption|]. constructor; [|constructor]. split; [rewrite Hwb; discriminate| assumption]. }
        { apply pstate_flush; assumption. }
        { destruct fl; reflexivity. }
        { constructor; [assumption|constructor]. }
        left. split; reflexivity.
Qed.

Lemma Inv_init : Inv init ([], []).
Proof.
  apply Inv_intro with (fl := []); cbn.
  - constructor.
  - split; [reflexivity|auto].
  - reflexivity.
  - constructor.
  - left. split; reflexivity.
Qed.

Lemma Inv_fold t : forall s w, Inv s w -> Inv (fold_left step t s) (fold_left wstep t w).
Proof. induction t as [|c t IH]; intros s w H; [exact H|]. cbn [fold_left]. apply IH, Inv_step, H. Qed.

Lemma words_pstate p fl : Forall good fl -> pstate p fl -> words p = fl.
Proof.
  intros Hg [Hp _]. unfold words. rewrite Hp. unfold wfin. cbn [fst snd].
  destruct fl as [|w0 fl]; [reflexivity|].
  assert (Hl : last (w0 :: fl) [] <> []) by (apply good_last; [assumption|discriminate]).
  destruct (last (w0 :: fl) []) eqn:El; [congruence|]. rewrite <- El. symmetry. apply app_removelast_last. discriminate.
Qed.

Lemma finish_nil s : wbuf s = [] -> finish s = pbuf s.
Proof. unfold finish. intros ->. reflexivity. Qed.
Lemma finish_cons s : wbuf s <> [] -> finish s = pbuf s ++ sepstr s true ++ wbuf s.
Proof. unfold finish. destruct (wbuf s); [congruence|reflexivity]. Qed.

Theorem C19_words t : words (reflow t) = words t.
Proof.
  unfold reflow. destruct (Inv_fold t _ _ Inv_init) as (fl & Hg & Hp & Hw & Hn & Hc).
  set (s := fold_left step t init) in *. unfold words at 2.
  assert (Hcase : wbuf s = [] \/ wbuf s <> []) by (destruct (wbuf s); [left; reflexivity| right; discriminate]).
  destruct Hcase as [Ewb|Ewb].
  - rewrite finish_nil by assumption.
    destruct Hc as [[Hs ->]|[_ [Hne _]]]; [|congruence]. unfold wfin. cbn [fst snd]. rewrite Ewb.
    apply words_pstate; assumption.
  - rewrite finish_cons by assumption.
    assert (Hfl : words (pbuf s ++ sepstr s true ++ wbuf s) = fl ++ [wbuf s]).
    { apply words_pstate.
      - apply Forall_app; split; [assumption|]. constructor; [|constructor]. split; assumption.
      - apply pstate_flush; assumption. }
    rewrite Hfl. destruct Hc as [[Hs ->]|[Hs [_ ->]]]; unfold wfin; cbn [fst snd]; [|reflexivity].
    destruct (wbuf s); [congruence|reflexivity].
Qed.
End Reflow.
Check C19_words.
Print Assumptions C19_words.
