(* Scratch prototype, Tier 3 slice: macros.go, part 1 — paragraph machinery, scopes, closers *)
From Coq Require Import List NArith Bool Lia Arith String.
Import ListNotations.
Require Import Exp.
Open Scope N_scope.

Definition sp (l : list (string * bool)) : spec := map (fun p => (runes (fst p), snd p)) l.
Open Scope string_scope.
Definition specOptBd := sp [("t", true); ("r", false); ("id", true)].
Definition specOptBf := sp [("t", true); ("f", true); ("ns", false)].
Definition specOptBl := sp [("id", true); ("t", true); ("columns", true)].
Definition specOptBm := sp [("t", true); ("r", false); ("ns", false); ("id", true)].
Definition specOptNone : spec := [].
Definition specOptDef := sp [("f", true)].
Definition specOptEd := sp [("t", true)].
Definition specOptEm := sp [("t", true); ("ns", false)].
Definition specOptEf := sp [("ns", false)].
Definition specOptFt := sp [("t", true); ("f", true); ("ns", false)].
Definition specOptIf := sp [("eq", true); ("f", true); ("not", false)].
Definition specOptIm := sp [("alt", true); ("id", true); ("ns", false); ("link", true)].
Definition specOptLk := sp [("ns", false)].
Definition specOptSm := sp [("t", true); ("ns", false); ("id", true)].
Definition specOptSx := sp [("ns", false)].
Definition specOptTc := sp [("summary", false); ("nonum", false); ("mini", false); ("toc", false); ("lof", false); ("lot", false); ("lop", false); ("title", true)].
Definition specOptXdtag := sp [("t", true); ("f", true); ("a", true); ("c", true)].
Definition specOptXftag := sp [("t", true); ("f", true); ("shell", false); ("gsub", true); ("regexp", true)].
Definition specOptRun : spec := [].
Definition specOptXmtag := sp [("t", true); ("f", true); ("c", true); ("a", true); ("b", true); ("e", true)].
Definition specOptXset := sp [("f", true)].
Definition specOptHeader := sp [("id", true); ("nonum", false)].

Close Scope string_scope.


Definition process_paragraph (s : st) : st := (wo (format_paragraph s (flat (buf s))) s) <| buf := [] |> <| par := false |>.

Definition last_scope (m : string) (l : list scope) : option scope :=
  fold_left (fun acc sc => if str_eqb (sc_macro sc) (runes m) then Some sc else acc) l None.
Definition scope_verse (s : st) : bool :=
  match top (sblock s) with Some sc => str_eqb (sc_macro sc) (R "Bl") && str_eqb (sc_tag sc) (R "verse") | None => false end.
Definition scope_it (s : st) : bool :=
  match top (sblock s) with Some sc => str_eqb (sc_macro sc) (R "It") | None => false end.
(* endParagraph: an open verse line ends with its stanza (D27) *)
Definition end_par (b : pbreak) (s : st) : st :=
  if par s then
    let s' := process_paragraph s in
    if scope_verse s' && verse s' then (end_stanza s') <| verse := false |> else end_paragraph b s'
  else s.

(* pushScope: the opening line is that of the outermost user-macro call, else of the current block (which must exist) *)
Definition mk_scope (m tag id : str) (req : bool) (s : st) : scope * st :=
  match cloc s with
  | Some (l, _, _) => (mkScope m tag id req l true, s)
  | None => (mkScope m tag id req (line s) false, if has_cur s then s else set_panic "pushScope: no current block" s)
  end.
Definition push_block (m : string) (tag id : str) (req : bool) (s : st) : st :=
  let '(sc, s1) := mk_scope (runes m) tag id req s in s1 <| sblock ::= fun l => l ++ [sc] |>.
Definition push_inline (tag id : str) (req : bool) (s : st) : st :=
  let '(sc, s1) := mk_scope (R "Bm") tag id req s in s1 <| sinline ::= fun l => l ++ [sc] |>.

Definition reopen_spanning (s : st) : st := fold_left (fun a sc => begin_markup_block (sc_tag sc) [] a) (sinline s) s.
Definition close_spanning (s : st) : st := fold_left (fun a sc => end_markup_block (sc_tag sc) [] a) (rev (sinline s)) s.

Definition begin_phrasing (nospace : bool) (s : st) : st :=
  if par s then (if ws s && negb nospace then w (if inl s then [32] else [10]) s else s)
  else
    let s1 := if negb (inl s) && negb (scope_verse s) then reopen_spanning (begin_paragraph s)
              else if negb (inl s) then err "found verse text outside of It scope" s else s in
    s1 <| par := true |>.

Definition warn_unclosed (sc : scope) (s : st) : st := err "unclosed scope" s.

Definition tag_args (tag : str) : list arg := match tag with [] => [] | _ => [[IText (R "-t")]; [IText tag]] end.

(* macroEm *)
Definition macro_em (s : st) : st :=
  if negb (process s) then s else
  let '(o, s1) := parse_opts specOptEm (args s) s in
  match top (sinline s1) with
  | None => err "no corresponding Bm" s1
  | Some sc =>
    let s2 := s1 <| sinline ::= pop |> in
    let s3 :=
      match opt "t" o with
      | Some t => let '(tx, s') := inlines_text t s2 in if str_eqb tx (sc_tag sc) then s' else err "tag mismatch" s'
      | None => if sc_req sc then err "missing required tag" s2 else s2
      end in
    let '(punct, rest, s4) :=
      match po_args o with
      | [] => ([], [], s3)
      | a :: r =>
          let '(use, s') := if negb (inl s3) then (true, s3) else is_punct_arg a s3 in
          if use then let '(p, s'') := render_text a s' in (p, r, s'') else ([], a :: r, s')
      end in
    let s5 := if par s4 then end_markup_block (sc_tag sc) punct s4 else w punct s4 in
    let s6 := match rest with
              | [] => s5
              | _ => if negb (inl s5) then err "useless args in macro Em" s5
                     else let '(t, s') := render_args rest s5 in w t s'
              end in
    s6 <| ws := negb (flag "ns" o) |>
  end.

(* closeUnclosedScopes(scopeInline) *)
Fixpoint close_inline_loop (fuel : nat) (cur : str) (s : st) : st :=
  match fuel with O => s | S f =>
    match top (sinline s) with
    | None => s
    | Some sc =>
      let s1 := warn_unclosed sc (s <| macro := cur |>) in
      let s2 := s1 <| macro := R "Em" |> <| args := tag_args (sc_tag sc) |> in
      let q := quiet s2 in
      let s3 := (macro_em (s2 <| quiet := true |>)) <| quiet := q |> <| args := [] |> in
      close_inline_loop f cur s3
    end end.
Definition close_unclosed_inline (s : st) : st :=
  match sinline s with
  | [] => s
  | l => let m := macro s in let a := args s in
         (close_inline_loop (S (List.length l)) m (s <| args := [] |>)) <| macro := m |> <| args := a |>
  end.

(* macroEd, macroEl and closeUnclosedBlocks call each other; the block stack shrinks, fuel bounds it *)
Definition dtag_cmd (tag : str) (s : st) : str := match assoc tag (dtags s) with Some d => dt_cmd d | None => [] end.

Definition el_infos (s : st) : st :=
  if tscope s then
    let cols := if Nat.eqb (tcols s) 0 then tcell s else tcols s in
    s <| tinfo ::= fun l => l ++ [mkTd (ttitle s) cols (tid s)] |> <| tcount ::= S |>
      <| tcell := 0%nat |> <| tcols := 0%nat |> <| tid := [] |> <| tscope := false |> <| ttitscope := false |> <| ttitle := [] |>
  else s.

(* pop block scopes until a Bl has been popped; reports whether an It was above it *)
Fixpoint pop_to_bl (fuel : nat) (seen_it : bool) (s : st) : bool * st :=
  match fuel with O => (seen_it, s) | S f =>
    match top (sblock s) with
    | None => (seen_it, set_panic "macroElProcess: nil scope" s)
    | Some sc =>
      let s1 := s <| sblock ::= pop |> in
      if str_eqb (sc_macro sc) (R "Bl") then (seen_it, s1)
      else pop_to_bl f (seen_it || str_eqb (sc_macro sc) (R "It")) s1
    end end.

Fixpoint closers (fuel : nat) : (st -> st) * (st -> st) * (string -> st -> st) :=
  match fuel with
  | O => (fun s => s, fun s => s, fun _ s => s)
  | S f =>
    let '(ed, el, cub) := closers f in
    (* closeUnclosedBlocks(macro) *)
    let close_unclosed_blocks (mname : string) (s : st) : st :=
      let scopes := sblock s in
      if Nat.leb (List.length scopes) 1 then s else
      if negb (existsb (fun sc => str_eqb (sc_macro sc) (runes mname) || (String.eqb mname "It" && str_eqb (sc_macro sc) (R "Bl"))) scopes) then s else
      match top scopes with
      | None => s
      | Some t0 =>
        if str_eqb (sc_macro t0) (macro s) || (String.eqb mname "It" && str_eqb (sc_macro t0) (R "Bl")) then s else
        let cur := macro s in let cura := args s in
        let fix loop (l : list scope) (s : st) : st :=          (* l: snapshot, top first *)
          match l with
          | [] => s
          | sc :: r =>
            if str_eqb (sc_macro sc) (runes mname) || (String.eqb mname "It" && str_eqb (sc_macro sc) (R "Bl")) then s else
            let s1 := end_par PNormal s in
            let is_list := str_eqb (sc_macro sc) (R "Bl") || str_eqb (sc_macro sc) (R "It") in
            let s2 := err "found macro while block isn't closed yet" s1 in
            let s3 := s2 <| macro := (if is_list then R "El" else R "Ed") |> <| args := tag_args (sc_tag sc) |> in
            let q := quiet s3 in
            let s4 := (if is_list then el else ed) (s3 <| quiet := true |>) in
            loop r (s4 <| quiet := q |> <| macro := cur |> <| args := cura |>)
          end in
        (loop (rev scopes) (s <| args := [] |>)) <| macro := cur |> <| args := cura |>
      end in
    (* macroEd *)
    let macro_ed (s : st) : st :=
      if scope_verse s then err "Ed disallowed within verse" s else
      if negb (process s) then s else
      let '(o, s1) := parse_opts specOptEd (args s) s in
      let s2 := match po_args o with [] => s1 | _ => err "useless arguments" s1 end in
      match last_scope "Bd" (sblock s2) with
      | None => err "no corresponding Bd" s2
      | Some sc =>
        let s3 := match opt "t" o with
                  | Some t => let '(tx, s') := inlines_text t s2 in if str_eqb tx (sc_tag sc) then s' else err "tag mismatch" s'
                  | None => if sc_req sc then err "missing required tag" s2 else s2
                  end in
        let pb := match dtag_cmd (sc_tag sc) s3 with [] => PNormal | _ => PBlock end in
        let s4 := close_unclosed_blocks "Bd"%string (close_unclosed_inline s3) in
        let s5 := end_par pb (s4 <| sblock ::= pop |>) in
        (end_display_block (sc_tag sc) s5) <| ws := false |>
      end in
    (* macroEl *)
    let macro_el (s : st) : st :=
      if negb (process s) then el_infos s else
      match last_scope "Bl" (sblock s) with
      | None => err "no corresponding Bl" s
      | Some sc =>
        let s1 := close_unclosed_blocks "It"%string (close_unclosed_inline s) in
        let '(item, s2) := pop_to_bl (S (List.length (sblock s1))) false s1 in
        let '(o, s3) := parse_opts specOptNone (args s2) s2 in
        let s4 := match po_args o with [] => s3 | _ => err "useless arguments" s3 end in
        let tag := sc_tag sc in
        let s5 :=
          if item then s4 else
          if str_eqb tag (R "desc") then begin_desc_value (err "no previous It in desc list" s4)
          else if str_eqb tag (R "item") then begin_item (err "no previous It" s4)
          else if str_eqb tag (R "enum") then begin_enum_item (err "no previous It" s4)
          else if str_eqb tag (R "verse") then (if par s4 && negb (verse s4) then err "unexpected accumulated text" s4 else s4)
          else (if par s4 then err "unexpected accumulated text" s4 else s4) in
        let s6 :=
          if str_eqb tag (R "verse") then
            end_verse ((if par s5 then
                          let vl := verse s5 in
                          let x := close_unclosed_inline (process_paragraph s5) in
                          if vl then end_stanza x else end_paragraph PNormal x
                        else s5) <| verse := false |>)
          else if str_eqb tag (R "desc") then end_desc_list (end_desc_value (end_par PItem s5))
          else if str_eqb tag (R "enum") then end_enum_list (end_item (close_unclosed_inline (end_par PItem s5)))
          else if str_eqb tag (R "item") then end_item_list (end_item (close_unclosed_inline (end_par PItem s5)))
          else if str_eqb tag (R "table") then
            let s' := if item then end_table_row (end_table_cell (close_unclosed_inline (end_par PItem s5))) else s5 in
            match nth_error (tinfo s') (tcount s') with
            | None => (end_table (mkTd [] 0%nat []) s') <| ttitscope := false |> <| tscope := false |> <| tcell := 0%nat |> <| tcols := 0%nat |> <| tcount ::= S |>
            | Some ti => (end_table ti s') <| ttitscope := false |> <| tscope := false |> <| tcell := 0%nat |> <| tcols := 0%nat |> <| tcount ::= S |>
            end
          else s5 in
        s6 <| ws := false |>
      end in
    (macro_ed, macro_el, close_unclosed_blocks)
  end.

Definition closer_fuel (s : st) : nat := (2 * List.length (sblock s) + 4)%nat.
Definition macro_ed (s : st) : st := fst (fst (closers (closer_fuel s))) s.
Definition macro_el (s : st) : st := snd (fst (closers (closer_fuel s))) s.
Definition close_unclosed_blocks (m : string) (s : st) : st := snd (closers (closer_fuel s)) m s.

(* closeUnclosedScopes(scopeBlock) *)
Fixpoint close_block_loop (fuel : nat) (cur : str) (s : st) : st :=
  match fuel with O => s | S f =>
    match top (sblock s) with
    | None => s
    | Some sc =>
      let is_list := str_eqb (sc_macro sc) (R "Bl") || str_eqb (sc_macro sc) (R "It") in
      let s1 := warn_unclosed sc (s <| macro := cur |>) in
      let s2 := s1 <| macro := (if is_list then R "El" else R "Ed") |> <| args := tag_args (sc_tag sc) |> in
      let q := quiet s2 in
      let s3 := ((if is_list then macro_el else macro_ed) (s2 <| quiet := true |>)) <| quiet := q |> <| args := [] |> in
      close_block_loop f cur s3
    end end.
Definition close_unclosed_block (s : st) : st :=
  match sblock s with
  | [] => s
  | l => let m := macro s in let a := args s in
         (close_block_loop (S (S (List.length l))) m (s <| args := [] |>)) <| macro := m |> <| args := a |>
  end.
